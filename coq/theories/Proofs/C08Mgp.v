(* C08 proofs, part 5: the multiplicative-gamma-process block.  With tau = cumprod gam, the
   draw of gam[dd] is Gamma(shape, rate) with (shape - 1, rate) the coefficients of -2 ln gam[dd]
   and 2 gam[dd] in the energy.  Needs ln (a b) = ln a + ln b on positive numbers. *)
From Coq Require Import ZArith List QArith Qcanon Lia Lqa Arith Bool.
From Batchie Require Import Lib.Num Lib.NumP Model.Gibbs Model.GibbsSpec Proofs.C08Sums Proofs.C08Gauss Proofs.C08Misc.
Import ListNotations.
Open Scope Qc_scope.

Lemma Qc_mul_pos (x y : Qc) : 0 < x -> 0 < y -> 0 < x * y.
Proof. unfold Qclt, Qcmult; cbn [this Q2Qc]; rewrite !Qred_correct. intros; nra. Qed.

Lemma vnth_overflow v k : (length v <= k)%nat -> vnth v k = 0.
Proof. intros H. unfold vnth. now apply nth_overflow. Qed.

Lemma cumprod_from_length acc l : length (cumprod_from acc l) = length l.
Proof. revert acc; induction l as [|a l IH]; intros acc; cbn [cumprod_from length]; auto. Qed.

Lemma cumprod_from_scale c acc l k : vnth (cumprod_from (c * acc) l) k = c * vnth (cumprod_from acc l) k.
Proof.
  revert acc k; induction l as [|a l IH]; intros acc k; cbn [cumprod_from].
  - rewrite !vnth_nil. ring.
  - destruct k as [|k]; unfold vnth; cbn [nth]; [ring|]. fold (vnth (cumprod_from (c * acc * a) l) k).
    fold (vnth (cumprod_from (acc * a) l) k). rewrite <- IH. f_equal. f_equal. ring.
Qed.

(* components from dd on are linear in gam[dd] *)
Lemma cumprod_from_set_ge acc l dd t k :
  (dd < length l)%nat -> (dd <= k)%nat ->
  vnth (cumprod_from acc (set_nth dd t l)) k = t * vnth (cumprod_from acc (set_nth dd 1 l)) k.
Proof.
  revert acc dd k; induction l as [|a l IH]; intros acc dd k Hd Hk; [cbn in Hd; lia|].
  destruct dd as [|dd]; cbn [set_nth cumprod_from].
  - destruct k as [|k]; unfold vnth; cbn [nth]; [ring|].
    fold (vnth (cumprod_from (acc * t) l) k). fold (vnth (cumprod_from (acc * 1) l) k).
    replace (acc * t) with (t * (acc * 1)) by ring. apply cumprod_from_scale.
  - destruct k as [|k]; [lia|]. unfold vnth; cbn [nth]. apply IH; cbn [length] in Hd; lia.
Qed.

(* components before dd do not depend on gam[dd] *)
Lemma cumprod_from_set_lt acc l dd t k :
  (k < dd)%nat -> vnth (cumprod_from acc (set_nth dd t l)) k = vnth (cumprod_from acc l) k.
Proof.
  revert acc dd k; induction l as [|a l IH]; intros acc dd k Hk; [reflexivity|].
  destruct dd as [|dd]; [lia|]. cbn [set_nth cumprod_from].
  destruct k as [|k]; unfold vnth; cbn [nth]; [reflexivity|]. apply IH. lia.
Qed.

Lemma cumprod_from_pos acc l k :
  0 < acc -> Forall (fun x => 0 < x) l -> (k < length l)%nat -> 0 < vnth (cumprod_from acc l) k.
Proof.
  revert acc k; induction l as [|a l IH]; intros acc k Ha Hl Hk; [cbn in Hk; lia|].
  inversion Hl as [|? ? Ha' Hl']; subst. cbn [cumprod_from]. destruct k as [|k]; unfold vnth; cbn [nth].
  - now apply Qc_mul_pos.
  - apply IH; [now apply Qc_mul_pos|exact Hl'|cbn [length] in Hk; lia].
Qed.

Lemma Forall_set_nth {A} (P : A -> Prop) i x l : P x -> Forall P l -> Forall P (set_nth i x l).
Proof.
  revert i; induction l as [|a l IH]; intros i Hx Hl; cbn [set_nth]; [constructor|].
  inversion Hl; subst. destruct i; constructor; auto.
Qed.

Lemma sumn_split D dd f : (dd <= D)%nat -> sumn D f = sumn dd f + sumn (D - dd) (fun j => f (dd + j)%nat).
Proof.
  intros H. replace D with (dd + (D - dd))%nat at 1 by lia. generalize (D - dd)%nat as m. intros m.
  induction m as [|m IH]; [rewrite Nat.add_0_r, sumn_0; ring|].
  rewrite Nat.add_succ_r, !sumn_S, IH. ring.
Qed.

Lemma sumn_const m c : sumn m (fun _ => c) = qnat m * c.
Proof.
  induction m as [|m IH]; [rewrite sumn_0; replace (qnat 0) with 0 by (apply Qc_is_canon; reflexivity); ring|].
  rewrite sumn_S, IH. unfold qnat, qofZ. rewrite Nat2Z.inj_succ, <- Z.add_1_r.
  replace (Q2Qc (inject_Z (Z.of_nat m + 1))) with (Q2Qc (inject_Z (Z.of_nat m)) + 1); [ring|].
  apply Qc_is_canon. unfold Qcplus. cbn [this Q2Qc]. rewrite !Qred_correct, inject_Z_plus. reflexivity.
Qed.

Section Mgp.
Variable ln : Qc -> Qc.
Hypothesis ln_mul : forall a b, 0 < a -> 0 < b -> ln (a * b) = ln a + ln b.
Variable g : cfg.
Variable d : data.
Notation D := (c_D g).

(* the state in which tau is the cumulative product of gam *)
Definition tie (s : st) : st := set_tau s (cumprod (gam s)).
Definition upd_gam (s : st) (dd : nat) (t : Qc) : st := tie (set_gam s (set_nth dd t (gam s))).

Theorem gamma_block_gam s dd :
  Forall (fun x => 0 < x) (gam s) -> length (gam s) = D -> (dd < D)%nat ->
  forall t t', 0 < t -> 0 < t' ->
    energy ln g d (upd_gam s dd t) - energy ln g d (upd_gam s dd t')
    = - (qofZ 2 * (gam_shape g dd - 1) * (ln t - ln t')) + qofZ 2 * (1 + gam_half_ss g s dd + jitter) * (t - t').
Proof.
  intros Hpos Hlen Hdd t t' Ht Ht'.
  set (R := fun k => vnth (cumprod (set_nth dd 1 (gam s))) k).
  assert (Hdl : (dd < length (gam s))%nat) by lia.
  assert (HR : forall k, (dd <= k)%nat -> (k < D)%nat -> 0 < R k).
  { intros k _ Hk. unfold R, cumprod. apply cumprod_from_pos.
    - unfold Qclt. vm_compute. reflexivity.
    - apply Forall_set_nth; [unfold Qclt; vm_compute; reflexivity|exact Hpos].
    - rewrite set_nth_length. lia. }
  assert (Hge : forall z k, (dd <= k)%nat -> vnth (cumprod (set_nth dd z (gam s))) k = z * R k).
  { intros z k Hk. unfold R, cumprod. now apply cumprod_from_set_ge. }
  assert (Hlt : forall z k, (k < dd)%nat -> vnth (cumprod (set_nth dd z (gam s))) k = vnth (cumprod (gam s)) k).
  { intros z k Hk. unfold cumprod. now apply cumprod_from_set_lt. }
  assert (Hcode : forall k, (dd <= k)%nat -> vnth (cumprod (gam s)) k / vnth (gam s) dd = R k).
  { intros k Hk. rewrite <- (set_nth_same dd 0 (gam s)) at 1. fold (vnth (gam s) dd). rewrite Hge by exact Hk.
    assert (Hg : 0 < vnth (gam s) dd).
    { rewrite Forall_forall in Hpos. apply Hpos. unfold vnth. now apply nth_In. }
    field. intros E. rewrite E in Hg. apply Qclt_not_eq in Hg. now apply Hg. }
  (* the two energy components that mention gam / tau *)
  assert (HW : forall z, 0 < z ->
     e_W ln g (upd_gam s dd z)
     = (sumn (c_ncl g) (fun c => sumn dd (fun k => vnth (cumprod (gam s)) k * qsq (vnth (rnth (W s) c) k)))
        + z * sumn (c_ncl g) (fun c => sumn (D - dd) (fun j => R (dd + j)%nat * qsq (vnth (rnth (W s) c) (dd + j)%nat))))
       - qnat (c_ncl g) * (sumn dd (fun k => ln (vnth (cumprod (gam s)) k))
                           + (qnat (D - dd) * ln z + sumn (D - dd) (fun j => ln (R (dd + j)%nat))))).
  { intros z Hz. unfold e_W, upd_gam, tie. cbn [tau W set_tau set_gam gam]. f_equal.
    - rewrite <- sumn_scale, <- sumn_add. apply sumn_ext; intros c _.
      rewrite (sumn_split D dd) by lia. rewrite <- sumn_scale. f_equal.
      + apply sumn_ext; intros k Hk. now rewrite Hlt by exact Hk.
      + apply sumn_ext; intros j Hj. rewrite Hge by lia. ring.
    - f_equal. rewrite (sumn_split D dd) by lia. f_equal.
      + apply sumn_ext; intros k Hk. now rewrite Hlt by exact Hk.
      + rewrite <- sumn_const, <- sumn_add. apply sumn_ext; intros j Hj. rewrite Hge by lia.
        apply ln_mul; [exact Hz|apply HR; lia]. }
  assert (HH : forall z,
     e_hyper ln g (upd_gam s dd z)
     = e_gamma ln (prec s) (c_a0 g) (c_b0 g + jitter) + e_gamma ln (tau0 s) (c_a0 g) (c_b0 g + jitter)
       + (sumn D (fun l => e_gamma ln (vnth (gam s) l) (match l with O => qofZ 2 | _ => qofZ 3 end) (1 + jitter))
          - e_gamma ln (vnth (gam s) dd) (match dd with O => qofZ 2 | _ => qofZ 3 end) (1 + jitter)
          + e_gamma ln z (match dd with O => qofZ 2 | _ => qofZ 3 end) (1 + jitter))).
  { intros z. unfold e_hyper, upd_gam, tie. cbn [prec tau0 gam set_tau set_gam]. f_equal.
    rewrite <- (sumn_update D dd (fun l => e_gamma ln (vnth (gam s) l) (match l with O => qofZ 2 | _ => qofZ 3 end) (1 + jitter))) by exact Hdd.
    apply sumn_ext; intros l _. rewrite vnth_set_nth, (Nat.eqb_sym dd l).
    apply Nat.ltb_lt in Hdl. rewrite Hdl, andb_true_r. destruct (Nat.eqb l dd) eqn:E; [apply Nat.eqb_eq in E; subst|]; reflexivity. }
  unfold energy.
  change (e_lik ln g d (upd_gam s dd t)) with (e_lik ln g d s). change (e_lik ln g d (upd_gam s dd t')) with (e_lik ln g d s).
  change (e_W0 ln g (upd_gam s dd t)) with (e_W0 ln g s). change (e_W0 ln g (upd_gam s dd t')) with (e_W0 ln g s).
  change (e_V0 ln g (upd_gam s dd t)) with (e_V0 ln g s). change (e_V0 ln g (upd_gam s dd t')) with (e_V0 ln g s).
  rewrite (HW t Ht), (HW t' Ht'), (HH t), (HH t').
  cbn [upd_gam tie set_tau set_gam V2 V1 phi2 phi1 eta2 eta1].
  unfold gam_half_ss, gam_shape, e_gamma.
  rewrite (sumn_ext (c_ncl g) (fun c => sumn (D - dd) (fun j => vnth (cumprod (gam s)) (dd + j) / vnth (gam s) dd * qsq (vnth (rnth (W s) c) (dd + j))))
                    (fun c => sumn (D - dd) (fun j => R (dd + j)%nat * qsq (vnth (rnth (W s) c) (dd + j)%nat))))
    by (intros c _; apply sumn_ext; intros j _; rewrite Hcode by lia; reflexivity).
  rewrite half_inv, q2_eq. field. exact two_neq0.
Qed.

(* the head draw of the gamma-process program is exactly that draw *)
Lemma prog_gam_head orc dd r s :
  exists k, prog_gam g d orc (dd :: r) s = Draw (DGamma (gam_shape g dd) (1 + gam_half_ss g s dd + jitter)) k.
Proof. eexists. reflexivity. Qed.
End Mgp.
