(* C05 proofs, part 6: relabelling the posterior samples.  If every 3-subset of the samples is
   enumerated (in any order), then relabelling the samples by a permutation, consistently in the
   means, the variances and a symmetric distance matrix, leaves the score unchanged. *)
From Coq Require Import ZArith List QArith Qcanon Lia Arith Permutation.
From Batchie Require Import Lib.Sexp Lib.Num Lib.NumP Lib.ListX Model.Dbal
  Proofs.C05Pad Proofs.C05Lse Proofs.C05Kernel.
Import ListNotations.

Definition sigma (sg : list nat) (i : nat) : nat := nth i sg 0%nat.
(* new sample i is old sample (sigma i) *)
Definition relabel_rows {A} (sg : list nat) (a : list (list A)) : list (list A) :=
  map (fun i => nth i a []) sg.
Definition relabel_plate (sg : list nat) (pl : plate) : plate :=
  (relabel_rows sg (fst pl), relabel_rows sg (snd pl)).
Definition relabel_matrix (sg : list nat) (D : list (list Qc)) : list (list Qc) :=
  map (fun i => map (fun j => get2 0%Qc D i j) sg) sg.
Definition sym_on (T : nat) (D : list (list Qc)) : Prop :=
  forall i j, (i < T)%nat -> (j < T)%nat -> get2 0%Qc D i j = get2 0%Qc D j i.
(* every triple a > b > c of samples is enumerated exactly once *)
Definition complete (T : nat) (ts : list triple) : Prop :=
  NoDup ts /\ forall a b c, In (a, b, c) ts <-> (c < b /\ b < a /\ a < T)%nat.

Definition map3 (f : nat -> nat) (t : triple) : triple := let '(a, b, c) := t in (f a, f b, f c).
Definition s12 (t : triple) : triple := let '(a, b, c) := t in if (a <? b)%nat then (b, a, c) else (a, b, c).
Definition s23 (t : triple) : triple := let '(a, b, c) := t in if (b <? c)%nat then (a, c, b) else (a, b, c).
Definition sort3 (t : triple) : triple := s12 (s23 (s12 t)).

(* ---- the permutation ---- *)
Section Sigma.
Variables (sg : list nat) (T : nat).
Hypothesis Hsg : Permutation sg (seq 0 T).

Lemma sg_length : length sg = T.
Proof. now rewrite (Permutation_length Hsg), seq_length. Qed.

Lemma sigma_lt i : (i < T)%nat -> (sigma sg i < T)%nat.
Proof.
  intros Hi. unfold sigma.
  assert (Hin : In (nth i sg 0%nat) sg) by (apply nth_In; now rewrite sg_length).
  apply (Permutation_in _ Hsg) in Hin. apply in_seq in Hin. lia.
Qed.

Lemma sigma_inj i j : (i < T)%nat -> (j < T)%nat -> sigma sg i = sigma sg j -> i = j.
Proof.
  intros Hi Hj. unfold sigma.
  assert (Hnd : NoDup sg) by (apply (Permutation_NoDup (Permutation_sym Hsg)), seq_NoDup).
  apply (proj1 (NoDup_nth sg 0%nat) Hnd); now rewrite sg_length.
Qed.

Lemma get2_relabel_rows {A} (d : A) a i e : (i < T)%nat ->
  get2 d (relabel_rows sg a) i e = get2 d a (sigma sg i) e.
Proof.
  intros Hi. unfold get2, relabel_rows, sigma.
  now rewrite (nth_map_in _ sg i 0%nat []) by now rewrite sg_length.
Qed.

Lemma get2_relabel_matrix D i j : (i < T)%nat -> (j < T)%nat ->
  get2 0%Qc (relabel_matrix sg D) i j = get2 0%Qc D (sigma sg i) (sigma sg j).
Proof.
  intros Hi Hj. unfold relabel_matrix. unfold get2 at 1.
  rewrite (nth_map_in _ sg i 0%nat []) by now rewrite sg_length.
  rewrite (nth_map_in _ sg j 0%nat 0%Qc) by now rewrite sg_length. reflexivity.
Qed.

Lemma n_exp_relabel pl : (0 < T)%nat -> plate_wf T pl -> n_exp (relabel_plate sg pl) = n_exp pl.
Proof.
  intros HT (E & Hm & Hv). unfold n_exp at 2. rewrite (rect_width T E _ Hm HT).
  unfold n_exp, relabel_plate, relabel_rows, shape2. cbn [fst snd].
  replace (hd [] (map (fun i => nth i (fst pl) []) sg)) with (nth 0 (map (fun i => nth i (fst pl) []) sg) [])
    by (destruct (map _ sg); reflexivity).
  rewrite (nth_map_in _ sg 0%nat 0%nat []) by (rewrite sg_length; exact HT).
  apply (rect_row T E _ _ Hm). apply sigma_lt. exact HT.
Qed.

Lemma direct_summand_relabel orc D df pl t :
  (0 < T)%nat -> plate_wf T pl -> triple_valid T t ->
  direct_summand orc (relabel_matrix sg D) df (relabel_plate sg pl) t
  = direct_summand orc D df pl (map3 (sigma sg) t).
Proof.
  intros HT Hwf Hv. destruct t as [[a b] c]. destruct Hv as (Ha & Hb & Hc).
  unfold direct_summand, map3.
  rewrite !get2_relabel_matrix by assumption.
  destruct (qeqb _ 0%Qc); [reflexivity|].
  fold (n_exp (relabel_plate sg pl)). fold (n_exp pl). rewrite (n_exp_relabel pl HT Hwf).
  replace (map (direct_exp_term orc (relabel_plate sg pl) (a, b, c)) (seq 0 (n_exp pl)))
    with (map (direct_exp_term orc pl (sigma sg a, sigma sg b, sigma sg c)) (seq 0 (n_exp pl))); [reflexivity|].
  apply map_ext. intros e. unfold direct_exp_term. cbn [relabel_plate fst snd].
  now rewrite !get2_relabel_rows by assumption.
Qed.
End Sigma.

(* ---- the per-triple summand is symmetric in the three samples ---- *)
Lemma triple_term_swap12 orc v1 v2 v3 m1 m2 m3 :
  triple_term orc v2 v1 v3 m2 m1 m3 = triple_term orc v1 v2 v3 m1 m2 m3.
Proof.
  unfold triple_term. cbv zeta.
  replace (v2 * v1 + v1 * v3 + v2 * v3)%Qc with (v1 * v2 + v2 * v3 + v1 * v3)%Qc by ring.
  f_equal. unfold qsq, Qcdiv. ring.
Qed.

Lemma triple_term_swap23 orc v1 v2 v3 m1 m2 m3 :
  triple_term orc v1 v3 v2 m1 m3 m2 = triple_term orc v1 v2 v3 m1 m2 m3.
Proof.
  unfold triple_term. cbv zeta.
  replace (v1 * v3 + v3 * v2 + v1 * v2)%Qc with (v1 * v2 + v2 * v3 + v1 * v3)%Qc by ring.
  f_equal. unfold qsq, Qcdiv. ring.
Qed.

Section Sym.
Variables (orc : oracle) (T : nat) (D : list (list Qc)) (df : Qc) (pl : plate).
Hypothesis Hsym : sym_on T D.

Lemma direct_summand_swap12 a b c : (a < T)%nat -> (b < T)%nat -> (c < T)%nat ->
  direct_summand orc D df pl (b, a, c) = direct_summand orc D df pl (a, b, c).
Proof.
  intros Ha Hb Hc. unfold direct_summand.
  replace (get2 0%Qc D b a + get2 0%Qc D a c + get2 0%Qc D b c)%Qc
    with (get2 0%Qc D a b + get2 0%Qc D b c + get2 0%Qc D a c)%Qc
    by (rewrite (Hsym b a Hb Ha); ring).
  assert (Hterm : forall e, direct_exp_term orc pl (b, a, c) e = direct_exp_term orc pl (a, b, c) e)
    by (intros e; unfold direct_exp_term; apply triple_term_swap12).
  now rewrite (map_ext _ _ Hterm).
Qed.

Lemma direct_summand_swap23 a b c : (a < T)%nat -> (b < T)%nat -> (c < T)%nat ->
  direct_summand orc D df pl (a, c, b) = direct_summand orc D df pl (a, b, c).
Proof.
  intros Ha Hb Hc. unfold direct_summand.
  replace (get2 0%Qc D a c + get2 0%Qc D c b + get2 0%Qc D a b)%Qc
    with (get2 0%Qc D a b + get2 0%Qc D b c + get2 0%Qc D a c)%Qc
    by (rewrite (Hsym c b Hc Hb); ring).
  assert (Hterm : forall e, direct_exp_term orc pl (a, c, b) e = direct_exp_term orc pl (a, b, c) e)
    by (intros e; unfold direct_exp_term; apply triple_term_swap23).
  now rewrite (map_ext _ _ Hterm).
Qed.

Lemma direct_summand_s12 t : triple_valid T t ->
  direct_summand orc D df pl (s12 t) = direct_summand orc D df pl t /\ triple_valid T (s12 t).
Proof.
  destruct t as [[a b] c]. intros (Ha & Hb & Hc). unfold s12. destruct (a <? b)%nat.
  - split; [now apply direct_summand_swap12|cbn; tauto].
  - split; [reflexivity|cbn; tauto].
Qed.

Lemma direct_summand_s23 t : triple_valid T t ->
  direct_summand orc D df pl (s23 t) = direct_summand orc D df pl t /\ triple_valid T (s23 t).
Proof.
  destruct t as [[a b] c]. intros (Ha & Hb & Hc). unfold s23. destruct (b <? c)%nat.
  - split; [now apply direct_summand_swap23|cbn; tauto].
  - split; [reflexivity|cbn; tauto].
Qed.

Lemma direct_summand_sort3 t : triple_valid T t ->
  direct_summand orc D df pl (sort3 t) = direct_summand orc D df pl t.
Proof.
  intros Hv. unfold sort3.
  destruct (direct_summand_s12 t Hv) as [E1 V1].
  destruct (direct_summand_s23 _ V1) as [E2 V2].
  destruct (direct_summand_s12 _ V2) as [E3 _].
  now rewrite E3, E2, E1.
Qed.
End Sym.

(* ---- sorting a triple: descending, same members ---- *)
Lemma sort3_spec a b c :
  let '(x, y, z) := sort3 (a, b, c) in
  (z <= y /\ y <= x)%nat /\ forall n : nat, (n = x \/ n = y \/ n = z) <-> (n = a \/ n = b \/ n = c).
Proof.
  unfold sort3, s12 at 2. destruct (Nat.ltb_spec a b); unfold s23;
    match goal with |- context [(?u <? ?v)%nat] => destruct (Nat.ltb_spec u v) end; unfold s12;
    match goal with |- context [(?u <? ?v)%nat] => destruct (Nat.ltb_spec u v) end;
    (split; [lia|intros n; lia]).
Qed.

Ltac sort3_cases a b :=
  unfold sort3, s12 at 2; destruct (Nat.ltb_spec a b); unfold s23;
  match goal with |- context [(?u <? ?v)%nat] => destruct (Nat.ltb_spec u v) end; unfold s12;
  match goal with |- context [(?u <? ?v)%nat] => destruct (Nat.ltb_spec u v) end.

Lemma sort3_strict a b c : a <> b -> a <> c -> b <> c ->
  let '(x, y, z) := sort3 (a, b, c) in (z < y /\ y < x)%nat.
Proof. intros Hab Hac Hbc. sort3_cases a b; lia. Qed.

Lemma sort3_bound T a b c : (a < T)%nat -> (b < T)%nat -> (c < T)%nat ->
  let '(x, y, z) := sort3 (a, b, c) in (x < T)%nat.
Proof. intros Ha Hb Hc. sort3_cases a b; lia. Qed.

(* two strictly descending triples with the same members are equal *)
Lemma desc_mem_eq a b c a' b' c' :
  (c < b /\ b < a)%nat -> (c' < b' /\ b' < a')%nat ->
  (forall n : nat, (n = a \/ n = b \/ n = c) <-> (n = a' \/ n = b' \/ n = c')) ->
  a = a' /\ b = b' /\ c = c'.
Proof.
  intros H H' Hm.
  pose proof (proj1 (Hm a) (or_introl eq_refl)) as Ma.
  pose proof (proj2 (Hm a') (or_introl eq_refl)) as Ma'.
  assert (Ea : a = a') by lia.
  pose proof (proj1 (Hm c) (or_intror (or_intror eq_refl))) as Mc.
  pose proof (proj2 (Hm c') (or_intror (or_intror eq_refl))) as Mc'.
  assert (Ec : c = c') by lia.
  pose proof (proj1 (Hm b) (or_intror (or_introl eq_refl))) as Mb.
  lia.
Qed.

Definition desc (T : nat) (t : triple) : Prop := let '(a, b, c) := t in (c < b /\ b < a /\ a < T)%nat.
Definition phi (sg : list nat) (t : triple) : triple := sort3 (map3 (sigma sg) t).

Lemma desc_valid T t : desc T t -> triple_valid T t.
Proof. destruct t as [[a b] c]. cbn. lia. Qed.

Section Phi.
Variables (sg : list nat) (T : nat).
Hypothesis Hsg : Permutation sg (seq 0 T).

Lemma phi_desc t : desc T t -> desc T (phi sg t).
Proof.
  destruct t as [[a b] c]. intros (Hcb & Hba & HaT). unfold phi, map3.
  pose proof (sigma_lt sg T Hsg a ltac:(lia)) as La.
  pose proof (sigma_lt sg T Hsg b ltac:(lia)) as Lb.
  pose proof (sigma_lt sg T Hsg c ltac:(lia)) as Lc.
  assert (Nab : sigma sg a <> sigma sg b) by (intros E; apply (sigma_inj sg T Hsg) in E; lia).
  assert (Nac : sigma sg a <> sigma sg c) by (intros E; apply (sigma_inj sg T Hsg) in E; lia).
  assert (Nbc : sigma sg b <> sigma sg c) by (intros E; apply (sigma_inj sg T Hsg) in E; lia).
  pose proof (sort3_strict _ _ _ Nab Nac Nbc) as Hs.
  pose proof (sort3_bound T _ _ _ La Lb Lc) as Hb.
  destruct (sort3 _) as [[x y] z]. unfold desc. lia.
Qed.

Lemma phi_inj t1 t2 : desc T t1 -> desc T t2 -> phi sg t1 = phi sg t2 -> t1 = t2.
Proof.
  destruct t1 as [[a b] c], t2 as [[a' b'] c']. intros (Hcb & Hba & HaT) (Hcb' & Hba' & HaT').
  unfold phi, map3.
  pose proof (sort3_spec (sigma sg a) (sigma sg b) (sigma sg c)) as Hs.
  pose proof (sort3_spec (sigma sg a') (sigma sg b') (sigma sg c')) as Hs'.
  destruct (sort3 (sigma sg a, _, _)) as [[x y] z]. destruct (sort3 (sigma sg a', _, _)) as [[x' y'] z'].
  intros Heq. inversion Heq; subst x' y' z'.
  destruct Hs as [_ Hmem], Hs' as [_ Hmem'].
  assert (Hm : forall n, (n = sigma sg a \/ n = sigma sg b \/ n = sigma sg c)
                         <-> (n = sigma sg a' \/ n = sigma sg b' \/ n = sigma sg c')).
  { intros n. rewrite <- (Hmem n). apply Hmem'. }
  clear Hmem Hmem' Heq.
  assert (Hpre : forall n : nat, (n = a \/ n = b \/ n = c) <-> (n = a' \/ n = b' \/ n = c')).
  { intros n; split; intros Hn.
    - assert (Hn' : (n < T)%nat) by lia.
      assert (Hsn : sigma sg n = sigma sg a \/ sigma sg n = sigma sg b \/ sigma sg n = sigma sg c)
        by (destruct Hn as [->|[->| ->]]; auto).
      apply (Hm (sigma sg n)) in Hsn.
      destruct Hsn as [E|[E|E]]; apply (sigma_inj sg T Hsg) in E; auto; lia.
    - assert (Hn' : (n < T)%nat) by lia.
      assert (Hsn : sigma sg n = sigma sg a' \/ sigma sg n = sigma sg b' \/ sigma sg n = sigma sg c')
        by (destruct Hn as [->|[->| ->]]; auto).
      apply (Hm (sigma sg n)) in Hsn.
      destruct Hsn as [E|[E|E]]; apply (sigma_inj sg T Hsg) in E; auto; lia. }
  destruct (desc_mem_eq a b c a' b' c' ltac:(lia) ltac:(lia) Hpre) as (-> & -> & ->). reflexivity.
Qed.
End Phi.

Lemma NoDup_map_inj_in {A B} (f : A -> B) (l : list A) :
  (forall x y, In x l -> In y l -> f x = f y -> x = y) -> NoDup l -> NoDup (map f l).
Proof.
  intros Hinj Hnd. induction Hnd as [|a l Hnot Hnd IH]; cbn [map]; constructor.
  - intros Hin. apply in_map_iff in Hin as (y & Hy & Hyl). apply Hnot.
    rewrite (Hinj a y); [exact Hyl|now left|now right|now symmetry].
  - apply IH. intros x y Hx Hy. apply Hinj; now right.
Qed.

Lemma complete_desc T ts t : complete T ts -> (In t ts <-> desc T t).
Proof. intros [_ H]. destruct t as [[a b] c]. apply H. Qed.

Lemma complete_perm T ts ts' : complete T ts -> complete T ts' -> Permutation ts ts'.
Proof.
  intros H H'. apply NoDup_Permutation; [apply H|apply H'|].
  intros t. now rewrite (complete_desc T ts t H), (complete_desc T ts' t H').
Qed.

Lemma phi_image_perm sg T ts ts' :
  Permutation sg (seq 0 T) -> complete T ts -> complete T ts' -> Permutation (map (phi sg) ts') ts.
Proof.
  intros Hsg Hc Hc'. apply NoDup_Permutation_bis.
  - apply NoDup_map_inj_in; [|apply Hc'].
    intros x y Hx Hy. apply (phi_inj sg T Hsg); now apply (complete_desc T ts').
  - rewrite map_length. now rewrite (Permutation_length (complete_perm T ts ts' Hc Hc')).
  - intros t Ht. apply in_map_iff in Ht as (t' & <- & Hin).
    apply (complete_desc T ts _ Hc). apply (phi_desc sg T Hsg). now apply (complete_desc T ts').
Qed.

Theorem direct_relabel orc T sg D df ts ts' pl :
  (0 < T)%nat -> Permutation sg (seq 0 T) -> plate_wf T pl -> sym_on T D ->
  complete T ts -> complete T ts' ->
  direct orc (relabel_matrix sg D) df ts' (relabel_plate sg pl) = direct orc D df ts pl.
Proof.
  intros HT Hsg Hwf Hsym Hc Hc'. unfold direct.
  rewrite (map_ext_in _ (fun t => direct_summand orc D df pl (phi sg t))).
  - rewrite <- (map_map (phi sg) (direct_summand orc D df pl)).
    apply logsumexp_perm, Permutation_map. now apply (phi_image_perm sg T).
  - intros t Ht. apply (complete_desc T ts' t Hc') in Ht. pose proof (desc_valid T t Ht) as Hv.
    rewrite (direct_summand_relabel sg T Hsg orc D df pl t HT Hwf Hv). unfold phi. symmetry.
    apply (direct_summand_sort3 orc T D df pl Hsym).
    destruct t as [[a b] c]. destruct Hv as (Ha & Hb & Hc0). cbn [map3 triple_valid].
    repeat split; now apply (sigma_lt sg T Hsg).
Qed.

(* ---- entry-point level ---- *)
Lemma rect_relabel_rows {A} sg T E (a : list (list A)) :
  Permutation sg (seq 0 T) -> rect T E a -> rect T E (relabel_rows sg a).
Proof.
  intros Hsg Ha. split.
  - unfold relabel_rows. now rewrite map_length, (sg_length sg T Hsg).
  - apply Forall_forall. intros r Hr. unfold relabel_rows in Hr. apply in_map_iff in Hr as (i & <- & Hi).
    apply (rect_row T E a i Ha). apply (Permutation_in _ Hsg) in Hi. apply in_seq in Hi. lia.
Qed.

Lemma plate_wf_relabel sg T pl : Permutation sg (seq 0 T) -> plate_wf T pl -> plate_wf T (relabel_plate sg pl).
Proof.
  intros Hsg (E & Hm & Hv). exists E. split; cbn [relabel_plate fst snd]; now apply rect_relabel_rows.
Qed.

Lemma complete_valid T ts : complete T ts -> Forall (triple_valid T) ts.
Proof.
  intros Hc. apply Forall_forall. intros t Ht. apply desc_valid. now apply (complete_desc T ts t Hc).
Qed.

Theorem hetero_relabel orc T sg plates D df ts ts' :
  (0 < T)%nat -> Permutation sg (seq 0 T) -> Forall (plate_wf T) plates -> sym_on T D ->
  complete T ts -> complete T ts' ->
  hetero orc (map (relabel_plate sg) plates) (relabel_matrix sg D) df ts' = hetero orc plates D df ts.
Proof.
  intros HT Hsg Hwf Hsym Hc Hc'.
  rewrite !(hetero_eq_direct orc T); try assumption; try now apply complete_valid.
  - rewrite map_map. apply map_ext_in. intros pl Hin. rewrite Forall_forall in Hwf.
    apply (direct_relabel orc T sg D df ts ts' pl); auto.
  - apply Forall_forall. intros pl' Hin. apply in_map_iff in Hin as (pl & <- & Hin).
    rewrite Forall_forall in Hwf. apply plate_wf_relabel; auto.
Qed.
