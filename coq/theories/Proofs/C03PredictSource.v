(* C03 prediction clause stated of the TRANSLATED source on both sides: the stages are produced by the translated
   reveal_plates / mask_screen / unmask_screen (Generated/SrcReveal.v, C12's links), the predictions by the translated
   predict_* methods of both shipped sample types (Generated/SrcPredict.v, C09's links) reading the stage's own
   sample_ids / treatment_ids arrays. *)
From Coq Require Import ZArith List Bool Lia Arith QArith Qcanon.
From Batchie Require Import Lib.Sexp Lib.Num Generated.Consts Model.Encode Model.Screen Model.Reveal Model.Holdout
  Proofs.C03Base Proofs.C03Screen Proofs.C12Reveal Proofs.C03Frozen Proofs.C03Predict
  Proofs.C12Source_Base Proofs.C12Source_Reveal Proofs.C12Source_Variant.
From Batchie Require Model.Predict Proofs.C09Source.
Import ListNotations.
Open Scope Z_scope.

(* the object handed to theta.predict_*(screen): its .sample_ids and .treatment_ids *)
Definition ids_object (s : screen) : Predict.pydata :=
  {| Predict.pd_sample_ids := s_sids s;
     Predict.pd_treatment_ids := {| Predict.im_arity := s_arity s; Predict.im_rows := s_tids s |} |}.

Lemma pred_view_ok s : (s_arity s = 1 \/ s_arity s = 2)%nat -> Predict.scr_okb (pred_view s) = true.
Proof. intros [H|H]; unfold pred_view; rewrite H; reflexivity. Qed.

Theorem predict_stable_of_source orc k th p sel t1 ops1 t2 ops2 s1 s2 i j v1 v2 :
  src_lifecycle p sel t1 ops1 = Ok s1 ->
  src_lifecycle p sel t2 ops2 = Ok s2 ->
  (s_arity p = 1 \/ s_arity p = 2)%nat ->
  (i < length (s_rows s1))%nat -> (j < length (s_rows s2))%nat ->
  sample_at s1 i = sample_at s2 j ->
  (forall c, (c < s_arity p)%nat -> treat_at s1 i c = treat_at s2 j c) ->
  C09Source.py_theta_predict orc k th (ids_object s1) = Ok v1 ->
  C09Source.py_theta_predict orc k th (ids_object s2) = Ok v2 ->
  nth i v1 0%Qc = nth j v2 0%Qc.
Proof.
  intros L1 L2 Hp Hi Hj Hs Ht H1 H2.
  rewrite src_lifecycle_is_model in L1, L2.
  destruct (lifecycle_constructed_arity _ _ _ _ _ _ L1) as [C1 A1].
  destruct (lifecycle_constructed_arity _ _ _ _ _ _ L2) as [C2 A2].
  assert (P1 : (s_arity s1 = 1 \/ s_arity s1 = 2)%nat) by (rewrite A1; exact Hp).
  assert (P2 : (s_arity s2 = 1 \/ s_arity s2 = 2)%nat) by (rewrite A2; exact Hp).
  unfold ids_object in H1, H2.
  rewrite <- (pred_view_pydata s1 C1 P1), (C09Source.py_theta_predict_is_model orc k th _ (pred_view_ok s1 P1)) in H1.
  rewrite <- (pred_view_pydata s2 C2 P2), (C09Source.py_theta_predict_is_model orc k th _ (pred_view_ok s2 P2)) in H2.
  exact (predict_stable_lifecycle orc k th p sel t1 ops1 t2 ops2 s1 s2 i j v1 v2 L1 L2 Hi Hj Hs Ht H1 H2).
Qed.
