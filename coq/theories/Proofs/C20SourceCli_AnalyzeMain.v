(* The link of cli/analyze_model_evaluation.main alone (the rest of the C20 statements about it: Proofs/C20SourceCli_Analyze.v, which
   exports this file).  The hand-written model CliAnalyze.cli_analyze (= cli_analyze_gen true: both regplot-drawing calls carry
   seed=args.seed) equals the translation of the WHOLE function of the tree under test, regenerated on every run
   (Generated/SrcCliAnalyze.v, configuration CLI_ANALYZE of harness/src_functions.py), for every record of library functions and
   all parsed arguments.  Used by C20 (what is reported) and by C18 (Proofs/C18CliAnalyze.v: where the bootstrap generators come from). *)
From Coq Require Import ZArith List Bool.
From Batchie Require Import Lib.Sexp Lib.PyRt Model.Cli Model.CliAnalyze Generated.SrcCliAnalyze Proofs.PyRtLemmas.
Import ListNotations.
Open Scope Z_scope.

Theorem src_cli_analyze_is_model :
  forall (Scr Th Ev Co F : Type) (L : an_lib Scr Th Ev Co F) (a : an_args),
  src_cli_analyze Scr Th Ev Co F L a = cli_analyze L a.
Proof.
  intros. unfold src_cli_analyze, cli_analyze, cli_analyze_gen. cbv zeta.
  rewrite !res_map_all_ret.
  repeat cli_step. all: reflexivity.
Qed.
