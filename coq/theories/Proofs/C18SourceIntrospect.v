(* The argument-handling glue of the command-line wrappers, part 3: introspection.py.  The hand-written models
   Cli.get_class / create_instance / required_args equal the translations of the WHOLE functions get_class, create_instance
   and get_required_init_args_with_annotations of /repo, regenerated on every run (Generated/SrcCliArgs.v, configurations
   ARGS_GET_CLASS / ARGS_CREATE_INSTANCE / ARGS_REQUIRED of harness/src_functions.py), for every record of importlib /
   pkgutil / inspect primitives and all inputs; and facts about the models. *)
From Coq Require Import ZArith List Bool Lia.
From Batchie Require Import Lib.Sexp Lib.PyRt Model.Cli Generated.SrcCli Generated.SrcCliArgs Proofs.PyRtLemmas Proofs.C18SourceArgs_Cmd.
Import ListNotations.
Open Scope Z_scope.

Section Introspect.
  Context {Mod Obj : Type} (W : pyworld Mod Obj).

  (* the module loop of get_class (`return` inside the loop = a flag variable and `break`), for an arbitrary body equal to
     the canonical one *)
  Lemma get_class_loop (name : str) (base : base_class)
    (f : option (option Obj) -> unit * str * unit -> result (bool * option (option Obj))) :
    (forall s m, f s (tt, m, tt) =
       dor md <- w_import W m;
       if (match w_getattr W md name with Some o => w_truthy W o | None => false end)
       then dor u <- unwrap (w_getattr W md name);
            dor b <- w_issubclass W u base;
            if negb b then Err 31 else Ok (false, Some (w_getattr W md name))
       else Ok (true, s)) ->
    forall mods, res_fold_brk f (map (fun n => (tt, n, tt)) mods) None =
                 dor r <- find_class W name base mods;
                 Ok (match r with Some o => Some (Some o) | None => None end).
  Proof.
    intros Hf mods. induction mods as [|m r IH]; cbn [map res_fold_brk find_class res_bind]; [reflexivity|].
    rewrite Hf.
    destruct (w_import W m) as [md|e]; cbn [res_bind]; [|reflexivity].
    destruct (w_getattr W md name) as [o|]; cbn [unwrap res_bind fst snd]; [|exact IH].
    destruct (w_truthy W o); cbn [unwrap res_bind fst snd]; [|exact IH].
    destruct (w_issubclass W o base) as [b|e]; cbn [res_bind]; [|reflexivity].
    destruct b; cbn [negb res_bind fst snd]; reflexivity.
  Qed.

  Theorem src_get_class_is_model : forall (package_name class_name : str) (base : base_class),
    src_get_class Mod Obj W package_name class_name base = get_class W package_name class_name base.
  Proof.
    intros. unfold src_get_class, get_class. cbv zeta.
    destruct (w_import W package_name) as [p|e]; cbn [res_bind]; [|reflexivity].
    rewrite (get_class_loop class_name base) by (intros s m; reflexivity).
    destruct (find_class W class_name base (w_walk W p package_name)) as [[o|]|e]; reflexivity.
  Qed.

  Theorem src_create_instance_is_model : forall (V Inst : Type) (construct : Obj -> V -> result Inst)
    (package_name class_name : str) (base : base_class) (kwargs : V),
    src_create_instance Mod Obj W V Inst construct package_name class_name base kwargs
    = create_instance W construct package_name class_name base kwargs.
  Proof.
    intros. unfold src_create_instance, create_instance. cbv zeta.
    rewrite src_get_class_is_model.
    destruct (get_class W package_name class_name base) as [[o|]|e]; cbn [res_bind negb]; try reflexivity.
    destruct (w_truthy W o); cbn [negb unwrap res_bind]; [|reflexivity].
    destruct (construct o kwargs); reflexivity.
  Qed.

  Theorem src_get_required_init_args_is_model : forall (c : option Obj),
    src_get_required_init_args Mod Obj W c = required_args W c.
  Proof.
    intros c. unfold src_get_required_init_args, required_args. cbv zeta.
    destruct c as [o|]; cbn [opt_isclass negb]; [|reflexivity].
    destruct (w_isclass W o); cbn [negb unwrap res_bind]; [|reflexivity].
    destruct (w_signature W o) as [ps|e]; cbn [res_bind]; [|reflexivity].
    rewrite (res_fold_pure _ required_step).
    - reflexivity.
    - intros d [n p]. unfold required_step. cbn [fst snd]. change ([115; 101; 108; 102] : str) with s_self.
      destruct (str_eqb n s_self); [reflexivity|].
      destruct (sp_no_default p); reflexivity.
  Qed.

  (* ---------- facts about the models ---------- *)
  (* what get_class returns is a truthy attribute, of the requested name, of a module of the package, and a subclass of the
     base class *)
  Lemma find_class_some (name : str) (base : base_class) : forall mods o,
    find_class W name base mods = Ok (Some o) ->
    w_truthy W o = true /\ w_issubclass W o base = Ok true /\
    exists m md, In m mods /\ w_import W m = Ok md /\ w_getattr W md name = Some o.
  Proof.
    induction mods as [|m r IH]; intros o H; cbn [find_class] in H; [discriminate|].
    destruct (w_import W m) as [md|e] eqn:Em; cbn [res_bind] in H; [|discriminate].
    assert (Hrec : find_class W name base r = Ok (Some o) ->
                   w_truthy W o = true /\ w_issubclass W o base = Ok true /\
                   exists m' md', In m' (m :: r) /\ w_import W m' = Ok md' /\ w_getattr W md' name = Some o).
    { intros Hr. destruct (IH o Hr) as [T [S [m' [md' [Hin [Hi Hg]]]]]].
      split; [exact T|]. split; [exact S|]. exists m', md'. split; [now right|]. now split. }
    destruct (w_getattr W md name) as [o'|] eqn:Eg; [|now apply Hrec].
    destruct (w_truthy W o') eqn:Et; [|now apply Hrec].
    destruct (w_issubclass W o' base) as [b|e] eqn:Es; cbn [res_bind] in H; [|discriminate].
    destruct b; [|discriminate]. injection H as <-.
    split; [exact Et|]. split; [exact Es|]. exists m, md. split; [now left|]. now split.
  Qed.

  Theorem get_class_some (package_name class_name : str) (base : base_class) (o : Obj) :
    get_class W package_name class_name base = Ok (Some o) ->
    w_truthy W o = true /\ w_issubclass W o base = Ok true.
  Proof.
    unfold get_class. destruct (w_import W package_name) as [p|e]; cbn [res_bind]; [|discriminate].
    intros H. destruct (find_class_some _ _ _ _ H) as [T [S _]]. now split.
  Qed.

  (* a class name no module of the package defines: the annotations cannot be read - TypeError "The given object is not a
     class." (29), whatever the KEY=VALUE parameters are *)
  Theorem unknown_class_is_type_error {F O : Type} (P : pyprims F O) (base : base_class) (name : str)
    (param : option (list (str * str))) :
    get_class W s_batchie name base = Ok None -> resolve (introspect_of W) P base name param = Err 29.
  Proof. intros H. unfold resolve, introspect_of. cbn [i_get_class i_required]. rewrite H. reflexivity. Qed.

  (* the required-argument table: never the empty marker, never "self" *)
  Lemma required_step_inv (d : list (str * ann)) (np : str * sigparam) :
    (forall k t, In (k, t) d -> t <> AEmpty /\ k <> s_self) ->
    forall k t, In (k, t) (required_step d np) -> t <> AEmpty /\ k <> s_self.
  Proof.
    intros Hd k t. unfold required_step. destruct np as [n p]. cbn [fst snd].
    destruct (str_eqb n s_self) eqn:En; [apply Hd|].
    destruct (sp_no_default p); [|apply Hd].
    set (v := if negb (ann_eqb (sp_annotation p) AEmpty) then sp_annotation p else ANone).
    assert (Hv : v <> AEmpty).
    { subst v. destruct (sp_annotation p); cbn; discriminate. }
    assert (Hn : n <> s_self).
    { intros ->. clear - En. unfold s_self in En. cbn in En. discriminate. }
    clear En. revert Hd. induction d as [|[k' t'] d IH]; intros Hd; cbn [kdict_set In].
    - intros [E|[]]. injection E as <- <-. now split.
    - destruct (str_eqb k' n) eqn:Ek; cbn [In].
      + intros [E|Hin].
        * injection E as <- <-. split; [exact Hv|]. apply (Hd k' t'). now left.
        * apply (Hd k t). now right.
      + intros [E|Hin].
        * injection E as <- <-. apply (Hd k' t'). now left.
        * apply IH; [|exact Hin]. intros k0 t0 H0. apply Hd. now right.
  Qed.

  Theorem required_args_no_empty (c : option Obj) (req : list (str * ann)) :
    required_args W c = Ok req -> forall k t, In (k, t) req -> t <> AEmpty /\ k <> s_self.
  Proof.
    unfold required_args. destruct c as [o|]; [|discriminate].
    destruct (w_isclass W o); [|discriminate].
    destruct (w_signature W o) as [ps|e]; cbn [res_bind]; [|discriminate].
    intros H. injection H as <-.
    assert (G : forall ps d, (forall k t, In (k, t) d -> t <> AEmpty /\ k <> s_self) ->
                forall k t, In (k, t) (fold_left required_step ps d) -> t <> AEmpty /\ k <> s_self).
    { clear. induction ps as [|np ps IH]; intros d Hd; cbn [fold_left]; [exact Hd|].
      apply IH. now apply required_step_inv. }
    apply G. intros k t [].
  Qed.
End Introspect.

(* ---------- everything from the source: the introspection record made of the TRANSLATED functions ---------- *)
Definition introspect_src {Mod Obj : Type} (W : pyworld Mod Obj) : introspect Obj :=
  mk_introspect (src_get_class Mod Obj W) (src_get_required_init_args Mod Obj W).

(* the get_args() models use their introspection record only by applying its two functions *)
Lemma resolve_ext {Cls F O : Type} (I1 I2 : introspect Cls) (P : pyprims F O) :
  (forall a b c, i_get_class I1 a b c = i_get_class I2 a b c) -> (forall c, i_required I1 c = i_required I2 c) ->
  forall base name param, resolve I1 P base name param = resolve I2 P base name param.
Proof.
  intros H1 H2 base name param. unfold resolve. rewrite H1.
  destruct (i_get_class I2 s_batchie name base) as [c|e]; cbn [res_bind]; [|reflexivity].
  now rewrite H2.
Qed.

Lemma resolve_src {Mod Obj F O : Type} (W : pyworld Mod Obj) (P : pyprims F O) :
  forall base name param, resolve (introspect_src W) P base name param = resolve (introspect_of W) P base name param.
Proof.
  apply resolve_ext; intros; cbn [introspect_src introspect_of i_get_class i_required].
  - apply src_get_class_is_model.
  - apply src_get_required_init_args_is_model.
Qed.

Theorem src_cli_calculate_scores_cmd_world :
  forall (Mod Obj F O : Type) (W : pyworld Mod Obj) (P : pyprims F O) (Scr Pl Th Dm Sc H : Type)
         (construct : Obj -> list (str * pval F O) -> result Sc) (L : cs_lib Scr Pl Th Dm Sc H) (mix : Z -> Z)
         (raw : cs_ns Obj F O),
  src_cli_calculate_scores_cmd Obj F O (introspect_src W) P Scr Pl Th Dm Sc H construct L mix raw
  = cli_calculate_scores_cmd (introspect_of W) P construct L mix raw.
Proof.
  intros. rewrite src_cli_calculate_scores_cmd_is_model.
  unfold cli_calculate_scores_cmd, cs_get_args. now rewrite resolve_src.
Qed.
