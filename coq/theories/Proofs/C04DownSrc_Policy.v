(* C04 downstream, source level: selection with KPerSamplePlatePolicy (C16's translation of select_next_plate).
   See Proofs/C04DownSrc.v. *)
From Coq Require Import ZArith List Bool QArith Qcanon Lia.
From Batchie Require Import Lib.Sexp Lib.Num Lib.PyRt Model.Train Model.Downstream Proofs.C04Train Proofs.C04Down.
From Batchie Require Model.Scores Model.Policy Model.Gibbs Model.DistMat Model.Cli.
From Batchie Require Generated.SrcScoringPolicy Proofs.C16SourceSelect.
Import ListNotations.
Open Scope Z_scope.

(* ---- selection with KPerSamplePlatePolicy(k) (C16's translation of select_next_plate; the policy's method is C16's
   filter_eligible = the translated filter_eligible_plates): a Plate is (id, sample ids of its rows), is_observed the
   conjunction of its rows' mask bits ---- *)
Definition observed_in (sp : list Policy.splate) (p : Policy.plate) : bool :=
  match find (fun q => Policy.plate_id (fst q) =? Policy.plate_id p) sp with
  | Some q => snd q
  | None => false
  end.

Definition src_stage_select_k (k : Z) (h : Scores.holder) (rows : list trow) (batch : list Z) (rng : option Policy.rng_t)
  : result (option Z) :=
  let sp := policy_plates_of rows in
  dor r <- SrcScoringPolicy.src_select_next_plate_k (observed_in sp) (Scores.h_slots h) (map fst sp) (Some k) (Some batch) rng;
  Ok (option_map Policy.plate_id r).

Lemma src_stage_select_k_noninterference k h s1 s2 batch rng : same_except_masked s1 s2 ->
  src_stage_select_k k h s1 batch rng = src_stage_select_k k h s2 batch rng.
Proof. intros H. unfold src_stage_select_k. now rewrite (proj1 (proj2 (views_noninterference s1 s2 H))). Qed.

