(* C08 proofs, part 7: what each Gaussian block stores, decidable versions of the data
   hypotheses (for the examples), summary statements. *)
From Coq Require Import ZArith List QArith Qcanon Lia Arith Bool.
From Batchie Require Import Lib.Num Lib.NumP Model.Gibbs Model.GibbsSpec Proofs.C08Sums Proofs.C08Gauss Proofs.C08Cache Proofs.C08Misc.
Import ListNotations.
Open Scope Qc_scope.

(* the drawn value is stored in the block's slot; a failed MVN draw leaves the state unchanged *)
Lemma stored_W0 d s c x : W0 (snd (block_W0 d s c) (VQ x)) = set_nth c x (W0 s).
Proof. unfold block_W0. destruct (positions (Z.of_nat c) (d_cl d)); reflexivity. Qed.
Lemma stored_V0 d s m x : V0 (snd (block_V0 d s m) (VQ x)) = set_nth m x (V0 s).
Proof. unfold block_V0. destruct (positions (Z.of_nat m) (d_dd1 d) ++ positions (Z.of_nat m) (d_dd2 d)); reflexivity. Qed.
Lemma stored_W g d s c x : W (snd (block_W g d s c) (VV x)) = set_nth c x (W s).
Proof. unfold block_W. destruct (positions (Z.of_nat c) (d_cl d)); reflexivity. Qed.
Lemma stored_V2 g d s m x : V2 (snd (block_V2 g d s m) (VV x)) = set_nth m x (V2 s).
Proof. unfold block_V2, block_V. destruct (positions (Z.of_nat m) (d_dd1 d) ++ positions (Z.of_nat m) (d_dd2 d)); reflexivity. Qed.
Lemma stored_V1 g d s m x : V1 (snd (block_V1 g d s m) (VV x)) = set_nth m x (V1 s).
Proof. unfold block_V1, block_V. destruct (positions (Z.of_nat m) (d_dd1 d) ++ positions (Z.of_nat m) (d_dd2 d)); reflexivity. Qed.

Theorem stored_all g d s :
  (forall c x, W0 (snd (block_W0 d s c) (VQ x)) = set_nth c x (W0 s)) /\
  (forall m x, V0 (snd (block_V0 d s m) (VQ x)) = set_nth m x (V0 s)) /\
  (forall c x, W (snd (block_W g d s c) (VV x)) = set_nth c x (W s)) /\
  (forall m x, V2 (snd (block_V2 g d s m) (VV x)) = set_nth m x (V2 s)) /\
  (forall m x, V1 (snd (block_V1 g d s m) (VV x)) = set_nth m x (V1 s)).
Proof.
  repeat split; intros.
  - apply stored_W0. - apply stored_V0. - apply stored_W. - apply stored_V2. - apply stored_V1.
Qed.

(* a scalar block without data draws N(0, 1/prior precision) *)
Theorem prior_draw_scalar d s :
  (forall c, positions (Z.of_nat c) (d_cl d) = [] -> fst (block_W0 d s c) = DNormal 0 (/ tau0 s)) /\
  (forall m, positions (Z.of_nat m) (d_dd1 d) = [] -> positions (Z.of_nat m) (d_dd2 d) = [] ->
             fst (block_V0 d s m) = DNormal 0 (/ (vnth (phi0 s) m * eta0 s))).
Proof.
  split.
  - intros c E. unfold block_W0. now rewrite E.
  - intros m E1 E2. unfold block_V0. now rewrite E1, E2.
Qed.

(* ---------------------------------------------------------------- decidable hypotheses *)
Definition valid_datab (d : data) : bool :=
  Nat.eqb (length (d_cl d)) (nobs d) && Nat.eqb (length (d_dd1 d)) (nobs d) && Nat.eqb (length (d_dd2 d)) (nobs d)
  && forallb (fun c => (0 <=? c)%Z) (d_cl d) && forallb (fun t => (-1 <=? t)%Z) (d_dd1 d) && forallb (fun t => (-1 <=? t)%Z) (d_dd2 d).

Lemma znth_forallb (p : Z -> bool) l i : p 0%Z = true -> forallb p l = true -> p (znth l i) = true.
Proof.
  intros H0 Hl. unfold znth. destruct (Nat.lt_ge_cases i (length l)) as [Hi|Hi].
  - rewrite forallb_forall in Hl. apply Hl. now apply nth_In.
  - now rewrite nth_overflow.
Qed.

Lemma valid_datab_ok d : valid_datab d = true -> ValidData d.
Proof.
  unfold valid_datab. rewrite !andb_true_iff. intros [[[[[H1 H2] H3] H4] H5] H6].
  apply Nat.eqb_eq in H1, H2, H3. repeat split; try assumption; intros i.
  - apply Z.leb_le. now apply (znth_forallb (fun c => (0 <=? c)%Z)).
  - apply Z.leb_le. now apply (znth_forallb (fun c => (-1 <=? c)%Z)).
  - apply Z.leb_le. now apply (znth_forallb (fun c => (-1 <=? c)%Z)).
Qed.

Definition no_self_combob (d : data) : bool :=
  forallb (fun i => (znth (d_dd1 d) i =? -1)%Z || negb (znth (d_dd1 d) i =? znth (d_dd2 d) i)%Z) (seq 0 (nobs d)).

Lemma no_self_combob_ok d : no_self_combob d = true -> NoSelfCombo d.
Proof.
  unfold no_self_combob, NoSelfCombo. rewrite forallb_forall. intros H i Hi.
  specialize (H i). rewrite in_seq in H. specialize (H ltac:(lia)).
  apply orb_true_iff in H as [H|H]; [left; now apply Z.eqb_eq|right].
  apply negb_true_iff, Z.eqb_neq in H. exact H.
Qed.

Definition qeq_list (a b : list Qc) : bool :=
  Nat.eqb (length a) (length b) && forallb (fun p => Qc_eq_bool (fst p) (snd p)) (combine a b).

Lemma qeq_list_ok a b : qeq_list a b = true -> a = b.
Proof.
  unfold qeq_list. rewrite andb_true_iff. intros [Hl Hf]. apply Nat.eqb_eq in Hl.
  revert b Hl Hf; induction a as [|x a IH]; intros [|y b] Hl Hf; cbn [length] in Hl; try lia; [reflexivity|].
  cbn [combine forallb fst snd] in Hf. apply andb_true_iff in Hf as [H1 H2].
  apply Qc_eq_bool_correct in H1. subst. f_equal. apply IH; [lia|exact H2].
Qed.
