(* C14, one piece of Proofs/C14Source.v (conventions and objects: see there): ScreenBase.size on a Screen object *)
From Coq Require Import ZArith List Bool Arith Lia ZifyBool.
From Batchie Require Import Lib.Sexp Lib.PyRt Model.Encode Model.Screen Model.Views Generated.SrcViews
  Proofs.PyRtLemmas Proofs.C14Lists.
Import ListNotations.
Open Scope Z_scope.

(* ScreenBase.size on a Screen object *)
Theorem src_screen_size_is_model : forall s : pyscreen, src_screen_size s = Ok (Z.of_nat (screen_size (snd s))).
Proof. reflexivity. Qed.
