(* C07: Model/Mse.mse_distance equals the translation of batchie.distance.mse.MSEDistance.distance regenerated from
   /repo on every run (Generated/SrcMse.v), for two prediction vectors of one length. *)
From Coq Require Import ZArith List Bool QArith Qcanon Lia.
From Batchie Require Import Lib.Sexp Lib.PyRt Lib.Num Model.Mse Generated.SrcMse.
Import ListNotations.

Lemma vec_sub_same_length x y : length x = length y ->
  vec_sub x y = Ok (map (fun p => (fst p - snd p)%Qc) (combine x y)).
Proof. intros H. unfold vec_sub. now rewrite H, Nat.eqb_refl. Qed.

Theorem src_mse_is_model : forall (orc : oracle) (sigmoid : bool) (a b : list Qc), length a = length b ->
  src_mse_distance orc sigmoid a b = mse_distance orc sigmoid a b.
Proof.
  intros orc sg a b H. unfold src_mse_distance, mse_distance. rewrite H, Nat.eqb_refl. cbn [negb].
  assert (T : forall a' b' : list Qc, length a' = length b' -> length a' = length a ->
    (dor r1 <- vec_sub a' b'; dor r2 <- np_mean (map qsq r1); Ok r2)
    = match a with [] => Err 6%Z | _ => Ok (qmean (sqdiffs a' b')) end).
  { intros a' b' H1 H2. rewrite vec_sub_same_length by exact H1. cbn [res_bind]. rewrite map_map. fold (sqdiffs a' b').
    unfold np_mean. destruct a as [|x a0].
    - destruct a' as [|y a']; [reflexivity | discriminate].
    - destruct a' as [|y a']; [discriminate|]. destruct b' as [|z b']; [discriminate|]. reflexivity. }
  destruct sg; cbn [res_bind].
  - apply T; rewrite !map_length; [exact H | reflexivity].
  - apply T; [exact H | reflexivity].
Qed.
