(* C14 (and, through Proofs/C13SourceHelpers.v, C13 / C11): the small helpers of batchie.data that every other linked function
   uses as a primitive are themselves translated from /repo on every run (Generated/SrcPlates.v, configurations H14_* of
   harness/src_functions.py) and proved equal to their hand-written models at the end of Model/Views.v, for all inputs:
     ScreenBase.is_observed / n_plates / unique_plate_ids / unique_sample_ids / n_unique_samples / unique_treatments /
       n_unique_treatments / treatment_arity, on a Screen object and on a ScreenSubset / Plate object
     Plate.plate_id / plate_name / __lt__ / merge
     Screen.combine
     common.select_unique_zipped_numpy_arrays, filter_dataset_to_unique_treatments (on a ScreenSubset and on a Screen)
   Objects as in Proofs/C14Source.v: a Screen object is [pyscreen] = (identity tag, contents), a ScreenSubset / Plate a [view]. *)
From Coq Require Import ZArith List Bool Arith Lia ZifyBool.
From Batchie Require Import Lib.Sexp Lib.PyRt Generated.Consts Model.Encode Model.Screen Model.Views
  Generated.SrcEncode Generated.SrcViews Generated.SrcPlates
  Proofs.PyRtLemmas Proofs.C01Sort Proofs.C01Source Proofs.C14Defs Proofs.C14Lists Proofs.C14Unique Proofs.C14Source.
Import ListNotations.
Open Scope Z_scope.

(* ---------------- small facts ---------------- *)
Lemma forallb_map {A B} (f : A -> B) (p : B -> bool) l : forallb p (map f l) = forallb (fun x => p (f x)) l.
Proof. induction l as [|a l IH]; cbn [map forallb]; [reflexivity | now rewrite IH]. Qed.

Lemma forallb_eq {A} (p q : A -> bool) l : (forall x, p x = q x) -> forallb p l = forallb q l.
Proof. intros H. induction l as [|a l IH]; cbn [forallb]; [reflexivity | now rewrite H, IH]. Qed.

Lemma list_get_0 {A} (l : list A) : list_get l 0 = match l with x :: _ => Ok x | [] => Err 98 end.
Proof. destruct l; reflexivity. Qed.

(* np.setdiff1d(np.unique(a), [SENTINEL]) is the sorted distinct entries without the sentinel *)
Lemma setdiff_sentinel (l : list Z) :
  np_setdiff1d (sort_uniq Z.compare l) [CONTROL_SENTINEL_VALUE]
  = filter (fun x => negb (x =? CONTROL_SENTINEL_VALUE)) (sort_uniq Z.compare l).
Proof.
  unfold np_setdiff1d.
  rewrite (sort_uniq_of_sorted Z.compare Zcmp_spec)
    by (apply (SSorted_filter Z.compare); apply (sort_uniq_sorted Z.compare Zcmp_spec)).
  apply filter_ext. intros x. cbn [existsb]. now rewrite orb_false_r.
Qed.

(* ---------------- the one-line properties of ScreenBase, on a Screen object ---------------- *)
Theorem src_screen_props_are_model : forall s : pyscreen,
  src_screen_is_observed s = Ok (screen_is_observed (snd s)) /\
  src_screen_n_plates s = Ok (Z.of_nat (length (screen_unique_pids (snd s)))) /\
  src_screen_unique_sample_ids s = Ok (screen_unique_sids (snd s)) /\
  src_screen_n_unique_samples s = Ok (Z.of_nat (length (screen_unique_sids (snd s)))) /\
  src_screen_unique_treatments s = Ok (screen_unique_treatments (snd s)) /\
  src_screen_n_unique_treatments s = Ok (Z.of_nat (length (screen_unique_treatments (snd s)))) /\
  src_screen_treatment_arity s = Ok (Z.of_nat (s_arity (snd s))).
Proof.
  intros s.
  assert (Hu : src_screen_unique_treatments s = Ok (screen_unique_treatments (snd s))).
  { unfold src_screen_unique_treatments, screen_unique_treatments, unique_treatments_of, np_unique2, screen_tids2. cbn [snd].
    now rewrite setdiff_sentinel. }
  repeat split; try reflexivity; try exact Hu.
  - unfold src_screen_is_observed, screen_is_observed, np_all, screen_mask. now rewrite forallb_map.
  - unfold src_screen_n_unique_treatments. now rewrite Hu.
Qed.

(* ---------------- ... and on a ScreenSubset / Plate object ---------------- *)
Theorem src_view_props_are_model : forall v : view,
  src_view_unique_plate_ids v = Ok (view_unique_pids v) /\
  src_view_is_observed v = Ok (view_is_observed v) /\
  src_view_n_plates v = Ok (Z.of_nat (length (view_unique_pids v))) /\
  src_view_unique_sample_ids v = Ok (view_unique_sids v) /\
  src_view_n_unique_samples v = Ok (Z.of_nat (length (view_unique_sids v))) /\
  src_view_unique_treatments v = Ok (view_unique_treatments v) /\
  src_view_n_unique_treatments v = Ok (Z.of_nat (length (view_unique_treatments v))) /\
  src_view_treatment_arity v = Ok (Z.of_nat (s_arity (v_parent v))).
Proof.
  intros v.
  assert (Hu : src_view_unique_treatments v = Ok (view_unique_treatments v)).
  { unfold src_view_unique_treatments, view_unique_treatments, unique_treatments_of, np_unique2.
    change (src_view_treatment_ids v) with (Ok (view_tids v)). cbn [res_bind snd]. now rewrite setdiff_sentinel. }
  repeat split; try reflexivity; try exact Hu.
  unfold src_view_n_unique_treatments. now rewrite Hu.
Qed.

(* ---------------- Plate.plate_id / plate_name / __lt__ ---------------- *)
Theorem src_plate_id_is_model : forall v : view, src_plate_id v = view_plate_id v.
Proof.
  intros v. unfold src_plate_id, view_plate_id.
  rewrite (proj1 (src_view_props_are_model v)). cbn [res_bind].
  destruct (view_unique_pids v) as [|x [|y r]]; cbn [length]; try reflexivity.
  replace (Z.of_nat (S (S (length r))) =? 1) with false by lia. reflexivity.
Qed.

Theorem src_plate_name_is_model : forall v : view, src_plate_name v = view_plate_name v.
Proof.
  intros v. unfold src_plate_name, view_plate_name, view_plate_names, view_screen. cbn [snd].
  rewrite list_get_0. destruct (select (v_sel v) (map r_plate (s_rows (v_parent v)))); reflexivity.
Qed.

Theorem src_plate_lt_is_model : forall a b : view, src_plate_lt a b = Ok (view_lt a b).
Proof.
  intros a b. unfold src_plate_lt, view_lt. rewrite !src_view_size_is_model. cbn [res_bind]. f_equal.
  destruct (Nat.ltb_spec (view_size a) (view_size b)); lia.
Qed.

(* ---------------- Plate.merge ---------------- *)
Lemma with_plate_same r : with_plate (r_plate r) r = r.
Proof. destruct r; reflexivity. Qed.

(* the rows after `plate_names[sel] = nm`, computed through the column, are the relabelled rows *)
Lemma relabel_column (nm : name) : forall (sel : list bool) (rows : list row),
  map (fun p : name * row => with_plate (fst p) (snd p))
      (combine (map (fun p : bool * name => if fst p then nm else snd p) (combine sel (map r_plate rows))) rows)
  = relabel sel nm rows.
Proof.
  unfold relabel. induction sel as [|b sel IH]; intros [|r rows]; cbn [map combine]; try reflexivity.
  rewrite IH. cbn [fst snd]. destruct b; [reflexivity | now rewrite with_plate_same].
Qed.

Lemma relabel_length sel nm rows : length sel = length rows -> length (relabel sel nm rows) = length rows.
Proof. intros H. unfold relabel. rewrite map_length, combine_length. lia. Qed.

Lemma ids_of_column_some l : ids_of_column (map Some l) = Ok l.
Proof. unfold ids_of_column. induction l as [|x l IH]; cbn [map res_map_all]; [reflexivity | now rewrite IH]. Qed.

Theorem src_plate_merge_is_model : forall self other : view, src_plate_merge self other = view_merge self other.
Proof.
  intros self other. unfold src_plate_merge, view_merge, same_object, view_screen. cbn [fst snd].
  destruct (negb (v_tag other =? v_tag self)); [reflexivity|].
  rewrite src_plate_name_is_model. unfold view_plate_name, view_plate_names, set_view_sel. cbn [v_sel v_parent v_tag].
  set (sel := bor_vec (v_sel self) (v_sel other)). set (p := v_parent self).
  rewrite select_map. destruct (select sel (s_rows p)) as [|r0 rest]; cbn [map res_bind]; [reflexivity|].
  unfold mask_fill. rewrite map_length.
  destruct (negb (Nat.eqb (length sel) (length (s_rows p)))); cbn [res_bind]; [reflexivity|].
  unfold set_screen_plate_names, set_view_screen, with_rows_pids. cbn [fst snd s_rows s_pids v_parent v_tag v_sel].
  rewrite relabel_column.
  rewrite (src_encode_1d_is_model _ None I). cbn [option_map].
  destruct (encode_names (map r_plate (relabel sel (r_plate r0) (s_rows p))) None 6) as [[ids m]|t]; cbn [res_bind fst snd];
    [|reflexivity].
  unfold store_plate_ids. cbn [fst snd s_rows]. rewrite ids_of_column_some. cbn [res_bind]. reflexivity.
Qed.

(* ---------------- Screen.combine ---------------- *)
Lemma rows_of_arrays_app (r1 r2 : list row) :
  rows_of_arrays (map (fun r => map fst (r_treats r)) r1 ++ map (fun r => map fst (r_treats r)) r2)
                 (map (fun r => map snd (r_treats r)) r1 ++ map (fun r => map snd (r_treats r)) r2)
                 (map r_obs r1 ++ map r_obs r2) (map r_mask r1 ++ map r_mask r2)
                 (map r_sample r1 ++ map r_sample r2) (map r_plate r1 ++ map r_plate r2) = r1 ++ r2.
Proof. rewrite <- !map_app. apply rows_of_arrays_rows. Qed.

Theorem src_screen_combine_is_model : forall a b : pyscreen, src_screen_combine a b = screen_combine (snd a) (snd b).
Proof.
  intros [ta a] [tb b]. unfold src_screen_combine, screen_combine. cbn [snd negb].
  destruct (negb (name_eqb (s_ctrl b) (s_ctrl a))); [reflexivity|].
  unfold concat2, screen_treatment_names, screen_treatment_doses. cbn [fst snd].
  destruct (Nat.eqb (s_arity a) (s_arity b)); cbn [negb res_bind]; [|reflexivity].
  rewrite res_bind_ok. unfold screen_of_arrays, screen_mask. cbn [fst snd]. now rewrite rows_of_arrays_app.
Qed.

(* ---------------- common.select_unique_zipped_numpy_arrays ---------------- *)
(* `len(set(lengths)) > 1` says that some length differs from the first *)
Lemma distinct_count_gt1 (l : list Z) :
  (Z.of_nat (length (sort_uniq Z.compare l)) >? 1) = negb (forallb (fun x => x =? hd 0 l) l).
Proof.
  destruct l as [|h l]; [reflexivity|]. cbn [hd].
  destruct (forallb (fun x => x =? h) (h :: l)) eqn:E; cbn [negb].
  - rewrite forallb_forall in E.
    rewrite (sort_uniq_ext Z.compare Zcmp_spec (h :: l) [h]); [reflexivity|].
    intros x. cbn [In]. split; [intros H; left; specialize (E x H); lia | intros [->|[]]; now left].
  - assert (H : exists y, In y (h :: l) /\ y <> h).
    { apply Bool.not_true_iff_false in E. rewrite forallb_forall in E.
      destruct (existsb (fun x => negb (x =? h)) (h :: l)) eqn:X.
      - apply existsb_exists in X. destruct X as (y & Hy & Hn). exists y. split; [exact Hy | lia].
      - exfalso. apply E. intros x Hx. destruct (x =? h) eqn:Q; [reflexivity|]. exfalso.
        assert (existsb (fun x => negb (x =? h)) (h :: l) = true) by (apply existsb_exists; exists x; split; [exact Hx | now rewrite Q]).
        congruence. }
    destruct H as (y & Hy & Hn).
    pose proof (sort_uniq_NoDup Z.compare Zcmp_spec (h :: l)) as ND.
    assert (Ih : In h (sort_uniq Z.compare (h :: l))) by (apply (sort_uniq_In Z.compare Zcmp_spec); now left).
    assert (Iy : In y (sort_uniq Z.compare (h :: l))) by (now apply (sort_uniq_In Z.compare Zcmp_spec)).
    destruct (sort_uniq Z.compare (h :: l)) as [|u [|w r]]; [destruct Ih | | cbn [length]; lia].
    cbn [In] in Ih, Iy. exfalso. destruct Ih as [<-|[]]. destruct Iy as [<-|[]]. now apply Hn.
Qed.

Lemma zip_cols_length cols : length (zip_cols cols) = length (hd [] cols).
Proof. unfold zip_cols. now rewrite map_length, seq_length. Qed.

Lemma first_indices_in_range keys :
  forallb (fun i => Nat.ltb i (length keys)) (map (fun k => first_index k keys) (sort_uniq name_cmp keys)) = true.
Proof.
  rewrite forallb_map. apply forallb_forall. intros k Hk. apply Nat.ltb_lt. apply first_index_lt.
  now apply (sort_uniq_In name_cmp name_cmp_spec).
Qed.

(* the translation is the model on one or more arrays; on NO array numpy's vstack raises (tag 17), where the model - never
   called that way: the caller always passes the sample ids - answers the empty mask *)
Theorem src_select_unique_is_model : forall cols : list (list Z),
  src_select_unique cols = match cols with [] => Err 17 | _ => select_unique cols end.
Proof.
  intros [|r rest]; [reflexivity|]. unfold src_select_unique, select_unique.
  rewrite distinct_count_gt1.
  replace (forallb (fun x : Z => x =? hd 0 (map (fun x' : list Z => Z.of_nat (length x')) (r :: rest)))
                   (map (fun x' : list Z => Z.of_nat (length x')) (r :: rest)))
    with (forallb (fun c => Nat.eqb (length c) (length (hd [] (r :: rest)))) (r :: rest)).
  2:{ rewrite forallb_map. apply forallb_eq. intros c. cbn [hd map]. apply eq_sym, of_nat_eqb. }
  destruct (forallb (fun c => Nat.eqb (length c) (length (hd [] (r :: rest)))) (r :: rest)) eqn:E; cbn [negb]; [|reflexivity].
  cbn [hd forallb] in E. apply andb_prop in E. destruct E as [_ E].
  unfold np_vstack. rewrite E. cbn [res_bind].
  unfold first_indices, unique_rows2, arr2_T. cbn [fst snd].
  change (map (fun j => column 0 j (r :: rest)) (seq 0 (length r))) with (zip_cols (r :: rest)).
  change (list_get (r :: rest) 0) with (Ok r). cbn [res_bind]. rewrite Nat2Z.id.
  unfold set_true_at, unique_mask. rewrite repeat_length.
  pose proof (zip_cols_length (r :: rest)) as HL. cbn [hd] in HL. rewrite <- HL.
  rewrite first_indices_in_range. reflexivity.
Qed.

(* ---------------- filter_dataset_to_unique_treatments ---------------- *)
(* the loop that appends one treatment-id column per treatment position *)
Lemma append_columns_loop (a : nat) (tids : list (list Z)) (f : list (list Z) -> Z -> result (list (list Z))) :
  (forall arrs i, f arrs i = dor c <- arr2_col 0 (a, tids) i; Ok (arrs ++ [c])) ->
  forall n s arrs, (s + n <= a)%nat ->
  res_fold f (map Z.of_nat (seq s n)) arrs = Ok (arrs ++ map (fun i => column 0 i tids) (seq s n)).
Proof.
  intros Hf. induction n as [|n IH]; intros s arrs Hs; cbn [seq map res_fold]; [now rewrite app_nil_r|].
  rewrite Hf. unfold arr2_col. cbn [fst snd].
  replace (Z.of_nat s <? 0) with false by lia.
  replace ((0 <=? Z.of_nat s) && (Z.of_nat s <? Z.of_nat a)) with true by lia.
  cbn [res_bind]. rewrite Nat2Z.id, IH by lia. now rewrite <- app_assoc.
Qed.

Theorem src_filter_unique_view_is_model : forall v : view, src_filter_unique_view v = filter_unique_view v.
Proof.
  intros v. unfold src_filter_unique_view, filter_unique_view, unique_cols.
  change (src_view_sample_ids v) with (Ok (view_sids v)). cbn [res_bind].
  rewrite (proj2 (proj2 (proj2 (proj2 (proj2 (proj2 (proj2 (src_view_props_are_model v)))))))). cbn [res_bind].
  unfold zrange. rewrite Nat2Z.id.
  rewrite (append_columns_loop (s_arity (v_parent v)) (view_tids v)) by (reflexivity || lia). cbn [res_bind app].
  rewrite src_select_unique_is_model.
  destruct (select_unique (view_sids v :: map (fun i => column 0 i (view_tids v)) (seq 0 (s_arity (v_parent v))))) as [m|t];
    cbn [res_bind]; [|reflexivity].
  rewrite src_view_subset_is_model, res_bind_ok. reflexivity.
Qed.

Theorem src_filter_unique_screen_is_model : forall s : pyscreen,
  src_filter_unique_screen s = filter_unique_screen (fst s) (snd s).
Proof.
  intros s. unfold src_filter_unique_screen, filter_unique_screen, unique_cols.
  rewrite (proj2 (proj2 (proj2 (proj2 (proj2 (proj2 (src_screen_props_are_model s))))))). cbn [res_bind].
  unfold zrange. rewrite Nat2Z.id.
  rewrite (append_columns_loop (s_arity (snd s)) (s_tids (snd s))) by (reflexivity || lia). cbn [res_bind app].
  rewrite src_select_unique_is_model.
  destruct (select_unique (s_sids (snd s) :: map (fun i => column 0 i (s_tids (snd s))) (seq 0 (s_arity (snd s))))) as [m|t];
    cbn [res_bind]; [|reflexivity].
  rewrite src_screen_subset_is_model, res_bind_ok. reflexivity.
Qed.
