(* C14 (and, through Proofs/C13SourceHelpers.v, C13 / C11): the small helpers of batchie.data that every other linked function
   uses as a primitive are themselves translated from /repo on every run (Generated/SrcPlates.v, configurations H14_* of
   harness/src_functions.py) and proved equal to their hand-written models at the end of Model/Views.v, for all inputs:
     ScreenBase.is_observed / n_plates / unique_plate_ids / unique_sample_ids / n_unique_samples / unique_treatments /
       n_unique_treatments / treatment_arity, on a Screen object and on a ScreenSubset / Plate object
     Plate.plate_id / plate_name / __lt__ / merge
     Screen.combine
     common.select_unique_zipped_numpy_arrays, filter_dataset_to_unique_treatments (on a ScreenSubset and on a Screen)
   Objects as in Proofs/C14Source.v: a Screen object is [pyscreen] = (identity tag, contents), a ScreenSubset / Plate a [view].

   The links live in the pieces Proofs/C14SourceHelpers_<Piece>.v, one per translated function (or per pair stated together), so that
   a file of another property imports the link of the one helper it calls and not the translations of all of them; this file
   collects the pieces and states the one-line properties together, as Props/C14.v does. *)
From Coq Require Import ZArith List Bool Arith Lia ZifyBool.
From Batchie Require Import Lib.Sexp Lib.PyRt Generated.Consts Model.Encode Model.Screen Model.Views
  Generated.SrcEncode Generated.SrcViews Generated.SrcPlates
  Proofs.PyRtLemmas Proofs.C01Sort Proofs.C14Defs Proofs.C14Lists Proofs.C14Unique.
From Batchie Require Export Proofs.C14SourceHelpers_Base Proofs.C14SourceHelpers_ScreenObserved Proofs.C14SourceHelpers_ScreenNPlates
  Proofs.C14SourceHelpers_ScreenSamples Proofs.C14SourceHelpers_ScreenTreatments Proofs.C14SourceHelpers_ScreenArity
  Proofs.C14SourceHelpers_ViewUniquePlateIds Proofs.C14SourceHelpers_ViewObserved Proofs.C14SourceHelpers_ViewNPlates
  Proofs.C14SourceHelpers_ViewUniqueSamples Proofs.C14SourceHelpers_ViewNUniqueSamples Proofs.C14SourceHelpers_ViewTreatments
  Proofs.C14SourceHelpers_ViewArity Proofs.C14SourceHelpers_PlateId Proofs.C14SourceHelpers_PlateName
  Proofs.C14SourceHelpers_PlateLt Proofs.C14SourceHelpers_PlateMerge Proofs.C14SourceHelpers_ScreenCombine
  Proofs.C14SourceHelpers_SelectUnique Proofs.C14SourceHelpers_FilterView Proofs.C14SourceHelpers_FilterScreen.
Import ListNotations.
Open Scope Z_scope.

(* ---------------- the one-line properties of ScreenBase, on a Screen object ---------------- *)
Theorem src_screen_props_are_model : forall s : pyscreen,
  src_screen_is_observed s = Ok (screen_is_observed (snd s)) /\
  src_screen_n_plates s = Ok (Z.of_nat (length (screen_unique_pids (snd s)))) /\
  src_screen_unique_sample_ids s = Ok (screen_unique_sids (snd s)) /\
  src_screen_n_unique_samples s = Ok (Z.of_nat (length (screen_unique_sids (snd s)))) /\
  src_screen_unique_treatments s = Ok (screen_unique_treatments (snd s)) /\
  src_screen_n_unique_treatments s = Ok (Z.of_nat (length (screen_unique_treatments (snd s)))) /\
  src_screen_treatment_arity s = Ok (Z.of_nat (s_arity (snd s))).
Proof.
  intros s.
  exact (conj (src_screen_is_observed_is_model s) (conj (src_screen_n_plates_is_model s)
        (conj (src_screen_unique_sample_ids_is_model s) (conj (src_screen_n_unique_samples_is_model s)
        (conj (src_screen_unique_treatments_is_model s) (conj (src_screen_n_unique_treatments_is_model s)
              (src_screen_treatment_arity_is_model s))))))).
Qed.

(* ---------------- ... and on a ScreenSubset / Plate object ---------------- *)
Theorem src_view_props_are_model : forall v : view,
  src_view_unique_plate_ids v = Ok (view_unique_pids v) /\
  src_view_is_observed v = Ok (view_is_observed v) /\
  src_view_n_plates v = Ok (Z.of_nat (length (view_unique_pids v))) /\
  src_view_unique_sample_ids v = Ok (view_unique_sids v) /\
  src_view_n_unique_samples v = Ok (Z.of_nat (length (view_unique_sids v))) /\
  src_view_unique_treatments v = Ok (view_unique_treatments v) /\
  src_view_n_unique_treatments v = Ok (Z.of_nat (length (view_unique_treatments v))) /\
  src_view_treatment_arity v = Ok (Z.of_nat (s_arity (v_parent v))).
Proof.
  intros v.
  exact (conj (src_view_unique_plate_ids_is_model v) (conj (src_view_is_observed_is_model v)
        (conj (src_view_n_plates_is_model v) (conj (src_view_unique_sample_ids_is_model v)
        (conj (src_view_n_unique_samples_is_model v) (conj (src_view_unique_treatments_is_model v)
        (conj (src_view_n_unique_treatments_is_model v) (src_view_treatment_arity_is_model v)))))))).
Qed.
