(* C20 proofs, part 1: ModelEvaluation metrics and calculate_mse equal their loop definitions;
   evaluation save / load round trip. *)
From Coq Require Import ZArith List QArith Qcanon Lia Arith Permutation Bool.
From Batchie Require Import Lib.Sexp Lib.Num Lib.NumP Model.Metrics Proofs.C20Spec Proofs.C20Base.
Import ListNotations.
Open Scope Qc_scope.

Lemma mk_eval_ok m P o ch nm e :
  mk_eval m P o ch nm = Ok e ->
  e = {| ev_preds := P; ev_obs := o; ev_chains := ch; ev_names := nm |}
  /\ length P = length o /\ length nm = length o
  /\ Forall (fun r => length r = m) P /\ length ch = m.
Proof.
  unfold mk_eval.
  destruct (Nat.eqb (length P) (length o)) eqn:E1; cbn [negb]; [|discriminate].
  destruct (Nat.eqb (length nm) (length o)) eqn:E2; cbn [negb]; [|discriminate].
  destruct (forallb (fun r => Nat.eqb (length r) m) P) eqn:E3; cbn [negb]; [|discriminate].
  destruct (Nat.eqb (length ch) m) eqn:E4; cbn [negb]; [|discriminate].
  intros H. inversion H; subst. apply Nat.eqb_eq in E1, E2, E4.
  repeat split; try assumption.
  apply Forall_forall. intros r Hr. rewrite forallb_forall in E3. now apply Nat.eqb_eq, E3.
Qed.

Section Eval.
Variables (P : list (list Qc)) (o : list Qc) (ch : list Z) (m : nat).
Hypothesis HPo : length P = length o.
Hypothesis Hrect : Forall (fun r => length r = m) P.
Hypothesis Hch : length ch = m.
Let n := length P.

(* (P - o[:, None]) ** 2 in index form *)
Lemma sqerr_index :
  sqerr P o = map (fun i => map (fun j => sq_err P o i j) (seq 0 m)) (seq 0 n).
Proof.
  unfold sqerr. rewrite (combine_seq_nth P o n [] 0) by (subst n; auto).
  rewrite map_map. apply map_ext_in. intros i Hi. apply in_seq in Hi. cbn [fst snd].
  assert (Hlen : length (nth i P []) = m) by (apply (Forall_nth_len _ _ _ _ Hrect); subst n; lia).
  rewrite (map_seq_nth _ (nth i P []) 0), Hlen. reflexivity.
Qed.

Lemma sqerr_concat_length : length (concat (sqerr P o)) = (n * m)%nat.
Proof.
  rewrite sqerr_index. rewrite (length_concat_const _ m).
  - now rewrite map_length, seq_length.
  - apply Forall_forall. intros r Hr. apply in_map_iff in Hr as (i & <- & _). now rewrite map_length, seq_length.
Qed.

Lemma mse_index : qmean (concat (sqerr P o)) = mse_def P o n m.
Proof.
  unfold qmean. rewrite qlen_qnat, sqerr_concat_length, qnat_mul.
  rewrite sqerr_index, qsum_concat, map_map. reflexivity.
Qed.

Lemma exp_mse_index : map qmean (sqerr P o) = map (exp_mse_def P o m) (seq 0 n).
Proof.
  rewrite sqerr_index, map_map. apply map_ext. intros i. apply qmean_map_seq.
Qed.

Lemma mse_variance_index : qvar (map qmean (sqerr P o)) = mse_variance_def P o n m.
Proof. rewrite exp_mse_index. apply qvar_map_seq. Qed.

Lemma mean_predictions_index : map qmean P = map (mean_prediction_def P m) (seq 0 n).
Proof.
  rewrite (map_seq_nth qmean P []). fold n. apply map_ext_in. intros i Hi. apply in_seq in Hi.
  assert (Hlen : length (nth i P []) = m) by (apply (Forall_nth_len _ _ _ _ Hrect); subst n; lia).
  rewrite (list_seq_nth (nth i P []) 0) at 1. rewrite Hlen. apply qmean_map_seq.
Qed.

(* one chain: select the columns, then the same expression *)
Lemma sqerr_select sel :
  sqerr (map (select sel) P) o = map (select sel) (sqerr P o).
Proof.
  unfold sqerr. rewrite combine_map_l, !map_map. apply map_ext. intros [r x]. cbn [fst snd].
  now rewrite select_map.
Qed.

Lemma sel_nth c j : (j < m)%nat -> nth j (map (Z.eqb c) ch) false = (c =? nth j ch 0%Z)%Z.
Proof.
  intros Hj. rewrite (nth_indep _ false (Z.eqb c 0%Z)) by (rewrite map_length; lia).
  apply map_nth.
Qed.

Lemma chain_row_sum c g :
  qsum (select (map (Z.eqb c) ch) (map g (seq 0 m)))
  = sum_upto m (fun j => if (c =? nth j ch 0%Z)%Z then g j else 0).
Proof.
  rewrite qsum_select.
  rewrite (combine_seq_nth _ _ m false 0) by (now rewrite map_length, ?seq_length).
  rewrite map_map. unfold sum_upto. f_equal. apply map_ext_in. intros j Hj. apply in_seq in Hj. cbn [fst snd].
  rewrite sel_nth by lia. rewrite nth_map_seq by lia. reflexivity.
Qed.

Lemma chain_row_length c (r : list Qc) :
  length r = m -> length (select (map (Z.eqb c) ch) r) = chain_size ch c.
Proof.
  intros Hr. rewrite select_length by (rewrite map_length; lia). apply filter_map_length.
Qed.

Lemma chain_mse_index c :
  qmean (concat (sqerr (map (select (map (Z.eqb c) ch)) P) o)) = chain_mse_def P o ch n m c.
Proof.
  rewrite sqerr_select. unfold qmean, chain_mse_def. rewrite qlen_qnat.
  rewrite (length_concat_const _ (chain_size ch c)).
  2:{ apply Forall_forall. intros r Hr. apply in_map_iff in Hr as (r0 & <- & Hr0).
      apply chain_row_length. rewrite sqerr_index in Hr0. apply in_map_iff in Hr0 as (i & <- & _).
      now rewrite map_length, seq_length. }
  rewrite map_length. replace (length (sqerr P o)) with n
    by (rewrite sqerr_index; now rewrite map_length, seq_length).
  rewrite qnat_mul. f_equal.
  rewrite qsum_concat, sqerr_index, !map_map. unfold sum_upto at 1. f_equal.
  apply map_ext. intros i. apply chain_row_sum.
Qed.
End Eval.

Theorem mse_eq m P o ch nm e :
  mk_eval m P o ch nm = Ok e ->
  ev_mse e = if Nat.eqb (length P) 0 || Nat.eqb m 0 then Err E_NAN
             else Ok (mse_def P o (length P) m).
Proof.
  intros H. apply mk_eval_ok in H as (-> & HPo & _ & Hrect & Hch).
  unfold ev_mse, is_empty, n_exp, n_thetas. cbn [ev_preds ev_obs ev_chains]. rewrite Hch.
  destruct (Nat.eqb (length P) 0 || Nat.eqb m 0); [reflexivity|].
  f_equal. eapply mse_index; eassumption.
Qed.

Theorem mse_variance_eq m P o ch nm e :
  mk_eval m P o ch nm = Ok e ->
  ev_mse_variance e = if Nat.eqb (length P) 0 || Nat.eqb m 0 then Err E_NAN
                      else Ok (mse_variance_def P o (length P) m).
Proof.
  intros H. apply mk_eval_ok in H as (-> & HPo & _ & Hrect & Hch).
  unfold ev_mse_variance, is_empty, n_exp, n_thetas. cbn [ev_preds ev_obs ev_chains]. rewrite Hch.
  destruct (Nat.eqb (length P) 0 || Nat.eqb m 0); [reflexivity|].
  f_equal. eapply mse_variance_index; eassumption.
Qed.

Theorem inter_chain_eq m P o ch nm e :
  mk_eval m P o ch nm = Ok e ->
  ev_inter_chain e = if Nat.eqb (length P) 0 || Nat.eqb m 0 then Err E_NAN
                     else Ok (inter_chain_def P o ch (length P) m).
Proof.
  intros H. apply mk_eval_ok in H as (-> & HPo & _ & Hrect & Hch).
  unfold ev_inter_chain, is_empty, n_exp, n_thetas. cbn [ev_preds ev_obs ev_chains]. rewrite Hch.
  destruct (Nat.eqb (length P) 0 || Nat.eqb m 0); [reflexivity|].
  f_equal. unfold inter_chain_def.
  rewrite (map_ext _ (chain_mse_def P o ch (length P) m)).
  2:{ intros c. unfold chain_mse. cbn [ev_preds ev_obs ev_chains]. eapply chain_mse_index; eassumption. }
  rewrite (qvar_perm _ (map (chain_mse_def P o ch (length P) m) (nodup Z.eq_dec ch))).
  2:{ apply Permutation_map, sorted_unique_perm_nodup. }
  rewrite (map_seq_nth _ (nodup Z.eq_dec ch) 0%Z). apply qvar_map_seq.
Qed.

Lemma sorted_unique_const c l : l <> [] -> Forall (fun x => x = c) l -> sorted_unique l = [c].
Proof.
  intros Hne H. induction H as [|x l Hx Hl IH]; [congruence|]. subst x.
  cbn [sorted_unique fold_right]. fold (sorted_unique l).
  destruct l as [|y l]; [reflexivity|]. rewrite IH by congruence.
  cbn [zinsert]. now rewrite Z.ltb_irrefl, Z.eqb_refl.
Qed.

Lemma qvar_singleton x : qvar [x] = 0.
Proof.
  unfold qvar, qmean. cbn [map qsum fold_right].
  assert (H1 : forall y : Qc, qlen [y] = 1) by (intros y; apply Qc_is_canon; reflexivity).
  rewrite !H1. unfold qsq. field. discriminate.
Qed.

Theorem inter_chain_one_chain m P o ch nm e c :
  mk_eval m P o ch nm = Ok e -> (0 < length P)%nat -> (0 < m)%nat ->
  Forall (fun x => x = c) ch -> ev_inter_chain e = Ok 0.
Proof.
  intros H HP Hm Hc. apply mk_eval_ok in H as (-> & HPo & _ & Hrect & Hch).
  unfold ev_inter_chain, is_empty, n_exp, n_thetas. cbn [ev_preds ev_obs ev_chains]. rewrite Hch.
  destruct (Nat.eqb_spec (length P) 0); [lia|]. destruct (Nat.eqb_spec m 0); [lia|]. cbn [orb].
  assert (Hne : ch <> []) by (destruct ch; [cbn in Hch; lia|congruence]).
  rewrite (sorted_unique_const c ch Hne Hc).
  cbn [map]. now rewrite qvar_singleton.
Qed.

Theorem mean_predictions_eq m P o ch nm e :
  mk_eval m P o ch nm = Ok e ->
  ev_mean_predictions e = if negb (Nat.eqb (length P) 0) && Nat.eqb m 0 then Err E_NAN
                          else Ok (map (mean_prediction_def P m) (seq 0 (length P))).
Proof.
  intros H. apply mk_eval_ok in H as (-> & HPo & _ & Hrect & Hch).
  unfold ev_mean_predictions, n_exp, n_thetas. cbn [ev_preds ev_obs ev_chains]. rewrite Hch.
  destruct (negb (Nat.eqb (length P) 0) && Nat.eqb m 0); [reflexivity|].
  f_equal. eapply mean_predictions_index; eassumption.
Qed.

Theorem eval_save_load m P o ch nm e :
  mk_eval m P o ch nm = Ok e -> ev_load (ev_save e) = Ok e.
Proof.
  intros H. pose proof (mk_eval_ok _ _ _ _ _ _ H) as (-> & HPo & Hnm & Hrect & Hch).
  unfold ev_save, ev_load. cbn [ev_preds ev_obs ev_chains ev_names].
  rewrite Hch. exact H.
Qed.

(* ---- calculate_mse ---- *)

Lemma vadd_index a b k :
  length a = k -> length b = k -> vadd a b = map (fun i => nth i a 0 + nth i b 0) (seq 0 k).
Proof.
  intros Ha Hb. unfold vadd. rewrite (combine_seq_nth a b k 0 0 Ha Hb), map_map. reflexivity.
Qed.

Lemma fold_vadd_index pt : forall acc k,
  length acc = k -> Forall (fun r => length r = k) pt ->
  fold_left vadd pt acc
  = map (fun i => nth i acc 0 + sum_upto (length pt) (fun th => nth i (nth th pt []) 0)) (seq 0 k).
Proof.
  induction pt as [|r pt IH]; intros acc k Hacc Hpt.
  - cbn [fold_left length]. rewrite (list_seq_nth acc 0) at 1. rewrite Hacc.
    apply map_ext. intros i. unfold sum_upto. cbn. ring.
  - inversion Hpt as [|? ? Hr Hpt']; subst. cbn [fold_left].
    rewrite (IH (vadd acc r) (length acc)); [|rewrite (vadd_index acc r (length acc)) by auto; now rewrite map_length, seq_length|exact Hpt'].
    apply map_ext_in. intros i Hi. apply in_seq in Hi.
    rewrite (vadd_index acc r (length acc)) by auto. rewrite nth_map_seq by lia.
    cbn [length]. rewrite sum_upto_S_shift. cbn [nth]. ring.
Qed.

Theorem calculate_mse_eq pt o :
  Forall (fun r => length r = length o) pt ->
  calculate_mse pt o = if Nat.eqb (length pt) 0 || Nat.eqb (length o) 0 then Err E_NAN
                       else Ok (calculate_mse_def pt o (length pt) (length o)).
Proof.
  intros Hpt. unfold calculate_mse.
  replace (forallb (fun r => Nat.eqb (length r) (length o)) pt) with true.
  2:{ symmetry. apply forallb_forall. intros r Hr. rewrite Forall_forall in Hpt. now apply Nat.eqb_eq, Hpt. }
  cbn [negb].
  destruct pt as [|r0 pt0] eqn:Ept; [reflexivity|]. rewrite <- Ept in *.
  destruct o as [|x0 o0] eqn:Eo; [subst pt; reflexivity|]. rewrite <- Eo in *.
  replace (Nat.eqb (length pt) 0) with false by (subst pt; reflexivity).
  replace (Nat.eqb (length o) 0) with false by (subst o; reflexivity).
  cbn [orb]. f_equal.
  unfold predict_avg. rewrite (fold_vadd_index pt (repeat 0 (length o)) (length o)); [|apply repeat_length|exact Hpt].
  rewrite map_map.
  rewrite (combine_seq_nth _ o (length o) 0 0); [|now rewrite map_length, seq_length|reflexivity].
  rewrite map_map. rewrite qmean_map_seq. unfold calculate_mse_def. f_equal.
  apply sum_upto_ext. intros i Hi. cbn [fst snd]. rewrite nth_map_seq by exact Hi.
  rewrite qlen_qnat. f_equal. f_equal. f_equal.
  rewrite nth_repeat. ring.
Qed.
