(* C14: the unique filter on views, and closure of the view algebra under any finite composition. *)
From Coq Require Import ZArith List Bool Arith Lia Sorted.
From Batchie Require Import Lib.Sexp Model.Encode Model.Screen Model.Views
  Proofs.C14Defs Proofs.C14Lists Proofs.C14Unique Proofs.C14Views.
Import ListNotations.
Open Scope nat_scope.

(* ---- the key rows handed to np.unique ---- *)
Lemma Forall_select {A} (P : A -> Prop) sel l : Forall P l -> Forall P (select sel l).
Proof.
  intros H. revert sel; induction H as [|x l Hx _ IH]; intros [|b s]; cbn [select]; try constructor.
  destruct b; [constructor; [exact Hx|]|]; apply IH.
Qed.

Lemma zip_unique_cols arity sids tids :
  length sids = length tids -> Forall (fun t => length t = arity) tids ->
  zip_cols (unique_cols arity sids tids) = map (fun j => nth j sids 0%Z :: nth j tids []) (seq 0 (length sids)).
Proof.
  intros HL HF. unfold zip_cols, unique_cols. cbn [hd].
  apply map_ext_in. intros j Hj. apply in_seq in Hj. cbn [map]. f_equal. rewrite map_map.
  destruct (nth_error tids j) as [t|] eqn:E; [|apply nth_error_None in E; lia].
  rewrite (nth_error_nth _ _ _ E).
  rewrite Forall_forall in HF.
  assert (Ht : length t = arity) by (apply HF; eapply nth_error_In; eassumption).
  transitivity (map (fun i => nth i t 0%Z) (seq 0 (length t))); [|apply map_nth_seq]. rewrite Ht.
  apply map_ext. intros i. unfold column. rewrite (nth_map_error (fun r => nth i r 0%Z)), E. reflexivity.
Qed.

Lemma unique_cols_lengths arity sids tids :
  length sids = length tids ->
  Forall (fun c => length c = length (hd [] (unique_cols arity sids tids))) (unique_cols arity sids tids).
Proof.
  intros HL. unfold unique_cols. cbn [hd]. constructor; [reflexivity|].
  apply Forall_forall. intros c Hc. apply in_map_iff in Hc. destruct Hc as (i & <- & _).
  unfold column. now rewrite map_length.
Qed.

Lemma map_nth_maps (f : nat -> Z) (g : nat -> list Z) d1 d2 (W : list nat) :
  map (fun j => nth j (map f W) d1 :: nth j (map g W) d2) (seq 0 (length W)) = map (fun i => f i :: g i) W.
Proof.
  induction W as [|w W IH]; cbn [length seq map nth]; [reflexivity|].
  f_equal. rewrite <- seq_shift, map_map. exact IH.
Qed.

Lemma view_attr_lengths v : view_ok v -> screen_wf (v_parent v) ->
  length (view_sids v) = length (np_where (v_sel v)) /\ length (view_tids v) = length (np_where (v_sel v)).
Proof.
  intros Hok (HS & _). unfold view_ok, screen_size in *. unfold view_sids, view_tids.
  split; apply select_length; congruence.
Qed.

Lemma view_keys v : view_ok v -> screen_wf (v_parent v) ->
  zip_cols (unique_cols (s_arity (v_parent v)) (view_sids v) (view_tids v))
  = map (row_key (v_parent v)) (np_where (v_sel v)).
Proof.
  intros Hok Hwf. destruct (view_attr_lengths v Hok Hwf) as [L1 L2].
  destruct Hwf as (HS & _ & _ & HT). unfold view_ok in Hok.
  rewrite zip_unique_cols; [|congruence|unfold view_tids; now apply Forall_select].
  rewrite L1. unfold view_sids, view_tids.
  rewrite (select_nth 0%Z) by congruence. rewrite (select_nth (@nil Z)) by exact Hok.
  unfold row_key. apply map_nth_maps.
Qed.

Lemma filter_unique_view_inv v v' : view_ok v -> screen_wf (v_parent v) -> filter_unique_view v = Ok v' ->
  v_tag v' = v_tag v /\ v_parent v' = v_parent v /\ view_ok v' /\
  np_where (v_sel v') = keep_first (row_key (v_parent v)) [] (np_where (v_sel v)).
Proof.
  intros Hok Hwf. unfold filter_unique_view.
  destruct (view_attr_lengths v Hok Hwf) as [L1 L2].
  rewrite select_unique_ok by (apply unique_cols_lengths; congruence).
  cbn [res_bind]. rewrite view_keys by assumption. rewrite unique_mask_rec.
  intros H. destruct (subset_compose _ _ _ _ Hok H) as (Ht & Hp & Hok' & Hw & _).
  repeat split; try assumption. rewrite Hw. apply select_first_mask_keep.
Qed.

Lemma filter_unique_view_total v : view_ok v -> screen_wf (v_parent v) -> exists v', filter_unique_view v = Ok v'.
Proof.
  intros Hok Hwf. unfold filter_unique_view.
  destruct (view_attr_lengths v Hok Hwf) as [L1 L2].
  rewrite select_unique_ok by (apply unique_cols_lengths; congruence).
  cbn [res_bind]. eexists. apply view_subset_ok; [exact Hok|].
  rewrite unique_mask_length, view_keys, map_length by assumption. symmetry. now apply view_size_where.
Qed.

Lemma filter_unique_screen_inv tag p v : screen_wf p -> filter_unique_screen tag p = Ok v ->
  v_tag v = tag /\ v_parent v = p /\ view_ok v /\
  np_where (v_sel v) = keep_first (row_key p) [] (seq 0 (screen_size p)).
Proof.
  intros (HS & _ & _ & HT). unfold filter_unique_screen.
  rewrite select_unique_ok by (apply unique_cols_lengths; exact HS).
  cbn [res_bind]. rewrite zip_unique_cols by assumption. rewrite HS.
  change (map (fun j => nth j (s_sids p) 0%Z :: nth j (s_tids p) []) (seq 0 (screen_size p)))
    with (map (row_key p) (seq 0 (screen_size p))).
  rewrite unique_mask_rec. intros H. apply screen_subset_inv in H. destruct H as (_ & HL & ->).
  cbn [v_tag v_parent v_sel]. repeat split; [exact HL|].
  rewrite where_select, HL. apply select_first_mask_keep.
Qed.

(* ---- what keep_first keeps ---- *)
Lemma In_keep_first key seen l i : StronglySorted lt l ->
  (In i (keep_first key seen l) <->
   In i l /\ ~ In (key i) seen /\ forall j, In j l -> j < i -> key j <> key i).
Proof.
  intros Hs. revert seen; induction Hs as [|i0 r Hs IH Hf]; intros seen; cbn [keep_first In]; [tauto|].
  rewrite Forall_forall in Hf.
  destruct (existsb (name_eqb (key i0)) seen) eqn:E.
  - apply existsb_name_eqb in E. rewrite IH. split.
    + intros (Hi & Hn & Hj). repeat split; [now right|exact Hn|].
      intros j [<-|Hjr] Hlt; [intros E'; apply Hn; now rewrite <- E'|now apply Hj].
    + intros ([<-|Hi] & Hn & Hj); [contradiction|]. repeat split; [exact Hi|exact Hn|].
      intros j Hjr. apply Hj. now right.
  - apply not_true_iff_false in E. rewrite existsb_name_eqb in E. cbn [In]. rewrite IH. cbn [In]. split.
    + intros [<-|(Hi & Hn & Hj)].
      * repeat split; [now left|exact E|]. intros j [<-|Hjr] Hlt; [lia|]. apply Hf in Hjr. lia.
      * repeat split; [now right|tauto|]. intros j [<-|Hjr] Hlt; [tauto|now apply Hj].
    + intros ([<-|Hi] & Hn & Hj); [now left|]. right. repeat split; [exact Hi| |intros j Hjr; apply Hj; now right].
      intros [E'|H']; [|contradiction]. apply (Hj i0); [now left|now apply Hf|exact E'].
Qed.

Lemma keep_first_NoDup key seen l :
  NoDup (map key (keep_first key seen l)) /\ forall i, In i (keep_first key seen l) -> ~ In (key i) seen.
Proof.
  revert seen; induction l as [|i0 r IH]; intros seen; cbn [keep_first map]; [split; [constructor|intros i []]|].
  destruct (existsb (name_eqb (key i0)) seen) eqn:E; [apply IH|].
  apply not_true_iff_false in E. rewrite existsb_name_eqb in E.
  destruct (IH (key i0 :: seen)) as [H1 H2]. cbn [map]. split.
  - constructor; [|exact H1]. intros Hin. apply in_map_iff in Hin. destruct Hin as (i & Ei & Hi).
    apply H2 in Hi. apply Hi. left. now symmetry.
  - intros i [<-|Hi]; [exact E|]. apply H2 in Hi. intros H. apply Hi. now right.
Qed.

Lemma keep_first_covers key seen l i : In i l ->
  In (key i) seen \/ exists i', In i' (keep_first key seen l) /\ key i' = key i.
Proof.
  revert seen; induction l as [|i0 r IH]; intros seen; cbn [keep_first In]; [tauto|].
  destruct (existsb (name_eqb (key i0)) seen) eqn:E.
  - apply existsb_name_eqb in E. intros [<-|Hi]; [now left|now apply IH].
  - intros [<-|Hi]; [right; exists i0; split; [now left|reflexivity]|].
    destruct (IH (key i0 :: seen) Hi) as [[E'|H]|(i' & Hi' & E')].
    + right. exists i0. split; [now left|exact E'].
    + now left.
    + right. exists i'. split; [now right|exact E'].
Qed.

(* ---- induction over op trees ---- *)
Lemma vexpr_ind' (P : vexpr -> Prop)
  (HB : forall k b s, P (Base k b s)) (HO : forall k, P (Observed k)) (HU : forall k, P (Unobserved k))
  (HG : forall k pid, P (GetPlate k pid)) (HUS : forall k, P (UniqueS k))
  (HS : forall e b i, P e -> P (Subset e b i)) (HC : forall a b, P a -> P b -> P (Combine a b))
  (HI : forall e, P e -> P (Invert e)) (HCc : forall es, Forall P es -> P (Concat es))
  (HUq : forall e, P e -> P (Unique e)) : forall e, P e.
Proof.
  fix IH 1. intros [k b s|k|k|k pid|k|e b i|a b|e|es|e].
  - apply HB. - apply HO. - apply HU. - apply HG. - apply HUS.
  - apply HS, IH. - apply HC; apply IH. - apply HI, IH.
  - apply HCc. revert es. fix IHes 1. intros [|x r]; constructor; [apply IH|apply IHes].
  - apply HUq, IH.
Qed.

Definition eval_list (ps : list screen) : list vexpr -> result (list view) :=
  fix go (l : list vexpr) : result (list view) :=
    match l with
    | [] => Ok []
    | x :: r => dor a <- eval ps x; dor b <- go r; Ok (a :: b)
    end.

Lemma eval_concat ps es : eval ps (Concat es) = (dor vs <- eval_list ps es; view_concat vs).
Proof. reflexivity. Qed.

Lemma eval_list_inv ps es vs : eval_list ps es = Ok vs -> Forall2 (fun e v => eval ps e = Ok v) es vs.
Proof.
  revert vs; induction es as [|e r IH]; intros vs; cbn [eval_list].
  - intros [= <-]. constructor.
  - destruct (eval ps e) as [a|] eqn:E; cbn [res_bind]; [|discriminate].
    fold (eval_list ps). destruct (eval_list ps r) as [b|]; cbn [res_bind]; [|discriminate].
    intros [= <-]. constructor; [exact E|now apply IH].
Qed.

Lemma get_parent_inv ps k p : get_parent ps k = Ok p ->
  nth_error ps k = Some p /\ nth k ps empty_screen = p /\ (Forall screen_wf ps -> screen_wf p).
Proof.
  unfold get_parent. destruct (nth_error ps k) as [q|] eqn:E; [|discriminate]. intros [= <-].
  split; [reflexivity|]. split; [now apply nth_error_nth|].
  intros H. rewrite Forall_forall in H. apply H. eapply nth_error_In; eassumption.
Qed.

Lemma view_in_parent ps v k : view_in ps v k ->
  nth k ps empty_screen = v_parent v /\ (Forall screen_wf ps -> screen_wf (v_parent v)).
Proof.
  intros (H & _ & _). split; [now apply nth_error_nth|].
  intros HF. rewrite Forall_forall in HF. apply HF. eapply nth_error_In; eassumption.
Qed.

Lemma view_in_same ps a b ka kb : view_in ps a ka -> view_in ps b kb -> v_tag b = v_tag a ->
  kb = ka /\ v_parent b = v_parent a /\ length (v_sel b) = length (v_sel a).
Proof.
  intros (Ha & Ta & Oa) (Hb & Tb & Ob) E. assert (kb = ka) by lia. subst kb.
  assert (v_parent b = v_parent a) by congruence. unfold view_ok in *. repeat split; congruence.
Qed.

Definition tree_ok (ps : list screen) (e : vexpr) (v : view) : Prop :=
  view_in ps v (parent_of e) /\ np_where (v_sel v) = ref ps e.

Lemma nth_as_mem ps e v i : np_where (v_sel v) = ref ps e -> nth i (v_sel v) false = mem_nat i (ref ps e).
Proof. intros <-. now rewrite mem_where. Qed.

Lemma Forall2_existsb ps es vs i : Forall2 (tree_ok ps) es vs ->
  existsb (fun v => nth i (v_sel v) false) vs = existsb (mem_nat i) (map (ref ps) es).
Proof.
  induction 1 as [|e v es vs [_ Hw] _ IH]; cbn [existsb map]; [reflexivity|].
  now rewrite IH, (nth_as_mem ps e v i Hw).
Qed.

Theorem closure ps : Forall screen_wf ps -> forall e v, eval ps e = Ok v -> tree_ok ps e v.
Proof.
  intros Hps. induction e as [k b s|k|k|k pid|k|e b inner IH|ea eb IHa IHb|e IH|es IH|e IH] using vexpr_ind';
    intros v H; unfold tree_ok.
  - (* Base *)
    cbn [eval] in H. destruct (get_parent ps k) as [p|] eqn:EP; cbn [res_bind] in H; [|discriminate].
    destruct (get_parent_inv _ _ _ EP) as (H1 & H2 & _).
    apply screen_subset_inv in H. destruct H as (_ & HL & ->).
    cbn [ref parent_of]. rewrite H2. split; [repeat split; assumption|]. cbn [v_sel]. now rewrite where_filter, HL.
  - (* Observed *)
    cbn [eval] in H. destruct (get_parent ps k) as [p|] eqn:EP; cbn [res_bind] in H; [|discriminate].
    destruct (get_parent_inv _ _ _ EP) as (H1 & H2 & H3). specialize (H3 Hps).
    destruct (subset_observed (Z.of_nat k) p) as [r|] eqn:ES; cbn [unopt] in H; [|discriminate]. subst r.
    destruct (observed_split (Z.of_nat k) p H3) as (_ & _ & Ho & _).
    destruct (Ho _ ES) as (v' & [= <-] & Ht & Hp & Hok & Hn & _).
    cbn [ref parent_of]. rewrite H2. split; [repeat split; congruence|].
    apply where_of_pointwise; [unfold view_ok in Hok; congruence|]. intros i _. apply Hn.
  - (* Unobserved *)
    cbn [eval] in H. destruct (get_parent ps k) as [p|] eqn:EP; cbn [res_bind] in H; [|discriminate].
    destruct (get_parent_inv _ _ _ EP) as (H1 & H2 & H3). specialize (H3 Hps).
    destruct (subset_unobserved (Z.of_nat k) p) as [r|] eqn:ES; cbn [unopt] in H; [|discriminate]. subst r.
    destruct (observed_split (Z.of_nat k) p H3) as (_ & _ & _ & Hu).
    destruct (Hu _ ES) as (v' & [= <-] & Ht & Hp & Hok & Hn & _).
    cbn [ref parent_of]. rewrite H2. split; [repeat split; congruence|].
    apply where_of_pointwise; [unfold view_ok in Hok; congruence|]. exact Hn.
  - (* GetPlate *)
    cbn [eval] in H. destruct (get_parent ps k) as [p|] eqn:EP; cbn [res_bind] in H; [|discriminate].
    destruct (get_parent_inv _ _ _ EP) as (H1 & H2 & H3). specialize (H3 Hps).
    destruct (get_plate_spec (Z.of_nat k) p pid H3) as (v' & E & Ht & Hp & Hok & Hn).
    rewrite E in H. injection H as <-.
    cbn [ref parent_of]. rewrite H2. split; [repeat split; congruence|].
    apply where_of_pointwise; [unfold view_ok in Hok; congruence|]. intros i _. apply Hn.
  - (* UniqueS *)
    cbn [eval] in H. destruct (get_parent ps k) as [p|] eqn:EP; cbn [res_bind] in H; [|discriminate].
    destruct (get_parent_inv _ _ _ EP) as (H1 & H2 & H3). specialize (H3 Hps).
    destruct (filter_unique_screen_inv _ _ _ H3 H) as (Ht & Hp & Hok & Hw).
    cbn [ref parent_of]. rewrite H2. split; [repeat split; congruence|exact Hw].
  - (* Subset *)
    cbn [eval] in H. destruct (eval ps e) as [v0|] eqn:E0; cbn [res_bind] in H; [|discriminate].
    destruct (IH _ eq_refl) as [(Hn & Ht & Hok) Hw].
    destruct (subset_compose _ _ _ _ Hok H) as (Ht' & Hp' & Hok' & Hw' & _).
    cbn [ref parent_of]. split; [repeat split; congruence|]. now rewrite Hw', Hw.
  - (* Combine *)
    cbn [eval] in H. destruct (eval ps ea) as [va|] eqn:Ea; cbn [res_bind] in H; [|discriminate].
    destruct (eval ps eb) as [vb|] eqn:Eb; cbn [res_bind] in H; [|discriminate].
    destruct (IHa _ eq_refl) as [Hia Hwa]. destruct (IHb _ eq_refl) as [Hib Hwb].
    apply view_combine_inv in H. destruct H as (Etag & HL & ->).
    destruct (view_in_same _ _ _ _ _ Hia Hib Etag) as (_ & Hp & HLab).
    destruct (view_in_parent _ _ _ Hia) as [Hnth _]. destruct Hia as (Hn & Ht & Hok).
    cbn [ref parent_of]. rewrite Hnth. split; [repeat split; assumption|]. cbn [v_sel].
    apply where_of_pointwise; [exact HL|]. intros i _.
    rewrite nth_bor_vec by now symmetry.
    now rewrite (nth_as_mem ps ea va i Hwa), (nth_as_mem ps eb vb i Hwb).
  - (* Invert *)
    cbn [eval] in H. destruct (eval ps e) as [v0|] eqn:E0; cbn [res_bind] in H; [|discriminate].
    destruct (IH _ eq_refl) as [Hi Hw]. destruct (view_in_parent _ _ _ Hi) as [Hnth _]. destruct Hi as (Hn & Ht & Hok).
    apply view_invert_inv in H. subst v.
    cbn [ref parent_of]. rewrite Hnth. unfold view_in, view_ok. cbn [v_tag v_parent v_sel]. rewrite map_length.
    split; [repeat split; assumption|].
    apply where_of_pointwise; [now rewrite map_length|]. intros i Hi.
    rewrite nth_map_negb by (unfold view_ok in Hok; lia). now rewrite (nth_as_mem ps e v0 i Hw).
  - (* Concat *)
    rewrite eval_concat in H. destruct (eval_list ps es) as [vs|] eqn:EL; cbn [res_bind] in H; [|discriminate].
    apply eval_list_inv in EL.
    assert (HQ : Forall2 (tree_ok ps) es vs).
    { clear H. induction EL as [|e v' es vs Hev _ IHF]; [constructor|].
      inversion IH as [|? ? IHe IHr]; subst. constructor; [now apply IHe|now apply IHF]. }
    clear IH EL. destruct HQ as [|e0 v0 es vs [Hi0 Hw0] HQ]; [discriminate|].
    destruct (view_in_parent _ _ _ Hi0) as [Hnth _].
    apply concat_union_gen in H.
    + destruct H as (Ht & Hp & HL & _ & Hex). destruct Hi0 as (Hn & Ht0 & Hok0). unfold view_ok in Hok0.
      cbn [ref parent_of]. rewrite Hnth. split; [repeat split; unfold view_ok; congruence|].
      apply where_of_pointwise; [congruence|]. intros i _. rewrite Hex.
      change (existsb (mem_nat i) (map (ref ps) (e0 :: es))) with (mem_nat i (ref ps e0) || existsb (mem_nat i) (map (ref ps) es)).
      cbn [existsb]. now rewrite (Forall2_existsb ps es vs i HQ), (nth_as_mem ps e0 v0 i Hw0).
    + clear H. induction HQ as [|e v' es vs [Hi _] _ IHF]; constructor; [|exact IHF].
      intros Etag. now destruct (view_in_same _ _ _ _ _ Hi0 Hi Etag) as (_ & _ & HLen).
  - (* Unique *)
    cbn [eval] in H. destruct (eval ps e) as [v0|] eqn:E0; cbn [res_bind] in H; [|discriminate].
    destruct (IH _ eq_refl) as [Hi Hw]. destruct (view_in_parent _ _ _ Hi) as [Hnth Hwf]. destruct Hi as (Hn & Ht & Hok).
    destruct (filter_unique_view_inv _ _ Hok (Hwf Hps) H) as (Ht' & Hp' & Hok' & Hw').
    cbn [ref parent_of]. rewrite Hnth. split; [repeat split; congruence|]. now rewrite Hw', Hw.
Qed.

(* consequences: the selection vector itself, and every attribute *)
Lemma closure_mask ps e v : Forall screen_wf ps -> eval ps e = Ok v ->
  v_sel v = mask_of (screen_size (v_parent v)) (ref ps e).
Proof.
  intros Hps H. destruct (closure ps Hps e v H) as [(_ & _ & Hok) Hw]. rewrite <- Hw, <- Hok. apply sel_mask_of.
Qed.

Lemma closure_attr ps e v : Forall screen_wf ps -> eval ps e = Ok v ->
  forall A (d : A) (col : list A), length col = screen_size (v_parent v) ->
    select (v_sel v) col = map (fun i => nth i col d) (ref ps e).
Proof.
  intros Hps H A d col Hc. destruct (closure ps Hps e v H) as [(_ & _ & Hok) Hw].
  rewrite <- Hw. apply select_nth. unfold view_ok in Hok. congruence.
Qed.

Lemma ref_sorted ps e v : Forall screen_wf ps -> eval ps e = Ok v ->
  StronglySorted lt (ref ps e) /\ forall i, In i (ref ps e) -> i < screen_size (v_parent v).
Proof.
  intros Hps H. destruct (closure ps Hps e v H) as [(_ & _ & Hok) Hw]. rewrite <- Hw.
  split; [apply where_sorted|]. intros i Hi. apply where_lt in Hi. unfold view_ok in Hok. lia.
Qed.

(* ---- the unique filter on a view: exactly one row per key, the first ---- *)
Lemma unique_exactly_one v v' : view_ok v -> screen_wf (v_parent v) -> filter_unique_view v = Ok v' ->
  let key := row_key (v_parent v) in
  let W := np_where (v_sel v) in
  let W' := np_where (v_sel v') in
  v_tag v' = v_tag v /\ v_parent v' = v_parent v /\ view_ok v' /\
  (forall i, In i W' <-> In i W /\ forall j, In j W -> j < i -> key j <> key i) /\
  NoDup (map key W') /\
  (forall i, In i W -> exists i', In i' W' /\ key i' = key i).
Proof.
  intros Hok Hwf H key W W'. destruct (filter_unique_view_inv _ _ Hok Hwf H) as (Ht & Hp & Hok' & Hw).
  fold key W W' in Hw. split; [exact Ht|]. split; [exact Hp|]. split; [exact Hok'|]. split; [|split].
  - intros i. rewrite Hw, In_keep_first by apply where_sorted. cbn [In]. tauto.
  - rewrite Hw. apply keep_first_NoDup.
  - intros i Hi. rewrite Hw. destruct (keep_first_covers key [] W i Hi) as [[]|Hex]. exact Hex.
Qed.

(* ---- all attributes of a view at once ---- *)
Lemma view_attrs v (dr : row) : view_ok v -> screen_wf (v_parent v) ->
  let p := v_parent v in
  let idx := np_where (v_sel v) in
  view_pids v = map (fun i => nth i (s_pids p) 0%Z) idx /\
  view_sids v = map (fun i => nth i (s_sids p) 0%Z) idx /\
  view_tids v = map (fun i => nth i (s_tids p) []) idx /\
  view_rows v = map (fun i => nth i (s_rows p) dr) idx /\
  view_sample_names v = map r_sample (view_rows v) /\
  view_plate_names v = map r_plate (view_rows v) /\
  view_treats v = map r_treats (view_rows v) /\
  view_obs v = map r_obs (view_rows v) /\
  view_mask v = map r_mask (view_rows v) /\
  view_size v = length idx.
Proof.
  intros Hok (HS & HP & HR & _) p idx. unfold view_ok in Hok. fold p in Hok, HS, HP, HR.
  unfold view_pids, view_sids, view_tids, view_rows, view_sample_names, view_plate_names, view_treats, view_obs, view_mask.
  fold p. rewrite !select_map.
  repeat split; try (apply select_nth; unfold screen_size in *; congruence).
  apply view_size_where. exact Hok.
Qed.
