(* C12 / C03, one piece of the links of Proofs/C12Source.v (which see): which variant of the model the source is (C03) *)
From Coq Require Import ZArith List Bool Lia Arith.
From Batchie Require Import Lib.Sexp Lib.PyRt Generated.Consts Generated.SrcArithC03 Model.Encode Model.Screen Model.Reveal
  Model.Holdout Generated.SrcReveal Proofs.PyRtLemmas Proofs.C03Base Proofs.C03Screen Proofs.C12Reveal Proofs.C03Frozen Proofs.C03Witness
  Proofs.C12Source_Base Proofs.C12Source_Reveal.
Import ListNotations.
Open Scope Z_scope.

(* ---------- C03: which variant of the model the source is ---------- *)
(* one operation / a history of the lifecycle as the TRANSLATED source functions perform it
   (save+load is the constructor call of Screen.load_h5, C02's subject, as in the model) *)
Definition src_step (s : screen) (o : op) : result screen :=
  match o with
  | Reveal ids => src_reveal_plates s ids
  | Mask => src_mask_screen s
  | Unmask => src_unmask_screen s
  | SaveLoad => save_load s
  end.
Definition src_history (ops : list op) (s0 : screen) : result screen :=
  fold_left (fun acc o => dor s <- acc; src_step s o) ops (Ok s0).

Theorem src_step_is_model : forall s o, src_step s o = step (carry_mappings true) s o.
Proof.
  intros s [ids| | |]; cbn [src_step step];
    [apply src_reveal_plates_is_model | apply src_mask_screen_is_model | apply src_unmask_screen_is_model | reflexivity].
Qed.

Theorem src_history_is_model : forall ops s0, src_history ops s0 = history (carry_mappings true) ops s0.
Proof.
  intros ops s0. unfold src_history, history. generalize (Ok s0 : result screen).
  induction ops as [|o ops IH]; intros acc; cbn [fold_left]; [reflexivity|].
  rewrite IH. f_equal. destruct acc as [s|t]; cbn [res_bind]; [apply src_step_is_model | reflexivity].
Qed.

(* the two variants of each operation differ on the training half of the C03 witness: the sample ids it gives *)
Definition sids_of (r : result screen) : option (list Z) := match r with Ok s => Some (s_sids s) | Err _ => None end.

(* the translation determines the variant: [carry_mappings true] is the ONLY variant whose model equals the translated
   source on all inputs - and it is the variant the call-site constants of Generated/SrcArithC03.v name *)
Theorem source_variant_unique : forall v,
  (forall s o, src_step s o = step v s o) <->
  v = {| carry_reveal := SRC_reveal_plates_carries_mappings; carry_mask := SRC_mask_screen_carries_mappings;
         carry_unmask := SRC_unmask_screen_carries_mappings |}.
Proof.
  intros v. change (Build_variant _ _ _) with (carry_mappings true). split.
  - intros H. destruct v as [a b c]. unfold carry_mappings.
    assert (Ha : a = true).
    { pose proof (H w_train (Reveal [0])) as E. rewrite src_step_is_model in E. apply (f_equal sids_of) in E.
      destruct a; [reflexivity|]. vm_compute in E. discriminate. }
    assert (Hb : b = true).
    { pose proof (H w_train Mask) as E. rewrite src_step_is_model in E. apply (f_equal sids_of) in E.
      destruct b; [reflexivity|]. vm_compute in E. discriminate. }
    assert (Hc : c = true).
    { pose proof (H w_train Unmask) as E. rewrite src_step_is_model in E. apply (f_equal sids_of) in E.
      destruct c; [reflexivity|]. vm_compute in E. discriminate. }
    now subst.
  - intros -> s o. apply src_step_is_model.
Qed.

(* the lifecycle of the translated source: split (model of the hold-out code, its selection an oracle input), then the
   translated reveal / mask / unmask functions.  Its derived screens keep the parent's mappings and ids. *)
Definition src_lifecycle (p : screen) (sel : list bool) (test : bool) (ops : list op) : result screen :=
  dor pr <- holdout_split p sel; src_history ops (half test pr).

Theorem src_lifecycle_is_model : forall p sel test ops,
  src_lifecycle p sel test ops = lifecycle (carry_mappings true) p sel test ops.
Proof.
  intros p sel test ops. unfold src_lifecycle, lifecycle.
  destruct (holdout_split p sel) as [pr|t]; cbn [res_bind]; [apply src_history_is_model | reflexivity].
Qed.

Theorem ids_frozen_of_source : forall p sel test ops s,
  src_lifecycle p sel test ops = Ok s -> frozen_to p s.
Proof. intros p sel test ops s H. rewrite src_lifecycle_is_model in H. exact (ids_frozen p sel test ops s H). Qed.
