(* One piece of Proofs/C18SourceParser.v (which see): the option table of calculate_distance_matrix.get_parser(), read from /repo on every run
   (Generated/SrcParser_calculate_distance_matrix.v), provides what the argument record of that command assumes. *)
From Coq Require Import ZArith List Bool.
From Batchie Require Import Lib.Sexp Lib.PyRt Model.Cli Proofs.C18Parser Generated.SrcParser_calculate_distance_matrix.
Import ListNotations.
Open Scope Z_scope.

Theorem parser_calculate_distance_matrix_fields : forall f, In f (cd_fields ++ logging_fields) -> declares src_parser_calculate_distance_matrix f.
Proof. apply declares_all. vm_compute. reflexivity. Qed.

Theorem parser_calculate_distance_matrix_dests_derived : dests_derived src_parser_calculate_distance_matrix.
Proof. apply dests_derived_sound. vm_compute. reflexivity. Qed.

Theorem parser_calculate_distance_matrix_dests_distinct : dests_distinct src_parser_calculate_distance_matrix.
Proof. apply dests_distinct_sound. vm_compute. reflexivity. Qed.

Theorem parser_calculate_distance_matrix_coordinates : coordinates_int src_parser_calculate_distance_matrix.
Proof. apply coordinates_intb_sound. vm_compute. reflexivity. Qed.

Theorem parser_calculate_distance_matrix_params : params_kv src_parser_calculate_distance_matrix.
Proof. apply params_kvb_sound. vm_compute. reflexivity. Qed.
