(* C10: BayesianModel.__init__ (Generated/SrcInits.v) stores its argument: the attribute the translated methods of the class read
   (`self.<attr>` = the model parameter of their links) is the value the object was constructed with - experiment_space *)
From Coq Require Import ZArith List Bool.
From Batchie Require Import Lib.Sexp Lib.PyRt Model.Encode Generated.SrcInits.
Import ListNotations.
Open Scope Z_scope.

Theorem src_bayesian_model_init_stores : forall (Sp : Type) (experiment_space : Sp), src_bayesian_model_init Sp experiment_space = Ok experiment_space.
Proof. reflexivity. Qed.
