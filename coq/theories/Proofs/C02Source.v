(* C02: the hand-written model Model/Persist.v equals the translations of
     batchie.data.Screen.save_h5 / Screen.load_h5 / ExperimentSpace.from_screen / .save_h5 / .load_h5
     and of the helpers encode_string_array / decode_string_array they call
   regenerated from /repo on every run (Generated/SrcPersist.v, by harness/py2gal.py with the configurations C02_* of
   harness/src_functions.py), for all inputs.
   The translated methods work on a RAW file [h5raw] (datasets and attributes by name, end of Model/Persist.v): save_h5
   denotes the raw file it has written, load_h5 reads a raw file.  The model works on the records [file] / [sfile];
   the representation map is [h5_close] / [h5_close_space] (every dataset of the record present under its name).
     save:  closing what the translated save_h5 wrote gives exactly the model's [save s]     (which datasets, under which
            names, from which attributes of the screen - in particular the six mapping datasets)
     load:  on every raw file that represents a record f, the translated load_h5 is the model's [load f]  (which
            datasets are read and which keyword of Screen(...) receives which - in particular treatment_mapping / sample_mapping)
     load after save on the raw file itself = the model's load (save s): the C02 theorems speak about the translated source. *)
From Coq Require Import ZArith List Bool Lia.
From Coq Require String Ascii.
From Batchie Require Import Lib.Sexp Lib.PyRt Generated.Consts Model.Encode Model.Screen Model.Persist Generated.SrcPersist
  Proofs.PyRtLemmas Proofs.C02Encode Proofs.C02Persist.
Import ListNotations.
Open Scope Z_scope.

Lemma res_bind_ok_r {A} (x : result A) : (dor r <- x; Ok r) = x.
Proof. destruct x; reflexivity. Qed.

(* evaluation of the name lookups: all dataset names are literals *)
Ltac h5_eval :=
  cbv [h5_create h5_set_attr h5_put h5_empty h5_find h_data h_attrs app res_bind
       h5_read_s2 h5_read_n2 h5_read_s1 h5_read_n1 h5_read_b1 h5_attr
       K_treatment_names K_treatment_doses K_treatment_ids K_treatment_mapping_names K_treatment_mapping_doses
       K_treatment_mapping_ids K_observations K_observation_mask K_sample_ids K_sample_names K_sample_mapping_names
       K_sample_mapping_ids K_plate_ids K_plate_names K_control_treatment_name
       String.eqb Ascii.eqb Bool.eqb andb].

(* ---------- the string codec helpers ----------
   encode_string_array / decode_string_array as translated (the `arr.size == 0` guard, np.empty of the same shape,
   np.char.encode / decode which numpy answers with a float64 array when there is no element) are the identity on
   the strings of EVERY array, 1-d or 2-d, with or without elements: the model's bullet 2.  (Without the guard the
   translation would raise tag 33 on the arrays of a screen without rows - the defect repaired in /repo 81a412f.) *)
Theorem src_encode_string_array_1d_is_identity : forall a : list name, src_encode_string_array_1d a = Ok a.
Proof. intros a. unfold src_encode_string_array_1d, np_empty_like1, np_char_codec1, bname in *. destruct (arr1_empty a); reflexivity. Qed.
Theorem src_encode_string_array_2d_is_identity : forall a : h5_2d name, src_encode_string_array_2d a = Ok a.
Proof. intros a. unfold src_encode_string_array_2d, np_empty_like2, np_char_codec2, bname in *. destruct (arr2_empty a); reflexivity. Qed.
Theorem src_decode_string_array_1d_is_identity : forall a : list bname, src_decode_string_array_1d a = Ok a.
Proof. intros a. unfold src_decode_string_array_1d, np_empty_like1, np_char_codec1, bname in *. destruct (arr1_empty a); reflexivity. Qed.
Theorem src_decode_string_array_2d_is_identity : forall a : h5_2d bname, src_decode_string_array_2d a = Ok a.
Proof. intros a. unfold src_decode_string_array_2d, np_empty_like2, np_char_codec2, bname in *. destruct (arr2_empty a); reflexivity. Qed.

Theorem src_string_codec_is_identity :
  (forall a : list name, src_encode_string_array_1d a = Ok a) /\ (forall a : h5_2d name, src_encode_string_array_2d a = Ok a) /\
  (forall a : list bname, src_decode_string_array_1d a = Ok a) /\ (forall a : h5_2d bname, src_decode_string_array_2d a = Ok a).
Proof.
  repeat split; [apply src_encode_string_array_1d_is_identity | apply src_encode_string_array_2d_is_identity
                | apply src_decode_string_array_1d_is_identity | apply src_decode_string_array_2d_is_identity].
Qed.

(* ---------- Screen.save_h5 ---------- *)
(* the raw file the translated save_h5 writes, dataset by dataset in creation order *)
Definition raw_of_file (f : file) : h5raw :=
  {| h_data := [ (K_treatment_names, V_S2 (f_arity f, f_tnames f)); (K_treatment_doses, V_N2 (f_arity f, f_tdoses f));
                 (K_treatment_ids, V_N2 (f_arity f, f_tids f));
                 (K_treatment_mapping_names, V_S1 (f_tm_names f)); (K_treatment_mapping_doses, V_N1 (f_tm_doses f));
                 (K_treatment_mapping_ids, V_N1 (f_tm_ids f));
                 (K_observations, V_N1 (f_obs f)); (K_observation_mask, V_B1 (f_mask f));
                 (K_sample_ids, V_N1 (f_sids f)); (K_sample_names, V_S1 (f_snames f));
                 (K_sample_mapping_names, V_S1 (f_sm_names f)); (K_sample_mapping_ids, V_N1 (f_sm_ids f));
                 (K_plate_ids, V_N1 (f_pids f)); (K_plate_names, V_S1 (f_pnames f)) ];
     h_attrs := [ (K_control_treatment_name, f_ctrl f) ] |}.

Lemma close_raw_of_file f : h5_close (raw_of_file f) = Ok f.
Proof.
  unfold h5_close, raw_of_file. h5_eval. cbn [fst snd]. rewrite Nat.eqb_refl. cbn [andb]. now destruct f.
Qed.

Theorem src_screen_save_h5_writes : forall s : screen, src_screen_save_h5 s = Ok (raw_of_file (save s)).
Proof.
  intros s. unfold src_screen_save_h5, raw_of_file.
  rewrite !src_encode_string_array_1d_is_identity, !src_encode_string_array_2d_is_identity. h5_eval.
  unfold save, sc_tnames, sc_tdoses, sc_tids, sc_obs, sc_mask, sc_snames, sc_pnames, tmap_cols, smap_cols.
  cbn [fst snd f_arity f_tnames f_tdoses f_tids f_tm_names f_tm_doses f_tm_ids f_obs f_mask f_sids f_snames f_sm_names
       f_sm_ids f_pids f_pnames f_ctrl].
  reflexivity.
Qed.

(* independent of the order of the create_dataset calls: what has been written, read back by name, is the model's file *)
Theorem src_screen_save_h5_is_model : forall s : screen, (dor w <- src_screen_save_h5 s; h5_close w) = Ok (save s).
Proof. intros s. rewrite src_screen_save_h5_writes. cbn [res_bind]. apply close_raw_of_file. Qed.

(* ---------- Screen.load_h5 ---------- *)
(* the constructor on the arrays of a record, called as load_h5 calls it, is the model's load *)
Lemma arrays_screen_is_load f :
  arrays_screen (f_arity f, f_tnames f) (f_arity f, f_tdoses f) (f_snames f) (f_pnames f) (Some (f_obs f)) (Some (f_mask f))
                (Some (f_ctrl f)) (Some (f_tm_names f, f_tm_doses f, f_tm_ids f)) (Some (f_sm_names f, f_sm_ids f))
  = load f.
Proof.
  unfold arrays_screen, load. cbn [fst snd]. rewrite Nat.eqb_refl.
  destruct (zip_rows _ _ _ _ _ _) as [rows|]; [|reflexivity].
  destruct (zip_tmap _ _ _) as [tm|]; cbn [option_map]; [|reflexivity].
  destruct (zip_nmap _ _) as [sm|]; cbn [option_map]; reflexivity.
Qed.

(* peel one read off the hypothesis [h5_close w = Ok f] *)
Ltac close_step H x E :=
  match type of H with
  | (dor _ <- ?r; _) = Ok _ => destruct r as [x|] eqn:E; cbn [res_bind] in H; [|discriminate H]
  end.

Theorem src_screen_load_h5_is_model : forall (w : h5raw) (f : file),
  h5_close w = Ok f -> src_screen_load_h5 w = load f.
Proof.
  intros w f H. unfold h5_close in H.
  close_step H tn Etn. close_step H td Etd. close_step H ti Eti. close_step H tmn Etmn. close_step H tmd Etmd.
  close_step H tmi Etmi. close_step H ob Eob. close_step H mk Emk. close_step H si Esi. close_step H sn Esn.
  close_step H smn Esmn. close_step H smi Esmi. close_step H pi Epi. close_step H pn Epn. close_step H c Ec.
  destruct (Nat.eqb (fst td) (fst tn) && Nat.eqb (fst ti) (fst tn)) eqn:Ea; [|discriminate H].
  apply andb_true_iff in Ea. destruct Ea as [Ea _]. apply Nat.eqb_eq in Ea.
  injection H as <-.
  unfold src_screen_load_h5. cbv zeta.
  repeat first [ rewrite Etn | rewrite Etd | rewrite Eob | rewrite Emk | rewrite Esn | rewrite Epn | rewrite Ec
               | rewrite Esmn | rewrite Esmi | rewrite Etmn | rewrite Etmd | rewrite Etmi
               | rewrite src_decode_string_array_1d_is_identity | rewrite src_decode_string_array_2d_is_identity
               | progress cbn [res_bind] ].
  rewrite res_bind_ok_r, <- arrays_screen_is_load.
  cbn [f_arity f_tnames f_tdoses f_tm_names f_tm_doses f_tm_ids f_obs f_mask f_snames f_sm_names f_sm_ids f_pnames f_ctrl].
  destruct tn as [a tn], td as [a0 td]. cbn [fst snd] in *. subst a0. reflexivity.
Qed.

Corollary src_screen_load_h5_of_file : forall f : file, src_screen_load_h5 (raw_of_file f) = load f.
Proof. intros f. apply src_screen_load_h5_is_model, close_raw_of_file. Qed.

(* ---------- the round trip through the two translated methods ---------- *)
Theorem src_screen_save_load_is_model : forall s : screen,
  (dor w <- src_screen_save_h5 s; src_screen_load_h5 w) = load (save s).
Proof. intros s. rewrite src_screen_save_h5_writes. cbn [res_bind]. apply src_screen_load_h5_of_file. Qed.

(* k cycles through the translated methods *)
Fixpoint src_cycles (k : nat) (s : screen) : result screen :=
  match k with
  | O => Ok s
  | S k' => dor w <- src_screen_save_h5 s; dor s' <- src_screen_load_h5 w; src_cycles k' s'
  end.

Lemma src_cycles_is_model k : forall s, src_cycles k s = cycles k s.
Proof.
  induction k as [|k IH]; intros s; cbn [src_cycles cycles]; [reflexivity|].
  rewrite <- src_screen_save_load_is_model.
  destruct (src_screen_save_h5 s) as [w|e]; cbn [res_bind]; [|reflexivity].
  destruct (src_screen_load_h5 w) as [s'|e]; cbn [res_bind]; [apply IH | reflexivity].
Qed.

(* C02_load_save / C02_any_number_of_cycles as statements about the translated source *)
Theorem src_screen_round_trip : forall rows arity ctrl tmap smap og mg s,
  mk_screen rows arity ctrl tmap smap og mg = Ok s ->
  (dor w <- src_screen_save_h5 s; src_screen_load_h5 w) = Ok s /\ forall n, src_cycles n s = Ok s.
Proof.
  intros rows arity ctrl tmap smap og mg s H. split.
  - rewrite src_screen_save_load_is_model. eapply load_save; eassumption.
  - intros n. rewrite src_cycles_is_model. eapply any_cycles; eassumption.
Qed.

(* ---------- ExperimentSpace ---------- *)
Lemma arrays_space_cols tm sm c :
  arrays_space (tmap_cols tm) (smap_cols sm) c = Ok {| sp_tmap := tm; sp_smap := sm; sp_ctrl := c |}.
Proof. unfold arrays_space, tmap_cols, smap_cols. cbn [fst snd]. now rewrite zip_tmap_save, zip_nmap_save. Qed.

Theorem src_space_from_screen_is_model : forall s : screen, src_space_from_screen s = Ok (space_of_screen s).
Proof. intros s. unfold src_space_from_screen. rewrite arrays_space_cols. reflexivity. Qed.

Definition raw_of_sfile (g : sfile) : h5raw :=
  {| h_data := [ (K_treatment_names, V_S1 (g_tnames g)); (K_treatment_doses, V_N1 (g_tdoses g)); (K_treatment_ids, V_N1 (g_tids g));
                 (K_sample_names, V_S1 (g_snames g)); (K_sample_ids, V_N1 (g_sids g)) ];
     h_attrs := [ (K_control_treatment_name, g_ctrl g) ] |}.

Lemma close_raw_of_sfile g : h5_close_space (raw_of_sfile g) = Ok g.
Proof. unfold h5_close_space, raw_of_sfile. h5_eval. now destruct g. Qed.

Theorem src_space_save_h5_writes : forall sp : space, src_space_save_h5 sp = Ok (raw_of_sfile (space_save sp)).
Proof.
  intros sp. unfold src_space_save_h5, raw_of_sfile. rewrite !src_encode_string_array_1d_is_identity. h5_eval.
  unfold space_save, tmap_cols, smap_cols.
  cbn [fst snd g_tnames g_tdoses g_tids g_snames g_sids g_ctrl]. reflexivity.
Qed.

Theorem src_space_save_h5_is_model : forall sp : space,
  (dor w <- src_space_save_h5 sp; h5_close_space w) = Ok (space_save sp).
Proof. intros sp. rewrite src_space_save_h5_writes. cbn [res_bind]. apply close_raw_of_sfile. Qed.

Theorem src_space_load_h5_is_model : forall (w : h5raw) (g : sfile),
  h5_close_space w = Ok g -> src_space_load_h5 w = space_load g.
Proof.
  intros w g H. unfold h5_close_space in H.
  close_step H tn Etn. close_step H td Etd. close_step H ti Eti. close_step H sn Esn. close_step H si Esi. close_step H c Ec.
  injection H as <-.
  unfold src_space_load_h5. cbv zeta.
  repeat first [ rewrite Etn | rewrite Etd | rewrite Eti | rewrite Esn | rewrite Esi | rewrite Ec
               | rewrite src_decode_string_array_1d_is_identity | progress cbn [res_bind] ].
  rewrite res_bind_ok_r. unfold arrays_space, space_load. cbn [fst snd g_tnames g_tdoses g_tids g_snames g_sids g_ctrl].
  reflexivity.
Qed.

Corollary src_space_load_h5_of_file : forall g : sfile, src_space_load_h5 (raw_of_sfile g) = space_load g.
Proof. intros g. apply src_space_load_h5_is_model, close_raw_of_sfile. Qed.

Theorem src_space_save_load_is_model : forall sp : space,
  (dor w <- src_space_save_h5 sp; src_space_load_h5 w) = space_load (space_save sp).
Proof. intros sp. rewrite src_space_save_h5_writes. cbn [res_bind]. apply src_space_load_h5_of_file. Qed.

(* the space of a screen, saved and loaded by the translated methods *)
Theorem src_space_round_trip : forall s : screen,
  (dor sp <- src_space_from_screen s; dor w <- src_space_save_h5 sp; src_space_load_h5 w) = Ok (space_of_screen s).
Proof.
  intros s. rewrite src_space_from_screen_is_model. cbn [res_bind].
  rewrite src_space_save_load_is_model. apply space_load_save.
Qed.
