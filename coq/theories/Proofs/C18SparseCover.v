(* C18 for the initial cover (SparseCoverPlateGenerator): the model RetroInit.sparse_cover (linked to the translated source by
   C13Source.link_sparse_cover_generate_and_unmask_initial_plate) is a function of the screen and of the PREFIX of the answer
   stream it consumes: the output and the unread rest do not depend on what follows, i.e. on nothing but (inputs, answers of the
   given generator) - the statement C18_explicit_stream makes about `prog`s, here for the state-passing form of the C13 link. *)
From Coq Require Import ZArith List Bool Arith Lia.
From Batchie Require Import Lib.Sexp Model.Encode Model.Screen Model.Retro Model.RetroInit.
Import ListNotations.

Lemma sc_samples_stream : forall ctrl rows samples chosen ds c ds',
  sc_samples ctrl rows samples chosen ds = Ok (c, ds') ->
  exists used, ds = used ++ ds' /\ forall tail, sc_samples ctrl rows samples chosen (used ++ tail) = Ok (c, tail).
Proof.
  intros ctrl rows samples. induction samples as [|s rest IH]; intros chosen ds c ds' H; cbn in H.
  - inversion H; subst. exists []. split; [reflexivity | intros tail; reflexivity].
  - destruct ds as [|d ds1]; [discriminate|]. destruct d as [l|l]; [|discriminate].
    destruct l as [|i [|j l']]; try discriminate.
    destruct (memb i (sc_offer_sample ctrl rows s chosen)) eqn:Em; [|discriminate].
    destruct (IH _ _ _ _ H) as (used & Hd & Ht).
    exists (DInts [i] :: used). split; [cbn; rewrite Hd; reflexivity|].
    intros tail. cbn. rewrite Em. apply Ht.
Qed.

Lemma sc_loop_eq : forall ctrl rows chosen ds,
  sc_loop ctrl rows chosen ds =
  if is_nil (sc_remaining ctrl rows chosen) then Ok (chosen, ds)
  else match ds with
       | DInts [i] :: ds1 => if memb i (sc_offer_loop ctrl rows chosen) then sc_loop ctrl rows (chosen ++ [i]) ds1 else Err 94%Z
       | DInts _ :: _ => Err 91%Z
       | _ => Err 90%Z
       end.
Proof. intros ctrl rows chosen ds. destruct ds; reflexivity. Qed.

Lemma sc_loop_stream : forall ctrl rows ds chosen c ds',
  sc_loop ctrl rows chosen ds = Ok (c, ds') ->
  exists used, ds = used ++ ds' /\ forall tail, sc_loop ctrl rows chosen (used ++ tail) = Ok (c, tail).
Proof.
  intros ctrl rows ds. induction ds as [|d ds1 IH]; intros chosen c ds' H; rewrite sc_loop_eq in H;
    destruct (is_nil (sc_remaining ctrl rows chosen)) eqn:En.
  - inversion H; subst. exists []. split; [reflexivity|]. intros tail. cbn [app]. rewrite sc_loop_eq, En. reflexivity.
  - discriminate.
  - inversion H; subst. exists []. split; [reflexivity|]. intros tail. cbn [app]. rewrite sc_loop_eq, En. reflexivity.
  - destruct d as [l|l]; [|discriminate]. destruct l as [|i [|j l']]; try discriminate.
    destruct (memb i (sc_offer_loop ctrl rows chosen)) eqn:Em; [|discriminate].
    destruct (IH _ _ _ H) as (used & Hd & Ht).
    exists (DInts [i] :: used). split; [cbn; rewrite Hd; reflexivity|].
    intros tail. cbn [app]. rewrite sc_loop_eq, En, Em. apply Ht.
Qed.

Theorem sparse_cover_explicit_stream : forall ctrl reveal rows ds out ds',
  sparse_cover ctrl reveal rows ds = Ok (out, ds') ->
  exists used, ds = used ++ ds' /\ forall tail, sparse_cover ctrl reveal rows (used ++ tail) = Ok (out, tail).
Proof.
  intros ctrl reveal rows ds out ds' H. unfold sparse_cover in H.
  destruct (negb (forallb r_mask rows)) eqn:E0; [discriminate|].
  destruct (sc_samples ctrl rows (sample_names rows) [] ds) as [[c1 d1]|e1] eqn:E1; cbn in H; [|discriminate].
  destruct (sc_loop ctrl rows c1 d1) as [[c2 d2]|e2] eqn:E2; cbn in H; [|discriminate].
  match type of H with context [construct ?x] => destruct (construct x) as [cc|e3] eqn:E3 end; cbn in H; [|discriminate].
  inversion H; subst.
  destruct (sc_samples_stream _ _ _ _ _ _ _ E1) as (u1 & Hd1 & Ht1).
  destruct (sc_loop_stream _ _ _ _ _ _ E2) as (u2 & Hd2 & Ht2).
  exists (u1 ++ u2). split; [rewrite Hd1, Hd2, app_assoc; reflexivity|].
  intros tail. unfold sparse_cover. rewrite E0, <- app_assoc, (Ht1 (u2 ++ tail)). cbn. rewrite (Ht2 tail). cbn. rewrite E3. reflexivity.
Qed.
