(* C13: NPlatePerCellLineSmoother.__init__ (Generated/SrcInits.v) stores its argument: the attribute the translated methods of the class read
   (`self.<attr>` = the model parameter of their links) is the value the object was constructed with - min_n_cell_line_plates *)
From Coq Require Import ZArith List Bool.
From Batchie Require Import Lib.Sexp Lib.PyRt Model.Encode Generated.SrcInits.
Import ListNotations.
Open Scope Z_scope.

Theorem src_nplate_init_stores : forall m : Z, src_nplate_init m = Ok m.
Proof. reflexivity. Qed.
