(* The command-line wrapper calculate_distance_matrix.main: the hand-written model Cli.cli_calculate_distance_matrix
   equals the translation of the WHOLE function of /repo, regenerated on every run (Generated/SrcCli.v, configuration
   CLI_DISTANCE_MATRIX of harness/src_functions.py), for every record of library functions and all parsed arguments. *)
From Coq Require Import ZArith List Bool.
From Batchie Require Import Lib.Sexp Lib.PyRt Model.Cli Generated.SrcCli Proofs.PyRtLemmas.
Import ListNotations.
Open Scope Z_scope.

Theorem src_cli_calculate_distance_matrix_is_model :
  forall (Scr Th Me Dm : Type) (L : cd_lib Scr Th Me Dm) (a : cd_args),
  src_cli_calculate_distance_matrix Scr Th Me Dm L a = cli_calculate_distance_matrix L a.
Proof.
  intros. unfold src_cli_calculate_distance_matrix, cli_calculate_distance_matrix. cbv zeta.
  rewrite !res_map_all_ret.
  repeat cli_step. all: reflexivity.
Qed.
