(* C13 / C11: the hand-written models of the shipped generators and smoothers (Model/Retro.v) equal the translations of
   the corresponding WHOLE methods of /repo's retrospective.py, regenerated on every run (Generated/SrcRetroGen.v, by
   harness/py2gal.py with the configurations C13_SAMPLE_SEG ... of harness/src_functions.py), for all inputs.
   (create_random_holdout, which only C11 states, is in Proofs/C13Source_Holdout.v.) *)
From Coq Require Import ZArith List Bool Arith Lia ZifyBool Permutation.
From Batchie Require Import Lib.Sexp Lib.PyRt Model.Encode Model.Screen Model.Retro Model.Pairwise Model.RetroHoldout Model.RetroInit
  Generated.SrcRetro Generated.SrcRetroGen Proofs.PyRtLemmas Proofs.C11Lib Proofs.C11Select Proofs.C13SampleSeg Proofs.C13Optimal Proofs.C13NPlate Proofs.C13Filter Proofs.C11Init Proofs.C13SparseTerm Proofs.C11Source.
Import ListNotations.
Open Scope nat_scope.

(* ---------- generic facts about the run-time library ---------- *)
Lemma fold_snoc {A} : forall (l acc : list A), fold_left (fun p c => p ++ [c]) l acc = acc ++ l.
Proof.
  induction l as [|a l IH]; intros acc; cbn [fold_left]; [now rewrite app_nil_r|].
  rewrite IH, <- app_assoc. reflexivity.
Qed.

Lemma enumerate_z_enum {A} : forall (l : list A),
  enumerate_z l = map (fun kp => (Z.of_nat (fst kp), snd kp)) (enum_from 0 l).
Proof.
  intros l. unfold enumerate_z. generalize 0. induction l as [|a l IH]; intros k; [reflexivity|].
  cbn [length seq map combine enum_from fst snd]. f_equal. apply IH.
Qed.

Lemma enum_from_map_idx {A B} (h : nat -> A -> B) : forall (l : list A) j,
  enum_from j (map (fun ix => h (fst ix) (snd ix)) (enum_from j l))
  = map (fun ix => (fst ix, h (fst ix) (snd ix))) (enum_from j l).
Proof.
  induction l as [|a l IH]; intros j; [reflexivity|].
  cbn [enum_from map fst snd]. f_equal.
  (* the tail is enumerated from S j on both sides *)
  exact (IH (S j)).
Qed.

Lemma enum_from_repeat {A B} (h : nat -> A -> B) (a : A) : forall n k,
  map (fun ix => h (fst ix) (snd ix)) (enum_from k (repeat a n)) = map (fun i => h i a) (seq k n).
Proof. induction n as [|n IH]; intros k; [reflexivity|]. cbn [repeat enum_from map seq fst snd]. f_equal. apply IH. Qed.

Lemma filter_true {A} : forall l : list A, filter (fun _ => true) l = l.
Proof. induction l as [|a l IH]; [reflexivity|]. cbn [filter]. now rewrite IH. Qed.

(* ---------- SampleSegregatingPermutationPlateGenerator._generate_plates ---------- *)
(* ceil(a / b) for b > 0, as the model writes it *)
Lemma ceil_neg_div : forall a b, (0 < b)%Z -> (- ((- a) / b))%Z = cdiv a b.
Proof.
  intros a b Hb. unfold cdiv.
  pose proof (Z.div_mod (- a) b ltac:(lia)) as E1. pose proof (Z.mod_pos_bound (- a) b Hb) as B1.
  pose proof (Z.div_mod (a + b - 1) b ltac:(lia)) as E2. pose proof (Z.mod_pos_bound (a + b - 1) b Hb) as B2.
  nia.
Qed.

(* the model with numpy's IndexError of `plate_names[indices] = ...` made explicit: the plates computed from the recorded
   answers must consist of row numbers of the screen (they do whenever the answers are permutations of the offered arrays) *)
Definition sample_seg_checked (mx : Z) (rows : list row) (ds : list draw) : result (list row * list draw) :=
  dor r <- ss_plates true mx rows (sample_names rows) ds;
  let '(pis, ds') := r in
  if forallb (forallb (fun i => i <? length rows)) pis
  then dor c <- construct (map (fun ir => set_plate (label_of pis (fst ir)) (snd ir)) (enum_from 0 rows)); Ok (c, ds')
  else Err 92%Z.

(* the loop over the samples, for an arbitrary body equal to the canonical one *)
Lemma ss_for (mx : Z) (rows : screen_t)
      (f : list draw * list (list nat) -> name -> result (list draw * list (list nat))) :
  (0 <= mx)%Z ->
  (forall ds pis s, f (ds, pis) s =
     dor (d, p) <- (if (zlen (idx_where (in_sample s) rows) >? mx)%Z then
                      dor n <- ceil_div_float (zlen (idx_where (in_sample s) rows)) mx;
                      dor (perm, ds1) <- permutation_ints (idx_where (in_sample s) rows) ds;
                      dor chunks <- array_split_z perm n;
                      dor p' <- res_fold (fun (p : list (list nat)) c => Ok (p ++ [c])) chunks pis;
                      Ok (ds1, p')
                    else Ok (ds, pis ++ [idx_where (in_sample s) rows]));
     Ok (d, p)) ->
  forall samples ds pis,
    res_fold f samples (ds, pis) = dor r <- ss_plates true mx rows samples ds; Ok (snd r, pis ++ fst r).
Proof.
  intros Hmx Hf. induction samples as [|s samples IH]; intros ds pis; cbn [res_fold ss_plates res_bind fst snd].
  - now rewrite app_nil_r.
  - rewrite Hf. unfold zlen. set (idx := idx_where (in_sample s) rows).
    destruct (Z.of_nat (length idx) >? mx)%Z eqn:Ebig; cbn [res_bind].
    + unfold ceil_div_float. destruct (mx <=? 0)%Z eqn:E0.
      * assert (mx = 0%Z) as -> by lia. reflexivity.
      * apply Z.leb_gt in E0. destruct (mx =? 0)%Z eqn:E1; [lia|]. cbn [res_bind].
        unfold permutation_ints. destruct (take_ints ds) as [[perm ds1]|t]; cbn [res_bind]; [|reflexivity].
        unfold array_split_z. rewrite ceil_neg_div by exact E0.
        assert (0 < cdiv (Z.of_nat (length idx)) mx)%Z as Hpos.
        { unfold cdiv. apply Z.div_str_pos. apply Z.gtb_lt in Ebig. lia. }
        destruct (cdiv (Z.of_nat (length idx)) mx <=? 0)%Z eqn:E2; [lia|]. cbn [res_bind].
        rewrite (res_fold_pure _ (fun (p : list (list nat)) c => p ++ [c])) by reflexivity. cbn [res_bind].
        rewrite fold_snoc, IH.
        destruct (ss_plates true mx rows samples ds1) as [[ps ds2]|t]; cbn [res_bind fst snd]; [|reflexivity].
        now rewrite app_assoc.
    + rewrite IH. destruct (ss_plates true mx rows samples ds) as [[ps ds2]|t]; cbn [res_bind fst snd]; [|reflexivity].
      now rewrite <- app_assoc.
Qed.

(* the labelling loop `for idx, indices in enumerate(plate_indices): plate_names[indices] = f"generated_plate_{idx}"` *)
Definition lab (k : nat) (pis : list (list nat)) (i : nat) (acc : name) : name :=
  fold_left (fun acc kp => if memb i (snd kp) then gen_name (fst kp) else acc) (enum_from k pis) acc.

Lemma label_loop_gen (f : list name -> Z * list nat -> result (list name)) :
  (forall names k idx, f names (k, idx) = dor n' <- set_at names idx (gen_name (Z.to_nat k)); Ok n') ->
  forall pis k names,
    res_fold f (map (fun kp => (Z.of_nat (fst kp), snd kp)) (enum_from k pis)) names
    = if forallb (forallb (fun i => i <? length names)) pis
      then Ok (map (fun ix => lab k pis (fst ix) (snd ix)) (enum_from 0 names))
      else Err 92%Z.
Proof.
  intros Hf. induction pis as [|c pis IH]; intros k names; cbn [enum_from map res_fold forallb fst snd].
  - unfold lab. cbn [enum_from fold_left]. f_equal.
    rewrite <- (enum_from_snd names 0) at 1. reflexivity.
  - rewrite Hf. unfold set_at. rewrite Nat2Z.id.
    destruct (forallb (fun i => i <? length names) c); cbn [res_bind andb]; [|reflexivity].
    rewrite IH. rewrite map_length, enum_from_length.
    destruct (forallb (forallb (fun i => i <? length names)) pis); [|reflexivity]. f_equal.
    rewrite (enum_from_map_idx (fun i x => if memb i c then gen_name k else x)), map_map. reflexivity.
Qed.

Lemma label_loop (f : list name -> Z * list nat -> result (list name)) :
  (forall names k idx, f names (k, idx) = dor n' <- set_at names idx (gen_name (Z.to_nat k)); Ok n') ->
  forall pis n,
    res_fold f (enumerate_z pis) (blank_names n)
    = if forallb (forallb (fun i => i <? n)) pis then Ok (map (label_of pis) (seq 0 n)) else Err 92%Z.
Proof.
  intros Hf pis n. rewrite enumerate_z_enum, (label_loop_gen f Hf). unfold blank_names. rewrite repeat_length.
  destruct (forallb (forallb (fun i => i <? n)) pis); [|reflexivity]. f_equal.
  apply (enum_from_repeat (fun i x => lab 0 pis i x)).
Qed.

Lemma combine_labels (g : nat -> name) : forall rows k,
  map (fun lr => set_plate (fst lr) (snd lr)) (combine (map g (seq k (length rows))) rows)
  = map (fun ir => set_plate (g (fst ir)) (snd ir)) (enum_from k rows).
Proof.
  induction rows as [|r rows IH]; intros k; [reflexivity|].
  cbn [length seq map combine enum_from fst snd]. f_equal. apply IH.
Qed.

Theorem src_sample_seg_is_checked_model : forall mx rows ds, (0 <= mx)%Z ->
  src_sample_seg_generate_plates mx rows ds = sample_seg_checked mx rows ds.
Proof.
  intros mx rows ds Hmx. unfold src_sample_seg_generate_plates, sample_seg_checked.
  rewrite (ss_for mx rows _ Hmx) by (intros; reflexivity).
  destruct (ss_plates true mx rows (sample_names rows) ds) as [[pis ds']|t]; cbn [res_bind fst snd app]; [|reflexivity].
  rewrite label_loop by (intros; reflexivity).
  destruct (forallb (forallb (fun i => i <? length rows)) pis); cbn [res_bind]; [|reflexivity].
  unfold screen_labelled. rewrite map_length, seq_length, Nat.eqb_refl. cbn [negb].
  rewrite combine_labels.
  destruct (construct _); reflexivity.
Qed.

(* under numpy's permutation contract (the hypothesis of the C13 shape theorems) the check passes *)
Lemma sample_seg_checked_is_model : forall mx rows ds,
  ss_contract mx rows (sample_names rows) ds -> sample_seg_checked mx rows ds = sample_seg true mx rows ds.
Proof.
  intros mx rows ds HC. unfold sample_seg_checked, sample_seg.
  destruct (ss_plates true mx rows (sample_names rows) ds) as [[pis ds']|t] eqn:E; cbn [res_bind]; [|reflexivity].
  destruct (ss_plates_spec _ _ _ _ _ _ E HC) as [Hok _].
  replace (forallb (forallb (fun i => i <? length rows)) pis) with true; [reflexivity|].
  symmetry. apply forallb_forall. intros c Hc. apply forallb_forall. intros i Hi.
  destruct (Hok c Hc) as [(s & Hs) _]. destruct (Hs i Hi) as (r & Hn & _).
  apply Nat.ltb_lt. apply nth_error_Some. congruence.
Qed.

Theorem src_sample_seg_is_model : forall mx rows ds, (0 <= mx)%Z ->
  ss_contract mx rows (sample_names rows) ds ->
  src_sample_seg_generate_plates mx rows ds = sample_seg true mx rows ds.
Proof. intros. rewrite src_sample_seg_is_checked_model by assumption. now apply sample_seg_checked_is_model. Qed.

(* a negative max_plate_size: Python computes n_plates <= 0, draws the permutation and np.array_split raises; the model
   raises (tag 3) without reading the answer - so both raise at the first sample, possibly with different tags when the
   stream of recorded answers is exhausted (tag 90, not a Python behaviour); on the empty screen both return it *)
Lemma ss_for_neg (mx : Z) (rows : screen_t)
      (f : list draw * list (list nat) -> name -> result (list draw * list (list nat))) :
  (mx < 0)%Z ->
  (forall ds pis s, f (ds, pis) s =
     dor (d, p) <- (if (zlen (idx_where (in_sample s) rows) >? mx)%Z then
                      dor n <- ceil_div_float (zlen (idx_where (in_sample s) rows)) mx;
                      dor (perm, ds1) <- permutation_ints (idx_where (in_sample s) rows) ds;
                      dor chunks <- array_split_z perm n;
                      dor p' <- res_fold (fun (p : list (list nat)) c => Ok (p ++ [c])) chunks pis;
                      Ok (ds1, p')
                    else Ok (ds, pis ++ [idx_where (in_sample s) rows]));
     Ok (d, p)) ->
  forall s samples ds pis, exists t, res_fold f (s :: samples) (ds, pis) = Err t.
Proof.
  intros Hmx Hf s samples ds pis. cbn [res_fold]. rewrite Hf. unfold zlen.
  set (a := Z.of_nat (length (idx_where (in_sample s) rows))). assert (0 <= a)%Z by (subst a; lia).
  destruct (a >? mx)%Z eqn:E; [|lia]. unfold ceil_div_float. destruct (mx =? 0)%Z eqn:E0; [lia|]. cbn [res_bind].
  unfold permutation_ints. destruct (take_ints ds) as [[perm ds1]|t]; cbn [res_bind]; [|eauto].
  unfold array_split_z.
  assert (- (- a / mx) <= 0)%Z as Hn.
  { pose proof (Z.div_mod (- a) mx ltac:(lia)). pose proof (Z.mod_neg_bound (- a) mx Hmx). nia. }
  destruct (- (- a / mx) <=? 0)%Z eqn:E1; [|lia]. cbn [res_bind]. eauto.
Qed.

Theorem src_sample_seg_negative_max : forall mx rows ds, (mx < 0)%Z ->
  match sample_seg true mx rows ds with
  | Ok r => src_sample_seg_generate_plates mx rows ds = Ok r
  | Err _ => exists t, src_sample_seg_generate_plates mx rows ds = Err t
  end.
Proof.
  intros mx rows ds Hmx. unfold sample_seg, src_sample_seg_generate_plates.
  destruct (sample_names rows) as [|s samples] eqn:Es.
  - cbn [ss_plates res_fold res_bind enumerate_z length seq map combine].
    assert (rows = []) as ->.
    { destruct rows as [|r rows]; [reflexivity|]. exfalso.
      assert (In (r_sample r) (sample_names (r :: rows))) as Hin by (apply In_sample_names; exists r; split; [now left|reflexivity]).
      rewrite Es in Hin. contradiction. }
    reflexivity.
  - cbn [ss_plates]. assert (Z.of_nat (length (idx_where (in_sample s) rows)) >? mx = true)%Z as -> by lia.
    assert (mx <=? 0 = true)%Z as -> by lia. cbn [res_bind].
    match goal with |- context [res_fold ?f (s :: samples) (ds, [])] =>
      destruct (ss_for_neg mx rows f Hmx ltac:(intros; reflexivity) s samples ds []) as [t ->] end.
    cbn [res_bind]. eauto.
Qed.

(* ---------- FixedSizeSmoother / OptimalSizeSmoother._smooth_plates ---------- *)
(* the loop over the plates (drop / keep / sub-sample), for an arbitrary body equal to the canonical one *)
Lemma size_for (t : Z) (rows : screen_t) (f : list bvec * list draw -> bvec -> result (list bvec * list draw)) :
  (forall res ds v, f (res, ds) v =
     if (plate_size v <? t)%Z then Ok (res, ds)
     else
       dor (r1, d1) <- (if (plate_size v =? t)%Z then Ok (res ++ [v], ds)
                        else
                          dor (d2, r2) <- (if (plate_size v >? t)%Z then
                                             dor (idx, d3) <- choice_ints (vec_positions v) t ds;
                                             Ok (d3, res ++ [vof_idx (length rows) idx])
                                           else Ok (ds, res));
                          Ok (r2, d2));
       Ok (r1, d1)) ->
  forall plates ds res,
    res_fold f (map (fun p => plate_vec p rows) plates) (res, ds)
    = dor r <- size_results t (length rows) rows plates ds; Ok (res ++ fst r, snd r).
Proof.
  intros Hf. induction plates as [|p plates IH]; intros ds res; cbn [map res_fold size_results res_bind fst snd].
  - now rewrite app_nil_r.
  - rewrite Hf. unfold plate_size. set (sz := Z.of_nat (vcount (plate_vec p rows))).
    destruct (sz <? t)%Z eqn:E1; cbn [res_bind]; [apply IH|].
    destruct (sz =? t)%Z eqn:E2; cbn [res_bind].
    + rewrite IH. destruct (size_results t (length rows) rows plates ds) as [[vs ds']|e]; cbn [res_bind fst snd]; [|reflexivity].
      now rewrite <- app_assoc.
    + destruct (sz >? t)%Z eqn:E3; [|lia]. unfold choice_ints.
      destruct (t <? 0)%Z; cbn [res_bind]; [reflexivity|].
      destruct (take_ints ds) as [[idx ds1]|e]; cbn [res_bind]; [|reflexivity].
      rewrite IH. destruct (size_results t (length rows) rows plates ds1) as [[vs ds']|e]; cbn [res_bind fst snd]; [|reflexivity].
      now rewrite <- app_assoc.
Qed.

Theorem src_fixed_size_is_model : forall t rows ds,
  src_fixed_size_smooth_plates t rows ds = size_smooth t rows ds.
Proof.
  intros t rows ds. unfold src_fixed_size_smooth_plates, size_smooth, plates_of.
  rewrite (size_for t rows) by (intros; reflexivity).
  destruct (size_results t (length rows) rows (plate_names_of rows) ds) as [[vs ds']|e]; cbn [res_bind fst snd app]; [|reflexivity].
  rewrite (res_fold_pure _ vor) by reflexivity. reflexivity.
Qed.

(* the three numpy statements that pick the optimal size, on ints, against the model on nat *)
Lemma leb_of_nat : forall x y, (Z.of_nat x <=? Z.of_nat y)%Z = (x <=? y).
Proof. intros. destruct (x <=? y) eqn:E; [apply Nat.leb_le in E|apply Nat.leb_gt in E]; lia. Qed.
Lemma ltb_of_nat : forall x y, (Z.of_nat x <? Z.of_nat y)%Z = (x <? y).
Proof. intros. destruct (x <? y) eqn:E; [apply Nat.ltb_lt in E|apply Nat.ltb_ge in E]; lia. Qed.

Lemma insert_z_of_nat : forall x l, insert_z (Z.of_nat x) (map Z.of_nat l) = map Z.of_nat (insert_nat x l).
Proof.
  intros x. induction l as [|y l IH]; [reflexivity|]. cbn [map insert_z insert_nat].
  rewrite leb_of_nat. destruct (x <=? y); cbn [map]; [reflexivity|]. now rewrite IH.
Qed.
Lemma sort_z_of_nat : forall l, sort_z (map Z.of_nat l) = map Z.of_nat (sort_nat l).
Proof.
  induction l as [|x l IH]; [reflexivity|]. cbn [map sort_z sort_nat fold_right].
  fold (sort_z (map Z.of_nat l)). fold (sort_nat l). now rewrite IH, insert_z_of_nat.
Qed.

Lemma products_of_nat : forall l k N, N = k + length l ->
  vmul_z (map Z.of_nat l) (rsub_z (Z.of_nat N) (map Z.of_nat (seq k (length l))))
  = map Z.of_nat (map (fun kx => snd kx * (N - fst kx)) (enum_from k l)).
Proof.
  induction l as [|x l IH]; intros k N HN; [reflexivity|].
  cbn [length seq map enum_from fst snd]. unfold vmul_z, rsub_z in *. cbn [map combine fst snd]. f_equal.
  - rewrite Nat2Z.inj_mul, Nat2Z.inj_sub by (cbn [length] in HN; lia). reflexivity.
  - apply IH. cbn [length] in HN. lia.
Qed.

Lemma argmax_go_of_nat : forall l i best bi,
  argmax_z_go (map Z.of_nat l) (Z.of_nat i) (Z.of_nat best) (Z.of_nat bi) = Z.of_nat (argmax_go l i best bi).
Proof.
  induction l as [|y l IH]; intros i best bi; [reflexivity|]. cbn [map argmax_z_go argmax_go].
  rewrite ltb_of_nat. replace (Z.of_nat i + 1)%Z with (Z.of_nat (S i)) by lia.
  destruct (best <? y); apply IH.
Qed.
Lemma argmax_of_nat : forall l, l <> [] -> argmax_z (map Z.of_nat l) = Ok (Z.of_nat (argmax l)).
Proof.
  intros [|x l] H; [congruence|]. cbn [map argmax_z argmax]. f_equal. apply (argmax_go_of_nat l 1 x 0).
Qed.

Lemma list_get_of_nat : forall l i, i < length l -> list_get (map Z.of_nat l) (Z.of_nat i) = Ok (Z.of_nat (nth i l 0)).
Proof.
  intros l i Hi. unfold list_get. destruct (Z.of_nat i <? 0)%Z eqn:E; [lia|]. rewrite E, Nat2Z.id.
  rewrite nth_error_map, (nth_error_nth' l 0 Hi). reflexivity.
Qed.

Lemma plate_names_of_nil : forall rows, plate_names_of rows = [] -> rows = [].
Proof.
  intros [|r rows] H; [reflexivity|]. exfalso.
  assert (In (r_plate r) (plate_names_of (r :: rows))) as Hin by (apply In_plate_names_of; exists r; split; [now left|reflexivity]).
  rewrite H in Hin. contradiction.
Qed.

Lemma sort_nat_length : forall l, length (sort_nat l) = length l.
Proof. intros l. apply Permutation_length, sort_nat_perm. Qed.

Theorem src_optimal_size_is_model : forall rows ds,
  src_optimal_size_smooth_plates rows ds = optimal_smooth rows ds.
Proof.
  intros rows ds. destruct rows as [|r0 rows']; [reflexivity|].
  assert (r0 :: rows' <> []) as Hrows by discriminate. remember (r0 :: rows') as rows eqn:Er.
  unfold src_optimal_size_smooth_plates, optimal_smooth.
  replace (Retro.is_nil rows) with false by (subst; reflexivity).
  assert (map (fun v => plate_size v) (plates_of rows) = map Z.of_nat (plate_sizes rows)) as ->.
  { unfold plates_of, plate_sizes, plate_size. now rewrite !map_map. }
  rewrite sort_z_of_nat. set (s := sort_nat (plate_sizes rows)).
  unfold zlen, zrange. rewrite map_length, Nat2Z.id.
  rewrite (products_of_nat s 0 (length s)) by reflexivity. fold (size_products s).
  assert (plate_sizes rows <> []) as Hne.
  { unfold plate_sizes. intros E. apply map_eq_nil, plate_names_of_nil in E. congruence. }
  assert (s <> []) as Hs.
  { intros E. apply (f_equal (@length _)) in E. subst s. rewrite sort_nat_length in E.
    destruct (plate_sizes rows); [congruence|cbn in E; lia]. }
  assert (size_products s <> []) as Hp.
  { unfold size_products. intros E. apply map_eq_nil in E. destruct s; [congruence|discriminate]. }
  rewrite (argmax_of_nat _ Hp). cbn [res_bind].
  destruct (argmax_spec _ Hp) as [Hlt _].
  unfold size_products in Hlt at 2. rewrite map_length, enum_from_length in Hlt.
  rewrite (list_get_of_nat s _ Hlt). cbn [res_bind]. fold (optimal_size (plate_sizes rows)).
  unfold size_smooth, plates_of.
  rewrite (size_for (Z.of_nat (optimal_size (plate_sizes rows))) rows) by (intros; reflexivity).
  destruct (size_results _ (length rows) rows (plate_names_of rows) ds) as [[vs ds']|e]; cbn [res_bind fst snd app]; [|reflexivity].
  rewrite (res_fold_pure _ vor) by reflexivity. reflexivity.
Qed.

(* ---------- NPlatePerCellLineSmoother._get_plate_sample_id / ._smooth_plates ---------- *)
Theorem src_nplate_get_plate_sample_id_is_model : forall rows p,
  src_nplate_get_plate_sample_id rows (plate_vec p rows) = dor nm <- plate_sample p rows; Ok (sample_id_z rows nm).
Proof.
  intros rows p. unfold src_nplate_get_plate_sample_id, plate_sample, plate_unique_sample_ids, plate_unique_samples, plate_samples, zlen.
  rewrite vselect_plate_vec.
  destruct (sort_uniq name_cmp (map r_sample (filter (in_plate p) rows))) as [|x [|y l]]; cbn [map length first_item res_bind];
    try reflexivity.
  destruct (Z.of_nat (S (S (length (map (sample_id_z rows) l)))) >? 1)%Z eqn:E; [reflexivity|]. lia.
Qed.

(* the integer ids are injective on the sample names of the screen *)
Lemma index_of_nth : forall x l, In x l -> nth_error l (index_of x l) = Some x.
Proof.
  intros x. induction l as [|y l IH]; intros H; [contradiction|]. cbn [index_of].
  destruct (name_eqb x y) eqn:E; [apply name_eqb_eq in E; now subst|].
  destruct H as [->|H]; [rewrite name_eqb_refl in E; discriminate|]. cbn [nth_error]. now apply IH.
Qed.
Lemma sample_id_z_inj : forall rows a b, In a (sample_names rows) -> In b (sample_names rows) ->
  sample_id_z rows a = sample_id_z rows b -> a = b.
Proof.
  intros rows a b Ha Hb E. unfold sample_id_z, sample_id in E. apply Nat2Z.inj in E.
  pose proof (index_of_nth a _ Ha) as H1. pose proof (index_of_nth b _ Hb) as H2. congruence.
Qed.
Lemma sample_id_z_eqb : forall rows a b, In a (sample_names rows) -> In b (sample_names rows) ->
  (sample_id_z rows a =? sample_id_z rows b)%Z = name_eqb a b.
Proof.
  intros rows a b Ha Hb. destruct (name_eqb a b) eqn:E.
  - apply name_eqb_eq in E. subst. apply Z.eqb_refl.
  - apply Z.eqb_neq. intros H. apply sample_id_z_inj in H; [|assumption|assumption]. subst. rewrite name_eqb_refl in E. discriminate.
Qed.

(* the model's name-keyed counts, as the dict of the source (keys = integer ids) *)
Definition enc_counts (rows : list row) (counts : list (name * nat)) : list (Z * Z) :=
  map (fun kc => (sample_id_z rows (fst kc), Z.of_nat (snd kc))) counts.

Lemma dict_incr_count_add : forall rows s counts, In s (sample_names rows) ->
  Forall (fun kc => In (fst kc) (sample_names rows)) counts ->
  dict_incr (enc_counts rows counts) (sample_id_z rows s) 1 = enc_counts rows (count_add s counts).
Proof.
  intros rows s counts Hs. induction counts as [|[k c] counts IH]; intros HF; [reflexivity|].
  inversion HF as [|? ? Hk HF']; subst. cbn [fst] in Hk. cbn [enc_counts map dict_incr count_add fst snd].
  rewrite (sample_id_z_eqb rows k s Hk Hs). destruct (name_eqb k s); cbn [map fst snd].
  - f_equal. f_equal. lia.
  - f_equal. apply IH. exact HF'.
Qed.

Lemma count_add_keys : forall (P : name -> Prop) s counts, P s ->
  Forall (fun kc => P (fst kc)) counts -> Forall (fun kc : name * nat => P (fst kc)) (count_add s counts).
Proof.
  intros P s counts Hs. induction counts as [|[k c] counts IH]; intros HF; cbn [count_add].
  - constructor; [exact Hs|constructor].
  - inversion HF; subst. destruct (name_eqb k s); constructor; auto.
Qed.

Lemma counts_fold : forall rows sps acc, Forall (fun s => In s (sample_names rows)) sps ->
  Forall (fun kc => In (fst kc) (sample_names rows)) acc ->
  fold_left (fun d s => dict_incr d (sample_id_z rows s) 1) sps (enc_counts rows acc)
  = enc_counts rows (fold_left (fun a s => count_add s a) sps acc)
  /\ Forall (fun kc => In (fst kc) (sample_names rows)) (fold_left (fun a s => count_add s a) sps acc).
Proof.
  intros rows sps. induction sps as [|s sps IH]; intros acc HS HA; cbn [fold_left]; [auto|].
  inversion HS; subst. rewrite dict_incr_count_add by assumption. apply IH; [assumption|].
  now apply (count_add_keys (fun k => In k (sample_names rows))).
Qed.

Lemma plate_sample_in_names : forall p rows s, plate_sample p rows = Ok s -> In s (sample_names rows).
Proof.
  intros p rows s H. apply plate_sample_ok in H.
  assert (In s (plate_samples p rows)) as Hin by (rewrite H; now left).
  apply In_plate_samples in Hin as (r & Hr & _ & Hs). apply In_sample_names. eauto.
Qed.

(* the counting loop, for an arbitrary body equal to the canonical one *)
Lemma np_count_loop (rows : screen_t) (f : list (Z * Z) -> bvec -> result (list (Z * Z))) :
  (forall d v, f d v = dor id <- src_nplate_get_plate_sample_id rows v; Ok (dict_incr d id 1)) ->
  forall plates d,
    res_fold f (map (fun p => plate_vec p rows) plates) d
    = dor sps <- res_map_all (fun p => plate_sample p rows) plates;
      Ok (fold_left (fun d s => dict_incr d (sample_id_z rows s) 1) sps d).
Proof.
  intros Hf. induction plates as [|p plates IH]; intros d; cbn [map res_fold res_map_all res_bind fold_left]; [reflexivity|].
  rewrite Hf, src_nplate_get_plate_sample_id_is_model.
  destruct (plate_sample p rows) as [s|t]; cbn [res_bind]; [|reflexivity].
  rewrite IH. destruct (res_map_all (fun p0 => plate_sample p0 rows) plates) as [sps|t]; reflexivity.
Qed.

(* the drop loop over the dict's items, for an arbitrary body equal to the canonical one *)
Lemma np_drop_loop (m : Z) (rows : screen_t) (f : screen_t -> Z * Z -> result screen_t) :
  (forall scr id c, f scr (id, c) =
     dor s' <- (if (c <? m)%Z then
                  dor nm <- list_get (sample_names rows) id;
                  Ok (to_screen (subset_of scr (sample_name_ne scr nm)))
                else Ok scr);
     Ok s') ->
  forall counts scr, Forall (fun kc => In (fst kc) (sample_names rows)) counts ->
    res_fold f (enc_counts rows counts) scr
    = Ok (filter (fun r => negb (name_mem (r_sample r) (map fst (filter (fun kc => (Z.of_nat (snd kc) <? m)%Z) counts)))) scr).
Proof.
  intros Hf. induction counts as [|[k c] counts IH]; intros scr HF; cbn [enc_counts map res_fold filter fst snd].
  - f_equal. symmetry. rewrite (filter_ext _ (fun _ => true)) by reflexivity. apply filter_true.
  - inversion HF as [|? ? Hk HF']; subst. cbn [fst] in Hk. rewrite Hf.
    destruct (Z.of_nat c <? m)%Z eqn:E; cbn [res_bind map fst].
    + unfold sample_id_z, sample_id, list_get.
      destruct (Z.of_nat (index_of k (sample_names rows)) <? 0)%Z eqn:E0; [lia|]. rewrite E0, Nat2Z.id, (index_of_nth k _ Hk).
      cbn [res_bind]. fold (enc_counts rows counts). rewrite (IH _ HF'). f_equal.
      unfold to_screen, subset_of, sample_name_ne. rewrite <- filter_vselect, filter_filter'.
      apply filter_ext. intros r. cbn [name_mem existsb]. now rewrite negb_orb.
    + fold (enc_counts rows counts). apply (IH _ HF').
Qed.

Theorem src_nplate_is_model : forall m rows, src_nplate_smooth_plates m rows = nplate true m rows.
Proof.
  intros m rows. unfold src_nplate_smooth_plates, nplate, plate_counts, plates_of, dict_items.
  rewrite (np_count_loop rows) by (intros; reflexivity).
  destruct (res_map_all (fun p => plate_sample p rows) (plate_names_of rows)) as [sps|t] eqn:E; cbn [res_bind]; [|reflexivity].
  assert (Forall (fun s => In s (sample_names rows)) sps) as HS.
  { apply res_map_all_Forall2 in E. induction E as [|p s ps ss Hp _ IH]; constructor; [|exact IH].
    eapply plate_sample_in_names; eassumption. }
  destruct (counts_fold rows sps [] HS (Forall_nil _)) as [Hc HK]. change (enc_counts rows []) with (@nil (Z * Z)) in Hc. rewrite Hc.
  rewrite (np_drop_loop m rows) by (first [intros; reflexivity | exact HK]). reflexivity.
Qed.

(* ---------- BatchieEnsemblePlateSmoother._smooth_plates ---------- *)
Lemma wrap_ext : forall (f g : inner) rows ds,
  (forall d, f (unobserved rows) d = g (unobserved rows) d) -> wrap f rows ds = wrap g rows ds.
Proof. intros f g rows ds H. unfold wrap. now rewrite H. Qed.

Lemma unobserved_length : forall rows, length (unobserved rows) <= length rows.
Proof. intros. unfold unobserved. apply filter_len_le. Qed.

Theorem src_ensemble_is_model : forall ms n m rows ds fuel, length rows < fuel ->
  src_ensemble_smooth_plates ms n m rows ds fuel = ensemble true ms n m rows ds.
Proof.
  intros ms n m rows ds fuel Hfuel. unfold src_ensemble_smooth_plates, ensemble.
  rewrite src_smooth_plates_is_wrap.
  rewrite (wrap_ext _ (merge_min ms)) by (intro d; apply src_merge_min_is_model; pose proof (unobserved_length rows); lia).
  destruct (wrap (merge_min ms) rows ds) as [[s1 d1]|t]; cbn [res_bind]; [|reflexivity].
  rewrite src_smooth_plates_is_wrap.
  rewrite (wrap_ext _ (pure_sm (merge_tb n))) by (intro d; unfold pure_sm; now rewrite src_merge_tb_is_model).
  destruct (wrap (pure_sm (merge_tb n)) s1 d1) as [[s2 d2]|t]; cbn [res_bind]; [|reflexivity].
  rewrite src_smooth_plates_is_wrap.
  rewrite (wrap_ext _ optimal_smooth) by (intro d; apply src_optimal_size_is_model).
  destruct (wrap optimal_smooth s2 d2) as [[s3 d3]|t]; cbn [res_bind]; [|reflexivity].
  rewrite src_smooth_plates_is_wrap.
  rewrite (wrap_ext _ (pure_sm (nplate true m))) by (intro d; unfold pure_sm; now rewrite src_nplate_is_model).
  destruct (wrap (pure_sm (nplate true m)) s3 d3) as [[s4 d4]|t]; reflexivity.
Qed.

(* ---------- PlatePermutationPlateGenerator._generate_plates ---------- *)
Lemma construct_unmasked : forall l, (forall r, In r l -> r_mask r = false) -> construct l = Ok l.
Proof.
  intros l H. unfold construct. rewrite plate_uniform_of_agree; [reflexivity|].
  intros r1 r2 H1 H2 _. now rewrite (H r1 H1), (H r2 H2).
Qed.

Lemma map_const_true {A} : forall l : list A, map (fun _ => true) l = repeat true (length l).
Proof. induction l as [|a l IH]; [reflexivity|]. cbn [map length repeat]. now rewrite IH. Qed.
Lemma filter_negb_none {A} (f : A -> bool) : forall l, existsb negb (map f l) = false -> filter (fun x => negb (f x)) l = [].
Proof.
  induction l as [|a l IH]; intros H; [reflexivity|]. cbn [map existsb] in H. apply orb_false_iff in H as [H1 H2].
  cbn [filter]. rewrite H1. now apply IH.
Qed.

(* what both branches go on with: the rows to permute and (None when there are none) the rows left alone *)
Lemma plate_perm_tail : forall (tp np : list row) ds,
  (dor (names, d) <- permutation_names (map r_plate tp) ds;
   dor permuted <- screen_renamed tp names;
   if is_some (if Retro.is_nil np then None else Some np) then
     dor u <- unwrap (if Retro.is_nil np then None else Some np);
     dor c <- combine_screens permuted u; Ok (c, d)
   else Ok (permuted, d))
  = dor x <- take_names ds;
    let '(names, ds') := x in
    if negb (length names =? length tp) then Err 91%Z
    else dor c <- construct (map (fun x => set_mask false (set_plate (fst x) (snd x))) (combine names tp) ++ np); Ok (c, ds').
Proof.
  intros tp np ds. unfold permutation_names. destruct (take_names ds) as [[names d]|t]; cbn [res_bind]; [|reflexivity].
  unfold screen_renamed. destruct (negb (length names =? length tp)); cbn [res_bind]; [reflexivity|].
  rewrite construct_unmasked by (intros r Hr; apply in_map_iff in Hr as (x & <- & _); reflexivity). cbn [res_bind].
  destruct np as [|r np]; cbn [Retro.is_nil is_some unwrap res_bind].
  - rewrite app_nil_r.
    rewrite construct_unmasked by (intros r Hr; apply in_map_iff in Hr as (x & <- & _); reflexivity). reflexivity.
  - unfold combine_screens. destruct (construct _); reflexivity.
Qed.

Theorem src_plate_permutation_is_model : forall force rows ds,
  src_plate_permutation_generate_plates force rows ds
  = plate_perm (match force with Some l => l | None => [] end) rows ds.
Proof.
  intros force rows ds. unfold src_plate_permutation_generate_plates, plate_perm.
  assert (forall keepf : row -> bool,
            (dor (tp, np) <- (if existsb negb (map keepf rows)
                              then Ok (to_screen (subset_of rows (map keepf rows)),
                                       Some (to_screen (subset_of rows (map negb (map keepf rows)))))
                              else Ok (to_screen (subset_of rows (map keepf rows)), None));
             dor (names, d) <- permutation_names (map r_plate tp) ds;
             dor permuted <- screen_renamed tp names;
             if is_some np then dor u <- unwrap np; dor c <- combine_screens permuted u; Ok (c, d) else Ok (permuted, d))
            = dor x <- take_names ds;
              let '(names, ds') := x in
              if negb (length names =? length (filter keepf rows)) then Err 91%Z
              else dor c <- construct (map (fun x => set_mask false (set_plate (fst x) (snd x))) (combine names (filter keepf rows))
                                       ++ filter (fun r => negb (keepf r)) rows); Ok (c, ds')) as Hcore.
  { intros keepf. unfold to_screen, subset_of. rewrite map_map, <- !filter_vselect.
    rewrite <- (plate_perm_tail (filter keepf rows) (filter (fun r => negb (keepf r)) rows) ds).
    destruct (existsb negb (map keepf rows)) eqn:E; cbn [res_bind].
    - destruct (filter (fun r => negb (keepf r)) rows) as [|r0 np] eqn:En; [|reflexivity].
      exfalso. apply existsb_exists in E as (b & Hb & Hn). apply in_map_iff in Hb as (r & <- & Hr).
      assert (In r (filter (fun r => negb (keepf r)) rows)) as Hin by (apply filter_In; split; assumption).
      rewrite En in Hin. contradiction.
    - rewrite (filter_negb_none keepf rows E). reflexivity. }
  destruct force as [[|x l]|].
  - rewrite <- (map_const_true rows). exact (Hcore (fun _ => true)).
  - exact (Hcore (fun r => negb (name_mem (r_plate r) (x :: l)))).
  - rewrite <- (map_const_true rows). exact (Hcore (fun _ => true)).
Qed.

(* ---------- SparseCoverPlateGenerator._generate_and_unmask_initial_plate ---------- *)
Lemma existsb_map {A B} (g : A -> B) (p : B -> bool) : forall l, existsb p (map g l) = existsb (fun x => p (g x)) l.
Proof. induction l as [|a l IH]; [reflexivity|]. cbn [map existsb]. now rewrite IH. Qed.
Lemma existsb_ext' {A} (p q : A -> bool) : (forall x, p x = q x) -> forall l, existsb p l = existsb q l.
Proof. intros H. induction l as [|a l IH]; [reflexivity|]. cbn [existsb]. now rewrite H, IH. Qed.
Lemma vand_map {A} (f g : A -> bool) : forall l, vand (map f l) (map g l) = map (fun x => f x && g x) l.
Proof. induction l as [|a l IH]; [reflexivity|]. cbn [map vand]. now rewrite IH. Qed.
Lemma vec_positions_map (F : row -> bool) : forall rows, vec_positions (map F rows) = idx_where F rows.
Proof.
  intros rows. unfold vec_positions, idx_where. generalize 0.
  induction rows as [|r rows IH]; intros k; [reflexivity|]. cbn [map enum_from filter fst snd].
  destruct (F r); cbn [map fst]; now rewrite IH.
Qed.
Lemma positions_of_map (F : row -> bool) : forall rows n, n = length rows ->
  positions_of n (map F rows) = Ok (idx_where F rows).
Proof. intros rows n ->. unfold positions_of. now rewrite map_length, Nat.eqb_refl, vec_positions_map. Qed.

(* the invariants of the two loops: the source's set of covered ids has the elements of the model's list, and the chosen
   row numbers are row numbers of the screen *)
Definition same_ids (a b : list tid) : Prop := forall t, tid_mem t a = tid_mem t b.
Definition in_range (rows : list row) (chosen : list nat) : Prop := Forall (fun i => i < length rows) chosen.

Lemma tid_mem_app : forall t a b, tid_mem t (a ++ b) = tid_mem t a || tid_mem t b.
Proof. intros. unfold tid_mem. apply existsb_app. Qed.

Lemma rows_at_ok : forall ctrl rows idx, in_range rows idx ->
  rows_at (treatment_ids ctrl rows) idx
  = Ok (map (fun i => match nth_error rows i with Some r => row_tids ctrl r | None => [] end) idx).
Proof.
  intros ctrl rows idx H. unfold rows_at, treatment_ids. induction H as [|i idx Hi _ IH]; [reflexivity|].
  cbn [res_map_all map]. rewrite nth_error_map. destruct (nth_error rows i) as [r|] eqn:E.
  - cbn [option_map res_bind]. now rewrite IH.
  - apply nth_error_None in E. lia.
Qed.

Lemma covered_step : forall ctrl rows chosen covered i, same_ids covered (tids_at ctrl rows chosen) ->
  same_ids (covered ++ tids_at ctrl rows (chosen ++ [i])) (tids_at ctrl rows (chosen ++ [i])).
Proof.
  intros ctrl rows chosen covered i H t. rewrite tid_mem_app, H, tids_at_app, tid_mem_app.
  destruct (tid_mem t (tids_at ctrl rows chosen)), (tid_mem t (tids_at ctrl rows [i])); reflexivity.
Qed.

Lemma offered_in_range : forall (F : row -> bool) rows i, memb i (idx_where F rows) = true -> i < length rows.
Proof.
  intros F rows i H. apply memb_In, In_idx_where in H as (r & Hn & _). apply nth_error_Some. congruence.
Qed.

(* what one rng.choice(offered, size=1) followed by the two updates does, in both loops *)
Lemma choose_and_cover {B} : forall ctrl rows (F : row -> bool) chosen ds (k : nat -> list draw -> list (list tid) -> result B),
  in_range rows chosen ->
  (dor (ci, d) <- choose_one (idx_where F rows) ds;
   dor r <- rows_at (treatment_ids ctrl rows) (chosen ++ [ci]);
   k ci d r)
  = match ds with
    | DInts [i] :: ds1 =>
        if memb i (idx_where F rows)
        then k i ds1 (map (fun j => match nth_error rows j with Some r => row_tids ctrl r | None => [] end) (chosen ++ [i]))
        else Err 94%Z
    | DInts _ :: _ => Err 91%Z
    | _ => Err 90%Z
    end.
Proof.
  intros ctrl rows F chosen ds k HR. unfold choose_one.
  destruct ds as [|[[|i [|j l]]|nm] ds1]; cbn [res_bind]; try reflexivity.
  destruct (memb i (idx_where F rows)) eqn:E; cbn [res_bind]; [|reflexivity].
  rewrite rows_at_ok; [reflexivity|].
  apply Forall_app. split; [exact HR|]. constructor; [|constructor]. eapply offered_in_range; eassumption.
Qed.

(* the body of the per-sample loop *)
Definition sc_for_body (ctrl : name) (rows : screen_t) (st : bvec * list draw * list nat * list tid) (s : name)
  : result (bvec * list draw * list nat * list tid) :=
  let '(sv, ds, chosen, covered) := st in
  let sv1 := vand (map (in_sample s) rows) (any_rows (not2 (isin2 (treatment_ids ctrl rows) covered))) in
  dor (si, d1, ci1, ch1, cov1, sv2) <-
    (if (Z.of_nat (vcount sv1) >? 0)%Z then
       dor r2 <- positions_of (length sv1) sv1;
       dor (ci, d) <- choose_one r2 ds;
       dor r3 <- rows_at (treatment_ids ctrl rows) (chosen ++ [ci]);
       Ok (r2, d, ci, chosen ++ [ci], covered ++ concat r3, sv1)
     else
       dor r4 <- positions_of (length (map (in_sample s) rows)) (map (in_sample s) rows);
       dor (ci, d) <- choose_one r4 ds;
       dor r5 <- rows_at (treatment_ids ctrl rows) (chosen ++ [ci]);
       Ok (r4, d, ci, chosen ++ [ci], covered ++ concat r5, map (in_sample s) rows));
  Ok (sv2, d1, ch1, cov1).

Lemma sc_for_body_step : forall ctrl rows sv ds chosen covered s,
  same_ids covered (tids_at ctrl rows chosen) -> in_range rows chosen ->
  exists sv', length sv' = length rows /\
    sc_for_body ctrl rows (sv, ds, chosen, covered) s
    = match ds with
      | DInts [i] :: ds1 =>
          if memb i (sc_offer_sample ctrl rows s chosen)
          then Ok (sv', ds1, chosen ++ [i], covered ++ tids_at ctrl rows (chosen ++ [i]))
          else Err 94%Z
      | DInts _ :: _ => Err 91%Z
      | _ => Err 90%Z
      end.
Proof.
  intros ctrl rows sv ds chosen covered s HC HR. unfold sc_for_body.
  set (F := fun r => in_sample s r && existsb (fun t => negb (tid_mem t (tids_at ctrl rows chosen))) (row_tids ctrl r)).
  assert (vand (map (in_sample s) rows) (any_rows (not2 (isin2 (treatment_ids ctrl rows) covered))) = map F rows) as ->.
  { unfold any_rows, not2, isin2, treatment_ids. rewrite !map_map, vand_map. apply map_ext. intros r. subst F. cbv beta. f_equal.
    rewrite !existsb_map. apply existsb_ext'. intros t. now rewrite HC. }
  rewrite vcount_map, <- idx_where_length.
  unfold sc_offer_sample. fold F.
  destruct (idx_where F rows) as [|j0 js] eqn:EF.
  - cbn [length Retro.is_nil]. destruct (Z.of_nat 0 >? 0)%Z eqn:E0; [lia|].
    exists (map (in_sample s) rows). split; [apply map_length|].
    rewrite positions_of_map by (now rewrite map_length). cbn [res_bind].
    rewrite (choose_and_cover ctrl rows (in_sample s) chosen ds) by exact HR.
    destruct ds as [|[[|i [|j l]]|nm] ds1]; try reflexivity.
    destruct (memb i (idx_where (in_sample s) rows)); reflexivity.
  - cbn [length Retro.is_nil]. destruct (Z.of_nat (S (length js)) >? 0)%Z eqn:E0; [|lia].
    exists (map F rows). split; [apply map_length|].
    rewrite positions_of_map by (now rewrite map_length). cbn [res_bind]. rewrite <- EF.
    rewrite (choose_and_cover ctrl rows F chosen ds) by exact HR.
    destruct ds as [|[[|i [|j l]]|nm] ds1]; try reflexivity.
    destruct (memb i (idx_where F rows)); reflexivity.
Qed.

Lemma in_range_snoc : forall ctrl rows s chosen i, in_range rows chosen ->
  memb i (sc_offer_sample ctrl rows s chosen) = true -> in_range rows (chosen ++ [i]).
Proof.
  intros ctrl rows s chosen i HR H. apply Forall_app. split; [exact HR|]. constructor; [|constructor].
  unfold sc_offer_sample in H. destruct (Retro.is_nil _); eapply offered_in_range; eassumption.
Qed.

Lemma sc_for (ctrl : name) (rows : screen_t)
      (f : bvec * list draw * list nat * list tid -> name -> result (bvec * list draw * list nat * list tid)) :
  (forall sv ds chosen covered s, f (sv, ds, chosen, covered) s = sc_for_body ctrl rows (sv, ds, chosen, covered) s) ->
  forall samples sv ds chosen covered,
    same_ids covered (tids_at ctrl rows chosen) -> in_range rows chosen ->
    match sc_samples ctrl rows samples chosen ds with
    | Ok (chosen', ds') =>
        exists sv' covered', res_fold f samples (sv, ds, chosen, covered) = Ok (sv', ds', chosen', covered')
                             /\ same_ids covered' (tids_at ctrl rows chosen') /\ in_range rows chosen'
                             /\ (length sv' = length rows \/ (samples = [] /\ sv' = sv))
    | Err t => res_fold f samples (sv, ds, chosen, covered) = Err t
    end.
Proof.
  intros Hf. induction samples as [|s samples IH]; intros sv ds chosen covered HC HR; cbn [sc_samples res_fold].
  - exists sv, covered. repeat split; auto.
  - rewrite Hf. destruct (sc_for_body_step ctrl rows sv ds chosen covered s HC HR) as (sv1 & HL1 & ->).
    destruct ds as [|[[|i [|j l]]|nm] ds1]; try reflexivity.
    destruct (memb i (sc_offer_sample ctrl rows s chosen)) eqn:E; [|reflexivity]. cbn [res_bind].
    specialize (IH sv1 ds1 (chosen ++ [i]) (covered ++ tids_at ctrl rows (chosen ++ [i]))
                   (covered_step ctrl rows chosen covered i HC) (in_range_snoc ctrl rows s chosen i HR E)).
    destruct (sc_samples ctrl rows samples (chosen ++ [i]) ds1) as [[chosen' ds']|t]; [|exact IH].
    destruct IH as (sv' & covered' & H1 & H2 & H3 & H4). exists sv', covered'. repeat split; try assumption.
    left. destruct H4 as [H4|[_ ->]]; assumption.
Qed.

(* the body of the while loop; n = selection_vector.size *)
Definition sc_while_body (ctrl : name) (rows : screen_t) (n : nat) (st : list draw * list nat * list tid * list tid)
  : result (bool * (list draw * list nat * list tid * list tid)) :=
  let '(ds, chosen, covered, rem) := st in
  if negb (zlen rem >? 0)%Z then Ok (false, (ds, chosen, covered, rem))
  else
    dor r6 <- positions_of n (any_rows (isin2 (treatment_ids ctrl rows) rem));
    dor (ci, d) <- choose_one r6 ds;
    dor r7 <- rows_at (treatment_ids ctrl rows) (chosen ++ [ci]);
    Ok (true, (d, chosen ++ [ci], covered ++ concat r7,
               setdiff_ids (treatment_ids ctrl rows) (covered ++ concat r7))).

Lemma remaining_eq : forall ctrl rows chosen covered, same_ids covered (tids_at ctrl rows chosen) ->
  setdiff_ids (treatment_ids ctrl rows) covered = sc_remaining ctrl rows chosen.
Proof.
  intros ctrl rows chosen covered H. unfold setdiff_ids, sc_remaining, treatment_ids, all_tids.
  apply filter_ext. intros t. now rewrite H.
Qed.

(* one evaluation of the while body *)
Lemma sc_while_step : forall ctrl rows n ds chosen covered, n = length rows ->
  same_ids covered (tids_at ctrl rows chosen) -> in_range rows chosen ->
  sc_while_body ctrl rows n (ds, chosen, covered, setdiff_ids (treatment_ids ctrl rows) covered)
  = if Retro.is_nil (sc_remaining ctrl rows chosen)
    then Ok (false, (ds, chosen, covered, setdiff_ids (treatment_ids ctrl rows) covered))
    else match ds with
         | DInts [i] :: ds1 =>
             if memb i (sc_offer_loop ctrl rows chosen)
             then Ok (true, (ds1, chosen ++ [i], covered ++ tids_at ctrl rows (chosen ++ [i]),
                             setdiff_ids (treatment_ids ctrl rows) (covered ++ tids_at ctrl rows (chosen ++ [i]))))
             else Err 94%Z
         | DInts _ :: _ => Err 91%Z
         | _ => Err 90%Z
         end.
Proof.
  intros ctrl rows n ds chosen covered Hn HC HR. unfold sc_while_body.
  rewrite (remaining_eq ctrl rows chosen covered HC). unfold zlen, sc_offer_loop.
  destruct (sc_remaining ctrl rows chosen) as [|t0 ts] eqn:ER; cbn [Retro.is_nil length]; [reflexivity|].
  destruct (negb (Z.of_nat (S (length ts)) >? 0)%Z) eqn:E0; [lia|].
  set (F := fun r => existsb (fun t => tid_mem t (t0 :: ts)) (row_tids ctrl r)).
  assert (any_rows (isin2 (treatment_ids ctrl rows) (t0 :: ts)) = map F rows) as ->.
  { unfold any_rows, isin2, treatment_ids. rewrite !map_map. apply map_ext. intros r. subst F. cbv beta. apply existsb_map. }
  rewrite positions_of_map by exact Hn. cbn [res_bind].
  rewrite (choose_and_cover ctrl rows F chosen ds) by exact HR.
  destruct ds as [|[[|i [|j l]]|nm] ds1]; reflexivity.
Qed.

Lemma in_range_snoc_loop : forall ctrl rows chosen i, in_range rows chosen ->
  memb i (sc_offer_loop ctrl rows chosen) = true -> in_range rows (chosen ++ [i]).
Proof.
  intros ctrl rows chosen i HR H. apply Forall_app. split; [exact HR|]. constructor; [|constructor].
  eapply offered_in_range; eassumption.
Qed.

(* the while loop against the model's recursion on the recorded answers.  Sufficient fuel, either way: more than the number
   of recorded answers (every iteration reads one), or more than the number of distinct treatment ids still to cover
   (every iteration covers at least one more: C13_sparse_cover_loop_progress) *)
Lemma sc_while (ctrl : name) (rows : screen_t) (n : nat)
      (bd : list draw * list nat * list tid * list tid -> result (bool * (list draw * list nat * list tid * list tid))) :
  n = length rows ->
  (forall ds chosen covered rem, bd (ds, chosen, covered, rem) = sc_while_body ctrl rows n (ds, chosen, covered, rem)) ->
  forall fuel ds chosen covered,
    length ds < fuel \/ ndistinct (sc_remaining ctrl rows chosen) < fuel ->
    same_ids covered (tids_at ctrl rows chosen) -> in_range rows chosen ->
    match sc_loop ctrl rows chosen ds with
    | Ok (chosen', ds') =>
        exists covered' rem', res_while fuel bd (ds, chosen, covered, setdiff_ids (treatment_ids ctrl rows) covered)
                              = Ok (ds', chosen', covered', rem')
    | Err t => res_while fuel bd (ds, chosen, covered, setdiff_ids (treatment_ids ctrl rows) covered) = Err t
    end.
Proof.
  intros Hn Hbd. induction fuel as [|fuel IH]; intros ds chosen covered Hfuel HC HR; [lia|].
  cbn [res_while]. rewrite Hbd, (sc_while_step ctrl rows n ds chosen covered Hn HC HR).
  assert (sc_loop ctrl rows chosen ds =
          if Retro.is_nil (sc_remaining ctrl rows chosen) then Ok (chosen, ds)
          else match ds with
               | DInts [i] :: ds1 => if memb i (sc_offer_loop ctrl rows chosen) then sc_loop ctrl rows (chosen ++ [i]) ds1 else Err 94%Z
               | DInts _ :: _ => Err 91%Z
               | _ => Err 90%Z
               end) as -> by (destruct ds; reflexivity).
  destruct (Retro.is_nil (sc_remaining ctrl rows chosen)); [cbn; eauto|].
  destruct ds as [|[[|i [|j l]]|nm] ds1]; try reflexivity.
  destruct (memb i (sc_offer_loop ctrl rows chosen)) eqn:E; [|reflexivity]. cbn [res_bind fst snd].
  apply IH; [| now apply covered_step | eapply in_range_snoc_loop; eassumption].
  destruct Hfuel as [Hfuel|Hfuel]; [left; cbn [length] in Hfuel; lia|right].
  pose proof (loop_step_decreases ctrl rows chosen i (proj1 (memb_In _ _) E)). lia.
Qed.

(* the final Screen(...) *)
Lemma final_rows : forall rows (final : bvec), length final = length rows ->
  map (fun x : row * Z * name * bool =>
         {| r_sample := r_sample (fst (fst (fst x))); r_plate := snd (fst x); r_treats := r_treats (fst (fst (fst x)));
            r_obs := snd (fst (fst x)); r_mask := snd x |})
      (combine (combine (combine rows (map r_obs rows))
                        (map (fun nb : name * bool => if snd nb then fst nb else unobserved_plate)
                             (combine (repeat initial_plate (length rows)) final))) final)
  = map (fun br => set_mask (fst br) (set_plate (if fst br then initial_plate else unobserved_plate) (snd br))) (combine final rows).
Proof.
  induction rows as [|r rows IH]; intros [|b final] H; cbn [length] in H; try lia; [reflexivity|].
  cbn [length repeat map combine fst snd]. rewrite IH by lia. destruct b; reflexivity.
Qed.

Lemma tid_eqb_sym : forall a b, tid_eqb a b = tid_eqb b a.
Proof.
  intros a b. destruct (tid_eqb a b) eqn:E1, (tid_eqb b a) eqn:E2; try reflexivity.
  - apply tid_eqb_eq in E1. subst. rewrite (proj2 (tid_eqb_eq b b) eq_refl) in E2. discriminate.
  - apply tid_eqb_eq in E2. subst. rewrite (proj2 (tid_eqb_eq a a) eq_refl) in E1. discriminate.
Qed.

(* equal to the model's inner part (everything after the fully-observed check of the public wrapper) whenever the explicit
   while-fuel exceeds the number of recorded answers: every iteration of the while loop reads one *)
Definition sparse_cover_inner (ctrl : name) (reveal : bool) (rows : list row) (ds : list draw) : result (list row * list draw) :=
  dor a <- sc_samples ctrl rows (sample_names rows) [] ds;
  let '(chosen1, ds1) := a in
  dor b <- sc_loop ctrl rows chosen1 ds1;
  let '(chosen, ds2) := b in
  let final0 := vof_idx (length rows) chosen in
  let final := if reveal then vor final0 (map (fun r => tid_mem None (row_tids ctrl r)) rows) else final0 in
  dor c <- construct (map (fun br => set_mask (fst br) (set_plate (if fst br then initial_plate else unobserved_plate) (snd br)))
                          (combine final rows));
  Ok (c, ds2).

Lemma sparse_cover_unfold : forall ctrl reveal rows ds,
  sparse_cover ctrl reveal rows ds = if negb (forallb r_mask rows) then Err 8%Z else sparse_cover_inner ctrl reveal rows ds.
Proof. reflexivity. Qed.

Lemma sc_samples_consumes : forall ctrl rows samples chosen ds chosen' ds',
  sc_samples ctrl rows samples chosen ds = Ok (chosen', ds') -> length ds' <= length ds.
Proof.
  intros ctrl rows samples. induction samples as [|s samples IH]; intros chosen ds chosen' ds' H; cbn [sc_samples] in H.
  - inversion H. lia.
  - destruct ds as [|[[|i [|j l]]|nm] ds1]; try discriminate.
    destruct (memb i (sc_offer_sample ctrl rows s chosen)); [|discriminate]. apply IH in H. cbn [length]. lia.
Qed.

Lemma sample_names_nil : forall rows, sample_names rows = [] -> rows = [].
Proof.
  intros [|r rows] H; [reflexivity|]. exfalso.
  assert (In (r_sample r) (sample_names (r :: rows))) as Hin by (apply In_sample_names; exists r; split; [now left|reflexivity]).
  rewrite H in Hin. contradiction.
Qed.

Lemma single_drug_vec : forall ctrl rows,
  any_rows (isin2 (treatment_ids ctrl rows) [None]) = map (fun r => tid_mem None (row_tids ctrl r)) rows.
Proof.
  intros ctrl rows. unfold any_rows, isin2, treatment_ids. rewrite !map_map. apply map_ext. intros r.
  rewrite existsb_map. unfold tid_mem. apply existsb_ext'. intros t. cbn [existsb]. rewrite orb_false_r. apply tid_eqb_sym.
Qed.

Theorem src_sparse_cover_is_inner : forall ctrl reveal rows ds fuel,
  length ds < fuel \/ ndistinct (all_tids ctrl rows) < fuel ->
  src_sparse_cover ctrl reveal rows ds fuel = sparse_cover_inner ctrl reveal rows ds.
Proof.
  intros ctrl reveal rows ds fuel Hfuel. unfold src_sparse_cover, sparse_cover_inner.
  match goal with |- context [res_fold ?f (sample_names rows) ?st] =>
    pose proof (sc_for ctrl rows f ltac:(intros; reflexivity) (sample_names rows) [] ds [] []
                       (fun t => eq_refl) (Forall_nil _)) as Hfor end.
  destruct (sc_samples ctrl rows (sample_names rows) [] ds) as [[chosen1 ds1]|t] eqn:E1; cbn [res_bind]; [|now rewrite Hfor].
  destruct Hfor as (sv' & covered' & -> & HC & HR & HL). cbn [res_bind].
  assert (length sv' = length rows) as HL'.
  { destruct HL as [HL|[Hs ->]]; [exact HL|]. apply sample_names_nil in Hs. now subst. }
  apply sc_samples_consumes in E1.
  assert (length ds1 < fuel \/ ndistinct (sc_remaining ctrl rows chosen1) < fuel) as Hfuel1.
  { destruct Hfuel as [Hfuel|Hfuel]; [left; lia|right].
    pose proof (ndistinct_incl _ _ (remaining_incl_all ctrl rows chosen1)). lia. }
  match goal with |- context [res_while fuel ?bd ?st] =>
    pose proof (sc_while ctrl rows (length sv') bd HL' ltac:(intros; reflexivity) fuel ds1 chosen1 covered'
                         Hfuel1 HC HR) as Hwh end.
  destruct (sc_loop ctrl rows chosen1 ds1) as [[chosen ds2]|t]; cbn [res_bind]; [|now rewrite Hwh].
  destruct Hwh as (covered'' & rem' & ->). cbn [res_bind].
  set (final := if reveal then vor (vof_idx (length rows) chosen) (map (fun r => tid_mem None (row_tids ctrl r)) rows)
                else vof_idx (length rows) chosen).
  assert ((if reveal then Ok (vor (vof_idx (length rows) chosen) (any_rows (isin2 (treatment_ids ctrl rows) [None])))
           else Ok (vof_idx (length rows) chosen)) = Ok final) as ->.
  { subst final. rewrite single_drug_vec. destruct reveal; reflexivity. }
  cbn [res_bind].
  assert (length final = length rows) as HLf.
  { subst final. destruct reveal; [rewrite vor_length, map_length|]; rewrite vof_idx_length; lia. }
  unfold label_unobserved. rewrite repeat_length, HLf, Nat.eqb_refl. cbn [res_bind].
  unfold screen_with. rewrite !map_length, combine_length, repeat_length, HLf, Nat.min_id, Nat.eqb_refl. cbn [andb].
  rewrite (final_rows rows final HLf).
  destruct (construct _); reflexivity.
Qed.

(* ---------- InitialRetrospectivePlateGenerator.generate_and_unmask_initial_plate (core.py) ---------- *)
Theorem src_initial_wrapper_is_check : forall (f : initial_inner) rows ds,
  src_generate_and_unmask_initial_plate f rows ds = if negb (forallb r_mask rows) then Err 8%Z else f rows ds.
Proof.
  intros f rows ds. unfold src_generate_and_unmask_initial_plate. destruct (negb (forallb r_mask rows)); [reflexivity|].
  destruct (f rows ds) as [[r d]|t]; reflexivity.
Qed.

(* the public method on a SparseCoverPlateGenerator = the translated wrapper around the translated inner method: the model *)
Theorem src_sparse_cover_is_model : forall ctrl reveal rows ds fuel,
  length ds < fuel \/ ndistinct (all_tids ctrl rows) < fuel ->
  src_generate_and_unmask_initial_plate (fun s d => src_sparse_cover ctrl reveal s d fuel) rows ds
  = sparse_cover ctrl reveal rows ds.
Proof.
  intros ctrl reveal rows ds fuel Hfuel. rewrite src_initial_wrapper_is_check, sparse_cover_unfold.
  destruct (negb (forallb r_mask rows)); [reflexivity|]. now apply src_sparse_cover_is_inner.
Qed.

(* with C13_sparse_cover_terminates: on a fully observed screen, with #distinct-treatment-ids + 1 units of fuel, the
   translated source returns for every answer stream that obeys numpy's choice contract and is long enough - the fuel
   hypothesis of the link is discharged by the termination argument (every iteration covers a new treatment id) *)
Theorem src_sparse_cover_terminates : forall ctrl reveal rows ds,
  forallb r_mask rows = true ->
  sc_contract ctrl rows (sample_names rows) [] ds ->
  length (sample_names rows) + ndistinct (all_tids ctrl rows) <= length ds ->
  exists out ds',
    src_generate_and_unmask_initial_plate
      (fun s d => src_sparse_cover ctrl reveal s d (S (ndistinct (all_tids ctrl rows)))) rows ds = Ok (out, ds').
Proof.
  intros ctrl reveal rows ds Hobs HC Hlen. rewrite src_sparse_cover_is_model by (right; lia).
  now apply sparse_cover_terminates.
Qed.

(* ---------- filter_dataset_to_treatments_that_appear_in_at_least_one_combo (data.py) ---------- *)
Lemma forallb_map {A B} (g : A -> B) (p : B -> bool) : forall l, forallb p (map g l) = forallb (fun x => p (g x)) l.
Proof. induction l as [|a l IH]; [reflexivity|]. cbn [map forallb]. now rewrite IH. Qed.
Lemma forallb_ext' {A} (p q : A -> bool) : (forall x, p x = q x) -> forall l, forallb p l = forallb q l.
Proof. intros H. induction l as [|a l IH]; [reflexivity|]. cbn [forallb]. now rewrite H, IH. Qed.
Lemma vselect_map_map {A B} (f : A -> bool) (g : A -> B) : forall l, vselect (map f l) (map g l) = map g (filter f l).
Proof. induction l as [|a l IH]; [reflexivity|]. cbn [map vselect filter]. destruct (f a); cbn [map]; now rewrite IH. Qed.

Theorem src_combo_filter_is_model : forall ctrl arity rows,
  src_combo_filter ctrl arity rows = combo_filter ctrl arity rows.
Proof.
  intros ctrl arity rows. unfold src_combo_filter, combo_filter, screen_arity.
  destruct (arity <? 2) eqn:E; [apply Nat.ltb_lt in E|apply Nat.ltb_ge in E].
  - destruct (Z.of_nat arity <? 2)%Z eqn:E2; [reflexivity|lia].
  - destruct (Z.of_nat arity <? 2)%Z eqn:E2; [lia|].
    assert (all_rows (not2 (is_sentinel2 (treatment_ids ctrl rows))) = map (full_combo ctrl) rows) as ->.
    { unfold all_rows, not2, is_sentinel2, treatment_ids, full_combo. rewrite !map_map. apply map_ext. intros r.
      now rewrite !forallb_map. }
    unfold rows_where, treatment_ids at 2. rewrite vselect_map_map. fold (all_tids ctrl (filter (full_combo ctrl) rows)).
    fold (combo_tids ctrl rows).
    assert (subset_of rows (all_rows (isin2 (treatment_ids ctrl rows) (combo_tids ctrl rows ++ [None])))
            = filter (fun r => forallb (fun t => tid_eqb t None || tid_mem t (combo_tids ctrl rows)) (row_tids ctrl r)) rows) as ->.
    { unfold subset_of, all_rows, isin2, treatment_ids. rewrite !map_map, <- filter_vselect. apply filter_ext. intros r.
      rewrite forallb_map. apply forallb_ext'. intros t. rewrite tid_mem_app. unfold tid_mem at 2. cbn [existsb].
      rewrite orb_false_r. apply orb_comm. }
    destruct (construct _); reflexivity.
Qed.

(* ---------- end to end: the translated wrappers of core.py around the translated inner methods ---------- *)
Lemma wrap_ext1 : forall (f g : inner) rows ds,
  f (unobserved rows) ds = g (unobserved rows) ds -> wrap f rows ds = wrap g rows ds.
Proof. intros f g rows ds H. unfold wrap. now rewrite H. Qed.

Theorem src_sample_seg_end_to_end : forall mx rows ds, (0 <= mx)%Z ->
  ss_contract mx (unobserved rows) (sample_names (unobserved rows)) ds ->
  src_generate_plates (src_sample_seg_generate_plates mx) rows ds = generate_plates (GSampleSeg true mx) rows ds.
Proof.
  intros mx rows ds Hmx HC. rewrite src_generate_plates_is_wrap. unfold generate_plates, generate_inner.
  apply wrap_ext1. now apply src_sample_seg_is_model.
Qed.

Theorem src_plate_permutation_end_to_end : forall force rows ds,
  src_generate_plates (src_plate_permutation_generate_plates force) rows ds
  = generate_plates (GPerm (match force with Some l => l | None => [] end)) rows ds.
Proof.
  intros force rows ds. rewrite src_generate_plates_is_wrap. unfold generate_plates, generate_inner.
  apply wrap_ext1. apply src_plate_permutation_is_model.
Qed.

Theorem src_fixed_size_end_to_end : forall t rows ds,
  src_smooth_plates (src_fixed_size_smooth_plates t) rows ds = smooth_plates (SFixed t) rows ds.
Proof.
  intros t rows ds. rewrite src_smooth_plates_is_wrap. unfold smooth_plates, smooth_inner.
  apply wrap_ext1. apply src_fixed_size_is_model.
Qed.

Theorem src_optimal_size_end_to_end : forall rows ds,
  src_smooth_plates src_optimal_size_smooth_plates rows ds = smooth_plates SOptimal rows ds.
Proof.
  intros rows ds. rewrite src_smooth_plates_is_wrap. unfold smooth_plates, smooth_inner.
  apply wrap_ext1. apply src_optimal_size_is_model.
Qed.

Theorem src_nplate_end_to_end : forall m rows ds,
  src_smooth_plates (fun s d => dor r <- src_nplate_smooth_plates m s; Ok (r, d)) rows ds
  = smooth_plates (SNPlate true m) rows ds.
Proof.
  intros m rows ds. rewrite src_smooth_plates_is_wrap. unfold smooth_plates, smooth_inner, pure_sm.
  apply wrap_ext1. now rewrite src_nplate_is_model.
Qed.

Theorem src_ensemble_end_to_end : forall ms n m rows ds fuel, length rows < fuel ->
  src_smooth_plates (fun s d => src_ensemble_smooth_plates ms n m s d fuel) rows ds
  = smooth_plates (SEnsemble true ms n m) rows ds.
Proof.
  intros ms n m rows ds fuel Hfuel. rewrite src_smooth_plates_is_wrap. unfold smooth_plates, smooth_inner.
  apply wrap_ext1. apply src_ensemble_is_model. pose proof (unobserved_length rows). lia.
Qed.

(* ---------- the statements of Props/C13.v ---------- *)
Theorem link_sample_segregating_generate_plates : forall mx rows ds, (0 <= mx)%Z ->
  src_sample_seg_generate_plates mx rows ds = sample_seg_checked mx rows ds /\
  (ss_contract mx rows (sample_names rows) ds -> src_sample_seg_generate_plates mx rows ds = sample_seg true mx rows ds) /\
  (ss_contract mx (unobserved rows) (sample_names (unobserved rows)) ds ->
   src_generate_plates (src_sample_seg_generate_plates mx) rows ds = generate_plates (GSampleSeg true mx) rows ds).
Proof.
  intros mx rows ds H. split; [exact (src_sample_seg_is_checked_model mx rows ds H)|]. split.
  - exact (src_sample_seg_is_model mx rows ds H).
  - exact (src_sample_seg_end_to_end mx rows ds H).
Qed.

Theorem link_plate_permutation_generate_plates : forall force rows ds,
  src_plate_permutation_generate_plates force rows ds = plate_perm (match force with Some l => l | None => [] end) rows ds /\
  src_generate_plates (src_plate_permutation_generate_plates force) rows ds
  = generate_plates (GPerm (match force with Some l => l | None => [] end)) rows ds.
Proof. intros. split; [apply src_plate_permutation_is_model | apply src_plate_permutation_end_to_end]. Qed.

Theorem link_fixed_size_smooth_plates : forall t rows ds,
  src_fixed_size_smooth_plates t rows ds = size_smooth t rows ds /\
  src_smooth_plates (src_fixed_size_smooth_plates t) rows ds = smooth_plates (SFixed t) rows ds.
Proof. intros. split; [apply src_fixed_size_is_model | apply src_fixed_size_end_to_end]. Qed.

Theorem link_optimal_size_smooth_plates : forall rows ds,
  src_optimal_size_smooth_plates rows ds = optimal_smooth rows ds /\
  src_smooth_plates src_optimal_size_smooth_plates rows ds = smooth_plates SOptimal rows ds.
Proof. intros. split; [apply src_optimal_size_is_model | apply src_optimal_size_end_to_end]. Qed.

Theorem link_nplate_smooth_plates : forall m rows ds,
  (forall p, src_nplate_get_plate_sample_id rows (plate_vec p rows) = dor nm <- plate_sample p rows; Ok (sample_id_z rows nm)) /\
  src_nplate_smooth_plates m rows = nplate true m rows /\
  src_smooth_plates (fun s d => dor r <- src_nplate_smooth_plates m s; Ok (r, d)) rows ds = smooth_plates (SNPlate true m) rows ds.
Proof.
  intros. split; [intro p; apply src_nplate_get_plate_sample_id_is_model|].
  split; [apply src_nplate_is_model | apply src_nplate_end_to_end].
Qed.

Theorem link_ensemble_smooth_plates : forall ms n m rows ds fuel, length rows < fuel ->
  src_ensemble_smooth_plates ms n m rows ds fuel = ensemble true ms n m rows ds /\
  src_smooth_plates (fun s d => src_ensemble_smooth_plates ms n m s d fuel) rows ds = smooth_plates (SEnsemble true ms n m) rows ds.
Proof. intros ms n m rows ds fuel H. split; [now apply src_ensemble_is_model | now apply src_ensemble_end_to_end]. Qed.

Theorem link_sparse_cover_generate_and_unmask_initial_plate : forall ctrl reveal rows ds fuel,
  length ds < fuel \/ ndistinct (all_tids ctrl rows) < fuel ->
  (forall f : initial_inner,
     src_generate_and_unmask_initial_plate f rows ds = if negb (forallb r_mask rows) then Err 8%Z else f rows ds) /\
  src_sparse_cover ctrl reveal rows ds fuel = sparse_cover_inner ctrl reveal rows ds /\
  src_generate_and_unmask_initial_plate (fun s d => src_sparse_cover ctrl reveal s d fuel) rows ds = sparse_cover ctrl reveal rows ds.
Proof.
  intros ctrl reveal rows ds fuel H. split; [intro f; apply src_initial_wrapper_is_check|].
  split; [now apply src_sparse_cover_is_inner | now apply src_sparse_cover_is_model].
Qed.
