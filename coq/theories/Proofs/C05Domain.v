(* C05 proofs, part 9: the DOMAIN on which the model's totalisations are never exercised (gap G5.6).
   Model/Dbal.v is total over Qc: 1 / 0 = 0, ln is an arbitrary oracle also on non-positive arguments, log(0) = -inf whatever
   distance_factor.  numpy disagrees there (inf / NaN).  On the property's quantifier - positive variances, non-negative
   matrices, distance_factor > 0 - none of these cases is reached: every alpha (padded cells included) is > 0 and every summed
   triple distance is >= 0, so `1.0 / alpha`, `/ np.square(alpha)` are divisions by positive numbers and np.log sees 0 (-inf, as
   modelled) or a positive number. *)
From Coq Require Import ZArith List QArith Qcanon Lia Lqa.
From Batchie Require Import Lib.Sexp Lib.Num Lib.NumP Model.Unrank Model.Dbal.
Import ListNotations.
Open Scope Qc_scope.

Lemma Qc_mul_pos (x y : Qc) : 0 < x -> 0 < y -> 0 < x * y.
Proof. unfold Qclt, Qcmult. cbn [this Q2Qc]. rewrite !Qred_correct. intros; nra. Qed.
Lemma Qc_add_pos (x y : Qc) : 0 < x -> 0 < y -> 0 < x + y.
Proof. unfold Qclt, Qcplus. cbn [this Q2Qc]. rewrite !Qred_correct. intros; lra. Qed.

(* every real (non-NaN) cell of the variance array is positive *)
Definition vars_pos (vars : arr3n) : Prop := forall p i e v, get3 None vars p i e = Some v -> 0 < v.
(* every entry of the matrix is non-negative *)
Definition matrix_nonneg (D : arr2) : Prop := forall i j, 0 <= get2 0 D i j.

Lemma k_pv_pos vars p i e : vars_pos vars -> 0 < k_pv vars p i e.
Proof.
  intros H. unfold k_pv. destruct (get3 None vars p i e) as [v|] eqn:E; [exact (H p i e v E)|].
  unfold Qclt. cbn. lra.
Qed.

(* alpha > 0 on EVERY cell the kernel computes with, NaN-padded cells (variance set to 1) included *)
Theorem k_alpha_pos vars p t e : vars_pos vars -> 0 < k_alpha vars p t e.
Proof.
  intros H. destruct t as [[i1 i2] i3]. unfold k_alpha.
  pose proof (k_pv_pos vars p i1 e H). pose proof (k_pv_pos vars p i2 e H). pose proof (k_pv_pos vars p i3 e H).
  repeat apply Qc_add_pos; now apply Qc_mul_pos.
Qed.

(* likewise in the direct estimator *)
Theorem triple_alpha_pos (v1 v2 v3 : Qc) : 0 < v1 -> 0 < v2 -> 0 < v3 -> 0 < v1 * v2 + v2 * v3 + v1 * v3.
Proof. intros. repeat apply Qc_add_pos; now apply Qc_mul_pos. Qed.

(* the summed distance of a triple is >= 0: np.log is applied to 0 (-> -inf, modelled) or to a positive number *)
Theorem k_dsum_nonneg D t : matrix_nonneg D -> 0 <= k_dsum D t.
Proof. intros H. destruct t as [[i1 i2] i3]. unfold k_dsum. repeat apply Qc_add_nonneg; apply H. Qed.

(* with distance_factor > 0 (the model's reading df * -inf = -inf is numpy's only then) the log-distance term is
   -inf exactly at summed distance 0 and df * ln(a positive number) otherwise *)
Theorem k_ltd_domain orc D df t : matrix_nonneg D ->
  (k_dsum D t = 0 /\ k_ltd orc D df t = None) \/ (0 < k_dsum D t /\ k_ltd orc D df t = Some (df * ln orc (k_dsum D t))).
Proof.
  intros H. pose proof (k_dsum_nonneg D t H) as Hn. unfold k_ltd.
  destruct (qeqb (k_dsum D t) 0) eqn:E.
  - left. split; [|reflexivity]. unfold qeqb in E. destruct (Qc_eq_dec (k_dsum D t) 0); [assumption|discriminate].
  - right. split; [|reflexivity]. unfold qeqb in E. destruct (Qc_eq_dec (k_dsum D t) 0) as [|Hne]; [discriminate|].
    apply Qcle_lt_or_eq in Hn. destruct Hn as [Hl|He]; [exact Hl|]. symmetry in He. contradiction.
Qed.
