(* C03: ids and mappings along a lifecycle.  Positive theorems for call sites that pass the mappings on. *)
From Coq Require Import ZArith List Bool Lia Arith.
From Batchie Require Import Lib.Sexp Generated.Consts Model.Encode Model.Screen Model.Reveal Model.Holdout
  Proofs.C03Base Proofs.C03Screen Proofs.C12Reveal.
Import ListNotations.
Open Scope Z_scope.

Definition dummy_row : row := {| r_sample := []; r_plate := []; r_treats := []; r_obs := 0; r_mask := false |}.

(* what row i of a screen is, and which ids the screen gives it *)
Definition sample_at (s : screen) (i : nat) : name := r_sample (nth i (s_rows s) dummy_row).
Definition treat_at (s : screen) (i c : nat) : tkey := nth c (r_treats (nth i (s_rows s) dummy_row)) ([], 0).
Definition sample_id_at (s : screen) (i : nat) : Z := nth i (s_sids s) 0.
Definition treat_id_at (s : screen) (i c : nat) : Z := nth c (nth i (s_tids s) []) 0.

(* every id of [s] is the entry of the mappings (tm, sm) for the row's name / (name, dose) *)
Definition ids_by (tm : tmapping) (sm : nmapping) (s : screen) : Prop :=
  (forall i, (i < length (s_rows s))%nat -> nlookup sm (sample_at s i) = Some (sample_id_at s i)) /\
  (forall i c, (i < length (s_rows s))%nat -> (c < s_arity s)%nat ->
               tlookup tm (treat_at s i c) = Some (treat_id_at s i c)).

(* [s] carries the parent's mappings and numbers its rows by them *)
Definition frozen_to (p s : screen) : Prop :=
  s_tmap s = s_tmap p /\ s_smap s = s_smap p /\ ids_by (s_tmap p) (s_smap p) s.

(* does the call site of this operation pass the mappings on? *)
Definition carries (v : variant) (o : op) : bool :=
  match o with
  | Reveal _ => carry_reveal v
  | Mask => carry_mask v
  | Unmask => carry_unmask v
  | SaveLoad => true
  end.

Lemma map_nth' {A B} (f : A -> B) l d d' i : f d = d' -> nth i (map f l) d' = f (nth i l d).
Proof. intros <-. apply map_nth. Qed.

Lemma constructed_ids s : constructed s -> ids_by (s_tmap s) (s_smap s) s.
Proof.
  intros (rows & a & c & tm & sm & og & mg & H). destruct (mk_screen_inv _ _ _ _ _ _ _ _ H) as [tflat B].
  pose proof (b_rows _ _ _ _ _ _ _ _ _ B) as Hr. pose proof (b_ar _ _ _ _ _ _ _ _ _ B) as Ha.
  pose proof (b_tids _ _ _ _ _ _ _ _ _ B) as Ht.
  destruct (encode_names_inv _ _ _ _ _ (b_samples _ _ _ _ _ _ _ _ _ B)) as [_ Hs].
  destruct (encode_treatments_inv _ _ _ _ _ (b_treats _ _ _ _ _ _ _ _ _ B)) as [_ Hk].
  set (rows' := norm_rows og mg rows) in *. split.
  - intros i Hi. unfold sample_at, sample_id_at. rewrite Hr in *.
    assert (Hi' : (i < length (map r_sample rows'))%nat) by (rewrite map_length; exact Hi).
    rewrite <- (opt_map_all_nth _ _ _ [] 0 i Hs Hi').
    f_equal. symmetry. apply map_nth'. reflexivity.
  - intros i c0 Hi Hc. unfold treat_at, treat_id_at. rewrite Hr, Ha in *. rewrite Ht.
    rewrite unflatten_cols_nth by assumption.
    assert (Hlen : length (map r_treats rows') = length rows') by apply map_length.
    rewrite <- (opt_map_all_nth _ _ _ ([], 0) 0 (c0 * length rows' + i) Hk).
    + f_equal. unfold the_tkeys. rewrite <- Hlen at 1. rewrite flatten_cols_nth; [|exact Hc|rewrite map_length; exact Hi].
      f_equal. symmetry. apply map_nth'. reflexivity.
    + unfold the_tkeys. rewrite flatten_cols_length, map_length. nia.
Qed.

Lemma supplied_maps rows a c tm bt sm bs og mg s :
  mk_screen rows a c (Some (tm, bt)) (Some (sm, bs)) og mg = Ok s -> s_tmap s = tm /\ s_smap s = sm.
Proof.
  intros H. destruct (mk_screen_inv _ _ _ _ _ _ _ _ H) as [tflat B].
  destruct (encode_names_inv _ _ _ _ _ (b_samples _ _ _ _ _ _ _ _ _ B)) as [Hs _].
  destruct (encode_treatments_inv _ _ _ _ _ (b_treats _ _ _ _ _ _ _ _ _ B)) as [Ht _].
  cbn [option_map fst] in Hs, Ht. auto.
Qed.

Lemma rebuild_carry_maps s rows s' : rebuild true s rows = Ok s' -> s_tmap s' = s_tmap s /\ s_smap s' = s_smap s.
Proof. unfold rebuild, tmap_arg, smap_arg. apply supplied_maps. Qed.

Lemma step_keeps_maps v s o s' :
  carries v o = true -> step v s o = Ok s' -> s_tmap s' = s_tmap s /\ s_smap s' = s_smap s.
Proof.
  destruct o as [ids| | |]; cbn [carries step]; intros Hc H.
  - apply reveal_plates_inv in H. destruct H as (_ & _ & H). rewrite Hc in H. now apply rebuild_carry_maps in H.
  - unfold mask_screen in H. rewrite Hc in H. now apply rebuild_carry_maps in H.
  - unfold unmask_screen in H. rewrite Hc in H. now apply rebuild_carry_maps in H.
  - apply save_load_inv in H. tauto.
Qed.

Lemma history_invariant_in (P : screen -> Prop) v ops :
  (forall s o s', In o ops -> P s -> step v s o = Ok s' -> P s') ->
  forall s0 s, P s0 -> history v ops s0 = Ok s -> P s.
Proof.
  induction ops as [|o ops IH]; intros Hstep s0 s H0 H.
  - rewrite history_nil in H. now inversion H; subst.
  - rewrite history_cons in H. destruct (step v s0 o) as [s1|t] eqn:E; cbn [res_bind] in H; [|discriminate].
    eapply IH; [| |exact H].
    + intros s2 o2 s3 Hin. apply Hstep. now right.
    + eapply Hstep; [now left|exact H0|exact E].
Qed.

Lemma split_keeps_mappings p sel pr t :
  holdout_split p sel = Ok pr ->
  s_tmap (half t pr) = s_tmap p /\ s_smap (half t pr) = s_smap p /\ constructed (half t pr).
Proof.
  intros H. pose proof (holdout_constructed p sel pr t H) as Hc.
  destruct pr as [tr te]. apply holdout_split_inv in H. destruct H as (_ & H1 & H2).
  apply supplied_maps in H1. apply supplied_maps in H2. destruct t; cbn [half fst snd] in *; tauto.
Qed.

Lemma frozen_intro p s : s_tmap s = s_tmap p -> s_smap s = s_smap p -> constructed s -> frozen_to p s.
Proof.
  intros Ht Hs Hc. unfold frozen_to. split; [exact Ht|]. split; [exact Hs|].
  rewrite <- Ht, <- Hs. now apply constructed_ids.
Qed.

Theorem split_frozen p sel pr t : holdout_split p sel = Ok pr -> frozen_to p (half t pr).
Proof.
  intros H. destruct (split_keeps_mappings p sel pr t H) as (Ht & Hs & Hc).
  now apply frozen_intro.
Qed.

Theorem ids_frozen_per_op v p sel pr t ops s :
  holdout_split p sel = Ok pr ->
  (forall o, In o ops -> carries v o = true) ->
  history v ops (half t pr) = Ok s -> frozen_to p s.
Proof.
  intros Hsplit Hcar H.
  assert (HP : s_tmap s = s_tmap p /\ s_smap s = s_smap p /\ constructed s).
  { revert H. apply (history_invariant_in (fun s => s_tmap s = s_tmap p /\ s_smap s = s_smap p /\ constructed s) v ops).
    - intros s1 o s2 Hin (Ht & Hs & _) Hstep.
      destruct (step_keeps_maps v s1 o s2 (Hcar o Hin) Hstep) as [Ht' Hs'].
      repeat split; [congruence|congruence|eapply step_constructed; eassumption].
    - now apply (split_keeps_mappings p sel pr t). }
  destruct HP as (Ht & Hs & Hc). now apply frozen_intro.
Qed.

Lemma carries_all o : carries (carry_mappings true) o = true.
Proof. now destruct o. Qed.

Theorem ids_frozen p sel test ops s :
  lifecycle (carry_mappings true) p sel test ops = Ok s -> frozen_to p s.
Proof.
  unfold lifecycle. destruct (holdout_split p sel) as [pr|] eqn:E; cbn [res_bind]; [|discriminate].
  intros H. eapply ids_frozen_per_op; [exact E| |exact H]. intros o _. apply carries_all.
Qed.

Theorem parent_frozen p : constructed p -> frozen_to p p.
Proof. intros H. now apply frozen_intro. Qed.

(* same name => same id, between any two screens frozen to the same parent *)
Theorem same_name_same_id p s1 s2 :
  frozen_to p s1 -> frozen_to p s2 ->
  (forall i j, (i < length (s_rows s1))%nat -> (j < length (s_rows s2))%nat ->
               sample_at s1 i = sample_at s2 j -> sample_id_at s1 i = sample_id_at s2 j) /\
  (forall i c j d, (i < length (s_rows s1))%nat -> (c < s_arity s1)%nat ->
                   (j < length (s_rows s2))%nat -> (d < s_arity s2)%nat ->
                   treat_at s1 i c = treat_at s2 j d -> treat_id_at s1 i c = treat_id_at s2 j d).
Proof.
  intros (_ & _ & S1 & T1) (_ & _ & S2 & T2). split.
  - intros i j Hi Hj He. pose proof (S1 i Hi) as A. pose proof (S2 j Hj) as B. rewrite He in A. congruence.
  - intros i c j d Hi Hc Hj Hd He. pose proof (T1 i c Hi Hc) as A. pose proof (T2 j d Hj Hd) as B. rewrite He in A. congruence.
Qed.

Theorem sizes_frozen p s :
  frozen_to p s -> space_n_samples s = space_n_samples p /\ space_n_treatments s = space_n_treatments p.
Proof. intros (Ht & Hs & _). unfold space_n_samples, space_n_treatments. now rewrite Ht, Hs. Qed.

Theorem sizes_never_shrink p sel test ops s :
  lifecycle (carry_mappings true) p sel test ops = Ok s ->
  space_n_samples s = space_n_samples p /\ space_n_treatments s = space_n_treatments p.
Proof. intros H. exact (sizes_frozen p s (ids_frozen p sel test ops s H)). Qed.
