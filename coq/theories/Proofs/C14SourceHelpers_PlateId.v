(* C14, one piece of Proofs/C14SourceHelpers.v (which see): Plate.plate_id *)
From Coq Require Import ZArith List Bool Arith Lia ZifyBool.
From Batchie Require Import Lib.Sexp Lib.PyRt Generated.Consts Model.Encode Model.Screen Model.Views
  Generated.SrcEncode Generated.SrcViews Generated.SrcPlates
  Proofs.PyRtLemmas Proofs.C01Sort Proofs.C14Defs Proofs.C14Lists Proofs.C14Unique
  Proofs.C14SourceHelpers_ViewUniquePlateIds.
Import ListNotations.
Open Scope Z_scope.

Theorem src_plate_id_is_model : forall v : view, src_plate_id v = view_plate_id v.
Proof.
  intros v. unfold src_plate_id, view_plate_id.
  rewrite src_view_unique_plate_ids_is_model. cbn [res_bind].
  destruct (view_unique_pids v) as [|x [|y r]]; cbn [length]; try reflexivity.
  replace (Z.of_nat (S (S (length r))) =? 1) with false by lia. reflexivity.
Qed.
