(* C13 / C11, one piece of Proofs/C13SourceHelpers.v (representation and side conditions: see there): is_observed on a Screen and on a Plate *)
From Coq Require Import ZArith List Bool Arith Lia ZifyBool.
From Batchie Require Import Lib.Sexp Lib.PyRt Generated.Consts Model.Encode Model.Screen Model.Views Model.Retro Model.RetroHoldout
  Generated.SrcEncode Generated.SrcViews Generated.SrcPlates
  Proofs.PyRtLemmas Proofs.C01Sort Proofs.C01Encode Proofs.C14Defs Proofs.C14Lists Proofs.C14Unique Proofs.C14Views
  Proofs.C14ToScreen
  Proofs.C14SourceHelpers_Base Proofs.C14SourceHelpers_ScreenObserved Proofs.C14SourceHelpers_ViewObserved Proofs.C13SourceHelpers_Base.
Import ListNotations.
Open Scope nat_scope.

(* ---------------- is_observed ---------------- *)
(* screen.is_observed (C13_INITIAL_WRAPPER: `forallb r_mask`) and plate.is_observed (C11_BALANCED_HOLDOUT: [vec_observed]) *)
Theorem src_is_observed_is_retro :
  (forall s : pyscreen, src_screen_is_observed s = Ok (forallb r_mask (s_rows (snd s)))) /\
  (forall v : view, src_view_is_observed v = Ok (vec_observed (v_sel v) (s_rows (v_parent v)))).
Proof.
  split; [intros s; exact (src_screen_is_observed_is_model s)|].
  intros v. rewrite src_view_is_observed_is_model. unfold view_is_observed, view_mask, vec_observed.
  now rewrite select_map, forallb_map.
Qed.
