(* C01, one piece of Proofs/C01Source.v (which see): ExperimentSpace.sample_id_from_sample_name / sample_name_from_sample_id,
   and what they answer on the space of a constructed screen (mutually inverse; the id lies below n_unique_samples) *)
From Coq Require Import ZArith List Bool Lia ZifyBool Arith Sorted.
From Batchie Require Import Lib.Sexp Lib.PyRt Generated.Consts Model.Encode Model.Screen Model.Persist Generated.SrcSpaceMethods
  Proofs.C01Sort Proofs.C01Encode Proofs.C01Screen Proofs.C01Props Proofs.C01Source_SpaceBase.
Import ListNotations.
Open Scope Z_scope.

(* ---------- the links ---------- *)
Theorem src_space_sample_id_is_model : forall (sp : space) (nm : name),
  src_space_sample_id_from_sample_name (pyspace_of sp) nm = space_sample_id sp nm.
Proof.
  intros sp nm. unfold src_space_sample_id_from_sample_name, space_sample_id, pyspace_of, pysp_smap, smap_cols, arr_eq_name.
  cbn [fst snd]. rewrite map_map, arr_mask_columns. cbn [res_bind].
  destruct (filter (fun e => name_eqb (fst e) nm) (sp_smap sp)) as [|e [|e' r]]; reflexivity.
Qed.

Theorem src_space_sample_name_is_model : forall (sp : space) (i : Z),
  src_space_sample_name_from_sample_id (pyspace_of sp) i = space_sample_name sp i.
Proof.
  intros sp i. unfold src_space_sample_name_from_sample_id, space_sample_name, pyspace_of, pysp_smap, smap_cols, arr_eq_id.
  cbn [fst snd]. rewrite map_map, arr_mask_columns. cbn [res_bind].
  destruct (filter (fun e => snd e =? i) (sp_smap sp)) as [|e [|e' r]]; reflexivity.
Qed.

(* ---------- the two lookups on a mapping without a repeated name / a repeated id ---------- *)
Lemma space_sample_id_In (sp : space) nm i : space_sample_id sp nm = Ok i -> In (nm, i) (sp_smap sp).
Proof.
  unfold space_sample_id. destruct (filter (fun e => name_eqb (fst e) nm) (sp_smap sp)) as [|e [|e' r]] eqn:F; try discriminate.
  intros H. inversion H; subst i. apply (filter_singleton_In fst name_eqb name_eqb_eq) in F as [Hin <-]. now destruct e.
Qed.

Lemma space_sample_name_In (sp : space) nm i : space_sample_name sp i = Ok nm -> In (nm, i) (sp_smap sp).
Proof.
  unfold space_sample_name. destruct (filter (fun e => snd e =? i) (sp_smap sp)) as [|e [|e' r]] eqn:F; try discriminate.
  intros H. inversion H; subst nm. apply (filter_singleton_In snd Z.eqb Zeqb_iff) in F as [Hin <-]. now destruct e.
Qed.

Lemma In_space_sample_id (sp : space) nm i : NoDup (map fst (sp_smap sp)) -> In (nm, i) (sp_smap sp) -> space_sample_id sp nm = Ok i.
Proof.
  intros Hnd Hin. unfold space_sample_id.
  pose proof (filter_unique_key fst name_eqb name_eqb_eq (sp_smap sp) (nm, i) Hnd Hin) as F. cbn [fst] in F. now rewrite F.
Qed.

Lemma In_space_sample_name (sp : space) nm i : NoDup (map snd (sp_smap sp)) -> In (nm, i) (sp_smap sp) -> space_sample_name sp i = Ok nm.
Proof.
  intros Hnd Hin. unfold space_sample_name.
  pose proof (filter_unique_key snd Z.eqb Zeqb_iff (sp_smap sp) (nm, i) Hnd Hin) as F. cbn [snd] in F. now rewrite F.
Qed.

(* mutually inverse *)
Theorem space_sample_lookups_inverse (sp : space) : NoDup (map fst (sp_smap sp)) -> NoDup (map snd (sp_smap sp)) ->
  forall nm i, space_sample_id sp nm = Ok i <-> space_sample_name sp i = Ok nm.
Proof.
  intros Hn Hi nm i. split; intros H.
  - now apply In_space_sample_name, space_sample_id_In.
  - now apply In_space_sample_id, space_sample_name_In.
Qed.

(* ---------- on the space of a constructed screen ---------- *)
Lemma built_nmapping_ids_NoDup names : NoDup (map snd (build_nmapping names)).
Proof.
  rewrite nbuilt_ids, <- zseq_0. apply (SSorted_NoDup _ Zcmp_spec), zseq_sorted.
Qed.

Section OnScreen.
Variables (rows : list row) (a : nat) (ctrl : name) (tm : option (tmapping * bool)) (sm : option (nmapping * bool))
          (og mg : bool) (s : screen).
Hypothesis H : mk_screen rows a ctrl tm sm og mg = Ok s.
(* a supplied sample mapping must not repeat a name or an id (the mappings batchie builds never do) *)
Hypothesis Hsm : match sm with Some (m, _) => NoDup (map fst m) /\ NoDup (map snd m) | None => True end.
Let S := mk_screen_inv _ _ _ _ _ _ _ _ H.

Lemma screen_smap_NoDup : NoDup (map fst (s_smap s)) /\ NoDup (map snd (s_smap s)).
Proof.
  rewrite (ms_smap _ _ _ _ _ _ _ _ S). destruct sm as [[m b]|]; [exact Hsm|].
  split; [apply nbuilt_keys_NoDup | apply built_nmapping_ids_NoDup].
Qed.

(* in terms of the TRANSLATED methods on the object from_screen builds: the id of a name is i exactly when the name of i is that name *)
Theorem src_sample_lookups_inverse : forall nm i,
  src_space_sample_id_from_sample_name (pyspace_of (space_of_screen s)) nm = Ok i
  <-> src_space_sample_name_from_sample_id (pyspace_of (space_of_screen s)) i = Ok nm.
Proof.
  intros nm i. rewrite src_space_sample_id_is_model, src_space_sample_name_is_model.
  apply space_sample_lookups_inverse; apply screen_smap_NoDup.
Qed.

(* every sample of the screen has an id: the one its experiments carry *)
Theorem src_sample_id_of_row : forall r, In r (s_rows s) ->
  src_space_sample_id_from_sample_name (pyspace_of (space_of_screen s)) (r_sample r) = Ok (nid_of (s_smap s) (r_sample r)).
Proof.
  intros r Hr. rewrite src_space_sample_id_is_model. apply In_space_sample_id; [apply screen_smap_NoDup|].
  exact (proj2 (decode_samples _ _ _ _ _ _ _ _ H) r Hr).
Qed.
End OnScreen.

(* an id the method returns lies below n_unique_samples (mapping built by the constructor) *)
Theorem src_sample_id_bounded : forall rows a ctrl tm og mg s nm i,
  mk_screen rows a ctrl tm None og mg = Ok s ->
  src_space_sample_id_from_sample_name (pyspace_of (space_of_screen s)) nm = Ok i -> 0 <= i < space_n_samples s.
Proof.
  intros rows a ctrl tm og mg s nm i H Hi. rewrite src_space_sample_id_is_model in Hi. apply space_sample_id_In in Hi.
  pose proof (mk_screen_inv _ _ _ _ _ _ _ _ H) as S. unfold space_of_screen in Hi. cbn [sp_smap] in Hi.
  rewrite (space_samples_built _ _ _ _ _ _ _ H). rewrite (ms_smap _ _ _ _ _ _ _ _ S) in Hi.
  apply (nbuilt_dense (map r_sample rows) i). now exists nm.
Qed.
