(* C14, one piece of Proofs/C14Source.v (conventions and objects: see there): the attribute getters of Screen
   (`return self._<attr>`, Generated/SrcScreenAttrs.v) *)
From Coq Require Import ZArith List Bool Arith Lia ZifyBool.
From Batchie Require Import Lib.Sexp Lib.PyRt Model.Encode Model.Screen Model.Views Generated.SrcViews Generated.SrcScreenAttrs
  Proofs.PyRtLemmas Proofs.C14Lists.
Import ListNotations.
Open Scope Z_scope.

(* each property of a Screen object returns the array / mapping the model screen holds in that place: exactly the value the
   C14 configurations' primitives give `s.<attr>` *)
Theorem src_screen_attrs_are_model : forall s : pyscreen,
  src_screen_plate_ids s = Ok (s_pids (snd s)) /\
  src_screen_sample_ids s = Ok (s_sids (snd s)) /\
  src_screen_treatment_ids s = Ok (s_tids (snd s)) /\
  src_screen_sample_names s = Ok (map r_sample (s_rows (snd s))) /\
  src_screen_treatment_names s = Ok (s_arity (snd s), map (fun r => map fst (r_treats r)) (s_rows (snd s))) /\
  src_screen_treatment_doses s = Ok (s_arity (snd s), map (fun r => map snd (r_treats r)) (s_rows (snd s))) /\
  src_screen_observations s = Ok (map r_obs (s_rows (snd s))) /\
  src_screen_observation_mask s = Ok (map r_mask (s_rows (snd s))) /\
  src_screen_treatment_mapping s = Ok (s_tmap (snd s)) /\
  src_screen_sample_mapping s = Ok (s_smap (snd s)) /\
  src_screen_plate_mapping s = Ok (s_pmap (snd s)).
Proof. intros s. repeat split; reflexivity. Qed.

(* consistency with the links of the ScreenSubset properties (Proofs/C14Source_Attrs.v), which read the parent's attribute as a
   PRIMITIVE: with the translated getter of the parent in its place, a view's property is the mask selection of the parent's *)
Theorem src_view_attrs_of_parent_getters : forall v : view,
  src_view_plate_ids v = (dor a <- src_screen_plate_ids (view_screen v); Ok (select (v_sel v) a)) /\
  src_view_sample_ids v = (dor a <- src_screen_sample_ids (view_screen v); Ok (select (v_sel v) a)) /\
  src_view_treatment_ids v = (dor a <- src_screen_treatment_ids (view_screen v); Ok (select (v_sel v) a)) /\
  src_view_sample_names v = (dor a <- src_screen_sample_names (view_screen v); Ok (select (v_sel v) a)) /\
  src_view_treatment_names v = (dor a <- src_screen_treatment_names (view_screen v); Ok (select2 (v_sel v) a)) /\
  src_view_treatment_doses v = (dor a <- src_screen_treatment_doses (view_screen v); Ok (select2 (v_sel v) a)) /\
  src_view_observations v = (dor a <- src_screen_observations (view_screen v); Ok (select (v_sel v) a)) /\
  src_view_observation_mask v = (dor a <- src_screen_observation_mask (view_screen v); Ok (select (v_sel v) a)) /\
  src_view_treatment_mapping v = src_screen_treatment_mapping (view_screen v) /\
  src_view_sample_mapping v = src_screen_sample_mapping (view_screen v) /\
  src_view_plate_mapping v = src_screen_plate_mapping (view_screen v).
Proof. intros v. repeat split; reflexivity. Qed.
