(* C13 / C11, one piece of Proofs/C13SourceHelpers.v (representation and side conditions: see there): Plate.merge = Retro.merge *)
From Coq Require Import ZArith List Bool Arith Lia ZifyBool.
From Batchie Require Import Lib.Sexp Lib.PyRt Generated.Consts Model.Encode Model.Screen Model.Views Model.Retro Model.RetroHoldout
  Generated.SrcEncode Generated.SrcViews Generated.SrcPlates
  Proofs.PyRtLemmas Proofs.C01Sort Proofs.C01Encode Proofs.C14Defs Proofs.C14Lists Proofs.C14Unique Proofs.C14Views
  Proofs.C14ToScreen
  Proofs.C14SourceHelpers_Base Proofs.C14SourceHelpers_PlateMerge Proofs.C13SourceHelpers_Base.
Import ListNotations.
Open Scope nat_scope.

(* ---------------- Plate.merge = Retro.merge ---------------- *)


(* self.merge(other) on two plates of one screen object, of the parent's length, whose union is not empty (true of any two
   plates Screen.plates returned): it succeeds; the merged plate's selection vector and the parent's rows afterwards are
   the two components of Retro.merge; the parent keeps its identity, everything but the rows and the plate ids is untouched;
   the plate ids are fresh again; the result is a view of the new parent of the right length *)
Theorem src_plate_merge_is_retro_merge : forall self other : view,
  v_tag other = v_tag self -> view_ok self -> length (v_sel other) = length (v_sel self) ->
  screen_wf (v_parent self) -> vselect (vor (v_sel self) (v_sel other)) (s_rows (v_parent self)) <> [] ->
  exists v', src_plate_merge self other = Ok v' /\
    v_sel v' = fst (merge (v_sel self) (v_sel other) (s_rows (v_parent self))) /\
    s_rows (v_parent v') = snd (merge (v_sel self) (v_sel other) (s_rows (v_parent self))) /\
    v_tag v' = v_tag self /\ plate_ids_fresh (v_parent v') /\ screen_wf (v_parent v') /\ view_ok v' /\
    s_sids (v_parent v') = s_sids (v_parent self) /\ s_tids (v_parent v') = s_tids (v_parent self) /\
    s_arity (v_parent v') = s_arity (v_parent self) /\ s_ctrl (v_parent v') = s_ctrl (v_parent self).
Proof.
  intros self other Ht Hok Hl Hwf Hne. rewrite src_plate_merge_is_model. unfold view_merge, merge.
  rewrite Ht, Z.eqb_refl. cbn [negb]. rewrite bor_vec_vor, select_vselect.
  set (sel := vor (v_sel self) (v_sel other)) in *. set (p := v_parent self) in *.
  destruct Hwf as (H1 & H2 & H3 & H4).
  assert (Hsel : length sel = length (s_rows p)).
  { unfold sel. rewrite vor_length by (symmetry; exact Hl). unfold view_ok in Hok. fold p in Hok. congruence. }
  destruct (vselect sel (s_rows p)) as [|r0 rest] eqn:E; [now elim Hne|].
  rewrite Hsel, Nat.eqb_refl. cbn [negb].
  destruct (encode_names_fresh_total (map r_plate (relabel sel (r_plate r0) (s_rows p)))) as (ids & m & Hm).
  rewrite Hm. cbn [res_bind fst]. eexists. split; [reflexivity|]. cbn [v_sel v_parent v_tag fst snd with_rows_pids s_rows s_sids s_tids s_arity s_ctrl].
  rewrite relabel_vrelabel by exact Hsel.
  split; [reflexivity|]. split; [reflexivity|]. split; [reflexivity|].
  split. { exists m. unfold with_rows_pids. cbn [s_rows s_pids]. rewrite <- relabel_vrelabel by exact Hsel. exact Hm. }
  split.
  { unfold screen_wf, screen_size, with_rows_pids. cbn [s_sids s_tids s_pids s_rows s_arity]. split; [exact H1|]. split.
    - rewrite (encode_names_length _ _ _ _ _ Hm), map_length, relabel_length by exact Hsel. exact H3.
    - split; [|exact H4]. rewrite <- relabel_vrelabel, relabel_length by exact Hsel. exact H3. }
  split. { unfold view_ok, screen_size, with_rows_pids. cbn [v_sel v_parent s_tids]. rewrite Hsel. exact H3. }
  repeat split.
Qed.
