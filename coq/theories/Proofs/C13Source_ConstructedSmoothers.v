(* C13: the smoother objects run with the parameters they were constructed with - the translated __init__ composed with the
   translated _smooth_plates (MergeMin, and the ensemble with its three parameters) *)
From Coq Require Import ZArith List Bool Arith Lia.
From Batchie Require Import Lib.Sexp Lib.PyRt Model.Encode Model.Screen Model.Retro Generated.SrcInits Generated.SrcRetro Generated.SrcRetroGen
  Proofs.C11Source Proofs.C13Source Proofs.C13Source_Init_MergeMin Proofs.C13Source_Init_Ensemble.
Import ListNotations.
Open Scope nat_scope.

Theorem constructed_merge_min_uses_its_min_size : forall min_size rows ds fuel, length rows < fuel ->
  (dor m <- src_merge_min_init min_size; src_merge_min_smooth_plates m rows ds fuel) = merge_min min_size rows ds.
Proof. intros. rewrite src_merge_min_init_stores. cbn [res_bind]. now apply src_merge_min_is_model. Qed.

Theorem constructed_ensemble_uses_its_parameters : forall ms n m rows ds fuel, length rows < fuel ->
  (dor p <- src_ensemble_init ms n m; src_ensemble_smooth_plates (fst (fst p)) (snd (fst p)) (snd p) rows ds fuel)
  = ensemble true ms n m rows ds.
Proof. intros. rewrite src_ensemble_init_stores. cbn [res_bind fst snd]. now apply link_ensemble_smooth_plates. Qed.
