(* C09 proofs, part 3: the statements of Props/C09.v, packaged. *)
From Coq Require Import ZArith List QArith Qcanon Lia Arith Bool.
From Batchie Require Import Lib.Sexp Lib.Num Model.Predict Proofs.C09Lists Proofs.C09Predict.
Import ListNotations.
Open Scope Qc_scope.

Lemma sparse_wfb_V1 D t : sparse_wfb D t = true -> rectb D (sV1 t) = true.
Proof. unfold sparse_wfb. rewrite !andb_true_iff. tauto. Qed.

Lemma rowwise_inter orc t rows :
  in_mean2 t rows = map (in_mean_row2 t) rows /\ in_viab2 orc t rows = map (in_viab_row2 orc t) rows.
Proof. split; [apply in_mean2_rowwise|apply in_viab2_rowwise]. Qed.

Lemma swap_row_both ts ti s a b :
  sp_mean_row2 ts (s, a, b) = sp_mean_row2 ts (s, b, a) /\
  in_mean_row2 ti (s, a, b) = in_mean_row2 ti (s, b, a) /\
  in_single ti (s, a, b) = in_single ti (s, b, a).
Proof. split; [apply sp_mean_row2_swap|split; [apply in_mean_row2_swap|apply in_single_swap]]. Qed.

Lemma control_neutral_sparse D t s a :
  sparse_wfb D t = true ->
  sp_mean_row2 t (s, a, CONTROL) = sp_mean_row1 t (s, a) /\
  sp_mean_row2 t (s, CONTROL, a) = sp_mean_row1 t (s, a).
Proof.
  intros H. apply sparse_wfb_V1 in H. split; [eapply sp_control_right|eapply sp_control_left]; eassumption.
Qed.

Lemma control_neutral_screen orc D viab t rows v :
  sparse_wfb D t = true ->
  sp_predict orc viab t (Scr2 (map pad_control rows)) = Ok v ->
  sp_predict orc viab t (Scr1 rows) = Ok v.
Proof. intros H. apply sparse_wfb_V1 in H. eapply sp_control_screen; eassumption. Qed.

Lemma control_only_sparse t s :
  sp_mean_row2 t (s, CONTROL, CONTROL) = salpha t + py_get 0 (sW0 t) s /\
  sp_mean_row1 t (s, CONTROL) = salpha t + py_get 0 (sW0 t) s.
Proof. split; [apply sp_control_both|apply sp_control_single]. Qed.

Lemma control_neutral_inter t s a :
  in_mean_row2 t (s, a, CONTROL) = 0 /\ in_mean_row2 t (s, CONTROL, a) = 0.
Proof. split; [apply in_control_right|apply in_control_left]. Qed.

Lemma control_viability_inter (orc : oracle) :
  (forall x, 0 < x -> orc ORC_EXP (orc ORC_LN x) = x) ->
  forall t s a,
    in_viab_row2 orc t (s, a, CONTROL) = clip_viab (lookup0 (ilookup t) s a * lookup0 (ilookup t) s CONTROL) /\
    in_viab_row2 orc t (s, CONTROL, a) = clip_viab (lookup0 (ilookup t) s CONTROL * lookup0 (ilookup t) s a).
Proof. intros H t s a. split; [now apply in_control_viab_right|now apply in_control_viab_left]. Qed.

Lemma inter_viability_not_logistic' (orc : oracle) :
  (forall x, 0 < x -> orc ORC_EXP (orc ORC_LN x) = x) ->
  orc ORC_EXPIT 0 = Q2Qc (1 # 2) ->
  exists t scr v m,
    theta_predict orc KViab (TI t) scr = Ok v /\ theta_predict orc KMean (TI t) scr = Ok m /\
    v <> map (viab_of_mean orc) m.
Proof. intros H1 H2. now apply inter_viability_not_logistic. Qed.

(* an oracle meeting the two hypotheses used above (besides the real functions) *)
Definition toy_orc : oracle := fun c x => if (c =? ORC_EXPIT)%Z then x + Q2Qc (1 # 2) else x.

Lemma toy_orc_ok : (forall x, 0 < x -> toy_orc ORC_EXP (toy_orc ORC_LN x) = x) /\ toy_orc ORC_EXPIT 0 = Q2Qc (1 # 2).
Proof. split; [intros x _; reflexivity|]. unfold toy_orc. cbn [Z.eqb ORC_EXPIT Pos.eqb]. ring. Qed.
