(* C01, one piece of Proofs/C01Source.v (which see): ExperimentSpace.__init__ *)
From Coq Require Import ZArith List Bool.
From Batchie Require Import Lib.Sexp Lib.PyRt Generated.Consts Model.Encode Model.Screen Model.Persist Generated.SrcSpaceMethods.
Import ListNotations.
Open Scope Z_scope.

(* the constructor stores its three arguments, whatever the instance held before: the object is exactly (the treatment-mapping
   tuple, the sample-mapping tuple, the control name) it was called with *)
Theorem src_space_init_stores : forall (o : pyspace) (tm : tmap_arrays) (sm : smap_arrays) (c : name),
  src_space_init o tm sm c = Ok (tm, sm, c).
Proof. intros [[t s] c0] tm sm c. reflexivity. Qed.

(* the columns of a row list zip back to the row list *)
Lemma zip_tmap_cols (m : tmapping) : zip_tmap (map (fun e => fst (fst e)) m) (map (fun e => snd (fst e)) m) (map snd m) = Some m.
Proof. induction m as [|[[n d] i] m IH]; [reflexivity|]. cbn [map zip_tmap fst snd]. now rewrite IH. Qed.
Lemma zip_nmap_cols (m : nmapping) : zip_nmap (map fst m) (map snd m) = Some m.
Proof. induction m as [|[n i] m IH]; [reflexivity|]. cbn [map zip_nmap fst snd]. now rewrite IH. Qed.
Lemma zip_tmap_Some a b c m : zip_tmap a b c = Some m -> tmap_cols m = (a, b, c).
Proof.
  revert b c m. induction a as [|x a IH]; intros [|y b] [|z c] m H; cbn [zip_tmap] in H; try discriminate.
  - now inversion H.
  - destruct (zip_tmap a b c) as [r|] eqn:E; cbn in H; [|discriminate]. inversion H; subst m.
    apply IH in E. unfold tmap_cols in *. cbn [map fst snd]. now inversion E.
Qed.
Lemma zip_nmap_Some a b m : zip_nmap a b = Some m -> smap_cols m = (a, b).
Proof.
  revert b m. induction a as [|x a IH]; intros [|y b] m H; cbn [zip_nmap] in H; try discriminate.
  - now inversion H.
  - destruct (zip_nmap a b) as [r|] eqn:E; cbn in H; [|discriminate]. inversion H; subst m.
    apply IH in E. unfold smap_cols in *. cbn [map fst snd]. now inversion E.
Qed.

(* the constructor-call primitive [arrays_space] that the links of from_screen / load_h5 use (C02) is this constructor: whenever it
   answers a model space, the translated __init__ on a fresh instance builds exactly that space's object *)
Theorem arrays_space_is_src_init : forall (tm : tmap_arrays) (sm : smap_arrays) (c : name) (sp : space),
  arrays_space tm sm c = Ok sp -> src_space_init blank_pyspace tm sm c = Ok (pyspace_of sp).
Proof.
  intros [[a b] d] [e f] c sp H. rewrite src_space_init_stores. unfold arrays_space in H. cbn [fst snd] in H.
  destruct (zip_tmap a b d) as [t|] eqn:Et; [|discriminate]. destruct (zip_nmap e f) as [s|] eqn:Es; [|discriminate].
  inversion H; subst sp. unfold pyspace_of. cbn [sp_tmap sp_smap sp_ctrl].
  now rewrite (zip_tmap_Some _ _ _ _ Et), (zip_nmap_Some _ _ _ Es).
Qed.

(* and on the object of a model space the primitive gives that space back *)
Theorem arrays_space_of_pyspace : forall sp : space,
  arrays_space (pysp_tmap (pyspace_of sp)) (pysp_smap (pyspace_of sp)) (pysp_ctrl (pyspace_of sp)) = Ok sp.
Proof.
  intros [t s c]. unfold arrays_space, pyspace_of, pysp_tmap, pysp_smap, pysp_ctrl, tmap_cols, smap_cols.
  cbn [fst snd sp_tmap sp_smap sp_ctrl]. now rewrite zip_tmap_cols, zip_nmap_cols.
Qed.
