(* C13: PairwisePlateGenerator.__init__ (Generated/SrcInits.v) stores its arguments: the attributes the translated methods of the class read
   (`self.<attr>` = the model parameter of their links) are the values the object was constructed with - (subset_size, anchor_size) *)
From Coq Require Import ZArith List Bool.
From Batchie Require Import Lib.Sexp Lib.PyRt Model.Encode Generated.SrcInits.
Import ListNotations.
Open Scope Z_scope.

Theorem src_pairwise_init_stores : forall subset_size anchor_size : Z, src_pairwise_init subset_size anchor_size = Ok (subset_size, anchor_size).
Proof. reflexivity. Qed.
