(* C07: an MSEDistance object constructed with `sigmoid` measures with that flag - the translated __init__ composed with the
   translated method *)
From Coq Require Import ZArith List Bool QArith Qcanon.
From Batchie Require Import Lib.Sexp Lib.PyRt Lib.Num Model.Encode Model.Mse Generated.SrcInits Generated.SrcMse
  Proofs.C07SourceMse Proofs.C07Source_Init_MSEDistance.
Import ListNotations.

Theorem constructed_mse_distance_uses_its_flag : forall (orc : oracle) (sigmoid : bool) (a b : list Qc), length a = length b ->
  (dor s <- src_mse_distance_init sigmoid; src_mse_distance orc s a b) = mse_distance orc sigmoid a b.
Proof. intros. rewrite src_mse_distance_init_stores. cbn [res_bind]. now apply src_mse_is_model. Qed.
