(* C13, MergeMin "stops EXACTLY when ...", the per-sample half: a sample whose unobserved plates already satisfy the stop
   rule is left untouched - same plates, same rows on each - however much merging the other samples need.
   (C13_mergemin_stop states this only when EVERY sample satisfies the rule.) *)
From Coq Require Import ZArith List Bool Arith Lia Permutation.
From Batchie Require Import Lib.Sexp Model.Encode Model.Screen Model.Retro
  Proofs.C11Lib Proofs.C11Gen Proofs.C11Smooth Proofs.C11Select Proofs.C11Holdout
  Proofs.C13Wrap Proofs.C13NPlate Proofs.C13MergeLib Proofs.C13MergeMin Proofs.C13MergeShapes.
Import ListNotations.
Open Scope nat_scope.

Lemma mm_samples_keeps_satisfied : forall ms samples rows ds out ds',
  mm_samples ms samples rows ds = Ok (out, ds') ->
  forall s0, stop_rule s0 ms rows -> keeps_sample s0 rows out.
Proof.
  intros ms samples. induction samples as [|s samples IH]; intros rows ds out ds' H s0 Hstop; cbn [mm_samples] in H.
  - inversion H; subst. apply keeps_refl.
  - destruct (plates_of_sample s rows) as [ps|t] eqn:Ep; cbn [res_bind] in H; [|discriminate].
    destruct (plates_of_sample_spec _ _ _ Ep) as (Hone & Hndp & Hmem).
    destruct (mm_loop _ ms _ rows ds) as [[rows1 ds1]|t] eqn:El; cbn [res_bind] in H; [|discriminate].
    apply (mm_loop_spec s ms _ ps) in El as (L1 & L2 & L3 & L4); [|repeat split; auto; apply Hmem|lia].
    destruct (list_eq_dec Z.eq_dec s0 s) as [->|Hne].
    + assert (rows1 = rows) by now apply L4. subst rows1. eapply IH; eauto.
    + eapply keeps_trans; [apply L3; exact Hne|].
      eapply IH; [exact H|]. eapply keeps_stop; [apply L3; exact Hne|exact Hstop].
Qed.

Theorem merge_min_keeps_satisfied : forall ms rows ds out ds',
  merge_min ms rows ds = Ok (out, ds') -> forall s, stop_rule s ms rows -> keeps_sample s rows out.
Proof. intros ms rows ds out ds' H. unfold merge_min in H. eapply mm_samples_keeps_satisfied; exact H. Qed.

Theorem mergemin_keeps_satisfied_w : forall ms rows ds out ds',
  smooth_plates (SMergeMin ms) rows ds = Ok (out, ds') ->
  forall s, stop_rule s ms (unobserved rows) -> keeps_sample s (unobserved rows) (unobserved out).
Proof.
  intros ms rows ds out ds' H s Hs. apply smooth_wrap_unobs in H as [[E1 E2]|H].
  - rewrite E1, E2. apply keeps_refl.
  - cbn [smooth_inner] in H. eapply merge_min_keeps_satisfied; eauto.
Qed.

(* what keeps_sample gives in plain terms: the rows of sample s are the same rows with the same plate labels, position by position *)
