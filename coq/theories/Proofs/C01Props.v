(* C01 proofs, part 4: the property clauses at the level of constructed screens. *)
From Coq Require Import ZArith List Lia Bool Sorted Permutation Arith.
From Batchie Require Import Lib.Sexp Lib.ListX Generated.Consts Model.Encode Model.Screen
  Proofs.C01Sort Proofs.C01Encode Proofs.C01Screen.
Import ListNotations.
Open Scope Z_scope.

Definition row_keys (s : screen) (k : tkey) : Prop := exists r, In r (s_rows s) /\ In k (r_treats r).

Lemma all_keys_In rows a ctrl tm sm og mg s :
  mk_screen rows a ctrl tm sm og mg = Ok s -> forall k, In k (all_keys s) <-> row_keys s k.
Proof.
  intros H k. pose proof (mk_screen_inv _ _ _ _ _ _ _ _ H) as S. unfold all_keys, row_keys.
  rewrite (flatten_In ([], 0) (s_arity s) (map r_treats (s_rows s))).
  - split.
    + intros (l & Hl & Hk). apply in_map_iff in Hl as (r & <- & Hr). now exists r.
    + intros (r & Hr & Hk). exists (r_treats r). split; [now apply in_map|exact Hk].
  - rewrite (ms_rows _ _ _ _ _ _ _ _ S), norm_rows_treats, (ms_arity _ _ _ _ _ _ _ _ S).
    apply Forall_forall. intros l Hl. apply in_map_iff in Hl as (r & <- & Hr).
    pose proof (ms_lens _ _ _ _ _ _ _ _ S) as HL. rewrite Forall_forall in HL. now apply HL.
Qed.

(* ---- decode ---- *)
Theorem decode_treatments rows a ctrl tm sm og mg s :
  mk_screen rows a ctrl tm sm og mg = Ok s ->
  s_tids s = map (fun r => map (tid_of (s_tmap s)) (r_treats r)) (s_rows s) /\
  forall k, row_keys s k -> In (k, tid_of (s_tmap s) k) (s_tmap s).
Proof.
  intros H. pose proof (mk_screen_inv _ _ _ _ _ _ _ _ H) as S. split; [exact (ms_tids _ _ _ _ _ _ _ _ S)|].
  intros k Hk. apply (all_keys_In _ _ _ _ _ _ _ _ H) in Hk.
  pose proof (ms_tdef _ _ _ _ _ _ _ _ S) as D. rewrite Forall_forall in D. specialize (D k Hk).
  unfold tid_of. destruct (tlookup (s_tmap s) k) as [id|] eqn:E; [now apply tlookup_Some|congruence].
Qed.

Theorem decode_samples rows a ctrl tm sm og mg s :
  mk_screen rows a ctrl tm sm og mg = Ok s ->
  s_sids s = map (fun r => nid_of (s_smap s) (r_sample r)) (s_rows s) /\
  forall r, In r (s_rows s) -> In (r_sample r, nid_of (s_smap s) (r_sample r)) (s_smap s).
Proof.
  intros H. pose proof (mk_screen_inv _ _ _ _ _ _ _ _ H) as S. split; [exact (ms_sids _ _ _ _ _ _ _ _ S)|].
  intros r Hr. pose proof (ms_sdef _ _ _ _ _ _ _ _ S) as D. rewrite Forall_forall in D. specialize (D r Hr).
  unfold nid_of. destruct (nlookup (s_smap s) (r_sample r)) as [id|] eqn:E; [now apply nlookup_Some|congruence].
Qed.

Theorem decode_plates rows a ctrl tm sm og mg s :
  mk_screen rows a ctrl tm sm og mg = Ok s ->
  s_pids s = map (fun r => nid_of (s_pmap s) (r_plate r)) (s_rows s) /\
  forall r, In r (s_rows s) -> In (r_plate r, nid_of (s_pmap s) (r_plate r)) (s_pmap s).
Proof.
  intros H. pose proof (mk_screen_inv _ _ _ _ _ _ _ _ H) as S. split; [exact (ms_pids _ _ _ _ _ _ _ _ S)|].
  intros r Hr. pose proof (ms_pdef _ _ _ _ _ _ _ _ S) as D. rewrite Forall_forall in D. specialize (D r Hr).
  unfold nid_of. destruct (nlookup (s_pmap s) (r_plate r)) as [id|] eqn:E; [now apply nlookup_Some|congruence].
Qed.

(* ---- no supplied treatment mapping ---- *)
Section NoTmap.
Variables (rows : list row) (a : nat) (ctrl : name) (sm : option (nmapping * bool)) (og mg : bool) (s : screen).
Hypothesis H : mk_screen rows a ctrl None sm og mg = Ok s.

Let S := mk_screen_inv _ _ _ _ _ _ _ _ H.
Let Htm : s_tmap s = build_tmapping ctrl (all_keys s) := ms_tmap _ _ _ _ _ _ _ _ S.

Lemma entry_of k : row_keys s k -> In (k, tid_of (s_tmap s) k) (build_tmapping ctrl (all_keys s)).
Proof. intros Hk. rewrite <- Htm. now apply (proj2 (decode_treatments _ _ _ _ _ _ _ _ H)). Qed.

Theorem control_iff k : row_keys s k ->
  (tid_of (s_tmap s) k = CONTROL_SENTINEL_VALUE <-> (snd k <= 0 \/ fst k = ctrl)).
Proof.
  intros Hk. rewrite <- is_control_iff. apply (built_control_iff ctrl (all_keys s)). now apply entry_of.
Qed.

Theorem treatment_ids_injective k1 k2 : row_keys s k1 -> row_keys s k2 ->
  tid_of (s_tmap s) k1 <> CONTROL_SENTINEL_VALUE ->
  (tid_of (s_tmap s) k1 = tid_of (s_tmap s) k2 <-> k1 = k2).
Proof.
  intros H1 H2 Hne. split; [|now intros ->]. intros Heq.
  apply (built_inj ctrl (all_keys s) k1 k2 (tid_of (s_tmap s) k1)); [now apply entry_of|rewrite Heq; now apply entry_of|exact Hne].
Qed.

Lemma filter_map_snd {A} (p : Z -> bool) (l : list (A * Z)) :
  filter p (map snd l) = map snd (filter (fun e => p (snd e)) l).
Proof.
  induction l as [|[x z] l IH]; cbn [filter map snd]; [reflexivity|].
  destruct (p z); cbn [map snd]; now rewrite IH.
Qed.

Lemma space_treatments_built : space_n_treatments s = Z.of_nat (n_nonctrl ctrl (all_keys s)).
Proof.
  unfold space_n_treatments. rewrite Htm, filter_map_snd.
  rewrite (filter_ext_in (fun e => negb (snd e =? CONTROL_SENTINEL_VALUE)) (fun e => nonctrl ctrl (fst e))).
  - rewrite built_nonctrl_ids, <- zseq_0, (sort_uniq_of_sorted _ Zcmp_spec) by apply zseq_sorted.
    now rewrite zseq_length.
  - intros [k id] Hin. cbn [fst snd]. unfold nonctrl. f_equal.
    pose proof (built_control_iff ctrl (all_keys s) k id Hin) as B.
    destruct (id =? CONTROL_SENTINEL_VALUE) eqn:E; destruct (is_control ctrl k) eqn:E2; try reflexivity.
    + apply Z.eqb_eq in E. apply B in E. congruence.
    + apply Z.eqb_neq in E. exfalso. apply E. now apply B.
Qed.

(* the non-control treatment ids occurring in the screen are exactly 0 .. size-1 *)
Theorem treatment_ids_dense z :
  (exists k, row_keys s k /\ tid_of (s_tmap s) k = z /\ z <> CONTROL_SENTINEL_VALUE)
  <-> 0 <= z < space_n_treatments s.
Proof.
  rewrite space_treatments_built, <- (built_dense ctrl (all_keys s) z). split.
  - intros (k & Hk & <- & Hne). exists k. split; [now apply entry_of|exact Hne].
  - intros (k & Hin & Hne). exists k.
    assert (Hk : row_keys s k).
    { apply (all_keys_In _ _ _ _ _ _ _ _ H). apply (sort_uniq_In _ tkey_cmp_spec).
      rewrite <- (built_keys ctrl (all_keys s)). change k with (fst (k, z)). now apply in_map. }
    split; [exact Hk|]. split; [|exact Hne].
    exact (built_functional ctrl (all_keys s) k _ _ (entry_of k Hk) Hin).
Qed.
End NoTmap.

(* ---- samples / plates without supplied mapping ---- *)
Section NoSmap.
Variables (rows : list row) (a : nat) (ctrl : name) (tm : option (tmapping * bool)) (og mg : bool) (s : screen).
Hypothesis H : mk_screen rows a ctrl tm None og mg = Ok s.
Let S := mk_screen_inv _ _ _ _ _ _ _ _ H.

Lemma samples_of_rows : map r_sample rows = map r_sample (s_rows s).
Proof. now rewrite (ms_rows _ _ _ _ _ _ _ _ S), norm_rows_samples. Qed.

Lemma space_samples_built : space_n_samples s = Z.of_nat (length (sort_uniq name_cmp (map r_sample rows))).
Proof.
  unfold space_n_samples. rewrite (ms_smap _ _ _ _ _ _ _ _ S), nbuilt_keys.
  now rewrite (sort_uniq_of_sorted _ name_cmp_spec) by apply sort_uniq_sorted, name_cmp_spec.
Qed.

Theorem sample_ids_dense z :
  (exists r, In r (s_rows s) /\ nid_of (s_smap s) (r_sample r) = z) <-> 0 <= z < space_n_samples s.
Proof.
  rewrite space_samples_built, <- (nbuilt_dense (map r_sample rows) z), <- (ms_smap _ _ _ _ _ _ _ _ S). split.
  - intros (r & Hr & <-). exists (r_sample r). now apply (proj2 (decode_samples _ _ _ _ _ _ _ _ H)).
  - intros (k & Hin).
    assert (Hk : In k (map r_sample (s_rows s))).
    { rewrite <- samples_of_rows. apply (sort_uniq_In _ name_cmp_spec). rewrite <- nbuilt_keys, <- (ms_smap _ _ _ _ _ _ _ _ S).
      change k with (fst (k, z)). now apply in_map. }
    apply in_map_iff in Hk as (r & <- & Hr). exists r. split; [exact Hr|].
    pose proof (proj2 (decode_samples _ _ _ _ _ _ _ _ H) r Hr) as Hin'.
    rewrite (ms_smap _ _ _ _ _ _ _ _ S) in Hin, Hin' |- *. exact (nbuilt_functional _ _ _ _ Hin' Hin).
Qed.

Theorem sample_ids_injective r1 r2 : In r1 (s_rows s) -> In r2 (s_rows s) ->
  (nid_of (s_smap s) (r_sample r1) = nid_of (s_smap s) (r_sample r2) <-> r_sample r1 = r_sample r2).
Proof.
  intros H1 H2. split; [|now intros ->]. intros Heq.
  pose proof (proj2 (decode_samples _ _ _ _ _ _ _ _ H) r1 H1) as I1.
  pose proof (proj2 (decode_samples _ _ _ _ _ _ _ _ H) r2 H2) as I2.
  rewrite Heq in I1. rewrite (ms_smap _ _ _ _ _ _ _ _ S) in I1, I2. exact (nbuilt_inj _ _ _ _ I1 I2).
Qed.
End NoSmap.

Section Plates.
Variables (rows : list row) (a : nat) (ctrl : name) (tm : option (tmapping * bool)) (sm : option (nmapping * bool))
          (og mg : bool) (s : screen).
Hypothesis H : mk_screen rows a ctrl tm sm og mg = Ok s.
Let S := mk_screen_inv _ _ _ _ _ _ _ _ H.

Lemma plates_of_rows : map r_plate rows = map r_plate (s_rows s).
Proof. now rewrite (ms_rows _ _ _ _ _ _ _ _ S), norm_rows_plates. Qed.

Theorem plate_ids_dense z :
  (exists r, In r (s_rows s) /\ nid_of (s_pmap s) (r_plate r) = z)
  <-> 0 <= z < Z.of_nat (length (sort_uniq name_cmp (map r_plate rows))).
Proof.
  rewrite <- (nbuilt_dense (map r_plate rows) z), <- (ms_pmap _ _ _ _ _ _ _ _ S). split.
  - intros (r & Hr & <-). exists (r_plate r). now apply (proj2 (decode_plates _ _ _ _ _ _ _ _ H)).
  - intros (k & Hin).
    assert (Hk : In k (map r_plate (s_rows s))).
    { rewrite <- plates_of_rows. apply (sort_uniq_In _ name_cmp_spec). rewrite <- nbuilt_keys, <- (ms_pmap _ _ _ _ _ _ _ _ S).
      change k with (fst (k, z)). now apply in_map. }
    apply in_map_iff in Hk as (r & <- & Hr). exists r. split; [exact Hr|].
    pose proof (proj2 (decode_plates _ _ _ _ _ _ _ _ H) r Hr) as Hin'.
    rewrite (ms_pmap _ _ _ _ _ _ _ _ S) in Hin, Hin' |- *. exact (nbuilt_functional _ _ _ _ Hin' Hin).
Qed.

Theorem plate_ids_injective r1 r2 : In r1 (s_rows s) -> In r2 (s_rows s) ->
  (nid_of (s_pmap s) (r_plate r1) = nid_of (s_pmap s) (r_plate r2) <-> r_plate r1 = r_plate r2).
Proof.
  intros H1 H2. split; [|now intros ->]. intros Heq.
  pose proof (proj2 (decode_plates _ _ _ _ _ _ _ _ H) r1 H1) as I1.
  pose proof (proj2 (decode_plates _ _ _ _ _ _ _ _ H) r2 H2) as I2.
  rewrite Heq in I1. rewrite (ms_pmap _ _ _ _ _ _ _ _ S) in I1, I2. exact (nbuilt_inj _ _ _ _ I1 I2).
Qed.
End Plates.

(* ---- supplied mappings ---- *)
Theorem supplied_verbatim rows a ctrl m b sm og mg s :
  mk_screen rows a ctrl (Some (m, b)) sm og mg = Ok s ->
  s_tmap s = m /\ zero_indexed b (map snd m) = true.
Proof.
  intros H. pose proof (mk_screen_inv _ _ _ _ _ _ _ _ H) as S.
  split; [exact (ms_tmap _ _ _ _ _ _ _ _ S)|exact (ms_tvalid _ _ _ _ _ _ _ _ S)].
Qed.

Theorem supplied_samples_verbatim rows a ctrl tm m b og mg s :
  mk_screen rows a ctrl tm (Some (m, b)) og mg = Ok s ->
  s_smap s = m /\ zero_indexed b (map snd m) = true.
Proof.
  intros H. pose proof (mk_screen_inv _ _ _ _ _ _ _ _ H) as S.
  split; [exact (ms_smap _ _ _ _ _ _ _ _ S)|exact (ms_svalid _ _ _ _ _ _ _ _ S)].
Qed.

(* rejection: a supplied treatment mapping whose ids are not dense is refused with tag 3,
   whenever the earlier argument checks pass *)
Theorem supplied_not_dense_rejected rows a ctrl m b sm og mg :
  forallb (fun r => Nat.eqb (length (r_treats r)) a) rows = true ->
  negb og && mg = false -> plate_uniform (norm_rows og mg rows) = true ->
  zero_indexed b (map snd m) = false ->
  mk_screen rows a ctrl (Some (m, b)) sm og mg = Err 3.
Proof.
  intros E1 E2 E3 E4. unfold mk_screen. fold (norm_rows og mg rows).
  rewrite E1, E2, E3, E4. reflexivity.
Qed.

(* rejection: a supplied (valid) treatment mapping that misses a key of the data is refused *)
Theorem supplied_uncovered_rejected rows a ctrl m b sm og mg k r :
  forallb (fun r => Nat.eqb (length (r_treats r)) a) rows = true ->
  In r rows -> In k (r_treats r) -> ~ In k (map fst m) ->
  forall s, mk_screen rows a ctrl (Some (m, b)) sm og mg <> Ok s.
Proof.
  intros E1 Hr Hk Hno s H. pose proof (mk_screen_inv _ _ _ _ _ _ _ _ H) as S.
  pose proof (ms_tdef _ _ _ _ _ _ _ _ S) as D. rewrite Forall_forall in D.
  assert (Hin : In k (all_keys s)).
  { apply (all_keys_In _ _ _ _ _ _ _ _ H). unfold row_keys.
    rewrite (ms_rows _ _ _ _ _ _ _ _ S).
    assert (Ht : In (r_treats r) (map r_treats (norm_rows og mg rows))) by (rewrite norm_rows_treats; now apply in_map).
    apply in_map_iff in Ht as (r' & Heq & Hr'). exists r'. split; [exact Hr'|now rewrite Heq]. }
  apply (D k Hin). rewrite (ms_tmap _ _ _ _ _ _ _ _ S). now apply tlookup_None.
Qed.

(* ---- the mapping a screen builds is itself acceptable, and reusing it on any rows whose
        keys it covers reproduces the same mapping (hence the same ids for the same keys) ---- *)
Lemma built_tmapping_valid ctrl keys : zero_indexed true (map snd (build_tmapping ctrl keys)) = true.
Proof.
  apply zero_indexed_spec. exists (n_nonctrl ctrl keys). intros z. split.
  - intros Hin. apply in_map_iff in Hin as ([k id] & Heq & Hin). cbn [snd] in Heq. subst id.
    destruct (Z.eq_dec z (-1)) as [->|Hne].
    + left. split; [reflexivity|]. change (-1) with (snd (k, -1)). now apply in_map.
    + right. apply (built_dense ctrl keys z). exists k. split; [exact Hin|now rewrite sentinel_is_minus_one].
  - intros [[-> Hin]|Hr]; [exact Hin|].
    apply (built_dense ctrl keys z) in Hr as (k & Hin & _). change z with (snd (k, z)). now apply in_map.
Qed.

Lemma built_nmapping_valid names : zero_indexed true (map snd (build_nmapping names)) = true.
Proof.
  apply zero_indexed_spec. exists (length (sort_uniq name_cmp names)). intros z. split.
  - intros Hin. right. apply in_map_iff in Hin as ([k id] & Heq & Hin). cbn [snd] in Heq. subst id.
    apply (nbuilt_dense names z). now exists k.
  - intros [[-> Hin]|Hr]; [exact Hin|].
    apply (nbuilt_dense names z) in Hr as (k & Hin). change z with (snd (k, z)). now apply in_map.
Qed.

Theorem superset_stable rows a ctrl og mg s sub :
  mk_screen rows a ctrl None None og mg = Ok s ->
  forallb (fun r => Nat.eqb (length (r_treats r)) a) sub = true ->
  plate_uniform sub = true ->
  (forall r k, In r sub -> In k (r_treats r) -> row_keys s k) ->
  (forall r, In r sub -> In (r_sample r) (map r_sample (s_rows s))) ->
  exists s', mk_screen sub a ctrl (Some (s_tmap s, true)) (Some (s_smap s, true)) true true = Ok s'
             /\ s_tmap s' = s_tmap s /\ s_smap s' = s_smap s /\ s_rows s' = sub.
Proof.
  intros H E1 E3 Hkeys Hsamp. pose proof (mk_screen_inv _ _ _ _ _ _ _ _ H) as S.
  assert (Vt : zero_indexed true (map snd (s_tmap s)) = true)
    by (rewrite (ms_tmap _ _ _ _ _ _ _ _ S); apply built_tmapping_valid).
  assert (Vs : zero_indexed true (map snd (s_smap s)) = true)
    by (rewrite (ms_smap _ _ _ _ _ _ _ _ S); apply built_nmapping_valid).
  destruct (mk_screen sub a ctrl (Some (s_tmap s, true)) (Some (s_smap s, true)) true true) as [s'|tag] eqn:E.
  - exists s'. pose proof (mk_screen_inv _ _ _ _ _ _ _ _ E) as S'.
    split; [reflexivity|]. split; [exact (ms_tmap _ _ _ _ _ _ _ _ S')|].
    split; [exact (ms_smap _ _ _ _ _ _ _ _ S')|exact (ms_rows _ _ _ _ _ _ _ _ S')].
  - exfalso. revert E. unfold mk_screen. rewrite E1. cbn [negb andb]. rewrite E3. cbn [negb].
    rewrite Vt, Vs. cbn [negb option_map fst]. unfold encode_treatments, encode_names.
    apply forallb_lens in E1.
    set (flat := flatten_cols ([], 0) a (map r_treats sub)).
    destruct (opt_map_all (tlookup (s_tmap s)) flat) as [tflat|] eqn:E6.
    + cbn [res_bind].
      destruct (opt_map_all (nlookup (s_smap s)) (map r_sample sub)) as [sids|] eqn:E7.
      * cbn [res_bind]. destruct (nbuilt_encode_ok (map r_plate sub) 6) as (pids & Ep).
        unfold encode_names in Ep. destruct (opt_map_all _ (map r_plate sub)); [discriminate|discriminate].
      * exfalso. apply opt_map_all_None in E7 as (nm & Hnm & Hn). apply in_map_iff in Hnm as (r & <- & Hr).
        apply nlookup_None in Hn. apply Hn. specialize (Hsamp r Hr).
        apply in_map_iff in Hsamp as (r0 & Heq & Hr0).
        pose proof (proj2 (decode_samples _ _ _ _ _ _ _ _ H) r0 Hr0) as Hin. rewrite Heq in Hin.
        change (r_sample r) with (fst (r_sample r, nid_of (s_smap s) (r_sample r))). now apply in_map.
    + exfalso. apply opt_map_all_None in E6 as (k & Hk & Hn).
      apply (flatten_In ([], 0) a (map r_treats sub)) in Hk.
      * destruct Hk as (l & Hl & Hk). apply in_map_iff in Hl as (r & <- & Hr).
        apply tlookup_None in Hn. apply Hn. specialize (Hkeys r k Hr Hk).
        pose proof (proj2 (decode_treatments _ _ _ _ _ _ _ _ H) k Hkeys) as Hin.
        change k with (fst (k, tid_of (s_tmap s) k)). now apply in_map.
      * apply Forall_forall. intros l Hl. apply in_map_iff in Hl as (r & <- & Hr).
        rewrite Forall_forall in E1. now apply E1.
Qed.

(* ---- experiment-space sizes strictly bound every id ---- *)
Lemma valid_ids_bound {A} (m : list (A * Z)) id :
  zero_indexed true (map snd m) = true -> In id (map snd m) ->
  id < Z.of_nat (length (sort_uniq Z.compare (filter (fun i => negb (i =? CONTROL_SENTINEL_VALUE)) (map snd m)))).
Proof.
  intros V Hin. apply zero_indexed_spec in V as (u & Hu).
  assert (Hs : sort_uniq Z.compare (filter (fun i => negb (i =? CONTROL_SENTINEL_VALUE)) (map snd m)) = zseq 0 u).
  { apply (SSorted_unique _ Zcmp_spec); [apply sort_uniq_sorted, Zcmp_spec|apply zseq_sorted|].
    intros z. rewrite (sort_uniq_In _ Zcmp_spec), filter_In, Hu, zseq_In, sentinel_is_minus_one.
    rewrite negb_true_iff, Z.eqb_neq. lia. }
  rewrite Hs, zseq_length. apply Hu in Hin. lia.
Qed.

Theorem treatment_ids_bounded rows a ctrl tm sm og mg s k :
  mk_screen rows a ctrl tm sm og mg = Ok s -> row_keys s k ->
  match tm with Some (_, b) => b = true | None => True end ->
  tid_of (s_tmap s) k < space_n_treatments s.
Proof.
  intros H Hk Hb. pose proof (mk_screen_inv _ _ _ _ _ _ _ _ H) as S.
  pose proof (proj2 (decode_treatments _ _ _ _ _ _ _ _ H) k Hk) as Hin.
  unfold space_n_treatments. apply valid_ids_bound.
  - rewrite (ms_tmap _ _ _ _ _ _ _ _ S). destruct tm as [[m b]|].
    + subst b. exact (ms_tvalid _ _ _ _ _ _ _ _ S).
    + apply built_tmapping_valid.
  - change (tid_of (s_tmap s) k) with (snd (k, tid_of (s_tmap s) k)). now apply in_map.
Qed.

Theorem sample_ids_bounded rows a ctrl tm og mg s r :
  mk_screen rows a ctrl tm None og mg = Ok s -> In r (s_rows s) ->
  nid_of (s_smap s) (r_sample r) < space_n_samples s.
Proof.
  intros H Hr. apply (sample_ids_dense _ _ _ _ _ _ _ H). now exists r.
Qed.

(* with a supplied key-unique sample mapping the bound holds too *)
Theorem sample_ids_bounded_supplied rows a ctrl tm m og mg s r :
  mk_screen rows a ctrl tm (Some (m, true)) og mg = Ok s -> NoDup (map fst m) -> In r (s_rows s) ->
  nid_of (s_smap s) (r_sample r) < space_n_samples s.
Proof.
  intros H Hnd Hr. pose proof (mk_screen_inv _ _ _ _ _ _ _ _ H) as S.
  pose proof (proj2 (decode_samples _ _ _ _ _ _ _ _ H) r Hr) as Hin.
  pose proof (ms_svalid _ _ _ _ _ _ _ _ S) as V. cbn in V.
  rewrite (ms_smap _ _ _ _ _ _ _ _ S) in *. unfold space_n_samples. rewrite (ms_smap _ _ _ _ _ _ _ _ S).
  rewrite (sort_uniq_length_NoDup _ name_cmp_spec) by exact Hnd. rewrite map_length.
  apply zero_indexed_spec in V as (u & Hu).
  assert (Hid : In (nid_of m (r_sample r)) (map snd m))
    by (change (nid_of m (r_sample r)) with (snd (r_sample r, nid_of m (r_sample r))); now apply in_map).
  assert (Hu' : (u <= length m)%nat).
  { assert (Hincl : incl (zseq 0 u) (map snd m)) by (intros z Hz; apply zseq_In in Hz; apply Hu; right; lia).
    pose proof (NoDup_incl_length (SSorted_NoDup _ Zcmp_spec _ (zseq_sorted 0 u)) Hincl) as L.
    now rewrite zseq_length, map_length in L. }
  apply Hu in Hid. lia.
Qed.
