(* One piece of Proofs/C18SourceParser.v (which see): the option table of analyze_model_evaluation.get_parser(), read from /repo on every run
   (Generated/SrcParser_analyze_model_evaluation.v), provides what the argument record of that command assumes. *)
From Coq Require Import ZArith List Bool.
From Batchie Require Import Lib.Sexp Lib.PyRt Model.Cli Proofs.C18Parser Generated.SrcParser_analyze_model_evaluation.
Import ListNotations.
Open Scope Z_scope.

Theorem parser_analyze_model_evaluation_fields : forall f, In f (am_fields ++ logging_fields) -> declares src_parser_analyze_model_evaluation f.
Proof. apply declares_all. vm_compute. reflexivity. Qed.

Theorem parser_analyze_model_evaluation_dests_derived : dests_derived src_parser_analyze_model_evaluation.
Proof. apply dests_derived_sound. vm_compute. reflexivity. Qed.

Theorem parser_analyze_model_evaluation_dests_distinct : dests_distinct src_parser_analyze_model_evaluation.
Proof. apply dests_distinct_sound. vm_compute. reflexivity. Qed.
