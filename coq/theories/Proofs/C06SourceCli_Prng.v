(* One piece of Proofs/C06SourceCli.v (which see): argument_parsing.get_prng_from_seed_argument *)
From Coq Require Import ZArith List Bool Lia.
From Batchie Require Import Lib.Sexp Lib.PyRt Model.Cli Generated.SrcCli Proofs.PyRtLemmas.
Import ListNotations.
Open Scope Z_scope.

Theorem src_get_prng_is_model : forall (mix : Z -> Z) (seed : Z),
  src_get_prng_from_seed_argument mix seed = prng_of_seed mix seed.
Proof. intros. reflexivity. Qed.
