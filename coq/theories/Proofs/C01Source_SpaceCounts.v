(* C01, one piece of Proofs/C01Source.v (which see): ExperimentSpace.n_unique_treatment_types / n_unique_doses *)
From Coq Require Import ZArith List Bool Lia ZifyBool Arith.
From Batchie Require Import Lib.Sexp Lib.PyRt Generated.Consts Model.Encode Model.Screen Model.Persist Generated.SrcSpaceMethods
  Proofs.C01Sort Proofs.C01Source_SpaceBase.
Import ListNotations.
Open Scope Z_scope.

Theorem src_space_n_treatment_types_is_model : forall sp : space,
  src_space_n_unique_treatment_types (pyspace_of sp) = Ok (space_n_treatment_types sp).
Proof.
  intros sp. unfold src_space_n_unique_treatment_types, space_n_treatment_types, pyspace_of, pysp_tmap, pysp_ctrl, tmap_cols.
  cbn [fst snd]. now rewrite setdiff1d_names_one, sort_uniq_idem_name.
Qed.

Theorem src_space_n_doses_is_model : forall sp : space,
  src_space_n_unique_doses (pyspace_of sp) = Ok (space_n_doses sp).
Proof.
  intros sp. unfold src_space_n_unique_doses, space_n_doses, pyspace_of, pysp_tmap, tmap_cols.
  cbn [fst snd]. now rewrite setdiff1d_one, sort_uniq_idem_Z.
Qed.
