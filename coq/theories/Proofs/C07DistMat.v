(* C07 proofs, part 2: chunks computed independently, saved, loaded and combined in any
   order (with repeats) densify to the matrix of the metric. *)
From Coq Require Import ZArith List Lia Arith Bool Permutation.
From Batchie Require Import Lib.Sexp Lib.ListX Model.Chunks Model.DistMat Proofs.C07Chunks.
Import ListNotations.

Section Assemble.
Variable V : Type.
Variable vzero : V.
Variable d : nat -> nat -> V.
Variable n : nat.

Notation entry := (entry V).
Notation dmat := (dmat V).

Definition ent (p : nat * nat) : entry := (Z.of_nat (fst p), Z.of_nat (snd p), d (fst p) (snd p)).
Definition valid (p : nat * nat) : Prop := (snd p < fst p < n)%nat.

(* the well-formedness invariant of every matrix the pipeline builds *)
Definition WF (m : dmat) (ps : list (nat * nat)) : Prop :=
  dm_size m = Z.of_nat n /\ dm_entries m = map ent ps /\ NoDup ps /\ Forall valid ps.

Definition mk (ps : list (nat * nat)) : dmat := {| dm_size := Z.of_nat n; dm_entries := map ent ps |}.

Lemma add_value_valid m p :
  dm_size m = Z.of_nat n -> valid p ->
  add_value V m (Z.of_nat (fst p)) (Z.of_nat (snd p)) (d (fst p) (snd p))
  = Ok {| dm_size := dm_size m; dm_entries := dm_entries m ++ [ent p] |}.
Proof.
  intros Hs [H1 H2]. unfold add_value. rewrite Hs.
  assert (E1 : (Z.of_nat (fst p) >=? Z.of_nat n)%Z = false) by lia.
  assert (E2 : (Z.of_nat (snd p) >=? Z.of_nat n)%Z = false) by lia.
  assert (E3 : (Z.of_nat (fst p) <? Z.of_nat (snd p))%Z = false) by lia.
  now rewrite E1, E2, E3.
Qed.

Lemma add_all_valid ps : forall m,
  dm_size m = Z.of_nat n -> Forall valid ps ->
  add_all V d m ps = Ok {| dm_size := dm_size m; dm_entries := dm_entries m ++ map ent ps |}.
Proof.
  induction ps as [|[i j] ps IH]; intros m Hs Hv; cbn [add_all map].
  - rewrite app_nil_r. now destruct m.
  - inversion Hv as [|? ? Hp Hv']; subst.
    pose proof (add_value_valid m (i, j) Hs Hp) as E. cbn [fst snd] in E. rewrite E.
    cbn [res_bind]. rewrite IH by assumption. cbn [dm_size dm_entries].
    now rewrite <- app_assoc.
Qed.

Lemma slice_incl {A} (l : list A) s e x : In x (slice l s e) -> In x l.
Proof.
  unfold slice. intros H. now apply In_firstn, In_skipn in H.
Qed.

Lemma NoDup_firstn_ {A} (l : list A) k : NoDup l -> NoDup (firstn k l).
Proof.
  intros H. rewrite <- (firstn_skipn k l) in H. now apply NoDup_app_inv in H as (H1 & _ & _).
Qed.
Lemma NoDup_skipn_ {A} (l : list A) k : NoDup l -> NoDup (skipn k l).
Proof.
  intros H. rewrite <- (firstn_skipn k l) in H. now apply NoDup_app_inv in H as (_ & H2 & _).
Qed.

Lemma chunk_valid k c : Forall valid (chunk n k c).
Proof.
  apply Forall_forall. intros [i j] H. unfold chunk in H.
  destruct (chunk_bounds _ _ _) as [s e]. apply slice_incl in H.
  apply lower_tri_In in H. exact H.
Qed.

Lemma chunk_NoDup k c : NoDup (chunk n k c).
Proof.
  unfold chunk. destruct (chunk_bounds _ _ _) as [s e]. unfold slice.
  apply NoDup_firstn_, NoDup_skipn_, lower_tri_NoDup.
Qed.

Lemma compute_chunk_ok k c : compute_chunk V d n k c = Ok (mk (chunk n k c)).
Proof.
  unfold compute_chunk. rewrite add_all_valid; [reflexivity|reflexivity|apply chunk_valid].
Qed.

Lemma WF_mk ps : NoDup ps -> Forall valid ps -> WF (mk ps) ps.
Proof. intros; repeat split; assumption. Qed.

Lemma has_key_ent ps i j :
  has_key V (map ent ps) (Z.of_nat i) (Z.of_nat j) = true <-> In (i, j) ps.
Proof.
  unfold has_key. rewrite existsb_exists. split.
  - intros ([[a b] v] & Hin & Hk). apply in_map_iff in Hin as ([i' j'] & Heq & Hin).
    unfold ent in Heq. cbn [fst snd] in Heq. inversion Heq; subst.
    apply andb_true_iff in Hk as [Ha Hb]. apply Z.eqb_eq in Ha, Hb.
    apply Nat2Z.inj in Ha, Hb. now subst.
  - intros Hin. exists (ent (i, j)). split; [now apply in_map|].
    unfold ent; cbn [fst snd]. now rewrite !Z.eqb_refl.
Qed.

Lemma combine_loop_wf psb : forall acc psa,
  WF acc psa -> Forall valid psb ->
  exists ps', combine_loop V acc (map ent psb) = Ok (mk ps') /\ WF (mk ps') ps' /\
              (forall p, In p ps' <-> In p psa \/ In p psb).
Proof.
  induction psb as [|[i j] psb IH]; intros acc psa (Hs & He & Hnd & Hv) Hvb; cbn [map combine_loop].
  - exists psa. split; [|split].
    + destruct acc as [sz es]; cbn in *. now subst.
    + now apply WF_mk.
    + intros p; cbn [In]; tauto.
  - inversion Hvb as [|? ? Hp Hvb']; subst. unfold ent at 1. cbn [fst snd].
    destruct (has_key V (dm_entries acc) (Z.of_nat i) (Z.of_nat j)) eqn:Ek.
    + rewrite He in Ek. apply has_key_ent in Ek.
      destruct (IH acc psa) as (ps' & E & W & Hin); [repeat split; assumption|assumption|].
      exists ps'. split; [exact E|split; [exact W|]].
      intros p; rewrite Hin; cbn [In]. split; [tauto|].
      intros [H|[<-|H]]; auto.
    + assert (Hnot : ~ In (i, j) psa).
      { intros Hin. apply has_key_ent in Hin. rewrite <- He in Hin. congruence. }
      pose proof (add_value_valid acc (i, j) Hs Hp) as E. cbn [fst snd] in E. rewrite E.
      cbn [res_bind].
      destruct (IH {| dm_size := dm_size acc; dm_entries := dm_entries acc ++ [ent (i, j)] |} (psa ++ [(i, j)]))
        as (ps' & E' & W & Hin); [|assumption|].
      * repeat split; cbn [dm_size dm_entries]; [exact Hs|now rewrite He, map_app| |].
        -- apply NoDup_app_intro; [exact Hnd|repeat constructor; intros []|].
           intros x Hx [<-|[]]. contradiction.
        -- apply Forall_app; split; [exact Hv|now constructor].
      * exists ps'. split; [exact E'|split; [exact W|]].
        intros p; rewrite Hin, in_app_iff; cbn [In]. tauto.
Qed.

Lemma combine_wf a b psa psb :
  WF a psa -> WF b psb ->
  exists ps', combine V a b = Ok (mk ps') /\ WF (mk ps') ps' /\
              (forall p, In p ps' <-> In p psa \/ In p psb).
Proof.
  intros Wa Wb. unfold combine.
  destruct Wa as (Hsa & Wa'), Wb as (Hsb & Heb & _ & Hvb).
  rewrite Hsa, Hsb, Z.eqb_refl. cbn [negb]. rewrite Heb.
  apply combine_loop_wf; [split; assumption|assumption].
Qed.

(* union of the key lists of a family *)
Definition union_keys (pss : list (list (nat * nat))) (p : nat * nat) : Prop :=
  exists ps, In ps pss /\ In p ps.

Lemma concat_loop_wf pss : forall acc psa,
  WF acc psa -> Forall (fun ps => NoDup ps /\ Forall valid ps) pss ->
  exists ps', concat_loop V acc (map mk pss) = Ok (mk ps') /\ WF (mk ps') ps' /\
              (forall p, In p ps' <-> In p psa \/ union_keys pss p).
Proof.
  induction pss as [|ps pss IH]; intros acc psa Wa Hall; cbn [map concat_loop].
  - exists psa. destruct Wa as (Hs & He & Hnd & Hv). split; [|split].
    + destruct acc as [sz es]; cbn in *. now subst.
    + now apply WF_mk.
    + intros p. split; [auto|]. intros [H|(x & [] & _)]. exact H.
  - inversion Hall as [|? ? [Hnd Hv] Hall']; subst.
    destruct Wa as (Hs & Wa'). cbn [mk dm_size]. rewrite Hs, Z.eqb_refl. cbn [negb].
    destruct (combine_wf acc (mk ps) psa ps) as (ps1 & E1 & W1 & Hin1);
      [split; assumption|now apply WF_mk|].
    change {| dm_size := Z.of_nat n; dm_entries := map ent ps |} with (mk ps).
    rewrite E1. cbn [res_bind].
    destruct (IH (mk ps1) ps1 W1 Hall') as (ps' & E' & W' & Hin').
    exists ps'. split; [exact E'|split; [exact W'|]].
    intros p. rewrite Hin', Hin1. unfold union_keys. split.
    + intros [[H|H]|(x & Hx & Hp)]; [now left|right; exists ps; split; [now left|exact H]|].
      right. exists x. split; [now right|exact Hp].
    + intros [H|(x & [<-|Hx] & Hp)]; [now left; left|now left; right|].
      right. exists x. now split.
Qed.

Lemma dm_concat_wf pss :
  pss <> [] -> Forall (fun ps => NoDup ps /\ Forall valid ps) pss ->
  exists ps', dm_concat V (map mk pss) = Ok (mk ps') /\ WF (mk ps') ps' /\
              (forall p, In p ps' <-> union_keys pss p).
Proof.
  intros Hne Hall. destruct pss as [|ps pss]; [congruence|].
  inversion Hall as [|? ? [Hnd Hv] Hall']; subst.
  destruct pss as [|ps2 pss].
  - cbn [map dm_concat]. exists ps. split; [reflexivity|split; [now apply WF_mk|]].
    intros p. split; [intros H; exists ps; split; [now left|exact H]|].
    intros (x & [<-|[]] & Hp). exact Hp.
  - change (dm_concat V (map mk (ps :: ps2 :: pss))) with (concat_loop V (mk ps) (map mk (ps2 :: pss))).
    destruct (concat_loop_wf (ps2 :: pss) (mk ps) ps) as (ps' & E & W & Hin);
      [now apply WF_mk|exact Hall'|].
    exists ps'. split; [exact E|split; [exact W|]].
    intros p. rewrite Hin. unfold union_keys. split.
    + intros [H|(x & Hx & Hp)]; [exists ps; split; [now left|exact H]|exists x; split; [now right|exact Hp]].
    + intros (x & [<-|Hx] & Hp); [now left|right; exists x; now split].
Qed.

Lemma pair_eq_dec (x y : nat * nat) : {x = y} + {x <> y}.
Proof. decide equality; apply Nat.eq_dec. Qed.

(* reading the dense matrix back *)
Lemma dense_get_cons i j r A B cur :
  dense_get V (ent (i, j) :: r) A B cur
  = if ((Z.of_nat i =? A)%Z && (Z.of_nat j =? B)%Z) || ((Z.of_nat i =? B)%Z && (Z.of_nat j =? A)%Z)
    then dense_get V r A B (d i j) else dense_get V r A B cur.
Proof. reflexivity. Qed.

Lemma dense_get_miss ps (a b : nat) : forall cur,
  Forall valid ps -> ~ In (a, b) ps -> ~ In (b, a) ps ->
  dense_get V (map ent ps) (Z.of_nat a) (Z.of_nat b) cur = cur.
Proof.
  induction ps as [|[i j] ps IH]; intros cur Hv H1 H2; cbn [map]; [reflexivity|].
  inversion Hv as [|? ? Hp Hv']; subst. rewrite dense_get_cons.
  cbn [In] in H1, H2.
  destruct ((Z.of_nat i =? Z.of_nat a)%Z && (Z.of_nat j =? Z.of_nat b)%Z
            || (Z.of_nat i =? Z.of_nat b)%Z && (Z.of_nat j =? Z.of_nat a)%Z) eqn:E.
  - exfalso. apply orb_true_iff in E as [E|E]; apply andb_true_iff in E as [Ea Eb];
      apply Z.eqb_eq in Ea, Eb; apply Nat2Z.inj in Ea, Eb; subst; tauto.
  - apply IH; tauto.
Qed.

Lemma dense_get_hit ps (a b : nat) :
  Forall valid ps -> (b < a)%nat -> In (a, b) ps -> forall cur,
  dense_get V (map ent ps) (Z.of_nat a) (Z.of_nat b) cur = d a b /\
  dense_get V (map ent ps) (Z.of_nat b) (Z.of_nat a) cur = d a b.
Proof.
  intros Hv Hab. induction ps as [|[i j] ps IH]; intros Hin cur; [contradiction|].
  inversion Hv as [|? ? Hp Hv']; subst. cbn [map]. rewrite !dense_get_cons.
  assert (Hnba : forall l, Forall valid l -> ~ In (b, a) l).
  { intros l Hl Hc. rewrite Forall_forall in Hl. specialize (Hl _ Hc). unfold valid in Hl. cbn in Hl. lia. }
  destruct (Nat.eq_dec i a) as [->|Hia]; [destruct (Nat.eq_dec j b) as [->|Hjb]|].
  - assert (E : forall x y : Z, ((x =? x)%Z && (y =? y)%Z || (x =? y)%Z && (y =? x)%Z) = true)
      by (intros; rewrite !Z.eqb_refl; reflexivity).
    assert (E' : forall x y : Z, ((x =? y)%Z && (y =? x)%Z || (x =? x)%Z && (y =? y)%Z) = true)
      by (intros; rewrite !Z.eqb_refl; apply orb_true_r).
    rewrite E, E'.
    destruct (in_dec pair_eq_dec (a, b) ps) as [Hin'|Hnin].
    + now apply IH.
    + split; [apply dense_get_miss; auto|].
      rewrite dense_get_miss; auto.
  - assert (Hin' : In (a, b) ps) by (destruct Hin as [Heq|H]; [inversion Heq; congruence|exact H]).
    assert (E : ((Z.of_nat a =? Z.of_nat a)%Z && (Z.of_nat j =? Z.of_nat b)%Z
                 || (Z.of_nat a =? Z.of_nat b)%Z && (Z.of_nat j =? Z.of_nat a)%Z) = false).
    { unfold valid in Hp; cbn in Hp. apply orb_false_iff. split; apply andb_false_iff; lia. }
    assert (E' : ((Z.of_nat a =? Z.of_nat b)%Z && (Z.of_nat j =? Z.of_nat a)%Z
                 || (Z.of_nat a =? Z.of_nat a)%Z && (Z.of_nat j =? Z.of_nat b)%Z) = false).
    { unfold valid in Hp; cbn in Hp. apply orb_false_iff. split; apply andb_false_iff; lia. }
    rewrite E, E'. now apply IH.
  - assert (Hin' : In (a, b) ps) by (destruct Hin as [Heq|H]; [inversion Heq; congruence|exact H]).
    assert (E : ((Z.of_nat i =? Z.of_nat a)%Z && (Z.of_nat j =? Z.of_nat b)%Z
                 || (Z.of_nat i =? Z.of_nat b)%Z && (Z.of_nat j =? Z.of_nat a)%Z) = false).
    { unfold valid in Hp; cbn in Hp. apply orb_false_iff. split; apply andb_false_iff; lia. }
    assert (E' : ((Z.of_nat i =? Z.of_nat b)%Z && (Z.of_nat j =? Z.of_nat a)%Z
                 || (Z.of_nat i =? Z.of_nat a)%Z && (Z.of_nat j =? Z.of_nat b)%Z) = false).
    { unfold valid in Hp; cbn in Hp. apply orb_false_iff. split; apply andb_false_iff; lia. }
    rewrite E, E'. now apply IH.
Qed.

Lemma dense_get_diag ps (a : nat) cur :
  Forall valid ps -> dense_get V (map ent ps) (Z.of_nat a) (Z.of_nat a) cur = cur.
Proof.
  intros Hv. apply dense_get_miss; [exact Hv| |];
    intros Hc; rewrite Forall_forall in Hv; specialize (Hv _ Hc); unfold valid in Hv; cbn in Hv; lia.
Qed.

(* the expected dense matrix: metric below the diagonal, mirrored above, zero on it *)
Definition dense_of : list (list V) :=
  map (fun a => map (fun b => if (b <? a)%nat then d a b else if (a <? b)%nat then d b a else vzero)
                    (seq 0 n)) (seq 0 n).

Lemma complete_iff ps :
  WF (mk ps) ps -> (is_complete V (mk ps) = true <-> forall i j, (j < i < n)%nat -> In (i, j) ps).
Proof.
  intros (_ & _ & Hnd & Hv). unfold is_complete. cbn [mk dm_size dm_entries].
  rewrite map_length, <- lower_tri_length, Z.eqb_eq.
  assert (Hincl : incl ps (lower_tri n)).
  { intros [i j] H. apply lower_tri_In. rewrite Forall_forall in Hv. exact (Hv _ H). }
  split.
  - intros Hlen i j Hij. apply Nat2Z.inj in Hlen.
    apply (@NoDup_length_incl _ ps (lower_tri n) Hnd); [lia|exact Hincl|]. now apply lower_tri_In.
  - intros Hall. f_equal. apply Permutation_length, NoDup_Permutation; [exact Hnd|apply lower_tri_NoDup|].
    intros [i j]. split; [apply Hincl|]. intros H. apply Hall. now apply lower_tri_In.
Qed.

Lemma to_dense_complete ps :
  WF (mk ps) ps -> (forall i j, (j < i < n)%nat -> In (i, j) ps) ->
  to_dense V vzero (mk ps) = Ok dense_of.
Proof.
  intros W Hall. unfold to_dense. pose proof (proj2 (complete_iff ps W) Hall) as Hc. rewrite Hc.
  cbn [negb mk dm_size dm_entries]. rewrite Nat2Z.id. f_equal. unfold dense_of.
  destruct W as (_ & _ & _ & Hv).
  apply map_ext_in. intros a Ha. apply map_ext_in. intros b Hb.
  apply in_seq in Ha, Hb.
  destruct (b <? a)%nat eqn:E1; [apply Nat.ltb_lt in E1|apply Nat.ltb_ge in E1].
  - apply dense_get_hit; [exact Hv|exact E1|apply Hall; lia].
  - destruct (a <? b)%nat eqn:E2; [apply Nat.ltb_lt in E2|apply Nat.ltb_ge in E2].
    + apply dense_get_hit; [exact Hv|exact E2|apply Hall; lia].
    + assert (a = b) by lia. subst. now apply dense_get_diag.
Qed.

Lemma to_dense_incomplete ps i j :
  WF (mk ps) ps -> (j < i < n)%nat -> ~ In (i, j) ps -> to_dense V vzero (mk ps) = Err 5%Z.
Proof.
  intros W Hij Hnin. unfold to_dense.
  destruct (is_complete V (mk ps)) eqn:E; [|reflexivity].
  exfalso. apply Hnin. now apply (proj1 (complete_iff ps W) E).
Qed.

Lemma res_map_all_ok {A B} (f : A -> result B) (g : A -> B) l :
  (forall x, In x l -> f x = Ok (g x)) -> res_map_all f l = Ok (map g l).
Proof.
  induction l as [|a l IH]; intros H; cbn [res_map_all map]; [reflexivity|].
  rewrite (H a) by now left. cbn [res_bind]. rewrite IH by (intros; apply H; now right). reflexivity.
Qed.

Theorem pipeline_assembles (c : nat) (order : list Z) :
  (0 < c)%nat -> order <> [] ->
  (forall k, (k < c)%nat -> In (Z.of_nat k) order) ->
  pipeline V vzero d n (Z.of_nat c) order = Ok dense_of.
Proof.
  intros Hc Hne Hcover. unfold pipeline.
  rewrite (res_map_all_ok _ (fun k => mk (chunk n k (Z.of_nat c)))).
  2:{ intros k _. now rewrite compute_chunk_ok. }
  cbn [res_bind]. rewrite <- (map_map (fun k => chunk n k (Z.of_nat c)) mk).
  destruct (dm_concat_wf (map (fun k => chunk n k (Z.of_nat c)) order)) as (ps' & E & W & Hin).
  - destruct order; [congruence|discriminate].
  - apply Forall_forall. intros ps Hps. apply in_map_iff in Hps as (k & <- & _).
    split; [apply chunk_NoDup|apply chunk_valid].
  - rewrite E. cbn [res_bind]. apply to_dense_complete; [exact W|].
    intros i j Hij. apply Hin.
    assert (Hl : In (i, j) (concat (all_chunks n c))) by (rewrite chunks_concat by exact Hc; now apply lower_tri_In).
    apply in_concat in Hl as (l & Hl & Hp). unfold all_chunks in Hl.
    apply in_map_iff in Hl as (k & <- & Hk). apply in_seq in Hk.
    exists (chunk n (Z.of_nat k) (Z.of_nat c)). split; [|exact Hp].
    apply in_map_iff. exists (Z.of_nat k). split; [reflexivity|apply Hcover; lia].
Qed.

(* a family of chunks that misses a pair is refused *)
Theorem pipeline_refuses_incomplete (c : Z) (order : list Z) i j :
  order <> [] -> (j < i < n)%nat ->
  (forall k, In k order -> ~ In (i, j) (chunk n k c)) ->
  pipeline V vzero d n c order = Err 5%Z.
Proof.
  intros Hne Hij Hmiss. unfold pipeline.
  rewrite (res_map_all_ok _ (fun k => mk (chunk n k c))).
  2:{ intros k _. now rewrite compute_chunk_ok. }
  cbn [res_bind]. rewrite <- (map_map (fun k => chunk n k c) mk).
  destruct (dm_concat_wf (map (fun k => chunk n k c) order)) as (ps' & E & W & Hin).
  - destruct order; [congruence|discriminate].
  - apply Forall_forall. intros ps Hps. apply in_map_iff in Hps as (k & <- & _).
    split; [apply chunk_NoDup|apply chunk_valid].
  - rewrite E. cbn [res_bind]. apply (to_dense_incomplete ps' i j W Hij).
    intros Hc. apply Hin in Hc as (ps & Hps & Hp).
    apply in_map_iff in Hps as (k & <- & Hk). exact (Hmiss k Hk Hp).
Qed.

End Assemble.

(* shape facts about the assembled matrix, for any metric *)
Lemma dense_of_entry {V} (vzero : V) d n a b :
  (a < n)%nat -> (b < n)%nat ->
  nth b (nth a (dense_of V vzero d n) []) vzero
  = if (b <? a)%nat then d a b else if (a <? b)%nat then d b a else vzero.
Proof.
  intros Ha Hb. unfold dense_of.
  rewrite (nth_map_seq _ [] n a Ha), (nth_map_seq _ vzero n b Hb). reflexivity.
Qed.

Theorem dense_of_symmetric {V} (vzero : V) d n a b :
  (a < n)%nat -> (b < n)%nat ->
  nth b (nth a (dense_of V vzero d n) []) vzero = nth a (nth b (dense_of V vzero d n) []) vzero.
Proof.
  intros Ha Hb. rewrite !dense_of_entry by assumption.
  destruct (b <? a)%nat eqn:E1, (a <? b)%nat eqn:E2; try reflexivity.
  apply Nat.ltb_lt in E1, E2. lia.
Qed.

Theorem dense_of_zero_diag {V} (vzero : V) d n a :
  (a < n)%nat -> nth a (nth a (dense_of V vzero d n) []) vzero = vzero.
Proof.
  intros Ha. rewrite dense_of_entry by assumption. now rewrite Nat.ltb_irrefl.
Qed.
