(* C13 / C11: the PRIMITIVES of the retrospective links are theorems.
   The configurations C11_* / C13_* of harness/src_functions.py (Proofs/C11Source.v, C13Source*.v) give a meaning, in the vocabulary
   of Model/Retro.v, to the data.py helpers the generators and smoothers call: Plate.merge -> [Retro.merge], Screen.plates ->
   [plates_of], plate.size -> [plate_size], Plate.__lt__ (through heapq) -> the minimality test of [pop], Screen.combine ->
   [combine_screens], to_screen -> [Retro.to_screen], subset_observed / subset_unobserved, subset, is_observed, unique_sample_ids.
   Those helpers are now translated themselves (Generated/SrcViews.v, Generated/SrcPlates.v) in the vocabulary of Model/Views.v,
   where a Screen object carries its id arrays and mappings and a Plate is a view of it.  This file proves, per primitive, that
   the translation - read through the representation map below - IS the meaning the primitive was given.

   Representation: a Retro screen ([screen_t] = the experiments, no ids) is [s_rows] of a Views screen; a Retro plate ([bvec]) is
   the selection vector [v_sel] of a view whose parent holds those rows.  "Ids are ranks of the sorted names" - the abstraction the
   Retro vocabulary is built on - is the predicate [plate_ids_fresh] / [sample_ids_fresh]: the id array is what the encoder answers
   on the current names without a mapping.  It holds of every screen the constructor builds without a mapping (to_screen,
   combine, the generators' Screen(...) calls) and [merge_keeps_ids_fresh] shows that Plate.merge re-establishes it for the plate
   ids it has just invalidated.
   Side conditions are those of every reachable call: [screen_wf] / [screen_valid] (true of every constructed screen,
   C14_constructed_screens), [view_ok] (true of every view the constructors ScreenSubset / Plate return). *)
From Coq Require Import ZArith List Bool Arith Lia ZifyBool.
From Batchie Require Import Lib.Sexp Lib.PyRt Generated.Consts Model.Encode Model.Screen Model.Views Model.Retro Model.RetroHoldout
  Generated.SrcEncode Generated.SrcViews Generated.SrcPlates
  Proofs.PyRtLemmas Proofs.C01Sort Proofs.C01Encode Proofs.C14Defs Proofs.C14Lists Proofs.C14Unique Proofs.C14Views
  Proofs.C14ToScreen Proofs.C14Source Proofs.C14SourceHelpers.
Import ListNotations.
Open Scope nat_scope.

(* ---------------- ids are ranks of the sorted names ---------------- *)
Definition rank_in (su : list name) (n : name) : Z := Z.of_nat (index_of n su).
Definition plate_ids_fresh (p : screen) : Prop := exists m, encode_names (map r_plate (s_rows p)) None 6%Z = Ok (s_pids p, m).
Definition sample_ids_fresh (p : screen) : Prop := exists m, encode_names (map r_sample (s_rows p)) None 6%Z = Ok (s_sids p, m).

Lemma index_of_lt n (su : list name) : In n su -> index_of n su < length su.
Proof.
  induction su as [|y su IH]; cbn [In index_of length]; [tauto|]. intros H.
  destruct (name_eqb n y) eqn:E; [lia|]. destruct H as [->|H]; [rewrite name_eqb_refl in E; discriminate|]. specialize (IH H). lia.
Qed.

Lemma nth_index_of n (su : list name) : In n su -> nth (index_of n su) su [] = n.
Proof.
  induction su as [|y su IH]; cbn [In index_of]; [tauto|]. intros H.
  destruct (name_eqb n y) eqn:E; [apply name_eqb_eq in E; now subst|].
  destruct H as [->|H]; [rewrite name_eqb_refl in E; discriminate|]. cbn [nth]. now apply IH.
Qed.

Lemma index_of_nth (su : list name) : NoDup su -> forall j, j < length su -> index_of (nth j su []) su = j.
Proof.
  induction su as [|y su IH]; intros ND j Hj; cbn [length] in Hj; [lia|].
  inversion ND as [|? ? Hy ND']; subst. destruct j as [|j]; cbn [nth index_of]; [now rewrite name_eqb_refl|].
  destruct (name_eqb (nth j su []) y) eqn:E.
  - apply name_eqb_eq in E. exfalso. apply Hy. rewrite <- E. apply nth_In. lia.
  - f_equal. apply IH; [exact ND' | lia].
Qed.

Lemma nlookup_number_from su : forall (i : Z) n, In n su ->
  nlookup (number_from i su) n = Some (i + rank_in su n)%Z.
Proof.
  unfold rank_in. induction su as [|y su IH]; intros i n H; cbn [In number_from nlookup index_of] in *; [tauto|].
  destruct (name_eqb n y) eqn:E; [f_equal; lia|].
  destruct H as [->|H]; [rewrite name_eqb_refl in E; discriminate|]. rewrite IH by exact H. f_equal. lia.
Qed.

(* what the encoder answers without a mapping: every name's rank among the sorted distinct names *)
Lemma fresh_ids_are_ranks names tag ids m : encode_names names None tag = Ok (ids, m) ->
  ids = map (rank_in (sort_uniq name_cmp names)) names.
Proof.
  unfold encode_names, build_nmapping. set (su := sort_uniq name_cmp names).
  destruct (opt_map_all (nlookup (number_from 0%Z su)) names) as [r|] eqn:E; [|discriminate]. intros [= <- _].
  apply opt_map_all_Some in E.
  assert (Hin : forall n, In n names -> In n su) by (intros n Hn; now apply (sort_uniq_In name_cmp name_cmp_spec)).
  clearbody su. induction E as [|a b l r Hab _ IH]; cbn [map]; [reflexivity|].
  rewrite nlookup_number_from in Hab by (apply Hin; now left). injection Hab as <-.
  rewrite IH by (intros n Hn; apply Hin; now right). f_equal.
Qed.

Lemma ranks_sorted_unique names :
  let su := sort_uniq name_cmp names in
  sort_uniq Z.compare (map (rank_in su) names) = map Z.of_nat (seq 0 (length su)).
Proof.
  intros su.
  assert (S : SSorted Z.compare (map Z.of_nat (seq 0 (length su)))) by (rewrite <- zseq_0; apply zseq_sorted).
  rewrite <- (sort_uniq_of_sorted Z.compare Zcmp_spec _ S).
  apply (sort_uniq_ext Z.compare Zcmp_spec). intros z. rewrite !in_map_iff. split.
  - intros (n & <- & Hn). exists (index_of n su). split; [reflexivity|]. apply in_seq.
    assert (In n su) by (now apply (sort_uniq_In name_cmp name_cmp_spec)). pose proof (index_of_lt n su H). lia.
  - intros (j & <- & Hj). apply in_seq in Hj. exists (nth j su []). split.
    + unfold rank_in. f_equal. apply index_of_nth; [apply (sort_uniq_NoDup name_cmp name_cmp_spec) | change (j < length su); lia].
    + apply (sort_uniq_In name_cmp name_cmp_spec). apply nth_In. change (j < length su). lia.
Qed.

(* the rows with id j are the rows named by the j-th sorted name *)
Lemma rank_eqb_name names j :
  let su := sort_uniq name_cmp names in j < length su ->
  map (fun x => (x =? Z.of_nat j)%Z) (map (rank_in su) names) = map (fun n => name_eqb n (nth j su [])) names.
Proof.
  intros su Hj. rewrite map_map. apply map_ext_in. intros n Hn.
  assert (Hs : In n su) by (now apply (sort_uniq_In name_cmp name_cmp_spec)).
  assert (ND : NoDup su) by apply (sort_uniq_NoDup name_cmp name_cmp_spec).
  unfold rank_in. destruct (name_eqb n (nth j su [])) eqn:E.
  - apply name_eqb_eq in E. rewrite E, index_of_nth by assumption. apply Z.eqb_refl.
  - apply Z.eqb_neq. intros Q. apply Nat2Z.inj in Q. rewrite <- Q, nth_index_of, name_eqb_refl in E by exact Hs. discriminate.
Qed.

(* ---------------- every constructed screen has fresh plate ids (and fresh sample ids when no mapping is passed) ---------------- *)
Lemma mk_screen_ids_fresh rows ar ctrl tm sm og mg s : mk_screen rows ar ctrl tm sm og mg = Ok s ->
  plate_ids_fresh s /\ (sm = None -> sample_ids_fresh s).
Proof.
  unfold mk_screen.
  destruct (forallb _ rows); cbn [negb]; [|discriminate].
  destruct (negb og && mg); [discriminate|].
  set (rows' := if og then _ else _).
  destruct (plate_uniform rows'); cbn [negb]; [|discriminate].
  destruct (match tm with Some _ => _ | None => false end); [discriminate|].
  destruct (match sm with Some _ => _ | None => false end); [discriminate|].
  destruct (encode_treatments _ ctrl _) as [[tflat tmm]|]; cbn [res_bind]; [|discriminate].
  destruct (encode_names (map r_sample rows') _ 6%Z) as [[sids smm]|] eqn:ES; cbn [res_bind]; [|discriminate].
  destruct (encode_names (map r_plate rows') None 6%Z) as [[pids pmm]|] eqn:EP; cbn [res_bind]; [|discriminate].
  intros [= <-]. unfold plate_ids_fresh, sample_ids_fresh. cbn [s_rows s_pids s_sids]. split; [now exists pmm|].
  intros ->. cbn [option_map] in ES. now exists smm.
Qed.

(* ---------------- list bridges between the two vocabularies ---------------- *)
Lemma bor_vec_vor a b : bor_vec a b = vor a b.
Proof. unfold bor_vec. revert b; induction a as [|x a IH]; intros [|y b]; cbn [combine map vor fst snd]; try reflexivity. now rewrite IH. Qed.

Lemma select_vselect {A} sel (l : list A) : select sel l = vselect sel l.
Proof. reflexivity. Qed.

Lemma with_plate_set_plate nm r : with_plate nm r = set_plate nm r.
Proof. reflexivity. Qed.

Lemma relabel_vrelabel nm : forall sel rows, length sel = length rows -> relabel sel nm rows = vrelabel sel nm rows.
Proof.
  unfold relabel. induction sel as [|b sel IH]; intros [|r rows] H; cbn [length] in H; try discriminate; cbn [combine map vrelabel fst snd];
    [reflexivity|]. rewrite IH by lia. reflexivity.
Qed.

Lemma vcount_select {A} sel (l : list A) : length sel = length l -> length (select sel l) = vcount sel.
Proof.
  revert l; induction sel as [|b sel IH]; intros [|x l] H; cbn [length] in H; try discriminate; cbn [select vcount]; [reflexivity|].
  destruct b; cbn [length]; rewrite IH by lia; lia.
Qed.

Lemma vor_length a b : length a = length b -> length (vor a b) = length a.
Proof. revert b; induction a as [|x a IH]; intros [|y b] H; cbn [length] in H; try discriminate; cbn [vor length]; [reflexivity|]. now rewrite IH by lia. Qed.

(* ---------------- Screen.plates  =  plates_of ---------------- *)
(* the plates of a screen object whose plate ids are fresh are, in order, the selection vectors plates_of lists: one per
   sorted distinct plate NAME; all are views of that object, of the parent's length *)
Theorem src_plates_is_plates_of : forall (tag : Z) (p : screen), screen_wf p -> plate_ids_fresh p ->
  exists vs, src_plates (tag, p) = Ok vs /\ map v_sel vs = plates_of (s_rows p) /\
             Forall (fun v => v_tag v = tag /\ v_parent v = p /\ view_ok v) vs.
Proof.
  intros tag p Hwf (m & Hm). rewrite src_plates_is_model. cbn [fst snd]. rewrite (plates_spec tag p Hwf).
  eexists. split; [reflexivity|]. split.
  - rewrite map_map. cbn [v_sel]. unfold plates_of, plate_names_of, plate_vec, in_plate.
    pose proof (fresh_ids_are_ranks _ _ _ _ Hm) as Hr. rewrite Hr.
    set (names := map r_plate (s_rows p)). set (su := sort_uniq name_cmp names).
    pose proof (ranks_sorted_unique names) as Hs. cbv zeta in Hs. fold su in Hs. rewrite Hs. rewrite map_map.
    rewrite <- (map_nth_seq su []) at 2. rewrite map_map. apply map_ext_in. intros j Hj. apply in_seq in Hj.
    pose proof (rank_eqb_name names j) as He. cbv zeta in He. fold su in He. rewrite He by lia.
    unfold names. now rewrite map_map.
  - apply Forall_forall. intros v Hv. apply in_map_iff in Hv. destruct Hv as (pid & <- & _). cbn [v_tag v_parent].
    repeat split. unfold view_ok. cbn [v_sel v_parent]. rewrite map_length. destruct Hwf as (_ & HP & _). exact HP.
Qed.

(* ---------------- plate.size = plate_size; Plate.__lt__ = the order of pop ---------------- *)
Lemma view_size_vcount v : screen_wf (v_parent v) -> view_ok v -> Z.of_nat (view_size v) = plate_size (v_sel v).
Proof.
  intros _ Hok. unfold view_size, view_tids, plate_size. f_equal. apply vcount_select. exact Hok.
Qed.

Theorem src_view_size_is_plate_size : forall v : view, screen_wf (v_parent v) -> view_ok v ->
  src_view_size v = Ok (plate_size (v_sel v)).
Proof. intros v Hwf Hok. rewrite src_view_size_is_model. f_equal. now apply view_size_vcount. Qed.

Theorem src_plate_lt_is_vcount_lt : forall a b : view, view_ok a -> view_ok b ->
  src_plate_lt a b = Ok (vcount (v_sel a) <? vcount (v_sel b)).
Proof.
  intros a b Ha Hb. rewrite src_plate_lt_is_model. unfold view_lt, view_size, view_tids.
  now rewrite !vcount_select by assumption.
Qed.

(* what [pop] demands of heapq's answer - `forallb (fun w => vcount v <=? vcount w) heap` - is that no plate of the heap is
   smaller than it in the order Plate.__lt__ defines *)
Theorem pop_minimality_is_plate_lt : forall (v : view) (heap : list view), view_ok v -> Forall view_ok heap ->
  forallb (fun w => vcount (v_sel v) <=? vcount w) (map v_sel heap) = true <->
  (forall w, In w heap -> src_plate_lt w v = Ok false).
Proof.
  intros v heap Hv Hh. rewrite forallb_map, forallb_forall. rewrite Forall_forall in Hh. split.
  - intros H w Hw. rewrite src_plate_lt_is_vcount_lt by auto. specialize (H w Hw). f_equal.
    apply Nat.ltb_ge. now apply Nat.leb_le.
  - intros H w Hw. specialize (H w Hw). rewrite src_plate_lt_is_vcount_lt in H by auto. injection H as H.
    apply Nat.leb_le. now apply Nat.ltb_ge.
Qed.

(* ---------------- Plate.merge = Retro.merge ---------------- *)
Lemma encode_names_fresh_total names : exists ids m, encode_names names None 6%Z = Ok (ids, m).
Proof. destruct (encode_names_total names 6%Z) as ([ids m] & H). now exists ids, m. Qed.

(* self.merge(other) on two plates of one screen object, of the parent's length, whose union is not empty (true of any two
   plates Screen.plates returned): it succeeds; the merged plate's selection vector and the parent's rows afterwards are
   the two components of Retro.merge; the parent keeps its identity, everything but the rows and the plate ids is untouched;
   the plate ids are fresh again; the result is a view of the new parent of the right length *)
Theorem src_plate_merge_is_retro_merge : forall self other : view,
  v_tag other = v_tag self -> view_ok self -> length (v_sel other) = length (v_sel self) ->
  screen_wf (v_parent self) -> vselect (vor (v_sel self) (v_sel other)) (s_rows (v_parent self)) <> [] ->
  exists v', src_plate_merge self other = Ok v' /\
    v_sel v' = fst (merge (v_sel self) (v_sel other) (s_rows (v_parent self))) /\
    s_rows (v_parent v') = snd (merge (v_sel self) (v_sel other) (s_rows (v_parent self))) /\
    v_tag v' = v_tag self /\ plate_ids_fresh (v_parent v') /\ screen_wf (v_parent v') /\ view_ok v' /\
    s_sids (v_parent v') = s_sids (v_parent self) /\ s_tids (v_parent v') = s_tids (v_parent self) /\
    s_arity (v_parent v') = s_arity (v_parent self) /\ s_ctrl (v_parent v') = s_ctrl (v_parent self).
Proof.
  intros self other Ht Hok Hl Hwf Hne. rewrite src_plate_merge_is_model. unfold view_merge, merge.
  rewrite Ht, Z.eqb_refl. cbn [negb]. rewrite bor_vec_vor, select_vselect.
  set (sel := vor (v_sel self) (v_sel other)) in *. set (p := v_parent self) in *.
  destruct Hwf as (H1 & H2 & H3 & H4).
  assert (Hsel : length sel = length (s_rows p)).
  { unfold sel. rewrite vor_length by (symmetry; exact Hl). unfold view_ok in Hok. fold p in Hok. congruence. }
  destruct (vselect sel (s_rows p)) as [|r0 rest] eqn:E; [now elim Hne|].
  rewrite Hsel, Nat.eqb_refl. cbn [negb].
  destruct (encode_names_fresh_total (map r_plate (relabel sel (r_plate r0) (s_rows p)))) as (ids & m & Hm).
  rewrite Hm. cbn [res_bind fst]. eexists. split; [reflexivity|]. cbn [v_sel v_parent v_tag fst snd with_rows_pids s_rows s_sids s_tids s_arity s_ctrl].
  rewrite relabel_vrelabel by exact Hsel.
  split; [reflexivity|]. split; [reflexivity|]. split; [reflexivity|].
  split. { exists m. unfold with_rows_pids. cbn [s_rows s_pids]. rewrite <- relabel_vrelabel by exact Hsel. exact Hm. }
  split.
  { unfold screen_wf, screen_size, with_rows_pids. cbn [s_sids s_tids s_pids s_rows s_arity]. split; [exact H1|]. split.
    - rewrite (encode_names_length _ _ _ _ _ Hm), map_length, relabel_length by exact Hsel. exact H3.
    - split; [|exact H4]. rewrite <- relabel_vrelabel, relabel_length by exact Hsel. exact H3. }
  split. { unfold view_ok, screen_size, with_rows_pids. cbn [v_sel v_parent s_tids]. rewrite Hsel. exact H3. }
  repeat split.
Qed.

(* ---------------- Screen.combine = combine_screens ---------------- *)
Definition res_rows (r : result screen) : result (list row) := dor s <- r; Ok (s_rows s).

Lemma mk_screen_not_uniform rows ar ctrl : forallb (fun r => Nat.eqb (length (r_treats r)) ar) rows = true ->
  plate_uniform rows = false -> mk_screen rows ar ctrl None None true true = Err 2%Z.
Proof. intros H1 H2. unfold mk_screen. cbn [negb andb]. rewrite H1, H2. reflexivity. Qed.

(* what a screen built by the constructor without mappings satisfies: the invariants the other theorems of this file ask for *)
Definition fresh_screen (s : screen) : Prop :=
  screen_wf s /\ screen_valid s /\ plate_ids_fresh s /\ sample_ids_fresh s.

Lemma mk_screen_fresh rows ar ctrl s : mk_screen rows ar ctrl None None true true = Ok s -> fresh_screen s.
Proof.
  intros H. split; [eapply mk_screen_wf; exact H|]. split; [eapply mk_screen_valid; exact H|].
  destruct (mk_screen_ids_fresh _ _ _ _ _ _ _ _ H) as [A B]. split; [exact A | now apply B].
Qed.

(* two screens of one arity and control name (true of every pair the wrappers and generators combine: both descend from
   one screen): Screen.combine answers the constructor's refusal of a mixed plate (tag 2) exactly when [construct] does, and
   otherwise a fresh screen whose rows are the two row lists one after the other *)
Theorem src_screen_combine_is_combine_screens : forall a b : pyscreen,
  screen_valid (snd a) -> screen_valid (snd b) -> s_arity (snd b) = s_arity (snd a) -> s_ctrl (snd b) = s_ctrl (snd a) ->
  res_rows (src_screen_combine a b) = combine_screens (s_rows (snd a)) (s_rows (snd b)) /\
  (forall s, src_screen_combine a b = Ok s ->
     fresh_screen s /\ s_arity s = s_arity (snd a) /\ s_ctrl s = s_ctrl (snd a)).
Proof.
  intros [ta a] [tb b]. cbn [snd]. intros [Va _] [Vb _] Har Hc. rewrite src_screen_combine_is_model. cbn [snd].
  unfold screen_combine, combine_screens, construct. rewrite Hc, name_eqb_refl, Har, Nat.eqb_refl. cbn [negb].
  assert (HA : forallb (fun r => Nat.eqb (length (r_treats r)) (s_arity a)) (s_rows a ++ s_rows b) = true).
  { rewrite forallb_app, Va. rewrite <- Har. now rewrite Vb. }
  split.
  - destruct (plate_uniform (s_rows a ++ s_rows b)) eqn:E.
    + destruct (mk_screen_total (s_rows a ++ s_rows b) (s_arity a) (s_ctrl a) (conj HA E)) as (s & Hs). rewrite Hs.
      unfold res_rows. cbn [res_bind]. now rewrite (proj1 (mk_screen_rows _ _ _ _ Hs)).
    + now rewrite (mk_screen_not_uniform _ _ _ HA E).
  - intros s Hs. split; [eapply mk_screen_fresh; exact Hs|]. apply mk_screen_rows in Hs. tauto.
Qed.

(* ---------------- subset / to_screen ---------------- *)
Lemma select_mask_filter {A} (f : A -> bool) l : select (map f l) l = filter f l.
Proof. induction l as [|x l IH]; cbn [map select filter]; [reflexivity|]. now rewrite IH. Qed.

(* Screen.subset(v), v a bool array of the screen's length: the view whose rows are subset_of's *)
Theorem src_screen_subset_is_subset_of : forall (t : Z) (p : screen) (v : bvec), length v = screen_size p ->
  exists w, src_screen_subset (t, p) (true, v) = Ok w /\ view_rows w = subset_of (s_rows p) v /\
            v_tag w = t /\ v_parent w = p /\ v_sel w = v /\ view_ok w.
Proof.
  intros t p v H. rewrite src_screen_subset_is_model. cbn [fst snd]. rewrite (screen_subset_ok t p v H).
  eexists. split; [reflexivity|]. unfold view_rows, subset_of, view_ok. cbn [v_sel v_parent v_tag]. auto.
Qed.

(* ScreenSubset.to_screen() on a view of a valid screen: never refused; the new screen's rows are the selected rows
   (Retro.to_screen is the identity on them), and it is a fresh screen of the parent's arity and control name *)
Theorem src_to_screen_is_retro_to_screen : forall v : view, screen_valid (v_parent v) ->
  exists s, src_to_screen v = Ok s /\ s_rows s = Retro.to_screen (subset_of (s_rows (v_parent v)) (v_sel v)) /\
            fresh_screen s /\ s_arity s = s_arity (v_parent v) /\ s_ctrl s = s_ctrl (v_parent v).
Proof.
  intros v Hv. rewrite src_to_screen_is_model. destruct (to_screen_total v Hv) as (s & Hs). exists s. split; [exact Hs|].
  pose proof (mk_screen_fresh _ _ _ _ Hs) as Hf. apply to_screen_rows in Hs. destruct Hs as (H1 & H2 & H3 & _).
  unfold Retro.to_screen, subset_of. rewrite H1. auto.
Qed.

(* ---------------- subset_unobserved / subset_observed ---------------- *)
Lemma existsb_id_map_filter {A} (f : A -> bool) l : existsb (fun b : bool => b) (map f l) = negb (is_nil (filter f l)).
Proof. induction l as [|x l IH]; cbn [map existsb filter]; [reflexivity|]. destruct (f x); [reflexivity | exact IH]. Qed.

Lemma is_nil_same {A} (l : list A) : PyRt.is_nil l = Retro.is_nil l.
Proof. destruct l; reflexivity. Qed.

Theorem src_subset_unobserved_is_retro : forall (t : Z) (p : screen), screen_wf p ->
  exists o, src_subset_unobserved (t, p) = Ok o /\ option_map view_rows o = Retro.subset_unobserved (s_rows p) /\
            (forall w, o = Some w -> v_tag w = t /\ v_parent w = p /\ view_ok w).
Proof.
  intros t p (_ & _ & HR & _). rewrite src_subset_unobserved_is_model. cbn [fst snd].
  unfold Views.subset_unobserved, Retro.subset_unobserved, unobserved, screen_mask. rewrite map_map, existsb_id_map_filter.
  destruct (filter (fun r => negb (r_mask r)) (s_rows p)) as [|r0 rest] eqn:E; cbn [PyRt.is_nil Retro.is_nil negb opt_result].
  - exists None. repeat split; discriminate.
  - rewrite screen_subset_ok by (now rewrite map_length). cbn [res_bind]. eexists. split; [reflexivity|].
    cbn [option_map]. unfold view_rows. cbn [v_sel v_parent]. rewrite select_mask_filter, E. split; [reflexivity|].
    intros w [= <-]. unfold view_ok. cbn [v_sel v_parent v_tag]. now rewrite map_length.
Qed.

Theorem src_subset_observed_is_retro : forall (t : Z) (p : screen), screen_wf p ->
  exists o, src_subset_observed (t, p) = Ok o /\ option_map view_rows o = Retro.subset_observed (s_rows p) /\
            (forall w, o = Some w -> v_tag w = t /\ v_parent w = p /\ view_ok w).
Proof.
  intros t p (_ & _ & HR & _). rewrite src_subset_observed_is_model. cbn [fst snd].
  unfold Views.subset_observed, Retro.subset_observed, observed, screen_mask. rewrite existsb_id_map_filter.
  destruct (filter r_mask (s_rows p)) as [|r0 rest] eqn:E; cbn [PyRt.is_nil Retro.is_nil negb opt_result].
  - exists None. repeat split; discriminate.
  - rewrite screen_subset_ok by (now rewrite map_length). cbn [res_bind]. eexists. split; [reflexivity|].
    cbn [option_map]. unfold view_rows. cbn [v_sel v_parent]. rewrite select_mask_filter, E. split; [reflexivity|].
    intros w [= <-]. unfold view_ok. cbn [v_sel v_parent v_tag]. now rewrite map_length.
Qed.

(* ---------------- is_observed ---------------- *)
(* screen.is_observed (C13_INITIAL_WRAPPER: `forallb r_mask`) and plate.is_observed (C11_BALANCED_HOLDOUT: [vec_observed]) *)
Theorem src_is_observed_is_retro :
  (forall s : pyscreen, src_screen_is_observed s = Ok (forallb r_mask (s_rows (snd s)))) /\
  (forall v : view, src_view_is_observed v = Ok (vec_observed (v_sel v) (s_rows (v_parent v)))).
Proof.
  split; [intros s; exact (proj1 (src_screen_props_are_model s))|].
  intros v. rewrite (proj1 (proj2 (src_view_props_are_model v))). unfold view_is_observed, view_mask, vec_observed.
  now rewrite select_map, forallb_map.
Qed.

(* ---------------- unique_sample_ids / n_unique_samples ---------------- *)
(* on a screen whose sample ids are fresh (any to_screen() / combine result - what every generator and smoother is handed):
   the unique sample ids are 0 .. k-1, k the number of distinct sample names; id j stands for the j-th name of
   [sample_names] (the list the Retro vocabulary iterates over instead): the rows with sample id j are the rows of that sample *)
Theorem src_unique_sample_ids_are_sample_names : forall s : pyscreen, sample_ids_fresh (snd s) ->
  let names := sample_names (s_rows (snd s)) in
  src_screen_unique_sample_ids s = Ok (map Z.of_nat (seq 0 (length names))) /\
  src_screen_n_unique_samples s = Ok (zlen names) /\
  (forall j, j < length names ->
     map (fun x => (x =? Z.of_nat j)%Z) (s_sids (snd s)) = map (in_sample (nth j names [])) (s_rows (snd s))).
Proof.
  intros s (m & Hm) names. pose proof (fresh_ids_are_ranks _ _ _ _ Hm) as Hr.
  destruct (src_screen_props_are_model s) as (_ & _ & H3 & H4 & _). rewrite H3, H4. unfold screen_unique_sids.
  unfold names, sample_names. set (sn := map r_sample (s_rows (snd s))) in *. rewrite Hr.
  pose proof (ranks_sorted_unique sn) as Hs. cbv zeta in Hs. rewrite Hs.
  split; [reflexivity|]. split; [unfold zlen; now rewrite map_length, seq_length|].
  intros j Hj. pose proof (rank_eqb_name sn j) as He. cbv zeta in He. rewrite He by exact Hj.
  unfold sn. rewrite map_map. reflexivity.
Qed.

(* ---------------- plate.unique_sample_ids: the ranks of plate_unique_samples ---------------- *)
(* ranks in a strictly sorted list are strictly monotone *)
Lemma rank_monotone (su : list name) : SSorted name_cmp su -> forall a b, In a su -> In b su ->
  name_cmp a b = Lt -> index_of a su < index_of b su.
Proof.
  induction su as [|y su IH]; intros HS a b Ha Hb Hlt; [destruct Ha|].
  inversion HS as [|? ? HS' Hall]; subst. rewrite Forall_forall in Hall. cbn [index_of].
  destruct (name_eqb a y) eqn:Ea.
  - apply name_eqb_eq in Ea. subst a. destruct (name_eqb b y) eqn:Eb; [|lia].
    apply name_eqb_eq in Eb. subst b. exfalso. exact (lt_irrefl name_cmp name_cmp_spec y Hlt).
  - destruct Ha as [->|Ha]; [rewrite name_eqb_refl in Ea; discriminate|].
    destruct (name_eqb b y) eqn:Eb.
    + apply name_eqb_eq in Eb. subst b. exfalso. apply (lt_irrefl name_cmp name_cmp_spec a).
      eapply (cmp_trans _ name_cmp_spec); [exact Hlt | exact (Hall a Ha)].
    + destruct Hb as [->|Hb]; [rewrite name_eqb_refl in Eb; discriminate|]. specialize (IH HS' a b Ha Hb Hlt). lia.
Qed.

Lemma map_rank_sorted (su l : list name) : SSorted name_cmp su -> (forall x, In x l -> In x su) -> SSorted name_cmp l ->
  SSorted Z.compare (map (rank_in su) l).
Proof.
  intros HS Hin Hl. induction Hl as [|a l Hl' IH Hall]; cbn [map]; [constructor|].
  constructor; [apply IH; intros x Hx; apply Hin; now right|].
  rewrite Forall_forall in *. intros z Hz. apply in_map_iff in Hz. destruct Hz as (b & <- & Hb).
  unfold C01Sort.lt, rank_in. apply Z.compare_lt_iff. apply Nat2Z.inj_lt.
  apply rank_monotone; [exact HS | apply Hin; now left | apply Hin; now right | exact (Hall b Hb)].
Qed.

(* np.unique of ranks = ranks of np.unique of names *)
Lemma sort_uniq_ranks (su l : list name) : SSorted name_cmp su -> (forall x, In x l -> In x su) ->
  sort_uniq Z.compare (map (rank_in su) l) = map (rank_in su) (sort_uniq name_cmp l).
Proof.
  intros HS Hin.
  rewrite <- (sort_uniq_of_sorted Z.compare Zcmp_spec (map (rank_in su) (sort_uniq name_cmp l))).
  - apply (sort_uniq_ext Z.compare Zcmp_spec). intros z. rewrite !in_map_iff.
    split; intros (n & Hz & Hn); exists n; (split; [exact Hz|]); now apply (sort_uniq_In name_cmp name_cmp_spec).
  - apply map_rank_sorted; [exact HS | | apply (sort_uniq_sorted name_cmp name_cmp_spec)].
    intros x Hx. apply Hin. exact (proj1 (sort_uniq_In name_cmp name_cmp_spec l x) Hx).
Qed.

Lemma In_vselect {A} sel (l : list A) x : In x (vselect sel l) -> In x l.
Proof. rewrite <- select_vselect. apply In_select. Qed.

(* plate.unique_sample_ids of a plate of a screen with fresh sample ids: the ranks (among the screen's sorted sample names) of
   [plate_unique_samples] - so `len(...) != 1` and `...[0]` in _get_plate_sample_id speak of the same sample *)
Theorem src_view_unique_sample_ids_are_plate_unique_samples : forall v : view, sample_ids_fresh (v_parent v) ->
  src_view_unique_sample_ids v
  = Ok (map (rank_in (sample_names (s_rows (v_parent v)))) (plate_unique_samples (v_sel v) (s_rows (v_parent v)))).
Proof.
  intros v (m & Hm). destruct (src_view_props_are_model v) as (_ & _ & _ & H4 & _). rewrite H4. f_equal.
  unfold view_unique_sids, view_sids, plate_unique_samples, sample_names.
  rewrite (fresh_ids_are_ranks _ _ _ _ Hm), !select_map, select_vselect.
  apply sort_uniq_ranks; [apply (sort_uniq_sorted name_cmp name_cmp_spec)|].
  intros x Hx. apply (sort_uniq_In name_cmp name_cmp_spec). apply in_map_iff in Hx. destruct Hx as (r & <- & Hr).
  apply in_map. eapply In_vselect. exact Hr.
Qed.
