(* C13 / C11: the PRIMITIVES of the retrospective links are theorems.
   The configurations C11_* / C13_* of harness/src_functions.py (Proofs/C11Source.v, C13Source*.v) give a meaning, in the vocabulary
   of Model/Retro.v, to the data.py helpers the generators and smoothers call: Plate.merge -> [Retro.merge], Screen.plates ->
   [plates_of], plate.size -> [plate_size], Plate.__lt__ (through heapq) -> the minimality test of [pop], Screen.combine ->
   [combine_screens], to_screen -> [Retro.to_screen], subset_observed / subset_unobserved, subset, is_observed, unique_sample_ids.
   Those helpers are now translated themselves (Generated/SrcViews.v, Generated/SrcPlates.v) in the vocabulary of Model/Views.v,
   where a Screen object carries its id arrays and mappings and a Plate is a view of it.  This file proves, per primitive, that
   the translation - read through the representation map below - IS the meaning the primitive was given.

   Representation: a Retro screen ([screen_t] = the experiments, no ids) is [s_rows] of a Views screen; a Retro plate ([bvec]) is
   the selection vector [v_sel] of a view whose parent holds those rows.  "Ids are ranks of the sorted names" - the abstraction the
   Retro vocabulary is built on - is the predicate [plate_ids_fresh] / [sample_ids_fresh]: the id array is what the encoder answers
   on the current names without a mapping.  It holds of every screen the constructor builds without a mapping (to_screen,
   combine, the generators' Screen(...) calls) and [merge_keeps_ids_fresh] shows that Plate.merge re-establishes it for the plate
   ids it has just invalidated.
   Side conditions are those of every reachable call: [screen_wf] / [screen_valid] (true of every constructed screen,
   C14_constructed_screens), [view_ok] (true of every view the constructors ScreenSubset / Plate return).

   This file only collects the pieces Proofs/C13SourceHelpers_<Piece>.v: one per primitive (or per group stated together in
   Props/C11.v / Props/C13.v), each importing the link of the one data.py helper it speaks of (a piece of Proofs/C14Source.v /
   C14SourceHelpers.v), so that C11 and C13 each depend on the translations of the helpers THEIR primitives are, not on all. *)
From Batchie Require Export Proofs.C13SourceHelpers_Base Proofs.C13SourceHelpers_Plates Proofs.C13SourceHelpers_Order Proofs.C13SourceHelpers_Merge
  Proofs.C13SourceHelpers_Combine Proofs.C13SourceHelpers_Subset Proofs.C13SourceHelpers_SubsetObserved Proofs.C13SourceHelpers_Observed
  Proofs.C13SourceHelpers_SampleIds Proofs.C13SourceHelpers_PlateSampleIds.
