(* C06: SizeScorer.score (scoring/size.py), re-translated from /repo on every run (Generated/SrcScoring.v, configuration
   L10B_SIZE_SCORER), is the model's size_scorer on every plates dict (keys distinct, as in any Python dict). *)
From Coq Require Import ZArith List Bool Lia.
From Batchie Require Import Lib.Sexp Lib.PyRt Model.Scores Generated.SrcScoring Proofs.PyRtLemmas.
Import ListNotations.
Open Scope Z_scope.

Lemma size_fold_ext (l : list (Z * subset)) (d : list (Z * Z)) :
  fold_left (fun d0 '(k, plate) => dict_set d0 k (Z.of_nat (length (plate : subset)))) l d
  = fold_left (fun d0 x => dict_set d0 (fst x) (Z.of_nat (length (snd x)))) l d.
Proof. revert d. induction l as [|[k p] l IH]; intros d; cbn [fold_left fst snd]; [reflexivity | apply IH]. Qed.

(* for ANY association list: the comprehension inserts from the left *)
Theorem src_size_scorer_general : forall plates : list (Z * subset),
  src_size_scorer_score plates
  = Ok (fold_left (fun d x => dict_set d (fst x) (Z.of_nat (length (snd x)))) plates []).
Proof. intros plates. unfold src_size_scorer_score. now rewrite size_fold_ext. Qed.

Theorem src_size_scorer_is_model : forall plates : list (Z * subset),
  NoDup (map fst plates) -> src_size_scorer_score plates = Ok (size_scorer plates).
Proof.
  intros plates H. rewrite src_size_scorer_general.
  rewrite (fold_dict_set_distinct (fun x : Z * subset => fst x) (fun x => Z.of_nat (length (snd x)))) by exact H.
  reflexivity.
Qed.
