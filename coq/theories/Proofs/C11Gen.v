(* C11: every shipped generator conserves the experiments (any oracle answers). *)
From Coq Require Import ZArith List Bool Arith Lia Permutation.
From Batchie Require Import Lib.Sexp Model.Encode Model.Screen Model.Retro Model.Pairwise Proofs.C11Lib.
Import ListNotations.
Open Scope nat_scope.

Lemma unmasked_filter : forall f rows, unmasked rows -> unmasked (filter f rows).
Proof.
  intros f rows H. apply Forall_forall. intros r Hr. apply filter_In in Hr as [Hr _].
  unfold unmasked in H. rewrite Forall_forall in H. now apply H.
Qed.

Lemma take_names_ok : forall ds l ds', take_names ds = Ok (l, ds') -> ds = DNames l :: ds'.
Proof. intros [|[l0|l0] ds] l ds' H; cbn in H; congruence. Qed.
Lemma take_ints_ok : forall ds l ds', take_ints ds = Ok (l, ds') -> ds = DInts l :: ds'.
Proof. intros [|[l0|l0] ds] l ds' H; cbn in H; congruence. Qed.

Lemma plate_perm_conserves : forall force u ds nu ds',
  unmasked u -> plate_perm force u ds = Ok (nu, ds') -> Permutation (map strip nu) (map strip u).
Proof.
  intros force u ds nu ds' Hu H. unfold plate_perm in H.
  destruct (take_names ds) as [[names ds1]|t] eqn:Et; cbn [res_bind] in H; [|discriminate].
  set (keepf := fun r : row => if is_nil force then true else negb (name_mem (r_plate r) force)) in *.
  destruct (negb (length names =? length (filter keepf u))) eqn:El; [discriminate|].
  apply negb_false_iff, Nat.eqb_eq in El.
  match type of H with (dor c <- construct ?x; _) = _ => destruct (construct x) as [c|t] eqn:Ec end;
    cbn [res_bind] in H; [|discriminate].
  apply construct_ok in Ec. inversion H; subst c nu ds'. clear H.
  rewrite map_app, combine_relabel_strip by (auto using unmasked_filter).
  rewrite <- map_app. apply Permutation_map. apply filter_partition.
Qed.

Lemma sample_seg_conserves : forall fixed mx u ds nu ds',
  sample_seg fixed mx u ds = Ok (nu, ds') -> map strip nu = map strip u.
Proof.
  intros fixed mx u ds nu ds' H. unfold sample_seg in H.
  destruct (ss_plates fixed mx u (sample_names u) ds) as [[pis ds1]|t]; cbn [res_bind] in H; [|discriminate].
  match type of H with (dor c <- construct ?x; _) = _ => destruct (construct x) as [c|t] eqn:Ec end;
    cbn [res_bind] in H; [|discriminate].
  apply construct_ok in Ec. inversion H; subst c nu ds'.
  apply (relabel_conserves (fun i _ => label_of pis i)).
Qed.

Lemma opt_map_all_length {A B} (f : A -> option B) : forall l l', opt_map_all f l = Some l' -> length l' = length l.
Proof.
  induction l as [|a l IH]; intros l' H; cbn [opt_map_all] in H.
  - inversion H. reflexivity.
  - destruct (f a) as [b|]; cbn [opt_bind] in H; [|discriminate].
    destruct (opt_map_all f l) as [bs|]; cbn [opt_bind] in H; [|discriminate].
    inversion H. cbn [length]. f_equal. now apply IH.
Qed.

Lemma assign_v_length : forall v vals names, length (assign_v v vals names) = length names.
Proof.
  induction v as [|b v IH]; intros vals [|x names]; cbn [assign_v length]; try reflexivity.
  destruct b; [destruct vals|]; cbn [length]; now rewrite IH.
Qed.

Lemma pw_singles_length : forall samples srows co names ds names' ds',
  pw_singles samples srows co names ds = Ok (names', ds') -> length names' = length names.
Proof.
  induction samples as [|s samples IH]; intros srows co names ds names' ds' H; cbn [pw_singles] in H.
  - now inversion H.
  - destruct (is_nil _); [discriminate|].
    destruct (take_names ds) as [[asg ds1]|t]; cbn [res_bind] in H; [|discriminate].
    destruct (negb _); [discriminate|]. destruct (negb _); [discriminate|].
    apply IH in H. now rewrite assign_v_length in H.
Qed.

Lemma pairwise_conserves : forall ctrl subset anchor u ds nu ds',
  unmasked u -> pairwise ctrl subset anchor u ds = Ok (nu, ds') -> Permutation (map strip nu) (map strip u).
Proof.
  intros ctrl subset anchor u ds nu ds' Hu H. unfold pairwise in H.
  destruct (pw_groupings _ _ _ _) as [[gs ds1]|t]; cbn [res_bind] in H; [|discriminate].
  destruct (take_ints ds1) as [[ctl ds2]|t]; cbn [res_bind] in H; [|discriminate].
  destruct (negb (is_nil ctl)); [discriminate|].
  match type of H with match ?x with _ => _ end = _ => destruct x as [tuples|] eqn:Et end; [|discriminate].
  apply opt_map_all_length in Et.
  match type of H with (dor c <- construct ?x; _) = _ => destruct (construct x) as [co|t] eqn:Ec end;
    cbn [res_bind] in H; [|discriminate].
  apply construct_ok in Ec.
  assert (Hco : map strip co = map strip (filter (is_combo ctrl) u)).
  { subst co. apply (combine_relabel_strip_gen (fun t => gen_name (index_of t (sort_uniq name_cmp tuples))));
      [exact Et|now apply unmasked_filter]. }
  destruct (is_nil (filter (fun r => negb (is_combo ctrl r)) u)) eqn:En.
  - apply is_nil_true in En. inversion H; subst nu ds'. rewrite Hco.
    apply Permutation_map.
    etransitivity; [|apply (filter_partition (is_combo ctrl) u)]. now rewrite En, app_nil_r.
  - destruct (pw_singles _ _ _ _ _) as [[names ds3]|t] eqn:Es; cbn [res_bind] in H; [|discriminate].
    apply pw_singles_length in Es. rewrite map_length in Es.
    match type of H with (dor c <- construct ?x; _) = _ => destruct (construct x) as [so|t] eqn:Ec2 end;
      cbn [res_bind] in H; [|discriminate].
    apply construct_ok in Ec2.
    match type of H with (dor c <- construct ?x; _) = _ => destruct (construct x) as [al|t] eqn:Ec3 end;
      cbn [res_bind] in H; [|discriminate].
    apply construct_ok in Ec3. inversion H; subst nu ds' al.
    rewrite map_app, Hco. subst so. rewrite combine_relabel_strip by (auto using unmasked_filter).
    rewrite <- map_app. apply Permutation_map. apply filter_partition.
Qed.

Lemma generate_inner_conserves : forall g u ds nu ds',
  unmasked u -> generate_inner g u ds = Ok (nu, ds') -> Permutation (map strip nu) (map strip u).
Proof.
  intros [force|fx mx|ctrl sb an] u ds nu ds' Hu H; cbn [generate_inner] in H.
  - eapply plate_perm_conserves; eassumption.
  - apply sample_seg_conserves in H. now rewrite H.
  - eapply pairwise_conserves; eassumption.
Qed.

Lemma unmasked_of_perm_strip : forall a b, Permutation (map strip a) (map strip b) -> unmasked b -> unmasked a.
Proof.
  intros a b HP Hb. apply Forall_forall. intros r Hr.
  assert (Hin : In (strip r) (map strip b)).
  { eapply Permutation_in; [exact HP|]. now apply in_map. }
  apply in_map_iff in Hin as (r' & E & Hr'). unfold unmasked in Hb. rewrite Forall_forall in Hb.
  rewrite <- (strip_mask _ _ E). now apply Hb.
Qed.

Theorem generator_conserves : forall g rows ds out ds',
  generate_plates g rows ds = Ok (out, ds') ->
  exists nu, out = nu ++ observed rows
             /\ Forall (fun r => r_mask r = false) nu
             /\ Permutation (map strip nu) (map strip (unobserved rows)).
Proof.
  intros g rows ds out ds' H. apply wrap_ok in H as [(E & -> & _)|(_ & nu & Hf & ->)].
  - exists []. rewrite E. cbn [app map]. repeat split; [now rewrite observed_all|constructor|constructor].
  - exists nu. pose proof (generate_inner_conserves _ _ _ _ _ (unmasked_unobserved rows) Hf) as HP.
    repeat split; [|exact HP]. eapply unmasked_of_perm_strip; [exact HP|apply unmasked_unobserved].
Qed.

(* generic skeleton: ANY labelling oracle *)
Theorem relabel_any_conserves : forall (labels : nat -> row -> name) rows,
  map strip (map (fun ir => set_plate (labels (fst ir) (snd ir)) (snd ir)) (enum_from 0 rows)) = map strip rows.
Proof. intros. apply relabel_conserves. Qed.
