(* Index-vector selection: np.isin(arange(n), idx), OR of such vectors, and how many rows of a
   plate a selection built from per-plate index lists keeps.  Used by C11 (hold-out counts) and
   C13 (common plate size). *)
From Coq Require Import ZArith List Bool Arith Lia Permutation.
From Batchie Require Import Lib.Sexp Model.Encode Model.Screen Model.Retro Proofs.C11Lib.
Import ListNotations.
Open Scope nat_scope.

Lemma memb_In : forall i l, memb i l = true <-> In i l.
Proof.
  intros i l. unfold memb. rewrite existsb_exists. split.
  - intros (x & Hx & E). apply Nat.eqb_eq in E. now subst.
  - intros H. exists i. split; [exact H|apply Nat.eqb_refl].
Qed.
Lemma memb_app : forall i a b, memb i (a ++ b) = memb i a || memb i b.
Proof. intros. unfold memb. apply existsb_app. Qed.

Definition vof_from (k n : nat) (idx : list nat) : bvec := map (fun i => memb i idx) (seq k n).
Lemma vof_idx_from : forall n idx, vof_idx n idx = vof_from 0 n idx.
Proof. reflexivity. Qed.

Lemma vor_vof_from : forall n k a b, vor (vof_from k n a) (vof_from k n b) = vof_from k n (a ++ b).
Proof.
  induction n as [|n IH]; intros k a b; cbn [vof_from seq map vor]; [reflexivity|].
  rewrite memb_app. f_equal. apply IH.
Qed.
Lemma vor_vof_idx : forall n a b, vor (vof_idx n a) (vof_idx n b) = vof_idx n (a ++ b).
Proof. intros. apply vor_vof_from. Qed.

Lemma repeat_false_vof : forall n k, repeat false n = vof_from k n [].
Proof. induction n as [|n IH]; intros k; cbn [repeat vof_from seq map]; [reflexivity|]. f_equal. apply IH. Qed.
Lemma repeat_false_vof_idx : forall n, repeat false n = vof_idx n [].
Proof. intros. apply repeat_false_vof. Qed.

Lemma vof_idx_length : forall n idx, length (vof_idx n idx) = n.
Proof. intros. unfold vof_idx. now rewrite map_length, seq_length. Qed.

(* selection by an index vector = filter on the enumerated rows *)
Lemma vselect_vof_from {A} : forall (l : list A) k K,
  vselect (vof_from k (length l) K) l = map snd (filter (fun ir => memb (fst ir) K) (enum_from k l)).
Proof.
  induction l as [|a l IH]; intros k K; cbn [length vof_from seq map vselect enum_from filter fst]; [reflexivity|].
  destruct (memb k K); cbn [map snd]; [f_equal|]; apply IH.
Qed.
Lemma vselect_vof_idx {A} : forall (l : list A) K,
  vselect (vof_idx (length l) K) l = map snd (filter (fun ir => memb (fst ir) K) (enum_from 0 l)).
Proof. intros. apply vselect_vof_from. Qed.

(* idx_where *)
Lemma In_idx_where : forall f rows i,
  In i (idx_where f rows) <-> exists r, nth_error rows i = Some r /\ f r = true.
Proof.
  intros f rows i. unfold idx_where. rewrite in_map_iff. split.
  - intros ([j r] & E & Hin). cbn in E. subst j. apply filter_In in Hin as [Hin Hf]. cbn in Hf.
    apply In_enum_from in Hin as [_ Hn]. rewrite Nat.sub_0_r in Hn. eauto.
  - intros (r & Hn & Hf). exists (i, r). split; [reflexivity|]. apply filter_In. split; [|exact Hf].
    apply In_enum_from. rewrite Nat.sub_0_r. split; [lia|exact Hn].
Qed.

Lemma NoDup_map_fst_filter {A B} (g : A * B -> bool) : forall l : list (A * B),
  NoDup (map fst l) -> NoDup (map fst (filter g l)).
Proof.
  induction l as [|x l IH]; intros H; cbn [filter map]; [constructor|].
  cbn [map] in H. inversion H as [|? ? Hn Hd]; subst.
  destruct (g x); cbn [map]; [|now apply IH]. constructor; [|now apply IH].
  intros Hin. apply Hn. apply in_map_iff in Hin as (y & E & Hy). apply filter_In in Hy as [Hy _].
  apply in_map_iff. eauto.
Qed.

Lemma NoDup_enum_fst {A} : forall (l : list A) k, NoDup (map fst (enum_from k l)).
Proof. intros. rewrite enum_from_fst. apply seq_NoDup. Qed.

Lemma NoDup_idx_where : forall f rows, NoDup (idx_where f rows).
Proof. intros. unfold idx_where. apply NoDup_map_fst_filter, NoDup_enum_fst. Qed.

Lemma idx_where_length : forall f rows, length (idx_where f rows) = length (filter f rows).
Proof.
  intros f rows. unfold idx_where. rewrite map_length. generalize 0.
  induction rows as [|r rows IH]; intros k; cbn [enum_from filter snd]; [reflexivity|].
  destruct (f r); cbn [length]; now rewrite IH.
Qed.

Lemma vcount_map : forall (f : row -> bool) rows, vcount (map f rows) = length (filter f rows).
Proof.
  induction rows as [|r rows IH]; cbn [map vcount filter]; [reflexivity|].
  destruct (f r); cbn [length]; now rewrite IH.
Qed.

Lemma nth_map_some {A B} (f : A -> B) : forall l i a d, nth_error l i = Some a -> nth i (map f l) d = f a.
Proof. intros l i a d H. apply nth_error_nth. now apply map_nth_error. Qed.

Lemma map_vof_idx : forall (f : row -> bool) rows, map f rows = vof_idx (length rows) (idx_where f rows).
Proof.
  intros f rows. unfold vof_idx.
  apply nth_ext with (d := false) (d' := false).
  - now rewrite !map_length, seq_length.
  - intros i Hi. rewrite map_length in Hi.
    destruct (nth_error rows i) as [r|] eqn:Hn; [|apply nth_error_None in Hn; lia].
    rewrite (nth_map_some f rows i r false Hn).
    assert (Hs : nth_error (seq 0 (length rows)) i = Some i).
    { rewrite (nth_error_nth' _ 0) by now rewrite seq_length. now rewrite seq_nth. }
    rewrite (nth_map_some _ _ i i false Hs).
    destruct (f r) eqn:E.
    + symmetry. apply memb_In, In_idx_where. eauto.
    + symmetry. apply not_true_is_false. intros Hm. apply memb_In, In_idx_where in Hm as (r' & Hr & Hf).
      congruence.
Qed.

Lemma plate_vec_vof : forall p rows, plate_vec p rows = vof_idx (length rows) (idx_where (in_plate p) rows).
Proof. intros. apply map_vof_idx. Qed.

(* how many selected rows satisfy P *)
Definition sel_count (K : list nat) (P : row -> bool) (rows : list row) : nat :=
  length (filter P (vselect (vof_idx (length rows) K) rows)).

Lemma filter_map_snd {A} (P : A -> bool) : forall (l : list (nat * A)),
  filter P (map snd l) = map snd (filter (fun ir => P (snd ir)) l).
Proof.
  induction l as [|x l IH]; cbn [map filter]; [reflexivity|]. destruct (P (snd x)); cbn [map]; now rewrite IH.
Qed.

Lemma sel_count_spec : forall K P rows c,
  NoDup c ->
  (forall i, In i c <-> In i K /\ exists r, nth_error rows i = Some r /\ P r = true) ->
  sel_count K P rows = length c.
Proof.
  intros K P rows c Hnd Hc. unfold sel_count. rewrite vselect_vof_idx, filter_map_snd, filter_filter'.
  rewrite map_length, <- (map_length fst).
  apply Permutation_length. apply NoDup_Permutation.
  - apply NoDup_map_fst_filter, NoDup_enum_fst.
  - exact Hnd.
  - intros i. rewrite Hc, in_map_iff. split.
    + intros ([j r] & E & Hin). cbn in E. subst j. apply filter_In in Hin as [Hin Hg]. cbn [fst snd] in Hg.
      apply andb_true_iff in Hg as [Hk Hp]. apply In_enum_from in Hin as [_ Hn]. rewrite Nat.sub_0_r in Hn.
      split; [now apply memb_In|eauto].
    + intros (Hk & r & Hn & Hp). exists (i, r). split; [reflexivity|]. apply filter_In. split.
      * apply In_enum_from. rewrite Nat.sub_0_r. split; [lia|exact Hn].
      * cbn [fst snd]. apply andb_true_iff. split; [now apply memb_In|exact Hp].
Qed.

(* per-plate index lists *)
Definition plate_assoc_ok (rows : list row) (assoc : list (name * list nat)) : Prop :=
  NoDup (map fst assoc) /\
  forall q d, In (q, d) assoc -> NoDup d /\ incl d (idx_where (in_plate q) rows).

Lemma assoc_functional {A} : forall (assoc : list (name * A)) p c d,
  NoDup (map fst assoc) -> In (p, d) assoc -> In (p, c) assoc -> d = c.
Proof.
  induction assoc as [|[k v] assoc IH]; intros p c d Hnd Hq Hc; [contradiction|].
  cbn [map fst] in Hnd. inversion Hnd as [|? ? Hn Hd]; subst.
  destruct Hq as [Hq|Hq]; destruct Hc as [Hc|Hc].
  - congruence.
  - inversion Hq; subst. exfalso. apply Hn. apply in_map_iff. exists (p, c). split; [reflexivity|exact Hc].
  - inversion Hc; subst. exfalso. apply Hn. apply in_map_iff. exists (p, d). split; [reflexivity|exact Hq].
  - eapply IH; eassumption.
Qed.

Lemma sel_count_assoc : forall rows assoc p,
  plate_assoc_ok rows assoc ->
  (forall c, In (p, c) assoc -> sel_count (concat (map snd assoc)) (in_plate p) rows = length c) /\
  (~ In p (map fst assoc) -> sel_count (concat (map snd assoc)) (in_plate p) rows = 0).
Proof.
  intros rows assoc p [Hnd Hok]. split.
  - intros c Hc. apply sel_count_spec; [apply (Hok _ _ Hc)|].
    intros i. split.
    + intros Hi. split.
      * apply in_concat. exists c. split; [|exact Hi]. apply in_map_iff. exists (p, c). auto.
      * destruct (Hok _ _ Hc) as [_ Hincl]. apply Hincl, In_idx_where in Hi. exact Hi.
    + intros (HK & r & Hn & Hp). apply in_concat in HK as (d & Hd & Hid).
      apply in_map_iff in Hd as ([q d'] & E & Hq). cbn in E. subst d'.
      destruct (Hok _ _ Hq) as [_ Hincl]. pose proof (Hincl _ Hid) as Hid2. apply In_idx_where in Hid2 as (r' & Hn' & Hq').
      assert (r' = r) by congruence. subst r'.
      apply in_plate_true in Hp. apply in_plate_true in Hq'. assert (Eq : q = p) by congruence.
      rewrite Eq in Hq. rewrite (assoc_functional _ _ _ _ Hnd Hq Hc) in Hid. exact Hid.
  - intros Hnot. apply (sel_count_spec _ _ _ []); [constructor|].
    intros i. split; [intros []|]. intros (HK & r & Hn & Hp). apply Hnot.
    apply in_concat in HK as (d & Hd & Hid). apply in_map_iff in Hd as ([q d'] & E & Hq). cbn in E. subst d'.
    destruct (Hok _ _ Hq) as [_ Hincl]. pose proof (Hincl _ Hid) as Hid2. apply In_idx_where in Hid2 as (r' & Hn' & Hq').
    assert (r' = r) by congruence. subst r'.
    apply in_plate_true in Hp. apply in_plate_true in Hq'. assert (Eq : q = p) by congruence.
    rewrite Eq in Hq. apply in_map_iff. exists (p, d). split; [reflexivity|exact Hq].
Qed.
