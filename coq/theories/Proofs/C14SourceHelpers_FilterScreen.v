(* C14, one piece of Proofs/C14SourceHelpers.v (which see): filter_dataset_to_unique_treatments on a Screen *)
From Coq Require Import ZArith List Bool Arith Lia ZifyBool.
From Batchie Require Import Lib.Sexp Lib.PyRt Generated.Consts Model.Encode Model.Screen Model.Views
  Generated.SrcEncode Generated.SrcViews Generated.SrcPlates
  Proofs.PyRtLemmas Proofs.C01Sort Proofs.C14Defs Proofs.C14Lists Proofs.C14Unique
  Proofs.C14Source_Base Proofs.C14Source_ScreenSubset Proofs.C14SourceHelpers_Base Proofs.C14SourceHelpers_ScreenArity Proofs.C14SourceHelpers_SelectUnique.
Import ListNotations.
Open Scope Z_scope.

Theorem src_filter_unique_screen_is_model : forall s : pyscreen,
  src_filter_unique_screen s = filter_unique_screen (fst s) (snd s).
Proof.
  intros s. unfold src_filter_unique_screen, filter_unique_screen, unique_cols.
  rewrite src_screen_treatment_arity_is_model. cbn [res_bind].
  unfold zrange. rewrite Nat2Z.id.
  rewrite (append_columns_loop (s_arity (snd s)) (s_tids (snd s))) by (reflexivity || lia). cbn [res_bind app].
  rewrite src_select_unique_is_model.
  destruct (select_unique (s_sids (snd s) :: map (fun i => column 0 i (s_tids (snd s))) (seq 0 (s_arity (snd s))))) as [m|t];
    cbn [res_bind]; [|reflexivity].
  rewrite src_screen_subset_is_model, res_bind_ok. reflexivity.
Qed.
