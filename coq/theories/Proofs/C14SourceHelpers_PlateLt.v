(* C14, one piece of Proofs/C14SourceHelpers.v (which see): Plate.__lt__ *)
From Coq Require Import ZArith List Bool Arith Lia ZifyBool.
From Batchie Require Import Lib.Sexp Lib.PyRt Generated.Consts Model.Encode Model.Screen Model.Views
  Generated.SrcEncode Generated.SrcViews Generated.SrcPlates
  Proofs.PyRtLemmas Proofs.C01Sort Proofs.C14Defs Proofs.C14Lists Proofs.C14Unique
  Proofs.C14Source_ViewSize.
Import ListNotations.
Open Scope Z_scope.

Theorem src_plate_lt_is_model : forall a b : view, src_plate_lt a b = Ok (view_lt a b).
Proof.
  intros a b. unfold src_plate_lt, view_lt. rewrite !src_view_size_is_model. cbn [res_bind]. f_equal.
  destruct (Nat.ltb_spec (view_size a) (view_size b)); lia.
Qed.
