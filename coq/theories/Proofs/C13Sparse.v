(* C13: the sparse-cover initial plate observes an experiment of every sample and of every
   treatment id; observed rows are labelled initial_plate, all others one unobserved plate. *)
From Coq Require Import ZArith List Bool Arith Lia Permutation.
From Batchie Require Import Lib.Sexp Model.Encode Model.Screen Model.Retro Model.RetroInit
  Proofs.C11Lib Proofs.C11Gen Proofs.C11Select Proofs.C11Init Proofs.C13Filter.
Import ListNotations.
Open Scope nat_scope.

Definition covers_row (rows : list row) (chosen : list nat) (P : row -> Prop) : Prop :=
  exists i r, In i chosen /\ nth_error rows i = Some r /\ P r.

Lemma offer_sample_in : forall ctrl rows s chosen i,
  memb i (sc_offer_sample ctrl rows s chosen) = true ->
  exists r, nth_error rows i = Some r /\ r_sample r = s.
Proof.
  intros ctrl rows s chosen i H. apply memb_In in H. unfold sc_offer_sample in H.
  destruct (is_nil _) in H; apply In_idx_where in H as (r & Hn & Hf).
  - apply in_sample_true in Hf. eauto.
  - apply andb_true_iff in Hf as [Hf _]. apply in_sample_true in Hf. eauto.
Qed.

Lemma sc_samples_spec : forall ctrl rows samples chosen ds chosen' ds',
  sc_samples ctrl rows samples chosen ds = Ok (chosen', ds') ->
  incl chosen chosen' /\
  forall s, In s samples -> covers_row rows chosen' (fun r => r_sample r = s).
Proof.
  intros ctrl rows samples. induction samples as [|s samples IH]; intros chosen ds chosen' ds' H;
    cbn [sc_samples] in H.
  - inversion H; subst. split; [apply incl_refl|intros s []].
  - destruct ds as [|[[|i [|j l]]|l] ds1]; try discriminate.
    destruct (memb i (sc_offer_sample ctrl rows s chosen)) eqn:Em; [|discriminate].
    apply IH in H as [Hi Hc]. split.
    + intros x Hx. apply Hi. apply in_or_app. now left.
    + intros s0 [<-|Hs0]; [|now apply Hc].
      destruct (offer_sample_in _ _ _ _ _ Em) as (r & Hn & Hs). exists i, r. repeat split; auto.
      apply Hi. apply in_or_app. right. now left.
Qed.

Lemma sc_loop_spec : forall ctrl rows ds chosen chosen' ds',
  sc_loop ctrl rows chosen ds = Ok (chosen', ds') ->
  incl chosen chosen' /\ sc_remaining ctrl rows chosen' = [].
Proof.
  intros ctrl rows ds. induction ds as [|d ds IH]; intros chosen chosen' ds' H; cbn [sc_loop] in H.
  - destruct (is_nil (sc_remaining ctrl rows chosen)) eqn:En; [|discriminate].
    apply is_nil_true in En. inversion H; subst. split; [apply incl_refl|exact En].
  - destruct (is_nil (sc_remaining ctrl rows chosen)) eqn:En.
    + apply is_nil_true in En. inversion H; subst. split; [apply incl_refl|exact En].
    + destruct d as [[|i [|j l]]|l]; try discriminate.
      destruct (memb i (sc_offer_loop ctrl rows chosen)); [|discriminate].
      apply IH in H as [Hi Hr]. split; [|exact Hr]. intros x Hx. apply Hi. apply in_or_app. now left.
Qed.

Lemma filter_nil {A} (f : A -> bool) : forall l, filter f l = [] -> forall x, In x l -> f x = false.
Proof.
  induction l as [|a l IH]; intros H x Hx; [contradiction|]. cbn [filter] in H.
  destruct (f a) eqn:E; [discriminate|]. destruct Hx as [<-|Hx]; [exact E|now apply IH].
Qed.

Lemma remaining_nil : forall ctrl rows chosen t,
  sc_remaining ctrl rows chosen = [] -> In t (all_tids ctrl rows) ->
  covers_row rows chosen (fun r => In t (row_tids ctrl r)).
Proof.
  intros ctrl rows chosen t H Ht. unfold sc_remaining in H.
  pose proof (filter_nil _ _ H t Ht) as Hm. apply negb_false_iff, tid_mem_In in Hm.
  unfold tids_at in Hm. apply in_concat in Hm as (l & Hl & Htl). apply in_map_iff in Hl as (i & <- & Hi).
  destruct (nth_error rows i) as [r|] eqn:En; [|contradiction]. exists i, r. auto.
Qed.

(* the chosen rows are observed, with their sample and treatments, in the output *)
Lemma combine_nth {A B} : forall (la : list A) (lb : list B) i a b,
  nth_error la i = Some a -> nth_error lb i = Some b -> In (a, b) (combine la lb).
Proof.
  induction la as [|x la IH]; intros [|y lb] [|i] a b Ha Hb; cbn in Ha, Hb; try discriminate; cbn [combine].
  - inversion Ha; inversion Hb; subst. now left.
  - right. eapply IH; eassumption.
Qed.

Lemma vof_idx_nth : forall n K i, i < n -> nth_error (vof_idx n K) i = Some (memb i K).
Proof.
  intros n K i Hi. unfold vof_idx. rewrite nth_error_map.
  rewrite (nth_error_nth' (seq 0 n) 0) by now rewrite seq_length. now rewrite seq_nth.
Qed.

Lemma vor_nth : forall a b i x y, nth_error a i = Some x -> nth_error b i = Some y ->
  nth_error (vor a b) i = Some (x || y).
Proof.
  induction a as [|p a IH]; intros [|q b] [|i] x y Ha Hb; cbn in Ha, Hb; try discriminate; cbn [vor nth_error].
  - now inversion Ha; inversion Hb; subst.
  - now apply IH.
Qed.

Theorem sparse_cover_covers : forall ctrl reveal rows ds out ds',
  sparse_cover ctrl reveal rows ds = Ok (out, ds') ->
  (forall s, In s (sample_names rows) -> exists r, In r out /\ r_mask r = true /\ r_sample r = s) /\
  (forall t, In t (all_tids ctrl rows) -> exists r, In r out /\ r_mask r = true /\ In t (row_tids ctrl r)) /\
  (forall r, In r out -> r_plate r = if r_mask r then initial_plate else unobserved_plate) /\
  map core out = map core rows.
Proof.
  intros ctrl reveal rows ds out ds' H.
  pose proof (initial_plate_conserves _ _ _ _ _ _ H) as Hcore.
  unfold sparse_cover in H. destruct (negb (forallb r_mask rows)); [discriminate|].
  destruct (sc_samples _ _ _ _ _) as [[c1 ds1]|t] eqn:E1; cbn [res_bind] in H; [|discriminate].
  destruct (sc_loop _ _ _ _) as [[ch ds2]|t] eqn:E2; cbn [res_bind] in H; [|discriminate].
  apply sc_samples_spec in E1 as [_ Hs]. apply sc_loop_spec in E2 as [Hincl Hrem].
  match type of H with (dor c <- construct (map ?g (combine ?f rows)); _) = _ => set (final := f) in *; set (g0 := g) in * end.
  destruct (construct _) as [c|t] eqn:Ec; cbn [res_bind] in H; [|discriminate].
  apply construct_ok in Ec. inversion H; subst c out ds2. clear H.
  assert (Hobs : forall P, covers_row rows ch P ->
            exists r, In (g0 (true, r)) (map g0 (combine final rows)) /\ P r).
  { intros P (i & r & Hi & Hn & HP). exists r. split; [|exact HP]. apply in_map.
    assert (Hlt : i < length rows) by (apply nth_error_Some; congruence).
    assert (H0 : nth_error (vof_idx (length rows) ch) i = Some true).
    { rewrite vof_idx_nth by exact Hlt. f_equal. now apply memb_In. }
    apply (combine_nth _ _ i); [|exact Hn]. unfold final. destruct reveal; [|exact H0].
    erewrite vor_nth; [|exact H0|rewrite nth_error_map, Hn; reflexivity]. reflexivity. }
  split; [|split; [|split; [|exact Hcore]]].
  - intros s Hs0. destruct (Hobs (fun r => r_sample r = s)) as (r & Hin & Hr).
    + destruct (Hs s Hs0) as (i & r & Hi & Hn & Hr). exists i, r. auto.
    + eexists. split; [exact Hin|]. split; [reflexivity|exact Hr].
  - intros t Ht. destruct (Hobs _ (remaining_nil _ _ _ _ Hrem Ht)) as (r & Hin & Hr).
    eexists. split; [exact Hin|]. split; [reflexivity|exact Hr].
  - intros r Hr. apply in_map_iff in Hr as ([b r0] & <- & _). unfold g0. cbn. now destruct b.
Qed.
