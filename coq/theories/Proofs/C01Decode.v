(* C01, gap review g1 (C01 gaps 1 and 2):
   (2) the DECODE direction - the mapping a screen builds is itself a bijection between the (name, dose) pairs of the data
       and their ids: its keys are exactly the keys of the rows, each once; an id carries the sentinel exactly on controls;
       a non-control id belongs to exactly one key; looking a key up returns the id stored with it.
   (1) control-iff and equal-ids-iff-equal-keys on a screen constructed WITH A SUPPLIED mapping that batchie itself built for
       another screen (a superset of the data): no coverage hypothesis is needed - construction succeeding implies coverage. *)
From Coq Require Import ZArith List Lia Bool Sorted Permutation Arith.
From Batchie Require Import Lib.Sexp Lib.ListX Generated.Consts Model.Encode Model.Screen
  Proofs.C01Sort Proofs.C01Encode Proofs.C01Screen Proofs.C01Props.
Import ListNotations.
Open Scope Z_scope.

Section Built.
Variables (rows : list row) (a : nat) (ctrl : name) (sm : option (nmapping * bool)) (og mg : bool) (s : screen).
Hypothesis H : mk_screen rows a ctrl None sm og mg = Ok s.

Let S := mk_screen_inv _ _ _ _ _ _ _ _ H.
Let Htm : s_tmap s = build_tmapping ctrl (all_keys s) := ms_tmap _ _ _ _ _ _ _ _ S.

Theorem mapping_keys_are_row_keys : NoDup (map fst (s_tmap s)) /\ forall k, In k (map fst (s_tmap s)) <-> row_keys s k.
Proof.
  rewrite Htm. split; [apply built_keys_NoDup|]. intros k. rewrite built_keys.
  rewrite (sort_uniq_In _ tkey_cmp_spec). apply (all_keys_In _ _ _ _ _ _ _ _ H).
Qed.

Theorem mapping_decodes :
  (forall k id, In (k, id) (s_tmap s) -> (id = CONTROL_SENTINEL_VALUE <-> (snd k <= 0 \/ fst k = ctrl))) /\
  (forall k1 k2 id, In (k1, id) (s_tmap s) -> In (k2, id) (s_tmap s) -> id <> CONTROL_SENTINEL_VALUE -> k1 = k2) /\
  (forall k id, In (k, id) (s_tmap s) -> tid_of (s_tmap s) k = id).
Proof.
  rewrite Htm. split; [|split].
  - intros k id Hin. rewrite <- is_control_iff. now apply (built_control_iff ctrl (all_keys s)).
  - intros k1 k2 id H1 H2 Hne. exact (built_inj ctrl (all_keys s) k1 k2 id H1 H2 Hne).
  - intros k id Hin. unfold tid_of.
    now rewrite (tlookup_NoDup _ k id (built_keys_NoDup ctrl (all_keys s)) Hin).
Qed.

(* ---- a second screen constructed with this mapping supplied ---- *)
Variables (sub : list row) (a' : nat) (b : bool) (sm' : option (nmapping * bool)) (og' mg' : bool) (s' : screen).
Hypothesis H' : mk_screen sub a' ctrl (Some (s_tmap s, b)) sm' og' mg' = Ok s'.

Lemma supplied_same_map : s_tmap s' = s_tmap s.
Proof. exact (proj1 (supplied_verbatim _ _ _ _ _ _ _ _ _ H')). Qed.

Lemma supplied_covered k : row_keys s' k -> row_keys s k.
Proof.
  intros Hk. pose proof (proj2 (decode_treatments _ _ _ _ _ _ _ _ H') k Hk) as Hin.
  rewrite supplied_same_map in Hin. apply (proj2 mapping_keys_are_row_keys). apply in_map_iff. exists (k, tid_of (s_tmap s) k). split; [reflexivity|exact Hin].
Qed.

Theorem control_iff_supplied k : row_keys s' k ->
  (tid_of (s_tmap s') k = CONTROL_SENTINEL_VALUE <-> (snd k <= 0 \/ fst k = ctrl)).
Proof.
  intros Hk. rewrite supplied_same_map. apply (control_iff _ _ _ _ _ _ _ H). now apply supplied_covered.
Qed.

Theorem treatment_ids_injective_supplied k1 k2 : row_keys s' k1 -> row_keys s' k2 ->
  tid_of (s_tmap s') k1 <> CONTROL_SENTINEL_VALUE ->
  (tid_of (s_tmap s') k1 = tid_of (s_tmap s') k2 <-> k1 = k2).
Proof.
  rewrite supplied_same_map. intros H1 H2. apply (treatment_ids_injective _ _ _ _ _ _ _ H); now apply supplied_covered.
Qed.

(* same (name, dose) => same id as in the screen the mapping was built for, and below ITS space size *)
Theorem ids_of_superset_supplied k : row_keys s' k ->
  tid_of (s_tmap s') k = tid_of (s_tmap s) k /\ tid_of (s_tmap s') k < space_n_treatments s /\ space_n_treatments s' = space_n_treatments s.
Proof.
  intros Hk. rewrite supplied_same_map. split; [reflexivity|]. split.
  - apply (treatment_ids_bounded _ _ _ _ _ _ _ _ k H); [now apply supplied_covered|exact I].
  - unfold space_n_treatments. now rewrite supplied_same_map.
Qed.
End Built.

(* ---- samples: a sample mapping batchie built, supplied to another constructor call ---- *)
Section BuiltSamples.
Variables (rows : list row) (a : nat) (ctrl : name) (tm : option (tmapping * bool)) (og mg : bool) (s : screen).
Hypothesis H : mk_screen rows a ctrl tm None og mg = Ok s.
Let S := mk_screen_inv _ _ _ _ _ _ _ _ H.

Theorem sample_mapping_decodes :
  NoDup (map fst (s_smap s)) /\ (forall n, In n (map fst (s_smap s)) <-> exists r, In r (s_rows s) /\ r_sample r = n) /\
  (forall n1 n2 id, In (n1, id) (s_smap s) -> In (n2, id) (s_smap s) -> n1 = n2).
Proof.
  rewrite (ms_smap _ _ _ _ _ _ _ _ S). split; [apply nbuilt_keys_NoDup|]. split.
  - intros n. rewrite nbuilt_keys, (sort_uniq_In _ name_cmp_spec).
    rewrite <- (norm_rows_samples og mg rows), <- (ms_rows _ _ _ _ _ _ _ _ S). rewrite in_map_iff. split; intros (r & A & B); exists r; tauto.
  - intros n1 n2 id. apply nbuilt_inj.
Qed.

Variables (sub : list row) (a' : nat) (ctrl' : name) (tm' : option (tmapping * bool)) (b : bool) (og' mg' : bool) (s' : screen).
Hypothesis H' : mk_screen sub a' ctrl' tm' (Some (s_smap s, b)) og' mg' = Ok s'.

Theorem sample_ids_injective_supplied r1 r2 : In r1 (s_rows s') -> In r2 (s_rows s') ->
  (nid_of (s_smap s') (r_sample r1) = nid_of (s_smap s') (r_sample r2) <-> r_sample r1 = r_sample r2).
Proof.
  intros H1 H2. split; [|now intros ->]. intros Heq.
  pose proof (proj2 (decode_samples _ _ _ _ _ _ _ _ H') r1 H1) as I1.
  pose proof (proj2 (decode_samples _ _ _ _ _ _ _ _ H') r2 H2) as I2.
  rewrite Heq in I1. rewrite (proj1 (supplied_samples_verbatim _ _ _ _ _ _ _ _ _ H')) in I1, I2.
  exact (proj2 (proj2 sample_mapping_decodes) _ _ _ I1 I2).
Qed.
End BuiltSamples.
