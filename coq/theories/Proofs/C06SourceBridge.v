(* C06, gap review G6.3: the three primitives of the score_chunk link that carry the clause "the union of its own and the
   batch plates' experiments reduced to one experiment per distinct condition" -
       ScreenSubset.concat(l)  ->  Scores.subset_concat,   a.combine(b)  ->  Scores.subset_union,
       filter_dataset_to_unique_treatments(x)  ->  Scores.uniq_first [] x
   - are theorems: the helpers are translated themselves and linked to Model/Views.v (Props/C14.v: view_combine, view_concat,
   filter_unique_view); read through the representation of Proofs/C06SourceHelpers.v ([sc_rows p] = the Scores rows of a Views
   screen, [sc_subset v] = the (position, row) pairs the view selects), each is the meaning the configuration gave it.
   A "condition" is (sample id, treatment ids in column order) on both sides. *)
From Coq Require Import ZArith List Bool Arith Lia.
From Batchie Require Import Lib.Sexp Lib.PyRt Model.Encode Model.Screen Model.Views Generated.SrcViews Generated.SrcPlates
  Proofs.C01Sort Proofs.C14Defs Proofs.C14Lists Proofs.C14Views Proofs.C14Closure Proofs.C06SourceHelpers.
From Batchie Require Model.Scores Proofs.C06Rows.
Import ListNotations.
Open Scope nat_scope.

Lemma existsb_map_ {A B} (f : B -> bool) (g : A -> B) l : existsb f (map g l) = existsb (fun x => f (g x)) l.
Proof. induction l as [|x r IH]; cbn [map existsb]; [reflexivity|now rewrite IH]. Qed.
Lemma existsb_ext_in_ {A} (f g : A -> bool) l : (forall x, In x l -> f x = g x) -> existsb f l = existsb g l.
Proof.
  induction l as [|x r IH]; intros H; cbn [existsb]; [reflexivity|].
  rewrite (H x (or_introl eq_refl)), IH; [reflexivity|]. intros y Hy. apply H. now right.
Qed.

(* a view selects the position of an indexed row of its parent iff its selection vector says so *)
Lemma selects_sc_subset (v : view) (ir : Scores.irow) :
  In ir (Scores.indexed (sc_rows (v_parent v))) ->
  Scores.selects (sc_subset v) ir = nth (fst ir) (v_sel v) false.
Proof.
  intros Hin. unfold Scores.selects.
  destruct (nth (fst ir) (v_sel v) false) eqn:E.
  - apply existsb_exists. exists (fst ir). split; [|apply Nat.eqb_refl].
    apply in_map. unfold sc_subset. apply filter_In. split; [exact Hin|exact E].
  - destruct (existsb (Nat.eqb (fst ir)) (map fst (sc_subset v))) eqn:Ex; [|reflexivity].
    apply existsb_exists in Ex. destruct Ex as (i & Hi & Ei). apply Nat.eqb_eq in Ei. subst i.
    apply in_map_iff in Hi. destruct Hi as (ir' & Ef & Hi'). unfold sc_subset in Hi'. apply filter_In in Hi'.
    destruct Hi' as [_ Hs]. rewrite Ef in Hs. congruence.
Qed.

(* a.combine(b) *)
Theorem view_combine_is_subset_union a b c :
  view_ok a -> view_ok b -> v_parent b = v_parent a -> view_combine a b = Ok c ->
  sc_subset c = Scores.subset_union (sc_rows (v_parent a)) (sc_subset a) (sc_subset b).
Proof.
  intros Ha Hb Hp E. destruct (combine_union a b c Ha Hb Hp E) as (_ & Hpc & _ & Hsel).
  unfold sc_subset at 1, Scores.subset_union. rewrite Hpc. apply filter_ext_in. intros ir Hin.
  rewrite Hsel, (selects_sc_subset a ir Hin). rewrite <- Hp in Hin. now rewrite (selects_sc_subset b ir Hin).
Qed.

(* ScreenSubset.concat(l) *)
Theorem view_concat_is_subset_concat p vs c :
  Forall (fun v => v_parent v = p /\ view_ok v) vs -> view_concat vs = Ok c ->
  Scores.subset_concat (sc_rows p) (map sc_subset vs) = Ok (sc_subset c).
Proof.
  intros Hall E. destruct (concat_union p vs c Hall E) as (Hpc & _ & _ & Hsel).
  destruct vs as [|v0 [|v1 r]].
  - unfold view_concat in E. discriminate.
  - unfold view_concat in E. injection E as <-. reflexivity.
  - cbn [map Scores.subset_concat]. f_equal.
    transitivity (filter (fun ir : Scores.irow => nth (fst ir) (v_sel c) false) (Scores.indexed (sc_rows p)));
      [|unfold sc_subset; now rewrite Hpc].
    apply filter_ext_in. intros ir Hin. rewrite Hsel.
    change (sc_subset v0 :: sc_subset v1 :: map sc_subset r) with (map sc_subset (v0 :: v1 :: r)).
    rewrite existsb_map_. apply existsb_ext_in_. intros v Hv.
    rewrite Forall_forall in Hall. destruct (Hall v Hv) as [Hvp _]. rewrite <- Hvp in Hin.
    apply (selects_sc_subset v ir Hin).
Qed.

(* filter_dataset_to_unique_treatments(x): first occurrence per (sample id, treatment ids) *)
Lemma key_tests_agree p i j :
  Scores.key_eqb (Scores.row_key (i, sc_row p i)) (Scores.row_key (j, sc_row p j)) = name_eqb (row_key p i) (row_key p j).
Proof.
  unfold Scores.row_key, row_key, sc_row. cbn [snd Scores.r_sample Scores.r_treat].
  destruct (name_eqb (nth i (s_sids p) 0%Z :: nth i (s_tids p) []) (nth j (s_sids p) 0%Z :: nth j (s_tids p) [])) eqn:E.
  - apply name_eqb_eq in E. injection E as E1 E2. apply C06Rows.key_eqb_eq. now rewrite E1, E2.
  - destruct (Scores.key_eqb _ _) eqn:E'; [|reflexivity]. apply C06Rows.key_eqb_eq in E'. injection E' as E1 E2.
    rewrite E1, E2 in E. assert (H : name_eqb (nth j (s_sids p) 0%Z :: nth j (s_tids p) []) (nth j (s_sids p) 0%Z :: nth j (s_tids p) []) = true)
      by now apply name_eqb_eq. congruence.
Qed.

Lemma uniq_first_keep_first p (W : list nat) : forall js : list nat,
  Scores.uniq_first (map (fun j => Scores.row_key (j, sc_row p j)) js) (map (fun i => (i, sc_row p i)) W)
  = map (fun i => (i, sc_row p i)) (keep_first (row_key p) (map (row_key p) js) W).
Proof.
  induction W as [|i r IH]; intros js; cbn [map Scores.uniq_first keep_first]; [reflexivity|].
  assert (Hm : Scores.key_mem (Scores.row_key (i, sc_row p i)) (map (fun j => Scores.row_key (j, sc_row p j)) js)
               = existsb (name_eqb (row_key p i)) (map (row_key p) js)).
  { unfold Scores.key_mem. rewrite !existsb_map_. apply existsb_ext_in_. intros j _. apply key_tests_agree. }
  rewrite Hm. destruct (existsb (name_eqb (row_key p i)) (map (row_key p) js)).
  - apply IH.
  - cbn [map]. f_equal. apply (IH (i :: js)).
Qed.

Theorem filter_unique_view_is_uniq_first v v' :
  view_ok v -> screen_wf (v_parent v) -> filter_unique_view v = Ok v' ->
  sc_subset v' = Scores.uniq_first [] (sc_subset v).
Proof.
  intros Hok Hwf E. destruct (filter_unique_view_inv v v' Hok Hwf E) as (_ & Hp & Hok' & Hw).
  rewrite (sc_subset_positions v Hwf Hok). rewrite (sc_subset_positions v') by (rewrite ?Hp; assumption).
  rewrite Hp, Hw. symmetry. apply (uniq_first_keep_first (v_parent v) (np_where (v_sel v)) []).
Qed.

(* the whole conditioning step of score_chunk: filter_dataset_to_unique_treatments(plate.combine(concat(batch plates))) *)
Theorem conditioning_is_scores p (plate : view) (batch_plates : list view) u c f :
  screen_wf p -> v_parent plate = p -> view_ok plate ->
  Forall (fun v => v_parent v = p /\ view_ok v) batch_plates ->
  view_concat batch_plates = Ok u -> view_combine plate u = Ok c -> filter_unique_view c = Ok f ->
  exists su, Scores.subset_concat (sc_rows p) (map sc_subset batch_plates) = Ok su /\
    sc_subset f = Scores.uniq_first [] (Scores.subset_union (sc_rows p) (sc_subset plate) su).
Proof.
  intros Hwf Hpp Hpo Hall Eu Ec Ef.
  destruct (concat_union p batch_plates u Hall Eu) as (Hpu & Hou & _ & _).
  exists (sc_subset u). split; [now apply view_concat_is_subset_concat|].
  assert (Hpu' : v_parent u = v_parent plate) by congruence.
  destruct (combine_union plate u c Hpo Hou Hpu' Ec) as (_ & Hpc & Hoc & _).
  rewrite (filter_unique_view_is_uniq_first c f Hoc) by (try rewrite Hpc, Hpp; assumption).
  rewrite (view_combine_is_subset_union plate u c Hpo Hou Hpu' Ec). now rewrite Hpp.
Qed.

(* ---- the same about the TRANSLATED helpers (Generated/SrcViews.v, SrcPlates.v) ---- *)
From Batchie Require Import Proofs.C14Source_ViewCombine Proofs.C14Source_ViewConcat Proofs.C14SourceHelpers_FilterView.

Theorem src_combine_is_subset_union a b c :
  view_ok a -> view_ok b -> v_parent b = v_parent a -> src_view_combine a b = Ok c ->
  sc_subset c = Scores.subset_union (sc_rows (v_parent a)) (sc_subset a) (sc_subset b).
Proof. rewrite src_view_combine_is_model. apply view_combine_is_subset_union. Qed.

Theorem src_concat_is_subset_concat p vs c :
  Forall (fun v => v_parent v = p /\ view_ok v) vs -> src_view_concat vs = Ok c ->
  Scores.subset_concat (sc_rows p) (map sc_subset vs) = Ok (sc_subset c).
Proof. rewrite src_view_concat_is_model. apply view_concat_is_subset_concat. Qed.

Theorem src_filter_unique_is_uniq_first v v' :
  view_ok v -> screen_wf (v_parent v) -> src_filter_unique_view v = Ok v' ->
  sc_subset v' = Scores.uniq_first [] (sc_subset v).
Proof. rewrite src_filter_unique_view_is_model. apply filter_unique_view_is_uniq_first. Qed.

Theorem src_conditioning_is_scores p (plate : view) (batch_plates : list view) u c f :
  screen_wf p -> v_parent plate = p -> view_ok plate ->
  Forall (fun v => v_parent v = p /\ view_ok v) batch_plates ->
  src_view_concat batch_plates = Ok u -> src_view_combine plate u = Ok c -> src_filter_unique_view c = Ok f ->
  exists su, Scores.subset_concat (sc_rows p) (map sc_subset batch_plates) = Ok su /\
    sc_subset f = Scores.uniq_first [] (Scores.subset_union (sc_rows p) (sc_subset plate) su).
Proof.
  rewrite src_view_concat_is_model, src_view_combine_is_model, src_filter_unique_view_is_model. apply conditioning_is_scores.
Qed.
