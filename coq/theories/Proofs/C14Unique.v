(* C14: the first-occurrence unique filter (select_unique_zipped_numpy_arrays). *)
From Coq Require Import ZArith List Bool Arith Lia Sorted.
From Batchie Require Import Lib.Sexp Model.Encode Model.Screen Model.Views Proofs.C14Defs Proofs.C14Lists.
Import ListNotations.
Open Scope nat_scope.

(* ---- row comparison ---- *)
Lemma name_cmp_eq a b : name_cmp a b = Eq <-> a = b.
Proof.
  revert b; induction a as [|x a IH]; intros [|y b]; cbn [name_cmp]; try (split; [discriminate|discriminate]).
  - split; reflexivity.
  - destruct (Z.compare_spec x y) as [E|L|L].
    + subst. rewrite IH. split; [now intros ->|now intros [= ->]].
    + split; [discriminate|]. intros [= -> _]. lia.
    + split; [discriminate|]. intros [= -> _]. lia.
Qed.

Lemma name_eqb_eq a b : name_eqb a b = true <-> a = b.
Proof.
  unfold name_eqb. rewrite <- name_cmp_eq. destruct (name_cmp a b); split; congruence.
Qed.

Lemma name_eqb_refl a : name_eqb a a = true.
Proof. now apply name_eqb_eq. Qed.

Lemma existsb_name_eqb k seen : existsb (name_eqb k) seen = true <-> In k seen.
Proof.
  rewrite existsb_exists. split.
  - intros (x & Hx & E). apply name_eqb_eq in E. now subst.
  - intros H. exists k. split; [exact H|apply name_eqb_refl].
Qed.

(* ---- sort_uniq keeps exactly the members ---- *)
Lemma In_insert_uniq {K} (cmp : K -> K -> comparison) (Hcmp : forall a b, cmp a b = Eq -> a = b) k l x :
  In x (insert_uniq cmp k l) <-> x = k \/ In x l.
Proof.
  induction l as [|a l IH]; cbn [insert_uniq In].
  - intuition.
  - destruct (cmp k a) eqn:E; cbn [In].
    + apply Hcmp in E. subst. intuition.
    + intuition.
    + rewrite IH. intuition.
Qed.

Lemma In_sort_uniq {K} (cmp : K -> K -> comparison) (Hcmp : forall a b, cmp a b = Eq -> a = b) l x :
  In x (sort_uniq cmp l) <-> In x l.
Proof.
  unfold sort_uniq. induction l as [|a l IH]; cbn [fold_right In]; [reflexivity|].
  rewrite In_insert_uniq by exact Hcmp. rewrite IH. intuition.
Qed.

(* ---- first_index ---- *)
Lemma first_index_lt k keys : In k keys -> first_index k keys < length keys.
Proof.
  induction keys as [|x r IH]; cbn [In first_index length]; [intros []|].
  intros H. destruct (name_eqb k x) eqn:E; [lia|].
  destruct H as [H|H]; [subst; rewrite name_eqb_refl in E; discriminate|]. apply IH in H. lia.
Qed.

Lemma first_index_nth k keys : In k keys -> nth (first_index k keys) keys [] = k.
Proof.
  induction keys as [|x r IH]; cbn [In first_index]; [intros []|].
  intros H. destruct (name_eqb k x) eqn:E; cbn [nth].
  - apply name_eqb_eq in E. now subst.
  - destruct H as [H|H]; [subst; rewrite name_eqb_refl in E; discriminate|]. now apply IH.
Qed.

Lemma first_index_min k keys j : j < first_index k keys -> nth j keys [] <> k.
Proof.
  revert j; induction keys as [|x r IH]; intros j; cbn [first_index]; [lia|].
  destruct (name_eqb k x) eqn:E; [lia|].
  intros H. destruct j as [|j]; cbn [nth].
  - intros ->. rewrite name_eqb_refl in E. discriminate.
  - apply IH. lia.
Qed.

Lemma first_index_is i keys : i < length keys ->
  (first_index (nth i keys []) keys = i <-> forall j, j < i -> nth j keys [] <> nth i keys []).
Proof.
  intros Hi. split.
  - intros E j Hj. apply first_index_min. now rewrite E.
  - intros H. assert (Hin : In (nth i keys []) keys) by now apply nth_In.
    destruct (Nat.lt_trichotomy (first_index (nth i keys []) keys) i) as [L|[L|L]]; [|exact L|].
    + exfalso. apply (H _ L). now apply first_index_nth.
    + exfalso. exact (first_index_min _ _ _ L eq_refl).
Qed.

(* ---- result = zeros; result[idx] = True ---- *)
Lemma nth_repeat_false n i : nth i (repeat false n) false = false.
Proof. revert i; induction n as [|n IH]; intros [|i]; cbn [repeat nth]; auto. Qed.

Lemma scatter_true l idx i :
  nth i (scatter l idx (repeat true (length idx))) false = nth i l false || (mem_nat i idx && (i <? length l)).
Proof.
  revert l; induction idx as [|j idx IH]; intros l; cbn [length repeat scatter].
  - cbn. now rewrite orb_false_r.
  - rewrite IH, nth_set_nth, set_nth_length. unfold mem_nat. cbn [existsb].
    destruct (Nat.eqb_spec i j) as [->|N]; cbn [andb orb].
    + destruct (nth j l false), (existsb (Nat.eqb j) idx), (j <? length l); reflexivity.
    + reflexivity.
Qed.

Lemma unique_mask_length keys : length (unique_mask keys) = length keys.
Proof. unfold unique_mask. now rewrite scatter_length, repeat_length. Qed.

Lemma nth_unique_mask keys i :
  nth i (unique_mask keys) false = true <->
  i < length keys /\ forall j, j < i -> nth j keys [] <> nth i keys [].
Proof.
  unfold unique_mask. rewrite scatter_true, nth_repeat_false, repeat_length. cbn [orb].
  rewrite andb_true_iff, Nat.ltb_lt, mem_nat_In, in_map_iff.
  split.
  - intros [(k & E & Hk) Hi]. split; [exact Hi|].
    apply In_sort_uniq in Hk; [|intros a b; apply name_cmp_eq].
    apply first_index_is; [exact Hi|]. rewrite <- E. now rewrite first_index_nth.
  - intros [Hi H]. split; [|exact Hi].
    exists (nth i keys []). split; [now apply first_index_is|].
    apply In_sort_uniq; [intros a b; apply name_cmp_eq|]. now apply nth_In.
Qed.

(* ---- the structural first-occurrence mask ---- *)
Lemma first_mask_rec_length seen keys : length (first_mask_rec seen keys) = length keys.
Proof.
  revert seen; induction keys as [|k r IH]; intros seen; cbn [first_mask_rec length]; [reflexivity|].
  destruct (existsb (name_eqb k) seen); cbn [length]; now rewrite IH.
Qed.

Lemma nth_first_mask_rec seen keys i :
  nth i (first_mask_rec seen keys) false = true <->
  i < length keys /\ ~ In (nth i keys []) seen /\ forall j, j < i -> nth j keys [] <> nth i keys [].
Proof.
  revert seen i; induction keys as [|k r IH]; intros seen i; cbn [first_mask_rec length].
  - destruct i; cbn [nth]; split; try discriminate; intros [H _]; lia.
  - destruct (existsb (name_eqb k) seen) eqn:E.
    + apply existsb_name_eqb in E.
      destruct i as [|i]; cbn [nth].
      * split; [discriminate|]. intros (_ & H & _). contradiction.
      * rewrite IH. split.
        -- intros (Hi & Hn & Hj). repeat split; [lia|exact Hn|].
           intros [|j] Hlt; cbn [nth]; [intros E'; apply Hn; now rewrite <- E'|apply Hj; lia].
        -- intros (Hi & Hn & Hj). repeat split; [lia|exact Hn|intros j Hlt; apply (Hj (S j)); lia].
    + apply not_true_iff_false in E. rewrite existsb_name_eqb in E.
      destruct i as [|i]; cbn [nth].
      * split; [intros _; repeat split; [lia|exact E|intros j Hj; lia]|reflexivity].
      * rewrite IH. cbn [In]. split.
        -- intros (Hi & Hn & Hj). repeat split; [lia|intros H; apply Hn; now right|].
           intros [|j] Hlt; cbn [nth]; [intros E'; apply Hn; left; exact E'|apply Hj; lia].
        -- intros (Hi & Hn & Hj). repeat split; [lia| |intros j Hlt; apply (Hj (S j)); lia].
           intros [E'|H]; [apply (Hj 0); [lia|exact E']|now apply Hn].
Qed.

Lemma unique_mask_rec keys : unique_mask keys = first_mask_rec [] keys.
Proof.
  apply list_bool_ext.
  - now rewrite unique_mask_length, first_mask_rec_length.
  - intros i _. rewrite nth_unique_mask, nth_first_mask_rec. cbn [In]. tauto.
Qed.

(* kept keys: a duplicate-free enumeration of the keys *)
Fixpoint kf (seen keys : list (list Z)) : list (list Z) :=
  match keys with
  | [] => []
  | k :: r => if existsb (name_eqb k) seen then kf seen r else k :: kf (k :: seen) r
  end.

Lemma select_first_mask_rec seen keys : select (first_mask_rec seen keys) keys = kf seen keys.
Proof.
  revert seen; induction keys as [|k r IH]; intros seen; cbn [first_mask_rec kf]; [reflexivity|].
  destruct (existsb (name_eqb k) seen); cbn [select]; now rewrite IH.
Qed.

Lemma In_kf seen keys k : In k (kf seen keys) <-> In k keys /\ ~ In k seen.
Proof.
  revert seen; induction keys as [|x r IH]; intros seen; cbn [kf In]; [tauto|].
  destruct (existsb (name_eqb x) seen) eqn:E.
  - apply existsb_name_eqb in E. rewrite IH. split; [tauto|]. intros [[->|H] Hn]; tauto.
  - apply not_true_iff_false in E. rewrite existsb_name_eqb in E.
    cbn [In]. rewrite IH. cbn [In]. split.
    + intros [->|(H & Hn)]; [tauto|]. split; [tauto|]. intros H'. apply Hn. now right.
    + intros [[->|H] Hn]; [now left|].
      destruct (list_eq_dec Z.eq_dec x k) as [->|N]; [now left|]. right. split; [exact H|]. intros [H'|H']; tauto.
Qed.

Lemma NoDup_kf seen keys : NoDup (kf seen keys).
Proof.
  revert seen; induction keys as [|x r IH]; intros seen; cbn [kf]; [constructor|].
  destruct (existsb (name_eqb x) seen); [apply IH|].
  constructor; [|apply IH]. rewrite In_kf. cbn [In]. tauto.
Qed.

(* on index lists: the reference semantics' keep_first *)
Lemma select_first_mask_keep key seen l :
  select (first_mask_rec seen (map key l)) l = keep_first key seen l.
Proof.
  revert seen; induction l as [|i r IH]; intros seen; cbn [map first_mask_rec keep_first]; [reflexivity|].
  destruct (existsb (name_eqb (key i)) seen); cbn [select]; now rewrite IH.
Qed.

(* ---- select_unique on columns of equal length ---- *)
Lemma select_unique_ok cols :
  Forall (fun c => length c = length (hd [] cols)) cols ->
  select_unique cols = Ok (unique_mask (zip_cols cols)).
Proof.
  intros H. unfold select_unique.
  replace (forallb (fun c => length c =? length (hd [] cols)) cols) with true; [reflexivity|].
  symmetry. apply forallb_forall. intros c Hc. apply Nat.eqb_eq.
  rewrite Forall_forall in H. now apply H.
Qed.

Lemma select_unique_inv cols m : select_unique cols = Ok m -> m = unique_mask (zip_cols cols).
Proof.
  unfold select_unique. destruct (negb _); [discriminate|]. now intros [= <-].
Qed.
