(* C13 / C11, one piece of Proofs/C13SourceHelpers.v (representation and side conditions: see there): the representation (fresh ids = ranks of the sorted names) and the facts that mention no translated function *)
From Coq Require Import ZArith List Bool Arith Lia ZifyBool.
From Batchie Require Import Lib.Sexp Lib.PyRt Generated.Consts Model.Encode Model.Screen Model.Views Model.Retro Model.RetroHoldout
  Generated.SrcEncode Generated.SrcViews Generated.SrcPlates
  Proofs.PyRtLemmas Proofs.C01Sort Proofs.C01Encode Proofs.C14Defs Proofs.C14Lists Proofs.C14Unique Proofs.C14Views
  Proofs.C14ToScreen.
Import ListNotations.
Open Scope nat_scope.

(* ---------------- ids are ranks of the sorted names ---------------- *)
Definition rank_in (su : list name) (n : name) : Z := Z.of_nat (index_of n su).
Definition plate_ids_fresh (p : screen) : Prop := exists m, encode_names (map r_plate (s_rows p)) None 6%Z = Ok (s_pids p, m).
Definition sample_ids_fresh (p : screen) : Prop := exists m, encode_names (map r_sample (s_rows p)) None 6%Z = Ok (s_sids p, m).

Lemma index_of_lt n (su : list name) : In n su -> index_of n su < length su.
Proof.
  induction su as [|y su IH]; cbn [In index_of length]; [tauto|]. intros H.
  destruct (name_eqb n y) eqn:E; [lia|]. destruct H as [->|H]; [rewrite name_eqb_refl in E; discriminate|]. specialize (IH H). lia.
Qed.

Lemma nth_index_of n (su : list name) : In n su -> nth (index_of n su) su [] = n.
Proof.
  induction su as [|y su IH]; cbn [In index_of]; [tauto|]. intros H.
  destruct (name_eqb n y) eqn:E; [apply name_eqb_eq in E; now subst|].
  destruct H as [->|H]; [rewrite name_eqb_refl in E; discriminate|]. cbn [nth]. now apply IH.
Qed.

Lemma index_of_nth (su : list name) : NoDup su -> forall j, j < length su -> index_of (nth j su []) su = j.
Proof.
  induction su as [|y su IH]; intros ND j Hj; cbn [length] in Hj; [lia|].
  inversion ND as [|? ? Hy ND']; subst. destruct j as [|j]; cbn [nth index_of]; [now rewrite name_eqb_refl|].
  destruct (name_eqb (nth j su []) y) eqn:E.
  - apply name_eqb_eq in E. exfalso. apply Hy. rewrite <- E. apply nth_In. lia.
  - f_equal. apply IH; [exact ND' | lia].
Qed.

Lemma nlookup_number_from su : forall (i : Z) n, In n su ->
  nlookup (number_from i su) n = Some (i + rank_in su n)%Z.
Proof.
  unfold rank_in. induction su as [|y su IH]; intros i n H; cbn [In number_from nlookup index_of] in *; [tauto|].
  destruct (name_eqb n y) eqn:E; [f_equal; lia|].
  destruct H as [->|H]; [rewrite name_eqb_refl in E; discriminate|]. rewrite IH by exact H. f_equal. lia.
Qed.

(* what the encoder answers without a mapping: every name's rank among the sorted distinct names *)
Lemma fresh_ids_are_ranks names tag ids m : encode_names names None tag = Ok (ids, m) ->
  ids = map (rank_in (sort_uniq name_cmp names)) names.
Proof.
  unfold encode_names, build_nmapping. set (su := sort_uniq name_cmp names).
  destruct (opt_map_all (nlookup (number_from 0%Z su)) names) as [r|] eqn:E; [|discriminate]. intros [= <- _].
  apply opt_map_all_Some in E.
  assert (Hin : forall n, In n names -> In n su) by (intros n Hn; now apply (sort_uniq_In name_cmp name_cmp_spec)).
  clearbody su. induction E as [|a b l r Hab _ IH]; cbn [map]; [reflexivity|].
  rewrite nlookup_number_from in Hab by (apply Hin; now left). injection Hab as <-.
  rewrite IH by (intros n Hn; apply Hin; now right). f_equal.
Qed.

Lemma ranks_sorted_unique names :
  let su := sort_uniq name_cmp names in
  sort_uniq Z.compare (map (rank_in su) names) = map Z.of_nat (seq 0 (length su)).
Proof.
  intros su.
  assert (S : SSorted Z.compare (map Z.of_nat (seq 0 (length su)))) by (rewrite <- zseq_0; apply zseq_sorted).
  rewrite <- (sort_uniq_of_sorted Z.compare Zcmp_spec _ S).
  apply (sort_uniq_ext Z.compare Zcmp_spec). intros z. rewrite !in_map_iff. split.
  - intros (n & <- & Hn). exists (index_of n su). split; [reflexivity|]. apply in_seq.
    assert (In n su) by (now apply (sort_uniq_In name_cmp name_cmp_spec)). pose proof (index_of_lt n su H). lia.
  - intros (j & <- & Hj). apply in_seq in Hj. exists (nth j su []). split.
    + unfold rank_in. f_equal. apply index_of_nth; [apply (sort_uniq_NoDup name_cmp name_cmp_spec) | change (j < length su); lia].
    + apply (sort_uniq_In name_cmp name_cmp_spec). apply nth_In. change (j < length su). lia.
Qed.

(* the rows with id j are the rows named by the j-th sorted name *)
Lemma rank_eqb_name names j :
  let su := sort_uniq name_cmp names in j < length su ->
  map (fun x => (x =? Z.of_nat j)%Z) (map (rank_in su) names) = map (fun n => name_eqb n (nth j su [])) names.
Proof.
  intros su Hj. rewrite map_map. apply map_ext_in. intros n Hn.
  assert (Hs : In n su) by (now apply (sort_uniq_In name_cmp name_cmp_spec)).
  assert (ND : NoDup su) by apply (sort_uniq_NoDup name_cmp name_cmp_spec).
  unfold rank_in. destruct (name_eqb n (nth j su [])) eqn:E.
  - apply name_eqb_eq in E. rewrite E, index_of_nth by assumption. apply Z.eqb_refl.
  - apply Z.eqb_neq. intros Q. apply Nat2Z.inj in Q. rewrite <- Q, nth_index_of, name_eqb_refl in E by exact Hs. discriminate.
Qed.

(* ---------------- every constructed screen has fresh plate ids (and fresh sample ids when no mapping is passed) ---------------- *)
Lemma mk_screen_ids_fresh rows ar ctrl tm sm og mg s : mk_screen rows ar ctrl tm sm og mg = Ok s ->
  plate_ids_fresh s /\ (sm = None -> sample_ids_fresh s).
Proof.
  unfold mk_screen.
  destruct (forallb _ rows); cbn [negb]; [|discriminate].
  destruct (negb og && mg); [discriminate|].
  set (rows' := if og then _ else _).
  destruct (plate_uniform rows'); cbn [negb]; [|discriminate].
  destruct (match tm with Some _ => _ | None => false end); [discriminate|].
  destruct (match sm with Some _ => _ | None => false end); [discriminate|].
  destruct (encode_treatments _ ctrl _) as [[tflat tmm]|]; cbn [res_bind]; [|discriminate].
  destruct (encode_names (map r_sample rows') _ 6%Z) as [[sids smm]|] eqn:ES; cbn [res_bind]; [|discriminate].
  destruct (encode_names (map r_plate rows') None 6%Z) as [[pids pmm]|] eqn:EP; cbn [res_bind]; [|discriminate].
  intros [= <-]. unfold plate_ids_fresh, sample_ids_fresh. cbn [s_rows s_pids s_sids]. split; [now exists pmm|].
  intros ->. cbn [option_map] in ES. now exists smm.
Qed.

(* ---------------- list bridges between the two vocabularies ---------------- *)
Lemma bor_vec_vor a b : bor_vec a b = vor a b.
Proof. unfold bor_vec. revert b; induction a as [|x a IH]; intros [|y b]; cbn [combine map vor fst snd]; try reflexivity. now rewrite IH. Qed.

Lemma select_vselect {A} sel (l : list A) : select sel l = vselect sel l.
Proof. reflexivity. Qed.

Lemma with_plate_set_plate nm r : with_plate nm r = set_plate nm r.
Proof. reflexivity. Qed.

Lemma relabel_vrelabel nm : forall sel rows, length sel = length rows -> relabel sel nm rows = vrelabel sel nm rows.
Proof.
  unfold relabel. induction sel as [|b sel IH]; intros [|r rows] H; cbn [length] in H; try discriminate; cbn [combine map vrelabel fst snd];
    [reflexivity|]. rewrite IH by lia. reflexivity.
Qed.

Lemma vcount_select {A} sel (l : list A) : length sel = length l -> length (select sel l) = vcount sel.
Proof.
  revert l; induction sel as [|b sel IH]; intros [|x l] H; cbn [length] in H; try discriminate; cbn [select vcount]; [reflexivity|].
  destruct b; cbn [length]; rewrite IH by lia; lia.
Qed.

Lemma vor_length a b : length a = length b -> length (vor a b) = length a.
Proof. revert b; induction a as [|x a IH]; intros [|y b] H; cbn [length] in H; try discriminate; cbn [vor length]; [reflexivity|]. now rewrite IH by lia. Qed.

Lemma view_size_vcount v : screen_wf (v_parent v) -> view_ok v -> Z.of_nat (view_size v) = plate_size (v_sel v).
Proof.
  intros _ Hok. unfold view_size, view_tids, plate_size. f_equal. apply vcount_select. exact Hok.
Qed.

Lemma encode_names_fresh_total names : exists ids m, encode_names names None 6%Z = Ok (ids, m).
Proof. destruct (encode_names_total names 6%Z) as ([ids m] & H). now exists ids, m. Qed.

Definition res_rows (r : result screen) : result (list row) := dor s <- r; Ok (s_rows s).

Lemma mk_screen_not_uniform rows ar ctrl : forallb (fun r => Nat.eqb (length (r_treats r)) ar) rows = true ->
  plate_uniform rows = false -> mk_screen rows ar ctrl None None true true = Err 2%Z.
Proof. intros H1 H2. unfold mk_screen. cbn [negb andb]. rewrite H1, H2. reflexivity. Qed.

(* what a screen built by the constructor without mappings satisfies: the invariants the other theorems of this file ask for *)
Definition fresh_screen (s : screen) : Prop :=
  screen_wf s /\ screen_valid s /\ plate_ids_fresh s /\ sample_ids_fresh s.

Lemma mk_screen_fresh rows ar ctrl s : mk_screen rows ar ctrl None None true true = Ok s -> fresh_screen s.
Proof.
  intros H. split; [eapply mk_screen_wf; exact H|]. split; [eapply mk_screen_valid; exact H|].
  destruct (mk_screen_ids_fresh _ _ _ _ _ _ _ _ H) as [A B]. split; [exact A | now apply B].
Qed.

Lemma select_mask_filter {A} (f : A -> bool) l : select (map f l) l = filter f l.
Proof. induction l as [|x l IH]; cbn [map select filter]; [reflexivity|]. now rewrite IH. Qed.

Lemma existsb_id_map_filter {A} (f : A -> bool) l : existsb (fun b : bool => b) (map f l) = negb (is_nil (filter f l)).
Proof. induction l as [|x l IH]; cbn [map existsb filter]; [reflexivity|]. destruct (f x); [reflexivity | exact IH]. Qed.

Lemma is_nil_same {A} (l : list A) : PyRt.is_nil l = Retro.is_nil l.
Proof. destruct l; reflexivity. Qed.

(* ranks in a strictly sorted list are strictly monotone *)
Lemma rank_monotone (su : list name) : SSorted name_cmp su -> forall a b, In a su -> In b su ->
  name_cmp a b = Lt -> index_of a su < index_of b su.
Proof.
  induction su as [|y su IH]; intros HS a b Ha Hb Hlt; [destruct Ha|].
  inversion HS as [|? ? HS' Hall]; subst. rewrite Forall_forall in Hall. cbn [index_of].
  destruct (name_eqb a y) eqn:Ea.
  - apply name_eqb_eq in Ea. subst a. destruct (name_eqb b y) eqn:Eb; [|lia].
    apply name_eqb_eq in Eb. subst b. exfalso. exact (lt_irrefl name_cmp name_cmp_spec y Hlt).
  - destruct Ha as [->|Ha]; [rewrite name_eqb_refl in Ea; discriminate|].
    destruct (name_eqb b y) eqn:Eb.
    + apply name_eqb_eq in Eb. subst b. exfalso. apply (lt_irrefl name_cmp name_cmp_spec a).
      eapply (cmp_trans _ name_cmp_spec); [exact Hlt | exact (Hall a Ha)].
    + destruct Hb as [->|Hb]; [rewrite name_eqb_refl in Eb; discriminate|]. specialize (IH HS' a b Ha Hb Hlt). lia.
Qed.

Lemma map_rank_sorted (su l : list name) : SSorted name_cmp su -> (forall x, In x l -> In x su) -> SSorted name_cmp l ->
  SSorted Z.compare (map (rank_in su) l).
Proof.
  intros HS Hin Hl. induction Hl as [|a l Hl' IH Hall]; cbn [map]; [constructor|].
  constructor; [apply IH; intros x Hx; apply Hin; now right|].
  rewrite Forall_forall in *. intros z Hz. apply in_map_iff in Hz. destruct Hz as (b & <- & Hb).
  unfold C01Sort.lt, rank_in. apply Z.compare_lt_iff. apply Nat2Z.inj_lt.
  apply rank_monotone; [exact HS | apply Hin; now left | apply Hin; now right | exact (Hall b Hb)].
Qed.

(* np.unique of ranks = ranks of np.unique of names *)
Lemma sort_uniq_ranks (su l : list name) : SSorted name_cmp su -> (forall x, In x l -> In x su) ->
  sort_uniq Z.compare (map (rank_in su) l) = map (rank_in su) (sort_uniq name_cmp l).
Proof.
  intros HS Hin.
  rewrite <- (sort_uniq_of_sorted Z.compare Zcmp_spec (map (rank_in su) (sort_uniq name_cmp l))).
  - apply (sort_uniq_ext Z.compare Zcmp_spec). intros z. rewrite !in_map_iff.
    split; intros (n & Hz & Hn); exists n; (split; [exact Hz|]); now apply (sort_uniq_In name_cmp name_cmp_spec).
  - apply map_rank_sorted; [exact HS | | apply (sort_uniq_sorted name_cmp name_cmp_spec)].
    intros x Hx. apply Hin. exact (proj1 (sort_uniq_In name_cmp name_cmp_spec l x) Hx).
Qed.

Lemma In_vselect {A} sel (l : list A) x : In x (vselect sel l) -> In x l.
Proof. rewrite <- select_vselect. apply In_select. Qed.
