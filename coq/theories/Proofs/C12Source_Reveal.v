(* C12 / C03, one piece of the links of Proofs/C12Source.v (which see): reveal_plates / mask_screen / unmask_screen *)
From Coq Require Import ZArith List Bool Lia Arith.
From Batchie Require Import Lib.Sexp Lib.PyRt Generated.Consts Generated.SrcArithC03 Model.Encode Model.Screen Model.Reveal
  Model.Holdout Generated.SrcReveal Proofs.PyRtLemmas Proofs.C03Base Proofs.C03Screen Proofs.C12Reveal Proofs.C03Frozen Proofs.C03Witness
  Proofs.C12Source_Base.
Import ListNotations.
Open Scope Z_scope.

(* ---------- the three functions ---------- *)
(* the body of the per-plate loop [fix fx5]: np.all(screen.observations[screen.plate_ids == plate_id] == 0) *)
Lemma plate_zero_src s pid :
  np_all (np_eq_zero (select (np_eq_Z (s_pids s) pid) (col_obs s))) = forallb obs_is_zero (plate_values s pid).
Proof. unfold np_all, np_eq_zero, np_eq_Z, col_obs, plate_values. now rewrite forallb_id_map, select_map. Qed.

Lemma forallb_negb_existsb {A} (q : A -> bool) l : forallb (fun x => negb (q x)) l = negb (existsb q l).
Proof. induction l as [|a l IH]; cbn [forallb existsb]; [reflexivity|]. rewrite IH. now destruct (q a). Qed.

Theorem src_reveal_plates_is_model : forall (s : screen) (ids : list Z),
  src_reveal_plates s ids = reveal_plates (carry_mappings true) s ids.
Proof.
  intros s ids. unfold src_reveal_plates, reveal_plates, reveal_zero_guard, revealed_plate_ids, revealed_values, reveal_rows, reveal_sel.
  cbn [carry_mappings carry_reveal]. fold (np_isin (s_pids s) ids). cbv zeta.
  rewrite (res_fold_check (fun pid => negb (forallb obs_is_zero (plate_values s pid))) 8)
    by (intros u a; rewrite plate_zero_src; now destruct (forallb obs_is_zero (plate_values s a))).
  rewrite forallb_negb_existsb.
  unfold np_all, np_any, np_eq_zero, np_isnan, col_obs at 1 2. rewrite select_map, forallb_id_map, existsb_id_map.
  destruct (forallb obs_is_zero _); [reflexivity|]. cbn [orb].
  destruct (existsb (fun pid => forallb obs_is_zero (plate_values s pid)) _); cbn [negb res_bind]; [reflexivity|].
  destruct (existsb obs_is_nan _); [reflexivity|].
  rewrite res_bind_ok_r, py_screen_of_screen. unfold col_mask. now rewrite remask_or.
Qed.

Lemma np_full_size (b : bool) s : np_full b (screen_size s) = repeat b (length (s_rows s)).
Proof. unfold np_full, screen_size. now rewrite Nat2Z.id. Qed.

Theorem src_mask_screen_is_model : forall s : screen, src_mask_screen s = mask_screen (carry_mappings true) s.
Proof.
  intros s. unfold src_mask_screen, mask_screen. cbn [carry_mappings carry_mask].
  now rewrite res_bind_ok_r, py_screen_of_screen, np_full_size, remask_const.
Qed.

Theorem src_unmask_screen_is_model : forall s : screen, src_unmask_screen s = unmask_screen (carry_mappings true) s.
Proof.
  intros s. unfold src_unmask_screen, unmask_screen. cbn [carry_mappings carry_unmask].
  now rewrite res_bind_ok_r, py_screen_of_screen, np_full_size, remask_const.
Qed.
