(* C14, one piece of Proofs/C14Source.v (conventions and objects: see there): auxiliary facts that mention no translated function *)
From Coq Require Import ZArith List Bool Arith Lia ZifyBool.
From Batchie Require Import Lib.Sexp Lib.PyRt Model.Encode Model.Screen Model.Views
  Proofs.PyRtLemmas Proofs.C14Lists.
Import ListNotations.
Open Scope Z_scope.

Lemma res_bind_ok {A} (r : result A) : (dor x <- r; Ok x) = r.
Proof. destruct r; reflexivity. Qed.

Lemma of_nat_eqb a b : (Z.of_nat a =? Z.of_nat b) = Nat.eqb a b.
Proof. destruct (Nat.eqb_spec a b) as [->|H]; [apply Z.eqb_refl | apply Z.eqb_neq; lia]. Qed.

Lemma res_map_all_ext {A B} (f g : A -> result B) : (forall a, f a = g a) -> forall l, res_map_all f l = res_map_all g l.
Proof. intros H l. induction l as [|a l IH]; cbn [res_map_all]; [reflexivity|]. now rewrite H, IH. Qed.

Lemma combine_fst_snd {A B} (l : list (A * B)) : combine (map fst l) (map snd l) = l.
Proof. induction l as [|[a b] l IH]; cbn [map combine fst snd]; [reflexivity | now rewrite IH]. Qed.

(* the per-row arrays of a row list give the row list back *)
Lemma rows_of_arrays_rows (rows : list row) :
  rows_of_arrays (map (fun r => map fst (r_treats r)) rows) (map (fun r => map snd (r_treats r)) rows)
                 (map r_obs rows) (map r_mask rows) (map r_sample rows) (map r_plate rows) = rows.
Proof.
  induction rows as [|x rows IH]; cbn [map rows_of_arrays]; [reflexivity|].
  rewrite IH, combine_fst_snd. destruct x; reflexivity.
Qed.
