(* C14, one piece of Proofs/C14SourceHelpers.v (which see): ScreenBase.n_plates on a ScreenSubset / Plate object *)
From Coq Require Import ZArith List Bool Arith Lia ZifyBool.
From Batchie Require Import Lib.Sexp Lib.PyRt Generated.Consts Model.Encode Model.Screen Model.Views
  Generated.SrcEncode Generated.SrcViews Generated.SrcPlates
  Proofs.PyRtLemmas Proofs.C01Sort Proofs.C14Defs Proofs.C14Lists Proofs.C14Unique.
Import ListNotations.
Open Scope Z_scope.

Theorem src_view_n_plates_is_model : forall v : view, src_view_n_plates v = Ok (Z.of_nat (length (view_unique_pids v))).
Proof. reflexivity. Qed.
