(* C08 proofs, part 3: the fitted-value cache Mu equals the recomputation after every block
   (under NoSelfCombo), for every draw result; preserved along any sequence of blocks. *)
From Coq Require Import ZArith List QArith Qcanon Lia Arith Bool.
From Batchie Require Import Lib.Num Lib.NumP Model.Gibbs Model.GibbsSpec Proofs.C08Sums Proofs.C08Gauss.
Import ListNotations.
Open Scope Qc_scope.

Lemma list_eq_tab (l : list Qc) n f : length l = n -> (forall i, (i < n)%nat -> vnth l i = f i) -> l = tab n f.
Proof.
  intros Hl H. apply (nth_ext _ _ 0 0).
  - now rewrite tab_length.
  - intros i Hi. rewrite Hl in Hi. fold (vnth l i). fold (vnth (tab n f) i). rewrite vnth_tab by exact Hi. now apply H.
Qed.

Lemma NoDup_app_intro {A} (l1 l2 : list A) :
  NoDup l1 -> NoDup l2 -> (forall x, In x l1 -> In x l2 -> False) -> NoDup (l1 ++ l2).
Proof.
  induction l1 as [|a l1 IH]; intros H1 H2 Hd; cbn [app]; [exact H2|].
  inversion H1 as [|? ? Hn H1']; subst. constructor.
  - intros Hin. apply in_app_or in Hin as [Hin|Hin]; [contradiction|]. eapply Hd; [now left|exact Hin].
  - apply IH; auto. intros x Hx. apply Hd. now right.
Qed.

(* every state a program can return, for all answers to its draws *)
Fixpoint all_rets (P : st -> Prop) (p : prog) : Prop :=
  match p with Ret s => P s | Draw _ k => forall v, all_rets P (k v) end.

Lemma all_rets_bind P p f : all_rets (fun s => all_rets P (f s)) p -> all_rets P (bind p f).
Proof. induction p as [s|dr k IH]; cbn [bind all_rets]; [auto|]. intros H v. apply IH, H. Qed.

Lemma all_rets_weaken (P Q : st -> Prop) p : (forall s, P s -> Q s) -> all_rets P p -> all_rets Q p.
Proof. intros HPQ. induction p as [s|dr k IH]; cbn [all_rets]; [auto|]. intros H v. apply IH, H. Qed.

Lemma all_rets_seq_blocks (P : st -> Prop) blocks :
  (forall b, In b blocks -> forall s v, P s -> P (snd (b s) v)) ->
  forall s, P s -> all_rets P (seq_blocks blocks s).
Proof.
  induction blocks as [|b r IH]; intros Hb s Hs; cbn [seq_blocks all_rets]; [exact Hs|].
  intros v. apply IH; [intros b' Hb'; apply Hb; now right|]. apply Hb; [now left|exact Hs].
Qed.

Section Cache.
Variable g : cfg.
Variable d : data.
Notation D := (c_D g).
Notation n := (nobs d).

Definition Wf (s : st) : Prop :=
  length (W s) = c_ncl g /\ length (W0 s) = c_ncl g /\ length (V2 s) = c_ndd g /\ length (V1 s) = c_ndd g /\ length (V0 s) = c_ndd g.
Definition Inv (s : st) : Prop := cache_ok g d s /\ Wf s.

Lemma cache_len s : cache_ok g d s -> length (Mu s) = n.
Proof. intros H. rewrite H. apply tab_length. Qed.

Lemma cache_step (s s' : st) (pA pB : nat -> bool) (base lA0 lB0 lA1 lB1 : nat -> Qc) :
  ValidData d -> cache_ok g d s ->
  (forall i, (i < n)%nat -> pA i = true -> pB i = true -> False) ->
  (forall i, (i < n)%nat -> spec_mean g d s i = base i + (if pA i then lA0 i else 0) + (if pB i then lB0 i else 0)) ->
  (forall i, (i < n)%nat -> spec_mean g d s' i = base i + (if pA i then lA1 i else 0) + (if pB i then lB1 i else 0)) ->
  Mu s' = scatter_add (Mu s) (filter pA (seq 0 n) ++ filter pB (seq 0 n))
                      (map (fun i => lA1 i - lA0 i) (filter pA (seq 0 n)) ++ map (fun i => lB1 i - lB0 i) (filter pB (seq 0 n))) ->
  cache_ok g d s'.
Proof.
  intros Hv Hc Hdis H0 H1 HMu. unfold cache_ok, reconstruct.
  set (idx := filter pA (seq 0 n) ++ filter pB (seq 0 n)) in *.
  set (h := fun i => if pA i then lA1 i - lA0 i else lB1 i - lB0 i).
  assert (Hdelta : map (fun i => lA1 i - lA0 i) (filter pA (seq 0 n)) ++ map (fun i => lB1 i - lB0 i) (filter pB (seq 0 n)) = map h idx).
  { unfold idx. rewrite map_app. f_equal; apply map_ext_in; intros i Hi; apply filter_In in Hi as [Hi Hp]; apply in_seq in Hi; unfold h.
    - now rewrite Hp.
    - destruct (pA i) eqn:E; [exfalso; eapply (Hdis i); eauto; lia|reflexivity]. }
  rewrite Hdelta in HMu.
  assert (Hin : forall i, In i idx <-> (i < n)%nat /\ (pA i = true \/ pB i = true)).
  { intros i. unfold idx. rewrite in_app_iff, !filter_In, !in_seq. intuition lia. }
  assert (Hnd : NoDup idx).
  { unfold idx. apply NoDup_app_intro; try (apply NoDup_filter, seq_NoDup).
    intros i Ha Hb. apply filter_In in Ha as [Ha Ha'], Hb as [_ Hb']. apply in_seq in Ha. eapply (Hdis i); eauto; lia. }
  apply list_eq_tab.
  - rewrite HMu, scatter_add_length. now apply cache_len.
  - intros i Hi. rewrite HMu, scatter_add_map; [|exact Hnd|intros j Hj; apply Hin in Hj; rewrite (cache_len s Hc); tauto].
    rewrite (mu_at_spec g d s' i Hv), (H1 i Hi), (cache_nth g d s i Hv Hc Hi), (H0 i Hi).
    destruct (in_dec Nat.eq_dec i idx) as [Hi'|Hi'].
    + apply Hin in Hi' as [_ Hp]. unfold h. destruct (pA i) eqn:EA, (pB i) eqn:EB; try ring.
      * exfalso; eapply Hdis; eauto.
      * destruct Hp; discriminate.
    + destruct (pA i) eqn:EA; [exfalso; apply Hi', Hin; auto|].
      destruct (pB i) eqn:EB; [exfalso; apply Hi', Hin; auto|]. ring.
Qed.

(* ---------------------------------------------------------------- W0 *)
Lemma cache_block_W0 s c v :
  ValidData d -> Inv s -> (c < c_ncl g)%nat -> Inv (snd (block_W0 d s c) v).
Proof.
  intros Hv [Hc Hwf] Hlt. pose proof Hwf as (_ & HW0 & _).
  assert (Hlt' : (c < length (W0 s))%nat) by lia.
  pose proof Hv as (Hlen & _).
  set (x := val_q v).
  assert (Hgen : cache_ok g d (set_Mu (upd_W0 s c x)
             (scatter_add (Mu s) (positions (Z.of_nat c) (d_cl d)) (map (fun _ => x - vnth (W0 s) c) (positions (Z.of_nat c) (d_cl d)))))).
  { apply (cache_step s _ (inC d c) (fun _ => false) (spec_mean g d (upd_W0 s c 0)) (fun _ => vnth (W0 s) c) (fun _ => 0) (fun _ => x) (fun _ => 0) Hv Hc).
    - intros; discriminate.
    - intros i _. rewrite <- (upd_W0_same s c) at 1. rewrite (mean_W0 g d s c _ i Hv Hlt'). unfold inC. ring.
    - intros i _. change (spec_mean g d (set_Mu (upd_W0 s c x) _) i) with (spec_mean g d (upd_W0 s c x) i).
      rewrite (mean_W0 g d s c x i Hv Hlt'). unfold inC. ring.
    - cbn [Mu set_Mu]. rewrite filter_false_nil. cbn [map]. rewrite !app_nil_r.
      unfold inC. rewrite <- (positions_eq (Z.of_nat c) (d_cl d) n Hlen). reflexivity. }
  assert (Hwf' : forall M, Wf (set_Mu (upd_W0 s c x) M)).
  { intros M. unfold Wf, upd_W0. cbn [W W0 V2 V1 V0 set_Mu set_W0]. rewrite set_nth_length. exact Hwf. }
  unfold block_W0. destruct (positions (Z.of_nat c) (d_cl d)) as [|i0 l] eqn:E; cbn [snd]; fold x.
  - split.
    + cbn [map] in Hgen. unfold scatter_add in Hgen. cbn [combine map scatter_set] in Hgen.
      unfold cache_ok in *. exact Hgen.
    + apply (Hwf' (Mu s)).
  - split; [exact Hgen|apply Hwf'].
Qed.

(* ---------------------------------------------------------------- V0 *)
Lemma cache_block_V0 s m v :
  ValidData d -> NoSelfCombo d -> Inv s -> (m < c_ndd g)%nat -> Inv (snd (block_V0 d s m) v).
Proof.
  intros Hv Hns [Hc Hwf] Hlt. pose proof Hwf as (_ & _ & _ & _ & HV0).
  assert (Hlt' : (m < length (V0 s))%nat) by lia.
  pose proof Hv as (_ & Hl1 & Hl2 & _).
  set (x := val_q v).
  assert (Hgen : cache_ok g d (set_Mu (upd_V0 s m x)
             (scatter_add (Mu s) (idxV d m) (map (fun _ => x - vnth (V0 s) m) (idxV d m))))).
  { apply (cache_step s _ (in1 d m) (in2 d m) (spec_mean g d (upd_V0 s m 0))
             (fun _ => vnth (V0 s) m) (fun _ => vnth (V0 s) m) (fun _ => x) (fun _ => x) Hv Hc).
    - intros i Hi. now apply in12_disjoint.
    - intros i _. rewrite <- (upd_V0_same s m) at 1. apply (mean_V0 g d s m _ i Hlt').
    - intros i _. change (spec_mean g d (set_Mu (upd_V0 s m x) _) i) with (spec_mean g d (upd_V0 s m x) i).
      apply (mean_V0 g d s m x i Hlt').
    - cbn [Mu set_Mu]. unfold idxV. rewrite map_app.
      rewrite (positions_eq (Z.of_nat m) (d_dd1 d) n Hl1), (positions_eq (Z.of_nat m) (d_dd2 d) n Hl2). reflexivity. }
  assert (Hwf' : forall M, Wf (set_Mu (upd_V0 s m x) M)).
  { intros M. unfold Wf, upd_V0. cbn [W W0 V2 V1 V0 set_Mu set_V0]. rewrite set_nth_length. exact Hwf. }
  unfold block_V0. fold (idxV d m). destruct (idxV d m) as [|i0 l] eqn:E; cbn [snd]; fold x.
  - split.
    + cbn [map] in Hgen. unfold scatter_add in Hgen. cbn [combine map scatter_set] in Hgen.
      unfold cache_ok in *. exact Hgen.
    + apply (Hwf' (Mu s)).
  - split; [exact Hgen|apply Hwf'].
Qed.

Lemma mvn_deltas_rows s X cur w idx :
  mvn_deltas g (mk_rows g d s X cur idx) cur w = map (fun i => vdot D (X i) w - vdot D (X i) cur) idx.
Proof. unfold mvn_deltas, mk_rows. rewrite map_map. reflexivity. Qed.

(* ---------------------------------------------------------------- W *)
Lemma cache_block_W s c v :
  ValidData d -> Inv s -> (c < c_ncl g)%nat -> Inv (snd (block_W g d s c) v).
Proof.
  intros Hv [Hc Hwf] Hlt. pose proof Hwf as (HW & _).
  assert (Hlt' : (c < length (W s))%nat) by lia.
  pose proof Hv as (Hlen & _).
  assert (Hgen : forall w, cache_ok g d (set_Mu (upd_W s c w)
             (scatter_add (Mu s) (positions (Z.of_nat c) (d_cl d))
                (mvn_deltas g (mk_rows g d s (xrow_W g d s) (rnth (W s) c) (positions (Z.of_nat c) (d_cl d))) (rnth (W s) c) w)))).
  { intros w.
    apply (cache_step s _ (inC d c) (fun _ => false) (spec_mean g d (upd_W s c []))
             (fun i => vdot D (xrow_W g d s i) (rnth (W s) c)) (fun _ => 0) (fun i => vdot D (xrow_W g d s i) w) (fun _ => 0) Hv Hc).
    - intros; discriminate.
    - intros i _. rewrite <- (upd_W_same s c) at 1. rewrite (mean_W g d s c _ i Hv Hlt'). ring.
    - intros i _. change (spec_mean g d (set_Mu (upd_W s c w) _) i) with (spec_mean g d (upd_W s c w) i).
      rewrite (mean_W g d s c w i Hv Hlt'). ring.
    - cbn [Mu set_Mu]. rewrite mvn_deltas_rows, filter_false_nil. cbn [map]. rewrite !app_nil_r.
      unfold inC. rewrite <- (positions_eq (Z.of_nat c) (d_cl d) n Hlen). reflexivity. }
  assert (Hwf' : forall w M, Wf (set_Mu (upd_W s c w) M)).
  { intros w M. unfold Wf, upd_W. cbn [W W0 V2 V1 V0 set_Mu set_W]. rewrite set_nth_length. exact Hwf. }
  unfold block_W. destruct (positions (Z.of_nat c) (d_cl d)) as [|i0 l] eqn:E; cbn [snd].
  - split.
    + specialize (Hgen (val_v v)). unfold mk_rows, mvn_deltas, scatter_add in Hgen. cbn [combine map scatter_set] in Hgen.
      unfold cache_ok in *. exact Hgen.
    + apply (Hwf' (val_v v) (Mu s)).
  - destruct v as [q|w|mm|]; try (split; assumption). split; [apply Hgen|apply Hwf'].
Qed.

(* ---------------------------------------------------------------- V2 / V1 *)
Lemma cache_block_V2 s m v :
  ValidData d -> NoSelfCombo d -> Inv s -> (m < c_ndd g)%nat -> Inv (snd (block_V2 g d s m) v).
Proof.
  intros Hv Hns [Hc Hwf] Hlt. pose proof Hwf as (_ & _ & HV2 & _).
  assert (Hlt' : (m < length (V2 s))%nat) by lia.
  pose proof Hv as (_ & Hl1 & Hl2 & _).
  set (idx1 := positions (Z.of_nat m) (d_dd1 d)). set (idx2 := positions (Z.of_nat m) (d_dd2 d)).
  set (cur := rnth (V2 s) m).
  assert (Hgen : forall w, cache_ok g d (set_Mu (upd_V2 s m w)
             (scatter_add (Mu s) (idx1 ++ idx2)
                (mvn_deltas g (mk_rows g d s (xrow_V2a g d s) cur idx1 ++ mk_rows g d s (xrow_V2b g d s) cur idx2) cur w)))).
  { intros w.
    apply (cache_step s _ (in1 d m) (in2 d m) (spec_mean g d (upd_V2 s m []))
             (fun i => vdot D (xrow_V2a g d s i) cur) (fun i => vdot D (xrow_V2b g d s i) cur)
             (fun i => vdot D (xrow_V2a g d s i) w) (fun i => vdot D (xrow_V2b g d s i) w) Hv Hc).
    - intros i Hi. now apply in12_disjoint.
    - intros i Hi. rewrite <- (upd_V2_same s m) at 1. apply (mean_V2 g d s m _ i Hv Hns Hi Hlt').
    - intros i Hi. change (spec_mean g d (set_Mu (upd_V2 s m w) _) i) with (spec_mean g d (upd_V2 s m w) i).
      apply (mean_V2 g d s m w i Hv Hns Hi Hlt').
    - cbn [Mu set_Mu]. unfold mvn_deltas. rewrite map_app. fold (mvn_deltas g (mk_rows g d s (xrow_V2a g d s) cur idx1) cur w).
      fold (mvn_deltas g (mk_rows g d s (xrow_V2b g d s) cur idx2) cur w). rewrite !mvn_deltas_rows.
      unfold idx1, idx2. rewrite (positions_eq (Z.of_nat m) (d_dd1 d) n Hl1), (positions_eq (Z.of_nat m) (d_dd2 d) n Hl2). reflexivity. }
  assert (Hwf' : forall w M, Wf (set_Mu (upd_V2 s m w) M)).
  { intros w M. unfold Wf, upd_V2. cbn [W W0 V2 V1 V0 set_Mu set_V2]. rewrite set_nth_length. exact Hwf. }
  unfold block_V2, block_V. fold idx1 idx2 cur. destruct (idx1 ++ idx2) as [|i0 l] eqn:E; cbn [snd].
  - split.
    + specialize (Hgen (val_v v)). apply app_eq_nil in E as [E1 E2]. rewrite E1, E2 in Hgen.
      unfold mk_rows, mvn_deltas, scatter_add in Hgen. cbn [app combine map scatter_set] in Hgen.
      unfold cache_ok in *. exact Hgen.
    + apply (Hwf' (val_v v) (Mu s)).
  - destruct v as [q|w|mm|]; try (split; assumption). split; [apply Hgen|apply Hwf'].
Qed.

Lemma cache_block_V1 s m v :
  ValidData d -> NoSelfCombo d -> Inv s -> (m < c_ndd g)%nat -> Inv (snd (block_V1 g d s m) v).
Proof.
  intros Hv Hns [Hc Hwf] Hlt. pose proof Hwf as (_ & _ & _ & HV1 & _).
  assert (Hlt' : (m < length (V1 s))%nat) by lia.
  pose proof Hv as (_ & Hl1 & Hl2 & _).
  set (idx1 := positions (Z.of_nat m) (d_dd1 d)). set (idx2 := positions (Z.of_nat m) (d_dd2 d)).
  set (cur := rnth (V1 s) m).
  assert (Hgen : forall w, cache_ok g d (set_Mu (upd_V1 s m w)
             (scatter_add (Mu s) (idx1 ++ idx2)
                (mvn_deltas g (mk_rows g d s (xrow_V1 g d s) cur idx1 ++ mk_rows g d s (xrow_V1 g d s) cur idx2) cur w)))).
  { intros w.
    apply (cache_step s _ (in1 d m) (in2 d m) (spec_mean g d (upd_V1 s m []))
             (fun i => vdot D (xrow_V1 g d s i) cur) (fun i => vdot D (xrow_V1 g d s i) cur)
             (fun i => vdot D (xrow_V1 g d s i) w) (fun i => vdot D (xrow_V1 g d s i) w) Hv Hc).
    - intros i Hi. now apply in12_disjoint.
    - intros i Hi. rewrite <- (upd_V1_same s m) at 1. apply (mean_V1 g d s m _ i Hv Hlt').
    - intros i Hi. change (spec_mean g d (set_Mu (upd_V1 s m w) _) i) with (spec_mean g d (upd_V1 s m w) i).
      apply (mean_V1 g d s m w i Hv Hlt').
    - cbn [Mu set_Mu]. unfold mvn_deltas. rewrite map_app. fold (mvn_deltas g (mk_rows g d s (xrow_V1 g d s) cur idx1) cur w).
      fold (mvn_deltas g (mk_rows g d s (xrow_V1 g d s) cur idx2) cur w). rewrite !mvn_deltas_rows.
      unfold idx1, idx2. rewrite (positions_eq (Z.of_nat m) (d_dd1 d) n Hl1), (positions_eq (Z.of_nat m) (d_dd2 d) n Hl2). reflexivity. }
  assert (Hwf' : forall w M, Wf (set_Mu (upd_V1 s m w) M)).
  { intros w M. unfold Wf, upd_V1. cbn [W W0 V2 V1 V0 set_Mu set_V1]. rewrite set_nth_length. exact Hwf. }
  unfold block_V1, block_V. fold idx1 idx2 cur. destruct (idx1 ++ idx2) as [|i0 l] eqn:E; cbn [snd].
  - split.
    + specialize (Hgen (val_v v)). apply app_eq_nil in E as [E1 E2]. rewrite E1, E2 in Hgen.
      unfold mk_rows, mvn_deltas, scatter_add in Hgen. cbn [app combine map scatter_set] in Hgen.
      unfold cache_ok in *. exact Hgen.
    + apply (Hwf' (val_v v) (Mu s)).
  - destruct v as [q|w|mm|]; try (split; assumption). split; [apply Hgen|apply Hwf'].
Qed.

(* ---------------------------------------------------------------- alpha, reconstruction, precisions *)
Lemma vnth_map (f : Qc -> Qc) l i : (i < length l)%nat -> vnth (map f l) i = f (vnth l i).
Proof.
  intros Hi. unfold vnth. rewrite (nth_indep _ 0 (f 0)) by (now rewrite map_length). apply map_nth.
Qed.

Lemma cache_alpha s : ValidData d -> Inv s -> Inv (alpha_step d s).
Proof.
  intros Hv [Hc Hwf]. unfold alpha_step. destruct (nobs d) as [|n0] eqn:En; [split; assumption|].
  split; [|exact Hwf]. unfold cache_ok, reconstruct. cbn [Mu set_Mu]. rewrite En. apply list_eq_tab.
  - rewrite map_length, (cache_len s Hc). exact En.
  - intros i Hi. rewrite <- En in Hi. rewrite vnth_map by (now rewrite (cache_len s Hc)).
    rewrite (cache_nth g d s i Hv Hc Hi), (mu_at_spec g d _ i Hv). unfold spec_mean.
    cbn [W0 W V0 V1 V2 alpha set_Mu set_alpha]. ring.
Qed.

Lemma cache_reconstruct s : Inv s -> Inv (reconstruct_Mu g d false s).
Proof.
  intros [Hc Hwf]. unfold reconstruct_Mu. destruct (nobs d); [split; assumption|]. split; [reflexivity|exact Hwf].
Qed.

Variable orc : oracle.

Lemma cache_prec_W0 s : Inv s -> all_rets Inv (prog_prec_W0 g d orc s).
Proof. intros [Hc Hwf]. unfold prog_prec_W0. cbn [all_rets]. intros v. split; [exact Hc|exact Hwf]. Qed.
Lemma cache_prec_obs s : Inv s -> all_rets Inv (prog_prec_obs g d orc s).
Proof. intros [Hc Hwf]. unfold prog_prec_obs. destruct (nobs d); cbn [all_rets]; intros v; (split; [exact Hc|exact Hwf]). Qed.
Lemma cache_prec_V0 s : Inv s -> all_rets Inv (prog_prec_V0 g d orc s).
Proof. intros [Hc Hwf]. unfold prog_prec_V0. cbn [all_rets]. intros v1 v2 v3 v4. split; [exact Hc|exact Hwf]. Qed.
Lemma cache_prec_V2 s : Inv s -> all_rets Inv (prog_prec_V2 g d orc s).
Proof. intros [Hc Hwf]. unfold prog_prec_V2, prog_prec_Vk. cbn [all_rets]. intros v1 v2 v3 v4. split; [exact Hc|exact Hwf]. Qed.
Lemma cache_prec_V1 s : Inv s -> all_rets Inv (prog_prec_V1 g d orc s).
Proof. intros [Hc Hwf]. unfold prog_prec_V1, prog_prec_Vk. cbn [all_rets]. intros v1 v2 v3 v4. split; [exact Hc|exact Hwf]. Qed.
Lemma cache_prog_gam ds : forall s, Inv s -> all_rets Inv (prog_gam g d orc ds s).
Proof.
  induction ds as [|dd r IH]; intros s [Hc Hwf]; cbn [prog_gam all_rets].
  - split; [exact Hc|exact Hwf].
  - intros v. apply IH. split; [exact Hc|exact Hwf].
Qed.

Lemma step_inv b s : ValidData d -> NoSelfCombo d -> Inv s -> all_rets Inv (step_prog g d orc b s).
Proof.
  intros Hv Hns Hi. destruct b; cbn [step_prog].
  - cbn [all_rets]. now apply cache_reconstruct.
  - cbn [all_rets]. now apply cache_alpha.
  - apply all_rets_seq_blocks; [|exact Hi]. intros b Hb s0 v Hs0. apply in_map_iff in Hb as (c & <- & Hc). apply in_seq in Hc.
    apply cache_block_W0; (assumption || lia).
  - apply all_rets_seq_blocks; [|exact Hi]. intros b Hb s0 v Hs0. apply in_map_iff in Hb as (c & <- & Hc). apply in_seq in Hc.
    apply cache_block_V0; (assumption || lia).
  - apply all_rets_seq_blocks; [|exact Hi]. intros b Hb s0 v Hs0. apply in_map_iff in Hb as (c & <- & Hc). apply in_seq in Hc.
    apply cache_block_W; (assumption || lia).
  - apply all_rets_seq_blocks; [|exact Hi]. intros b Hb s0 v Hs0. apply in_map_iff in Hb as (c & <- & Hc). apply in_seq in Hc.
    apply cache_block_V2; (assumption || lia).
  - apply all_rets_seq_blocks; [|exact Hi]. intros b Hb s0 v Hs0. apply in_map_iff in Hb as (c & <- & Hc). apply in_seq in Hc.
    apply cache_block_V1; (assumption || lia).
  - now apply cache_prec_W0.
  - now apply cache_prec_V0.
  - now apply cache_prec_obs.
  - now apply cache_prec_V2.
  - now apply cache_prec_V1.
  - now apply cache_prog_gam.
Qed.

(* after any sequence of step functions - in particular after every prefix of one sweep and
   after any number of sweeps - the cache is exact, whatever the draws returned *)
Theorem cache_invariant bs s :
  ValidData d -> NoSelfCombo d -> Inv s -> all_rets Inv (run_blocks g d orc bs s).
Proof.
  intros Hv Hns Hi. unfold run_blocks.
  assert (H : forall p, all_rets Inv p -> all_rets Inv (fold_left (fun p b => bind p (step_prog g d orc b)) bs p)).
  { induction bs as [|b r IH]; intros p Hp; cbn [fold_left]; [exact Hp|].
    apply IH. apply all_rets_bind. eapply all_rets_weaken; [|exact Hp]. intros s0 Hs0. now apply step_inv. }
  apply H. exact Hi.
Qed.

Corollary cache_invariant_steps k s :
  ValidData d -> NoSelfCombo d -> Inv s -> all_rets Inv (run_blocks g d orc (concat (repeat step_order k)) s).
Proof. apply cache_invariant. Qed.
End Cache.

(* ---------------------------------------------------------------- without NoSelfCombo the invariant fails *)
Definition wit_cfg : cfg := {| c_D := 1; c_ndd := 1; c_ncl := 1; c_a0 := 1; c_b0 := 1; c_minMu := - qofZ 10; c_maxMu := qofZ 10 |}.
(* one observation: sample 0 treated with treatment 0 in both columns *)
Definition wit_data : data := {| d_y := [0]; d_cl := [0%Z]; d_dd1 := [0%Z]; d_dd2 := [0%Z] |}.
Definition wit_state : st :=
  {| W := [[0]]; W0 := [0]; V2 := [[0]]; V1 := [[0]]; V0 := [0]; alpha := 0; prec := 1; tau := [1]; tau0 := 1;
     phi2 := [[1]]; phi1 := [[1]]; phi0 := [1]; eta2 := [1]; eta1 := [1]; eta0 := 1; gam := [1]; Mu := [0] |}.

Lemma wit_valid : ValidData wit_data.
Proof.
  unfold ValidData, wit_data, nobs, znth. cbn [d_y d_cl d_dd1 d_dd2 length].
  repeat split; try reflexivity; intros [|[|i]]; cbn [nth]; lia.
Qed.

Theorem cache_refuted :
  exists g d s v, ValidData d /\ Inv g d s /\ ~ NoSelfCombo d /\ ~ cache_ok g d (snd (block_V0 d s 0) v).
Proof.
  exists wit_cfg, wit_data, wit_state, (VQ 1). split; [exact wit_valid|]. split; [|split].
  - split; [|repeat split]. unfold cache_ok. apply (nth_ext _ _ 0 0); [reflexivity|].
    intros [|i] Hi; [|cbn in Hi; lia]. apply Qc_is_canon. vm_compute. reflexivity.
  - intros H. destruct (H 0%nat) as [H0|H0]; [cbn; lia|discriminate H0|apply H0; reflexivity].
  - unfold cache_ok. intros H. apply (f_equal (fun l => this (vnth l 0))) in H. vm_compute in H. discriminate H.
Qed.
