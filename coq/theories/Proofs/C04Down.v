(* C04 downstream non-interference, model level: every stage input is a function of Train.downstream_input, and the whole
   loop iteration of Model/Downstream.v (training, sampler sweeps, distance pipeline, chunked scores, selection with or
   without a KPerSample policy) answers alike on two screens that differ only behind the mask. *)
From Coq Require Import ZArith List Bool QArith Qcanon Lia.
From Batchie Require Import Lib.Sexp Lib.Num Model.Train Model.Downstream Proofs.C04Train.
From Batchie Require Model.Scores Model.Policy Model.Gibbs Model.DistMat.
Import ListNotations.
Open Scope Z_scope.

(* ---- the four projections factor through downstream_input ---- *)
Lemma scores_screen_factors (rows : list trow) : scores_screen_of rows = dn_scores_screen (downstream_input rows).
Proof. unfold scores_screen_of, dn_scores_screen, downstream_input. rewrite map_map. reflexivity. Qed.

Lemma pred_rows_factors (rows : list trow) : pred_rows_of rows = dn_pred_rows (downstream_input rows).
Proof. unfold pred_rows_of, dn_pred_rows, downstream_input. rewrite map_map. reflexivity. Qed.

Lemma filter_map_comm {A B} (f : A -> B) (p : B -> bool) (l : list A) :
  filter p (map f l) = map f (filter (fun x => p (f x)) l).
Proof. induction l as [|a l IH]; [reflexivity|]. cbn [map filter]. destruct (p (f a)); cbn [map]; now rewrite IH. Qed.

Lemma forallb_map {A B} (f : A -> B) (p : B -> bool) (l : list A) : forallb p (map f l) = forallb (fun x => p (f x)) l.
Proof. induction l as [|a l IH]; [reflexivity|]. cbn [map forallb]. now rewrite IH. Qed.

Lemma policy_plates_factors (rows : list trow) : policy_plates_of rows = dn_policy_plates (downstream_input rows).
Proof.
  unfold policy_plates_of, dn_policy_plates, downstream_input. rewrite map_map. cbn [downstream_row d_plate].
  apply map_ext. intros pid. rewrite filter_map_comm. cbn [downstream_row d_plate].
  rewrite !map_map, forallb_map. reflexivity.
Qed.

Lemma train_factors (rows : list trow) : train_input rows = dn_train (downstream_input rows).
Proof. exact (train_input_factors rows). Qed.

Lemma views_factor_full (rows : list trow) :
  scores_screen_of rows = dn_scores_screen (downstream_input rows) /\
  policy_plates_of rows = dn_policy_plates (downstream_input rows) /\
  pred_rows_of rows = dn_pred_rows (downstream_input rows) /\
  train_input rows = dn_train (downstream_input rows).
Proof.
  exact (conj (scores_screen_factors rows) (conj (policy_plates_factors rows)
        (conj (pred_rows_factors rows) (train_factors rows)))).
Qed.

Lemma views_noninterference (s1 s2 : list trow) : same_except_masked s1 s2 ->
  scores_screen_of s1 = scores_screen_of s2 /\ policy_plates_of s1 = policy_plates_of s2 /\
  pred_rows_of s1 = pred_rows_of s2 /\ train_input s1 = train_input s2.
Proof.
  intros H. apply downstream_frame in H.
  rewrite !scores_screen_factors, !policy_plates_factors, !pred_rows_factors, !train_factors, H. repeat split.
Qed.

(* ---- stage by stage ---- *)
Section Loop.
Variables (V : Type) (vzero : V).
Variable predict : Gibbs.st -> list (Z * list Z) -> list Qc.
Variable metric : list Qc -> list Qc -> V.
Variable scorer : list Gibbs.st -> list (list V) -> Scores.scorer_fn.
Variable orc : oracle.
Variable r32 : Qc -> oval.

Lemma loop_thetas_noninterference (c : loop_cfg) (s1 s2 : list trow) : same_except_masked s1 s2 ->
  loop_thetas orc r32 c s1 = loop_thetas orc r32 c s2.
Proof. intros H. unfold loop_thetas. now rewrite (train_sdc_noninterference orc r32 s1 s2 H). Qed.

(* the sampler's data are the training trips of the OBSERVED rows: what the posterior samples are computed from *)
Lemma loop_thetas_data (c : loop_cfg) (rows : list trow) (th : list Gibbs.st) :
  loop_thetas orc r32 c rows = Ok th ->
  exists t d, train_sdc orc r32 rows = Ok t /\ gibbs_data t = Some d /\
    t = map (fun r => {| tr_y := ologit orc (oclip (cast32 r32 (t_obs r))); tr_cl := t_sample r;
                         tr_d1 := nth 0 (t_treats r) 0; tr_d2 := nth 1 (t_treats r) 0 |}) (filter t_mask rows) /\
    Gibbs.d_cl d = map t_sample (filter t_mask rows) /\
    run_sweeps (lc_g c) d orc (lc_s0 c) (lc_vals c) = Some th.
Proof.
  unfold loop_thetas. intros H.
  destruct (train_sdc orc r32 rows) as [t|e] eqn:Ht; [|discriminate]. cbn [res_bind] in H.
  destruct (gibbs_data t) as [d|] eqn:Hd; [|discriminate].
  destruct (run_sweeps (lc_g c) d orc (lc_s0 c) (lc_vals c)) as [th'|] eqn:Hr; [|discriminate].
  inversion H; subst th'. exists t, d.
  pose proof (proj1 (sdc_exactly_once_full orc r32 rows) t Ht) as Hdoc.
  repeat split; try assumption.
  unfold gibbs_data in Hd. destruct (all_some _); [|discriminate]. inversion Hd; subst d. cbn [Gibbs.d_cl].
  rewrite Hdoc, map_map. reflexivity.
Qed.

Lemma loop_iteration_noninterference (c : loop_cfg) (s1 s2 : list trow) : same_except_masked s1 s2 ->
  loop_iteration V vzero predict metric scorer orc r32 c s1 = loop_iteration V vzero predict metric scorer orc r32 c s2.
Proof.
  intros H. unfold loop_iteration.
  rewrite (loop_thetas_noninterference c s1 s2 H), (downstream_frame s1 s2 H). reflexivity.
Qed.

(* every stage after training reads the projection only: stated as the equation that defines the iteration *)
Lemma loop_iteration_factors (c : loop_cfg) (rows : list trow) :
  loop_iteration V vzero predict metric scorer orc r32 c rows =
  (dor th <- (match dn_train (downstream_input rows) with
              | Some o => dor t <- sdc_add orc r32 [] o;
                          match gibbs_data t with
                          | None => Err 3
                          | Some d => match run_sweeps (lc_g c) d orc (lc_s0 c) (lc_vals c) with
                                      | Some th => Ok th | None => Err 9 end
                          end
              | None => match run_sweeps (lc_g c) {| Gibbs.d_y := []; Gibbs.d_cl := []; Gibbs.d_dd1 := []; Gibbs.d_dd2 := [] |}
                                orc (lc_s0 c) (lc_vals c) with
                        | Some th => Ok th | None => Err 9 end
              end);
   dor dm <- loop_dist V vzero predict metric c th (downstream_input rows);
   dor h <- loop_scores V scorer c th dm (downstream_input rows);
   dor sel <- loop_select c h (downstream_input rows);
   Ok (th, dm, h, sel)).
Proof.
  unfold loop_iteration, loop_thetas, train_sdc. rewrite <- train_factors.
  destruct (train_input rows) as [o|]; reflexivity.
Qed.
End Loop.
