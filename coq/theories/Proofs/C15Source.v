(* C15 source link: the hand-written unranking model Model/Unrank.v equals the Gallina translation of the WHOLE
   generator batchie.scoring.gaussian_dbal.generate_combination_at_sorted_index and of its wrapper
   get_combination_at_sorted_index, regenerated from /repo on every run (Generated/SrcUnrank.v, by harness/py2gal.py:
   a generator denotes the list it yields; the `while current_index - n_ck > index` loop is recursion on the explicit
   fuel parameter; every // and % is checked, ZeroDivisionError = Err 8).
   Shape of the argument:
     first loop   the product loop over zip(range(n, n-k, -1), range(1, k+1)) divides by 1, 2, ..., k only: never an
                  error, and it is init_nck (for k <= 0 both ranges are empty)
     while loop   res_while on F units of fuel equals the model's unrank_inner on f < F units whenever the model does
                  not run out (Err 9); `n_ck % k` never raises because k comes from range(k, 0, -1), i.e. k >= 1
     outer loop   the translation appends what the model conses; n never increases, so the fuel the model gives each
                  while loop (n + 1) stays below the translation's
   The model's own fuel is never exhausted for n >= 0 (C15Unrank.unrank_no_fuel_error), which removes that hypothesis. *)
From Coq Require Import ZArith List Bool Lia Arith.
From Batchie Require Import Lib.Sexp Lib.PyRt Model.Unrank Model.Binom Generated.SrcUnrank
  Proofs.PyRtLemmas Proofs.C15Binom Proofs.C15Unrank.
Import ListNotations.
Open Scope Z_scope.

(* ---------------------------------------------------------------- lists *)
Lemma combine_map_same {A B C : Type} (f : A -> B) (g : A -> C) : forall l : list A,
  combine (map f l) (map g l) = map (fun x => (f x, g x)) l.
Proof. induction l as [|a l IH]; cbn [map combine]; [reflexivity | now rewrite IH]. Qed.

Lemma fold_left_map_in {A B S : Type} (g : S -> B -> S) (h : A -> B) : forall (l : list A) (s : S),
  fold_left g (map h l) s = fold_left (fun s x => g s (h x)) l s.
Proof. induction l as [|a l IH]; intros s; cbn [map fold_left]; [reflexivity | apply IH]. Qed.

Lemma fold_left_ext_all {A S : Type} (g g' : S -> A -> S) : (forall s a, g s a = g' s a) ->
  forall (l : list A) (s : S), fold_left g l s = fold_left g' l s.
Proof. intros H l; induction l as [|a l IH]; intros s; cbn [fold_left]; [reflexivity | now rewrite H, IH]. Qed.

(* a loop whose body does not raise on the elements it meets is a fold_left *)
Lemma res_fold_pure_on {S A : Type} (P : A -> Prop) (f : S -> A -> result S) (g : S -> A -> S) :
  (forall s a, P a -> f s a = Ok (g s a)) ->
  forall l s, Forall P l -> res_fold f l s = Ok (fold_left g l s).
Proof.
  intros H l; induction l as [|a l IH]; intros s HP; cbn [res_fold fold_left]; [reflexivity|].
  inversion HP as [|a' l' Ha Hl]; subst. rewrite (H s a Ha). cbn [res_bind]. apply IH. exact Hl.
Qed.

(* ---------------------------------------------------------------- the two ranges *)
Lemma range_down_of_nat : forall K : nat,
  map (fun i => Z.of_nat K - Z.of_nat i) (seq 0 K) = krange K.
Proof.
  induction K as [|K IH]; [reflexivity|].
  rewrite krange_S. cbn [seq map]. rewrite <- seq_shift, map_map. apply (f_equal2 cons); [lia|].
  rewrite <- IH. apply map_ext. intros i. lia.
Qed.

(* range(k, 0, -1) is the model's krange; empty for k <= 0 *)
Lemma range_down_krange : forall k : Z, range_down k 0 = krange (Z.to_nat k).
Proof.
  intros k. unfold range_down. rewrite Z.sub_0_r.
  destruct (Z_le_gt_dec k 0) as [Hk | Hk].
  - replace (Z.to_nat k) with 0%nat by lia. reflexivity.
  - rewrite <- range_down_of_nat. apply map_ext. intros i. lia.
Qed.

Lemma krange_nonzero : forall K, Forall (fun k => k <> 0) (krange K).
Proof.
  intros K. unfold krange. apply Forall_forall. intros x Hx.
  apply in_map_iff in Hx. destruct Hx as [i [<- Hi]]. apply in_rev, in_seq in Hi. lia.
Qed.

(* zip(range(n, n - k, -1), range(1, k + 1)) = (n, 1), (n-1, 2), ..., (n-k+1, k) *)
Lemma init_pairs : forall n k : Z,
  combine (range_down n (n - k)) (range_up 1 (k + 1))
  = map (fun i => (n - Z.of_nat i, 1 + Z.of_nat i)) (seq 0 (Z.to_nat k)).
Proof.
  intros n k. unfold range_down, range_up.
  replace (n - (n - k)) with k by lia. replace (k + 1 - 1) with k by lia.
  apply combine_map_same.
Qed.

(* ---------------------------------------------------------------- the product loop *)
Definition init_body : Z -> Z * Z -> result Z :=
  fun (n_ck : Z) '(n_minus_i, i_plus_1) => dor r <- checked_div 8 (n_ck * n_minus_i) i_plus_1; Ok r.

Lemma init_loop : forall n k : Z,
  res_fold init_body (combine (range_down n (n - k)) (range_up 1 (k + 1))) 1 = Ok (init_nck n (Z.to_nat k)).
Proof.
  intros n k. rewrite init_pairs.
  rewrite (res_fold_pure_on (fun p : Z * Z => snd p <> 0) init_body (fun acc p => acc * fst p / snd p)).
  - f_equal. unfold init_nck. rewrite <- seq_shift. rewrite !fold_left_map_in.
    apply fold_left_ext_all. intros s i. cbn [fst snd]. f_equal; [f_equal|]; lia.
  - intros s [a b] Hb. cbn [snd fst] in *. unfold init_body, checked_div.
    destruct (b =? 0) eqn:E; [apply Z.eqb_eq in E; contradiction | reflexivity].
  - apply Forall_forall. intros p Hp. apply in_map_iff in Hp. destruct Hp as [i [<- _]]. cbn [snd]. lia.
Qed.

(* ---------------------------------------------------------------- the while loop *)
Definition inner_body (index k : Z) : Z * Z * Z -> result (bool * (Z * Z * Z)) :=
  fun '(current_index, n_ck, n) =>
    if current_index - n_ck >? index then
      dor r6 <- checked_mod 8 (n_ck * (n - k)) k;
      dor r7 <- checked_div 8 (n_ck * (n - k) - r6) (n - 1);
      Ok (true, (current_index - n_ck, r7, n - 1))
    else Ok (false, (current_index, n_ck, n)).

(* on more fuel than the model's, the translated loop is the model's loop wherever the model does not run out *)
Lemma inner_link : forall index k, k <> 0 ->
  forall f F cur nck n, (f < F)%nat ->
    unrank_inner f index k cur nck n <> Err 9 ->
    res_while F (inner_body index k) (cur, nck, n) = unrank_inner f index k cur nck n.
Proof.
  intros index k Hk. induction f as [|f IH]; intros F cur nck n HF Hne; (destruct F as [|F]; [lia|]);
    cbn [res_while]; rewrite unrank_inner_eq in *; unfold inner_body at 1;
    destruct (cur - nck >? index) eqn:Ht; cbn [res_bind fst snd]; try reflexivity.
  - exfalso. apply Hne. reflexivity.
  - unfold checked_mod. destruct (k =? 0) eqn:Ek; [apply Z.eqb_eq in Ek; contradiction|].
    cbn [res_bind]. unfold checked_div.
    destruct (n - 1 =? 0) eqn:En; cbn [res_bind fst snd]; [reflexivity|].
    apply IH; [lia | exact Hne].
Qed.

Lemma inner_n_le : forall f index k cur nck n c nk n',
  unrank_inner f index k cur nck n = Ok (c, nk, n') -> n' <= n.
Proof.
  induction f as [|f IH]; intros index k cur nck n c nk n' H; rewrite unrank_inner_eq in H;
    destruct (cur - nck >? index); try discriminate; try (injection H as _ _ <-; lia).
  destruct (n - 1 =? 0); [discriminate|]. apply IH in H. lia.
Qed.

(* ---------------------------------------------------------------- the loop over k *)
Definition outer_body (fuel : nat) (index : Z) : Z * Z * Z * Z * list Z -> Z -> result (Z * Z * Z * Z * list Z) :=
  fun '(k0, n_ck, current_index, n, yielded) k =>
    dor r5 <- checked_div 8 (n_ck * k) n;
    dor (current_index, n_ck, n) <- res_while fuel (inner_body index k) (current_index, r5, n);
    Ok (k, n_ck, current_index, n - 1, yielded ++ [n - 1]).

Lemma outer_link : forall fuel index ks k0 nck cur n y,
  Forall (fun k => k <> 0) ks ->
  (S (Z.to_nat n) < fuel)%nat ->
  unrank_outer index ks cur nck n <> Err 9 ->
  (dor (_, _, _, _, yielded) <- res_fold (outer_body fuel index) ks (k0, nck, cur, n, y); Ok yielded)
  = dor rest <- unrank_outer index ks cur nck n; Ok (y ++ rest).
Proof.
  intros fuel index ks. induction ks as [|k ks IH]; intros k0 nck cur n y Hks Hf Hne.
  - cbn [res_fold unrank_outer res_bind]. now rewrite app_nil_r.
  - inversion Hks as [|k' ks' Hk Hks']; subst.
    cbn [res_fold unrank_outer] in *. unfold outer_body at 1. unfold checked_div.
    destruct (n =? 0) eqn:En; cbn [res_bind]; [reflexivity|].
    destruct (unrank_inner (S (Z.to_nat n)) index k cur (nck * k / n) n) as [[[c' nk'] n'']|t] eqn:E.
    + rewrite (inner_link index k Hk (S (Z.to_nat n)) fuel) by (try lia; rewrite E; discriminate).
      rewrite E. cbn [res_bind] in *.
      pose proof (inner_n_le _ _ _ _ _ _ _ _ _ E) as Hle.
      rewrite IH; [| exact Hks' | lia |].
      * destruct (unrank_outer index ks c' nk' (n'' - 1)) as [rest|t]; cbn [res_bind]; [|reflexivity].
        rewrite <- app_assoc. reflexivity.
      * intros X. apply Hne. rewrite X. reflexivity.
    + rewrite (inner_link index k Hk (S (Z.to_nat n)) fuel); [| lia |].
      * rewrite E. reflexivity.
      * rewrite E. intros X. apply Hne. cbn [res_bind]. injection X as ->. reflexivity.
Qed.

(* ---------------------------------------------------------------- the whole generator *)
(* the generated definition is, up to conversion (let-bindings, the names of bound variables), the three loops above *)
Lemma src_generate_unfold : forall index n k fuel,
  src_generate_combination_at_sorted_index index n k fuel =
  dor nck <- res_fold init_body (combine (range_down n (n - k)) (range_up 1 (k + 1))) 1;
  dor (_, _, _, _, yielded) <- res_fold (outer_body fuel index) (range_down k 0) (k, nck, nck, n, []);
  Ok yielded.
Proof. reflexivity. Qed.

(* for ALL integer inputs: wherever the model's own fuel suffices, the translation on n + 2 or more units of fuel is
   the model (k <= 0: nothing is yielded) *)
Theorem src_generate_is_unrank_when_model_has_fuel : forall fuel index n k,
  unrank index n (Z.to_nat k) <> Err 9 -> (S (Z.to_nat n) < fuel)%nat ->
  src_generate_combination_at_sorted_index index n k fuel = unrank index n (Z.to_nat k).
Proof.
  intros fuel index n k Hne Hf. rewrite src_generate_unfold, init_loop. cbn [res_bind].
  rewrite range_down_krange. unfold unrank in *.
  rewrite outer_link; [| apply krange_nonzero | exact Hf | exact Hne].
  destruct (unrank_outer index (krange (Z.to_nat k)) (init_nck n (Z.to_nat k)) (init_nck n (Z.to_nat k)) n);
    reflexivity.
Qed.

(* n >= 0 (the property's domain; every call site passes a count): the model never runs out of fuel, so the
   hypothesis about it disappears - for EVERY index, in range or not, and every k *)
Theorem src_generate_is_unrank : forall fuel index n k,
  0 <= n -> (S (Z.to_nat n) < fuel)%nat ->
  src_generate_combination_at_sorted_index index n k fuel = unrank index n (Z.to_nat k).
Proof.
  intros fuel index n k Hn Hf. apply src_generate_is_unrank_when_model_has_fuel; [|exact Hf].
  apply unrank_no_fuel_error. exact Hn.
Qed.

Theorem src_get_is_unrank : forall fuel index n k,
  0 <= n -> (S (Z.to_nat n) < fuel)%nat ->
  src_get_combination_at_sorted_index index n k fuel = unrank index n (Z.to_nat k).
Proof.
  intros fuel index n k Hn Hf. unfold src_get_combination_at_sorted_index.
  rewrite (src_generate_is_unrank fuel index n k Hn Hf).
  destruct (unrank index n (Z.to_nat k)); reflexivity.
Qed.

(* no fuel in sight: at the fuel n + 2 the translation IS the model on the property's domain *)
Theorem src_get_is_unrank_at_fuel : forall index n (k : nat),
  0 <= n -> src_get_combination_at_sorted_index index n (Z.of_nat k) (S (S (Z.to_nat n))) = unrank index n k.
Proof.
  intros index n k Hn. rewrite src_get_is_unrank by (try exact Hn; lia).
  now rewrite Nat2Z.id.
Qed.

(* the property's first clause read on the translated source: for 0 <= index < C(n,k) the translated wrapper, on any
   fuel above n + 1, returns a strictly descending k-tuple below n whose rank is the index *)
Theorem src_get_ok_descending_rank : forall fuel n (k : nat) index,
  0 <= n -> 0 <= index < Cz n k -> (S (Z.to_nat n) < fuel)%nat ->
  exists c, src_get_combination_at_sorted_index index n (Z.of_nat k) fuel = Ok c /\
    length c = k /\ desc_below n c /\ rank c = index.
Proof.
  intros fuel n k index Hn Hi Hf. rewrite src_get_is_unrank by assumption. rewrite Nat2Z.id.
  apply unrank_spec; assumption.
Qed.

(* the ZeroDivisionError is real and is read from the source: e.g. a negative index with k >= 1 *)
Example src_get_raises_zero_division : src_get_combination_at_sorted_index (-1) 5 2 7 = Err 8.
Proof. vm_compute. reflexivity. Qed.
