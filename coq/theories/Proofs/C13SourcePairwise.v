(* C13 / C11: PairwisePlateGenerator._generate_plates - the hand-written model (Model/Pairwise.v) equals the translation
   of the WHOLE method of /repo's retrospective.py, regenerated on every run (Generated/SrcRetroGen.v, configuration
   C13_PAIRWISE of harness/src_functions.py). *)
From Coq Require Import ZArith List Bool Arith Lia ZifyBool Permutation.
From Batchie Require Import Lib.Sexp Lib.PyRt Generated.Consts Model.Encode Model.Screen Model.Retro Model.Pairwise
  Generated.SrcRetro Generated.SrcRetroGen Proofs.PyRtLemmas Proofs.C11Lib Proofs.C11Gen Proofs.C11Select Proofs.C13Source
  Proofs.C11Source.
Import ListNotations.
Open Scope nat_scope.

(* ---------- the combination / single-agent split ---------- *)
Lemma combo_mask_eq : forall ctrl rows,
  map negb (any_in_rows (control_entries ctrl rows)) = map (is_combo ctrl) rows.
Proof.
  intros ctrl rows. unfold any_in_rows, control_entries, is_combo. rewrite !map_map. apply map_ext. intros r.
  now rewrite existsb_map.
Qed.

(* ---------- the groupings ---------- *)
(* np.argsort's contract, as far as the function depends on it: when anchors are requested the first recorded answer is
   the argsort answer and the positions it uses are positions of the unique-id array *)
Definition argsort_ok (anchor : Z) (n : nat) (ds : list draw) : Prop :=
  (anchor > 0)%Z -> exists order ds0, ds = DInts order :: ds0 /\ Forall (fun i => i < n) (firstn (Z.to_nat anchor) order).

Lemma take_at_ok : forall u idx, Forall (fun i => i < length u) idx -> take_at u idx = Ok (map (fun i => nth i u 0) idx).
Proof.
  intros u idx H. unfold take_at. induction H as [|i idx Hi _ IH]; [reflexivity|]. cbn [res_map_all map].
  rewrite (nth_error_nth' u 0 Hi). cbn [res_bind]. now rewrite IH.
Qed.

Definition src_groupings (subset anchor : Z) (uniq counts : list nat) (ds : list draw)
  : result (list draw * list (list nat)) :=
  if (anchor >? 0)%Z then
    dor (r1, ds) <- argsort_desc counts ds;
    dor anchor_dds <- take_at uniq (slice_to r1 anchor);
    dor na <- floor_div (zlen anchor_dds) subset;
    dor (r4, ds) <- permutation_ints anchor_dds ds;
    dor anchor_groups <- array_split_z r4 na;
    dor nr <- floor_div (zlen (setdiff_sorted uniq anchor_dds)) subset;
    dor (r7, ds) <- permutation_ints (setdiff_sorted uniq anchor_dds) ds;
    dor remain_groups <- array_split_z r7 nr;
    Ok (ds, anchor_groups ++ remain_groups)
  else
    dor ng <- floor_div (zlen uniq) subset;
    dor (r10, ds) <- permutation_ints uniq ds;
    dor g <- array_split_z r10 ng;
    Ok (ds, g).

Lemma src_groupings_is_model : forall subset anchor uniq counts ds, argsort_ok anchor (length uniq) ds ->
  src_groupings subset anchor uniq counts ds = dor g <- pw_groupings subset anchor uniq ds; Ok (snd g, fst g).
Proof.
  intros subset anchor uniq counts ds H. unfold src_groupings, pw_groupings, floor_div, permutation_ints, array_split_z, argsort_desc, zlen.
  destruct (anchor >? 0)%Z eqn:Ea.
  - destruct (H ltac:(lia)) as (order & ds0 & -> & Hr). cbn [take_ints res_bind].
    unfold slice_to. destruct (anchor <? 0)%Z eqn:E0; [lia|]. rewrite (take_at_ok uniq _ Hr). cbn [res_bind].
    set (anchor_dds := map (fun i => nth i uniq 0) (firstn (Z.to_nat anchor) order)).
    destruct (subset =? 0)%Z; cbn [res_bind]; [reflexivity|].
    destruct (take_ints ds0) as [[perm1 ds1]|t]; cbn [res_bind]; [|reflexivity].
    destruct (Z.of_nat (length anchor_dds) / subset <=? 0)%Z; cbn [res_bind]; [reflexivity|].
    unfold setdiff_sorted.
    destruct (take_ints ds1) as [[perm2 ds2]|t]; cbn [res_bind]; [|reflexivity].
    destruct (Z.of_nat (length (filter (fun u => negb (memb u anchor_dds)) uniq)) / subset <=? 0)%Z; reflexivity.
  - destruct (subset =? 0)%Z; cbn [res_bind]; [reflexivity|].
    destruct (take_ints ds) as [[perm ds1]|t]; cbn [res_bind]; [|reflexivity].
    destruct (Z.of_nat (length uniq) / subset <=? 0)%Z; reflexivity.
Qed.

(* ---------- group_lookup ---------- *)
Lemma dict_find_set : forall d k v k', dict_find (dict_set d k v) k' = if (k =? k')%Z then Some v else dict_find d k'.
Proof.
  induction d as [|[k0 v0] d IH]; intros k v k'; cbn [dict_set dict_find].
  - reflexivity.
  - destruct (k0 =? k)%Z eqn:E; cbn [dict_find].
    + apply Z.eqb_eq in E. subst k0. destruct (k =? k')%Z; reflexivity.
    + rewrite IH. destruct (k0 =? k')%Z eqn:E1, (k =? k')%Z eqn:E2; try reflexivity. lia.
Qed.

Lemma dict_inner_loop : forall (l : list nat) (v : Z) d id,
  dict_find (fold_left (fun d i => dict_set d (Z.of_nat i) v) l d) (Z.of_nat id)
  = if memb id l then Some v else dict_find d (Z.of_nat id).
Proof.
  induction l as [|a l IH]; intros v d id; cbn [fold_left memb existsb]; [reflexivity|].
  rewrite IH, dict_find_set. fold (memb id l).
  destruct (memb id l); [now rewrite orb_true_r|]. rewrite orb_false_r.
  destruct (id =? a) eqn:E; [apply Nat.eqb_eq in E|apply Nat.eqb_neq in E].
  - subst. now rewrite Z.eqb_refl.
  - destruct (Z.of_nat a =? Z.of_nat id)%Z eqn:E2; [lia|reflexivity].
Qed.

Lemma dict_outer_loop : forall (gs : list (list nat)) k d acc id,
  dict_find d (Z.of_nat id) = option_map Z.of_nat acc ->
  dict_find (fold_left (fun d (kg : Z * list nat) => fold_left (fun d i => dict_set d (Z.of_nat i) (fst kg)) (snd kg) d)
                       (map (fun kp => (Z.of_nat (fst kp), snd kp)) (enum_from k gs)) d) (Z.of_nat id)
  = option_map Z.of_nat (fold_left (fun acc kg => if memb id (snd kg) then Some (fst kg) else acc) (enum_from k gs) acc).
Proof.
  induction gs as [|g gs IH]; intros k d acc id H; cbn [enum_from map fold_left fst snd]; [exact H|].
  apply IH. rewrite dict_inner_loop. destruct (memb id g); [reflexivity|exact H].
Qed.

Lemma group_lookup_spec : forall gs id,
  dict_find (dict_set (fold_left (fun d (kg : Z * list nat) => fold_left (fun d i => dict_set d (Z.of_nat i) (fst kg)) (snd kg) d)
                                 (enumerate_z gs) []) CONTROL_SENTINEL_VALUE CONTROL_SENTINEL_VALUE) (Z.of_nat id)
  = option_map Z.of_nat (group_of gs id).
Proof.
  intros gs id. rewrite dict_find_set. unfold CONTROL_SENTINEL_VALUE at 1.
  destruct (-1 =? Z.of_nat id)%Z eqn:E; [lia|].
  rewrite enumerate_z_enum. unfold group_of. now apply dict_outer_loop.
Qed.

(* ---------- no control group ids in a combination screen: n_control = 0, the store changes nothing ---------- *)
Lemma no_sentinel : forall (f : nat -> option nat) (idss : list (list nat)),
  filter is_sentinel (concat (map (map (fun i => option_map Z.of_nat (f i))) idss)) = [].
Proof.
  intros f idss. induction idss as [|ids idss IH]; [reflexivity|]. cbn [map concat]. rewrite filter_app, IH, app_nil_r.
  induction ids as [|i ids IHi]; [reflexivity|]. cbn [map filter].
  destruct (f i) as [g|]; cbn [option_map is_sentinel]; [|exact IHi].
  unfold CONTROL_SENTINEL_VALUE. destruct (Z.of_nat g =? -1)%Z eqn:E; [lia|exact IHi].
Qed.

Lemma fill_row_nil : forall row, fill_row row [] = (row, []).
Proof.
  induction row as [|o row IH]; [reflexivity|]. cbn [fill_row]. rewrite IH. destruct (is_sentinel o); reflexivity.
Qed.
Lemma fill_rows_nil : forall g, fill_rows g [] = g.
Proof. induction g as [|row g IH]; [reflexivity|]. cbn [fill_rows]. now rewrite fill_row_nil, IH. Qed.

(* ---------- the grouping tuples ---------- *)
Lemma opt_all_of_nat : forall (f : nat -> option nat) ids,
  opt_map_all (fun o : option Z => o) (map (fun i => option_map Z.of_nat (f i)) ids)
  = option_map (map Z.of_nat) (opt_map_all f ids).
Proof.
  intros f. induction ids as [|i ids IH]; [reflexivity|]. cbn [map opt_map_all].
  destruct (f i) as [g|]; cbn [option_map opt_bind]; [|reflexivity].
  rewrite IH. destruct (opt_map_all f ids); reflexivity.
Qed.

Lemma tuples_src : forall samples gs tm (crows : list row),
  (dor sorted <- sort_rows (map (map (fun i => option_map Z.of_nat (group_of gs i))) (map (row_ids tm) crows));
   Ok (hstack2 (map (fun r => [Z.of_nat (index_of (r_sample r) samples)]) crows) sorted))
  = match opt_map_all (fun r => pw_tuple samples gs (row_ids tm r) r) crows with Some t => Ok t | None => Err 92%Z end.
Proof.
  intros samples gs tm. unfold sort_rows. induction crows as [|r crows IH]; [reflexivity|].
  cbn [map opt_map_all]. rewrite opt_all_of_nat. unfold pw_tuple at 1.
  destruct (opt_map_all (group_of gs) (row_ids tm r)) as [g|]; cbn [option_map opt_bind]; [|reflexivity].
  destruct (opt_map_all (fun row => opt_map_all (fun o : option Z => o) row)
              (map (map (fun i => option_map Z.of_nat (group_of gs i))) (map (row_ids tm) crows))) as [m|];
    destruct (opt_map_all (fun r0 => pw_tuple samples gs (row_ids tm r0) r0) crows) as [t|];
    cbn [res_bind opt_bind] in *; try discriminate; try reflexivity.
  inversion IH as [IH']. unfold hstack2. cbn [map combine fst snd app]. rewrite sort_z_of_nat. reflexivity.
Qed.

(* ---------- the labelling loop over the unique tuples ---------- *)
Definition tlab (k : nat) (U : list (list Z)) (x : list Z) (acc : name) : name :=
  fold_left (fun acc ku => if name_eqb x (snd ku) then gen_name (fst ku) else acc) (enum_from k U) acc.

Lemma combine_map_same {A B C} (f : A -> B) (g : A -> C) : forall l, combine (map f l) (map g l) = map (fun x => (f x, g x)) l.
Proof. induction l as [|a l IH]; [reflexivity|]. cbn [map combine]. now rewrite IH. Qed.

Lemma label_tuples (tuples : list (list Z)) (F : list name -> Z * list Z -> result (list name)) :
  (forall names k t, F names (k, t) = dor n' <- set_where names (rows_equal tuples t) (gen_name (Z.to_nat k)); Ok n') ->
  forall U k (h : list Z -> name),
    res_fold F (map (fun kp => (Z.of_nat (fst kp), snd kp)) (enum_from k U)) (map h tuples)
    = Ok (map (fun x => tlab k U x (h x)) tuples).
Proof.
  intros HF. induction U as [|u U IH]; intros k h; cbn [enum_from map res_fold fst snd]; [reflexivity|].
  rewrite HF. unfold set_where, rows_equal. rewrite !map_length, Nat.eqb_refl. cbn [res_bind]. rewrite Nat2Z.id.
  assert (map (fun nb : name * bool => if snd nb then gen_name k else fst nb)
              (combine (map h tuples) (map (fun x => name_eqb x u) tuples))
          = map (fun x => if name_eqb x u then gen_name k else h x) tuples) as ->.
  { rewrite combine_map_same, map_map. reflexivity. }
  rewrite IH. reflexivity.
Qed.

Lemma tlab_notin : forall U k x acc, ~ In x U -> tlab k U x acc = acc.
Proof.
  induction U as [|u U IH]; intros k x acc H; [reflexivity|]. unfold tlab. cbn [enum_from fold_left fst snd].
  destruct (name_eqb x u) eqn:E; [apply name_eqb_eq in E; subst; exfalso; apply H; now left|].
  apply IH. intros Hin. apply H. now right.
Qed.

Lemma tlab_in : forall U k x acc, NoDup U -> In x U -> tlab k U x acc = gen_name (k + index_of x U).
Proof.
  induction U as [|u U IH]; intros k x acc HN Hin; [contradiction|]. inversion HN as [|? ? Hnot HN']; subst.
  unfold tlab. cbn [enum_from fold_left fst snd index_of].
  destruct (name_eqb x u) eqn:E.
  - apply name_eqb_eq in E. subst. fold (tlab (S k) U u (gen_name k)). rewrite tlab_notin by exact Hnot. now rewrite Nat.add_0_r.
  - destruct Hin as [->|Hin]; [rewrite name_eqb_refl in E; discriminate|].
    fold (tlab (S k) U x acc). rewrite IH by assumption. f_equal. lia.
Qed.

Lemma map_const_repeat {A B} (b : B) : forall l : list A, map (fun _ => b) l = repeat b (length l).
Proof. induction l as [|a l IH]; [reflexivity|]. cbn [map length repeat]. now rewrite IH. Qed.

Lemma label_loop_tuples (tuples : list (list Z)) (F : list name -> Z * list Z -> result (list name)) :
  (forall names k t, F names (k, t) = dor n' <- set_where names (rows_equal tuples t) (gen_name (Z.to_nat k)); Ok n') ->
  res_fold F (enumerate_z (unique_rows tuples)) (blank_names (length tuples))
  = Ok (map (fun x => gen_name (index_of x (sort_uniq name_cmp tuples))) tuples).
Proof.
  intros HF. rewrite enumerate_z_enum. unfold blank_names. rewrite <- (map_const_repeat (@nil Z) tuples).
  rewrite (label_tuples tuples F HF). f_equal. apply map_ext_in. intros x Hx. unfold unique_rows.
  rewrite tlab_in; [reflexivity|apply NoDup_sort_uniq|now apply In_sort_uniq].
Qed.

Lemma combine_map_l {A B C} (g : A -> C) : forall (la : list A) (lb : list B),
  combine (map g la) lb = map (fun p => (g (fst p), snd p)) (combine la lb).
Proof. induction la as [|a la IH]; intros [|b lb]; try reflexivity. cbn [map combine fst snd]. now rewrite IH. Qed.

(* ---------- the loop assigning the single-agent experiments ---------- *)
Lemma singles_for (srows co : list row)
      (f : list draw * list name -> name -> result (list draw * list name)) :
  (forall ds names s, f (ds, names) s =
     if (zlen (plates_of_sample_named co s) =? 0)%Z then Err 6%Z
     else
       dor (asg, d) <- choice_names (plates_of_sample_named co s) (Z.of_nat (vcount (map (in_sample s) srows))) ds;
       dor names' <- (dor s__ <- unwrap (Some srows); store_where names (map (in_sample s) s__) asg);
       Ok (d, names')) ->
  forall samples ds names, length names = length srows ->
    res_fold f samples (ds, names) = dor r <- pw_singles samples srows co names ds; Ok (snd r, fst r).
Proof.
  intros Hf. induction samples as [|s samples IH]; intros ds names HL; cbn [res_fold pw_singles res_bind fst snd]; [reflexivity|].
  rewrite Hf. unfold plates_of_sample_named, zlen.
  destruct (sort_uniq name_cmp (map r_plate (filter (in_sample s) co))) as [|e es] eqn:Ee; cbn [length Retro.is_nil].
  - reflexivity.
  - destruct (Z.of_nat (S (length es)) =? 0)%Z eqn:E0; [lia|].
    unfold choice_names. destruct (take_names ds) as [[asg ds1]|t]; cbn [res_bind]; [|reflexivity].
    assert ((Z.of_nat (length asg) =? Z.of_nat (vcount (map (in_sample s) srows)))%Z
            = (length asg =? vcount (map (in_sample s) srows))) as ->.
    { destruct (length asg =? vcount (map (in_sample s) srows)) eqn:E; [apply Nat.eqb_eq in E|apply Nat.eqb_neq in E]; lia. }
    destruct (length asg =? vcount (map (in_sample s) srows)) eqn:El; cbn [negb res_bind]; [|reflexivity].
    destruct (negb (forallb (fun x => name_mem x (e :: es)) asg)); cbn [res_bind unwrap]; [reflexivity|].
    unfold store_where. rewrite map_length, HL, Nat.eqb_refl. apply Nat.eqb_eq in El. rewrite <- El, Nat.eqb_refl. cbn [andb res_bind].
    apply IH. now rewrite assign_v_length.
Qed.

Lemma single_opt_eq : forall (f : row -> bool) (rows : list row),
  (if existsb (fun b => b) (map (fun x => negb (f x)) rows)
   then @Ok (option screen_t) (@Some screen_t (filter (fun r => negb (f r)) rows)) else @Ok (option screen_t) (@None screen_t))
  = @Ok (option screen_t) (if Retro.is_nil (filter (fun r => negb (f r)) rows) then @None screen_t
                           else @Some screen_t (filter (fun r => negb (f r)) rows)).
Proof.
  intros f rows. induction rows as [|r rows IH]; [reflexivity|]. cbn [map existsb filter].
  destruct (negb (f r)); cbn [orb Retro.is_nil]; [reflexivity|exact IH].
Qed.

Theorem src_pairwise_is_model : forall ctrl subset anchor rows ds,
  argsort_ok anchor (length (unique_ids ctrl (filter (is_combo ctrl) rows))) ds ->
  src_pairwise_generate_plates ctrl subset anchor rows ds = pairwise ctrl subset anchor rows ds.
Proof.
  intros ctrl subset anchor rows ds Hsort. unfold src_pairwise_generate_plates, pairwise.
  rewrite combo_mask_eq. cbv zeta.
  unfold to_screen, subset_of. rewrite map_map, <- !filter_vselect.
  rewrite (single_opt_eq (is_combo ctrl) rows). cbn [res_bind].
  set (crows := filter (is_combo ctrl) rows) in *. set (srows := filter (fun r => negb (is_combo ctrl r)) rows).
  clearbody crows srows.
  (* the groupings *)
  fold (src_groupings subset anchor (unique_ids ctrl crows) (id_counts ctrl crows) ds).
  rewrite (src_groupings_is_model _ _ _ _ _ Hsort).
  change (sort_uniq Nat.compare (concat (map (row_ids (build_tmapping ctrl (concat (map r_treats crows)))) crows)))
    with (unique_ids ctrl crows).
  destruct (pw_groupings subset anchor (unique_ids ctrl crows) ds) as [[gs ds1]|t]; cbn [res_bind fst snd]; [|reflexivity].
  (* group_lookup *)
  rewrite (res_fold_pure _ (fun d (kg : Z * list nat) => fold_left (fun d i => dict_set d (Z.of_nat i) (fst kg)) (snd kg) d))
    by (intros d [k l]; rewrite (res_fold_pure _ (fun d i => dict_set d (Z.of_nat i) k)) by reflexivity; reflexivity).
  cbn [res_bind].
  match goal with |- context [lookup_all ?d (screen_ids ctrl crows)] =>
    assert (lookup_all d (screen_ids ctrl crows)
            = map (map (fun i => option_map Z.of_nat (group_of gs i))) (screen_ids ctrl crows)) as ->
      by (unfold lookup_all; apply map_ext; intros ids; apply map_ext; intros i; apply group_lookup_spec) end.
  (* n_control = 0 *)
  unfold count_sentinel, store_at_sentinel, count_sentinel. rewrite no_sentinel. cbn [length].
  unfold choice_range. destruct (take_ints ds1) as [[ctl ds2]|t]; cbn [res_bind]; [|reflexivity].
  destruct ctl as [|c ctl]; [|reflexivity]. cbn [length Z.of_nat Z.eqb negb Retro.is_nil res_bind]. rewrite fill_rows_nil.
  (* the grouping tuples *)
  unfold screen_ids, sample_id_column, sample_id_z, sample_id.
  pose proof (tuples_src (sample_names crows) gs (build_tmapping ctrl (concat (map r_treats crows))) crows) as HT.
  destruct (sort_rows _) as [sorted|e]; cbn [res_bind] in HT |- *;
    (destruct (opt_map_all (fun r => pw_tuple (sample_names crows) gs (row_ids (build_tmapping ctrl (concat (map r_treats crows))) r) r) crows)
       as [tuples|] eqn:Et; try discriminate); [|now inversion HT].
  injection HT as HT. rewrite HT.
  pose proof (opt_map_all_length _ _ _ Et) as HLt.
  (* the plate names of the combination experiments *)
  rewrite <- HLt. rewrite (label_loop_tuples tuples) by (intros; reflexivity). cbn [res_bind].
  assert (@length name tuples = length crows) as HLt' by exact HLt.
  unfold screen_renamed at 1. rewrite map_length, HLt', Nat.eqb_refl. cbn [negb].
  rewrite combine_map_l, map_map. cbn [fst snd].
  destruct (construct _) as [co|t]; cbn [res_bind]; [|reflexivity].
  (* the single-agent experiments *)
  destruct (Retro.is_nil srows) eqn:En; cbn [is_none unwrap res_bind]; [reflexivity|].
  rewrite (singles_for srows co) by (first [intros; reflexivity | unfold blank_names; apply repeat_length]).
  unfold blank_names. rewrite <- (map_const_repeat (@nil Z) srows).
  destruct (pw_singles (sample_names srows) srows co (map (fun _ => []) srows) ds2) as [[names ds3]|t] eqn:Es; cbn [res_bind fst snd]; [|reflexivity].
  apply pw_singles_length in Es. rewrite map_length in Es.
  unfold screen_renamed. rewrite Es, Nat.eqb_refl. cbn [negb].
  destruct (construct _) as [so|t]; cbn [res_bind]; [|reflexivity].
  unfold combine_screens. destruct (construct (co ++ so)); reflexivity.
Qed.

(* through the translated generate_plates wrapper (core.py): the subject of C13_pairwise_single_sample /
   C13_pairwise_singles_join_combo_plates and of C11_generator_conserves *)
Theorem src_pairwise_end_to_end : forall ctrl subset anchor rows ds,
  argsort_ok anchor (length (unique_ids ctrl (filter (is_combo ctrl) (unobserved rows)))) ds ->
  src_generate_plates (src_pairwise_generate_plates ctrl subset anchor) rows ds
  = generate_plates (GPairwise ctrl subset anchor) rows ds.
Proof.
  intros ctrl subset anchor rows ds H. rewrite src_generate_plates_is_wrap. unfold generate_plates, generate_inner.
  apply wrap_ext1. now apply src_pairwise_is_model.
Qed.

Theorem link_pairwise_generate_plates : forall ctrl subset anchor rows ds,
  (argsort_ok anchor (length (unique_ids ctrl (filter (is_combo ctrl) rows))) ds ->
   src_pairwise_generate_plates ctrl subset anchor rows ds = pairwise ctrl subset anchor rows ds) /\
  (argsort_ok anchor (length (unique_ids ctrl (filter (is_combo ctrl) (unobserved rows)))) ds ->
   src_generate_plates (src_pairwise_generate_plates ctrl subset anchor) rows ds
   = generate_plates (GPairwise ctrl subset anchor) rows ds).
Proof. intros. split; [apply src_pairwise_is_model | apply src_pairwise_end_to_end]. Qed.
