(* C13: Pairwise generator - every generated plate holds one sample (the grouping tuples start with
   the sample id; single-agent rows are assigned to plates of their own sample). *)
From Coq Require Import ZArith List Bool Arith Lia Permutation.
From Batchie Require Import Lib.Sexp Model.Encode Model.Screen Model.Retro Model.Pairwise
  Proofs.C11Lib Proofs.C11Gen Proofs.C11Select Proofs.C13Wrap Proofs.C13SampleSeg Proofs.C13MergeLib.
Import ListNotations.
Open Scope nat_scope.

Lemma index_of_nth : forall x l, In x l -> nth_error l (index_of x l) = Some x.
Proof.
  intros x l. induction l as [|y l IH]; intros H; [contradiction|]. cbn [index_of].
  destruct (name_eqb x y) eqn:E.
  - apply name_eqb_eq in E. now subst.
  - cbn [nth_error]. apply IH. destruct H as [->|H]; [|exact H]. rewrite name_eqb_refl in E. discriminate.
Qed.
Lemma index_of_inj : forall x y l, In x l -> In y l -> index_of x l = index_of y l -> x = y.
Proof.
  intros x y l Hx Hy E. apply index_of_nth in Hx. apply index_of_nth in Hy. rewrite E in Hx. congruence.
Qed.

Lemma opt_map_all_Forall2 {A B} (f : A -> option B) : forall l l',
  opt_map_all f l = Some l' -> Forall2 (fun a b => f a = Some b) l l'.
Proof.
  induction l as [|a l IH]; intros l' H; cbn [opt_map_all] in H.
  - inversion H. constructor.
  - destruct (f a) as [b|] eqn:Ea; cbn [opt_bind] in H; [|discriminate].
    destruct (opt_map_all f l) as [bs|]; cbn [opt_bind] in H; [|discriminate].
    inversion H; subst. constructor; [exact Ea|now apply IH].
Qed.

Lemma Forall2_combine_In {A B} (R : A -> B -> Prop) : forall la lb a b,
  Forall2 R la lb -> In (b, a) (combine lb la) -> R a b.
Proof.
  intros la lb a b H. induction H as [|x y la lb Hxy _ IH]; cbn [combine]; [intros []|].
  intros [E|Hin]; [now inversion E; subst|now apply IH].
Qed.

Lemma pw_tuple_head : forall samples gs ids r t, pw_tuple samples gs ids r = Some t ->
  exists rest, t = Z.of_nat (index_of (r_sample r) samples) :: rest.
Proof.
  intros samples gs ids r t H. unfold pw_tuple in H.
  destruct (opt_map_all (group_of gs) ids); cbn [opt_bind] in H; [|discriminate]. inversion H. eauto.
Qed.

Lemma Forall2_impl' {A B} (R R' : A -> B -> Prop) : (forall a b, R a b -> R' a b) ->
  forall la lb, Forall2 R la lb -> Forall2 R' la lb.
Proof. intros H la lb HF. induction HF; constructor; auto. Qed.

Definition ok_plate (co : list row) (r : row) (nm : name) : Prop :=
  exists c, In c co /\ r_plate c = nm /\ r_sample c = r_sample r.

Lemma assign_v_rows : forall (f : row -> bool) (Q Q' : row -> name -> Prop) srows vals names,
  length vals = vcount (map f srows) ->
  Forall2 Q srows names ->
  (forall r old, f r = false -> Q r old -> Q' r old) ->
  (forall r nm, f r = true -> In nm vals -> Q' r nm) ->
  Forall2 Q' srows (assign_v (map f srows) vals names).
Proof.
  intros f Q Q' srows. induction srows as [|r srows IH]; intros vals names Hl HQ H0 H1;
    inversion HQ as [|? x ? names' Hrx Hrest]; subst; cbn [map assign_v]; [constructor|].
  cbn [map vcount] in Hl. destruct (f r) eqn:E.
  - destruct vals as [|y vals]; [cbn [length] in Hl; lia|]. constructor; [apply H1; [exact E|now left]|].
    apply IH; [cbn [length] in Hl; lia|exact Hrest|exact H0|].
    intros r0 nm Hf Hin. apply H1; [exact Hf|now right].
  - constructor; [now apply H0|]. apply IH; [cbn in Hl; lia|exact Hrest|exact H0|exact H1].
Qed.

Lemma pw_singles_spec : forall co samples srows (D : row -> Prop) names ds names' ds',
  pw_singles samples srows co names ds = Ok (names', ds') ->
  Forall2 (fun r nm => D r -> ok_plate co r nm) srows names ->
  Forall2 (fun r nm => (In (r_sample r) samples \/ D r) -> ok_plate co r nm) srows names'.
Proof.
  intros co samples. induction samples as [|s samples IH]; intros srows D names ds names' ds' H HI;
    cbn [pw_singles] in H.
  - inversion H; subst. eapply Forall2_impl'; [|exact HI]. cbn. intros r nm Hd [[]|Hr]. now apply Hd.
  - set (eligible := sort_uniq name_cmp (map r_plate (filter (in_sample s) co))) in *.
    destruct (is_nil eligible); [discriminate|].
    destruct (take_names ds) as [[asg ds1]|t]; cbn [res_bind] in H; [|discriminate].
    destruct (negb (length asg =? _)) eqn:El; [discriminate|]. apply negb_false_iff, Nat.eqb_eq in El.
    destruct (negb (forallb _ asg)) eqn:Ef; [discriminate|]. apply negb_false_iff in Ef.
    rewrite forallb_forall in Ef.
    apply (IH srows (fun r => D r \/ r_sample r = s)) in H.
    + eapply Forall2_impl'; [|exact H]. cbn. intros r nm Hd Hpre. apply Hd.
      destruct Hpre as [[E|Hin]|Hr]; [right; right; now symmetry|left; exact Hin|right; left; exact Hr].
    + apply (assign_v_rows (in_sample s) (fun r nm => D r -> ok_plate co r nm)); auto.
      * intros r old Hf Hq [Hd|Hs]; [now apply Hq|]. apply in_sample_true in Hs. congruence.
      * intros r nm Hf Hin _. apply in_sample_true in Hf. specialize (Ef nm Hin).
        apply name_mem_In in Ef. unfold eligible in Ef. apply In_sort_uniq, in_map_iff in Ef as (c & Hp & Hc).
        apply filter_In in Hc as [Hc Hs]. apply in_sample_true in Hs. exists c. repeat split; auto. congruence.
Qed.

Theorem pairwise_one_sample : forall ctrl subset anchor u ds nu ds',
  pairwise ctrl subset anchor u ds = Ok (nu, ds') -> one_sample nu.
Proof.
  intros ctrl subset anchor u ds nu ds' H. unfold pairwise in H.
  set (crows := filter (is_combo ctrl) u) in *. set (srows := filter (fun r => negb (is_combo ctrl r)) u) in *.
  set (tm := build_tmapping ctrl (concat (map r_treats crows))) in *.
  destruct (pw_groupings _ _ _ _) as [[gs ds1]|t]; cbn [res_bind] in H; [|discriminate].
  destruct (take_ints ds1) as [[ctl ds2]|t]; cbn [res_bind] in H; [|discriminate].
  destruct (negb (is_nil ctl)); [discriminate|].
  match type of H with match ?x with _ => _ end = _ => destruct x as [tuples|] eqn:Et end; [|discriminate].
  apply opt_map_all_Forall2 in Et.
  set (uniq := sort_uniq name_cmp tuples) in *.
  match type of H with (dor c <- construct ?x; _) = _ => set (co0 := x) in * end.
  destruct (construct co0) as [co|t] eqn:Ec; cbn [res_bind] in H; [|discriminate].
  apply construct_ok in Ec. subst co.
  (* the combo part *)
  assert (Hco : forall c, In c co0 -> exists t r, In (t, r) (combine tuples crows) /\
            r_plate c = gen_name (index_of t uniq) /\ r_sample c = r_sample r).
  { intros c Hc. apply in_map_iff in Hc as ([t r] & <- & Hin). exists t, r. auto. }
  assert (Hone : one_sample co0).
  { intros c1 c2 H1 H2 Hp. destruct (Hco _ H1) as (t1 & r1 & I1 & P1 & S1).
    destruct (Hco _ H2) as (t2 & r2 & I2 & P2 & S2). rewrite P1, P2 in Hp. apply gen_name_inj in Hp.
    assert (T1 : In t1 uniq) by (apply In_sort_uniq; eapply in_combine_l; exact I1).
    assert (T2 : In t2 uniq) by (apply In_sort_uniq; eapply in_combine_l; exact I2).
    apply (index_of_inj _ _ _ T1 T2) in Hp. subst t2.
    pose proof (Forall2_combine_In _ _ _ _ _ Et I1) as E1. pose proof (Forall2_combine_In _ _ _ _ _ Et I2) as E2.
    cbn in E1, E2. apply pw_tuple_head in E1 as (rest1 & E1). apply pw_tuple_head in E2 as (rest2 & E2).
    rewrite E1 in E2. injection E2 as E2 _. apply Nat2Z.inj in E2.
    rewrite S1, S2. apply (index_of_inj _ _ (sample_names crows)); [| |exact E2]; apply In_sample_names.
    - exists r1. split; [eapply in_combine_r; exact I1|reflexivity].
    - exists r2. split; [eapply in_combine_r; exact I2|reflexivity]. }
  destruct (is_nil srows) eqn:En.
  - inversion H; subst. exact Hone.
  - destruct (pw_singles _ _ _ _ _) as [[names ds3]|t] eqn:Es; cbn [res_bind] in H; [|discriminate].
    match type of H with (dor c <- construct ?x; _) = _ => set (so0 := x) in * end.
    destruct (construct so0) as [so|t] eqn:Ec2; cbn [res_bind] in H; [|discriminate].
    apply construct_ok in Ec2. subst so.
    destruct (construct (co0 ++ so0)) as [al|t] eqn:Ec3; cbn [res_bind] in H; [|discriminate].
    apply construct_ok in Ec3. inversion H; subst nu ds' al. clear H.
    apply (pw_singles_spec co0 _ srows (fun _ => False)) in Es.
    + assert (Hso : forall c, In c so0 -> exists c0, In c0 co0 /\ r_plate c0 = r_plate c /\ r_sample c0 = r_sample c).
      { intros c Hc. apply in_map_iff in Hc as ([nm r] & <- & Hin).
        pose proof (Forall2_combine_In _ _ _ _ _ Es Hin) as Hok. cbn in Hok.
        destruct Hok as (c0 & Hc0 & Hp & Hs).
        - left. apply In_sample_names. exists r. split; [eapply in_combine_r; exact Hin|reflexivity].
        - exists c0. auto. }
      assert (Hall : forall c, In c (co0 ++ so0) -> exists c0, In c0 co0 /\ r_plate c0 = r_plate c /\ r_sample c0 = r_sample c).
      { intros c Hc. apply in_app_or in Hc as [Hc|Hc]; [exists c; auto|now apply Hso]. }
      intros c1 c2 H1 H2 Hp. destruct (Hall _ H1) as (d1 & D1 & P1 & S1). destruct (Hall _ H2) as (d2 & D2 & P2 & S2).
      rewrite <- S1, <- S2. apply Hone; congruence.
    + clear. induction srows as [|r l IH]; cbn [map]; constructor; [intros []|exact IH].
Qed.

Theorem pairwise_single_sample_w : forall ctrl subset anchor rows ds out ds',
  generate_plates (GPairwise ctrl subset anchor) rows ds = Ok (out, ds') -> one_sample (unobserved out).
Proof.
  intros ctrl subset anchor rows ds out ds' H. apply generate_wrap_unobs in H as [[_ E]|H].
  - rewrite E. intros r1 r2 [].
  - cbn [generate_inner] in H. eapply pairwise_one_sample; exact H.
Qed.
