(* C10: the hand-written model Model/Thetas.v equals the translations of the methods of
   batchie.core.ThetaHolder regenerated from /repo on every run (Generated/SrcThetas.v, by
   harness/py2gal.py), for all inputs.

   The translated methods work on holder OBJECTS (class id, attribute values) = pyobj; the model
   works on holders (the attribute values alone).  Each theorem says what the translated method
   does to ANY object in terms of the model's function on its attribute values; for concat, whose
   model has no class guard, the theorem is stated for all lists of instances of ThetaHolder itself
   (as_obj), which is what every holder in the tree is. *)
From Coq Require Import ZArith List Bool Lia ZifyBool Permutation Decimal.
From Batchie Require Import Lib.Sexp Lib.PyRt Model.Thetas Generated.SrcThetas Proofs.PyRtLemmas Proofs.C10Sort Proofs.C10Thetas.
Import ListNotations.
Open Scope Z_scope.

Section Src.
Variables P S : Type.

(* ThetaHolder.__init__: whatever the fresh instance held, it now holds (n, []) *)
Theorem src_init_is_model : forall (self : pyobj P S) n,
  src_init P S self n = Ok (py_class self, empty_holder P S n).
Proof. intros [c [d l]] n. reflexivity. Qed.

(* the property n_thetas *)
Theorem src_n_thetas_is_model : forall (self : pyobj P S),
  src_n_thetas P S self = Ok (h_declared (snd self)).
Proof. reflexivity. Qed.

(* l[i] for an index within the list *)
Lemma list_get_in_range {A : Type} (l : list A) (i : Z) :
  0 <= i < Z.of_nat (length l) ->
  list_get l i = match nth_error l (Z.to_nat i) with Some a => Ok a | None => Err 98 end
  /\ nth_error l (Z.to_nat i) <> None.
Proof.
  intros Hi. unfold list_get.
  destruct (i <? 0) eqn:E0; [lia|]. rewrite E0. split; [reflexivity|].
  apply nth_error_Some. lia.
Qed.

Theorem src_get_theta_is_model : forall (self : pyobj P S) i,
  src_get_theta P S self i = get_theta P S (snd self) i.
Proof.
  intros [c [d l]] i. unfold src_get_theta, get_theta, attr_thetas. cbn [snd h_thetas].
  destruct ((i >? Z.of_nat (length l) - 1) || (i <? 0)) eqn:E; [reflexivity|].
  apply orb_false_iff in E. destruct E as [E1 E2].
  destruct (list_get_in_range l i) as [Hg Hn]; [lia|].
  rewrite Hg. destruct (nth_error l (Z.to_nat i)) as [t|]; [reflexivity | now elim Hn].
Qed.

(* add_theta mutates self: the method denotes the new value of self *)
Theorem src_add_theta_is_model : forall (self : pyobj P S) t,
  src_add_theta P S self t = (dor h <- add_theta P S (snd self) t; Ok (py_class self, h)).
Proof.
  intros [c [d l]] t. unfold src_add_theta, add_theta, src_n_thetas, attr_thetas, attr_n_thetas, set_attr_thetas, py_class.
  cbn [snd fst h_thetas h_declared res_bind].
  destruct (Z.of_nat (length l) >=? d); reflexivity.
Qed.

Theorem src_is_complete_is_model : forall (self : pyobj P S),
  src_is_complete P S self = Ok (is_complete P S (snd self)).
Proof. intros [c [d l]]. reflexivity. Qed.

(* combine: the class guard, then a NEW instance of ThetaHolder itself (class 0) holding the model's combination *)
Theorem src_combine_is_model : forall (a b : pyobj P S),
  src_combine P S a b
  = if py_class a =? py_class b then Ok (as_obj (combine_holders P S (snd a) (snd b))) else Err 6.
Proof.
  intros [ca [da la]] [cb [db lb]]. unfold src_combine, py_class. cbn [fst].
  destruct (ca =? cb); reflexivity.
Qed.

Corollary src_combine_same_class : forall (a b : holder P S),
  src_combine P S (as_obj a) (as_obj b) = Ok (as_obj (combine_holders P S a b)).
Proof. intros a b. rewrite src_combine_is_model. reflexivity. Qed.

(* the loop of concat over instances of ThetaHolder itself *)
Lemma concat_loop (f : pyobj P S -> pyobj P S -> result (pyobj P S)) :
  (forall first inst, f first inst =
     if negb (py_class inst =? py_class first) then Err 7
     else dor r <- src_combine P S first inst; Ok r) ->
  forall (r : list (holder P S)) (h : holder P S),
  res_fold f (map as_obj r) (as_obj h) = Ok (as_obj (fold_left (combine_holders P S) r h)).
Proof.
  intros Hf. induction r as [|x r IH]; intros h; cbn [map res_fold fold_left]; [reflexivity|].
  rewrite Hf. unfold as_obj at 1 2. unfold py_class at 1 2. cbn [fst negb Z.eqb].
  rewrite src_combine_same_class. cbn [res_bind]. apply IH.
Qed.

Theorem src_concat_is_model : forall (hs : list (holder P S)),
  src_concat P S (map as_obj hs) = (dor h <- concat_holders P S hs; Ok (as_obj h)).
Proof.
  intros hs. unfold src_concat, concat_holders. rewrite map_length.
  destruct hs as [|h [|h2 r]]; [reflexivity | reflexivity |].
  replace (Z.of_nat (length (h :: h2 :: r)) =? 0) with false by (cbn [length]; lia).
  replace (Z.of_nat (length (h :: h2 :: r)) =? 1) with false by (cbn [length]; lia).
  cbn [map]. unfold list_get. cbn [Z.ltb Z.compare Z.to_nat nth_error res_bind tl].
  change (as_obj h2 :: map as_obj r) with (map (@as_obj P S) (h2 :: r)).
  rewrite concat_loop by (intros; reflexivity). reflexivity.
Qed.

(* the general shape of concat on arbitrary objects, for the record: the empty list and the singleton *)
Theorem src_concat_small : forall (o : pyobj P S),
  src_concat P S [] = Err 3 /\ src_concat P S [o] = Ok o.
Proof. intros o. split; reflexivity. Qed.

(* ---- load_h5 ---- *)

(* sorting the names = the names of the groups sorted by name *)
Lemma sort_insert_map {A B K : Type} (g : A -> B) (key : B -> K) (leb : K -> K -> bool) x l :
  sort_insert key leb (g x) (map g l) = map g (sort_insert (fun a => key (g a)) leb x l).
Proof.
  induction l as [|y r IH]; cbn [map sort_insert]; [reflexivity|].
  destruct (leb (key (g x)) (key (g y))); cbn [map]; [reflexivity | now rewrite IH].
Qed.

Lemma sort_by_map {A B K : Type} (g : A -> B) (key : B -> K) (leb : K -> K -> bool) l :
  sort_by key leb (map g l) = map g (sort_by (fun a => key (g a)) leb l).
Proof.
  induction l as [|x r IH]; cbn [map sort_by fold_right]; [reflexivity|].
  fold (sort_by key leb (map g r)). rewrite IH. apply sort_insert_map.
Qed.

Lemma sorted_names (gs : h5groups P) : sorted_by_int (group_names gs) = map fst (numsort P gs).
Proof. unfold sorted_by_int, group_names, numsort. apply sort_by_map. Qed.

(* g[name] finds the member of that name when names are distinct *)
Lemma group_member_in (gs : h5groups P) k p :
  NoDup (map fst gs) -> In (k, p) gs -> group_member gs k = Ok p.
Proof.
  induction gs as [|[k' p'] r IH]; intros Hnd Hin; [contradiction|].
  cbn [map fst] in Hnd. inversion Hnd as [|? ? Hnotin Hnd']; subst.
  cbn [group_member]. destruct Hin as [E|Hin].
  - inversion E; subst. now rewrite (Decimal.internal_uint_dec_lb k k eq_refl).
  - destruct (Decimal.uint_beq k' k) eqn:Eb.
    + apply Decimal.internal_uint_dec_bl in Eb. subst k'.
      elim Hnotin. change k with (fst (k, p)). now apply in_map.
    + now apply IH.
Qed.

(* the loop of load_h5 over a list of names of members *)
Lemma load_loop (gs : h5groups P) (sh : S) (f : pyobj P S -> h5name -> result (pyobj P S)) :
  (forall o k, f o k =
     dor r <- group_member gs k;
     dor o' <- src_add_theta P S o (r, sh); Ok o') ->
  NoDup (map fst gs) ->
  forall (l : list (h5name * P)), (forall x, In x l -> In x gs) ->
  forall (o : pyobj P S),
  res_fold f (map fst l) o
  = (dor h <- add_all P S (snd o) (map (fun g => (snd g, sh)) l); Ok (py_class o, h)).
Proof.
  intros Hf Hnd. induction l as [|[k p] l IH]; intros Hin [c h]; cbn [map res_fold add_all fst snd].
  - reflexivity.
  - rewrite Hf. rewrite (group_member_in gs k p Hnd) by (apply Hin; now left). cbn [res_bind].
    rewrite src_add_theta_is_model. cbn [snd py_class fst].
    destruct (add_theta P S h (p, sh)) as [h'|e]; cbn [res_bind]; [|reflexivity].
    rewrite IH by (intros x Hx; apply Hin; now right). reflexivity.
Qed.

(* load_h5 on a file whose private_params group has no two members of the same name (as in any HDF5 file) *)
Theorem src_load_h5_is_model : forall (h5 : file P S),
  NoDup (map fst (f_groups h5)) ->
  src_load_h5 P S h5 = (dor h <- load P S h5; Ok (as_obj h)).
Proof.
  intros h5 Hnd. unfold src_load_h5, load. rewrite src_init_is_model. cbn [res_bind].
  rewrite sorted_names.
  rewrite (load_loop (f_groups h5) (f_shared h5)).
  - cbn [snd py_class py_blank fst].
    destruct (add_all P S (empty_holder P S (f_n h5)) _) as [h|e]; reflexivity.
  - intros o k. reflexivity.
  - exact Hnd.
  - intros x Hx. unfold numsort in Hx. exact (Permutation_in x (sort_by_perm _ _ _) Hx).
Qed.

(* every file the model's save writes has distinct member names, so load_h5 on it is the model's load *)
Lemma saved_names_distinct (h : holder P S) f : save P S h = Ok f -> NoDup (map fst (f_groups f)).
Proof.
  intros H. eapply Permutation_NoDup; [apply Permutation_sym, (C10Thetas.file_keys P S h f H)|].
  apply FinFun.Injective_map_NoDup; [intros a b; apply key_of_index_inj | apply seq_NoDup].
Qed.

Corollary src_load_of_saved : forall (h : holder P S) f,
  save P S h = Ok f -> src_load_h5 P S f = (dor h' <- load P S f; Ok (as_obj h')).
Proof. intros h f H. apply src_load_h5_is_model, (saved_names_distinct h f H). Qed.

(* ---- save_h5 ---- *)

Lemma save_loop (f : h5w P S -> Z * theta P S -> result (h5w P S)) :
  (forall w i t, f w (i, t) = Ok (h5_add_group w (key_of_index (Z.to_nat i)) (fst t))) ->
  forall (l : list (theta P S)) s n sh g,
  res_fold f (combine (map Z.of_nat (seq s (length l))) l) {| w_n := n; w_shared := sh; w_groups := Some g |}
  = Ok {| w_n := n; w_shared := sh;
          w_groups := Some (g ++ map (fun it => (key_of_index (fst it), fst (snd it))) (combine (seq s (length l)) l)) |}.
Proof.
  intros Hf. induction l as [|t l IH]; intros s n sh g; cbn [length seq map combine res_fold].
  - now rewrite app_nil_r.
  - rewrite Hf. cbn [res_bind]. unfold h5_add_group. cbn [w_n w_shared w_groups].
    rewrite IH. rewrite Nat2Z.id. cbn [fst snd]. now rewrite <- app_assoc.
Qed.

(* save_h5 returns nothing: the translation denotes what has been written; read back as a file (h5_close) it is
   the model's save of the object's attribute values, for every object *)
Theorem src_save_h5_is_model : forall (self : pyobj P S),
  (dor w <- src_save_h5 P S self; h5_close w) = save P S (snd self).
Proof.
  intros [c [d l]]. unfold src_save_h5, save, attr_thetas. cbn [snd h_thetas].
  destruct l as [|t0 r]; [reflexivity|].
  replace (Z.of_nat (length (t0 :: r)) =? 0) with false by (cbn [length]; lia).
  unfold list_get. cbn [Z.ltb Z.compare Z.to_nat nth_error res_bind].
  unfold src_n_thetas, attr_n_thetas. cbn [snd h_declared res_bind].
  unfold enumerate_z, h5_new, h5_set_n, h5_write_shared, h5_create_private. cbn [w_n w_shared w_groups].
  rewrite save_loop by (intros; reflexivity). cbn [res_bind].
  unfold h5_close, enumerate. cbn [w_n w_shared w_groups app]. reflexivity.
Qed.

(* the round trip through the two translated methods is the model's save_load *)
Theorem src_save_load_is_model : forall (self : pyobj P S),
  (dor w <- src_save_h5 P S self; dor f <- h5_close w; src_load_h5 P S f)
  = (dor h <- save_load P S (snd self); Ok (as_obj h)).
Proof.
  intros self. unfold save_load. rewrite <- src_save_h5_is_model.
  destruct (src_save_h5 P S self) as [w|e] eqn:Ew; cbn [res_bind]; [|reflexivity].
  destruct (h5_close w) as [f|e] eqn:Ef; cbn [res_bind]; [|reflexivity].
  apply (src_load_of_saved (snd self)). rewrite <- src_save_h5_is_model, Ew. exact Ef.
Qed.

End Src.
