(* C10: the hand-written model Model/Thetas.v equals the translations of the methods of
   batchie.core.ThetaHolder regenerated from /repo on every run (Generated/SrcThetas.v, by
   harness/py2gal.py), for all inputs.

   The translated methods work on holder OBJECTS (class id, attribute values) = pyobj; the model
   works on holders (the attribute values alone).  Each theorem says what the translated method
   does to ANY object in terms of the model's function on its attribute values; for concat, whose
   model has no class guard, the theorem is stated for all lists of instances of ThetaHolder itself
   (as_obj), which is what every holder in the tree is. *)
From Coq Require Import ZArith List Bool Lia ZifyBool.
From Batchie Require Import Lib.Sexp Lib.PyRt Model.Thetas Generated.SrcThetas Proofs.PyRtLemmas.
Import ListNotations.
Open Scope Z_scope.

Section Src.
Variables P S : Type.

(* ThetaHolder.__init__: whatever the fresh instance held, it now holds (n, []) *)
Theorem src_init_is_model : forall (self : pyobj P S) n,
  src_init P S self n = Ok (py_class self, empty_holder P S n).
Proof. intros [c [d l]] n. reflexivity. Qed.

(* the property n_thetas *)
Theorem src_n_thetas_is_model : forall (self : pyobj P S),
  src_n_thetas P S self = Ok (h_declared (snd self)).
Proof. reflexivity. Qed.

(* l[i] for an index within the list *)
Lemma list_get_in_range {A : Type} (l : list A) (i : Z) :
  0 <= i < Z.of_nat (length l) ->
  list_get l i = match nth_error l (Z.to_nat i) with Some a => Ok a | None => Err 98 end
  /\ nth_error l (Z.to_nat i) <> None.
Proof.
  intros Hi. unfold list_get.
  destruct (i <? 0) eqn:E0; [lia|]. rewrite E0. split; [reflexivity|].
  apply nth_error_Some. lia.
Qed.

Theorem src_get_theta_is_model : forall (self : pyobj P S) i,
  src_get_theta P S self i = get_theta P S (snd self) i.
Proof.
  intros [c [d l]] i. unfold src_get_theta, get_theta, attr_thetas. cbn [snd h_thetas].
  destruct ((i >? Z.of_nat (length l) - 1) || (i <? 0)) eqn:E; [reflexivity|].
  apply orb_false_iff in E. destruct E as [E1 E2].
  destruct (list_get_in_range l i) as [Hg Hn]; [lia|].
  rewrite Hg. destruct (nth_error l (Z.to_nat i)) as [t|]; [reflexivity | now elim Hn].
Qed.

(* add_theta mutates self: the method denotes the new value of self *)
Theorem src_add_theta_is_model : forall (self : pyobj P S) t,
  src_add_theta P S self t = (dor h <- add_theta P S (snd self) t; Ok (py_class self, h)).
Proof.
  intros [c [d l]] t. unfold src_add_theta, add_theta, src_n_thetas, attr_thetas, attr_n_thetas, set_attr_thetas, py_class.
  cbn [snd fst h_thetas h_declared res_bind].
  destruct (Z.of_nat (length l) >=? d); reflexivity.
Qed.

Theorem src_is_complete_is_model : forall (self : pyobj P S),
  src_is_complete P S self = Ok (is_complete P S (snd self)).
Proof. intros [c [d l]]. reflexivity. Qed.

(* combine: the class guard, then a NEW instance of ThetaHolder itself (class 0) holding the model's combination *)
Theorem src_combine_is_model : forall (a b : pyobj P S),
  src_combine P S a b
  = if py_class a =? py_class b then Ok (as_obj (combine_holders P S (snd a) (snd b))) else Err 6.
Proof.
  intros [ca [da la]] [cb [db lb]]. unfold src_combine, py_class. cbn [fst].
  destruct (ca =? cb); reflexivity.
Qed.

Corollary src_combine_same_class : forall (a b : holder P S),
  src_combine P S (as_obj a) (as_obj b) = Ok (as_obj (combine_holders P S a b)).
Proof. intros a b. rewrite src_combine_is_model. reflexivity. Qed.

(* the loop of concat over instances of ThetaHolder itself *)
Lemma concat_loop (f : pyobj P S -> pyobj P S -> result (pyobj P S)) :
  (forall first inst, f first inst =
     if negb (py_class inst =? py_class first) then Err 7
     else dor r <- src_combine P S first inst; Ok r) ->
  forall (r : list (holder P S)) (h : holder P S),
  res_fold f (map as_obj r) (as_obj h) = Ok (as_obj (fold_left (combine_holders P S) r h)).
Proof.
  intros Hf. induction r as [|x r IH]; intros h; cbn [map res_fold fold_left]; [reflexivity|].
  rewrite Hf. unfold as_obj at 1 2. unfold py_class at 1 2. cbn [fst negb Z.eqb].
  rewrite src_combine_same_class. cbn [res_bind]. apply IH.
Qed.

Theorem src_concat_is_model : forall (hs : list (holder P S)),
  src_concat P S (map as_obj hs) = (dor h <- concat_holders P S hs; Ok (as_obj h)).
Proof.
  intros hs. unfold src_concat, concat_holders. rewrite map_length.
  destruct hs as [|h [|h2 r]]; [reflexivity | reflexivity |].
  replace (Z.of_nat (length (h :: h2 :: r)) =? 0) with false by (cbn [length]; lia).
  replace (Z.of_nat (length (h :: h2 :: r)) =? 1) with false by (cbn [length]; lia).
  cbn [map]. unfold list_get. cbn [Z.ltb Z.compare Z.to_nat nth_error res_bind tl].
  change (as_obj h2 :: map as_obj r) with (map (@as_obj P S) (h2 :: r)).
  rewrite concat_loop by (intros; reflexivity). reflexivity.
Qed.

(* the general shape of concat on arbitrary objects, for the record: the empty list and the singleton *)
Theorem src_concat_small : forall (o : pyobj P S),
  src_concat P S [] = Err 3 /\ src_concat P S [o] = Ok o.
Proof. intros o. split; reflexivity. Qed.

End Src.
