(* The argparse option tables of the command-line wrappers.  harness/argparse_reader.py (a fail-closed reader of the declarative
   get_parser() functions: parser = argparse.ArgumentParser(...), parser.add_argument(<literals>), log_config.add_logging_args(parser),
   return parser - anything else is refused) re-reads each table from /repo on every run into Generated/SrcParser_<command>.v; the
   pieces below prove, per command and in a file of its own, that the table provides what the argument records of Model/Cli.v
   assume (Cli.declares ...), by evaluating the checkers of Proofs/C18Parser.v on the table.  This file states them together, for
   Props/C18.v; the other properties import only the piece of their command. *)
From Batchie Require Export Proofs.C18SourceParser_calculate_scores Proofs.C18SourceParser_select_next_plate Proofs.C18SourceParser_train_model Proofs.C18SourceParser_prepare_retrospective_simulation Proofs.C18SourceParser_reveal_plate Proofs.C18SourceParser_extract_screen_metadata Proofs.C18SourceParser_calculate_distance_matrix Proofs.C18SourceParser_evaluate_model Proofs.C18SourceParser_analyze_model_evaluation.
