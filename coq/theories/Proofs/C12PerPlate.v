(* C12, clause "revealing refuses plates whose stored values are all zero or contain NaN", read PER PLATE.
   The code (and hence the model, which equals its translation) evaluates both guards on the union of the selected
   rows.  Per plate this gives: the NaN half holds (any over the union is the stricter test), the zero half holds only
   when EVERY named plate is all zero - an all-zero plate named together with a plate holding a non-zero value is
   revealed (reveal_zero_guard_is_joint: the witness the harness replays on the implementation). *)
From Coq Require Import ZArith List Bool Lia.
From Batchie Require Import Lib.Sexp Generated.Consts Model.Encode Model.Screen Model.Reveal Model.Holdout
  Proofs.C03Base Proofs.C03Screen Proofs.C12Reveal Proofs.C03Witness Generated.SrcReveal Proofs.C12Source_Reveal.
Import ListNotations.
Open Scope Z_scope.

Lemma select_map_incl {A P} (f g : P -> bool) (ps : list P) (l : list A) :
  (forall p, In p ps -> f p = true -> g p = true) -> incl (select (map f ps) l) (select (map g ps) l).
Proof.
  revert l; induction ps as [|p ps IH]; intros l H; cbn [map select]; [intros x Hx; exact Hx|].
  destruct l as [|a l]; [intros x Hx; exact Hx|].
  assert (IH' : incl (select (map f ps) l) (select (map g ps) l)) by (apply IH; intros q Hq; apply H; now right).
  destruct (f p) eqn:Ef.
  - rewrite (H p (or_introl eq_refl) Ef). intros x [Hx|Hx]; [now left|right; now apply IH'].
  - destruct (g p); [intros x Hx; right; now apply IH'|exact IH'].
Qed.

Lemma mem_Z_in x l : In x l -> mem_Z x l = true.
Proof. intros H. unfold mem_Z. apply existsb_exists. exists x. split; [exact H|apply Z.eqb_refl]. Qed.

Lemma plate_values_incl s ids pid : In pid ids -> incl (plate_values s pid) (revealed_values s ids).
Proof.
  intros Hin. unfold plate_values, revealed_values, reveal_sel. intros x Hx.
  apply in_map_iff in Hx. destruct Hx as (r & <- & Hr). apply in_map.
  revert Hr. apply select_map_incl. intros p _ E. apply Z.eqb_eq in E. subst p. now apply mem_Z_in.
Qed.

(* every selected value belongs to some NAMED plate *)
Lemma select_pids_named (ids : list Z) (pids : list Z) (rows : list row) r :
  In r (select (map (fun p => mem_Z p ids) pids) rows) ->
  exists pid, In pid ids /\ In r (select (map (fun p => p =? pid) pids) rows).
Proof.
  revert rows; induction pids as [|p pids IH]; intros rows H; cbn [map select] in H; [destruct H|].
  destruct rows as [|a rows]; [destruct H|].
  destruct (mem_Z p ids) eqn:E.
  - destruct H as [H|H].
    + subst a. unfold mem_Z in E. apply existsb_exists in E. destruct E as (q & Hq & Epq). apply Z.eqb_eq in Epq. subst q.
      exists p. split; [exact Hq|]. cbn [map select]. rewrite Z.eqb_refl. now left.
    + destruct (IH rows H) as (pid & Hpid & Hr). exists pid. split; [exact Hpid|].
      cbn [map select]. destruct (p =? pid); [now right|exact Hr].
  - destruct (IH rows H) as (pid & Hpid & Hr). exists pid. split; [exact Hpid|].
    cbn [map select]. destruct (p =? pid); [now right|exact Hr].
Qed.

Lemma revealed_value_named s ids x :
  In x (revealed_values s ids) -> exists pid, In pid ids /\ In x (plate_values s pid).
Proof.
  unfold revealed_values, reveal_sel, plate_values. intros H. apply in_map_iff in H. destruct H as (r & <- & Hr).
  destruct (select_pids_named ids (s_pids s) (s_rows s) r Hr) as (pid & Hpid & Hr').
  exists pid. split; [exact Hpid|now apply in_map].
Qed.

(* NaN half, per plate: ONE named plate containing a NaN refuses the whole reveal *)
Theorem reveal_refuses_nan_per_plate v s ids pid :
  In pid ids -> existsb obs_is_nan (plate_values s pid) = true -> reveal_plates v s ids = Err 9.
Proof.
  intros Hin H. apply reveal_refuses_nan. apply existsb_exists in H. destruct H as (x & Hx & Hn).
  apply existsb_exists. exists x. split; [now apply (plate_values_incl s ids pid Hin)|exact Hn].
Qed.

(* zero half, per plate, as far as it is true: refused (tag 8) when EVERY named plate is all zero *)
Theorem reveal_refuses_zero_every_plate v s ids :
  (forall pid, In pid ids -> forallb obs_is_zero (plate_values s pid) = true) -> reveal_plates v s ids = Err 8.
Proof.
  intros H. apply reveal_refuses_zero. apply forallb_forall. intros x Hx.
  destruct (revealed_value_named s ids x Hx) as (pid & Hpid & Hx').
  specialize (H pid Hpid). rewrite forallb_forall in H. now apply H.
Qed.

(* ... and NOT when only some are: plate "0" (ids 0) holds +0.0 and -0.0, plate "1" holds 0.5 and 0.25, both
   unobserved; reveal [0; 1] returns a screen in which the all-zero plate 0 is observed. *)
Definition z_rows : list row :=
  [ {| r_sample := [97]; r_plate := [48]; r_treats := [([120], 1)]; r_obs := 0; r_mask := false |};
    {| r_sample := [97]; r_plate := [48]; r_treats := [([120], 1)]; r_obs := two63; r_mask := false |};
    {| r_sample := [97]; r_plate := [49]; r_treats := [([120], 1)]; r_obs := 4602678819172646912; r_mask := false |};
    {| r_sample := [97]; r_plate := [49]; r_treats := [([120], 1)]; r_obs := 4598175219545276416; r_mask := false |} ].
Definition z_screen : screen := Eval vm_compute in get (mk_screen z_rows 1 [] None None true true).
Definition z_revealed : screen := Eval vm_compute in get (reveal_plates (carry_mappings true) z_screen [0; 1]).

Lemma z_screen_ok : mk_screen z_rows 1 [] None None true true = Ok z_screen.
Proof. vm_compute. reflexivity. Qed.

Theorem reveal_zero_guard_is_joint :
  exists s ids pid s',
    constructed s /\ In pid ids /\ In pid (s_pids s) /\ plate_observed s pid = false /\
    plate_values s pid <> [] /\ forallb obs_is_zero (plate_values s pid) = true /\
    reveal_plates (carry_mappings true) s [pid] = Err 8 /\
    src_reveal_plates s ids = Ok s' /\ reveal_plates (carry_mappings true) s ids = Ok s' /\
    plate_observed s' pid = true.
Proof.
  exists z_screen, [0; 1], 0, z_revealed.
  split; [exists z_rows, 1%nat, [], None, None, true, true; exact z_screen_ok|].
  rewrite src_reveal_plates_is_model.
  vm_compute. repeat split; try reflexivity; try (now left); discriminate.
Qed.
