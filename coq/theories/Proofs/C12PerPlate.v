(* C12, clause "revealing refuses plates whose stored values are all zero or contain NaN", read PER PLATE.
   Since fix fx5 the code tests the zero guard on every selected plate by itself (after the joint test over the union of
   the selected rows, which it keeps and which refuses the empty selection); the NaN guard is np.any over the union, which
   is per plate already.  Hence: ONE named plate of the screen whose stored values are all zero refuses the whole reveal
   (reveal_refuses_zero_per_plate), reveal_zero_guard_spec says exactly when the zero guard fires, and a NaN in one named
   plate refuses the reveal too (with the zero error when another named plate is all zero: the zero guard comes first).
   The code BEFORE the fix (Model/Reveal.reveal_plates_joint) revealed an all-zero plate named together with a plate
   holding a non-zero value: reveal_zero_guard_was_joint, the witness the harness keeps as corpus/C12/zero-plate-beside-nonzero.json. *)
From Coq Require Import ZArith List Bool Lia.
From Batchie Require Import Lib.Sexp Generated.Consts Model.Encode Model.Screen Model.Reveal Model.Holdout
  Proofs.C03Base Proofs.C03Screen Proofs.C12Reveal Proofs.C03Witness Generated.SrcReveal Proofs.C12Source_Reveal.
Import ListNotations.
Open Scope Z_scope.

Lemma select_map_incl {A P} (f g : P -> bool) (ps : list P) (l : list A) :
  (forall p, In p ps -> f p = true -> g p = true) -> incl (select (map f ps) l) (select (map g ps) l).
Proof.
  revert l; induction ps as [|p ps IH]; intros l H; cbn [map select]; [intros x Hx; exact Hx|].
  destruct l as [|a l]; [intros x Hx; exact Hx|].
  assert (IH' : incl (select (map f ps) l) (select (map g ps) l)) by (apply IH; intros q Hq; apply H; now right).
  destruct (f p) eqn:Ef.
  - rewrite (H p (or_introl eq_refl) Ef). intros x [Hx|Hx]; [now left|right; now apply IH'].
  - destruct (g p); [intros x Hx; right; now apply IH'|exact IH'].
Qed.

Lemma mem_Z_in x l : In x l -> mem_Z x l = true.
Proof. intros H. unfold mem_Z. apply existsb_exists. exists x. split; [exact H|apply Z.eqb_refl]. Qed.

Lemma plate_values_incl s ids pid : In pid ids -> incl (plate_values s pid) (revealed_values s ids).
Proof.
  intros Hin. unfold plate_values, revealed_values, reveal_sel. intros x Hx.
  apply in_map_iff in Hx. destruct Hx as (r & <- & Hr). apply in_map.
  revert Hr. apply select_map_incl. intros p _ E. apply Z.eqb_eq in E. subst p. now apply mem_Z_in.
Qed.

(* every selected value belongs to some NAMED plate *)
Lemma select_pids_named (ids : list Z) (pids : list Z) (rows : list row) r :
  In r (select (map (fun p => mem_Z p ids) pids) rows) ->
  exists pid, In pid ids /\ In r (select (map (fun p => p =? pid) pids) rows).
Proof.
  revert rows; induction pids as [|p pids IH]; intros rows H; cbn [map select] in H; [destruct H|].
  destruct rows as [|a rows]; [destruct H|].
  destruct (mem_Z p ids) eqn:E.
  - destruct H as [H|H].
    + subst a. unfold mem_Z in E. apply existsb_exists in E. destruct E as (q & Hq & Epq). apply Z.eqb_eq in Epq. subst q.
      exists p. split; [exact Hq|]. cbn [map select]. rewrite Z.eqb_refl. now left.
    + destruct (IH rows H) as (pid & Hpid & Hr). exists pid. split; [exact Hpid|].
      cbn [map select]. destruct (p =? pid); [now right|exact Hr].
  - destruct (IH rows H) as (pid & Hpid & Hr). exists pid. split; [exact Hpid|].
    cbn [map select]. destruct (p =? pid); [now right|exact Hr].
Qed.

Lemma revealed_value_named s ids x :
  In x (revealed_values s ids) -> exists pid, In pid ids /\ In x (plate_values s pid).
Proof.
  unfold revealed_values, reveal_sel, plate_values. intros H. apply in_map_iff in H. destruct H as (r & <- & Hr).
  destruct (select_pids_named ids (s_pids s) (s_rows s) r Hr) as (pid & Hpid & Hr').
  exists pid. split; [exact Hpid|now apply in_map].
Qed.

(* the plates the loop of the repaired code visits: the plates of the screen that the ids name *)
Lemma select_self_in (ids pids : list Z) pid :
  In pid (select (map (fun p => mem_Z p ids) pids) pids) <-> In pid pids /\ mem_Z pid ids = true.
Proof.
  induction pids as [|p pids IH]; cbn [map select In]; [tauto|].
  destruct (mem_Z p ids) eqn:E; cbn [In]; rewrite IH; split.
  - intros [->|[H1 H2]]; [split; [now left|exact E]|split; [now right|exact H2]].
  - intros [[->|H1] H2]; [now left|right; now split].
  - intros [H1 H2]; split; [now right|exact H2].
  - intros [[->|H1] H2]; [congruence|now split].
Qed.

Lemma mem_Z_iff x l : mem_Z x l = true <-> In x l.
Proof.
  split; [|apply mem_Z_in]. unfold mem_Z. intros H. apply existsb_exists in H. destruct H as (y & Hy & E).
  apply Z.eqb_eq in E. now subst y.
Qed.

Lemma revealed_plate_ids_spec s ids pid :
  In pid (revealed_plate_ids s ids) <-> In pid (s_pids s) /\ In pid ids.
Proof.
  unfold revealed_plate_ids, reveal_sel. rewrite (In_sort_uniq Z.compare Z.compare_eq), select_self_in, mem_Z_iff. tauto.
Qed.

(* exactly when the zero guard of the repaired code fires *)
Theorem reveal_zero_guard_spec s ids :
  reveal_zero_guard s ids = true <->
  forallb obs_is_zero (revealed_values s ids) = true \/
  exists pid, In pid ids /\ In pid (s_pids s) /\ forallb obs_is_zero (plate_values s pid) = true.
Proof.
  unfold reveal_zero_guard. rewrite orb_true_iff, existsb_exists. split.
  - intros [H|(pid & Hp & Hz)]; [now left|right]. apply revealed_plate_ids_spec in Hp. exists pid. tauto.
  - intros [H|(pid & H1 & H2 & Hz)]; [now left|right]. exists pid. split; [apply revealed_plate_ids_spec; tauto|exact Hz].
Qed.

(* zero half, per plate, at full strength: ONE named plate of the screen whose stored values are all zero refuses the
   whole reveal, whatever else is named *)
Theorem reveal_refuses_zero_per_plate v s ids pid :
  In pid ids -> In pid (s_pids s) -> forallb obs_is_zero (plate_values s pid) = true -> reveal_plates v s ids = Err 8.
Proof.
  intros H1 H2 Hz. apply reveal_refuses_guard. apply reveal_zero_guard_spec. right. exists pid. tauto.
Qed.

(* NaN half, per plate: ONE named plate containing a NaN refuses the whole reveal (tag 9, or tag 8 when the zero guard,
   which comes first, fires for another named plate) *)
Theorem reveal_refuses_nan_per_plate v s ids pid :
  In pid ids -> existsb obs_is_nan (plate_values s pid) = true ->
  reveal_plates v s ids = Err (if reveal_zero_guard s ids then 8 else 9).
Proof.
  intros Hin H. apply reveal_refuses_nan. apply existsb_exists in H. destruct H as (x & Hx & Hn).
  apply existsb_exists. exists x. split; [now apply (plate_values_incl s ids pid Hin)|exact Hn].
Qed.

(* an accepted reveal: every named plate of the screen holds a non-zero value, and no selected value is a NaN *)
Theorem reveal_ok_per_plate v s ids s' pid :
  reveal_plates v s ids = Ok s' -> In pid ids -> In pid (s_pids s) ->
  forallb obs_is_zero (plate_values s pid) = false /\ existsb obs_is_nan (plate_values s pid) = false.
Proof.
  intros H H1 H2. split.
  - destruct (forallb obs_is_zero (plate_values s pid)) eqn:E; [|reflexivity].
    rewrite (reveal_refuses_zero_per_plate v s ids pid H1 H2 E) in H. discriminate.
  - destruct (existsb obs_is_nan (plate_values s pid)) eqn:E; [|reflexivity].
    rewrite (reveal_refuses_nan_per_plate v s ids pid H1 E) in H. discriminate.
Qed.

(* the code BEFORE fix fx5 (reveal_plates_joint): plate "0" (id 0) holds +0.0 and -0.0, plate "1" holds 0.5 and 0.25, both
   unobserved; the old reveal [0; 1] returned a screen in which the all-zero plate 0 is observed.  The repaired model and
   the translated source refuse it. *)
Definition z_rows : list row :=
  [ {| r_sample := [97]; r_plate := [48]; r_treats := [([120], 1)]; r_obs := 0; r_mask := false |};
    {| r_sample := [97]; r_plate := [48]; r_treats := [([120], 1)]; r_obs := two63; r_mask := false |};
    {| r_sample := [97]; r_plate := [49]; r_treats := [([120], 1)]; r_obs := 4602678819172646912; r_mask := false |};
    {| r_sample := [97]; r_plate := [49]; r_treats := [([120], 1)]; r_obs := 4598175219545276416; r_mask := false |} ].
Definition z_screen : screen := Eval vm_compute in get (mk_screen z_rows 1 [] None None true true).
Definition z_revealed : screen := Eval vm_compute in get (reveal_plates_joint (carry_mappings true) z_screen [0; 1]).

Lemma z_screen_ok : mk_screen z_rows 1 [] None None true true = Ok z_screen.
Proof. vm_compute. reflexivity. Qed.

Theorem reveal_zero_guard_was_joint :
  exists s ids pid s',
    constructed s /\ In pid ids /\ In pid (s_pids s) /\ plate_observed s pid = false /\
    plate_values s pid <> [] /\ forallb obs_is_zero (plate_values s pid) = true /\
    reveal_plates_joint (carry_mappings true) s [pid] = Err 8 /\
    reveal_plates_joint (carry_mappings true) s ids = Ok s' /\ plate_observed s' pid = true /\
    reveal_plates (carry_mappings true) s ids = Err 8 /\ src_reveal_plates s ids = Err 8.
Proof.
  exists z_screen, [0; 1], 0, z_revealed.
  split; [exists z_rows, 1%nat, [], None, None, true, true; exact z_screen_ok|].
  rewrite src_reveal_plates_is_model.
  vm_compute. repeat split; try reflexivity; try (now left); discriminate.
Qed.
