(* One piece of Proofs/C18SourceArgs.v (which see): calculate_scores: the statements of get_args() after parser.parse_args(), and main() as a whole command *)
From Coq Require Import ZArith List Bool Lia.
From Batchie Require Import Lib.Sexp Lib.PyRt Model.Cli Generated.SrcCli Generated.SrcCliArgs Proofs.PyRtLemmas Proofs.C06SourceCli_Scores Proofs.C18SourceArgs_Cast.
Import ListNotations.
Open Scope Z_scope.

Theorem src_cs_get_args_is_model : forall (Cls F O : Type) (I : introspect Cls) (P : pyprims F O) (raw : cs_ns Cls F O),
  src_cs_get_args Cls F O I P raw = cs_get_args I P raw.
Proof.
  intros. unfold src_cs_get_args, cs_get_args. cbv zeta.
  rewrite <- (resolve_block I P BScorer (cs_scorer raw) (cs_scorer_param raw)
                (fun c ps => Ok (cs_set_scorer_params (cs_set_scorer_cls raw c) ps))).
  unfold s_batchie.
  destruct (i_get_class I [98; 97; 116; 99; 104; 105; 101] (cs_scorer raw) BScorer) as [c|e]; cbn [res_bind]; [|reflexivity].
  cbn [cs_scorer_cls cs_scorer_param cs_set_scorer_cls].
  destruct (i_required I c) as [req|e]; cbn [res_bind]; [|reflexivity].
  apply res_bind_ret.
Qed.

(* main() as a whole command: get_args() is the translated get_args on the raw namespace, the scorer is `construct` on the
   class and the parameters the namespace holds *)
Theorem src_cli_calculate_scores_cmd_is_model :
  forall (Cls F O : Type) (I : introspect Cls) (P : pyprims F O) (Scr Pl Th Dm Sc H : Type)
         (construct : Cls -> list (str * pval F O) -> result Sc) (L : cs_lib Scr Pl Th Dm Sc H) (mix : Z -> Z)
         (raw : cs_ns Cls F O),
  src_cli_calculate_scores_cmd Cls F O I P Scr Pl Th Dm Sc H construct L mix raw
  = cli_calculate_scores_cmd I P construct L mix raw.
Proof.
  intros. unfold src_cli_calculate_scores_cmd, cli_calculate_scores_cmd. cbv zeta.
  rewrite src_cs_get_args_is_model.
  destruct (cs_get_args I P raw) as [a|e]; cbn [res_bind]; [|reflexivity].
  rewrite <- C06SourceCli_Scores.src_cli_calculate_scores_is_model.
  unfold SrcCli.src_cli_calculate_scores, instantiate. cbv zeta.
  cbn [cs_with_mk cs_load_screen cs_plates cs_is_observed cs_plate_id cs_mk_scorer cs_load_thetas cs_concat_thetas cs_load_dist
       cs_concat_dist cs_score_chunk].
  destruct (cs_load_screen L (cs_data (cs_plain a))); cbn [res_bind]; [|reflexivity].
  destruct (unwrap (cs_scorer_cls a)); cbn [res_bind]; reflexivity.
Qed.

(* the same, with the model spelled out: the scorer component of the main() model IS the resolved class instantiated with
   the cast parameters *)
Theorem src_cli_calculate_scores_cmd_spelled :
  forall (Cls F O : Type) (I : introspect Cls) (P : pyprims F O) (Scr Pl Th Dm Sc H : Type)
         (construct : Cls -> list (str * pval F O) -> result Sc) (L : cs_lib Scr Pl Th Dm Sc H) (mix : Z -> Z)
         (raw : cs_ns Cls F O),
  src_cli_calculate_scores_cmd Cls F O I P Scr Pl Th Dm Sc H construct L mix raw
  = (dor cp <- resolve I P BScorer (cs_scorer raw) (cs_scorer_param raw);
     cli_calculate_scores (cs_with_mk L (instantiate construct (fst cp) (snd cp))) mix (cs_plain raw)).
Proof.
  intros. rewrite src_cli_calculate_scores_cmd_is_model.
  unfold cli_calculate_scores_cmd, cs_get_args.
  destruct (resolve I P BScorer (cs_scorer raw) (cs_scorer_param raw)); reflexivity.
Qed.
