(* C13: what one Plate.merge does to the plates of a one-sample-per-plate screen. *)
From Coq Require Import ZArith List Bool Arith Lia Permutation.
From Batchie Require Import Lib.Sexp Model.Encode Model.Screen Model.Retro
  Proofs.C11Lib Proofs.C11Gen Proofs.C11Select Proofs.C13NPlate.
Import ListNotations.
Open Scope nat_scope.

Definition one_sample (rows : list row) : Prop :=
  forall r1 r2, In r1 rows -> In r2 rows -> r_plate r1 = r_plate r2 -> r_sample r1 = r_sample r2.

(* name-level description of merging the plates called a and b *)
Definition in_ab (a b : name) (r : row) : bool := in_plate a r || in_plate b r.
Definition first_plate (a b : name) (rows : list row) : name :=
  match filter (in_ab a b) rows with r :: _ => r_plate r | [] => [] end.
Definition relab (a b nm : name) (r : row) : row := if in_ab a b r then set_plate nm r else r.
Definition merge_names (a b : name) (rows : list row) : list row :=
  map (relab a b (first_plate a b rows)) rows.

Lemma vor_map {A} (f g : A -> bool) : forall l, vor (map f l) (map g l) = map (fun x => f x || g x) l.
Proof. induction l as [|x l IH]; cbn [map vor]; [reflexivity|]. now rewrite IH. Qed.
Lemma vrelabel_map (h : row -> bool) nm : forall l,
  vrelabel (map h l) nm l = map (fun r => if h r then set_plate nm r else r) l.
Proof. induction l as [|x l IH]; cbn [map vrelabel]; [reflexivity|]. now rewrite IH. Qed.

Lemma merge_exact : forall a b rows,
  merge (plate_vec a rows) (plate_vec b rows) rows = (map (in_ab a b) rows, merge_names a b rows).
Proof.
  intros a b rows. unfold merge, plate_vec. rewrite vor_map. fold (in_ab a b).
  rewrite <- filter_vselect, vrelabel_map. reflexivity.
Qed.

Lemma first_plate_cases : forall a b rows,
  (forall r, In r rows -> in_ab a b r = false) \/ first_plate a b rows = a \/ first_plate a b rows = b.
Proof.
  intros a b rows. unfold first_plate. destruct (filter (in_ab a b) rows) as [|r l] eqn:E.
  - left. intros r Hr. destruct (in_ab a b r) eqn:Er; [|reflexivity].
    assert (In r (filter (in_ab a b) rows)) by (apply filter_In; auto). rewrite E in H. contradiction.
  - right. assert (Hin : In r (filter (in_ab a b) rows)) by (rewrite E; now left).
    apply filter_In in Hin as [_ Hr]. unfold in_ab in Hr. apply orb_true_iff in Hr as [Hr|Hr];
      apply in_plate_true in Hr; auto.
Qed.

Lemma relab_sample : forall a b nm r, r_sample (relab a b nm r) = r_sample r.
Proof. intros. unfold relab. now destruct (in_ab a b r). Qed.
Lemma relab_plate : forall a b nm r, r_plate (relab a b nm r) = if in_ab a b r then nm else r_plate r.
Proof. intros. unfold relab. now destruct (in_ab a b r). Qed.
Lemma merge_names_strip : forall a b rows, map strip (merge_names a b rows) = map strip rows.
Proof.
  intros. unfold merge_names. rewrite map_map. apply map_ext. intros r. unfold relab.
  now destruct (in_ab a b r).
Qed.

Lemma in_ab_false : forall a b r, in_ab a b r = false <-> r_plate r <> a /\ r_plate r <> b.
Proof.
  intros a b r. unfold in_ab. rewrite orb_false_iff. unfold in_plate. now rewrite !name_eqb_neq.
Qed.
Lemma in_ab_true : forall a b r, in_ab a b r = true <-> r_plate r = a \/ r_plate r = b.
Proof. intros a b r. unfold in_ab. rewrite orb_true_iff. now rewrite !in_plate_true. Qed.

Lemma filter_sample_merge : forall a b nm s' rows,
  (forall r, In r rows -> in_sample s' r = true -> in_ab a b r = false) ->
  map r_plate (filter (in_sample s') (map (relab a b nm) rows)) = map r_plate (filter (in_sample s') rows).
Proof.
  intros a b nm s' rows. induction rows as [|r rows IH]; intros H; cbn [map filter]; [reflexivity|].
  unfold in_sample at 1. rewrite relab_sample. fold (in_sample s' r).
  destruct (in_sample s' r) eqn:E; cbn [map].
  - rewrite relab_plate, (H r (or_introl eq_refl) E). f_equal. apply IH. intros; apply H; auto. now right.
  - apply IH. intros; apply H; auto. now right.
Qed.

Section Effect.
Variables (s a b : name) (rows : list row).
Hypothesis Hone : one_sample rows.
Hypothesis Ha : In a (sample_plates s rows).
Hypothesis Hb : In b (sample_plates s rows).
Hypothesis Hab : a <> b.

Let nm := first_plate a b rows.
Let rows' := merge_names a b rows.

Lemma ab_sample : forall r, In r rows -> in_ab a b r = true -> r_sample r = s.
Proof.
  intros r Hr Hin. apply in_ab_true in Hin.
  apply In_sample_plates in Ha as (ra & Hra & Hsa & Hpa). apply In_sample_plates in Hb as (rb & Hrb & Hsb & Hpb).
  destruct Hin as [E|E]; [rewrite <- Hsa; apply Hone|rewrite <- Hsb; apply Hone]; auto; congruence.
Qed.

Lemma eff_nm : nm = a \/ nm = b.
Proof.
  destruct (first_plate_cases a b rows) as [Hno|H]; [|exact H]. exfalso.
  apply In_sample_plates in Ha as (ra & Hra & _ & Hpa). specialize (Hno ra Hra).
  apply in_ab_false in Hno. tauto.
Qed.

Lemma In_rows' : forall r', In r' rows' <-> exists r, In r rows /\ r' = relab a b nm r.
Proof. intros r'. unfold rows', merge_names. rewrite in_map_iff. fold nm. firstorder. Qed.

Lemma eff_one_sample : one_sample rows'.
Proof.
  intros r1' r2' H1 H2 Hp. apply In_rows' in H1 as (r1 & Hr1 & ->). apply In_rows' in H2 as (r2 & Hr2 & ->).
  rewrite !relab_sample. rewrite !relab_plate in Hp.
  destruct (in_ab a b r1) eqn:E1; destruct (in_ab a b r2) eqn:E2.
  - rewrite (ab_sample r1 Hr1 E1), (ab_sample r2 Hr2 E2). reflexivity.
  - exfalso. apply in_ab_false in E2. destruct eff_nm as [E|E]; rewrite E in Hp; intuition congruence.
  - exfalso. apply in_ab_false in E1. destruct eff_nm as [E|E]; rewrite E in Hp; intuition congruence.
  - now apply Hone.
Qed.

Lemma eff_plates : exists other, (other = a \/ other = b) /\ other <> nm /\ In other (sample_plates s rows) /\
  forall p, In p (sample_plates s rows') <-> In p (sample_plates s rows) /\ p <> other.
Proof.
  assert (Hnm_in : In nm (sample_plates s rows)) by (destruct eff_nm as [->| ->]; assumption).
  set (other := if name_eqb nm a then b else a).
  assert (Ho : (other = a \/ other = b) /\ other <> nm /\ (nm = a \/ nm = b) /\ (forall p, p = a \/ p = b -> p <> other -> p = nm)).
  { unfold other. destruct (name_eqb nm a) eqn:E.
    - apply name_eqb_eq in E. rewrite E. repeat split; auto. intros p [->| ->] Hp; congruence.
    - apply name_eqb_neq in E. destruct eff_nm as [E'|E']; [congruence|]. rewrite E'.
      repeat split; auto. intros p [->| ->] Hp; congruence. }
  destruct Ho as (Ho1 & Ho2 & Ho3 & Ho4).
  exists other. repeat split; auto.
  - destruct Ho1 as [->| ->]; assumption.
  - apply In_sample_plates in H as (r' & Hr' & Hs & Hp). apply In_rows' in Hr' as (r & Hr & ->).
    rewrite relab_sample in Hs. rewrite relab_plate in Hp. destruct (in_ab a b r) eqn:E.
    + now subst p.
    + subst p. apply In_sample_plates. eauto.
  - apply In_sample_plates in H as (r' & Hr' & Hs & Hp). apply In_rows' in Hr' as (r & Hr & ->).
    rewrite relab_plate in Hp. destruct (in_ab a b r) eqn:E.
    + congruence.
    + apply in_ab_false in E. subst p. destruct Ho1 as [->| ->]; tauto.
  - intros [Hp Hne]. apply In_sample_plates in Hp as (r & Hr & Hs & Hp). apply In_sample_plates.
    exists (relab a b nm r). split; [apply In_rows'; eauto|]. rewrite relab_sample, relab_plate. split; [exact Hs|].
    destruct (in_ab a b r) eqn:E; [|exact Hp]. apply in_ab_true in E. symmetry. apply Ho4; congruence.
Qed.

Lemma eff_other_samples : forall s', s' <> s -> sample_plates s' rows' = sample_plates s' rows.
Proof.
  intros s' Hs'. unfold sample_plates, rows', merge_names. f_equal. apply filter_sample_merge.
  intros r Hr Hin. destruct (in_ab a b r) eqn:E; [|reflexivity]. apply in_sample_true in Hin.
  rewrite (ab_sample r Hr E) in Hin. congruence.
Qed.

Lemma eff_other_vec : forall c, c <> a -> c <> b -> plate_vec c rows' = plate_vec c rows.
Proof.
  intros c Hca Hcb. unfold plate_vec, rows', merge_names. rewrite map_map. apply map_ext. intros r.
  unfold in_plate. rewrite relab_plate. destruct (in_ab a b r) eqn:E; [|reflexivity].
  apply in_ab_true in E. fold nm.
  assert (nm <> c) by (destruct eff_nm as [->| ->]; congruence).
  assert (r_plate r <> c) by (destruct E as [->| ->]; congruence).
  transitivity false; [now apply name_eqb_neq|symmetry; now apply name_eqb_neq].
Qed.

Lemma eff_merged_vec : plate_vec nm rows' = map (in_ab a b) rows.
Proof.
  unfold plate_vec, rows', merge_names. rewrite map_map. apply map_ext. intros r.
  unfold in_plate. rewrite relab_plate. fold nm. destruct (in_ab a b r) eqn:E; [apply name_eqb_refl|].
  apply in_ab_false in E. apply name_eqb_neq. destruct eff_nm as [->| ->]; tauto.
Qed.
End Effect.

(* counting: removing one member from a duplicate-free list *)
Lemma length_remove_one : forall (l l' : list name) x,
  NoDup l -> NoDup l' -> In x l -> (forall p, In p l' <-> In p l /\ p <> x) -> length l = S (length l').
Proof.
  intros l l' x Hl Hl' Hx H. change (S (length l')) with (length (x :: l')).
  apply Permutation_length, NoDup_Permutation; [exact Hl| |].
  - constructor; [|exact Hl']. intros Hin. apply H in Hin. tauto.
  - intros p. cbn [In]. rewrite H. destruct (list_eq_dec Z.eq_dec p x) as [->|Hne]; [tauto|]. intuition congruence.
Qed.

Lemma NoDup_sample_plates : forall s rows, NoDup (sample_plates s rows).
Proof. intros. apply NoDup_sort_uniq. Qed.

(* plates_of_sample: the plates whose sample is s *)
Lemma plates_of_sample_spec : forall s rows ps,
  plates_of_sample s rows = Ok ps ->
  one_sample rows /\ NoDup ps /\ forall p, In p ps <-> In p (sample_plates s rows).
Proof.
  intros s rows ps H. unfold plates_of_sample in H.
  destruct (res_map_all _ (plate_names_of rows)) as [sps|t] eqn:Er; cbn [res_bind] in H; [|discriminate].
  apply res_map_all_Forall2 in Er. fold (one_sample_plates rows sps) in Er. inversion H; subst ps. clear H.
  assert (Hone : one_sample rows).
  { intros r1 r2 H1 H2 Hp. pose proof (one_sample_row rows sps Er r1 H1) as E1.
    pose proof (one_sample_row rows sps Er r2 H2) as E2. rewrite Hp in E1. congruence. }
  split; [exact Hone|].
  assert (Heq : map fst (filter (fun x => name_eqb (snd x) s) (combine (plate_names_of rows) sps))
                = filter (fun p => match plate_sample p rows with Ok s' => name_eqb s' s | Err _ => false end)
                         (plate_names_of rows)).
  { unfold one_sample_plates in Er. induction Er as [|p s' ps sps Hp _ IH]; [reflexivity|].
    cbn [combine filter snd]. rewrite Hp. destruct (name_eqb s' s); cbn [map fst]; now rewrite IH. }
  rewrite Heq. split; [apply NoDup_filter, NoDup_sort_uniq|].
  intros p. rewrite filter_In, In_sample_plates. split.
  - intros [Hp Hs]. destruct (plate_sample p rows) as [s'|t] eqn:E; [|discriminate].
    apply name_eqb_eq in Hs. subst s'. apply plate_sample_ok in E.
    assert (Hin : In s (plate_samples p rows)) by (rewrite E; now left).
    apply In_plate_samples in Hin as (r & Hr & Hpl & Hsa). eauto.
  - intros (r & Hr & Hs & Hp). split; [apply In_plate_names_of; eauto|].
    rewrite <- Hp, (one_sample_row rows sps Er r Hr), Hs. apply name_eqb_refl.
Qed.
