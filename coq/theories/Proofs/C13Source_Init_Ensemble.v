(* C13: BatchieEnsemblePlateSmoother.__init__ (Generated/SrcInits.v) stores its arguments: the attributes the translated methods of the class read
   (`self.<attr>` = the model parameter of their links) are the values the object was constructed with - (min_size, n_iterations, min_n_cell_line_plates) *)
From Coq Require Import ZArith List Bool.
From Batchie Require Import Lib.Sexp Lib.PyRt Model.Encode Generated.SrcInits.
Import ListNotations.
Open Scope Z_scope.

Theorem src_ensemble_init_stores : forall min_size n_iterations m : Z, src_ensemble_init min_size n_iterations m = Ok (min_size, n_iterations, m).
Proof. reflexivity. Qed.
