(* C17: the hand-written model Sampling.sample equals the translation of batchie.sampling.sample
   regenerated from /repo on every run (Generated/SrcSampling.v, by harness/py2gal.py), for all inputs. *)
From Coq Require Import ZArith List Bool Lia.
From Batchie Require Import Lib.Sexp Lib.PyRt Model.Sampling Generated.SrcSampling Proofs.PyRtLemmas.
Import ListNotations.
Open Scope Z_scope.

Lemma burnin_loop {A : Type} (l : list A) : forall w : world,
  res_fold (fun (w : world) (_ : A) => Ok (emit w Step)) l w = Ok (fst w ++ repeat Step (length l), snd w).
Proof.
  induction l as [|a l IH]; intros [tr len]; cbn [res_fold length repeat fst snd].
  - now rewrite app_nil_r.
  - cbn [res_bind]. rewrite IH. unfold emit. cbn [fst snd]. now rewrite <- app_assoc.
Qed.

Lemma zrange_length n : length (zrange n) = Z.to_nat n.
Proof. unfold zrange. now rewrite map_length, seq_length. Qed.

Definition lift (tr : list event) (r : result (list event * Z)) : result world :=
  match r with Ok (ev, len) => Ok (tr ++ ev, len) | Err t => Err t end.

Lemma thin_loop_src thin n_thetas (f : world -> Z -> result world) :
  (forall w i, f w i =
      let w := emit w Step in
      dor u <- unwrap (Some thin);
      dor w <- (if ((i + 1) mod u) =? 0 then dor w <- add_theta n_thetas w; Ok w else Ok w);
      Ok w) ->
  forall todo s (w : world),
  res_fold f (map Z.of_nat (seq s todo)) w
  = lift (fst w) (thin_loop thin n_thetas todo (Z.of_nat s) (snd w)).
Proof.
  intros Hf.
  induction todo as [|todo IH]; intros s [tr len]; cbn [seq map res_fold thin_loop lift fst snd].
  - now rewrite app_nil_r.
  - rewrite Hf. cbn [unwrap res_bind]. unfold emit at 1. cbn [fst snd].
    replace (Z.of_nat s + 1) with (Z.of_nat (S s)) by lia.
    destruct (Z.of_nat (S s) mod thin =? 0) eqn:E.
    + unfold add_theta. cbn [fst snd]. destruct (n_thetas <=? len); cbn [res_bind]; [reflexivity|].
      rewrite IH. cbn [fst snd].
      destruct (thin_loop thin n_thetas todo (Z.of_nat (S s)) (len + 1)) as [[ev l']|t]; cbn [lift res_bind fst snd];
        [|reflexivity].
      now rewrite <- !app_assoc.
    + cbn [res_bind]. rewrite IH. unfold emit. cbn [fst snd].
      destruct (thin_loop thin n_thetas todo (Z.of_nat (S s)) len) as [[ev l']|t]; cbn [lift res_bind fst snd];
        [|reflexivity].
      now rewrite <- !app_assoc.
Qed.

Lemma add_all_src n_thetas : forall (l : list theta) (w : world),
  res_fold (fun (w : world) (_ : theta) => dor w <- add_theta n_thetas w; Ok w) l w
  = lift (fst w) (add_all n_thetas (length l) (snd w)).
Proof.
  induction l as [|a l IH]; intros [tr len]; cbn [res_fold length add_all lift fst snd].
  - now rewrite app_nil_r.
  - unfold add_theta. cbn [fst snd]. destruct (n_thetas <=? len); cbn [res_bind]; [reflexivity|].
    rewrite IH. cbn [fst snd].
    destruct (add_all n_thetas (length l) (len + 1)) as [[ev l']|t]; cbn [lift res_bind fst snd]; [|reflexivity].
    now rewrite <- !app_assoc.
Qed.

Lemma key_split seed nc ci :
  (dor s <- spawn_seeds seed nc; rng_of_spawned s ci) = rng_key seed nc ci.
Proof.
  unfold spawn_seeds, rng_of_spawned, rng_key.
  destruct (seed <? 0); [reflexivity|]. destruct (nc <? 0); [reflexivity|]. cbn [res_bind fst snd]. reflexivity.
Qed.

Theorem src_sample_is_model : forall kind seed n_chains chain_index n_burnin thin n_thetas len0 returned,
  src_sample kind seed n_chains chain_index n_burnin thin n_thetas ([], len0) returned
  = sample kind seed n_chains chain_index n_burnin thin n_thetas len0 returned.
Proof.
  intros kind seed nc ci b t n len0 ret. unfold src_sample, sample.
  destruct (kind =? 0).
  - destruct nc as [nc|]; [|reflexivity]. destruct ci as [ci|]; [|reflexivity].
    destruct b as [b|]; [|reflexivity]. destruct t as [t|]; [|reflexivity].
    cbn [is_none unwrap res_bind]. unfold sample_mcmc. rewrite <- key_split.
    destruct (spawn_seeds seed nc) as [sd|e]; cbn [res_bind]; [|reflexivity].
    destruct (rng_of_spawned sd ci) as [key|e]; cbn [res_bind]; [|reflexivity].
    rewrite burnin_loop. cbn [res_bind]. rewrite zrange_length.
    unfold zrange. rewrite (thin_loop_src t n) by (intros; reflexivity). unfold emit. cbn [fst snd app].
    unfold burnin.
    change (Z.of_nat 0) with 0.
    destruct (thin_loop t n (Z.to_nat (n * t)) 0 len0) as [[ev l']|e]; cbn [lift res_bind fst snd]; reflexivity.
  - destruct (kind =? 1); [|reflexivity].
    destruct nc as [nc|]; [|reflexivity]. destruct ci as [ci|]; [|reflexivity].
    cbn [is_none unwrap res_bind]. unfold sample_vi. rewrite <- key_split.
    destruct (spawn_seeds seed nc) as [sd|e]; cbn [res_bind]; [|reflexivity].
    destruct (rng_of_spawned sd ci) as [key|e]; cbn [res_bind]; [|reflexivity].
    rewrite add_all_src. unfold emit, vi_samples. cbn [fst snd app]. rewrite repeat_length.
    destruct (add_all n ret len0) as [[ev l']|e]; cbn [lift res_bind fst snd]; reflexivity.
Qed.
