(* C14: to_screen never fails on a view of a screen the constructor accepted. *)
From Coq Require Import ZArith List Bool Arith Lia.
From Batchie Require Import Lib.Sexp Model.Encode Model.Screen Model.Views
  Proofs.C14Defs Proofs.C14Lists Proofs.C14Unique Proofs.C14Views.
Import ListNotations.
Open Scope nat_scope.

(* what the constructor checked of the rows it stored *)
Definition rows_valid (arity : nat) (rows : list row) : Prop :=
  forallb (fun r => Nat.eqb (length (r_treats r)) arity) rows = true /\ plate_uniform rows = true.
Definition screen_valid (s : screen) : Prop := rows_valid (s_arity s) (s_rows s).

Lemma In_select {A} sel (l : list A) x : In x (select sel l) -> In x l.
Proof.
  revert l; induction sel as [|b s IH]; intros [|y l]; cbn [select]; try (intros []).
  destruct b; cbn [In]; intros H; [destruct H as [H|H]; [now left|]|]; right; now apply IH.
Qed.

(* ---- plate uniformity is a pairwise property, hence inherited by sub-lists ---- *)
Definition masks_agree (rows : list row) : Prop :=
  forall r1 r2, In r1 rows -> In r2 rows -> r_plate r1 = r_plate r2 -> r_mask r1 = r_mask r2.

Lemma first_mask_some p rows r : In r rows -> r_plate r = p ->
  exists r0, In r0 rows /\ r_plate r0 = p /\ first_mask p rows = Some (r_mask r0).
Proof.
  induction rows as [|x rows IH]; cbn [In first_mask]; [tauto|]. intros H Hp.
  destruct (name_eqb (r_plate x) p) eqn:E.
  - apply name_eqb_eq in E. exists x. auto.
  - destruct H as [->|H]; [rewrite Hp, name_eqb_refl in E; discriminate|].
    destruct (IH H Hp) as (r0 & H0 & H1 & H2). exists r0. auto.
Qed.

Lemma plate_uniform_iff rows : plate_uniform rows = true <-> masks_agree rows.
Proof.
  unfold plate_uniform, masks_agree. rewrite forallb_forall. split.
  - intros H r1 r2 H1 H2 E. pose proof (H _ H1) as A1. pose proof (H _ H2) as A2. rewrite E in A1.
    destruct (first_mask (r_plate r2) rows) as [b|]; [|discriminate].
    apply eqb_prop in A1, A2. congruence.
  - intros H r Hr. destruct (first_mask_some (r_plate r) rows r Hr eq_refl) as (r0 & H0 & H1 & ->).
    rewrite (H r0 r H0 Hr H1). apply eqb_reflx.
Qed.

Lemma rows_valid_select arity rows sel : rows_valid arity rows -> rows_valid arity (select sel rows).
Proof.
  intros [H1 H2]. split.
  - rewrite forallb_forall in *. intros r Hr. apply H1. eapply In_select; eassumption.
  - rewrite plate_uniform_iff in *. intros r1 r2 A1 A2. apply H2; eapply In_select; eassumption.
Qed.

(* ---- mappings built from the data cover the data ---- *)
Lemma opt_map_all_some {A B} (f : A -> option B) l : (forall x, In x l -> f x <> None) -> exists r, opt_map_all f l = Some r.
Proof.
  induction l as [|a l IH]; intros H; cbn [opt_map_all]; [now eexists|].
  destruct (f a) as [b|] eqn:E; [|exfalso; apply (H a); [now left|exact E]].
  destruct IH as (r & ->); [intros x Hx; apply H; now right|]. cbn [opt_bind]. now eexists.
Qed.

Lemma name_cmp_refl a : name_cmp a a = Eq.
Proof. now apply name_cmp_eq. Qed.

Lemma tkey_cmp_eq a b : tkey_cmp a b = Eq -> a = b.
Proof.
  unfold tkey_cmp. destruct a as [n1 d1], b as [n2 d2]. cbn [fst snd].
  destruct (name_cmp n1 n2) eqn:E; try discriminate. apply name_cmp_eq in E. intros H. apply Z.compare_eq in H. congruence.
Qed.

Lemma tkey_eqb_refl k : tkey_eqb k k = true.
Proof. unfold tkey_eqb, tkey_cmp. now rewrite name_cmp_refl, Z.compare_refl. Qed.

Lemma assign_from_fst ctrl i c l : map fst (assign_from ctrl i c l) = l.
Proof. revert i c; induction l as [|k l IH]; intros i c; cbn [assign_from map fst]; [reflexivity|now rewrite IH]. Qed.

Lemma number_from_fst {A} i (l : list A) : map fst (number_from i l) = l.
Proof. revert i; induction l as [|k l IH]; intros i; cbn [number_from map fst]; [reflexivity|now rewrite IH]. Qed.

Lemma tlookup_in m k : In k (map fst m) -> tlookup m k <> None.
Proof.
  induction m as [|[k' id] m IH]; cbn [map fst In tlookup]; [tauto|].
  destruct (tkey_eqb k k') eqn:E; [discriminate|]. intros [->|H]; [rewrite tkey_eqb_refl in E; discriminate|now apply IH].
Qed.

Lemma nlookup_in m k : In k (map fst m) -> nlookup m k <> None.
Proof.
  induction m as [|[k' id] m IH]; cbn [map fst In nlookup]; [tauto|].
  destruct (name_eqb k k') eqn:E; [discriminate|]. intros [->|H]; [rewrite name_eqb_refl in E; discriminate|now apply IH].
Qed.

Lemma encode_treatments_total keys ctrl : exists r, encode_treatments keys ctrl None = Ok r.
Proof.
  unfold encode_treatments.
  destruct (opt_map_all_some (tlookup (build_tmapping ctrl keys)) keys) as (ids & ->); [|now eexists].
  intros k Hk. apply tlookup_in. unfold build_tmapping. rewrite assign_from_fst.
  apply In_sort_uniq; [exact tkey_cmp_eq|exact Hk].
Qed.

Lemma encode_names_total names tag : exists r, encode_names names None tag = Ok r.
Proof.
  unfold encode_names.
  destruct (opt_map_all_some (nlookup (build_nmapping names)) names) as (ids & ->); [|now eexists].
  intros k Hk. apply nlookup_in. unfold build_nmapping. rewrite number_from_fst.
  apply In_sort_uniq; [intros a b; apply name_cmp_eq|exact Hk].
Qed.

Lemma mk_screen_total rows ar ctrl : rows_valid ar rows -> exists s, mk_screen rows ar ctrl None None true true = Ok s.
Proof.
  intros [H1 H2]. unfold mk_screen. cbn [negb andb option_map]. rewrite H1, H2. cbn [negb].
  destruct (encode_treatments_total (flatten_cols ([], 0%Z) ar (map r_treats rows)) ctrl) as ([tflat tm] & ->).
  cbn [res_bind option_map].
  destruct (encode_names_total (map r_sample rows) 6%Z) as ([sids sm] & ->). cbn [res_bind].
  destruct (encode_names_total (map r_plate rows) 6%Z) as ([pids pm] & ->). cbn [res_bind].
  now eexists.
Qed.

(* every screen returned by the constructor is valid *)
Lemma mk_screen_valid rows ar ctrl tm sm og mg s : mk_screen rows ar ctrl tm sm og mg = Ok s -> screen_valid s.
Proof.
  unfold mk_screen.
  destruct (forallb _ rows) eqn:EA; cbn [negb]; [|discriminate].
  destruct (negb og && mg); [discriminate|].
  set (rows' := if og then _ else _).
  assert (HA : forallb (fun r => length (r_treats r) =? ar) rows' = true).
  { subst rows'. destruct og; [destruct mg|]; try exact EA; rewrite forallb_forall in *;
      intros r Hr; apply in_map_iff in Hr; destruct Hr as (r0 & <- & Hr0); cbn; now apply EA. }
  destruct (plate_uniform rows') eqn:EU; cbn [negb]; [|discriminate].
  destruct (match tm with Some _ => _ | None => false end); [discriminate|].
  destruct (match sm with Some _ => _ | None => false end); [discriminate|].
  destruct (encode_treatments _ ctrl _) as [[tflat tmm]|]; cbn [res_bind]; [|discriminate].
  destruct (encode_names (map r_sample rows') _ 6%Z) as [[sids smm]|]; cbn [res_bind]; [|discriminate].
  destruct (encode_names (map r_plate rows') None 6%Z) as [[pids pmm]|]; cbn [res_bind]; [|discriminate].
  intros [= <-]. split; cbn; assumption.
Qed.

Lemma to_screen_total v : screen_valid (v_parent v) -> exists s, to_screen v = Ok s.
Proof. intros H. unfold to_screen, view_rows. apply mk_screen_total. now apply rows_valid_select. Qed.
