(* One piece of Proofs/C18SourceParser.v (which see): the option table of extract_screen_metadata.get_parser(), read from /repo on every run
   (Generated/SrcParser_extract_screen_metadata.v), provides what the argument record of that command assumes. *)
From Coq Require Import ZArith List Bool.
From Batchie Require Import Lib.Sexp Lib.PyRt Model.Cli Proofs.C18Parser Generated.SrcParser_extract_screen_metadata.
Import ListNotations.
Open Scope Z_scope.

Theorem parser_extract_screen_metadata_fields : forall f, In f (em_fields ++ logging_fields) -> declares src_parser_extract_screen_metadata f.
Proof. apply declares_all. vm_compute. reflexivity. Qed.

Theorem parser_extract_screen_metadata_dests_derived : dests_derived src_parser_extract_screen_metadata.
Proof. apply dests_derived_sound. vm_compute. reflexivity. Qed.

Theorem parser_extract_screen_metadata_dests_distinct : dests_distinct src_parser_extract_screen_metadata.
Proof. apply dests_distinct_sound. vm_compute. reflexivity. Qed.
