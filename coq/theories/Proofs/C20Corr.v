(* C20 proofs, part 3: itertools.combinations enumerates every subset of positions once; the
   combinatoric space carries the screen's own ids; the correlation matrix is symmetric, has a
   unit diagonal wherever it is defined (given the square-root property at that row's sum of
   squares), and equals its index-wise definition over the full space. *)
From Coq Require Import ZArith List QArith Qcanon Lia Arith Bool Sorted FinFun.
From Batchie Require Import Lib.Sexp Lib.Num Lib.NumP Model.Metrics Model.Synergy Model.Corr
  Proofs.C20Spec Proofs.C20Base.
Import ListNotations.
Open Scope Qc_scope.

(* ---- combinations ---- *)

Lemma combs_0 {A} (l : list A) : combs l 0 = [[]].
Proof. now destruct l. Qed.

Lemma combs_map {A B} (g : A -> B) l k : combs (map g l) k = map (map g) (combs l k).
Proof.
  revert k; induction l as [|x l IH]; intros [|k]; try reflexivity.
  cbn [map combs]. rewrite !IH, map_app, !map_map. reflexivity.
Qed.

Lemma combs_incl {A} (l : list A) : forall k c, In c (combs l k) -> incl c l /\ length c = k.
Proof.
  induction l as [|x l IH]; intros [|k] c H; cbn [combs] in H.
  - destruct H as [<-|[]]. split; [intros y []|reflexivity].
  - destruct H.
  - destruct H as [<-|[]]. split; [intros y []|reflexivity].
  - apply in_app_or in H as [H|H].
    + apply in_map_iff in H as (c' & <- & Hc'). destruct (IH _ _ Hc') as [Hi Hl].
      split; [|cbn [length]; now rewrite Hl].
      intros y [<-|Hy]; [now left|right; now apply Hi].
    + destruct (IH _ _ H) as [Hi Hl]. split; [|exact Hl]. intros y Hy. right. now apply Hi.
Qed.

Lemma NoDup_app_intro {A} (a b : list A) :
  NoDup a -> NoDup b -> (forall x, In x a -> In x b -> False) -> NoDup (a ++ b).
Proof.
  induction 1 as [|x a Hx Ha IH]; intros Hb Hd; [exact Hb|].
  cbn [app]. constructor.
  - intros Hin. apply in_app_or in Hin as [Hin|Hin]; [now apply Hx|]. apply (Hd x); [now left|exact Hin].
  - apply IH; [exact Hb|]. intros y Hy. apply Hd. now right.
Qed.

Lemma combs_NoDup {A} (l : list A) : NoDup l -> forall k, NoDup (combs l k).
Proof.
  induction 1 as [|x l Hx Hl IH]; intros [|k]; cbn [combs]; try (repeat constructor; intros []).
  apply NoDup_app_intro.
  - apply Injective_map_NoDup; [|apply IH]. intros a b E. now injection E.
  - apply IH.
  - intros c H1 H2. apply in_map_iff in H1 as (c' & <- & _).
    apply combs_incl in H2 as [Hi _]. apply Hx, Hi. now left.
Qed.

Lemma ssorted_cons_inv (x : nat) l : StronglySorted lt (x :: l) -> StronglySorted lt l /\ Forall (lt x) l.
Proof. intros H. now inversion H. Qed.

Lemma combs_sorted (l : list nat) : StronglySorted lt l ->
  forall k c, In c (combs l k) <-> (length c = k /\ StronglySorted lt c /\ incl c l).
Proof.
  induction 1 as [|x l Hs IH Hx]; intros k c.
  - destruct k as [|k]; cbn [combs In].
    + split.
      * intros [<-|[]]. repeat split; [constructor|intros y []].
      * intros (Hl & _ & _). left. destruct c; [reflexivity|discriminate].
    + split; [intros []|]. intros (Hl & _ & Hi). destruct c as [|y c]; [discriminate|]. apply (Hi y). now left.
  - destruct k as [|k]; cbn [combs].
    + split.
      * intros [<-|[]]. repeat split; [constructor|intros y []].
      * intros (Hl & _ & _). left. destruct c; [reflexivity|discriminate].
    + rewrite in_app_iff, in_map_iff. split.
      * intros [(c' & <- & Hc')|Hc].
        -- apply IH in Hc' as (Hl & Hsc & Hi). repeat split.
           ++ cbn [length]. now rewrite Hl.
           ++ constructor; [exact Hsc|]. apply Forall_forall. intros y Hy.
              rewrite Forall_forall in Hx. apply Hx, Hi, Hy.
           ++ intros y [<-|Hy]; [now left|right; now apply Hi].
        -- apply IH in Hc as (Hl & Hsc & Hi). repeat split; try assumption. intros y Hy. right. now apply Hi.
      * intros (Hl & Hsc & Hi). destruct c as [|y c]; [discriminate|].
        apply ssorted_cons_inv in Hsc as [Hsc Hy]. injection Hl as Hl. rewrite Forall_forall in Hx, Hy.
        destruct (Hi y (or_introl eq_refl)) as [E|Hyl].
        -- subst y. left. exists c. split; [reflexivity|]. apply IH. repeat split; try assumption.
           intros z Hz. destruct (Hi z (or_intror Hz)) as [E|Hzl]; [|exact Hzl].
           subst z. specialize (Hy _ Hz). lia.
        -- right. apply IH. repeat split.
           ++ cbn [length]. now rewrite Hl.
           ++ constructor; [exact Hsc|]. now apply Forall_forall.
           ++ intros z [<-|Hz]; [exact Hyl|].
              destruct (Hi z (or_intror Hz)) as [E|Hzl]; [|exact Hzl].
              subst z. specialize (Hy _ Hz). specialize (Hx _ Hyl). lia.
Qed.

Lemma seq_ssorted a n : StronglySorted lt (seq a n).
Proof.
  revert a; induction n as [|n IH]; intros a; cbn [seq]; constructor; [apply IH|].
  apply Forall_forall. intros y Hy. apply in_seq in Hy. lia.
Qed.

Theorem combs_every_subset_once {A} (l : list A) (d : A) (k : nat) :
  combs l k = map (map (fun p => nth p l d)) (combs (seq 0 (length l)) k)
  /\ NoDup (combs (seq 0 (length l)) k)
  /\ forall idx, In idx (combs (seq 0 (length l)) k)
                 <-> (length idx = k /\ StronglySorted lt idx /\ Forall (fun p => (p < length l)%nat) idx).
Proof.
  split; [|split].
  - rewrite (list_seq_nth l d) at 1. apply combs_map.
  - apply combs_NoDup, seq_NoDup.
  - intros idx. rewrite (combs_sorted _ (seq_ssorted 0 (length l))).
    split; intros (H1 & H2 & H3); repeat split; try assumption.
    + apply Forall_forall. intros p Hp. apply H3, in_seq in Hp. lia.
    + intros p Hp. rewrite Forall_forall in H3. apply in_seq. specialize (H3 _ Hp). lia.
Qed.

(* ---- the space: ids are those of the screen's own mapping ---- *)

Lemma zlookup_In k m v : zlookup k m = Some v -> In (k, v) m.
Proof.
  unfold zlookup. destruct (find _ m) as [[k' v']|] eqn:E; [|discriminate].
  intros H. inversion H; subst. apply find_some in E as [Hin Hk]. cbn [fst] in Hk.
  apply Z.eqb_eq in Hk. now subst.
Qed.

Lemma zlookup_NoDup k v m : NoDup (map fst m) -> In (k, v) m -> zlookup k m = Some v.
Proof.
  induction m as [|[k' v'] m IH]; intros Hnd Hin; [destruct Hin|].
  cbn [map fst] in Hnd. inversion Hnd as [|? ? Hk' Hnd']; subst.
  unfold zlookup. cbn [find fst]. destruct (Z.eqb_spec k' k) as [E|E].
  - subst k'. destruct Hin as [Hin|Hin]; [now inversion Hin|].
    exfalso. apply Hk'. apply in_map_iff. now exists (k, v).
  - destruct Hin as [Hin|Hin]; [inversion Hin; congruence|]. now apply IH.
Qed.

Lemma res_map_all_ok {A B} (f : A -> result B) (g : A -> B) l :
  (forall a, In a l -> f a = Ok (g a)) -> res_map_all f l = Ok (map g l).
Proof.
  induction l as [|a l IH]; intros H; [reflexivity|].
  cbn [res_map_all map]. rewrite (H a) by now left. cbn [res_bind].
  rewrite IH; [reflexivity|]. intros b Hb. apply H. now right.
Qed.

Lemma res_map_all_inv {A B} (f : A -> result B) (g : A -> B) l : forall l',
  (forall a b, In a l -> f a = Ok b -> b = g a) -> res_map_all f l = Ok l' -> l' = map g l.
Proof.
  induction l as [|a l IH]; intros l' H Hr; cbn [res_map_all] in Hr.
  - now inversion Hr.
  - destruct (f a) as [b|] eqn:E; [|discriminate]. cbn [res_bind] in Hr.
    destruct (res_map_all f l) as [bs|] eqn:E2; [|discriminate]. cbn [res_bind] in Hr. inversion Hr; subst.
    cbn [map]. f_equal; [apply H; [now left|exact E]|].
    apply IH; [|reflexivity]. intros a' b' Ha'. apply H. now right.
Qed.

Theorem full_space_eq mapping smap arity s ss tids :
  NoDup (map fst mapping) ->
  full_space mapping smap arity s = Ok (ss, tids) ->
  tids = map (map snd) (combs mapping arity)
  /\ exists sid, ss = map (fun _ => sid) (combs mapping arity) /\ (NoDup (map fst smap) -> sid = s).
Proof.
  intros Hnd. unfold full_space.
  destruct (combination_count (length mapping) arity) as [cnt|]; [|discriminate]. cbn [res_bind].
  destruct (10000000 <? cnt)%Z; [discriminate|].
  destruct (Nat.eqb arity 0); [discriminate|].
  destruct (zlookup s (rev (map swap_pair smap))) as [name|] eqn:E1; [|discriminate].
  destruct (zlookup name smap) as [sid|] eqn:E2; [|discriminate].
  rewrite (res_map_all_ok _ (map snd)).
  - cbn [res_bind]. intros H. inversion H; subst. split; [reflexivity|]. exists sid. split; [reflexivity|].
    intros Hnds. apply zlookup_In, in_rev, in_map_iff in E1 as ([a b] & E & Hin).
    unfold swap_pair in E. cbn [fst snd] in E. inversion E; subst.
    rewrite (zlookup_NoDup _ _ _ Hnds Hin) in E2. now inversion E2.
  - intros combo Hc. apply combs_incl in Hc as [Hi _].
    apply res_map_all_ok. intros [k i] Hr. unfold encode. cbn [fst snd].
    now rewrite (zlookup_NoDup _ _ _ Hnd (Hi _ Hr)).
Qed.

(* ---- the matrix ---- *)

Lemma mat_get_outer {A B} (g : A -> A -> option B) (L : list A) i j :
  mat_get (map (fun a => map (fun b => g a b) L) L) i j
  = match nth_error L i, nth_error L j with
    | Some a, Some b => g a b
    | _, _ => None
    end.
Proof.
  unfold mat_get. destruct (nth_error L i) as [a|] eqn:Ei.
  - rewrite (nth_error_nth (map (fun a => map (fun b => g a b) L) L) i [] (x := map (fun b => g a b) L))
      by (now rewrite nth_error_map, Ei).
    destruct (nth_error L j) as [b|] eqn:Ej.
    + apply nth_error_nth. now rewrite nth_error_map, Ej.
    + apply nth_overflow. rewrite map_length. now apply nth_error_None.
  - rewrite (nth_overflow (map _ L)) by (rewrite map_length; now apply nth_error_None).
    now destruct j.
Qed.

Lemma qdot_comm a : forall b, qdot a b = qdot b a.
Proof.
  unfold qdot. induction a as [|x a IH]; intros [|y b]; try reflexivity.
  cbn [combine map fst snd]. rewrite !qsum_cons, IH. ring.
Qed.

Section CorrP.
Variable orc : oracle.

Lemma corr_entry_comm a b : corr_entry a b = corr_entry b a.
Proof. destruct a, b; cbn [corr_entry]; try reflexivity. now rewrite qdot_comm. Qed.

Theorem corr_of_symmetric P ncols i j :
  mat_get (corr_of orc P ncols) i j = mat_get (corr_of orc P ncols) j i.
Proof.
  unfold corr_of. rewrite !mat_get_outer.
  destruct (nth_error _ i), (nth_error _ j); try reflexivity. apply corr_entry_comm.
Qed.

Theorem correlation_matrix_symmetric f mapping smap arity nthetas rows index M i j :
  correlation_matrix orc f mapping smap arity nthetas rows = Ok (index, M) ->
  mat_get M i j = mat_get M j i.
Proof.
  unfold correlation_matrix.
  destruct (res_map_all _ _) as [spaces|]; [|discriminate]. cbn [res_bind].
  destruct (sorted_unique (map fst rows)) as [|s0 sids]; [discriminate|].
  destruct nthetas as [|T]; intros H; injection H as _ <-.
  - change (mat_get (map (fun _ : Z => map (fun _ : Z => @None Qc) (s0 :: sids)) (s0 :: sids)) i j
            = mat_get (map (fun _ : Z => map (fun _ : Z => @None Qc) (s0 :: sids)) (s0 :: sids)) j i).
    rewrite !(mat_get_outer (fun _ _ => None)). now destruct (nth_error _ i), (nth_error _ j).
  - apply corr_of_symmetric.
Qed.

(* sums of scaled vectors *)
Lemma qdot_scaled x : forall y a b,
  qdot (map (fun v => v / a) x) (map (fun v => v / b) y) = qdot x y * (/ a * / b).
Proof.
  unfold qdot. induction x as [|u x IH]; intros [|w y] a b; cbn [map combine]; try (cbn; ring).
  cbn [fst snd]. rewrite !qsum_cons, IH. unfold Qcdiv. ring.
Qed.

Lemma qdot_self x : qdot x x = sumsq x.
Proof.
  unfold qdot, sumsq. induction x as [|u x IH]; [reflexivity|].
  cbn [combine map fst snd]. now rewrite !qsum_cons, IH.
Qed.

Lemma sumsq_nonneg x : 0 <= sumsq x.
Proof.
  unfold sumsq. apply qsum_nonneg. apply Forall_forall. intros y Hy.
  apply in_map_iff in Hy as (v & <- & _). apply Qc_sq_nonneg.
Qed.

Lemma qeqb_spec a b : reflect (a = b) (qeqb a b).
Proof. unfold qeqb. destruct (Qc_eq_dec a b); now constructor. Qed.

Theorem corr_of_diag P ncols i x :
  nth_error (centered P ncols) i = Some x ->
  mat_get (corr_of orc P ncols) i i
  = if qeqb (sumsq x) 0 then None
    else Some (sumsq x * (/ orc ORC_SQRT (sumsq x) * / orc ORC_SQRT (sumsq x))).
Proof.
  intros Hx. unfold corr_of. rewrite mat_get_outer, nth_error_map, Hx. cbn [option_map].
  unfold normalised. destruct (qeqb (sumsq x) 0); cbn [corr_entry]; [reflexivity|].
  now rewrite qdot_scaled, qdot_self.
Qed.

(* unit diagonal: needs the square-root property only at this row's sum of squares *)
Theorem corr_of_unit_diag P ncols i x :
  nth_error (centered P ncols) i = Some x ->
  sumsq x <> 0 ->
  orc ORC_SQRT (sumsq x) * orc ORC_SQRT (sumsq x) = sumsq x ->
  mat_get (corr_of orc P ncols) i i = Some 1.
Proof.
  intros Hx Hne Hsqrt. rewrite (corr_of_diag _ _ _ _ Hx).
  destruct (qeqb_spec (sumsq x) 0); [congruence|]. f_equal.
  set (r := orc ORC_SQRT (sumsq x)) in *.
  assert (Hr : r <> 0) by (intros E; rewrite E in Hsqrt; apply Hne; rewrite <- Hsqrt; ring).
  rewrite <- Hsqrt. field. exact Hr.
Qed.

Theorem corr_of_nan_diag P ncols i x :
  nth_error (centered P ncols) i = Some x -> sumsq x = 0 ->
  mat_get (corr_of orc P ncols) i i = None.
Proof.
  intros Hx H0. rewrite (corr_of_diag _ _ _ _ Hx). destruct (qeqb_spec (sumsq x) 0); [reflexivity|congruence].
Qed.

(* ---- index form: entry (i, j) of the code = the definition ---- *)

Section Index.
Variable P : list (list Qc).
Variable ncols : nat.
Hypothesis Hrect : Forall (fun r => length r = ncols) P.
Let n := length P.

Lemma col_mean_index k : qmean (col P k) = sum_upto n (fun i' => Pc P i' k) / qnat n.
Proof.
  unfold qmean, col. rewrite qlen_qnat, map_length. fold n. f_equal.
  unfold sum_upto, Pc. rewrite (map_seq_nth (fun row => nth k row 0) P []). reflexivity.
Qed.

Lemma centered_index i :
  (i < n)%nat ->
  nth_error (centered P ncols) i = Some (map (fun k => X_def P n i k) (seq 0 ncols)).
Proof.
  intros Hi. unfold centered. rewrite nth_error_map.
  rewrite (nth_error_nth' P [] Hi). cbn [option_map]. f_equal.
  assert (Hlen : length (nth i P []) = ncols) by (apply (Forall_nth_len _ _ _ _ Hrect); exact Hi).
  rewrite (combine_seq_nth _ _ ncols 0 0 Hlen) by (unfold col_means; now rewrite map_length, seq_length).
  rewrite map_map. apply map_ext_in. intros k Hk. apply in_seq in Hk. cbn [fst snd].
  unfold X_def, col_means. rewrite nth_map_seq by lia. rewrite col_mean_index. reflexivity.
Qed.

Lemma sumsq_index g : sumsq (map g (seq 0 ncols)) = sum_upto ncols (fun k => qsq (g k)).
Proof. unfold sumsq, sum_upto. now rewrite map_map. Qed.

Lemma qdot_index g h :
  qdot (map g (seq 0 ncols)) (map h (seq 0 ncols)) = sum_upto ncols (fun k => g k * h k).
Proof.
  unfold qdot, sum_upto. induction (seq 0 ncols) as [|k l IH]; [reflexivity|].
  cbn [map combine fst snd]. now rewrite !qsum_cons, IH.
Qed.

Theorem corr_of_entry_def i j :
  (i < n)%nat -> (j < n)%nat ->
  mat_get (corr_of orc P ncols) i j = corr_entry_def orc P n ncols i j.
Proof.
  intros Hi Hj. unfold corr_of. rewrite mat_get_outer, !nth_error_map.
  rewrite (centered_index i Hi), (centered_index j Hj). cbn [option_map].
  unfold normalised, corr_entry_def. rewrite !sumsq_index. fold (S_def P n ncols i). fold (S_def P n ncols j).
  destruct (qeqb (S_def P n ncols i) 0); cbn [orb corr_entry]; [reflexivity|].
  destruct (qeqb (S_def P n ncols j) 0); cbn [corr_entry]; [reflexivity|].
  f_equal. rewrite qdot_scaled, qdot_index. unfold Qcdiv. now rewrite Qcinv_mult_distr.
Qed.
End Index.

(* ---- the matrix is computed from the average predictions over the full space ---- *)

Theorem correlation_matrix_over_full_space f mapping smap arity T rows index M :
  NoDup (map fst mapping) -> NoDup (map fst smap) ->
  correlation_matrix orc f mapping smap arity (S T) rows = Ok (index, M) ->
  let space := map (map snd) (combs mapping arity) in
  M = corr_of orc (map (fun s => map (fun ids => avg_pred f (S T) s ids) space)
                       (sorted_unique (map fst rows)))
              (length space).
Proof.
  intros Hnd Hnds. unfold correlation_matrix.
  destruct (res_map_all _ _) as [spaces|] eqn:Esp; [|discriminate]. cbn [res_bind].
  apply (res_map_all_inv _ (fun s => (map (fun _ => s) (combs mapping arity), map (map snd) (combs mapping arity)))) in Esp.
  2:{ intros s [ss tids] _ Hs. destruct (full_space_eq _ _ _ _ _ _ Hnd Hs) as (-> & sid & -> & Hsid).
      now rewrite (Hsid Hnds). }
  destruct (sorted_unique (map fst rows)) as [|s0 sids] eqn:Es; [discriminate|].
  intros H. injection H as _ <-. subst spaces. cbn zeta. f_equal.
  rewrite map_map. apply map_ext. intros s. cbn [fst snd].
  induction (combs mapping arity) as [|c l IH]; [reflexivity|]. cbn [map combine fst snd]. now rewrite IH.
Qed.
End CorrP.

(* a single sample with non-constant average predictions: the diagonal is NaN, not 1 *)
Definition refute_f (th : nat) (s : Z) (ids : list Z) : Qc := qofZ (fold_right Z.add 0%Z ids).

Theorem corr_unit_diag_nonconstant_rows_refuted :
  exists orc f mapping smap arity nthetas rows index,
    correlation_matrix orc f mapping smap arity nthetas rows = Ok (index, [[None]])
    /\ qeqb (avg_pred f nthetas 0%Z [0%Z; 1%Z]) (avg_pred f nthetas 0%Z [0%Z; 2%Z]) = false.
Proof.
  exists (fun _ x => x), refute_f, [(0, 0); (1, 1); (2, 2)]%Z, [(0, 0)]%Z, 2%nat, 1%nat, [(0, 0)]%Z, [0%Z].
  split; vm_compute; reflexivity.
Qed.
