(* C04 downstream, source level: the scores stage and selection without a policy / with any policy function (C06's translations).
   See Proofs/C04DownSrc.v. *)
From Coq Require Import ZArith List Bool QArith Qcanon Lia.
From Batchie Require Import Lib.Sexp Lib.Num Lib.PyRt Model.Train Model.Downstream Proofs.C04Train Proofs.C04Down.
From Batchie Require Model.Scores Model.Policy Model.Gibbs Model.DistMat Model.Cli.
From Batchie Require Generated.SrcScoring Proofs.C06Source.
Import ListNotations.
Open Scope Z_scope.

Lemma res_map_all_ext {A B} (f g : A -> result B) (l : list A) : (forall x, f x = g x) -> res_map_all f l = res_map_all g l.
Proof. intros H. induction l as [|a l IH]; [reflexivity|]. cbn [res_map_all]. now rewrite H, IH. Qed.

(* ---- scores: score_chunk per chunk, save, load, ChunkedScoresHolder.concat ---- *)
Definition src_stage_scores (scorer : Scores.scorer_fn) (rows : list trow) (rng : option Scores.rng_t) (batch : list Z)
    (n : Z) (order : list Z) : result Scores.holder :=
  dor hs <- res_map_all (fun k =>
              dor h <- SrcScoring.src_score_chunk scorer (scores_screen_of rows) rng n k (Some batch);
              Ok (Scores.h_load (Scores.h_save h))) order;
  SrcScoring.src_concat hs.

Lemma src_stage_scores_noninterference scorer s1 s2 rng batch n order : same_except_masked s1 s2 ->
  src_stage_scores scorer s1 rng batch n order = src_stage_scores scorer s2 rng batch n order.
Proof. intros H. unfold src_stage_scores. now rewrite (proj1 (views_noninterference s1 s2 H)). Qed.

Lemma src_stage_scores_is_model (V : Type) (scorer : list Gibbs.st -> list (list V) -> Scores.scorer_fn) c th dm rows rng :
  src_stage_scores (scorer th dm) rows rng (lc_batch c) (lc_schunks c) (lc_sorder c)
  = loop_scores V scorer c th dm (downstream_input rows).
Proof.
  unfold src_stage_scores, loop_scores. rewrite scores_screen_factors.
  erewrite res_map_all_ext.
  2: { intros k. rewrite C06Source.src_score_chunk_is_model.
       instantiate (1 := fun k => dor ps <- Scores.score_chunk (dn_scores_screen (downstream_input rows)) (lc_batch c) (lc_schunks c) k;
                                  dor h <- Scores.chunk_holder_of_answer ps (scorer th dm ps);
                                  Ok (Scores.h_load (Scores.h_save h))).
       cbv beta. destruct (Scores.score_chunk _ _ _ _) as [ps|e]; cbn [res_bind]; reflexivity. }
  destruct (res_map_all _ (lc_sorder c)) as [hs|e]; cbn [res_bind]; [apply C06Source.src_concat_is_model|reflexivity].
Qed.

(* ---- selection without a policy / with an arbitrary policy function (C06's translation) ---- *)
Definition src_stage_select (policy : option Scores.policy_t) (h : Scores.holder) (rows : list trow) (batch : list Z)
    (rng : option Scores.rng_t) : result (option Z) :=
  dor r <- SrcScoring.src_select_next_plate h (scores_screen_of rows) policy (Some batch) rng;
  Ok (option_map Scores.p_id r).

Lemma src_stage_select_is_model policy h rows batch rng :
  src_stage_select policy h rows batch rng = Scores.select_next policy (dn_scores_screen (downstream_input rows)) batch h.
Proof.
  unfold src_stage_select. rewrite C06Source.src_select_next_plate_is_model, scores_screen_factors.
  destruct (Scores.select_next _ _ _ _) as [[i|]|e]; reflexivity.
Qed.

Lemma src_stage_select_noninterference policy h s1 s2 batch rng : same_except_masked s1 s2 ->
  src_stage_select policy h s1 batch rng = src_stage_select policy h s2 batch rng.
Proof. intros H. unfold src_stage_select. now rewrite (proj1 (views_noninterference s1 s2 H)). Qed.

