(* One piece of Proofs/C06SourceCli.v (which see): select_next_plate.main *)
From Coq Require Import ZArith List Bool Lia.
From Batchie Require Import Lib.Sexp Lib.PyRt Model.Cli Generated.SrcCli Proofs.PyRtLemmas Proofs.C06SourceCli_Prng.
Import ListNotations.
Open Scope Z_scope.

Theorem src_cli_select_next_plate_is_model :
  forall (Scr Pl Po H : Type) (L : sn_lib Scr Pl Po H) (mix : Z -> Z) (a : sn_args),
  src_cli_select_next_plate Scr Pl Po H L mix a = cli_select_next_plate L mix a.
Proof.
  intros. unfold src_cli_select_next_plate, cli_select_next_plate. cbv zeta.
  rewrite !res_map_all_ret, src_get_prng_is_model.
  repeat cli_step. all: reflexivity.
Qed.
