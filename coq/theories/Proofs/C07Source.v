(* C07: the enumeration Chunks.lower_tri equals the translation of the generator
   batchie.distance_calculation.lower_triangular_indices regenerated from /repo on every run
   (Generated/SrcChunks.v, by harness/py2gal.py: a generator denotes the list of the values it yields). *)
From Coq Require Import ZArith List Bool Lia.
From Batchie Require Import Lib.Sexp Lib.PyRt Model.Chunks Generated.SrcChunks Proofs.PyRtLemmas.
Import ListNotations.
Open Scope Z_scope.

Lemma fold_append_map {A B : Type} (g : A -> B) : forall (l : list A) (acc : list B),
  fold_left (fun y a => y ++ [g a]) l acc = acc ++ map g l.
Proof.
  induction l as [|a l IH]; intros acc; cbn [fold_left map]; [now rewrite app_nil_r|].
  rewrite IH, <- app_assoc. reflexivity.
Qed.

Lemma fold_append_flat {A B : Type} (g : A -> list B) : forall (l : list A) (acc : list B),
  fold_left (fun y a => y ++ g a) l acc = acc ++ flat_map g l.
Proof.
  induction l as [|a l IH]; intros acc; cbn [fold_left flat_map]; [now rewrite app_nil_r|].
  rewrite IH, <- app_assoc. reflexivity.
Qed.

Lemma zrange_of_nat n : zrange (Z.of_nat n) = map Z.of_nat (seq 0 n).
Proof. unfold zrange. now rewrite Nat2Z.id. Qed.

Lemma flat_map_map {A B C : Type} (f : A -> B) (g : B -> list C) (l : list A) :
  flat_map g (map f l) = flat_map (fun a => g (f a)) l.
Proof. induction l as [|a l IH]; cbn [map flat_map]; [reflexivity | now rewrite IH]. Qed.

Lemma map_flat_map {A B C : Type} (f : B -> C) (g : A -> list B) (l : list A) :
  map f (flat_map g l) = flat_map (fun a => map f (g a)) l.
Proof. induction l as [|a l IH]; cbn [map flat_map]; [reflexivity | now rewrite map_app, IH]. Qed.

Definition zpair (p : nat * nat) : Z * Z := (Z.of_nat (fst p), Z.of_nat (snd p)).

Theorem src_lower_tri_is_model : forall n : nat,
  src_lower_triangular_indices (Z.of_nat n) = Ok (map zpair (lower_tri n)).
Proof.
  intros n. unfold src_lower_triangular_indices.
  rewrite (res_fold_pure _ (fun (y : list (Z * Z)) (i : Z) => y ++ map (fun j => (i, j)) (zrange i))).
  - cbn [res_bind]. rewrite fold_append_flat. cbn [app]. f_equal.
    rewrite zrange_of_nat, flat_map_map. unfold lower_tri. rewrite map_flat_map.
    apply flat_map_ext. intros i. rewrite zrange_of_nat, !map_map. reflexivity.
  - intros y i. rewrite (res_fold_pure _ (fun (y : list (Z * Z)) (j : Z) => y ++ [(i, j)])) by reflexivity.
    cbn [res_bind]. now rewrite fold_append_map.
Qed.

(* range(n) of a negative n is empty: nothing is yielded *)
Theorem src_lower_tri_negative : forall n : Z, n <= 0 -> src_lower_triangular_indices n = Ok [].
Proof.
  intros n Hn. unfold src_lower_triangular_indices, zrange.
  replace (Z.to_nat n) with 0%nat by lia. reflexivity.
Qed.
