(* C07: the enumeration Chunks.lower_tri equals the translation of the generator
   batchie.distance_calculation.lower_triangular_indices regenerated from /repo on every run
   (Generated/SrcChunks.v, by harness/py2gal.py: a generator denotes the list of the values it yields). *)
From Coq Require Import ZArith List Bool Lia.
From Batchie Require Import Lib.Sexp Lib.PyRt Model.Chunks Generated.SrcChunks Proofs.PyRtLemmas Proofs.C07Chunks.
Import ListNotations.
Open Scope Z_scope.

Lemma fold_append_map {A B : Type} (g : A -> B) : forall (l : list A) (acc : list B),
  fold_left (fun y a => y ++ [g a]) l acc = acc ++ map g l.
Proof.
  induction l as [|a l IH]; intros acc; cbn [fold_left map]; [now rewrite app_nil_r|].
  rewrite IH, <- app_assoc. reflexivity.
Qed.

Lemma fold_append_flat {A B : Type} (g : A -> list B) : forall (l : list A) (acc : list B),
  fold_left (fun y a => y ++ g a) l acc = acc ++ flat_map g l.
Proof.
  induction l as [|a l IH]; intros acc; cbn [fold_left flat_map]; [now rewrite app_nil_r|].
  rewrite IH, <- app_assoc. reflexivity.
Qed.

Lemma zrange_of_nat n : zrange (Z.of_nat n) = map Z.of_nat (seq 0 n).
Proof. unfold zrange. now rewrite Nat2Z.id. Qed.

Lemma flat_map_map {A B C : Type} (f : A -> B) (g : B -> list C) (l : list A) :
  flat_map g (map f l) = flat_map (fun a => g (f a)) l.
Proof. induction l as [|a l IH]; cbn [map flat_map]; [reflexivity | now rewrite IH]. Qed.

Lemma map_flat_map {A B C : Type} (f : B -> C) (g : A -> list B) (l : list A) :
  map f (flat_map g l) = flat_map (fun a => map f (g a)) l.
Proof. induction l as [|a l IH]; cbn [map flat_map]; [reflexivity | now rewrite map_app, IH]. Qed.

Definition zpair (p : nat * nat) : Z * Z := (Z.of_nat (fst p), Z.of_nat (snd p)).

Theorem src_lower_tri_is_model : forall n : nat,
  src_lower_triangular_indices (Z.of_nat n) = Ok (map zpair (lower_tri n)).
Proof.
  intros n. unfold src_lower_triangular_indices.
  rewrite (res_fold_pure _ (fun (y : list (Z * Z)) (i : Z) => y ++ map (fun j => (i, j)) (zrange i))).
  - cbn [res_bind]. rewrite fold_append_flat. cbn [app]. f_equal.
    rewrite zrange_of_nat, flat_map_map. unfold lower_tri. rewrite map_flat_map.
    apply flat_map_ext. intros i. rewrite zrange_of_nat, !map_map. reflexivity.
  - intros y i. rewrite (res_fold_pure _ (fun (y : list (Z * Z)) (j : Z) => y ++ [(i, j)])) by reflexivity.
    cbn [res_bind]. now rewrite fold_append_map.
Qed.

(* range(n) of a negative n is empty: nothing is yielded *)
Theorem src_lower_tri_negative : forall n : Z, n <= 0 -> src_lower_triangular_indices n = Ok [].
Proof.
  intros n Hn. unfold src_lower_triangular_indices, zrange.
  replace (Z.to_nat n) with 0%nat by lia. reflexivity.
Qed.

(* ---- get_lower_triangular_indices_chunk as ONE whole function (with consume and
   get_number_of_lower_triangular_indices, translated too) = Chunks.chunk_checked, for all integer arguments ---- *)
Lemma src_n_lower_is_model n : src_get_number_of_lower_triangular_indices n = Ok (n_lower n).
Proof. reflexivity. Qed.

Lemma src_lower_tri_any (n : Z) : src_lower_triangular_indices n = Ok (map zpair (lower_tri (Z.to_nat n))).
Proof.
  destruct (Z.le_gt_cases 0 n) as [H|H].
  - rewrite <- (Z2Nat.id n H) at 1. apply src_lower_tri_is_model.
  - rewrite src_lower_tri_negative by lia. replace (Z.to_nat n) with 0%nat by lia. reflexivity.
Qed.

Theorem src_chunk_is_model : forall n k c : Z,
  src_get_lower_triangular_indices_chunk n k c = chunk_checked n k c.
Proof.
  intros n k c. unfold src_get_lower_triangular_indices_chunk, chunk_checked.
  destruct (k <? c); cbn [negb]; [|reflexivity].
  rewrite src_n_lower_is_model. cbn [res_bind]. unfold z_floordiv, z_mod.
  destruct (c =? 0); [reflexivity|]. cbn [res_bind].
  rewrite src_lower_tri_any. unfold chunk_bounds.
  assert (T : forall s e : Z,
    (dor g <- src_consume (map zpair (lower_tri (Z.to_nat n))) s; dor r5 <- islice_take g (e - s); Ok r5)
    = (if s <? 0 then Err 8 else if e - s <? 0 then Err 8
       else Ok (map (fun p => (Z.of_nat (fst p), Z.of_nat (snd p))) (slice (lower_tri (Z.to_nat n)) s e)))).
  { intros s e. unfold src_consume, islice_drop, islice_take, slice.
    destruct (s <? 0); [reflexivity|]. cbn [res_bind].
    destruct (e - s <? 0); [reflexivity|]. cbn [res_bind].
    now rewrite skipn_map, firstn_map. }
  destruct (k <? n_lower n mod c); cbn [res_bind]; [|apply T].
  replace (k * (n_lower n / c) + n_lower n / c + k + 1) with (k * (n_lower n / c) + n_lower n / c + (k + 1)) by ring.
  apply T.
Qed.

(* for a chunk index in range the checks pass: the result is Chunks.chunk (as integer pairs) *)
Theorem chunk_checked_in_range : forall (n : nat) (k c : Z), 0 <= k < c ->
  chunk_checked (Z.of_nat n) k c = Ok (map zpair (chunk n k c)).
Proof.
  intros n k c Hk. unfold chunk_checked, chunk. rewrite Nat2Z.id.
  replace (k <? c) with true by (symmetry; apply Z.ltb_lt; lia).
  replace (c =? 0) with false by (symmetry; apply Z.eqb_neq; lia). cbn [negb].
  rewrite C07Chunks.chunk_bounds_cut.
  assert (HN : 0 <= n_lower (Z.of_nat n)) by (rewrite <- C07Chunks.lower_tri_length; lia).
  assert (Hc : 0 < c) by lia.
  pose proof (C07Chunks.cut_nonneg _ _ HN Hc k ltac:(lia)) as H0.
  pose proof (C07Chunks.cut_mono _ _ HN Hc k ltac:(lia)) as H1.
  replace (C07Chunks.cut (n_lower (Z.of_nat n)) c k <? 0) with false by (symmetry; apply Z.ltb_ge; lia).
  replace (C07Chunks.cut (n_lower (Z.of_nat n)) c (k + 1) - C07Chunks.cut (n_lower (Z.of_nat n)) c k <? 0)
    with false by (symmetry; apply Z.ltb_ge; lia).
  reflexivity.
Qed.

(* a negative dimension enumerates nothing: whatever passes the checks is the empty chunk *)
Theorem chunk_checked_negative : forall n k c l, n <= 0 -> chunk_checked n k c = Ok l -> l = [].
Proof.
  intros n k c l Hn. unfold chunk_checked. replace (Z.to_nat n) with 0%nat by lia.
  destruct (negb (k <? c)); [discriminate|]. destruct (c =? 0); [discriminate|].
  destruct (chunk_bounds (n_lower n) k c) as [s e].
  destruct (s <? 0); [discriminate|]. destruct (e - s <? 0); [discriminate|].
  intros H. injection H as <-. unfold slice, lower_tri. cbn [seq flat_map].
  now rewrite skipn_nil, firstn_nil.
Qed.
