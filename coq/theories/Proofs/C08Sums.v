(* C08 proofs, part 1: finite sums, tabulated vectors, set_nth, scatter, and the generic
   quadratic-form lemma behind every Gaussian block. *)
From Coq Require Import ZArith List QArith Qcanon Lia Arith Bool.
From Batchie Require Import Lib.Num Lib.NumP Model.Gibbs.
Import ListNotations.
Open Scope Qc_scope.

(* ---------------------------------------------------------------- qsum / sumn *)
Lemma qsum_cons x l : qsum (x :: l) = x + qsum l.
Proof. reflexivity. Qed.

Lemma qsum_app l1 l2 : qsum (l1 ++ l2) = qsum l1 + qsum l2.
Proof.
  induction l1 as [|x l1 IH]; cbn [app]; [unfold qsum at 2; cbn [fold_right]; ring|].
  rewrite !qsum_cons, IH. ring.
Qed.

Lemma qsum_single x : qsum [x] = x.
Proof. unfold qsum; cbn [fold_right]. ring. Qed.
Lemma qsum_nil : qsum [] = 0.
Proof. reflexivity. Qed.

Lemma sumn_0 f : sumn 0 f = 0.
Proof. reflexivity. Qed.

Lemma sumn_S n f : sumn (S n) f = sumn n f + f n.
Proof.
  unfold sumn. rewrite seq_S, map_app, qsum_app. cbn [map Nat.add]. now rewrite qsum_single.
Qed.

Lemma sumn_ext n f h : (forall i, (i < n)%nat -> f i = h i) -> sumn n f = sumn n h.
Proof.
  induction n as [|n IH]; intros H; [reflexivity|].
  rewrite !sumn_S, IH, H by (intros; try apply H; lia). reflexivity.
Qed.

Lemma sumn_add n f h : sumn n (fun i => f i + h i) = sumn n f + sumn n h.
Proof. induction n as [|n IH]; [rewrite !sumn_0; ring|rewrite !sumn_S, IH; ring]. Qed.

Lemma sumn_sub n f h : sumn n (fun i => f i - h i) = sumn n f - sumn n h.
Proof. induction n as [|n IH]; [rewrite !sumn_0; ring|rewrite !sumn_S, IH; ring]. Qed.

Lemma sumn_scale n c f : sumn n (fun i => c * f i) = c * sumn n f.
Proof. induction n as [|n IH]; [rewrite !sumn_0; ring|rewrite !sumn_S, IH; ring]. Qed.

Lemma sumn_zero n : sumn n (fun _ => 0) = 0.
Proof. induction n as [|n IH]; [reflexivity|rewrite sumn_S, IH; ring]. Qed.

Lemma sumn_zero' n f : (forall i, (i < n)%nat -> f i = 0) -> sumn n f = 0.
Proof. intros H. rewrite (sumn_ext n f (fun _ => 0)) by exact H. apply sumn_zero. Qed.

Lemma sumn_swap n m (f : nat -> nat -> Qc) :
  sumn n (fun i => sumn m (fun j => f i j)) = sumn m (fun j => sumn n (fun i => f i j)).
Proof.
  induction n as [|n IH].
  - rewrite sumn_0. symmetry. apply sumn_zero'. intros; apply sumn_0.
  - rewrite sumn_S, IH, <- sumn_add. apply sumn_ext. intros j _. now rewrite sumn_S.
Qed.

(* a sum with a single non-zero index *)
Lemma sumn_single n j f : (j < n)%nat -> sumn n (fun k => if Nat.eqb j k then f k else 0) = f j.
Proof.
  induction n as [|n IH]; intros Hj; [lia|].
  rewrite sumn_S. destruct (Nat.eqb j n) eqn:E.
  - apply Nat.eqb_eq in E; subst j. rewrite sumn_zero'; [ring|].
    intros i Hi. destruct (Nat.eqb n i) eqn:E'; [apply Nat.eqb_eq in E'; lia|reflexivity].
  - apply Nat.eqb_neq in E. rewrite IH by lia. ring.
Qed.

(* replacing the summand at one index *)
Lemma sumn_update n j f a :
  (j < n)%nat -> sumn n (fun k => if Nat.eqb k j then a else f k) = sumn n f - f j + a.
Proof.
  intros Hj.
  rewrite (sumn_ext n _ (fun k => f k + (if Nat.eqb j k then a - f k else 0))).
  - rewrite sumn_add, (sumn_single n j (fun k => a - f k)) by exact Hj. ring.
  - intros k _. rewrite (Nat.eqb_sym k j). destruct (Nat.eqb j k) eqn:E; [apply Nat.eqb_eq in E; subst|]; ring.
Qed.

Lemma qsum_map_ext {A} (f h : A -> Qc) l : (forall x, In x l -> f x = h x) -> qsum (map f l) = qsum (map h l).
Proof.
  induction l as [|x l IH]; intros H; [reflexivity|]. cbn [map]. rewrite !qsum_cons, IH, (H x); auto using in_eq, in_cons.
Qed.

Lemma qsum_map_add {A} (f h : A -> Qc) l : qsum (map (fun x => f x + h x) l) = qsum (map f l) + qsum (map h l).
Proof. induction l as [|x l IH]; cbn [map]; [rewrite !qsum_nil; ring|rewrite !qsum_cons, IH; ring]. Qed.

Lemma qsum_map_scale {A} c (f : A -> Qc) l : qsum (map (fun x => c * f x) l) = c * qsum (map f l).
Proof. induction l as [|x l IH]; cbn [map]; [rewrite !qsum_nil; ring|rewrite !qsum_cons, IH; ring]. Qed.

Lemma qsum_map_const {A} c (l : list A) : qsum (map (fun _ => c) l) = qlen l * c.
Proof.
  induction l as [|x l IH]; cbn [map]; [rewrite qsum_nil; unfold qlen; cbn [length Z.of_nat]; apply Qc_is_canon; reflexivity|].
  rewrite qsum_cons, IH. unfold qlen. cbn [length]. rewrite Nat2Z.inj_succ, <- Z.add_1_r.
  replace (Q2Qc (inject_Z (Z.of_nat (length l) + 1))) with (Q2Qc (inject_Z (Z.of_nat (length l))) + 1); [ring|].
  apply Qc_is_canon. unfold Qcplus. cbn [this Q2Qc]. rewrite !Qred_correct, inject_Z_plus. reflexivity.
Qed.

(* summing over the indices selected by a filter = masked sum over all indices *)
Lemma qsum_filter (p : nat -> bool) (f : nat -> Qc) l :
  qsum (map f (filter p l)) = qsum (map (fun i => if p i then f i else 0) l).
Proof.
  induction l as [|x l IH]; [reflexivity|]. cbn [filter map]. rewrite qsum_cons.
  destruct (p x); [cbn [map]; rewrite qsum_cons, IH; reflexivity|rewrite IH; ring].
Qed.

Lemma qsum_filter_seq (p : nat -> bool) (f : nat -> Qc) n :
  qsum (map f (filter p (seq 0 n))) = sumn n (fun i => if p i then f i else 0).
Proof. apply qsum_filter. Qed.

(* ---------------------------------------------------------------- tab / nth *)
Lemma tab_length {A} n (f : nat -> A) : length (tab n f) = n.
Proof. unfold tab. now rewrite map_length, seq_length. Qed.

Lemma nth_tab {A} n (f : nat -> A) k dflt : (k < n)%nat -> nth k (tab n f) dflt = f k.
Proof.
  intros Hk. unfold tab. rewrite (nth_indep _ dflt (f 0%nat)) by (now rewrite map_length, seq_length).
  rewrite map_nth, seq_nth by exact Hk. reflexivity.
Qed.

Lemma vnth_tab n f k : (k < n)%nat -> vnth (tab n f) k = f k.
Proof. apply nth_tab. Qed.
Lemma rnth_tab n (f : nat -> list Qc) k : (k < n)%nat -> rnth (tab n f) k = f k.
Proof. apply nth_tab. Qed.
Lemma vnth_nil k : vnth [] k = 0.
Proof. destruct k; reflexivity. Qed.
Lemma rnth_nil k : rnth [] k = [].
Proof. destruct k; reflexivity. Qed.

Lemma set_nth_length {A} i (x : A) l : length (set_nth i x l) = length l.
Proof. revert i; induction l as [|a l IH]; intros [|i]; cbn [set_nth length]; auto. Qed.

Lemma nth_set_nth {A} i j (x dflt : A) l :
  nth j (set_nth i x l) dflt = if Nat.eqb i j && Nat.ltb i (length l) then x else nth j l dflt.
Proof.
  revert i j; induction l as [|a l IH]; intros i j.
  - cbn [set_nth length]. replace (Nat.ltb i 0) with false by (symmetry; apply Nat.ltb_ge; lia).
    rewrite andb_false_r. reflexivity.
  - destruct i as [|i], j as [|j]; cbn [set_nth nth length]; try reflexivity.
    rewrite IH. change (Nat.eqb (S i) (S j)) with (Nat.eqb i j). change (Nat.ltb (S i) (S (length l))) with (Nat.ltb i (length l)).
    reflexivity.
Qed.

Lemma nth_set_nth_eq {A} i (x dflt : A) l : (i < length l)%nat -> nth i (set_nth i x l) dflt = x.
Proof. intros H. rewrite nth_set_nth, Nat.eqb_refl. apply Nat.ltb_lt in H. now rewrite H. Qed.
Lemma nth_set_nth_neq {A} i j (x dflt : A) l : i <> j -> nth j (set_nth i x l) dflt = nth j l dflt.
Proof. intros H. rewrite nth_set_nth. apply Nat.eqb_neq in H. now rewrite H. Qed.

Lemma vnth_set_nth i j x v :
  vnth (set_nth i x v) j = if Nat.eqb i j && Nat.ltb i (length v) then x else vnth v j.
Proof. apply nth_set_nth. Qed.
Lemma rnth_set_nth i j x M :
  rnth (set_nth i x M) j = if Nat.eqb i j && Nat.ltb i (length M) then x else rnth M j.
Proof. apply nth_set_nth. Qed.

Lemma set_nth_same {A} i (dflt : A) l : set_nth i (nth i l dflt) l = l.
Proof. revert i; induction l as [|a l IH]; intros [|i]; cbn [set_nth nth]; try reflexivity. now rewrite IH. Qed.

(* ---------------------------------------------------------------- scatter *)
Lemma scatter_set_length M idx vals : length (scatter_set M idx vals) = length M.
Proof.
  revert M vals; induction idx as [|i idx IH]; intros M [|v vals]; cbn [scatter_set]; try reflexivity.
  now rewrite IH, set_nth_length.
Qed.

Lemma scatter_set_notin M idx vals j : ~ In j idx -> vnth (scatter_set M idx vals) j = vnth M j.
Proof.
  revert M vals; induction idx as [|i idx IH]; intros M [|v vals] Hn; cbn [scatter_set]; try reflexivity.
  rewrite IH by (intros H; apply Hn; now right). unfold vnth. apply nth_set_nth_neq. intros ->. apply Hn. now left.
Qed.

(* a[idx] += map h idx, idx duplicate-free *)
Lemma scatter_add_map M idx (h : nat -> Qc) j :
  NoDup idx -> (forall i, In i idx -> (i < length M)%nat) ->
  vnth (scatter_add M idx (map h idx)) j = if in_dec Nat.eq_dec j idx then vnth M j + h j else vnth M j.
Proof.
  unfold scatter_add. intros Hnd Hlt.
  assert (Hgen : forall M0, (forall i, In i idx -> (i < length M0)%nat) ->
     vnth (scatter_set M0 idx (map (fun p => vnth M (fst p) + snd p) (combine idx (map h idx)))) j
     = if in_dec Nat.eq_dec j idx then vnth M j + h j else vnth M0 j).
  { clear Hlt. induction idx as [|i idx IH]; intros M0 Hlt0; cbn [map combine scatter_set].
    - destruct (in_dec Nat.eq_dec j []) as [[]|]; reflexivity.
    - inversion Hnd as [|? ? Hni Hnd']; subst. cbn [fst snd].
      destruct (in_dec Nat.eq_dec j (i :: idx)) as [Hin|Hnin].
      + destruct Hin as [->|Hin].
        * rewrite scatter_set_notin by exact Hni. unfold vnth at 1. rewrite nth_set_nth_eq; [reflexivity|apply Hlt0; now left].
        * rewrite IH; [|exact Hnd'|intros k Hk; rewrite set_nth_length; apply Hlt0; now right].
          destruct (in_dec Nat.eq_dec j idx); [reflexivity|contradiction].
      + rewrite IH; [|exact Hnd'|intros k Hk; rewrite set_nth_length; apply Hlt0; now right].
        destruct (in_dec Nat.eq_dec j idx) as [Hin|_]; [exfalso; apply Hnin; now right|].
        unfold vnth. apply nth_set_nth_neq. intros ->. apply Hnin. now left. }
  apply Hgen. exact Hlt.
Qed.

Lemma scatter_add_length M idx delta : length (scatter_add M idx delta) = length M.
Proof. apply scatter_set_length. Qed.

(* ---------------------------------------------------------------- the generic quadratic lemma *)
Definition quad (D : nat) (Q : list (list Qc)) (x : list Qc) : Qc :=
  sumn D (fun j => sumn D (fun k => vnth x j * vnth (rnth Q j) k * vnth x k)).
(* contribution of one observation to the energy difference: (rho - t)^2 - rho^2 *)
Definition hterm (rho t : Qc) : Qc := qsq (rho - t) - qsq rho.

Lemma sumn_mul n f h : sumn n f * sumn n h = sumn n (fun j => sumn n (fun k => f j * h k)).
Proof.
  rewrite (sumn_ext n (fun j => sumn n (fun k => f j * h k)) (fun j => sumn n h * f j)).
  - rewrite sumn_scale. ring.
  - intros j _. rewrite sumn_scale. ring.
Qed.

Lemma vdot_sq D X x :
  qsq (vdot D X x) = sumn D (fun j => sumn D (fun k => vnth x j * (vnth X j * vnth X k) * vnth x k)).
Proof.
  unfold qsq, vdot. rewrite sumn_mul. apply sumn_ext; intros j _. apply sumn_ext; intros k _. ring.
Qed.

Lemma q2_eq : qofZ 2 = 1 + 1.
Proof. apply Qc_is_canon. reflexivity. Qed.
Lemma q3_eq : qofZ 3 = 1 + 1 + 1.
Proof. apply Qc_is_canon. reflexivity. Qed.
Lemma half_eq : half * (1 + 1) = 1.
Proof. apply Qc_is_canon. reflexivity. Qed.

Lemma hterm_expand rho t : hterm rho t = qsq t + (- qofZ 2) * (rho * t).
Proof. unfold hterm, qsq. rewrite q2_eq. ring. Qed.

Lemma rows_sq D (rows : rowsT) x :
  qsum (map (fun r => qsq (vdot D (snd r) x)) rows)
  = sumn D (fun j => sumn D (fun k => vnth x j * qsum (map (fun r => vnth (snd r) j * vnth (snd r) k) rows) * vnth x k)).
Proof.
  induction rows as [|[rho X] rows IH]; cbn [map].
  - rewrite qsum_nil. symmetry. apply sumn_zero'; intros j _. apply sumn_zero'; intros k _. cbn [map qsum fold_right]. ring.
  - rewrite qsum_cons, IH. cbn [snd]. rewrite vdot_sq, <- sumn_add. apply sumn_ext; intros j _.
    rewrite <- sumn_add. apply sumn_ext; intros k _. rewrite qsum_cons. cbn [snd]. ring.
Qed.

Lemma rows_lin D (rows : rowsT) x :
  qsum (map (fun r => fst r * vdot D (snd r) x) rows)
  = sumn D (fun j => qsum (map (fun r => vnth (snd r) j * fst r) rows) * vnth x j).
Proof.
  induction rows as [|[rho X] rows IH]; cbn [map].
  - rewrite qsum_nil. symmetry. apply sumn_zero'; intros j _. cbn [map qsum fold_right]. ring.
  - rewrite qsum_cons, IH. cbn [fst snd]. unfold vdot. rewrite <- sumn_scale, <- sumn_add.
    apply sumn_ext; intros j _. rewrite qsum_cons. cbn [fst snd]. ring.
Qed.

Lemma diag_quad D lam x :
  sumn D (fun k => vnth lam k * qsq (vnth x k))
  = sumn D (fun j => sumn D (fun k => vnth x j * (if Nat.eqb j k then vnth lam j else 0) * vnth x k)).
Proof.
  apply sumn_ext; intros j Hj.
  rewrite (sumn_ext D _ (fun k => if Nat.eqb j k then vnth x j * vnth lam j * vnth x k else 0)).
  - rewrite sumn_single by exact Hj. unfold qsq. ring.
  - intros k _. destruct (Nat.eqb j k); ring.
Qed.

Lemma gauss_rows D (p : Qc) (rows : rowsT) (lam x : list Qc) :
  p * qsum (map (fun r => hterm (fst r) (vdot D (snd r) x)) rows) + sumn D (fun k => vnth lam k * qsq (vnth x k))
  = quad D (gramQ D p rows lam) x - qofZ 2 * vdot D (xtr D p rows) x.
Proof.
  rewrite (qsum_map_ext _ (fun r => qsq (vdot D (snd r) x) + (- qofZ 2) * (fst r * vdot D (snd r) x)))
    by (intros; apply hterm_expand).
  rewrite qsum_map_add, qsum_map_scale, rows_sq, rows_lin, diag_quad.
  assert (Hq : quad D (gramQ D p rows lam) x
    = sumn D (fun j => sumn D (fun k => vnth x j *
        (p * qsum (map (fun r => vnth (snd r) j * vnth (snd r) k) rows) + (if Nat.eqb j k then vnth lam j else 0)) * vnth x k))).
  { unfold quad, gramQ. apply sumn_ext; intros j Hj. apply sumn_ext; intros k Hk.
    rewrite rnth_tab by exact Hj. rewrite vnth_tab by exact Hk. reflexivity. }
  assert (Hb : vdot D (xtr D p rows) x = sumn D (fun j => p * (qsum (map (fun r => vnth (snd r) j * fst r) rows) * vnth x j))).
  { unfold vdot, xtr. apply sumn_ext; intros j Hj. rewrite vnth_tab by exact Hj. ring. }
  rewrite Hq, Hb, sumn_scale. clear Hq Hb.
  match goal with |- p * (?A + ?c * ?B) + ?C = ?R - ?t * (p * ?B') =>
    transitivity (p * A + C - t * (p * B)); [ring|f_equal] end.
  rewrite <- sumn_scale, <- sumn_add. apply sumn_ext; intros j _.
  rewrite <- sumn_scale, <- sumn_add. apply sumn_ext; intros k _. ring.
Qed.
