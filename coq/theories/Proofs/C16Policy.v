(* C16 proofs, part 1: characterisation of filter_eligible in terms of per-sample counts. *)
From Coq Require Import ZArith List Bool Lia Permutation.
From Batchie Require Import Lib.Sexp Model.Policy.
Import ListNotations.
Open Scope Z_scope.

(* ---- mem ---- *)
Lemma mem_In x l : mem x l = true <-> In x l.
Proof.
  unfold mem. rewrite existsb_exists. split.
  - intros (y & Hy & E). apply Z.eqb_eq in E. now subst.
  - intros H. exists x. split; [exact H|apply Z.eqb_refl].
Qed.

Lemma mem_app x l1 l2 : mem x (l1 ++ l2) = mem x l1 || mem x l2.
Proof. unfold mem. apply existsb_app. Qed.

(* ---- cnt ---- *)
Lemma cnt_nil c : cnt c [] = 0.
Proof. reflexivity. Qed.

Lemma cnt_cons c p l : cnt c (p :: l) = (if sample_of p =? c then 1 else 0) + cnt c l.
Proof. unfold cnt. cbn [filter]. destruct (sample_of p =? c); cbn [length]; lia. Qed.

Lemma cnt_app c l1 l2 : cnt c (l1 ++ l2) = cnt c l1 + cnt c l2.
Proof. unfold cnt. rewrite filter_app, app_length. lia. Qed.

Lemma cnt_nonneg c l : 0 <= cnt c l.
Proof. unfold cnt. lia. Qed.

Lemma cnt_perm c l l' : Permutation l l' -> cnt c l = cnt c l'.
Proof.
  induction 1 as [|x l l' _ IH|x y l|l l' l'' _ IH1 _ IH2].
  - reflexivity.
  - rewrite !cnt_cons. lia.
  - rewrite !cnt_cons. lia.
  - lia.
Qed.

Lemma cnt_pos_In c l : 1 <= cnt c l <-> exists p, In p l /\ sample_of p = c.
Proof.
  induction l as [|q l IH].
  - rewrite cnt_nil. split; [lia|intros (p & [] & _)].
  - rewrite cnt_cons. destruct (sample_of q =? c) eqn:E.
    + apply Z.eqb_eq in E. pose proof (cnt_nonneg c l). split; [|lia]. intros _. exists q. split; [now left|exact E].
    + apply Z.eqb_neq in E. rewrite Z.add_0_l, IH. split.
      * intros (p & Hp & Hs). exists p. split; [now right|exact Hs].
      * intros (p & [->|Hp] & Hs); [contradiction|]. exists p. now split.
Qed.

Lemma cnt_filter_nonempty c l : 1 <= cnt c l -> filter (fun p => sample_of p =? c) l <> [].
Proof. unfold cnt. intros H E. rewrite E in H. cbn in H. lia. Qed.

(* ---- the defaultdict(int) as an association list ---- *)
Fixpoint get (d : list (Z * Z)) (s : Z) : Z :=
  match d with
  | [] => 0
  | (s', v) :: r => if s' =? s then v else get r s
  end.

Lemma get_incr d s c : get (incr d s) c = get d c + (if s =? c then 1 else 0).
Proof.
  induction d as [|[s' v] d IH]; cbn [incr get].
  - destruct (s =? c); lia.
  - destruct (s' =? s) eqn:E; cbn [get].
    + apply Z.eqb_eq in E. subst s'. destruct (s =? c); lia.
    + destruct (s' =? c) eqn:E2.
      * apply Z.eqb_eq in E2. subst s'. rewrite Z.eqb_sym in E. rewrite E. lia.
      * exact IH.
Qed.

Lemma keys_incr d s c : In c (map fst (incr d s)) <-> In c (map fst d) \/ c = s.
Proof.
  induction d as [|[s' v] d IH]; cbn [incr map fst In].
  - intuition.
  - destruct (s' =? s) eqn:E; cbn [map fst In].
    + apply Z.eqb_eq in E. subst s'. intuition.
    + rewrite IH. intuition.
Qed.

Lemma NoDup_incr d s : NoDup (map fst d) -> NoDup (map fst (incr d s)).
Proof.
  induction d as [|[s' v] d IH]; cbn [incr map fst]; intros H.
  - constructor; [intros []|constructor].
  - inversion H as [|? ? Hn Hd]; subst. destruct (s' =? s) eqn:E; cbn [map fst].
    + constructor; assumption.
    + apply Z.eqb_neq in E. constructor; [|now apply IH].
      rewrite keys_incr. intros [Hi|Hi]; [contradiction|congruence].
Qed.

Lemma vals_incr d s : (forall c v, In (c, v) d -> 1 <= v) -> forall c v, In (c, v) (incr d s) -> 1 <= v.
Proof.
  induction d as [|[s' v'] d IH]; cbn [incr]; intros H c v Hin.
  - destruct Hin as [E|[]]. injection E as <- <-. lia.
  - destruct (s' =? s) eqn:E.
    + destruct Hin as [E2|Hin].
      * injection E2 as <- <-. specialize (H s' v' (or_introl eq_refl)). lia.
      * apply (H c v). now right.
    + destruct Hin as [E2|Hin].
      * injection E2 as <- <-. apply (H s' v'). now left.
      * apply (IH (fun c v Hcv => H c v (or_intror Hcv)) c v Hin).
Qed.

Lemma get_In d c v : NoDup (map fst d) -> In (c, v) d -> get d c = v.
Proof.
  induction d as [|[s' v'] d IH]; cbn [map fst get]; intros Hnd Hin; [destruct Hin|].
  inversion Hnd as [|? ? Hn Hd]; subst. destruct Hin as [E|Hin].
  - injection E as -> ->. now rewrite Z.eqb_refl.
  - destruct (s' =? c) eqn:E.
    + apply Z.eqb_eq in E. subst s'. exfalso. apply Hn. apply (in_map fst d (c, v)). exact Hin.
    + now apply IH.
Qed.

Lemma get_notin d c : ~ In c (map fst d) -> get d c = 0.
Proof.
  induction d as [|[s' v'] d IH]; cbn [map fst get In]; intros H; [reflexivity|].
  destruct (s' =? c) eqn:E.
  - apply Z.eqb_eq in E. exfalso. apply H. now left.
  - apply IH. intros Hi. apply H. now right.
Qed.

Lemma In_get (d : list (Z * Z)) (c : Z) : In c (map fst d) -> exists v, In (c, v) d.
Proof.
  intros H. apply in_map_iff in H as ([c' v] & E & Hin). cbn [fst] in E. subst c'. now exists v.
Qed.

(* d is the dictionary of counts of the plates in l *)
Definition counts (d : list (Z * Z)) (l : list plate) : Prop :=
  NoDup (map fst d) /\ (forall c v, In (c, v) d -> 1 <= v) /\ (forall c, get d c = cnt c l).

Lemma counts_fold ps : forall d l, counts d l ->
  counts (fold_left (fun d p => incr d (sample_of p)) ps d) (l ++ ps).
Proof.
  induction ps as [|p ps IH]; intros d l H; cbn [fold_left].
  - now rewrite app_nil_r.
  - replace (l ++ p :: ps) with ((l ++ [p]) ++ ps) by (now rewrite <- app_assoc).
    apply IH. destruct H as (H1 & H2 & H3). split; [now apply NoDup_incr|]. split; [now apply vals_incr|].
    intros c. rewrite get_incr, H3, cnt_app, cnt_cons, cnt_nil. lia.
Qed.

Lemma counts_count_samples l : counts (count_samples l) l.
Proof.
  unfold count_samples. apply (counts_fold l [] []). split; [constructor|]. split; [intros c v []|].
  intros c. reflexivity.
Qed.

Lemma counts_In d l c v : counts d l -> In (c, v) d -> v = cnt c l /\ 1 <= v.
Proof.
  intros (H1 & H2 & H3) Hin. split; [|now apply (H2 c)]. rewrite <- H3. symmetry. now apply get_In.
Qed.

Lemma counts_key d l c : counts d l -> (In c (map fst d) <-> 1 <= cnt c l).
Proof.
  intros H. split.
  - intros Hin. apply In_get in Hin as (v & Hv). destruct (counts_In _ _ _ _ H Hv). lia.
  - intros Hc. destruct H as (H1 & H2 & H3). destruct (in_dec Z.eq_dec c (map fst d)) as [Hi|Hi]; [exact Hi|].
    apply get_notin in Hi. rewrite H3 in Hi. lia.
Qed.

Lemma counts_entry d l c : counts d l -> 1 <= cnt c l -> In (c, cnt c l) d.
Proof.
  intros H Hc. pose proof (proj2 (counts_key d l c H) Hc) as Hin. apply In_get in Hin as (v & Hv).
  destruct (counts_In _ _ _ _ H Hv) as [-> _]. exact Hv.
Qed.

(* ---- sample_chosen / insufficient ---- *)
Lemma sample_chosen_spec k d :
  match sample_chosen k d with
  | Some c => exists v, In (c, v) d /\ v < k
  | None => forall c v, In (c, v) d -> k <= v
  end.
Proof.
  unfold sample_chosen. induction d as [|[s v] d IH] using rev_ind.
  - cbn [fold_left]. intros c v [].
  - rewrite fold_left_app. cbn [fold_left fst snd]. destruct (v <? k) eqn:E.
    + exists v. split; [apply in_or_app; right; now left|lia].
    + destruct (fold_left _ d None) as [c|].
      * destruct IH as (v' & Hin & Hv). exists v'. split; [apply in_or_app; now left|exact Hv].
      * intros c v' Hin. apply in_app_or in Hin as [Hin|[E2|[]]]; [now apply (IH c)|].
        injection E2 as <- <-. lia.
Qed.

Lemma mem_insufficient k d s : mem s (insufficient k d) = true <-> exists v, In (s, v) d /\ v < k.
Proof.
  rewrite mem_In. unfold insufficient. rewrite in_map_iff. split.
  - intros ([s' v] & E & Hin). cbn [fst] in E. subst s'. apply filter_In in Hin as [Hin Hv]. cbn [snd] in Hv.
    exists v. split; [exact Hin|lia].
  - intros (v & Hin & Hv). exists (s, v). split; [reflexivity|]. apply filter_In. split; [exact Hin|]. cbn [snd]. lia.
Qed.

(* ---- the two branches of filter_eligible ---- *)
Definition open_pred (k : Z) (b r : list plate) (p : plate) : bool :=
  (k <=? cnt (sample_of p) r) && (cnt (sample_of p) b =? 0).

Lemma fe_cases k b r el :
  filter_eligible k b r = Ok el ->
  forallb single (b ++ r) = true /\
  ((exists c, 0 < cnt c b < k /\ el = filter (fun p => sample_of p =? c) r) \/
   ((forall c, cnt c b = 0 \/ k <= cnt c b) /\ el = filter (open_pred k b r) r)).
Proof.
  unfold filter_eligible. destruct (forallb single (b ++ r)); [|discriminate].
  pose proof (counts_count_samples b) as Hb. pose proof (counts_count_samples r) as Hr.
  pose proof (sample_chosen_spec k (count_samples b)) as Hc.
  destruct (sample_chosen k (count_samples b)) as [c|]; intros H; injection H as <-; (split; [reflexivity|]).
  - left. exists c. destruct Hc as (v & Hin & Hv). destruct (counts_In _ _ _ _ Hb Hin) as [-> H1].
    split; [lia|reflexivity].
  - right. split.
    + intros c. pose proof (cnt_nonneg c b). destruct (Z.eq_dec (cnt c b) 0) as [E|E]; [now left|right].
      apply (Hc c). apply (counts_entry _ _ _ Hb). lia.
    + apply filter_ext_in. intros p Hp. unfold open_pred. f_equal.
      * assert (Hp1 : 1 <= cnt (sample_of p) r) by (apply cnt_pos_In; now exists p).
        destruct (mem (sample_of p) (insufficient k (count_samples r))) eqn:E; cbn [negb]; symmetry.
        -- apply mem_insufficient in E as (v & Hin & Hv). destruct (counts_In _ _ _ _ Hr Hin) as [-> _]. lia.
        -- apply Z.leb_le. destruct (Z_lt_le_dec (cnt (sample_of p) r) k) as [Hlt|Hle]; [|exact Hle].
           exfalso. assert (E2 : mem (sample_of p) (insufficient k (count_samples r)) = true).
           { apply mem_insufficient. exists (cnt (sample_of p) r). split; [now apply (counts_entry _ _ _ Hr)|exact Hlt]. }
           congruence.
      * pose proof (cnt_nonneg (sample_of p) b).
        destruct (mem (sample_of p) (map fst (count_samples b))) eqn:E; cbn [negb]; symmetry.
        -- apply mem_In in E. apply (counts_key _ _ _ Hb) in E. lia.
        -- apply Z.eqb_eq. destruct (Z.eq_dec (cnt (sample_of p) b) 0) as [E0|E0]; [exact E0|].
           exfalso. assert (E2 : mem (sample_of p) (map fst (count_samples b)) = true).
           { apply mem_In. apply (counts_key _ _ _ Hb). lia. }
           congruence.
Qed.

Lemma fe_ok k b r : forallb single (b ++ r) = true -> exists el, filter_eligible k b r = Ok el.
Proof.
  intros H. unfold filter_eligible. rewrite H. destruct (sample_chosen k (count_samples b)); eexists; reflexivity.
Qed.

Lemma fe_err k b r : forallb single (b ++ r) = false -> filter_eligible k b r = Err 1.
Proof. intros H. unfold filter_eligible. now rewrite H. Qed.
