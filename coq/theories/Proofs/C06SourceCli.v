(* The command-line wrappers calculate_scores.main and select_next_plate.main (and argument_parsing.
   get_prng_from_seed_argument): the hand-written models of Model/Cli.v equal the translations of the WHOLE
   functions of /repo, regenerated on every run (Generated/SrcCli.v, by harness/py2gal.py with the configurations
   CLI_* of harness/src_functions.py), for every record of library functions and all parsed arguments.

   Each link is proved in its own file (Proofs/C06SourceCli_Prng.v, C06SourceCli_Scores.v, C06SourceCli_Select.v), which is what the
   links of the OTHER wrappers import (every main() calls get_prng_from_seed_argument; none calls another main()), so that they do
   not depend on the translations of these two wrappers.  This file states the three together, for Props/C06.v and Props/C18.v. *)
From Coq Require Import ZArith List Bool Lia.
From Batchie Require Import Lib.Sexp Lib.PyRt Model.Cli Generated.SrcCli Proofs.PyRtLemmas
  Proofs.C06SourceCli_Prng Proofs.C06SourceCli_Scores Proofs.C06SourceCli_Select.
Import ListNotations.
Open Scope Z_scope.

Theorem src_get_prng_is_model : forall (mix : Z -> Z) (seed : Z),
  src_get_prng_from_seed_argument mix seed = prng_of_seed mix seed.
Proof. exact C06SourceCli_Prng.src_get_prng_is_model. Qed.

Theorem src_cli_calculate_scores_is_model :
  forall (Scr Pl Th Dm Sc H : Type) (L : cs_lib Scr Pl Th Dm Sc H) (mix : Z -> Z) (a : cs_args),
  src_cli_calculate_scores Scr Pl Th Dm Sc H L mix a = cli_calculate_scores L mix a.
Proof. exact C06SourceCli_Scores.src_cli_calculate_scores_is_model. Qed.

Theorem src_cli_select_next_plate_is_model :
  forall (Scr Pl Po H : Type) (L : sn_lib Scr Pl Po H) (mix : Z -> Z) (a : sn_args),
  src_cli_select_next_plate Scr Pl Po H L mix a = cli_select_next_plate L mix a.
Proof. exact C06SourceCli_Select.src_cli_select_next_plate_is_model. Qed.
