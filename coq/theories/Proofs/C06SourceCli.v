(* The command-line wrappers calculate_scores.main and select_next_plate.main (and argument_parsing.
   get_prng_from_seed_argument): the hand-written models of Model/Cli.v equal the translations of the WHOLE
   functions of /repo, regenerated on every run (Generated/SrcCli.v, by harness/py2gal.py with the configurations
   CLI_* of harness/src_functions.py), for every record of library functions and all parsed arguments. *)
From Coq Require Import ZArith List Bool Lia.
From Batchie Require Import Lib.Sexp Lib.PyRt Model.Cli Generated.SrcCli Proofs.PyRtLemmas.
Import ListNotations.
Open Scope Z_scope.

Theorem src_get_prng_is_model : forall (mix : Z -> Z) (seed : Z),
  src_get_prng_from_seed_argument mix seed = prng_of_seed mix seed.
Proof. intros. reflexivity. Qed.

Theorem src_cli_calculate_scores_is_model :
  forall (Scr Pl Th Dm Sc H : Type) (L : cs_lib Scr Pl Th Dm Sc H) (mix : Z -> Z) (a : cs_args),
  src_cli_calculate_scores Scr Pl Th Dm Sc H L mix a = cli_calculate_scores L mix a.
Proof.
  intros. unfold src_cli_calculate_scores, cli_calculate_scores. cbv zeta.
  rewrite !res_map_all_ret, src_get_prng_is_model.
  repeat cli_step.
Qed.

Theorem src_cli_select_next_plate_is_model :
  forall (Scr Pl Po H : Type) (L : sn_lib Scr Pl Po H) (mix : Z -> Z) (a : sn_args),
  src_cli_select_next_plate Scr Pl Po H L mix a = cli_select_next_plate L mix a.
Proof.
  intros. unfold src_cli_select_next_plate, cli_select_next_plate. cbv zeta.
  rewrite !res_map_all_ret, src_get_prng_is_model.
  repeat cli_step. all: reflexivity.
Qed.
