(* C10: Metric.evaluate_all (Generated/SrcCoreSmall.v): the abstract `evaluate` applied to the stored samples of the holder, in their
   order, the first exception aborting *)
From Coq Require Import ZArith List Bool.
From Batchie Require Import Lib.Sexp Lib.PyRt Model.Thetas Generated.SrcCoreSmall Proofs.PyRtLemmas Proofs.C10Source_Iter.
Import ListNotations.
Open Scope Z_scope.

Theorem src_metric_evaluate_all_is_map : forall (P S V : Type) (ev : theta P S -> result V) (h : pyobj P S),
  src_metric_evaluate_all P S V ev h = res_map_all ev (attr_thetas h).
Proof.
  intros P S V ev h. unfold src_metric_evaluate_all. rewrite src_holder_iter_is_thetas. cbn [res_bind].
  rewrite res_map_all_ret. apply res_bind_ret.
Qed.
