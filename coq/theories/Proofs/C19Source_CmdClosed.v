(* C19: the four run_* command builders re-translated CLOSED over the translated path helpers (Generated/SrcOrchCmdClosed.v,
   configurations C19_RUN_*_CLOSED of harness/src_functions.py): for a script that lies in a checkout at [root]
   (root/nextflow/scripts/batchie.py, a path as realpath returns it) the third word of every command line is root/main.nf - the
   pipeline the model describes - and the builders denote the model's launches exactly as the open translations do. *)
From Coq Require Import ZArith List Bool Lia.
From Batchie Require Import Lib.Sexp Lib.PyRt Model.Orchestrate Generated.SrcOrchPaths Generated.SrcOrchCmd Generated.SrcOrchCmdClosed
  Proofs.C19Source_Paths Proofs.C19SourceCmd.
Import ListNotations.
Open Scope Z_scope.

Lemma fspath_eqb_refl p : fspath_eqb p p = true.
Proof. induction p as [|c p IH]; cbn [fspath_eqb]; [reflexivity|]. now rewrite zlist_eqb_same, IH. Qed.

Lemma fspath_eqb_true a b : fspath_eqb a b = true -> a = b.
Proof.
  revert b; induction a as [|x a IH]; intros [|y b]; cbn [fspath_eqb]; try discriminate; [reflexivity|].
  intros H. apply andb_prop in H as [H1 H2]. apply zlist_eqb_true in H1. apply IH in H2. congruence.
Qed.

(* a path is the word WMainNf exactly when it is root/main.nf *)
Lemma word_of_file_main_nf root p : word_of_file root p = WMainNf <-> p = root ++ [S_main_nf].
Proof.
  unfold word_of_file. destruct (fspath_eqb p (root ++ [S_main_nf])) eqn:E.
  - apply fspath_eqb_true in E. split; auto.
  - split; [discriminate|]. intros ->. now rewrite fspath_eqb_refl in E.
Qed.

Section Closed.
Variable root : fspath.
Hypothesis Hroot : clean_path root.

Local Ltac helpers :=
  rewrite ?src_get_main_nf_file_is_model, ?src_get_repository_root_is_model, ?(main_nf_file_in root Hroot), ?(repository_root_in root Hroot);
  cbn [sbind]; unfold word_of_file; rewrite ?fspath_eqb_refl.

(* closed = open: the only difference is where the word for main.nf comes from *)
Lemma run_initial_closed_open acts o scr nm extra :
  src_run_initial_plate_closed root (script_in root) acts o scr nm extra = src_run_initial_plate acts o scr nm extra.
Proof.
  unfold src_run_initial_plate_closed, src_run_initial_plate. helpers.
  match goal with |- (dos a <- ?J; _) = _ => destruct J as [?|? ?|? ?] end; reflexivity.
Qed.

Lemma run_first_closed_open acts o tr te nm extra :
  src_run_first_batch_plate_closed root (script_in root) acts o tr te nm extra = src_run_first_batch_plate acts o tr te nm extra.
Proof.
  unfold src_run_first_batch_plate_closed, src_run_first_batch_plate. helpers.
  match goal with |- (dos a <- ?J; _) = _ => destruct J as [?|? ?|? ?] end; reflexivity.
Qed.

Lemma run_first_prosp_closed_open acts o scr nm extra :
  src_run_first_prospective_batch_plate_closed root (script_in root) acts o scr nm extra
  = src_run_first_prospective_batch_plate acts o scr nm extra.
Proof.
  unfold src_run_first_prospective_batch_plate_closed, src_run_first_prospective_batch_plate. helpers.
  match goal with |- (dos a <- ?J; _) = _ => destruct J as [?|? ?|? ?] end; reflexivity.
Qed.

Lemma run_subsequent_closed_open acts o scr th di nm extra excl :
  src_run_subsequent_batch_plate_closed root (script_in root) acts o scr th di nm extra excl
  = src_run_subsequent_batch_plate acts o scr th di nm extra excl.
Proof.
  unfold src_run_subsequent_batch_plate_closed, src_run_subsequent_batch_plate. helpers.
  destruct (is_some excl); cbn [sbind];
    [destruct (sunwrap excl) as [u|w s|d w]; cbn [sbind]; try reflexivity|];
    match goal with |- (dos a <- ?J; _) = _ => destruct J as [?|? ?|? ?] end; reflexivity.
Qed.

(* ---- the closed builders denote the model's launches ---- *)
Theorem src_run_initial_plate_closed_is_model : forall acts o scr nm extra,
  src_run_initial_plate_closed root (script_in root) acts o scr nm extra = launch_cmd acts o (option_map LInit scr).
Proof. intros. rewrite run_initial_closed_open. apply src_run_initial_plate_is_model. Qed.

Theorem src_run_first_batch_plate_closed_is_model : forall acts o tr te nm extra,
  src_run_first_batch_plate_closed root (script_in root) acts o tr te nm extra = launch_cmd acts o (first_cmd tr te).
Proof. intros. rewrite run_first_closed_open. apply src_run_first_batch_plate_is_model. Qed.

Theorem src_run_first_prospective_batch_plate_closed_is_model : forall acts o scr nm extra,
  src_run_first_prospective_batch_plate_closed root (script_in root) acts o scr nm extra = launch_cmd acts o (option_map LProsp scr).
Proof. intros. rewrite run_first_prosp_closed_open. apply src_run_first_prospective_batch_plate_is_model. Qed.

Theorem src_run_subsequent_batch_plate_closed_is_model : forall acts o scr t nm extra excl,
  src_run_subsequent_batch_plate_closed root (script_in root) acts o scr (TGlob t) (DGlob t) nm extra excl
  = launch_cmd acts o (next_cmd scr t excl).
Proof. intros. rewrite run_subsequent_closed_open. apply src_run_subsequent_batch_plate_is_model. Qed.

End Closed.

(* the hypothesis on the script's place matters: from a script that lies one directory deeper the command names another file,
   which is no launch of the model (CalledProcessError, why = 8) *)
Lemma closed_elsewhere_is_no_launch :
  src_run_initial_plate_closed [] ([S_scripts] ++ script_in []) [] (0, 0) (Some SInput) tt [] = SRaised [] 8.
Proof. vm_compute. reflexivity. Qed.
