(* C20: the models ev_mse / ev_mse_variance / ev_inter_chain of Model/Metrics.v equal the translations of
     batchie.models.main.ModelEvaluation.mse / mse_variance / inter_chain_mse_variance
   (and of the properties predictions / observations / chain_ids they read), regenerated from /repo on every run
   (Generated/SrcMetrics.v, configurations C20_EV_* of harness/src_functions.py), for EVERY evaluation object the
   constructor builds: the hypothesis [mk_eval m P o ch nm = Ok e] is a fact about every reachable ModelEvaluation
   (objects are only made by __init__ / load_h5 -> cls(...)), and m is predictions.shape[1]. *)
From Coq Require Import ZArith List Bool Lia Arith QArith Qcanon.
From Batchie Require Import Lib.Sexp Lib.Num Lib.PyRt Model.Metrics Generated.SrcMetrics
  Proofs.PyRtLemmas Proofs.C20Spec Proofs.C20Base Proofs.C20Metrics.
Import ListNotations.
Open Scope Z_scope.

Lemma evm_bind_ok_r {A} (x : result A) : (dor r <- x; Ok r) = x.
Proof. destruct x; reflexivity. Qed.

(* (P - o[:, None]) ** 2 *)
Definition sub_col (P : list (list Qc)) (o : list Qc) : list (list Qc) :=
  map (fun ro => map (fun x => (x - snd ro)%Qc) (fst ro)) (combine P o).

Lemma np_sub_col_ok P o : length P = length o -> np_sub_col P o = Ok (sub_col P o).
Proof. intros H. unfold np_sub_col. now rewrite H, Nat.eqb_refl. Qed.

Lemma np_square2_sub_col P o : np_square2 (sub_col P o) = sqerr P o.
Proof. unfold np_square2, sub_col, sqerr. rewrite map_map. apply map_ext. intros ro. now rewrite map_map. Qed.

Lemma sqerr_rows_length P o m : Forall (fun r : list Qc => length r = m) P -> Forall (fun r : list Qc => length r = m) (sqerr P o).
Proof.
  intros H. apply Forall_forall. intros r Hr. unfold sqerr in Hr. apply in_map_iff in Hr as ([row x] & <- & Hin).
  cbn [fst snd]. rewrite map_length. rewrite Forall_forall in H. apply H. eapply in_combine_l, Hin.
Qed.

Lemma sqerr_length P o : length P = length o -> length (sqerr P o) = length P.
Proof. intros H. unfold sqerr. rewrite map_length, combine_length, H. apply Nat.min_id. Qed.

Lemma mean_rows_ok rows : Forall (fun r : list Qc => r <> []) rows -> np_mean_rows rows = Ok (map qmean rows).
Proof.
  unfold np_mean_rows. induction 1 as [|r rows Hr _ IH]; [reflexivity|]. cbn [res_map_all map].
  destruct r as [|x r]; [now elim Hr|]. cbn [np_mean1 res_bind]. now rewrite IH.
Qed.

Lemma res_fold_append_in {A B} (f : list B -> A -> result (list B)) (g : A -> B) :
  forall l, (forall acc a, In a l -> f acc a = Ok (acc ++ [g a])) ->
  forall acc, res_fold f l acc = Ok (acc ++ map g l).
Proof.
  induction l as [|a l IH]; intros H acc; cbn [res_fold map]; [now rewrite app_nil_r|].
  rewrite H by now left. cbn [res_bind]. rewrite IH by (intros; apply H; now right). now rewrite <- app_assoc.
Qed.

Section Built.
Variables (m : nat) (P : list (list Qc)) (o : list Qc) (ch : list Z) (nm : list (list Z)) (e : evaluation).
Hypothesis Built : mk_eval m P o ch nm = Ok e.

Theorem src_ev_mse_is_model : src_ev_mse e = ev_mse e.
Proof.
  apply mk_eval_ok in Built as (-> & HPo & _ & Hrect & Hch).
  unfold src_ev_mse, src_ev_predictions, src_ev_observations, ev_mse, is_empty, n_exp, n_thetas.
  cbn [res_bind ev_preds ev_obs ev_chains]. rewrite (np_sub_col_ok P o HPo). cbn [res_bind].
  rewrite evm_bind_ok_r, np_square2_sub_col. unfold np_mean_all.
  pose proof (sqerr_concat_length P o ch m HPo Hrect Hch) as L. rewrite Hch.
  destruct (concat (sqerr P o)) as [|x l]; cbn [length] in L.
  - symmetry in L. apply Nat.eq_mul_0 in L. destruct L as [->| ->]; [reflexivity|]. now rewrite Nat.eqb_refl, orb_true_r.
  - destruct (length P) as [|n]; [discriminate|]. destruct m as [|m']; [lia|]. reflexivity.
Qed.

Theorem src_ev_mse_variance_is_model : src_ev_mse_variance e = ev_mse_variance e.
Proof.
  apply mk_eval_ok in Built as (-> & HPo & _ & Hrect & Hch).
  unfold src_ev_mse_variance, src_ev_predictions, src_ev_observations, ev_mse_variance, is_empty, n_exp, n_thetas.
  cbn [res_bind ev_preds ev_obs ev_chains]. rewrite (np_sub_col_ok P o HPo). cbn [res_bind].
  rewrite np_square2_sub_col. rewrite Hch.
  pose proof (sqerr_rows_length P o m Hrect) as R. pose proof (sqerr_length P o HPo) as L.
  destruct (sqerr P o) as [|r rows] eqn:Es.
  - cbn [length] in L. rewrite <- L. reflexivity.
  - cbn [length] in L. rewrite <- L. cbn [Nat.eqb orb].
    destruct m as [|m'].
    + inversion R as [|? ? Hr _]; subst. destruct r; [|discriminate]. reflexivity.
    + rewrite mean_rows_ok.
      * cbn [res_bind map]. reflexivity.
      * eapply Forall_impl; [|exact R]. cbn. intros a Ha ->. discriminate.
Qed.

Theorem src_ev_inter_chain_is_model : src_ev_inter_chain_mse_variance m e = ev_inter_chain e.
Proof.
  apply mk_eval_ok in Built as (-> & HPo & _ & Hrect & Hch).
  unfold src_ev_inter_chain_mse_variance, src_ev_predictions, src_ev_observations, src_ev_chain_ids, ev_inter_chain,
    is_empty, n_exp, n_thetas.
  cbn [res_bind ev_preds ev_obs ev_chains]. rewrite Hch.
  set (E := {| ev_preds := P; ev_obs := o; ev_chains := ch; ev_names := nm |}).
  (* one iteration: the chain's MSE, NaN when its selected matrix has no entry *)
  assert (Body : forall acc c,
    (dor r__5 <- np_select_cols m (np_eq_scalar ch c) P;
     dor r__7 <- np_sub_col r__5 o;
     dor r__8 <- np_mean_all (np_square2 r__7); Ok (acc ++ [r__8]))
    = match concat (map (select (map (Z.eqb c) ch)) (sqerr P o)) with
      | [] => Err E_NAN
      | _ => Ok (acc ++ [chain_mse E c])
      end).
  { intros acc c. unfold np_select_cols, np_eq_scalar. rewrite map_length, Hch, Nat.eqb_refl. cbn [res_bind].
    replace (map (fun x : Z => x =? c) ch) with (map (Z.eqb c) ch) by (apply map_ext; intros; apply Z.eqb_sym).
    rewrite np_sub_col_ok by (now rewrite map_length). cbn [res_bind]. rewrite np_square2_sub_col.
    unfold np_mean_all, chain_mse, E. cbn [ev_preds ev_obs ev_chains]. rewrite sqerr_select.
    destruct (concat _); reflexivity. }
  match goal with |- context [res_fold ?F _ _] =>
    assert (HF : forall acc c, F acc c = match concat (map (select (map (Z.eqb c) ch)) (sqerr P o)) with
                                         | [] => Err E_NAN
                                         | _ => Ok (acc ++ [chain_mse E c])
                                         end) by (intros acc c; apply Body) end.
  clear Body.
  destruct m as [|m'].
  - destruct ch; [|discriminate]. rewrite orb_true_r. reflexivity.
  - destruct P as [|row P'] eqn:EP.
    + cbn [length Nat.eqb orb]. destruct ch as [|c0 ch']; [discriminate|].
      assert (I : In c0 (sorted_unique (c0 :: ch'))) by (apply sorted_unique_In; now left).
      destruct (sorted_unique (c0 :: ch')) as [|c U]; [elim I|]. cbn [res_fold].
      rewrite HF. reflexivity.
    + rewrite <- EP in *. assert (Hn : Nat.eqb (length P) 0 = false) by (rewrite EP; reflexivity). rewrite Hn. cbn [orb].
      rewrite (res_fold_append_in _ (chain_mse E)).
      * cbn [res_bind app]. unfold np_var.
        destruct ch as [|c0 ch']; [discriminate|].
        assert (I : In c0 (sorted_unique (c0 :: ch'))) by (apply sorted_unique_In; now left).
        destruct (sorted_unique (c0 :: ch')) as [|c U]; [elim I|]. reflexivity.
      * intros acc c Hc. rewrite sorted_unique_In in Hc. rewrite HF.
        (* the first row of the selected matrix is not empty: the chain has at least one column *)
        pose proof (sqerr_rows_length P o (S m') Hrect) as R. pose proof (sqerr_length P o HPo) as L.
        destruct (sqerr P o) as [|r rows]; [rewrite EP in L; discriminate|].
        inversion R as [|? ? Hr _]; subst.
        pose proof (chain_row_length (row :: P') o ch (S m') HPo Hch c r Hr) as Lr.
        assert (Pos : (0 < chain_size ch c)%nat).
        { unfold chain_size. assert (In c (filter (Z.eqb c) ch)) by (apply filter_In; split; [exact Hc | apply Z.eqb_refl]).
          destruct (filter (Z.eqb c) ch); [contradiction | cbn [length]; lia]. }
        cbn [map concat]. destruct (select (map (Z.eqb c) ch) r) as [|x sel]; [cbn [length] in Lr; lia|]. reflexivity.
Qed.
End Built.
