(* C20: the models ev_mse / ev_mse_variance / ev_inter_chain of Model/Metrics.v equal the translations of
     batchie.models.main.ModelEvaluation.mse / mse_variance / inter_chain_mse_variance
   (and of the properties predictions / observations / chain_ids they read), regenerated from /repo on every run
   (Generated/SrcMetrics.v, configurations C20_EV_* of harness/src_functions.py), for EVERY evaluation object the
   constructor builds: the hypothesis [mk_eval m P o ch nm = Ok e] is a fact about every reachable ModelEvaluation
   (objects are only made by __init__ / load_h5 -> cls(...)), and m is predictions.shape[1]. *)
From Coq Require Import ZArith List Bool Lia Arith QArith Qcanon.
From Batchie Require Import Lib.Sexp Lib.Num Lib.PyRt Model.Metrics Generated.SrcMetrics
  Proofs.PyRtLemmas Proofs.C20Spec Proofs.C20Base Proofs.C20Metrics.
Import ListNotations.
Open Scope Z_scope.

Lemma evm_bind_ok_r {A} (x : result A) : (dor r <- x; Ok r) = x.
Proof. destruct x; reflexivity. Qed.

(* (P - o[:, None]) ** 2 *)
Definition sub_col (P : list (list Qc)) (o : list Qc) : list (list Qc) :=
  map (fun ro => map (fun x => (x - snd ro)%Qc) (fst ro)) (combine P o).

Lemma np_sub_col_ok P o : length P = length o -> np_sub_col P o = Ok (sub_col P o).
Proof. intros H. unfold np_sub_col. now rewrite H, Nat.eqb_refl. Qed.

Lemma np_square2_sub_col P o : np_square2 (sub_col P o) = sqerr P o.
Proof. unfold np_square2, sub_col, sqerr. rewrite map_map. apply map_ext. intros ro. now rewrite map_map. Qed.

Lemma sqerr_rows_length P o m : Forall (fun r : list Qc => length r = m) P -> Forall (fun r : list Qc => length r = m) (sqerr P o).
Proof.
  intros H. apply Forall_forall. intros r Hr. unfold sqerr in Hr. apply in_map_iff in Hr as ([row x] & <- & Hin).
  cbn [fst snd]. rewrite map_length. rewrite Forall_forall in H. apply H. eapply in_combine_l, Hin.
Qed.

Lemma sqerr_length P o : length P = length o -> length (sqerr P o) = length P.
Proof. intros H. unfold sqerr. rewrite map_length, combine_length, H. apply Nat.min_id. Qed.

Lemma mean_rows_ok rows : Forall (fun r : list Qc => r <> []) rows -> np_mean_rows rows = Ok (map qmean rows).
Proof.
  unfold np_mean_rows. induction 1 as [|r rows Hr _ IH]; [reflexivity|]. cbn [res_map_all map].
  destruct r as [|x r]; [now elim Hr|]. cbn [np_mean1 res_bind]. now rewrite IH.
Qed.

Lemma res_fold_append_in {A B} (f : list B -> A -> result (list B)) (g : A -> B) :
  forall l, (forall acc a, In a l -> f acc a = Ok (acc ++ [g a])) ->
  forall acc, res_fold f l acc = Ok (acc ++ map g l).
Proof.
  induction l as [|a l IH]; intros H acc; cbn [res_fold map]; [now rewrite app_nil_r|].
  rewrite H by now left. cbn [res_bind]. rewrite IH by (intros; apply H; now right). now rewrite <- app_assoc.
Qed.

Section Built.
Variables (m : nat) (P : list (list Qc)) (o : list Qc) (ch : list Z) (nm : list (list Z)) (e : evaluation).
Hypothesis Built : mk_eval m P o ch nm = Ok e.

Theorem src_ev_mse_is_model : src_ev_mse e = ev_mse e.
Proof.
  apply mk_eval_ok in Built as (-> & HPo & _ & Hrect & Hch).
  unfold src_ev_mse, src_ev_predictions, src_ev_observations, ev_mse, is_empty, n_exp, n_thetas.
  cbn [res_bind ev_preds ev_obs ev_chains]. rewrite (np_sub_col_ok P o HPo). cbn [res_bind].
  rewrite evm_bind_ok_r, np_square2_sub_col. unfold np_mean_all.
  pose proof (sqerr_concat_length P o ch m HPo Hrect Hch) as L. rewrite Hch.
  destruct (concat (sqerr P o)) as [|x l]; cbn [length] in L.
  - symmetry in L. apply Nat.eq_mul_0 in L. destruct L as [->| ->]; [reflexivity|]. now rewrite Nat.eqb_refl, orb_true_r.
  - destruct (length P) as [|n]; [discriminate|]. destruct m as [|m']; [lia|]. reflexivity.
Qed.

Theorem src_ev_mse_variance_is_model : src_ev_mse_variance e = ev_mse_variance e.
Proof.
  apply mk_eval_ok in Built as (-> & HPo & _ & Hrect & Hch).
  unfold src_ev_mse_variance, src_ev_predictions, src_ev_observations, ev_mse_variance, is_empty, n_exp, n_thetas.
  cbn [res_bind ev_preds ev_obs ev_chains]. rewrite (np_sub_col_ok P o HPo). cbn [res_bind].
  rewrite np_square2_sub_col. rewrite Hch.
  pose proof (sqerr_rows_length P o m Hrect) as R. pose proof (sqerr_length P o HPo) as L.
  destruct (sqerr P o) as [|r rows] eqn:Es.
  - cbn [length] in L. rewrite <- L. reflexivity.
  - cbn [length] in L. rewrite <- L. cbn [Nat.eqb orb].
    destruct m as [|m'].
    + inversion R as [|? ? Hr _]; subst. destruct r; [|discriminate]. reflexivity.
    + rewrite mean_rows_ok.
      * cbn [res_bind map]. reflexivity.
      * eapply Forall_impl; [|exact R]. cbn. intros a Ha ->. discriminate.
Qed.

Theorem src_ev_inter_chain_is_model : src_ev_inter_chain_mse_variance m e = ev_inter_chain e.
Proof.
  apply mk_eval_ok in Built as (-> & HPo & _ & Hrect & Hch).
  unfold src_ev_inter_chain_mse_variance, src_ev_predictions, src_ev_observations, src_ev_chain_ids, ev_inter_chain,
    is_empty, n_exp, n_thetas.
  cbn [res_bind ev_preds ev_obs ev_chains]. rewrite Hch.
  set (E := {| ev_preds := P; ev_obs := o; ev_chains := ch; ev_names := nm |}).
  (* one iteration: the chain's MSE, NaN when its selected matrix has no entry *)
  assert (Body : forall acc c,
    (dor r__5 <- np_select_cols m (np_eq_scalar ch c) P;
     dor r__7 <- np_sub_col r__5 o;
     dor r__8 <- np_mean_all (np_square2 r__7); Ok (acc ++ [r__8]))
    = match concat (map (select (map (Z.eqb c) ch)) (sqerr P o)) with
      | [] => Err E_NAN
      | _ => Ok (acc ++ [chain_mse E c])
      end).
  { intros acc c. unfold np_select_cols, np_eq_scalar. rewrite map_length, Hch, Nat.eqb_refl. cbn [res_bind].
    replace (map (fun x : Z => x =? c) ch) with (map (Z.eqb c) ch) by (apply map_ext; intros; apply Z.eqb_sym).
    rewrite np_sub_col_ok by (now rewrite map_length). cbn [res_bind]. rewrite np_square2_sub_col.
    unfold np_mean_all, chain_mse, E. cbn [ev_preds ev_obs ev_chains]. rewrite sqerr_select.
    destruct (concat _); reflexivity. }
  match goal with |- context [res_fold ?F _ _] =>
    assert (HF : forall acc c, F acc c = match concat (map (select (map (Z.eqb c) ch)) (sqerr P o)) with
                                         | [] => Err E_NAN
                                         | _ => Ok (acc ++ [chain_mse E c])
                                         end) by (intros acc c; apply Body) end.
  clear Body.
  destruct m as [|m'].
  - destruct ch; [|discriminate]. rewrite orb_true_r. reflexivity.
  - destruct P as [|row P'] eqn:EP.
    + cbn [length Nat.eqb orb]. destruct ch as [|c0 ch']; [discriminate|].
      assert (I : In c0 (sorted_unique (c0 :: ch'))) by (apply sorted_unique_In; now left).
      destruct (sorted_unique (c0 :: ch')) as [|c U]; [elim I|]. cbn [res_fold].
      rewrite HF. reflexivity.
    + rewrite <- EP in *. assert (Hn : Nat.eqb (length P) 0 = false) by (rewrite EP; reflexivity). rewrite Hn. cbn [orb].
      rewrite (res_fold_append_in _ (chain_mse E)).
      * cbn [res_bind app]. unfold np_var.
        destruct ch as [|c0 ch']; [discriminate|].
        assert (I : In c0 (sorted_unique (c0 :: ch'))) by (apply sorted_unique_In; now left).
        destruct (sorted_unique (c0 :: ch')) as [|c U]; [elim I|]. reflexivity.
      * intros acc c Hc. rewrite sorted_unique_In in Hc. rewrite HF.
        (* the first row of the selected matrix is not empty: the chain has at least one column *)
        pose proof (sqerr_rows_length P o (S m') Hrect) as R. pose proof (sqerr_length P o HPo) as L.
        destruct (sqerr P o) as [|r rows]; [rewrite EP in L; discriminate|].
        inversion R as [|? ? Hr _]; subst.
        pose proof (chain_row_length (row :: P') o ch (S m') HPo Hch c r Hr) as Lr.
        assert (Pos : (0 < chain_size ch c)%nat).
        { unfold chain_size. assert (In c (filter (Z.eqb c) ch)) by (apply filter_In; split; [exact Hc | apply Z.eqb_refl]).
          destruct (filter (Z.eqb c) ch); [contradiction | cbn [length]; lia]. }
        cbn [map concat]. destruct (select (map (Z.eqb c) ch) r) as [|x sel]; [cbn [length] in Lr; lia|]. reflexivity.
Qed.
End Built.

(* ---------- predict_viability_avg and retrospective.calculate_mse ---------- *)
Lemma list_get_at {A} (pre : list A) a suf : list_get (pre ++ a :: suf) (Z.of_nat (length pre)) = Ok a.
Proof.
  unfold list_get. destruct (Z.ltb_spec (Z.of_nat (length pre)) 0) as [|_]; [lia|].
  destruct (Z.ltb_spec (Z.of_nat (length pre)) 0) as [|_]; [lia|].
  rewrite Nat2Z.id, nth_error_app2, Nat.sub_diag by lia. reflexivity.
Qed.

(* `for i in range(len(l)): x = l[i]; ...` is `for x in l: ...` *)
Lemma res_fold_zrange_get {St A} (l : list A) (F : St -> Z -> result St) (f : St -> A -> result St) :
  (forall s i, F s i = dor a <- list_get l i; f s a) ->
  forall s, res_fold F (zrange (Z.of_nat (length l))) s = res_fold f l s.
Proof.
  intros HF. unfold zrange. rewrite Nat2Z.id.
  assert (G : forall suf pre s, l = pre ++ suf ->
              res_fold F (map Z.of_nat (seq (length pre) (length suf))) s = res_fold f suf s).
  { induction suf as [|a suf IH]; intros pre s E; [reflexivity|]. cbn [length seq map res_fold].
    rewrite HF, E, list_get_at. cbn [res_bind]. destruct (f s a) as [s'|e]; cbn [res_bind]; [|reflexivity].
    replace (S (length pre)) with (length (pre ++ [a])) by (rewrite app_length; cbn [length]; lia).
    apply IH. now rewrite <- app_assoc. }
  intros s. apply (G l [] s). reflexivity.
Qed.

Lemma no_nan x : np_any1 (np_isnan1 x) = false.
Proof. unfold np_any1, np_isnan1. induction x as [|a x IH]; [reflexivity | exact IH]. Qed.

Lemma vadd_length a b : length a = length b -> length (vadd a b) = length a.
Proof. intros H. unfold vadd. rewrite map_length, combine_length, H. apply Nat.min_id. Qed.

Lemma sum_loop (f : list Qc -> list Qc -> result (list Qc)) n :
  (forall acc row, f acc row = np_add1 acc row) ->
  forall pt acc, length acc = n ->
  res_fold f pt acc = if forallb (fun r => Nat.eqb (length r) n) pt then Ok (fold_left vadd pt acc) else Err E_VALUE.
Proof.
  intros Hf pt. induction pt as [|row pt IH]; intros acc L; cbn [res_fold forallb fold_left]; [reflexivity|].
  rewrite Hf. unfold np_add1. rewrite L, (Nat.eqb_sym n (length row)).
  destruct (Nat.eqb_spec (length row) n) as [E|]; cbn [andb res_bind]; [|reflexivity].
  apply IH. rewrite vadd_length; congruence.
Qed.

Lemma fold_vadd_length n : forall pt acc, length acc = n -> forallb (fun r : list Qc => Nat.eqb (length r) n) pt = true ->
  length (fold_left vadd pt acc) = n.
Proof.
  induction pt as [|row pt IH]; intros acc L H; cbn [fold_left forallb] in *; [exact L|].
  apply andb_prop in H as [H1 H2]. apply Nat.eqb_eq in H1. apply IH; [|exact H2]. rewrite vadd_length; congruence.
Qed.

Lemma zeros_all_zero n : forallb (qeqb 0%Qc) (repeat 0%Qc n) = true.
Proof. induction n as [|n IH]; [reflexivity|]. cbn [repeat forallb]. rewrite IH. unfold qeqb. destruct (Qc_eq_dec 0 0); [reflexivity | congruence]. Qed.

(* predict_viability_avg: the sum of the thetas' predictions over their number (the model's predict_avg), ValueError when a
   prediction has another length than the screen, NaN when there is no theta and the screen is not empty *)
Theorem src_predict_viability_avg_is_model : forall (size : nat) (pt : list (list Qc)),
  src_predict_viability_avg size pt
  = if negb (forallb (fun r => Nat.eqb (length r) size) pt) then Err E_VALUE
    else match pt, size with
         | [], O => Ok []
         | [], _ => Err E_NAN
         | _, _ => Ok (predict_avg size pt)
         end.
Proof.
  intros size pt. unfold src_predict_viability_avg.
  rewrite (res_fold_zrange_get pt _ (fun acc row => np_add1 acc row)).
  2:{ intros s i. destruct (list_get pt i) as [row|e]; cbn [res_bind]; [|reflexivity]. rewrite no_nan. apply evm_bind_ok_r. }
  unfold np_zeros1. rewrite Nat2Z.id. rewrite (sum_loop _ size) by (reflexivity || apply repeat_length).
  destruct (forallb _ pt) eqn:All; cbn [negb res_bind]; [|reflexivity].
  rewrite evm_bind_ok_r. unfold np_div_int. destruct pt as [|row pt].
  - cbn [length fold_left Z.of_nat Z.eqb]. rewrite zeros_all_zero. destruct size; reflexivity.
  - destruct (Z.eqb_spec (Z.of_nat (length (row :: pt))) 0) as [E|_]; [cbn [length] in E; lia|]. reflexivity.
Qed.

Theorem src_calculate_mse_is_model : forall (pt : list (list Qc)) (obs : list Qc),
  src_calculate_mse pt obs = Metrics.calculate_mse pt obs.
Proof.
  intros pt obs. unfold src_calculate_mse, Metrics.calculate_mse. rewrite src_predict_viability_avg_is_model.
  destruct (forallb _ pt) eqn:All; cbn [negb res_bind]; [|reflexivity].
  destruct pt as [|row pt].
  - destruct obs as [|x obs]; reflexivity.
  - cbn [res_bind]. unfold np_sub1.
    assert (L : length (predict_avg (length obs) (row :: pt)) = length obs).
    { unfold predict_avg. rewrite map_length. apply fold_vadd_length; [apply repeat_length | exact All]. }
    rewrite L, Nat.eqb_refl. cbn [res_bind]. rewrite evm_bind_ok_r. unfold np_square1. rewrite map_map.
    destruct obs as [|x obs]; [cbn [length] in L |- *; apply length_zero_iff_nil in L; rewrite L; reflexivity|].
    destruct (predict_avg (length (x :: obs)) (row :: pt)) as [|p ps]; [discriminate|]. reflexivity.
Qed.

(* ---------- ModelEvaluation.mean_predictions ---------- *)
Theorem src_ev_mean_predictions_is_model : forall m P o ch nm e,
  mk_eval m P o ch nm = Ok e -> src_ev_mean_predictions e = ev_mean_predictions e.
Proof.
  intros m P o ch nm e Built. apply mk_eval_ok in Built as (-> & HPo & _ & Hrect & Hch).
  unfold src_ev_mean_predictions, src_ev_predictions, ev_mean_predictions, n_exp, n_thetas.
  cbn [res_bind ev_preds ev_chains]. rewrite evm_bind_ok_r, Hch.
  destruct P as [|row P']; [reflexivity|]. cbn [length Nat.eqb negb andb].
  destruct m as [|m'].
  - inversion Hrect as [|? ? Hr _]; subst. destruct row; [reflexivity | discriminate].
  - cbn [Nat.eqb]. apply mean_rows_ok. eapply Forall_impl; [|exact Hrect]. cbn. intros a Ha ->. discriminate.
Qed.

(* ---------- ModelEvaluation.__init__ ---------- *)
(* whatever the fresh instance held, the four shape checks and then the four stored arrays: the model's constructor, so
   the hypothesis [mk_eval ... = Ok e] of the links above says "e is what the translated constructor returns" *)
Theorem src_ev_init_is_model : forall (self : evaluation) (ncols : nat) P o ch nm,
  src_ev_init self ncols P o ch nm = mk_eval ncols P o ch nm.
Proof.
  intros self ncols P o ch nm. unfold src_ev_init, mk_eval, ndim_of. cbn [negb].
  assert (E : forall a b : nat, (Z.of_nat a =? Z.of_nat b) = Nat.eqb a b).
  { intros a b. destruct (Nat.eqb_spec a b) as [->|H]; [apply Z.eqb_refl | apply Z.eqb_neq; lia]. }
  rewrite !E.
  destruct (Nat.eqb (length P) (length o)); cbn [negb]; [|reflexivity].
  destruct (Nat.eqb (length nm) (length o)); cbn [negb]; [|reflexivity].
  destruct (forallb _ P); cbn [negb Z.eqb Pos.eqb]; [|reflexivity].
  destruct (Nat.eqb (length ch) ncols); cbn [negb]; reflexivity.
Qed.
