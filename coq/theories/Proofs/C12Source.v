(* C12 / C03: the hand-written models of Model/Reveal.v (on Model/Screen.v) equal the translations of
     batchie.retrospective.reveal_plates / mask_screen / unmask_screen
   regenerated from /repo on every run (Generated/SrcReveal.v, by harness/py2gal.py with the configurations C12_* of
   harness/src_functions.py), for all inputs.  The Screen(...) call of each function is the model's constructor applied
   to the keyword arguments the call site passes (py_screen, end of Model/Reveal.v); that the three call sites pass the
   parent's treatment_mapping and sample_mapping is therefore READ FROM THE SOURCE: the translations equal the model
   variant [carry_mappings true] and no other (source_variant_unique).

   The links are in the pieces Proofs/C12Source_Reveal.v (the three functions), C12Source_Variant.v (C03: which variant the source is),
   C12Source_SetObserved.v (Screen.set_observed), over the auxiliary facts of C12Source_Base.v.  THIS file holds the part the
   constructor link of C01 (Proofs/C01SourceInit.v) is stated with - the two statement runs of Screen.__init__ that decide
   observations / observation_mask, [src_mask_rules] - so that C01 depends on the translations of those two runs only. *)
From Coq Require Import ZArith List Bool Lia Arith.
From Batchie Require Import Lib.Sexp Lib.PyRt Generated.Consts Generated.SrcArithC03 Model.Encode Model.Screen Model.Reveal
  Model.Holdout Generated.SrcReveal Proofs.PyRtLemmas Proofs.C03Base Proofs.C03Screen Proofs.C12Reveal Proofs.C03Frozen Proofs.C03Witness
  Proofs.C12Source_Base.
Import ListNotations.
Open Scope Z_scope.

(* ---------- Screen.__init__: the two statement runs that decide observations / observation_mask ---------- *)
Lemma map_const {A B} (b : B) (l : list A) : map (fun _ => b) l = repeat b (length l).
Proof. induction l as [|a l IH]; cbn [map length repeat]; [reflexivity | now rewrite IH]. Qed.

(* run 1 (None handling): on the arrays a constructor call passes, it yields the observation / mask columns of
   the rows the model's constructor stores ([norm_rows]), or the model's Err 7 *)
Lemma src_init_observations_spec rows (og mg : bool) :
  src_init_observations (if og then Some (map r_obs rows) else None) (if mg then Some (map r_mask rows) else None)
                        (Z.of_nat (length rows))
  = if negb og && mg then Err 7
    else Ok (map r_obs (norm_rows og mg rows), map r_mask (norm_rows og mg rows)).
Proof.
  unfold src_init_observations, norm_rows, np_full. rewrite Nat2Z.id.
  destruct og, mg; cbn [is_none is_some andb negb res_bind]; rewrite ?map_length, ?Z.eqb_refl; cbn [negb res_bind];
    rewrite ?map_map; cbn [r_obs r_mask]; rewrite ?map_const; reflexivity.
Qed.

(* run 2 (per-plate check) *)
Definition plate_rows (p : name) (rows : list row) : list row := filter (fun r => name_eqb (r_plate r) p) rows.
Definition plate_ok (rows : list row) (p : name) : bool :=
  match plate_rows p rows with
  | [] => true
  | r :: rest => forallb (fun r' => Bool.eqb (r_mask r') (r_mask r)) (r :: rest)
  end.

Lemma select_eq_name p rows :
  select (np_eq_name (map r_plate rows) p) (map r_mask rows) = map r_mask (plate_rows p rows).
Proof.
  unfold np_eq_name, plate_rows. induction rows as [|r rows IH]; cbn [map select filter]; [reflexivity|].
  destruct (name_eqb (r_plate r) p); cbn [map]; now rewrite IH.
Qed.

Lemma res_fold_check_in {A : Type} (p : A -> bool) (t : Z) (f : unit -> A -> result unit) l :
  (forall u a, In a l -> f u a = if p a then Ok tt else Err t) ->
  forall u, res_fold f l u = if forallb p l then Ok tt else Err t.
Proof.
  induction l as [|a l IH]; intros H u; cbn [res_fold forallb]; [destruct u; reflexivity|].
  rewrite H by now left. destruct (p a); cbn [res_bind andb]; [|reflexivity].
  apply IH. intros u' a' Ha. apply H. now right.
Qed.

Lemma plate_rows_In p rows r : In r (plate_rows p rows) <-> In r rows /\ r_plate r = p.
Proof. unfold plate_rows. rewrite filter_In, name_eqb_eq. reflexivity. Qed.

Lemma plate_ok_all rows :
  forallb (plate_ok rows) (sort_uniq name_cmp (map r_plate rows)) = plate_uniform rows.
Proof.
  apply eq_true_iff_eq. rewrite forallb_forall, plate_uniform_spec. split.
  - intros H r1 r2 H1 H2 Hp.
    assert (Hin : In (r_plate r1) (sort_uniq name_cmp (map r_plate rows))).
    { apply (In_sort_uniq name_cmp name_cmp_eq). now apply in_map. }
    specialize (H _ Hin). unfold plate_ok in H.
    assert (I1 : In r1 (plate_rows (r_plate r1) rows)) by now apply plate_rows_In.
    assert (I2 : In r2 (plate_rows (r_plate r1) rows)) by (apply plate_rows_In; split; [exact H2 | now symmetry]).
    destruct (plate_rows (r_plate r1) rows) as [|r rest]; [contradiction|].
    rewrite forallb_forall in H. pose proof (H _ I1) as E1. pose proof (H _ I2) as E2.
    apply eqb_prop in E1, E2. congruence.
  - intros H p Hp. unfold plate_ok. destruct (plate_rows p rows) as [|r rest] eqn:E; [reflexivity|].
    apply forallb_forall. intros r' Hr'. apply eqb_true_iff.
    assert (I0 : In r (plate_rows p rows)) by (rewrite E; now left).
    assert (I1 : In r' (plate_rows p rows)) by now rewrite E.
    apply plate_rows_In in I0, I1. apply H; try tauto. destruct I0 as [_ ->], I1 as [_ ->]. reflexivity.
Qed.

Lemma src_init_plate_check_spec rows :
  src_init_plate_check (map r_plate rows) (map r_mask rows) = if plate_uniform rows then Ok tt else Err 2.
Proof.
  unfold src_init_plate_check.
  rewrite (res_fold_check_in (plate_ok rows) 2).
  - rewrite plate_ok_all. destruct (plate_uniform rows); reflexivity.
  - intros u p Hp. apply (proj1 (In_sort_uniq name_cmp name_cmp_eq _ _)) in Hp. cbv zeta. rewrite select_eq_name.
    unfold plate_ok. apply in_map_iff in Hp. destruct Hp as (r0 & Hr0 & Hin).
    assert (I0 : In r0 (plate_rows p rows)) by now apply plate_rows_In.
    destruct (plate_rows p rows) as [|r rest]; [contradiction|].
    change (list_get (map r_mask (r :: rest)) 0) with (Ok (r_mask r) : result bool). cbn [res_bind].
    unfold np_all, np_eq_bool. rewrite map_map, forallb_id_map.
    destruct (forallb _ (r :: rest)); reflexivity.
Qed.

(* both runs on the arrays of a constructor call, and the rows they leave *)
Definition src_mask_rules (rows : list row) (og mg : bool) : result (list row) :=
  dor om <- src_init_observations (if og then Some (map r_obs rows) else None) (if mg then Some (map r_mask rows) else None)
                                  (Z.of_nat (length rows));
  dor _ <- src_init_plate_check (map r_plate rows) (snd om);
  Ok (put_cols rows (fst om) (snd om)).

Lemma put_cols_map (g : row -> row) rows :
  (forall r, with_cols (r_obs (g r)) (r_mask (g r)) r = g r) ->
  put_cols rows (map r_obs (map g rows)) (map r_mask (map g rows)) = map g rows.
Proof. intros H. induction rows as [|r rows IH]; cbn [map put_cols]; [reflexivity | now rewrite IH, H]. Qed.

Lemma put_cols_norm og mg rows :
  put_cols rows (map r_obs (norm_rows og mg rows)) (map r_mask (norm_rows og mg rows)) = norm_rows og mg rows.
Proof.
  unfold norm_rows. destruct og; [destruct mg|]; try (apply put_cols_map; reflexivity).
  rewrite <- (map_id rows) at 2 3 4. apply put_cols_map. apply with_cols_self.
Qed.

(* the model's constructor, for whatever the call passes: refuse ragged rows; run the TRANSLATED mask rules of
   Screen.__init__; then it is the constructor on the rows they leave, with observations and mask given *)
Theorem mk_screen_is_src_mask_rules : forall rows a c tm sm og mg,
  mk_screen rows a c tm sm og mg
  = if negb (arity_ok a rows) then Err 1
    else dor rows' <- src_mask_rules rows og mg; mk_screen rows' a c tm sm true true.
Proof.
  intros rows a c tm sm og mg. rewrite mk_screen_unfold. destruct (arity_ok a rows) eqn:Ea; cbn [negb]; [|reflexivity].
  unfold src_mask_rules. rewrite src_init_observations_spec.
  destruct (negb og && mg); cbn [res_bind fst snd]; [reflexivity|]. cbv zeta.
  rewrite <- (norm_rows_plate og mg rows), src_init_plate_check_spec.
  destruct (plate_uniform (norm_rows og mg rows)) eqn:U; cbn [negb res_bind]; [|reflexivity].
  rewrite put_cols_norm, (mk_screen_unfold (norm_rows og mg rows)).
  rewrite (arity_ok_treats a rows (norm_rows og mg rows)) by apply norm_rows_treats.
  rewrite Ea. cbn [negb andb]. cbv zeta. rewrite norm_rows_tt, U. reflexivity.
Qed.
