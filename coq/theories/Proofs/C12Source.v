(* C12 / C03: the hand-written models of Model/Reveal.v (on Model/Screen.v) equal the translations of
     batchie.retrospective.reveal_plates / mask_screen / unmask_screen
   regenerated from /repo on every run (Generated/SrcReveal.v, by harness/py2gal.py with the configurations C12_* of
   harness/src_functions.py), for all inputs.  The Screen(...) call of each function is the model's constructor applied
   to the keyword arguments the call site passes (py_screen, end of Model/Reveal.v); that the three call sites pass the
   parent's treatment_mapping and sample_mapping is therefore READ FROM THE SOURCE: the translations equal the model
   variant [carry_mappings true] and no other (source_variant_unique). *)
From Coq Require Import ZArith List Bool Lia Arith.
From Batchie Require Import Lib.Sexp Lib.PyRt Generated.Consts Generated.SrcArith Model.Encode Model.Screen Model.Reveal
  Model.Holdout Generated.SrcReveal Proofs.PyRtLemmas Proofs.C03Witness.
Import ListNotations.
Open Scope Z_scope.

(* ---------- lists ---------- *)
Lemma combine_fst_snd {A B} (l : list (A * B)) : combine (map fst l) (map snd l) = l.
Proof. induction l as [|[a b] l IH]; cbn [map combine fst snd]; [reflexivity | now rewrite IH]. Qed.

Lemma select_map {A B} (f : A -> B) sel : forall l, select sel (map f l) = map f (select sel l).
Proof.
  induction sel as [|b sel IH]; intros [|a l]; cbn [select map]; try reflexivity.
  destruct b; cbn [map]; now rewrite IH.
Qed.

Lemma forallb_id_map {A} (f : A -> bool) l : forallb (fun x => x) (map f l) = forallb f l.
Proof. induction l as [|a l IH]; cbn [map forallb]; [reflexivity | now rewrite IH]. Qed.

Lemma existsb_id_map {A} (f : A -> bool) l : existsb (fun x => x) (map f l) = existsb f l.
Proof. induction l as [|a l IH]; cbn [map existsb]; [reflexivity | now rewrite IH]. Qed.

Lemma res_bind_ok_r {A} (x : result A) : (dor r <- x; Ok r) = x.
Proof. destruct x; reflexivity. Qed.

(* ---------- Screen(...) on the columns of a screen ---------- *)
(* the rows of a screen with the mask column replaced *)
Definition remask (rows : list row) (mk : list bool) : list row :=
  map (fun rb => with_mask (snd rb) (fst rb)) (combine rows mk).

Lemma zip_rows_cols rows : forall mk,
  zip_rows (map (fun r => map fst (r_treats r)) rows) (map (fun r => map snd (r_treats r)) rows)
           (map r_sample rows) (map r_plate rows) (map r_obs rows) mk
  = remask rows mk.
Proof.
  unfold remask. induction rows as [|r rows IH]; intros [|b mk]; cbn [map zip_rows combine fst snd]; try reflexivity.
  rewrite IH, combine_fst_snd. reflexivity.
Qed.

Lemma remask_const b rows : remask rows (repeat b (length rows)) = map (with_mask b) rows.
Proof.
  unfold remask. induction rows as [|r rows IH]; cbn [length repeat combine map fst snd]; [reflexivity | now rewrite IH].
Qed.

Lemma remask_or rows : forall sel,
  remask rows (np_or (map r_mask rows) sel)
  = map (fun rb => with_mask (r_mask (fst rb) || snd rb) (fst rb)) (combine rows sel).
Proof.
  unfold remask, np_or. induction rows as [|r rows IH]; intros [|b sel]; cbn [map combine fst snd]; try reflexivity.
  now rewrite IH.
Qed.

(* the call Screen(<the five data columns of s>, observation_mask = mk, control name, both mappings of s) *)
Lemma py_screen_of_screen s mk :
  py_screen (col_tnames s) (col_tdoses s) (col_samples s) (col_plates s) (Some (col_obs s)) (Some mk)
            (Some (s_ctrl s)) (Some (attr_tmap s)) (Some (attr_smap s))
  = rebuild true s (remask (s_rows s) mk).
Proof.
  unfold py_screen, rebuild, col_tnames, col_tdoses, col_samples, col_plates, col_obs, attr_tmap, attr_smap, tmap_arg, smap_arg.
  cbn [fst snd]. now rewrite zip_rows_cols.
Qed.

(* ---------- the three functions ---------- *)
Theorem src_reveal_plates_is_model : forall (s : screen) (ids : list Z),
  src_reveal_plates s ids = reveal_plates (carry_mappings true) s ids.
Proof.
  intros s ids. unfold src_reveal_plates, reveal_plates, revealed_values, reveal_rows, reveal_sel.
  cbn [carry_mappings carry_reveal]. fold (np_isin (s_pids s) ids).
  unfold np_all, np_any, np_eq_zero, np_isnan, col_obs at 1 2. rewrite select_map, forallb_id_map, existsb_id_map.
  destruct (forallb obs_is_zero _); [reflexivity|].
  destruct (existsb obs_is_nan _); [reflexivity|].
  rewrite res_bind_ok_r, py_screen_of_screen. unfold col_mask. now rewrite remask_or.
Qed.

Lemma np_full_size (b : bool) s : np_full b (screen_size s) = repeat b (length (s_rows s)).
Proof. unfold np_full, screen_size. now rewrite Nat2Z.id. Qed.

Theorem src_mask_screen_is_model : forall s : screen, src_mask_screen s = mask_screen (carry_mappings true) s.
Proof.
  intros s. unfold src_mask_screen, mask_screen. cbn [carry_mappings carry_mask].
  now rewrite res_bind_ok_r, py_screen_of_screen, np_full_size, remask_const.
Qed.

Theorem src_unmask_screen_is_model : forall s : screen, src_unmask_screen s = unmask_screen (carry_mappings true) s.
Proof.
  intros s. unfold src_unmask_screen, unmask_screen. cbn [carry_mappings carry_unmask].
  now rewrite res_bind_ok_r, py_screen_of_screen, np_full_size, remask_const.
Qed.
