(* C12 / C03: the hand-written models of Model/Reveal.v (on Model/Screen.v) equal the translations of
     batchie.retrospective.reveal_plates / mask_screen / unmask_screen
   regenerated from /repo on every run (Generated/SrcReveal.v, by harness/py2gal.py with the configurations C12_* of
   harness/src_functions.py), for all inputs.  The Screen(...) call of each function is the model's constructor applied
   to the keyword arguments the call site passes (py_screen, end of Model/Reveal.v); that the three call sites pass the
   parent's treatment_mapping and sample_mapping is therefore READ FROM THE SOURCE: the translations equal the model
   variant [carry_mappings true] and no other (source_variant_unique). *)
From Coq Require Import ZArith List Bool Lia Arith.
From Batchie Require Import Lib.Sexp Lib.PyRt Generated.Consts Generated.SrcArithC03 Model.Encode Model.Screen Model.Reveal
  Model.Holdout Generated.SrcReveal Proofs.PyRtLemmas Proofs.C03Base Proofs.C03Screen Proofs.C12Reveal Proofs.C03Frozen Proofs.C03Witness.
Import ListNotations.
Open Scope Z_scope.

(* ---------- lists ---------- *)
Lemma combine_fst_snd {A B} (l : list (A * B)) : combine (map fst l) (map snd l) = l.
Proof. induction l as [|[a b] l IH]; cbn [map combine fst snd]; [reflexivity | now rewrite IH]. Qed.

Lemma select_map {A B} (f : A -> B) sel : forall l, select sel (map f l) = map f (select sel l).
Proof.
  induction sel as [|b sel IH]; intros [|a l]; cbn [select map]; try reflexivity.
  destruct b; cbn [map]; now rewrite IH.
Qed.

Lemma forallb_id_map {A} (f : A -> bool) l : forallb (fun x => x) (map f l) = forallb f l.
Proof. induction l as [|a l IH]; cbn [map forallb]; [reflexivity | now rewrite IH]. Qed.

Lemma existsb_id_map {A} (f : A -> bool) l : existsb (fun x => x) (map f l) = existsb f l.
Proof. induction l as [|a l IH]; cbn [map existsb]; [reflexivity | now rewrite IH]. Qed.

Lemma res_bind_ok_r {A} (x : result A) : (dor r <- x; Ok r) = x.
Proof. destruct x; reflexivity. Qed.

(* ---------- Screen(...) on the columns of a screen ---------- *)
(* the rows of a screen with the mask column replaced *)
Definition remask (rows : list row) (mk : list bool) : list row :=
  map (fun rb => with_mask (snd rb) (fst rb)) (combine rows mk).

Lemma zip_rows_cols rows : forall mk,
  zip_rows (map (fun r => map fst (r_treats r)) rows) (map (fun r => map snd (r_treats r)) rows)
           (map r_sample rows) (map r_plate rows) (map r_obs rows) mk
  = remask rows mk.
Proof.
  unfold remask. induction rows as [|r rows IH]; intros [|b mk]; cbn [map zip_rows combine fst snd]; try reflexivity.
  rewrite IH, combine_fst_snd. reflexivity.
Qed.

Lemma remask_const b rows : remask rows (repeat b (length rows)) = map (with_mask b) rows.
Proof.
  unfold remask. induction rows as [|r rows IH]; cbn [length repeat combine map fst snd]; [reflexivity | now rewrite IH].
Qed.

Lemma remask_or rows : forall sel,
  remask rows (np_or (map r_mask rows) sel)
  = map (fun rb => with_mask (r_mask (fst rb) || snd rb) (fst rb)) (combine rows sel).
Proof.
  unfold remask, np_or. induction rows as [|r rows IH]; intros [|b sel]; cbn [map combine fst snd]; try reflexivity.
  now rewrite IH.
Qed.

(* the call Screen(<the five data columns of s>, observation_mask = mk, control name, both mappings of s) *)
Lemma py_screen_of_screen s mk :
  py_screen (col_tnames s) (col_tdoses s) (col_samples s) (col_plates s) (Some (col_obs s)) (Some mk)
            (Some (s_ctrl s)) (Some (attr_tmap s)) (Some (attr_smap s))
  = rebuild true s (remask (s_rows s) mk).
Proof.
  unfold py_screen, rebuild, col_tnames, col_tdoses, col_samples, col_plates, col_obs, attr_tmap, attr_smap, tmap_arg, smap_arg.
  cbn [fst snd]. now rewrite zip_rows_cols.
Qed.

(* ---------- the three functions ---------- *)
Theorem src_reveal_plates_is_model : forall (s : screen) (ids : list Z),
  src_reveal_plates s ids = reveal_plates (carry_mappings true) s ids.
Proof.
  intros s ids. unfold src_reveal_plates, reveal_plates, revealed_values, reveal_rows, reveal_sel.
  cbn [carry_mappings carry_reveal]. fold (np_isin (s_pids s) ids).
  unfold np_all, np_any, np_eq_zero, np_isnan, col_obs at 1 2. rewrite select_map, forallb_id_map, existsb_id_map.
  destruct (forallb obs_is_zero _); [reflexivity|].
  destruct (existsb obs_is_nan _); [reflexivity|].
  rewrite res_bind_ok_r, py_screen_of_screen. unfold col_mask. now rewrite remask_or.
Qed.

Lemma np_full_size (b : bool) s : np_full b (screen_size s) = repeat b (length (s_rows s)).
Proof. unfold np_full, screen_size. now rewrite Nat2Z.id. Qed.

Theorem src_mask_screen_is_model : forall s : screen, src_mask_screen s = mask_screen (carry_mappings true) s.
Proof.
  intros s. unfold src_mask_screen, mask_screen. cbn [carry_mappings carry_mask].
  now rewrite res_bind_ok_r, py_screen_of_screen, np_full_size, remask_const.
Qed.

Theorem src_unmask_screen_is_model : forall s : screen, src_unmask_screen s = unmask_screen (carry_mappings true) s.
Proof.
  intros s. unfold src_unmask_screen, unmask_screen. cbn [carry_mappings carry_unmask].
  now rewrite res_bind_ok_r, py_screen_of_screen, np_full_size, remask_const.
Qed.

(* ---------- C03: which variant of the model the source is ---------- *)
(* one operation / a history of the lifecycle as the TRANSLATED source functions perform it
   (save+load is the constructor call of Screen.load_h5, C02's subject, as in the model) *)
Definition src_step (s : screen) (o : op) : result screen :=
  match o with
  | Reveal ids => src_reveal_plates s ids
  | Mask => src_mask_screen s
  | Unmask => src_unmask_screen s
  | SaveLoad => save_load s
  end.
Definition src_history (ops : list op) (s0 : screen) : result screen :=
  fold_left (fun acc o => dor s <- acc; src_step s o) ops (Ok s0).

Theorem src_step_is_model : forall s o, src_step s o = step (carry_mappings true) s o.
Proof.
  intros s [ids| | |]; cbn [src_step step];
    [apply src_reveal_plates_is_model | apply src_mask_screen_is_model | apply src_unmask_screen_is_model | reflexivity].
Qed.

Theorem src_history_is_model : forall ops s0, src_history ops s0 = history (carry_mappings true) ops s0.
Proof.
  intros ops s0. unfold src_history, history. generalize (Ok s0 : result screen).
  induction ops as [|o ops IH]; intros acc; cbn [fold_left]; [reflexivity|].
  rewrite IH. f_equal. destruct acc as [s|t]; cbn [res_bind]; [apply src_step_is_model | reflexivity].
Qed.

(* the two variants of each operation differ on the training half of the C03 witness: the sample ids it gives *)
Definition sids_of (r : result screen) : option (list Z) := match r with Ok s => Some (s_sids s) | Err _ => None end.

(* the translation determines the variant: [carry_mappings true] is the ONLY variant whose model equals the translated
   source on all inputs - and it is the variant the call-site constants of Generated/SrcArithC03.v name *)
Theorem source_variant_unique : forall v,
  (forall s o, src_step s o = step v s o) <->
  v = {| carry_reveal := SRC_reveal_plates_carries_mappings; carry_mask := SRC_mask_screen_carries_mappings;
         carry_unmask := SRC_unmask_screen_carries_mappings |}.
Proof.
  intros v. change (Build_variant _ _ _) with (carry_mappings true). split.
  - intros H. destruct v as [a b c]. unfold carry_mappings.
    assert (Ha : a = true).
    { pose proof (H w_train (Reveal [0])) as E. rewrite src_step_is_model in E. apply (f_equal sids_of) in E.
      destruct a; [reflexivity|]. vm_compute in E. discriminate. }
    assert (Hb : b = true).
    { pose proof (H w_train Mask) as E. rewrite src_step_is_model in E. apply (f_equal sids_of) in E.
      destruct b; [reflexivity|]. vm_compute in E. discriminate. }
    assert (Hc : c = true).
    { pose proof (H w_train Unmask) as E. rewrite src_step_is_model in E. apply (f_equal sids_of) in E.
      destruct c; [reflexivity|]. vm_compute in E. discriminate. }
    now subst.
  - intros -> s o. apply src_step_is_model.
Qed.

(* the lifecycle of the translated source: split (model of the hold-out code, its selection an oracle input), then the
   translated reveal / mask / unmask functions.  Its derived screens keep the parent's mappings and ids. *)
Definition src_lifecycle (p : screen) (sel : list bool) (test : bool) (ops : list op) : result screen :=
  dor pr <- holdout_split p sel; src_history ops (half test pr).

Theorem src_lifecycle_is_model : forall p sel test ops,
  src_lifecycle p sel test ops = lifecycle (carry_mappings true) p sel test ops.
Proof.
  intros p sel test ops. unfold src_lifecycle, lifecycle.
  destruct (holdout_split p sel) as [pr|t]; cbn [res_bind]; [apply src_history_is_model | reflexivity].
Qed.

Theorem ids_frozen_of_source : forall p sel test ops s,
  src_lifecycle p sel test ops = Ok s -> frozen_to p s.
Proof. intros p sel test ops s H. rewrite src_lifecycle_is_model in H. exact (ids_frozen p sel test ops s H). Qed.

(* ---------- Screen.set_observed ---------- *)
Lemma with_cols_self r : with_cols (r_obs r) (r_mask r) r = r.
Proof. destruct r; reflexivity. Qed.

Lemma count_true_cons b sel : count_true (b :: sel) = if b then S (count_true sel) else count_true sel.
Proof. unfold count_true. cbn [filter]. destruct b; reflexivity. Qed.

(* writing the values into the observation column and True into the mask column at the selected positions
   = the model's row-wise [assign] *)
Lemma put_cols_assign : forall sel vs rows,
  length sel = length rows -> length vs = count_true sel ->
  put_cols rows (mask_put sel vs (map r_obs rows)) (mask_put sel (repeat true (count_true sel)) (map r_mask rows))
  = assign sel vs rows.
Proof.
  induction sel as [|b sel IH]; intros vs [|r rows] Hl Hv; cbn [length] in Hl; try discriminate; [reflexivity|].
  rewrite count_true_cons in *. cbn [map mask_put assign]. destruct b.
  - destruct vs as [|v vs]; cbn [length] in Hv; [discriminate|]. cbn [repeat put_cols]. rewrite IH by lia. reflexivity.
  - cbn [put_cols]. rewrite IH by lia. now rewrite with_cols_self.
Qed.

(* the model's set_observed is the translated method run on the screen's two arrays, put back into the screen *)
Theorem set_observed_is_src : forall (s : screen) (sel : list bool) (vals : list Z),
  set_observed s sel vals
  = dor p <- src_set_observed (col_obs s) (col_mask s) sel vals; Ok (set_cols s (fst p) (snd p)).
Proof.
  intros s sel vals. unfold set_observed, src_set_observed, np_mask_assign, np_mask_fill, col_obs, col_mask.
  cbn [negb]. rewrite !map_length.
  destruct (Nat.eqb (length sel) (length (s_rows s))) eqn:El; cbn [negb res_bind]; [|reflexivity].
  apply Nat.eqb_eq in El. cbv zeta.
  destruct (Nat.eqb (length vals) (count_true sel)) eqn:Ek.
  - apply Nat.eqb_eq in Ek. cbn [res_bind fst snd].
    unfold set_cols. now rewrite put_cols_assign.
  - destruct vals as [|x [|y vals]]; cbn [res_bind]; try reflexivity.
    cbn [fst snd].
    unfold set_cols. now rewrite put_cols_assign by (try exact El; apply repeat_length).
Qed.

(* ---------- Screen.__init__: the two statement runs that decide observations / observation_mask ---------- *)
Lemma map_const {A B} (b : B) (l : list A) : map (fun _ => b) l = repeat b (length l).
Proof. induction l as [|a l IH]; cbn [map length repeat]; [reflexivity | now rewrite IH]. Qed.

(* run 1 (None handling): on the arrays a constructor call passes, it yields the observation / mask columns of
   the rows the model's constructor stores ([norm_rows]), or the model's Err 7 *)
Lemma src_init_observations_spec rows (og mg : bool) :
  src_init_observations (if og then Some (map r_obs rows) else None) (if mg then Some (map r_mask rows) else None)
                        (Z.of_nat (length rows))
  = if negb og && mg then Err 7
    else Ok (map r_obs (norm_rows og mg rows), map r_mask (norm_rows og mg rows)).
Proof.
  unfold src_init_observations, norm_rows, np_full. rewrite Nat2Z.id.
  destruct og, mg; cbn [is_none is_some andb negb res_bind]; rewrite ?map_length, ?Z.eqb_refl; cbn [negb res_bind];
    rewrite ?map_map; cbn [r_obs r_mask]; rewrite ?map_const; reflexivity.
Qed.

(* run 2 (per-plate check) *)
Definition plate_rows (p : name) (rows : list row) : list row := filter (fun r => name_eqb (r_plate r) p) rows.
Definition plate_ok (rows : list row) (p : name) : bool :=
  match plate_rows p rows with
  | [] => true
  | r :: rest => forallb (fun r' => Bool.eqb (r_mask r') (r_mask r)) (r :: rest)
  end.

Lemma select_eq_name p rows :
  select (np_eq_name (map r_plate rows) p) (map r_mask rows) = map r_mask (plate_rows p rows).
Proof.
  unfold np_eq_name, plate_rows. induction rows as [|r rows IH]; cbn [map select filter]; [reflexivity|].
  destruct (name_eqb (r_plate r) p); cbn [map]; now rewrite IH.
Qed.

Lemma res_fold_check_in {A : Type} (p : A -> bool) (t : Z) (f : unit -> A -> result unit) l :
  (forall u a, In a l -> f u a = if p a then Ok tt else Err t) ->
  forall u, res_fold f l u = if forallb p l then Ok tt else Err t.
Proof.
  induction l as [|a l IH]; intros H u; cbn [res_fold forallb]; [destruct u; reflexivity|].
  rewrite H by now left. destruct (p a); cbn [res_bind andb]; [|reflexivity].
  apply IH. intros u' a' Ha. apply H. now right.
Qed.

Lemma plate_rows_In p rows r : In r (plate_rows p rows) <-> In r rows /\ r_plate r = p.
Proof. unfold plate_rows. rewrite filter_In, name_eqb_eq. reflexivity. Qed.

Lemma plate_ok_all rows :
  forallb (plate_ok rows) (sort_uniq name_cmp (map r_plate rows)) = plate_uniform rows.
Proof.
  apply eq_true_iff_eq. rewrite forallb_forall, plate_uniform_spec. split.
  - intros H r1 r2 H1 H2 Hp.
    assert (Hin : In (r_plate r1) (sort_uniq name_cmp (map r_plate rows))).
    { apply (In_sort_uniq name_cmp name_cmp_eq). now apply in_map. }
    specialize (H _ Hin). unfold plate_ok in H.
    assert (I1 : In r1 (plate_rows (r_plate r1) rows)) by now apply plate_rows_In.
    assert (I2 : In r2 (plate_rows (r_plate r1) rows)) by (apply plate_rows_In; split; [exact H2 | now symmetry]).
    destruct (plate_rows (r_plate r1) rows) as [|r rest]; [contradiction|].
    rewrite forallb_forall in H. pose proof (H _ I1) as E1. pose proof (H _ I2) as E2.
    apply eqb_prop in E1, E2. congruence.
  - intros H p Hp. unfold plate_ok. destruct (plate_rows p rows) as [|r rest] eqn:E; [reflexivity|].
    apply forallb_forall. intros r' Hr'. apply eqb_true_iff.
    assert (I0 : In r (plate_rows p rows)) by (rewrite E; now left).
    assert (I1 : In r' (plate_rows p rows)) by now rewrite E.
    apply plate_rows_In in I0, I1. apply H; try tauto. destruct I0 as [_ ->], I1 as [_ ->]. reflexivity.
Qed.

Lemma src_init_plate_check_spec rows :
  src_init_plate_check (map r_plate rows) (map r_mask rows) = if plate_uniform rows then Ok tt else Err 2.
Proof.
  unfold src_init_plate_check.
  rewrite (res_fold_check_in (plate_ok rows) 2).
  - rewrite plate_ok_all. destruct (plate_uniform rows); reflexivity.
  - intros u p Hp. apply (proj1 (In_sort_uniq name_cmp name_cmp_eq _ _)) in Hp. cbv zeta. rewrite select_eq_name.
    unfold plate_ok. apply in_map_iff in Hp. destruct Hp as (r0 & Hr0 & Hin).
    assert (I0 : In r0 (plate_rows p rows)) by now apply plate_rows_In.
    destruct (plate_rows p rows) as [|r rest]; [contradiction|].
    change (list_get (map r_mask (r :: rest)) 0) with (Ok (r_mask r) : result bool). cbn [res_bind].
    unfold np_all, np_eq_bool. rewrite map_map, forallb_id_map.
    destruct (forallb _ (r :: rest)); reflexivity.
Qed.

(* both runs on the arrays of a constructor call, and the rows they leave *)
Definition src_mask_rules (rows : list row) (og mg : bool) : result (list row) :=
  dor om <- src_init_observations (if og then Some (map r_obs rows) else None) (if mg then Some (map r_mask rows) else None)
                                  (Z.of_nat (length rows));
  dor _ <- src_init_plate_check (map r_plate rows) (snd om);
  Ok (put_cols rows (fst om) (snd om)).

Lemma put_cols_map (g : row -> row) rows :
  (forall r, with_cols (r_obs (g r)) (r_mask (g r)) r = g r) ->
  put_cols rows (map r_obs (map g rows)) (map r_mask (map g rows)) = map g rows.
Proof. intros H. induction rows as [|r rows IH]; cbn [map put_cols]; [reflexivity | now rewrite IH, H]. Qed.

Lemma put_cols_norm og mg rows :
  put_cols rows (map r_obs (norm_rows og mg rows)) (map r_mask (norm_rows og mg rows)) = norm_rows og mg rows.
Proof.
  unfold norm_rows. destruct og; [destruct mg|]; try (apply put_cols_map; reflexivity).
  rewrite <- (map_id rows) at 2 3 4. apply put_cols_map. apply with_cols_self.
Qed.

(* the model's constructor, for whatever the call passes: refuse ragged rows; run the TRANSLATED mask rules of
   Screen.__init__; then it is the constructor on the rows they leave, with observations and mask given *)
Theorem mk_screen_is_src_mask_rules : forall rows a c tm sm og mg,
  mk_screen rows a c tm sm og mg
  = if negb (arity_ok a rows) then Err 1
    else dor rows' <- src_mask_rules rows og mg; mk_screen rows' a c tm sm true true.
Proof.
  intros rows a c tm sm og mg. rewrite mk_screen_unfold. destruct (arity_ok a rows) eqn:Ea; cbn [negb]; [|reflexivity].
  unfold src_mask_rules. rewrite src_init_observations_spec.
  destruct (negb og && mg); cbn [res_bind fst snd]; [reflexivity|]. cbv zeta.
  rewrite <- (norm_rows_plate og mg rows), src_init_plate_check_spec.
  destruct (plate_uniform (norm_rows og mg rows)) eqn:U; cbn [negb res_bind]; [|reflexivity].
  rewrite put_cols_norm, (mk_screen_unfold (norm_rows og mg rows)).
  rewrite (arity_ok_treats a rows (norm_rows og mg rows)) by apply norm_rows_treats.
  rewrite Ea. cbn [negb andb]. cbv zeta. rewrite norm_rows_tt, U. reflexivity.
Qed.

(* ---------- the arrays of one screen are aligned ---------- *)
Lemma source_arrays_aligned s ids :
  plates_encoded s ->
  length (np_isin (s_pids s) ids) = length (s_rows s) /\ length (col_obs s) = length (s_rows s) /\
  length (col_mask s) = length (s_rows s) /\ length (np_or (col_mask s) (np_isin (s_pids s) ids)) = length (s_rows s).
Proof.
  intros H. apply plates_encoded_length in H. unfold np_isin, col_obs, col_mask, np_or.
  rewrite !map_length, combine_length, !map_length, H. repeat split; try reflexivity. apply Nat.min_id.
Qed.
