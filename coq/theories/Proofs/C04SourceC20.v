(* The translation of batchie.data.create_single_treatment_effect_map (Generated/SrcTrain.v, generic in the type of an
   observation value) at exact rationals equals C20's column-level model Synergy.effect_map on every n x arity id
   array with two 1-d arrays of n entries.  (C20's model also covers misaligned arrays - numpy's IndexError - which
   the translation's mask primitive `select` does not represent; and it tags the arity ValueError 1, the C04 models 4.) *)
From Coq Require Import ZArith List Bool Lia Arith QArith Qcanon.
From Batchie Require Import Lib.Sexp Lib.Num Lib.PyRt Generated.Consts Model.Encode Model.Train Generated.SrcTrain
  Proofs.PyRtLemmas Proofs.C01Sort Proofs.C04Source.
From Batchie Require Model.Metrics Model.Synergy.
Import ListNotations.
Open Scope Z_scope.

Lemma zinsert_insert_uniq x l : Metrics.zinsert x l = insert_uniq Z.compare x l.
Proof.
  induction l as [|y l IH]; cbn [Metrics.zinsert insert_uniq]; [reflexivity|].
  destruct (Z.compare_spec x y) as [E|L|G].
  - subst. rewrite Z.ltb_irrefl, Z.eqb_refl. reflexivity.
  - apply Z.ltb_lt in L. now rewrite L.
  - destruct (Z.ltb_spec x y); [lia|]. destruct (Z.eqb_spec x y); [lia|]. now rewrite IH.
Qed.

Lemma sorted_unique_sort_uniq l : Metrics.sorted_unique l = sort_uniq Z.compare l.
Proof.
  unfold Metrics.sorted_unique, sort_uniq. induction l as [|x l IH]; cbn [fold_right]; [reflexivity|].
  now rewrite IH, zinsert_insert_uniq.
Qed.

Lemma metrics_select {A} (m : list bool) : forall l : list A, Metrics.select m l = select m l.
Proof.
  unfold Metrics.select. induction m as [|b m IH]; intros [|a l]; cbn [combine filter map select]; try reflexivity.
  destruct b; cbn [fst map snd]; now rewrite IH.
Qed.

Lemma max_fold_shift r : forall b c, Z.max c (fold_right Z.max b r) = fold_right Z.max (Z.max c b) r.
Proof. induction r as [|y r IH]; intros b c; cbn [fold_right]; [reflexivity|]. rewrite <- IH. lia. Qed.

Lemma fold_left_max r : forall a, fold_left Z.max r a = Z.max a (fold_right Z.max a r).
Proof.
  induction r as [|y r IH]; intros a; cbn [fold_left fold_right]; [lia|].
  rewrite IH, !max_fold_shift. f_equal. lia.
Qed.

Lemma row_max_zmax row : row <> [] -> Synergy.row_max row = zmax_list row.
Proof.
  destruct row as [|x r]; [congruence|]. intros _. unfold Synergy.row_max, zmax_list. cbn [hd fold_right].
  apply fold_left_max.
Qed.

Lemma single_mask_cols arity tids : (2 <= arity)%nat ->
  eq_vec (ctrl_counts tids) (Z.of_nat arity - 1) = Synergy.single_mask arity tids.
Proof.
  intros Ha. unfold eq_vec, ctrl_counts, Synergy.single_mask. rewrite map_map. apply map_ext. intros row.
  assert (E : count_ctrl row = Synergy.n_control row).
  { unfold count_ctrl, Synergy.n_control. f_equal. apply filter_ext. intros t. unfold Synergy.is_control. apply Z.eqb_sym. }
  rewrite E. destruct (Nat.eqb_spec (Synergy.n_control row) (arity - 1)); [apply Z.eqb_eq | apply Z.eqb_neq]; lia.
Qed.

Lemma and_vec_combine (a b : list Z) s t :
  and_vec (eq_vec a t) (eq_vec b s) = map (fun ts => (fst ts =? t) && (snd ts =? s)) (combine a b).
Proof.
  unfold eq_vec. revert b. induction a as [|x a IH]; intros [|y b]; cbn [map and_vec combine fst snd]; try reflexivity.
  now rewrite IH.
Qed.

Lemma select_In {A} (m : list bool) : forall (l : list A) x, In x (select m l) -> In x l.
Proof.
  induction m as [|b m IH]; intros [|a l] x H; cbn [select] in H; try contradiction.
  destruct b; [destruct H as [<-|H]; [now left|]|]; right; now apply IH.
Qed.

Theorem src_single_effect_map_is_c20_model : forall (arity : nat) (sids : list Z) (tids : list (list Z)) (obs : list Qc),
  Forall (fun row => length row = arity) tids -> length sids = length tids -> length obs = length tids ->
  src_create_single_treatment_effect_map Qc 1%Qc qmean arity sids tids obs
  = if Nat.ltb arity 2 then Err 4 else Synergy.effect_map arity sids tids obs.
Proof.
  intros arity sids tids obs Hrect Hs Ho. unfold src_create_single_treatment_effect_map, Synergy.effect_map.
  destruct (Nat.ltb_spec arity 2) as [Ha|Ha].
  - destruct (Z.ltb_spec (Z.of_nat arity) 2); [reflexivity | lia].
  - destruct (Z.ltb_spec (Z.of_nat arity) 2); [lia|].
    rewrite Ho, Hs, Nat.eqb_refl. cbn [negb orb]. cbv zeta.
    rewrite single_mask_cols by exact Ha. rewrite !metrics_select, !sorted_unique_sort_uniq.
    set (mask := Synergy.single_mask arity tids).
    assert (Hmax : row_maxima (select mask tids) = map Synergy.row_max (select mask tids)).
    { unfold row_maxima. apply map_ext_in. intros row Hrow. symmetry. apply row_max_zmax.
      apply select_In in Hrow. rewrite Forall_forall in Hrect. specialize (Hrect _ Hrow). intros ->. cbn in Hrect. lia. }
    rewrite Hmax.
    set (strt := map Synergy.row_max (select mask tids)). set (ssid := select mask sids). set (sobs := select mask obs).
    set (ev := fun s t : Z =>
      if Synergy.is_control t then Some 1%Qc
      else let m := map (fun ts => (fst ts =? t) && (snd ts =? s)) (combine strt ssid) in
           if existsb (fun b => b) m then Some (qmean (select m sobs)) else None).
    rewrite (sem_outer_loop (fun s => flat_map (fun t => match ev s t with Some v => [((s, t), v)] | None => [] end)
                                               (sort_uniq Z.compare (concat tids)))).
    + cbn [res_bind app]. f_equal. apply flat_map_ext. intros s. apply flat_map_ext. intros t. unfold ev.
      destruct (Synergy.is_control t); [reflexivity|]. cbv zeta. rewrite metrics_select.
      destruct (existsb (fun b => b) _); reflexivity.
    + intros s. apply Forall_forall. intros kv Hkv. apply in_flat_map in Hkv. destruct Hkv as (t & _ & Hkv).
      destruct (ev s t); [|contradiction]. destruct Hkv as [<-|[]]. reflexivity.
    + intros res s Hres. rewrite (sem_inner_loop (ev s) s).
      * reflexivity.
      * intros res' t. unfold ev, Synergy.is_control, Synergy.CONTROL.
        change (t =? CONTROL_SENTINEL_VALUE) with (t =? -1).
        destruct (t =? -1); [reflexivity|]. cbv zeta. rewrite and_vec_combine. unfold any_true.
        destruct (existsb (fun b => b) _); reflexivity.
      * apply (sort_uniq_NoDup Z.compare Zcmp_spec).
      * eapply Forall_impl; [|exact Hres]. cbn beta. intros kv Hk E. contradiction.
    + apply (sort_uniq_NoDup Z.compare Zcmp_spec).
    + constructor.
Qed.
