(* C17, "sampling resets the model" on the real sampler object: what the reset_model that sample() calls DOES.
   `src_impl_reset_model` is the Gallina translation of the whole method LegacySparseDrugComboImpl.reset_model, regenerated from
   /repo's current source on every run (configuration C08_IMPL_RESET -> Generated/SrcGibbsObj.v); `init_st g` is the parameter
   state __init__ creates (C08_model_is_source_init), `reset_st` the hand-written model of the reset.
   This file depends on that ONE translated function only (failure isolation: it does not import the C08 block links). *)
From Coq Require Import ZArith List QArith Qcanon Lia Bool.
From Batchie Require Import Lib.Sexp Lib.PyRt Lib.Num Model.Gibbs Generated.SrcGibbsObj.
Import ListNotations.
Open Scope Qc_scope.

Ltac c17_obj_red := cbv beta iota zeta delta [W W0 V2 V1 V0 alpha prec tau tau0 phi2 phi1 phi0 eta2 eta1 eta0 gam Mu set_W set_W0 set_V2 set_V1 set_V0 set_alpha set_prec set_tau set_tau0 set_phi2 set_phi1 set_phi0 set_eta2 set_eta1 set_eta0 set_gam set_Mu pi_D pi_ndd pi_ncl pi_minMu pi_maxMu pi_a0 pi_b0 pi_individual_eff pi_intercept pi_fake_intercept pi_local_shrinkage pi_mult_gamma_proc pi_steps pi_obs pi_st set_pi_st pi_set_W pi_set_W0 pi_set_V2 pi_set_V1 pi_set_V0 pi_set_alpha pi_set_prec pi_set_Mu].

Lemma c17_mul0_vec (l : list Qc) : np_vmuls l q0 = map (fun _ => 0) l.
Proof. unfold np_vmuls, q0. apply map_ext. intros y. ring. Qed.
Lemma c17_mul0_mat (M : list (list Qc)) : np_mmuls M q0 = map (map (fun _ => 0)) M.
Proof. unfold np_mmuls. apply map_ext. intros r. apply c17_mul0_vec. Qed.

(* the translated method IS the model reset: W, W0, V2, V1, V0 times 0.0, alpha = 0.0, prec = 100.0, Mu = np.zeros(0); no
   other attribute of the object is assigned *)
Theorem c17_real_reset_is_source o : src_impl_reset_model o = Ok (set_pi_st o (reset_st (pi_st o))).
Proof.
  cbv beta delta [src_impl_reset_model]. c17_obj_red. unfold np_zeros1. cbn [Z.ltb Z.compare Z.to_nat res_bind repeat].
  unfold reset_st. c17_obj_red. rewrite !c17_mul0_vec, !c17_mul0_mat. reflexivity.
Qed.

Lemma c17_map_const_repeat {A} (x : Qc) (l : list A) : map (fun _ => x) l = repeat x (length l).
Proof. induction l as [|a l IH]; cbn [map length repeat]; [reflexivity | now rewrite IH]. Qed.

Lemma c17_zero_rows (M : list (list Qc)) D :
  (forall i, (i < length M)%nat -> length (rnth M i) = D) -> map (map (fun _ => 0)) M = repeat (repeat 0 D) (length M).
Proof.
  induction M as [|r M IH]; intros H; cbn [map length repeat]; [reflexivity|].
  rewrite IH.
  - f_equal. rewrite c17_map_const_repeat. f_equal. apply (H 0%nat). cbn [length]. lia.
  - intros i Hi. apply (H (S i)). cbn [length]. lia.
Qed.

Lemma c17_zero_mat (M : list (list Qc)) n D : shape2 M n D -> map (map (fun _ => 0)) M = repeat (repeat 0 D) n.
Proof. intros [Hn Hr]. subst n. now apply c17_zero_rows. Qed.

(* what IS restored: on a state with the shapes __init__ allocates, the embeddings, the intercept, the observation precision and
   the cache are those of the constructed state *)
Theorem c17_real_reset_restores_embeddings g s : shapes g s ->
  W (reset_st s) = W (init_st g) /\ W0 (reset_st s) = W0 (init_st g) /\ V2 (reset_st s) = V2 (init_st g) /\
  V1 (reset_st s) = V1 (init_st g) /\ V0 (reset_st s) = V0 (init_st g) /\ alpha (reset_st s) = alpha (init_st g) /\
  prec (reset_st s) = prec (init_st g) /\ Mu (reset_st s) = Mu (init_st g).
Proof.
  destruct s as [sW sW0 sV2 sV1 sV0 sal spr sta sta0 sp2 sp1 sp0 se2 se1 se0 sga sMu]. unfold shapes.
  cbn [W W0 V2 V1 V0 tau phi2 phi1 phi0 eta2 eta1 gam].
  intros (HW & HW0 & HV2 & HV1 & HV0 & _). unfold reset_st, init_st. c17_obj_red.
  rewrite (c17_zero_mat _ _ _ HW), (c17_zero_mat _ _ _ HV2), (c17_zero_mat _ _ _ HV1), !c17_map_const_repeat, HW0, HV0.
  repeat split; reflexivity.
Qed.

(* what is NOT: the horseshoe / gamma-process precisions and the step counter keep whatever the previous chain left *)
Theorem c17_real_reset_keeps_precisions o o' : src_impl_reset_model o = Ok o' ->
  tau (pi_st o') = tau (pi_st o) /\ tau0 (pi_st o') = tau0 (pi_st o) /\
  phi2 (pi_st o') = phi2 (pi_st o) /\ phi1 (pi_st o') = phi1 (pi_st o) /\ phi0 (pi_st o') = phi0 (pi_st o) /\
  eta2 (pi_st o') = eta2 (pi_st o) /\ eta1 (pi_st o') = eta1 (pi_st o) /\ eta0 (pi_st o') = eta0 (pi_st o) /\
  gam (pi_st o') = gam (pi_st o) /\ pi_steps o' = pi_steps o.
Proof.
  rewrite c17_real_reset_is_source. intros H. injection H as <-. unfold reset_st. c17_obj_red. repeat split; reflexivity.
Qed.

(* hence the reset state is the constructed one exactly when those precisions already have their initial values *)
Theorem c17_real_reset_restores_iff g s : shapes g s ->
  (reset_st s = init_st g <->
   tau s = tau (init_st g) /\ tau0 s = tau0 (init_st g) /\ phi2 s = phi2 (init_st g) /\ phi1 s = phi1 (init_st g) /\
   phi0 s = phi0 (init_st g) /\ eta2 s = eta2 (init_st g) /\ eta1 s = eta1 (init_st g) /\ eta0 s = eta0 (init_st g) /\
   gam s = gam (init_st g)).
Proof.
  intros Hs. destruct (c17_real_reset_restores_embeddings g s Hs) as (E1 & E2 & E3 & E4 & E5 & E6 & E7 & E8). split.
  - intros H. rewrite <- H. unfold reset_st. c17_obj_red. repeat split; reflexivity.
  - intros (T1 & T2 & T3 & T4 & T5 & T6 & T7 & T8 & T9).
    assert (K : forall a b : st, W a = W b -> W0 a = W0 b -> V2 a = V2 b -> V1 a = V1 b -> V0 a = V0 b -> alpha a = alpha b ->
                prec a = prec b -> tau a = tau b -> tau0 a = tau0 b -> phi2 a = phi2 b -> phi1 a = phi1 b -> phi0 a = phi0 b ->
                eta2 a = eta2 b -> eta1 a = eta1 b -> eta0 a = eta0 b -> gam a = gam b -> Mu a = Mu b -> a = b).
    { intros [] []; cbn; intros; subst; reflexivity. }
    apply K; try assumption; unfold reset_st; c17_obj_red; assumption.
Qed.

(* REFUTED: "reset_model restores the constructed parameter state" - a well-shaped state (one cell line, one drug-dose, one
   dimension; only tau0 moved, as the first _prec_W0_step does) whose reset is not the constructed state *)
Definition c17_g1 : cfg := {| c_D := 1; c_ndd := 1; c_ncl := 1; c_a0 := 1; c_b0 := 1; c_minMu := 0; c_maxMu := 1 |}.
Theorem c17_real_reset_restores_refuted : exists g s, shapes g s /\ reset_st s <> init_st g.
Proof.
  exists c17_g1, (set_tau0 (init_st c17_g1) 1). split.
  - unfold shapes, shape2. cbn. repeat split; try reflexivity; intros i Hi; assert (i = 0%nat) as -> by lia; reflexivity.
  - intros H. apply (f_equal tau0) in H. apply (f_equal this) in H. vm_compute in H. discriminate H.
Qed.
