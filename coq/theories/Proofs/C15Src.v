(* C15: the hand-written unranking model equals, loop by loop, the Gallina translation of the
   source's loop bodies and conditions (Generated/SrcArithC15.v, regenerated from /repo on every run). *)
From Coq Require Import ZArith List Lia.
From Batchie Require Import Lib.Sexp Model.Unrank Generated.SrcArithC15.
Import ListNotations.
Open Scope Z_scope.

Lemma init_nck_is_source n k :
  init_nck n k = fold_left (fun acc i => src_init_body acc (n - Z.of_nat i + 1) (Z.of_nat i)) (seq 1 k) 1.
Proof. reflexivity. Qed.

(* one iteration of the while loop: test, body, then the division-by-zero guard the model adds *)
Lemma unrank_inner_is_source f index k cur nck n :
  unrank_inner (S f) index k cur nck n =
  if src_inner_cond cur nck index then
    let '(cur', nck', n') := src_inner_body cur nck n k in
    if n' =? 0 then Err 8 else unrank_inner f index k cur' nck' n'
  else Ok (cur, nck, n).
Proof. reflexivity. Qed.

Lemma unrank_inner_exit index k cur nck n :
  unrank_inner 0 index k cur nck n = if src_inner_cond cur nck index then Err 9 else Ok (cur, nck, n).
Proof. reflexivity. Qed.

(* one iteration of the for loop over k *)
Lemma unrank_outer_is_source index k ks cur nck n :
  unrank_outer index (k :: ks) cur nck n =
  if n =? 0 then Err 8
  else
    dor st <- unrank_inner (S (Z.to_nat n)) index k cur (src_outer_pre nck k n) n;
    let '(cur, nck, n) := st in
    let n := src_outer_post n in
    dor rest <- unrank_outer index ks cur nck n;
    Ok (n :: rest).
Proof. reflexivity. Qed.
