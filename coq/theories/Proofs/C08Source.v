(* C08: the hand-written sampler of Model/Gibbs.v equals the translations of the methods of
     batchie.models.sparse_combo.LegacySparseDrugComboImpl
   regenerated from /repo on every run (Generated/SrcGibbs.v, by harness/py2gal.py with the configurations C08_* of
   harness/src_functions.py).  A translated method is a program in the free monad [gprog] over the model's draws;
   [to_prog] reads it as a model program and the links are stated with [prog_eq]: the same draw arguments at every
   node and, for every drawn value, equal continuations (equality of programs up to the extensionality of their
   continuations; no axiom).  [prog_eq_run]: such programs answer every stream of drawn values alike. *)
From Coq Require Import ZArith List QArith Qcanon Lia ZifyBool Arith Bool.
From Batchie Require Import Lib.Sexp Lib.PyRt Lib.Num Model.Gibbs Generated.SrcGibbs Proofs.C08Sums.
Import ListNotations.
Open Scope Qc_scope.

(* ---------------------------------------------------------------- programs up to extensionality *)
Lemma prog_eq_refl p : prog_eq p p.
Proof. induction p as [s|dr k IH]; constructor; assumption. Qed.

Lemma prog_eq_sym p q : prog_eq p q -> prog_eq q p.
Proof. induction 1 as [s|dr k1 k2 _ IH]; constructor; assumption. Qed.

Lemma prog_eq_trans p q r : prog_eq p q -> prog_eq q r -> prog_eq p r.
Proof.
  intros H; revert r. induction H as [s|dr k1 k2 _ IH]; intros r Hr; [exact Hr|].
  inversion Hr as [|dr' k2' k3 Hk]; subst. constructor. intros v. apply IH, Hk.
Qed.

Lemma geq_refl {T} (p : gprog T) : geq p p.
Proof. induction p as [x|dr k IH]; constructor; assumption. Qed.

Lemma geq_trans {T} (p q r : gprog T) : geq p q -> geq q r -> geq p r.
Proof.
  intros H; revert r. induction H as [x|dr k1 k2 _ IH]; intros r Hr; [exact Hr|].
  inversion Hr as [|dr' k2' k3 Hk]; subst. constructor. intros v. apply IH, Hk.
Qed.

Lemma geq_sym {T} (p q : gprog T) : geq p q -> geq q p.
Proof. induction 1 as [x|dr k1 k2 _ IH]; constructor; assumption. Qed.

Lemma geq_of_eq {T} (p q : gprog T) : p = q -> geq p q.
Proof. intros ->. apply geq_refl. Qed.

Lemma prog_eq_of_eq p q : p = q -> prog_eq p q.
Proof. intros ->. apply prog_eq_refl. Qed.

(* bind is a congruence *)
Lemma gbind_cong {A B} (p p' : gprog A) (f f' : A -> gprog B) :
  geq p p' -> (forall x, geq (f x) (f' x)) -> geq (gbind p f) (gbind p' f').
Proof.
  intros H Hf. induction H as [x|dr k1 k2 _ IH]; cbn [gbind]; [apply Hf|].
  constructor. intros v. apply IH.
Qed.

Lemma bind_cong p p' f f' :
  prog_eq p p' -> (forall s, prog_eq (f s) (f' s)) -> prog_eq (bind p f) (bind p' f').
Proof.
  intros H Hf. induction H as [s|dr k1 k2 _ IH]; cbn [bind]; [apply Hf|].
  constructor. intros v. apply IH.
Qed.

Lemma bind_assoc p f h : prog_eq (bind (bind p f) h) (bind p (fun s => bind (f s) h)).
Proof. induction p as [s|dr k IH]; cbn [bind]; [apply prog_eq_refl|]. constructor. intros v. apply IH. Qed.

Lemma gbind_assoc {A B C} (p : gprog A) (f : A -> gprog B) (h : B -> gprog C) :
  geq (gbind (gbind p f) h) (gbind p (fun x => gbind (f x) h)).
Proof. induction p as [x|dr k IH]; cbn [gbind]; [apply geq_refl|]. constructor. intros v. apply IH. Qed.

Lemma gbind_ret {A} (p : gprog A) : geq (gbind p (fun x => GRet x)) p.
Proof. induction p as [x|dr k IH]; cbn [gbind]; constructor. assumption. Qed.

Lemma prog_fold_cong {S A} (f f' : S -> A -> gprog S) :
  (forall s a, geq (f s a) (f' s a)) -> forall l s, geq (prog_fold f l s) (prog_fold f' l s).
Proof.
  intros H l; induction l as [|a l IH]; intros s; cbn [prog_fold]; [apply geq_refl|].
  apply gbind_cong; [apply H | intros x; apply IH].
Qed.

(* reading a translated program as a model program *)
Lemma to_prog_geq p q : geq p q -> prog_eq (to_prog p) (to_prog q).
Proof. induction 1 as [x|dr k1 k2 _ IH]; cbn [to_prog]; constructor; assumption. Qed.

Lemma to_prog_gbind (p : gprog st) f :
  prog_eq (to_prog (gbind p f)) (bind (to_prog p) (fun s => to_prog (f s))).
Proof. induction p as [x|dr k IH]; cbn [gbind to_prog bind]; [apply prog_eq_refl|]. constructor. intros v. apply IH. Qed.

Lemma to_of_prog p : prog_eq (to_prog (of_prog p)) p.
Proof. induction p as [s|dr k IH]; cbn [of_prog to_prog]; constructor; assumption. Qed.

(* equal programs answer every stream of drawn values alike: the same list of draw arguments, the same final state *)
Lemma prog_eq_run p q : prog_eq p q -> forall vals, run_prog p vals = run_prog q vals.
Proof.
  induction 1 as [s|dr k1 k2 _ IH]; intros vals; [reflexivity|].
  cbn [run_prog]. destruct vals as [|v r]; [reflexivity|]. now rewrite IH.
Qed.

(* ---------------------------------------------------------------- small facts about the numeric vocabulary *)
Lemma qofZ_add a b : qofZ (a + b) = qofZ a + qofZ b.
Proof.
  unfold qofZ. apply Qc_is_canon. unfold Qcplus. cbn [this Q2Qc].
  rewrite !Qred_correct, inject_Z_plus. reflexivity.
Qed.

Lemma qofZ_1 : qofZ 1 = 1.
Proof. apply Qc_is_canon. reflexivity. Qed.

Lemma Qcinv_inv (x : Qc) : / / x = x.
Proof. apply Qc_is_canon. unfold Qcinv. cbn [this Q2Qc]. rewrite !Qred_correct. apply Qinv_involutive. Qed.

Lemma one_div (x : Qc) : 1 / x = / x.
Proof. unfold Qcdiv. ring. Qed.

Lemma inv_one_div (x : Qc) : / (1 / x) = x.
Proof. rewrite one_div. apply Qcinv_inv. Qed.

Lemma qofZ_succ n : qofZ (1 + Z.of_nat n) = 1 + qnat n.
Proof. rewrite qofZ_add, qofZ_1. reflexivity. Qed.

(* elementwise operators on arrays of equal length, by position *)
Lemma zipw_nth {A B C} (f : A -> B -> C) (da : A) (db : B) : forall a b,
  length a = length b -> zipw f a b = map (fun i => f (nth i a da) (nth i b db)) (seq 0 (length a)).
Proof.
  induction a as [|x a IH]; intros [|y b] H; try discriminate; [reflexivity|].
  cbn [zipw length seq map nth]. f_equal. rewrite <- seq_shift, map_map. apply IH. now injection H.
Qed.

Lemma zipw_map {X A B C} (f : A -> B -> C) (ga : X -> A) (gb : X -> B) l :
  zipw f (map ga l) (map gb l) = map (fun x => f (ga x) (gb x)) l.
Proof. induction l as [|x l IH]; cbn [map zipw]; [reflexivity | now rewrite IH]. Qed.

(* ---------------------------------------------------------------- n_obs *)
Theorem src_n_obs_is_model d : src_n_obs d = GRet (Z.of_nat (nobs d)).
Proof. reflexivity. Qed.

(* ---------------------------------------------------------------- mcmc_step: the order of the block calls *)
(* the sweep for an arbitrary behaviour [step] of the block methods *)
Fixpoint run_right (step : blk -> st -> prog) (bs : list blk) (s : st) : prog :=
  match bs with [] => Ret s | b :: r => bind (step b s) (run_right step r) end.

Lemma bind_ret_r p : prog_eq (bind p Ret) p.
Proof. induction p as [s|dr k IH]; cbn [bind]; constructor. assumption. Qed.

Lemma fold_bind_right step bs : forall p,
  prog_eq (fold_left (fun p b => bind p (step b)) bs p) (bind p (run_right step bs)).
Proof.
  induction bs as [|b r IH]; intros p; cbn [fold_left run_right].
  - apply prog_eq_sym, bind_ret_r.
  - eapply prog_eq_trans; [apply IH|]. apply bind_assoc.
Qed.

Lemma run_blocks_with_right step bs s : prog_eq (run_blocks_with step bs s) (run_right step bs s).
Proof. unfold run_blocks_with. eapply prog_eq_trans; [apply fold_bind_right|]. cbn [bind]. apply prog_eq_refl. Qed.

Lemma run_right_cong step step' bs : (forall b s, prog_eq (step b s) (step' b s)) ->
  forall s, prog_eq (run_right step bs s) (run_right step' bs s).
Proof.
  intros H. induction bs as [|b r IH]; intros s; cbn [run_right]; [apply prog_eq_refl|].
  apply bind_cong; [apply H | apply IH].
Qed.

Ltac step_bind := eapply prog_eq_trans; [apply to_prog_gbind|]; apply bind_cong; [apply prog_eq_refl | intros ?].

(* whatever the block methods do, mcmc_step calls them once each in the model's order, threading the state *)
Theorem src_mcmc_step_order (run : blk -> st -> gprog st) n s :
  prog_eq (to_prog (src_mcmc_step run n s)) (run_blocks_with (fun b s' => to_prog (run b s')) step_order s).
Proof.
  eapply prog_eq_trans; [|apply prog_eq_sym, run_blocks_with_right].
  unfold src_mcmc_step, step_order. cbn [run_right].
  do 12 step_bind.
  eapply prog_eq_trans; [apply to_prog_gbind|]. apply bind_cong; [apply prog_eq_refl | intros ?]. cbn [to_prog].
  apply prog_eq_refl.
Qed.

(* ... hence with block methods that behave as the model's step functions it is the model's sweep *)
Theorem src_mcmc_step_is_model g d orc (run : blk -> st -> gprog st) n s :
  (forall b s', prog_eq (to_prog (run b s')) (step_prog g d orc b s')) ->
  prog_eq (to_prog (src_mcmc_step run n s)) (mcmc_step g d orc s).
Proof.
  intros H. eapply prog_eq_trans; [apply src_mcmc_step_order|].
  eapply prog_eq_trans; [apply run_blocks_with_right|].
  eapply prog_eq_trans; [apply run_right_cong, H|].
  apply prog_eq_sym. apply (run_blocks_with_right (step_prog g d orc)).
Qed.

(* ---------------------------------------------------------------- _alpha_step (default option: fake_intercept) *)
Lemma of_nat_eqb0 n : (Z.of_nat n =? 0)%Z = match n with O => true | S _ => false end.
Proof. destruct n; reflexivity. Qed.

Theorem src_alpha_step_is_model g d s :
  src_alpha_step g d true s = GRet (alpha_step d s).
Proof.
  unfold src_alpha_step, alpha_step. rewrite src_n_obs_is_model. cbn [gbind]. rewrite of_nat_eqb0.
  destruct (nobs d); reflexivity.
Qed.

(* ---------------------------------------------------------------- _prec_obs_step, _prec_W0_step *)
Lemma sse_is_model d (M : list Qc) : length M = nobs d ->
  qsum (np_square (np_vsub (d_y d) M)) = sumn (nobs d) (fun i => qsq (yi d i - vnth M i)).
Proof.
  intros H. unfold np_square, np_vsub, sumn, yi, vnth, nobs in *.
  rewrite (zipw_nth Qcminus 0 0) by now symmetry. now rewrite map_map.
Qed.

Lemma clip_is_model orc n x : np_clip_isq orc x (inv_sqrt (Sqrt (qofZ (1 + Z.of_nat n)))) prec_hi = clipC orc n x.
Proof. unfold np_clip_isq, clipC, clip_lo. cbn [inv_sqrt isq_value]. now rewrite qofZ_succ. Qed.

Theorem src_prec_obs_step_is_model g d orc s : length (Mu s) = nobs d ->
  prog_eq (to_prog (src_prec_obs_step g d orc s)) (prog_prec_obs g d orc s).
Proof.
  intros HMu. unfold src_prec_obs_step, prog_prec_obs. rewrite !src_n_obs_is_model. cbn [gbind]. rewrite of_nat_eqb0.
  pose proof (sse_is_model d (Mu s) HMu) as Hsse.
  destruct (nobs d) as [|n] eqn:En.
  - unfold draw_gamma, qdiv, q1. cbn [gbind to_prog]. rewrite inv_one_div. apply prog_eq_refl.
  - rewrite <- En in *. unfold draw_gamma, qdiv, qadd, qmul, q1. cbn [gbind to_prog prec set_prec].
    rewrite inv_one_div, Hsse. constructor. intros v. rewrite clip_is_model. apply prog_eq_refl.
Qed.

Theorem src_prec_W0_step_is_model g d orc s :
  prog_eq (to_prog (src_prec_W0_step g d orc s)) (prog_prec_W0 g d orc s).
Proof.
  unfold src_prec_W0_step, prog_prec_W0. rewrite !src_n_obs_is_model.
  unfold draw_gamma, qdiv, qadd, qmul, q1. cbn [gbind to_prog tau0 set_tau0].
  rewrite inv_one_div. constructor. intros v. rewrite clip_is_model. apply prog_eq_refl.
Qed.

(* ---------------------------------------------------------------- get(attr, ix) *)
Lemma filter_seq_S (q : nat -> bool) n :
  filter q (seq 0 (S n)) = (if q O then [O] else []) ++ map S (filter (fun i => q (S i)) (seq 0 n)).
Proof.
  cbn [seq filter]. rewrite <- seq_shift.
  assert (H : forall l, filter q (map S l) = map S (filter (fun i => q (S i)) l)).
  { induction l as [|a l IH]; cbn [map filter]; [reflexivity|]. destruct (q (S a)); cbn [map]; now rewrite IH. }
  rewrite H. destruct (q O); reflexivity.
Qed.

Lemma zero_at_shift {A} (z x : A) pos : forall a, np_zero_at z (x :: a) (map S pos) = x :: np_zero_at z a pos.
Proof. unfold np_zero_at. induction pos as [|i pos IH]; intros a; cbn [map fold_left set_nth]; [reflexivity | apply IH]. Qed.

Lemma zero_at_where {X A} (z : A) (f : X -> A) (p : X -> bool) (l : list X) :
  np_zero_at z (map f l) (np_where (map p l)) = map (fun x => if p x then z else f x) l.
Proof.
  unfold np_where. induction l as [|x l IH]; [reflexivity|].
  cbn [map length]. rewrite filter_seq_S. cbn [nth]. destruct (p x); cbn [app].
  - unfold np_zero_at at 1. cbn [fold_left set_nth]. rewrite <- IH. exact (zero_at_shift z z _ _).
  - rewrite zero_at_shift. now rewrite IH.
Qed.

(* the translated get: fancy-index the attribute's array, then zero the entries whose index is the control marker -1 *)
Theorem src_get_is_model (T : Type) (z : T) arr ix :
  src_get T z arr ix = GRet (map (fun i => if (i =? -1)%Z then z else np_get z arr i) ix).
Proof.
  unfold src_get. rewrite map_length, of_nat_eqb0. change (- (1))%Z with (-1)%Z.
  destruct (np_where (map (fun x => (x =? -1)%Z) ix)) eqn:E; cbn [length negb gbind].
  - rewrite <- (zero_at_where z (np_get z arr) (fun i => (i =? -1)%Z)), E. reflexivity.
  - rewrite <- E. unfold np_take. now rewrite zero_at_where.
Qed.

Corollary src_get_numbers (v : list Qc) ix : src_get Qc 0 v ix = GRet (map (get_v v) ix).
Proof. rewrite src_get_is_model. reflexivity. Qed.

Corollary src_get_rows (M : list (list Qc)) ix : src_get (list Qc) [] M ix = GRet (map (get_r M) ix).
Proof. rewrite src_get_is_model. reflexivity. Qed.

(* ---------------------------------------------------------------- the scalar Gaussian blocks _W0_step, _V0_step *)
Lemma pyidx_of_nat n c : pyidx n (Z.of_nat c) = c.
Proof. unfold pyidx. destruct (Z.ltb_spec (Z.of_nat c) 0); lia. Qed.

Lemma np_store_nat {A} (a : list A) c v : np_store a (Z.of_nat c) v = set_nth c v a.
Proof. unfold np_store. now rewrite pyidx_of_nat. Qed.

Lemma np_get_nat {A} (z : A) a c : np_get z a (Z.of_nat c) = nth c a z.
Proof. unfold np_get. now rewrite pyidx_of_nat. Qed.

Lemma nth_set_nth_same {A} (z x : A) : forall a c, (c < length a)%nat -> nth c (set_nth c x a) z = x.
Proof. induction a as [|y a IH]; intros [|c] H; cbn [length set_nth nth] in *; try lia; [reflexivity | apply IH; lia]. Qed.

Lemma set_nth_length {A} (x : A) : forall a c, length (set_nth c x a) = length a.
Proof. induction a as [|y a IH]; intros [|c]; cbn [set_nth length]; [reflexivity..|now rewrite IH]. Qed.

Lemma zrange_of_nat n : zrange (Z.of_nat n) = map Z.of_nat (seq 0 n).
Proof. unfold zrange. now rewrite Nat2Z.id. Qed.

(* a loop that makes exactly one draw per element is the model's sequence of blocks *)
Lemma fold_is_seq_blocks (I : st -> Prop) (f : st -> Z -> gprog st) (b : nat -> st -> draw * (val -> st)) cs :
  (forall s c, In c cs -> I s -> geq (f s (Z.of_nat c)) (GDraw (fst (b c s)) (fun v => GRet (snd (b c s) v)))) ->
  (forall s c v, In c cs -> I s -> I (snd (b c s) v)) ->
  forall s, I s -> prog_eq (to_prog (prog_fold f (map Z.of_nat cs) s)) (seq_blocks (map (fun c s' => b c s') cs) s).
Proof.
  induction cs as [|c cs IH]; intros Hf HI s Hs; cbn [map prog_fold seq_blocks to_prog]; [apply prog_eq_refl|].
  eapply prog_eq_trans; [apply to_prog_gbind|].
  eapply prog_eq_trans; [apply bind_cong; [apply to_prog_geq, Hf; [now left | exact Hs] | intros s'; apply prog_eq_refl]|].
  cbn [to_prog bind]. constructor. intros v.
  apply IH; [intros; apply Hf; [now right | assumption] | intros; apply HI; [now right | assumption] |].
  apply HI; [now left | exact Hs].
Qed.

Lemma resid_is_model d (M : list Qc) old idx :
  np_vadds (np_vsub (np_gather q0 (d_y d) idx) (np_gather q0 M idx)) old = map (fun i => yi d i - vnth M i + old) idx.
Proof. unfold np_vadds, np_vsub, np_gather. now rewrite zipw_map, map_map. Qed.

Theorem src_W0_step_is_model g d orc s : length (W0 s) = c_ncl g ->
  prog_eq (to_prog (src_W0_step g d s)) (step_prog g d orc BW0 s).
Proof.
  intros HW. unfold src_W0_step. cbv zeta. cbn [step_prog]. rewrite zrange_of_nat.
  eapply prog_eq_trans; [apply to_prog_gbind|].
  eapply prog_eq_trans; [|apply bind_ret_r]. apply bind_cong; [|intros; apply prog_eq_refl].
  apply (fold_is_seq_blocks (fun s' => length (W0 s') = c_ncl g) _ (fun c s' => block_W0 d s' c)); [| |exact HW].
  - intros s' c Hin Hs'. assert (Hc : (c < length (W0 s'))%nat) by (apply in_seq in Hin; lia). clear Hin Hs' HW s.
    cbv beta. unfold block_W0. cbv zeta. rewrite of_nat_eqb0.
    destruct (positions (Z.of_nat c) (d_cl d)) as [|i cidx] eqn:E; cbn [length fst snd].
    + unfold draw_normal. cbn [gbind inv_sqrt isq_sq]. constructor. intros v. rewrite np_store_nat. apply geq_refl.
    + replace (S (length cidx)) with (length (positions (Z.of_nat c) (d_cl d))) by now rewrite E.
      rewrite <- E. unfold draw_normal. cbn [gbind inv_sqrt isq_sq W0 Mu set_W0 set_Mu prec tau0].
      rewrite resid_is_model, np_get_nat. unfold qdiv, qmul, qadd, qsub.
      constructor. intros v. rewrite !np_store_nat, np_get_nat, nth_set_nth_same by exact Hc.
      apply geq_refl.
  - intros s' c v _ Hs'. unfold block_W0. destruct (positions _ _); cbn [snd W0 set_W0 set_Mu]; now rewrite set_nth_length.
Qed.

Lemma sum_of_nat_eqb0 a b : (Z.of_nat a + Z.of_nat b =? 0)%Z = match (a + b)%nat with O => true | S _ => false end.
Proof. rewrite <- Nat2Z.inj_add. apply of_nat_eqb0. Qed.

(* `if len(idx) == 0: r = [] else: r = f(idx)` is r = f(idx) for an elementwise f *)
Lemma if_len_nil {X Y} (f : X -> Y) (l : list X) :
  (if (Z.of_nat (length l) =? 0)%Z then GRet [] else GRet (map f l)) = GRet (map f l).
Proof. destruct l; reflexivity. Qed.

Theorem src_V0_step_is_model g d orc s : length (V0 s) = c_ndd g ->
  prog_eq (to_prog (src_V0_step g d s)) (step_prog g d orc BV0 s).
Proof.
  intros HV. unfold src_V0_step. cbv zeta. cbn [step_prog]. rewrite zrange_of_nat.
  eapply prog_eq_trans; [apply to_prog_gbind|].
  eapply prog_eq_trans; [|apply bind_ret_r]. apply bind_cong; [|intros; apply prog_eq_refl].
  apply (fold_is_seq_blocks (fun s' => length (V0 s') = c_ndd g) _ (fun m s' => block_V0 d s' m)); [| |exact HV].
  - intros s' m Hin Hs'. assert (Hm : (m < length (V0 s'))%nat) by (apply in_seq in Hin; lia). clear Hin Hs' HV s.
    cbv beta. unfold block_V0. cbv zeta. rewrite sum_of_nat_eqb0, <- app_length, !resid_is_model, !if_len_nil.
    cbn [gbind]. rewrite <- map_app.
    destruct (positions (Z.of_nat m) (d_dd1 d) ++ positions (Z.of_nat m) (d_dd2 d)) as [|i idx] eqn:E; cbn [length fst snd].
    + unfold draw_normal. cbn [gbind inv_sqrt isq_sq]. rewrite np_get_nat. unfold qmul.
      constructor. intros v. rewrite np_store_nat. apply geq_refl.
    + replace (S (length idx)) with (length (i :: idx)) by reflexivity.
      unfold draw_normal. cbn [gbind inv_sqrt isq_sq V0 Mu set_V0 set_Mu prec phi0 eta0].
      rewrite !np_get_nat. unfold qdiv, qmul, qadd, qsub.
      constructor. intros v. rewrite !np_store_nat, np_get_nat, nth_set_nth_same by exact Hm.
      apply geq_refl.
  - intros s' m v _ Hs'. unfold block_V0. cbv zeta. destruct (_ ++ _); cbn [snd V0 set_V0 set_Mu]; now rewrite set_nth_length.
Qed.
