(* C08: the hand-written sampler of Model/Gibbs.v equals the translations of the methods of
     batchie.models.sparse_combo.LegacySparseDrugComboImpl
   regenerated from /repo on every run (Generated/SrcGibbs.v, by harness/py2gal.py with the configurations C08_* of
   harness/src_functions.py).  A translated method is a program in the free monad [gprog] over the model's draws;
   [to_prog] reads it as a model program and the links are stated with [prog_eq]: the same draw arguments at every
   node and, for every drawn value, equal continuations (equality of programs up to the extensionality of their
   continuations; no axiom).  [prog_eq_run]: such programs answer every stream of drawn values alike. *)
From Coq Require Import ZArith List QArith Qcanon Lia ZifyBool Arith Bool.
From Batchie Require Import Lib.Sexp Lib.PyRt Lib.Num Model.Gibbs Generated.SrcGibbs Proofs.C08Sums.
Import ListNotations.
Open Scope Qc_scope.

(* ---------------------------------------------------------------- programs up to extensionality *)
Lemma prog_eq_refl p : prog_eq p p.
Proof. induction p as [s|dr k IH]; constructor; assumption. Qed.

Lemma prog_eq_sym p q : prog_eq p q -> prog_eq q p.
Proof. induction 1 as [s|dr k1 k2 _ IH]; constructor; assumption. Qed.

Lemma prog_eq_trans p q r : prog_eq p q -> prog_eq q r -> prog_eq p r.
Proof.
  intros H; revert r. induction H as [s|dr k1 k2 _ IH]; intros r Hr; [exact Hr|].
  inversion Hr as [|dr' k2' k3 Hk]; subst. constructor. intros v. apply IH, Hk.
Qed.

Lemma geq_refl {T} (p : gprog T) : geq p p.
Proof. induction p as [x|dr k IH]; constructor; assumption. Qed.

Lemma geq_trans {T} (p q r : gprog T) : geq p q -> geq q r -> geq p r.
Proof.
  intros H; revert r. induction H as [x|dr k1 k2 _ IH]; intros r Hr; [exact Hr|].
  inversion Hr as [|dr' k2' k3 Hk]; subst. constructor. intros v. apply IH, Hk.
Qed.

Lemma geq_sym {T} (p q : gprog T) : geq p q -> geq q p.
Proof. induction 1 as [x|dr k1 k2 _ IH]; constructor; assumption. Qed.

Lemma geq_of_eq {T} (p q : gprog T) : p = q -> geq p q.
Proof. intros ->. apply geq_refl. Qed.

Lemma prog_eq_of_eq p q : p = q -> prog_eq p q.
Proof. intros ->. apply prog_eq_refl. Qed.

(* bind is a congruence *)
Lemma gbind_cong {A B} (p p' : gprog A) (f f' : A -> gprog B) :
  geq p p' -> (forall x, geq (f x) (f' x)) -> geq (gbind p f) (gbind p' f').
Proof.
  intros H Hf. induction H as [x|dr k1 k2 _ IH]; cbn [gbind]; [apply Hf|].
  constructor. intros v. apply IH.
Qed.

Lemma bind_cong p p' f f' :
  prog_eq p p' -> (forall s, prog_eq (f s) (f' s)) -> prog_eq (bind p f) (bind p' f').
Proof.
  intros H Hf. induction H as [s|dr k1 k2 _ IH]; cbn [bind]; [apply Hf|].
  constructor. intros v. apply IH.
Qed.

Lemma bind_assoc p f h : prog_eq (bind (bind p f) h) (bind p (fun s => bind (f s) h)).
Proof. induction p as [s|dr k IH]; cbn [bind]; [apply prog_eq_refl|]. constructor. intros v. apply IH. Qed.

Lemma gbind_assoc {A B C} (p : gprog A) (f : A -> gprog B) (h : B -> gprog C) :
  geq (gbind (gbind p f) h) (gbind p (fun x => gbind (f x) h)).
Proof. induction p as [x|dr k IH]; cbn [gbind]; [apply geq_refl|]. constructor. intros v. apply IH. Qed.

Lemma gbind_ret {A} (p : gprog A) : geq (gbind p (fun x => GRet x)) p.
Proof. induction p as [x|dr k IH]; cbn [gbind]; constructor. assumption. Qed.

Lemma prog_fold_cong {S A} (f f' : S -> A -> gprog S) :
  (forall s a, geq (f s a) (f' s a)) -> forall l s, geq (prog_fold f l s) (prog_fold f' l s).
Proof.
  intros H l; induction l as [|a l IH]; intros s; cbn [prog_fold]; [apply geq_refl|].
  apply gbind_cong; [apply H | intros x; apply IH].
Qed.

(* reading a translated program as a model program *)
Lemma to_prog_geq p q : geq p q -> prog_eq (to_prog p) (to_prog q).
Proof. induction 1 as [x|dr k1 k2 _ IH]; cbn [to_prog]; constructor; assumption. Qed.

Lemma to_prog_gbind (p : gprog st) f :
  prog_eq (to_prog (gbind p f)) (bind (to_prog p) (fun s => to_prog (f s))).
Proof. induction p as [x|dr k IH]; cbn [gbind to_prog bind]; [apply prog_eq_refl|]. constructor. intros v. apply IH. Qed.

Lemma to_of_prog p : prog_eq (to_prog (of_prog p)) p.
Proof. induction p as [s|dr k IH]; cbn [of_prog to_prog]; constructor; assumption. Qed.

(* equal programs answer every stream of drawn values alike: the same list of draw arguments, the same final state *)
Lemma prog_eq_run p q : prog_eq p q -> forall vals, run_prog p vals = run_prog q vals.
Proof.
  induction 1 as [s|dr k1 k2 _ IH]; intros vals; [reflexivity|].
  cbn [run_prog]. destruct vals as [|v r]; [reflexivity|]. now rewrite IH.
Qed.

(* ---------------------------------------------------------------- small facts about the numeric vocabulary *)
Lemma qofZ_add a b : qofZ (a + b) = qofZ a + qofZ b.
Proof.
  unfold qofZ. apply Qc_is_canon. unfold Qcplus. cbn [this Q2Qc].
  rewrite !Qred_correct, inject_Z_plus. reflexivity.
Qed.

Lemma qofZ_1 : qofZ 1 = 1.
Proof. apply Qc_is_canon. reflexivity. Qed.

Lemma Qcinv_inv (x : Qc) : / / x = x.
Proof. apply Qc_is_canon. unfold Qcinv. cbn [this Q2Qc]. rewrite !Qred_correct. apply Qinv_involutive. Qed.

Lemma one_div (x : Qc) : 1 / x = / x.
Proof. unfold Qcdiv. ring. Qed.

Lemma inv_one_div (x : Qc) : / (1 / x) = x.
Proof. rewrite one_div. apply Qcinv_inv. Qed.

Lemma qofZ_succ n : qofZ (1 + Z.of_nat n) = 1 + qnat n.
Proof. rewrite qofZ_add, qofZ_1. reflexivity. Qed.

(* elementwise operators on arrays of equal length, by position *)
Lemma zipw_nth {A B C} (f : A -> B -> C) (da : A) (db : B) : forall a b,
  length a = length b -> zipw f a b = map (fun i => f (nth i a da) (nth i b db)) (seq 0 (length a)).
Proof.
  induction a as [|x a IH]; intros [|y b] H; try discriminate; [reflexivity|].
  cbn [zipw length seq map nth]. f_equal. rewrite <- seq_shift, map_map. apply IH. now injection H.
Qed.

Lemma zipw_map {X A B C} (f : A -> B -> C) (ga : X -> A) (gb : X -> B) l :
  zipw f (map ga l) (map gb l) = map (fun x => f (ga x) (gb x)) l.
Proof. induction l as [|x l IH]; cbn [map zipw]; [reflexivity | now rewrite IH]. Qed.

(* ---------------------------------------------------------------- n_obs *)
Theorem src_n_obs_is_model d : src_n_obs d = GRet (Z.of_nat (nobs d)).
Proof. reflexivity. Qed.

(* ---------------------------------------------------------------- mcmc_step: the order of the block calls *)
(* the sweep for an arbitrary behaviour [step] of the block methods *)
Fixpoint run_right (step : blk -> st -> prog) (bs : list blk) (s : st) : prog :=
  match bs with [] => Ret s | b :: r => bind (step b s) (run_right step r) end.

Lemma bind_ret_r p : prog_eq (bind p Ret) p.
Proof. induction p as [s|dr k IH]; cbn [bind]; constructor. assumption. Qed.

Lemma fold_bind_right step bs : forall p,
  prog_eq (fold_left (fun p b => bind p (step b)) bs p) (bind p (run_right step bs)).
Proof.
  induction bs as [|b r IH]; intros p; cbn [fold_left run_right].
  - apply prog_eq_sym, bind_ret_r.
  - eapply prog_eq_trans; [apply IH|]. apply bind_assoc.
Qed.

Lemma run_blocks_with_right step bs s : prog_eq (run_blocks_with step bs s) (run_right step bs s).
Proof. unfold run_blocks_with. eapply prog_eq_trans; [apply fold_bind_right|]. cbn [bind]. apply prog_eq_refl. Qed.

Lemma run_right_cong step step' bs : (forall b s, prog_eq (step b s) (step' b s)) ->
  forall s, prog_eq (run_right step bs s) (run_right step' bs s).
Proof.
  intros H. induction bs as [|b r IH]; intros s; cbn [run_right]; [apply prog_eq_refl|].
  apply bind_cong; [apply H | apply IH].
Qed.

Ltac step_bind := eapply prog_eq_trans; [apply to_prog_gbind|]; apply bind_cong; [apply prog_eq_refl | intros ?].

(* whatever the block methods do, mcmc_step calls them once each in the model's order, threading the state *)
Theorem src_mcmc_step_order (run : blk -> st -> gprog st) n s :
  prog_eq (to_prog (src_mcmc_step run n s)) (run_blocks_with (fun b s' => to_prog (run b s')) step_order s).
Proof.
  eapply prog_eq_trans; [|apply prog_eq_sym, run_blocks_with_right].
  unfold src_mcmc_step, step_order. cbn [run_right].
  do 12 step_bind.
  eapply prog_eq_trans; [apply to_prog_gbind|]. apply bind_cong; [apply prog_eq_refl | intros ?]. cbn [to_prog].
  apply prog_eq_refl.
Qed.

(* ... hence with block methods that behave as the model's step functions it is the model's sweep *)
Theorem src_mcmc_step_is_model g d orc (run : blk -> st -> gprog st) n s :
  (forall b s', prog_eq (to_prog (run b s')) (step_prog g d orc b s')) ->
  prog_eq (to_prog (src_mcmc_step run n s)) (mcmc_step g d orc s).
Proof.
  intros H. eapply prog_eq_trans; [apply src_mcmc_step_order|].
  eapply prog_eq_trans; [apply run_blocks_with_right|].
  eapply prog_eq_trans; [apply run_right_cong, H|].
  apply prog_eq_sym. apply (run_blocks_with_right (step_prog g d orc)).
Qed.

(* ---------------------------------------------------------------- _alpha_step (default option: fake_intercept) *)
Lemma of_nat_eqb0 n : (Z.of_nat n =? 0)%Z = match n with O => true | S _ => false end.
Proof. destruct n; reflexivity. Qed.

Theorem src_alpha_step_is_model g d s :
  src_alpha_step g d true s = GRet (alpha_step d s).
Proof.
  unfold src_alpha_step, alpha_step. rewrite src_n_obs_is_model. cbn [gbind]. rewrite of_nat_eqb0.
  destruct (nobs d); reflexivity.
Qed.

(* ---------------------------------------------------------------- _prec_obs_step, _prec_W0_step *)
Lemma sse_is_model d (M : list Qc) : length M = nobs d ->
  qsum (np_square (np_vsub (d_y d) M)) = sumn (nobs d) (fun i => qsq (yi d i - vnth M i)).
Proof.
  intros H. unfold np_square, np_vsub, sumn, yi, vnth, nobs in *.
  rewrite (zipw_nth Qcminus 0 0) by now symmetry. now rewrite map_map.
Qed.

Lemma clip_is_model orc n x : np_clip_isq orc x (inv_sqrt (Sqrt (qofZ (1 + Z.of_nat n)))) prec_hi = clipC orc n x.
Proof. unfold np_clip_isq, clipC, clip_lo. cbn [inv_sqrt isq_value]. now rewrite qofZ_succ. Qed.

Theorem src_prec_obs_step_is_model g d orc s : length (Mu s) = nobs d ->
  prog_eq (to_prog (src_prec_obs_step g d orc s)) (prog_prec_obs g d orc s).
Proof.
  intros HMu. unfold src_prec_obs_step, prog_prec_obs. rewrite !src_n_obs_is_model. cbn [gbind]. rewrite of_nat_eqb0.
  pose proof (sse_is_model d (Mu s) HMu) as Hsse.
  destruct (nobs d) as [|n] eqn:En.
  - unfold draw_gamma, qdiv, q1. cbn [gbind to_prog]. rewrite inv_one_div. apply prog_eq_refl.
  - rewrite <- En in *. unfold draw_gamma, qdiv, qadd, qmul, q1. cbn [gbind to_prog prec set_prec].
    rewrite inv_one_div, Hsse. constructor. intros v. rewrite clip_is_model. apply prog_eq_refl.
Qed.

Theorem src_prec_W0_step_is_model g d orc s :
  prog_eq (to_prog (src_prec_W0_step g d orc s)) (prog_prec_W0 g d orc s).
Proof.
  unfold src_prec_W0_step, prog_prec_W0. rewrite !src_n_obs_is_model.
  unfold draw_gamma, qdiv, qadd, qmul, q1. cbn [gbind to_prog tau0 set_tau0].
  rewrite inv_one_div. constructor. intros v. rewrite clip_is_model. apply prog_eq_refl.
Qed.

(* ---------------------------------------------------------------- get(attr, ix) *)
Lemma filter_seq_S (q : nat -> bool) n :
  filter q (seq 0 (S n)) = (if q O then [O] else []) ++ map S (filter (fun i => q (S i)) (seq 0 n)).
Proof.
  cbn [seq filter]. rewrite <- seq_shift.
  assert (H : forall l, filter q (map S l) = map S (filter (fun i => q (S i)) l)).
  { induction l as [|a l IH]; cbn [map filter]; [reflexivity|]. destruct (q (S a)); cbn [map]; now rewrite IH. }
  rewrite H. destruct (q O); reflexivity.
Qed.

Lemma zero_at_shift {A} (z x : A) pos : forall a, np_zero_at z (x :: a) (map S pos) = x :: np_zero_at z a pos.
Proof. unfold np_zero_at. induction pos as [|i pos IH]; intros a; cbn [map fold_left set_nth]; [reflexivity | apply IH]. Qed.

Lemma zero_at_where {X A} (z : A) (f : X -> A) (p : X -> bool) (l : list X) :
  np_zero_at z (map f l) (np_where (map p l)) = map (fun x => if p x then z else f x) l.
Proof.
  unfold np_where. induction l as [|x l IH]; [reflexivity|].
  cbn [map length]. rewrite filter_seq_S. cbn [nth]. destruct (p x); cbn [app].
  - unfold np_zero_at at 1. cbn [fold_left set_nth]. rewrite <- IH. exact (zero_at_shift z z _ _).
  - rewrite zero_at_shift. now rewrite IH.
Qed.

(* the translated get: fancy-index the attribute's array, then zero the entries whose index is the control marker -1 *)
Theorem src_get_is_model (T : Type) (z : T) arr ix :
  src_get T z arr ix = GRet (map (fun i => if (i =? -1)%Z then z else np_get z arr i) ix).
Proof.
  unfold src_get. rewrite map_length, of_nat_eqb0. change (- (1))%Z with (-1)%Z.
  destruct (np_where (map (fun x => (x =? -1)%Z) ix)) eqn:E; cbn [length negb gbind].
  - rewrite <- (zero_at_where z (np_get z arr) (fun i => (i =? -1)%Z)), E. reflexivity.
  - rewrite <- E. unfold np_take. now rewrite zero_at_where.
Qed.

Corollary src_get_numbers (v : list Qc) ix : src_get Qc 0 v ix = GRet (map (get_v v) ix).
Proof. rewrite src_get_is_model. reflexivity. Qed.

Corollary src_get_rows (M : list (list Qc)) ix : src_get (list Qc) [] M ix = GRet (map (get_r M) ix).
Proof. rewrite src_get_is_model. reflexivity. Qed.

(* ---------------------------------------------------------------- the scalar Gaussian blocks _W0_step, _V0_step *)
Lemma pyidx_of_nat n c : pyidx n (Z.of_nat c) = c.
Proof. unfold pyidx. destruct (Z.ltb_spec (Z.of_nat c) 0); lia. Qed.

Lemma np_store_nat {A} (a : list A) c v : np_store a (Z.of_nat c) v = set_nth c v a.
Proof. unfold np_store. now rewrite pyidx_of_nat. Qed.

Lemma np_get_nat {A} (z : A) a c : np_get z a (Z.of_nat c) = nth c a z.
Proof. unfold np_get. now rewrite pyidx_of_nat. Qed.

Lemma nth_set_nth_same {A} (z x : A) : forall a c, (c < length a)%nat -> nth c (set_nth c x a) z = x.
Proof. induction a as [|y a IH]; intros [|c] H; cbn [length set_nth nth] in *; try lia; [reflexivity | apply IH; lia]. Qed.

Lemma set_nth_length {A} (x : A) : forall a c, length (set_nth c x a) = length a.
Proof. induction a as [|y a IH]; intros [|c]; cbn [set_nth length]; [reflexivity..|now rewrite IH]. Qed.

Lemma zrange_of_nat n : zrange (Z.of_nat n) = map Z.of_nat (seq 0 n).
Proof. unfold zrange. now rewrite Nat2Z.id. Qed.

(* a loop that makes exactly one draw per element is the model's sequence of blocks *)
Lemma fold_is_seq_blocks (I : st -> Prop) (f : st -> Z -> gprog st) (b : nat -> st -> draw * (val -> st)) cs :
  (forall s c, In c cs -> I s -> geq (f s (Z.of_nat c)) (GDraw (fst (b c s)) (fun v => GRet (snd (b c s) v)))) ->
  (forall s c v, In c cs -> I s -> I (snd (b c s) v)) ->
  forall s, I s -> prog_eq (to_prog (prog_fold f (map Z.of_nat cs) s)) (seq_blocks (map (fun c s' => b c s') cs) s).
Proof.
  induction cs as [|c cs IH]; intros Hf HI s Hs; cbn [map prog_fold seq_blocks to_prog]; [apply prog_eq_refl|].
  eapply prog_eq_trans; [apply to_prog_gbind|].
  eapply prog_eq_trans; [apply bind_cong; [apply to_prog_geq, Hf; [now left | exact Hs] | intros s'; apply prog_eq_refl]|].
  cbn [to_prog bind]. constructor. intros v.
  apply IH; [intros; apply Hf; [now right | assumption] | intros; apply HI; [now right | assumption] |].
  apply HI; [now left | exact Hs].
Qed.

Lemma resid_is_model d (M : list Qc) old idx :
  np_vadds (np_vsub (np_gather q0 (d_y d) idx) (np_gather q0 M idx)) old = map (fun i => yi d i - vnth M i + old) idx.
Proof. unfold np_vadds, np_vsub, np_gather. now rewrite zipw_map, map_map. Qed.

Theorem src_W0_step_is_model g d orc s : length (W0 s) = c_ncl g ->
  prog_eq (to_prog (src_W0_step g d s)) (step_prog g d orc BW0 s).
Proof.
  intros HW. unfold src_W0_step. cbv zeta. cbn [step_prog]. rewrite zrange_of_nat.
  eapply prog_eq_trans; [apply to_prog_gbind|].
  eapply prog_eq_trans; [|apply bind_ret_r]. apply bind_cong; [|intros; apply prog_eq_refl].
  apply (fold_is_seq_blocks (fun s' => length (W0 s') = c_ncl g) _ (fun c s' => block_W0 d s' c)); [| |exact HW].
  - intros s' c Hin Hs'. assert (Hc : (c < length (W0 s'))%nat) by (apply in_seq in Hin; lia). clear Hin Hs' HW s.
    cbv beta. unfold block_W0. cbv zeta. rewrite of_nat_eqb0.
    destruct (positions (Z.of_nat c) (d_cl d)) as [|i cidx] eqn:E; cbn [length fst snd].
    + unfold draw_normal. cbn [gbind inv_sqrt isq_sq]. constructor. intros v. rewrite np_store_nat. apply geq_refl.
    + replace (S (length cidx)) with (length (positions (Z.of_nat c) (d_cl d))) by now rewrite E.
      rewrite <- E. unfold draw_normal. cbn [gbind inv_sqrt isq_sq W0 Mu set_W0 set_Mu prec tau0].
      rewrite resid_is_model, np_get_nat. unfold qdiv, qmul, qadd, qsub.
      constructor. intros v. rewrite !np_store_nat, np_get_nat, nth_set_nth_same by exact Hc.
      apply geq_refl.
  - intros s' c v _ Hs'. unfold block_W0. destruct (positions _ _); cbn [snd W0 set_W0 set_Mu]; now rewrite set_nth_length.
Qed.

Lemma sum_of_nat_eqb0 a b : (Z.of_nat a + Z.of_nat b =? 0)%Z = match (a + b)%nat with O => true | S _ => false end.
Proof. rewrite <- Nat2Z.inj_add. apply of_nat_eqb0. Qed.

(* `if len(idx) == 0: r = [] else: r = f(idx)` is r = f(idx) for an elementwise f *)
Lemma if_len_nil {X Y} (f : X -> Y) (l : list X) :
  (if (Z.of_nat (length l) =? 0)%Z then GRet [] else GRet (map f l)) = GRet (map f l).
Proof. destruct l; reflexivity. Qed.

Theorem src_V0_step_is_model g d orc s : length (V0 s) = c_ndd g ->
  prog_eq (to_prog (src_V0_step g d s)) (step_prog g d orc BV0 s).
Proof.
  intros HV. unfold src_V0_step. cbv zeta. cbn [step_prog]. rewrite zrange_of_nat.
  eapply prog_eq_trans; [apply to_prog_gbind|].
  eapply prog_eq_trans; [|apply bind_ret_r]. apply bind_cong; [|intros; apply prog_eq_refl].
  apply (fold_is_seq_blocks (fun s' => length (V0 s') = c_ndd g) _ (fun m s' => block_V0 d s' m)); [| |exact HV].
  - intros s' m Hin Hs'. assert (Hm : (m < length (V0 s'))%nat) by (apply in_seq in Hin; lia). clear Hin Hs' HV s.
    cbv beta. unfold block_V0. cbv zeta. rewrite sum_of_nat_eqb0, <- app_length, !resid_is_model, !if_len_nil.
    cbn [gbind]. rewrite <- map_app.
    destruct (positions (Z.of_nat m) (d_dd1 d) ++ positions (Z.of_nat m) (d_dd2 d)) as [|i idx] eqn:E; cbn [length fst snd].
    + unfold draw_normal. cbn [gbind inv_sqrt isq_sq]. rewrite np_get_nat. unfold qmul.
      constructor. intros v. rewrite np_store_nat. apply geq_refl.
    + replace (S (length idx)) with (length (i :: idx)) by reflexivity.
      unfold draw_normal. cbn [gbind inv_sqrt isq_sq V0 Mu set_V0 set_Mu prec phi0 eta0].
      rewrite !np_get_nat. unfold qdiv, qmul, qadd, qsub.
      constructor. intros v. rewrite !np_store_nat, np_get_nat, nth_set_nth_same by exact Hm.
      apply geq_refl.
  - intros s' m v _ Hs'. unfold block_V0. cbv zeta. destruct (_ ++ _); cbn [snd V0 set_V0 set_Mu]; now rewrite set_nth_length.
Qed.

(* ---------------------------------------------------------------- the horseshoe precision steps *)
Lemma tab_length {A} n (f : nat -> A) : length (tab n f) = n.
Proof. unfold tab. now rewrite map_length, seq_length. Qed.

Lemma map_as_tab {B} (f : Qc -> B) l : map f l = tab (length l) (fun i => f (vnth l i)).
Proof.
  unfold tab, vnth. rewrite <- (map_map (fun i => nth i l 0) f). f_equal.
  symmetry. apply nth_ext with (d := 0) (d' := 0); [now rewrite map_length, seq_length|].
  intros i Hi. rewrite map_length, seq_length in Hi.
  rewrite (nth_indep _ 0 (nth 0 l 0)) by now rewrite map_length, seq_length.
  rewrite (map_nth (fun i => nth i l 0)). rewrite seq_nth by exact Hi. reflexivity.
Qed.

Lemma zipw_tab {A B C} (f : A -> B -> C) n a b : zipw f (tab n a) (tab n b) = tab n (fun i => f (a i) (b i)).
Proof. unfold tab. apply zipw_map. Qed.

Lemma map_tab {A B} (f : A -> B) n h : map f (tab n h) = tab n (fun i => f (h i)).
Proof. unfold tab. apply map_map. Qed.

Lemma tab_ext {A} n (f h : nat -> A) : (forall i, (i < n)%nat -> f i = h i) -> tab n f = tab n h.
Proof. intros H. unfold tab. apply map_ext_in. intros i Hi. apply H. apply in_seq in Hi. lia. Qed.

Lemma vnth_tab n f i : (i < n)%nat -> vnth (tab n f) i = f i.
Proof.
  intros H. unfold vnth, tab. rewrite (nth_indep _ 0 (f O)) by now rewrite map_length, seq_length.
  rewrite map_nth, seq_nth by exact H. reflexivity.
Qed.

Lemma zrange_tab {A} (f : Z -> A) n : map f (zrange (Z.of_nat n)) = tab n (fun i => f (Z.of_nat i)).
Proof. rewrite zrange_of_nat. unfold tab. apply map_map. Qed.

Lemma occ_bound a b : 1 + qofZ (Z.of_nat a) + qofZ (Z.of_nat b) = 1 + qnat (a + b).
Proof. unfold qnat. rewrite Nat2Z.inj_add, qofZ_add. ring. Qed.

Lemma clip_occ orc x a b :
  np_clip_isq orc x (inv_sqrt (Sqrt (1 + qofZ (Z.of_nat a) + qofZ (Z.of_nat b)))) prec_hi = clipC orc (a + b) x.
Proof. unfold np_clip_isq, clipC, clip_lo. cbn [inv_sqrt isq_value]. now rewrite occ_bound. Qed.

Theorem src_prec_V0_step_is_model g d orc s : length (phi0 s) = c_ndd g -> length (V0 s) = c_ndd g ->
  prog_eq (to_prog (src_prec_V0_step g d orc true s)) (step_prog g d orc BPrecV0 s).
Proof.
  intros Hphi HV. unfold src_prec_V0_step, prog_prec_V0. cbn [step_prog]. unfold prog_prec_V0. cbv zeta.
  rewrite !src_n_obs_is_model.
  unfold draw_gamma_vec, draw_gamma, fit_like, np_sdiv, np_sadd, np_smul, np_square, np_vadds, np_vadd, np_vmul,
    np_clip_isq_each, qdiv, qadd, qmul, q1.
  cbn [gbind to_prog phi0 V0 eta0 set_phi0 set_eta0].
  rewrite !map_map, !map_length, Hphi.
  rewrite (map_ext (fun x => / (1 / (1 + x))) (fun p => 1 + p)) by (intros; apply inv_one_div).
  constructor. intros aux.
  fold (tab (c_ndd g) (fun i => nth i (val_v aux) 0)).
  rewrite (map_as_tab (fun x => half * eta0 s * qsq x) (V0 s)), HV, zipw_tab, !map_tab, tab_length.
  rewrite (tab_ext _ _ (fun m => vnth (val_v aux) m + half * eta0 s * qsq (vnth (V0 s) m) + jitter))
    by (intros; apply inv_one_div).
  constructor. intros v.
  fold (tab (c_ndd g) (fun i => nth i (val_v v) 0)).
  rewrite !zrange_tab. repeat (first [rewrite zipw_tab | rewrite map_tab]).
  rewrite (tab_ext _ _ (fun m => clipC orc (n_occ d m) (vnth (val_v v) m))) by (intros; apply clip_occ).
  rewrite inv_one_div. constructor. intros aux2.
  rewrite (map_as_tab qsq (V0 s)), HV, zipw_tab, qofZ_succ, inv_one_div.
  change (qsum (tab ?n ?f)) with (sumn n f).
  rewrite (sumn_ext _ (fun i => clipC orc (n_occ d i) (vnth (val_v v) i) * qsq (vnth (V0 s) i))
                      (fun m => vnth (tab (c_ndd g) (fun m0 => clipC orc (n_occ d m0) (vnth (val_v v) m0))) m * qsq (vnth (V0 s) m)))
    by (intros i Hi; now rewrite vnth_tab).
  constructor. intros v2. rewrite clip_is_model. apply prog_eq_refl.
Qed.

(* matrices of a known shape, entry by entry *)
Definition tab2 {A} (n D : nat) (F : nat -> nat -> A) : list (list A) := tab n (fun i => tab D (F i)).

Lemma map_as_tab_gen {A B} (z : A) (f : A -> B) l : map f l = tab (length l) (fun i => f (nth i l z)).
Proof.
  unfold tab. rewrite <- (map_map (fun i => nth i l z) f). f_equal.
  symmetry. apply nth_ext with (d := z) (d' := z); [now rewrite map_length, seq_length|].
  intros i Hi. rewrite map_length, seq_length in Hi.
  rewrite (nth_indep _ z (nth 0 l z)) by now rewrite map_length, seq_length.
  rewrite (map_nth (fun i => nth i l z)). rewrite seq_nth by exact Hi. reflexivity.
Qed.


Lemma tab2_ext {A} n D (F G : nat -> nat -> A) :
  (forall i k, (i < n)%nat -> (k < D)%nat -> F i k = G i k) -> tab2 n D F = tab2 n D G.
Proof. intros H. unfold tab2. apply tab_ext. intros i Hi. apply tab_ext. intros k Hk. now apply H. Qed.

Lemma map2_as_tab2 {B} (f : Qc -> B) M n D : shape2 M n D ->
  map (map f) M = tab2 n D (fun i k => f (vnth (rnth M i) k)).
Proof.
  intros [Hn Hr]. rewrite (map_as_tab_gen [] (map f) M), Hn. unfold tab2. apply tab_ext. intros i Hi.
  fold (rnth M i). rewrite (map_as_tab f), (Hr i Hi). reflexivity.
Qed.

Lemma map_tab2 {A B} (f : A -> B) n D F : map (map f) (tab2 n D F) = tab2 n D (fun i k => f (F i k)).
Proof. unfold tab2. rewrite map_tab. apply tab_ext. intros i _. apply map_tab. Qed.

Lemma zipw2_tab2 {A B C} (f : A -> B -> C) n D F G :
  zipw (zipw f) (tab2 n D F) (tab2 n D G) = tab2 n D (fun i k => f (F i k) (G i k)).
Proof. unfold tab2. rewrite zipw_tab. apply tab_ext. intros i _. apply zipw_tab. Qed.

Lemma rowop_tab2 {A B C} (f : A -> B -> C) n D e F :
  map (zipw f (tab D e)) (tab2 n D F) = tab2 n D (fun i k => f (e k) (F i k)).
Proof. unfold tab2. rewrite map_tab. apply tab_ext. intros i _. apply zipw_tab. Qed.

Lemma cliprows_tab2 {A B C} (c : A -> B -> C) n D F L :
  zipw (fun row l => map (fun x => c x l) row) (tab2 n D F) (tab n L) = tab2 n D (fun i k => c (F i k) (L i)).
Proof. unfold tab2. rewrite zipw_tab. apply tab_ext. intros i _. apply map_tab. Qed.

Lemma colsum_tab2 n D F : np_colsum D (tab2 n D F) = tab D (fun k => sumn n (fun i => F i k)).
Proof.
  unfold np_colsum, tab2. apply tab_ext. intros k Hk. rewrite map_tab.
  change (qsum (tab n ?f)) with (sumn n f). apply sumn_ext. intros i _. now apply vnth_tab.
Qed.

Lemma combine_tab {A B} n (a : nat -> A) (b : nat -> B) : combine (tab n a) (tab n b) = tab n (fun i => (a i, b i)).
Proof. unfold tab. induction (seq 0 n) as [|i l IH]; cbn [map combine]; [reflexivity | now rewrite IH]. Qed.

Lemma rnth_tab {A} n (f : nat -> list A) i : (i < n)%nat -> nth i (tab n f) [] = f i.
Proof.
  intros H. unfold tab. rewrite (nth_indep _ [] (f O)) by now rewrite map_length, seq_length.
  rewrite map_nth, seq_nth by exact H. reflexivity.
Qed.

Lemma tab2_shape n D F : shape2 (tab2 n D F) n D.
Proof. split; [apply tab_length|]. intros i Hi. unfold rnth, tab2. rewrite rnth_tab by exact Hi. apply tab_length. Qed.

(* the drawn matrix read at the shape of the scale argument *)
Lemma fit_like2_shape like m n D : shape2 like n D ->
  fit_like2 like m = tab2 n D (fun i k => vnth (rnth m i) k).
Proof.
  intros [Hn Hr]. unfold fit_like2, fit_like. rewrite Hn.
  rewrite <- (map_id like) at 1. rewrite (map_as_tab_gen [] (fun r => r) like), Hn.
  fold (tab n (fun i => nth i m [])). rewrite combine_tab, map_tab. unfold tab2. apply tab_ext. intros i Hi.
  cbn [fst snd]. fold (rnth like i). rewrite (Hr i Hi). reflexivity.
Qed.

(* the body of _prec_V2_step / _prec_V1_step as a function of the arrays it reads and of the final store *)
Definition hs_src (g : cfg) (d : data) (orc : oracle) (V phi : list (list Qc)) (eta : list Qc)
    (fin : list (list Qc) -> list Qc -> st) : gprog st :=
  dop r1 <- draw_gamma_mat q1 (map (np_sdiv q1) (map (np_sadd q1) phi));
  let bn := zipw np_vadd r1 (map (np_vmul (np_smul half eta)) (map np_square V)) in
  dop r2 <- draw_gamma_mat q1 (map (np_sdiv q1) (map (fun r => np_vadds r jitter) bn));
  let N1 := map (fun c => Z.of_nat (length (positions c (d_dd1 d)))) (zrange (Z.of_nat (c_ndd g))) in
  let N2 := map (fun c => Z.of_nat (length (positions c (d_dd2 d)))) (zrange (Z.of_nat (c_ndd g))) in
  let C := map inv_sqrt (map Sqrt (np_vadd (np_sadd q1 (map (fun c => qofZ c) N1)) (map (fun c => qofZ c) N2))) in
  let ph := np_clip_isq_rows orc r2 C prec_hi in
  let an := qmul half (qofZ (1 + Z.of_nat (c_ndd g))) in
  dop r3 <- draw_gamma_vec q1 (np_sdiv q1 (np_sadd q1 eta));
  let bn := np_vadd r3 (np_smul half (np_colsum (c_D g) (zipw np_vmul ph (map np_square V)))) in
  dop r4 <- draw_gamma_vec an (np_sdiv q1 (np_vadds bn jitter));
  dop r6 <- src_n_obs d;
  let C := inv_sqrt (Sqrt (qofZ (1 + r6))) in
  GRet (fin ph (np_clip_isq_all orc r4 C prec_hi)).

Lemma src_prec_V2_step_body g d orc s :
  src_prec_V2_step g d orc true s = hs_src g d orc (V2 s) (phi2 s) (eta2 s) (fun ph et => set_eta2 (set_phi2 s ph) et).
Proof. reflexivity. Qed.

Lemma src_prec_V1_step_body g d orc s :
  src_prec_V1_step g d orc true s = hs_src g d orc (V1 s) (phi1 s) (eta1 s) (fun ph et => set_eta1 (set_phi1 s ph) et).
Proof. reflexivity. Qed.

Lemma shape2_map f M n D : shape2 M n D -> shape2 (map (map f) M) n D.
Proof. intros H. rewrite (map2_as_tab2 f M n D H). apply tab2_shape. Qed.

Lemma madds_tab2 n D F x : map (fun r => np_vadds r x) (tab2 n D F) = tab2 n D (fun i k => F i k + x).
Proof. unfold tab2, np_vadds. rewrite map_tab. apply tab_ext. intros i _. apply map_tab. Qed.

Lemma inv_scales_mat (M : list (list Qc)) : map (map Qcinv) (map (map (fun y => 1 / y)) M) = M.
Proof.
  rewrite map_map. rewrite <- (map_id M) at 2. apply map_ext. intros r. rewrite map_map.
  rewrite <- (map_id r) at 2. apply map_ext. intros x. apply inv_one_div.
Qed.

Lemma inv_scales_vec (l : list Qc) : map Qcinv (map (fun y => 1 / y) l) = l.
Proof. rewrite map_map. rewrite <- (map_id l) at 2. apply map_ext. intros x. apply inv_one_div. Qed.

Lemma hs_src_is_model g d orc V phi eta fin :
  shape2 V (c_ndd g) (c_D g) -> shape2 phi (c_ndd g) (c_D g) -> length eta = c_D g ->
  prog_eq (to_prog (hs_src g d orc V phi eta fin)) (prog_prec_Vk g d orc V phi eta fin).
Proof.
  intros HV Hphi Heta. unfold hs_src, prog_prec_Vk. cbv zeta. rewrite src_n_obs_is_model.
  unfold draw_gamma_mat, draw_gamma_vec, np_sdiv, np_sadd, np_smul, np_square, np_vadd, np_vmul, np_clip_isq_rows,
    np_clip_isq_all, qmul, q1.
  cbn [gbind to_prog].
  (* first draw *)
  assert (Hs1 : shape2 (map (map (fun y => 1 / y)) (map (map (fun y => 1 + y)) phi)) (c_ndd g) (c_D g))
    by now apply shape2_map, shape2_map.
  rewrite inv_scales_mat. constructor. intros aux.
  rewrite (fit_like2_shape _ (val_m aux) _ _ Hs1).
  (* second draw *)
  rewrite (map2_as_tab2 qsq V _ _ HV), (map_as_tab (fun y => half * y) eta), Heta, rowop_tab2, zipw2_tab2, madds_tab2.
  rewrite (map_tab2 (fun y => 1 / y)).
  match goal with |- context [fit_like2 ?like _] => assert (Hs2 : shape2 like (c_ndd g) (c_D g)) by apply tab2_shape end.
  rewrite (map_tab2 Qcinv).
  rewrite (tab2_ext _ _ _ (fun m k => vnth (rnth (val_m aux) m) k + half * vnth eta k * qsq (vnth (rnth V m) k) + jitter))
    by (intros; apply inv_one_div).
  constructor. intros v.
  rewrite (fit_like2_shape _ (val_m v) _ _ Hs2). clear Hs1 Hs2.
  (* the clipped phi *)
  rewrite !zrange_tab. repeat (first [rewrite zipw_tab | rewrite map_tab]). rewrite cliprows_tab2.
  rewrite (tab2_ext _ _ _ (fun m k => clipC orc (n_occ d m) (vnth (rnth (val_m v) m) k))) by (intros; apply clip_occ).
  (* third draw *)
  rewrite inv_scales_vec. constructor. intros aux2.
  unfold fit_like. rewrite !map_length, Heta. fold (tab (c_D g) (fun i => nth i (val_v aux2) 0)).
  (* fourth draw *)
  rewrite zipw2_tab2, colsum_tab2, map_tab, zipw_tab. unfold np_vadds. rewrite !map_tab, tab_length, qofZ_succ.
  rewrite (tab_ext _ _ (fun k => vnth (val_v aux2) k + half * sumn (c_ndd g) (fun m =>
             vnth (rnth (tab (c_ndd g) (fun m0 => tab (c_D g) (fun k0 => clipC orc (n_occ d m0) (vnth (rnth (val_m v) m0) k0)))) m) k
             * qsq (vnth (rnth V m) k)) + jitter)).
  2:{ intros k Hk. rewrite inv_one_div. f_equal. f_equal. f_equal. apply sumn_ext. intros m Hm.
      unfold rnth at 1 3. rewrite rnth_tab by exact Hm. now rewrite vnth_tab. }
  constructor. intros v2.
  fold (tab (c_D g) (fun i => nth i (val_v v2) 0)). rewrite map_tab.
  rewrite (tab_ext _ _ (fun k => clipC orc (nobs d) (vnth (val_v v2) k))) by (intros; apply clip_is_model).
  apply prog_eq_refl.
Qed.

Theorem src_prec_V2_step_is_model g d orc s :
  shape2 (V2 s) (c_ndd g) (c_D g) -> shape2 (phi2 s) (c_ndd g) (c_D g) -> length (eta2 s) = c_D g ->
  prog_eq (to_prog (src_prec_V2_step g d orc true s)) (step_prog g d orc BPrecV2 s).
Proof. intros. rewrite src_prec_V2_step_body. now apply hs_src_is_model. Qed.

Theorem src_prec_V1_step_is_model g d orc s :
  shape2 (V1 s) (c_ndd g) (c_D g) -> shape2 (phi1 s) (c_ndd g) (c_D g) -> length (eta1 s) = c_D g ->
  prog_eq (to_prog (src_prec_V1_step g d orc true s)) (step_prog g d orc BPrecV1 s).
Proof. intros. rewrite src_prec_V1_step_body. now apply hs_src_is_model. Qed.

(* ---------------------------------------------------------------- _prec_W_step (multiplicative gamma process) *)
Lemma cumprod_from_length acc l : length (cumprod_from acc l) = length l.
Proof. revert acc. induction l as [|x l IH]; intros acc; cbn [cumprod_from length]; [reflexivity | now rewrite IH]. Qed.

Lemma cumprod_length l : length (cumprod l) = length l.
Proof. apply cumprod_from_length. Qed.

Lemma seq_as_map k m : seq k m = map (fun j => (k + j)%nat) (seq 0 m).
Proof.
  revert k. induction m as [|m IH]; intros k; cbn [seq map]; [reflexivity|].
  f_equal; [lia|]. rewrite (IH (S k)), (IH 1%nat), map_map. apply map_ext. intros; lia.
Qed.

Lemma skipn_seq' k : forall a m, skipn k (seq a m) = seq (a + k) (m - k).
Proof.
  induction k as [|k IH]; intros a m; [now rewrite Nat.add_0_r, Nat.sub_0_r|].
  destruct m as [|m]; [reflexivity|]. cbn [seq skipn Nat.sub]. rewrite IH. f_equal. lia.
Qed.

Lemma skipn_tab {A} n (f : nat -> A) k : skipn k (tab n f) = tab (n - k) (fun j => f (k + j)%nat).
Proof. unfold tab. rewrite skipn_map, skipn_seq'. cbn [Nat.add]. now rewrite seq_as_map, map_map. Qed.

Lemma np_from_nat {A} (a : list A) k : np_from a (Z.of_nat k) = skipn k a.
Proof. unfold np_from. now rewrite pyidx_of_nat. Qed.

Lemma from_tab2 {A} n D (F : nat -> nat -> A) k :
  map (fun r => np_from r (Z.of_nat k)) (tab2 n D F) = tab2 n (D - k) (fun c j => F c (k + j)%nat).
Proof. unfold tab2. rewrite map_tab. apply tab_ext. intros c _. rewrite np_from_nat. apply skipn_tab. Qed.

Lemma msum_core n m (e : nat -> Qc) F :
  np_msum (map (np_vmul (tab m e)) (tab2 n m F)) = sumn n (fun c => sumn m (fun j => e j * F c j)).
Proof.
  unfold np_msum, np_vmul. rewrite rowop_tab2. unfold tab2. rewrite map_tab.
  change (qsum (tab n ?f)) with (sumn n f). apply sumn_ext. intros c _. reflexivity.
Qed.

(* bn - 1 of component dd, as the code computes it (parssq = W**2 is computed once, before the draws) *)
Lemma half_ss_is_model g s dd : shape2 (W s) (c_ncl g) (c_D g) -> length (gam s) = c_D g ->
  half * np_msum (map (np_vmul (np_vdivs (np_from (cumprod (gam s)) (Z.of_nat dd)) (np_get q0 (gam s) (Z.of_nat dd))))
                      (map (fun r => np_from r (Z.of_nat dd)) (map np_square (W s))))
  = gam_half_ss g s dd.
Proof.
  intros HW Hg. unfold gam_half_ss, np_vdivs, np_square. cbv zeta.
  rewrite (map2_as_tab2 qsq (W s) _ _ HW), from_tab2, np_from_nat, np_get_nat.
  rewrite <- (map_id (cumprod (gam s))) at 1. rewrite (map_as_tab (fun x => x)), cumprod_length, Hg, skipn_tab, map_tab.
  rewrite msum_core. reflexivity.
Qed.

Lemma half_ss_is_model_0 g s : shape2 (W s) (c_ncl g) (c_D g) -> length (gam s) = c_D g ->
  half * np_msum (map (np_vmul (np_vdivs (cumprod (gam s)) (np_get q0 (gam s) 0))) (map np_square (W s)))
  = gam_half_ss g s 0.
Proof.
  intros HW Hg. unfold gam_half_ss, np_vdivs, np_square. cbv zeta.
  rewrite (map2_as_tab2 qsq (W s) _ _ HW). change 0%Z with (Z.of_nat 0). rewrite np_get_nat.
  rewrite (map_as_tab (fun y => y / nth 0 (gam s) q0)), cumprod_length, Hg, msum_core, Nat.sub_0_r. reflexivity.
Qed.

Lemma gam_shape_0 g : qofZ 2 + half * qofZ (Z.of_nat (c_ncl g)) * qofZ (Z.of_nat (c_D g)) = gam_shape g 0.
Proof. unfold gam_shape. now rewrite Nat.sub_0_r. Qed.

Lemma gam_shape_S g dd : (1 <= dd <= c_D g)%nat ->
  qofZ 3 + half * qofZ (Z.of_nat (c_ncl g)) * qofZ (Z.of_nat (c_D g) - Z.of_nat dd) = gam_shape g dd.
Proof. intros H. unfold gam_shape, qnat. rewrite Nat2Z.inj_sub by lia. destruct dd; [lia | reflexivity]. Qed.

(* the loop changes gam only: W stays the matrix [Wm] the squares were taken of *)
Definition gam_inv (g : cfg) (Wm : list (list Qc)) (s : st) : Prop := W s = Wm /\ length (gam s) = c_D g.

(* the loop over the components 1 .. D-1: one gamma draw each, the drawn value stored in gam[dd] *)
Lemma gam_loop {T} g d orc Wm (f : T * st -> Z -> gprog (T * st)) (K : T * st -> gprog st) ds :
  (forall t s dd, In dd ds -> gam_inv g Wm s -> exists t',
     geq (f (t, s) (Z.of_nat dd))
         (GDraw (DGamma (gam_shape g dd) (1 + gam_half_ss g s dd + jitter))
                (fun v => GRet (t', set_gam s (set_nth dd (val_q v) (gam s)))))) ->
  (forall t s, gam_inv g Wm s -> geq (K (t, s)) (GRet (set_tau s (map (clipC orc (nobs d)) (cumprod (gam s)))))) ->
  forall t s, gam_inv g Wm s ->
  prog_eq (to_prog (gbind (prog_fold f (map Z.of_nat ds) (t, s)) K)) (prog_gam g d orc ds s).
Proof.
  intros Hf HK. induction ds as [|dd ds IH]; intros t s Hs; cbn [map prog_fold prog_gam gbind].
  - apply (to_prog_geq _ _ (HK t s Hs)).
  - destruct (Hf t s dd (or_introl eq_refl) Hs) as [t' Ht'].
    eapply prog_eq_trans.
    { apply to_prog_geq. eapply geq_trans; [apply gbind_assoc|]. apply gbind_cong; [exact Ht' | intros x; apply geq_refl]. }
    cbn [gbind to_prog]. constructor. intros v. apply IH.
    + intros t0 s0 dd0 Hin. apply Hf. now right.
    + destruct Hs as [HW Hg]. split; cbn [W gam set_gam]; [exact HW | now rewrite set_nth_length].
Qed.

Lemma zrange2_nat a b : zrange2 (Z.of_nat a) (Z.of_nat b) = map Z.of_nat (seq a (b - a)).
Proof.
  unfold zrange2. replace (Z.to_nat (Z.of_nat b - Z.of_nat a)) with (b - a)%nat by lia.
  rewrite (seq_as_map a), map_map. apply map_ext. intros; lia.
Qed.

Theorem src_prec_W_step_is_model g d orc s :
  shape2 (W s) (c_ncl g) (c_D g) -> length (gam s) = c_D g -> (0 < c_D g)%nat ->
  prog_eq (to_prog (src_prec_W_step g d orc true s)) (step_prog g d orc BPrecW s).
Proof.
  intros HW Hg HD. cbn [step_prog]. unfold src_prec_W_step, prog_prec_W. cbv zeta.
  destruct (c_D g) as [|D'] eqn:ED; [lia|]. cbn [seq prog_gam]. rewrite <- ED in *.
  unfold draw_gamma at 1. unfold qadd, qmul, qdiv, q1. cbn [gbind gam set_gam W].
  rewrite (half_ss_is_model_0 g) by assumption. rewrite gam_shape_0, inv_one_div.
  change (qofZ 1) with 1. cbn [to_prog]. constructor. intros v.
  change (zrange2 1 ?b) with (zrange2 (Z.of_nat 1) b). rewrite zrange2_nat. replace (c_D g - 1)%nat with D' by lia.
  eapply prog_eq_trans.
  { apply to_prog_geq. eapply geq_trans; [apply gbind_assoc|]. apply geq_refl. }
  apply (gam_loop g d orc (W s)).
  - intros [[tmp an] bn] s0 dd Hin [HW0 Hg0]. apply in_seq in Hin. eexists. cbv beta iota zeta.
    unfold draw_gamma. cbn [gbind gam set_gam W]. rewrite <- HW0 in *. unfold qnum.
    rewrite (half_ss_is_model g s0 dd HW Hg0), gam_shape_S by lia. rewrite inv_one_div.
    change (qofZ 1) with 1. constructor. intros v0. rewrite np_store_nat. apply geq_refl.
  - intros [[tmp an] bn] s0 _. cbv beta iota zeta. rewrite src_n_obs_is_model. cbn [gbind tau set_tau].
    unfold np_clip_isq_all.
    rewrite (map_ext _ (clipC orc (nobs d))) by (intros; apply clip_is_model). apply geq_refl.
  - split; cbn [W gam set_gam]; [reflexivity|]. now rewrite set_nth_length.
Qed.

(* ---------------------------------------------------------------- the vector Gaussian block _W_step *)
Lemma vnth_repeat0 D k : vnth (repeat 0 D) k = 0.
Proof. unfold vnth. revert k. induction D as [|D IH]; intros [|k]; cbn [repeat nth]; try reflexivity. apply IH. Qed.

Lemma vnth_nil k : vnth [] k = 0.
Proof. unfold vnth. destruct k; reflexivity. Qed.

(* a row gathered by get with the zero row of D zeros: it has D entries and reads like the model's get_r *)
Lemma getrow_spec M n D i : shape2 M n D ->
  let r := if (i =? -1)%Z then repeat 0 D else np_get (repeat 0 D) M i in
  length r = D /\ forall k, vnth r k = vnth (get_r M i) k.
Proof.
  intros [Hn Hr]. cbv zeta. unfold get_r. destruct (i =? -1)%Z.
  - split; [apply repeat_length | intros k; now rewrite vnth_repeat0, vnth_nil].
  - unfold np_get, py_r, rnth. rewrite Hn. set (p := pyidx n i).
    destruct (Nat.lt_ge_cases p n) as [Hp|Hp].
    + rewrite (nth_indep M (repeat 0 D) []) by lia. split; [apply (Hr p Hp) | reflexivity].
    + rewrite !nth_overflow by lia. split; [apply repeat_length | intros k; now rewrite vnth_repeat0, vnth_nil].
Qed.

Lemma list_as_tab (l : list Qc) D : length l = D -> l = tab D (vnth l).
Proof. intros H. rewrite <- (map_id l) at 1. rewrite (map_as_tab (fun x => x)), H. reflexivity. Qed.

Lemma zipw_rows {C} (f : Qc -> Qc -> C) (a b : list Qc) D : length a = D -> length b = D ->
  zipw f a b = tab D (fun k => f (vnth a k) (vnth b k)).
Proof. intros Ha Hb. rewrite (list_as_tab a D Ha), (list_as_tab b D Hb) at 1. apply zipw_tab. Qed.

(* r . v computed by numpy on a row of D entries is the model's D-term dot product, whatever the length of v *)
Lemma sumn_shift n f : sumn (S n) f = f O + sumn n (fun k => f (S k)).
Proof. unfold sumn. cbn [seq map]. rewrite <- seq_shift, map_map. reflexivity. Qed.

Lemma dot_any (a b : list Qc) D : length a = D -> qsum (zipw Qcmult a b) = vdot D a b.
Proof.
  revert b D. induction a as [|x a IH]; intros b D H; cbn [length] in H; subst D.
  - reflexivity.
  - unfold vdot. rewrite sumn_shift. destruct b as [|y b]; cbn [zipw].
    + cbn [qsum fold_right]. rewrite sumn_zero' by (intros; rewrite vnth_nil; ring). unfold vnth; cbn [nth]. ring.
    + cbn [qsum fold_right]. fold (qsum (zipw Qcmult a b)). rewrite (IH b (length a) eq_refl). reflexivity.
Qed.

Lemma add_diag_tab2 n D F v :
  np_add_diag (tab2 n D F) v = tab2 n D (fun j k => F j k + (if Nat.eqb j k then vnth v j else 0)).
Proof.
  unfold np_add_diag. rewrite (proj1 (tab2_shape n D F)). unfold tab2 at 2. apply tab_ext. intros j Hj.
  rewrite (proj2 (tab2_shape n D F) j Hj). apply tab_ext. intros k Hk.
  unfold rnth, tab2. rewrite rnth_tab by exact Hj. now rewrite vnth_tab.
Qed.

(* the design-matrix row of observation i, as the code assembles it from four get calls *)
Lemma xrow_is_model g d s i : shape2 (V2 s) (c_ndd g) (c_D g) -> shape2 (V1 s) (c_ndd g) (c_D g) ->
  let row M ix := if (ix =? -1)%Z then repeat 0 (c_D g) else np_get (repeat 0 (c_D g)) M ix in
  np_vadd (np_vmul (row (V2 s) (nth i (d_dd1 d) 0%Z)) (row (V2 s) (nth i (d_dd2 d) 0%Z)))
          (np_vadd (row (V1 s) (nth i (d_dd1 d) 0%Z)) (row (V1 s) (nth i (d_dd2 d) 0%Z)))
  = xrow_W g d s i.
Proof.
  intros H2 H1. cbv zeta. unfold xrow_W, znth. cbv zeta.
  destruct (getrow_spec (V2 s) _ _ (nth i (d_dd1 d) 0%Z) H2) as [La Ea].
  destruct (getrow_spec (V2 s) _ _ (nth i (d_dd2 d) 0%Z) H2) as [Lb Eb].
  destruct (getrow_spec (V1 s) _ _ (nth i (d_dd1 d) 0%Z) H1) as [Lc Ec].
  destruct (getrow_spec (V1 s) _ _ (nth i (d_dd2 d) 0%Z) H1) as [Ld Ed].
  cbv zeta in *. unfold np_vadd, np_vmul.
  rewrite (zipw_rows Qcmult _ _ _ La Lb), (zipw_rows Qcplus _ _ _ Lc Ld), zipw_tab.
  unfold vadd, vmul. apply tab_ext. intros k Hk. rewrite !vnth_tab by exact Hk. now rewrite Ea, Eb, Ec, Ed.
Qed.

Lemma X_is_model g d s idx : shape2 (V2 s) (c_ndd g) (c_D g) -> shape2 (V1 s) (c_ndd g) (c_D g) ->
  zipw np_vadd
    (zipw np_vmul
       (map (fun x => if (nth x (d_dd1 d) 0 =? -1)%Z then repeat 0 (c_D g) else np_get (repeat 0 (c_D g)) (V2 s) (nth x (d_dd1 d) 0%Z)) idx)
       (map (fun x => if (nth x (d_dd2 d) 0 =? -1)%Z then repeat 0 (c_D g) else np_get (repeat 0 (c_D g)) (V2 s) (nth x (d_dd2 d) 0%Z)) idx))
    (zipw np_vadd
       (map (fun x => if (nth x (d_dd1 d) 0 =? -1)%Z then repeat 0 (c_D g) else np_get (repeat 0 (c_D g)) (V1 s) (nth x (d_dd1 d) 0%Z)) idx)
       (map (fun x => if (nth x (d_dd2 d) 0 =? -1)%Z then repeat 0 (c_D g) else np_get (repeat 0 (c_D g)) (V1 s) (nth x (d_dd2 d) 0%Z)) idx))
  = map (xrow_W g d s) idx.
Proof.
  intros H2 H1. rewrite !zipw_map. apply map_ext. intros i. apply (xrow_is_model g d s i H2 H1).
Qed.

Section VectorBlock.
Variables (D : nat) (xr : nat -> list Qc) (b : nat -> Qc) (idx : list nat) (p : Qc).
Hypothesis Hxr : forall i, length (xr i) = D.
Let rows : rowsT := map (fun i => (b i, xr i)) idx.

Lemma matvec_rows v : np_matvec (map xr idx) v = map (fun i => vdot D (xr i) v) idx.
Proof. unfold np_matvec. rewrite map_map. apply map_ext. intros i. apply dot_any, Hxr. Qed.

Lemma transpose_rows : np_transpose D (map xr idx) = tab D (fun j => map (fun i => vnth (xr i) j) idx).
Proof. unfold np_transpose. apply tab_ext. intros j _. apply map_map. Qed.

Lemma xtr_is_model : np_vmuls (np_matvec (np_transpose D (map xr idx)) (map b idx)) p = xtr D p rows.
Proof.
  rewrite transpose_rows. unfold np_vmuls, np_matvec, xtr, rows. rewrite !map_tab. apply tab_ext. intros j _.
  rewrite zipw_map, map_map. cbn [fst snd]. ring.
Qed.

Lemma gram_is_model lam :
  np_add_diag (np_mmuls (np_matmul D (np_transpose D (map xr idx)) (map xr idx)) p) lam = gramQ D p rows lam.
Proof.
  rewrite transpose_rows. unfold np_mmuls, np_matmul, np_vmuls, gramQ, rows. rewrite !map_tab.
  rewrite (tab_ext _ _ (fun j => tab D (fun k => qsum (map (fun i => vnth (xr i) j * vnth (xr i) k) idx) * p))).
  2:{ intros j _. rewrite map_tab. apply tab_ext. intros k _. now rewrite map_map, zipw_map. }
  fold (tab2 D D (fun j k => qsum (map (fun i => vnth (xr i) j * vnth (xr i) k) idx) * p)).
  rewrite add_diag_tab2. unfold tab2. apply tab_ext. intros j _. apply tab_ext. intros k _.
  rewrite map_map. cbn [snd]. ring.
Qed.
End VectorBlock.

Theorem src_W_step_is_model g d orc s :
  length (W s) = c_ncl g -> shape2 (V2 s) (c_ndd g) (c_D g) -> shape2 (V1 s) (c_ndd g) (c_D g) ->
  prog_eq (to_prog (src_W_step g d s)) (step_prog g d orc BW s).
Proof.
  intros HW H2 H1. unfold src_W_step. cbv zeta. cbn [step_prog]. rewrite zrange_of_nat.
  eapply prog_eq_trans; [apply to_prog_gbind|].
  eapply prog_eq_trans; [|apply bind_ret_r]. apply bind_cong; [|intros; apply prog_eq_refl].
  apply (fold_is_seq_blocks (fun s' => length (W s') = c_ncl g /\ V2 s' = V2 s /\ V1 s' = V1 s) _ (fun c s' => block_W g d s' c)).
  - intros s' c Hin (HW' & E2 & E1). assert (Hc : (c < length (W s'))%nat) by (apply in_seq in Hin; lia).
    rewrite <- E2 in H2. rewrite <- E1 in H1. clear Hin HW' E2 E1 HW s.
    cbv beta. unfold block_W. cbv zeta. rewrite of_nat_eqb0.
    destruct (positions (Z.of_nat c) (d_cl d)) as [|i cidx] eqn:E; cbn [length fst snd].
    + unfold draw_normal_vec. cbn [gbind]. rewrite !map_map. constructor. intros v. rewrite np_store_nat. apply geq_refl.
    + rewrite <- E. clear E i cidx. set (cidx := positions (Z.of_nat c) (d_cl d)).
      rewrite !src_get_is_model. cbn [gbind]. unfold np_gather. rewrite !map_map.
      unfold q0, qnum. rewrite (X_is_model g d s' cidx H2 H1).
      assert (Hxr : forall i, length (xrow_W g d s' i) = c_D g) by (intros; apply tab_length).
      rewrite np_get_nat. fold (rnth (W s') c).
      rewrite (matvec_rows (c_D g) (xrow_W g d s') cidx Hxr).
      unfold np_vadd, np_vsub. rewrite !zipw_map. 
      set (b := fun x : nat => nth x (d_y d) 0 - nth x (Mu s') 0 + vdot (c_D g) (xrow_W g d s' x) (rnth (W s') c)).
      rewrite (xtr_is_model (c_D g) (xrow_W g d s') b cidx (prec s')).
      rewrite (gram_is_model (c_D g) (xrow_W g d s') b cidx (prec s') (tau s')).
      unfold draw_mvn. cbn [gbind].
      change (mk_rows g d s' (xrow_W g d s') (rnth (W s') c) cidx) with (map (fun i => (b i, xrow_W g d s' i)) cidx).
      constructor. intros [q|w|m|]; try apply geq_refl.
      rewrite np_store_nat. cbn [W set_W Mu]. rewrite np_get_nat, nth_set_nth_same by exact Hc.
      rewrite (matvec_rows (c_D g) (xrow_W g d s') cidx Hxr), zipw_map.
      unfold np_iadd_at, mvn_deltas. rewrite map_map. cbn [snd]. apply geq_refl.
  - intros s' c v _ (HW' & E2 & E1). unfold block_W. cbv zeta.
    destruct (positions _ _); cbn [snd]; [|destruct v]; cbn [W V2 V1 set_W set_Mu]; rewrite ?set_nth_length; auto.
  - auto.
Qed.

(* ---------------------------------------------------------------- the vector Gaussian blocks _V2_step, _V1_step *)
(* the same facts for design rows given as a list of (residual, row) pairs - the two slices of a V block concatenated *)
Section RowsBlock.
Variables (D : nat) (rows : rowsT) (p : Qc).
Hypothesis Hrows : forall r, In r rows -> length (snd r) = D.

Lemma matvec_rows' v : np_matvec (map snd rows) v = map (fun r => vdot D (snd r) v) rows.
Proof. unfold np_matvec. rewrite map_map. apply map_ext_in. intros r Hr. apply dot_any, Hrows, Hr. Qed.

Lemma transpose_rows' : np_transpose D (map snd rows) = tab D (fun j => map (fun r => vnth (snd r) j) rows).
Proof. unfold np_transpose. apply tab_ext. intros j _. apply map_map. Qed.

Lemma zipw_same {X A B C} (f : A -> B -> C) (ga : X -> A) (gb : X -> B) (l : list X) :
  zipw f (map ga l) (map gb l) = map (fun x => f (ga x) (gb x)) l.
Proof. apply zipw_map. Qed.

Lemma xtr_is_model' : np_vmuls (np_matvec (np_transpose D (map snd rows)) (map fst rows)) p = xtr D p rows.
Proof.
  rewrite transpose_rows'. unfold np_vmuls, np_matvec, xtr. rewrite !map_tab. apply tab_ext. intros j _.
  rewrite zipw_map. ring.
Qed.

Lemma gram_is_model' lam :
  np_add_diag_at (DiagIndices (Z.of_nat D)) (np_mmuls (np_matmul D (np_transpose D (map snd rows)) (map snd rows)) p) lam
  = gramQ D p rows lam.
Proof.
  rewrite transpose_rows'. unfold np_mmuls, np_matmul, np_vmuls, gramQ. rewrite !map_tab.
  rewrite (tab_ext _ _ (fun j => tab D (fun k => qsum (map (fun r => vnth (snd r) j * vnth (snd r) k) rows) * p))).
  2:{ intros j _. rewrite map_tab. apply tab_ext. intros k _. now rewrite map_map, zipw_map. }
  fold (tab2 D D (fun j k => qsum (map (fun r => vnth (snd r) j * vnth (snd r) k) rows) * p)).
  unfold np_add_diag_at. rewrite (proj1 (tab2_shape D D _)). unfold tab2 at 2. apply tab_ext. intros j Hj.
  rewrite (proj2 (tab2_shape D D _) j Hj). apply tab_ext. intros k Hk.
  unfold rnth, tab2. rewrite rnth_tab by exact Hj. rewrite vnth_tab by exact Hk.
  replace (Z.of_nat j <? Z.of_nat D)%Z with true by lia. rewrite andb_true_r. ring.
Qed.
End RowsBlock.

(* a row of W gathered by a Python int, with the zero row of D zeros for an index outside: D entries, reads like py_r *)
Lemma wrow_spec M n D i : shape2 M n D ->
  length (np_get (repeat 0 D) M i) = D /\ forall k, vnth (np_get (repeat 0 D) M i) k = vnth (py_r M i) k.
Proof.
  intros [Hn Hr]. unfold np_get, py_r, rnth. rewrite Hn. set (q := pyidx n i).
  destruct (Nat.lt_ge_cases q n) as [Hq|Hq].
  - rewrite (nth_indep M (repeat 0 D) []) by lia. split; [apply (Hr q Hq) | reflexivity].
  - rewrite !nth_overflow by lia. split; [apply repeat_length | intros k; now rewrite vnth_repeat0, vnth_nil].
Qed.

Lemma xrow_V2a_is_model g d s i : shape2 (W s) (c_ncl g) (c_D g) -> shape2 (V2 s) (c_ndd g) (c_D g) ->
  np_vmul (np_get (repeat 0 (c_D g)) (W s) (nth i (d_cl d) 0%Z))
          (if (nth i (d_dd2 d) 0 =? -1)%Z then repeat 0 (c_D g) else np_get (repeat 0 (c_D g)) (V2 s) (nth i (d_dd2 d) 0%Z))
  = xrow_V2a g d s i.
Proof.
  intros HW H2. unfold xrow_V2a, znth, vmul, np_vmul.
  destruct (wrow_spec (W s) _ _ (nth i (d_cl d) 0%Z) HW) as [La Ea].
  destruct (getrow_spec (V2 s) _ _ (nth i (d_dd2 d) 0%Z) H2) as [Lb Eb]. cbv zeta in *.
  rewrite (zipw_rows Qcmult _ _ _ La Lb). apply tab_ext. intros k _. now rewrite Ea, Eb.
Qed.

Lemma xrow_V2b_is_model g d s i : shape2 (W s) (c_ncl g) (c_D g) -> shape2 (V2 s) (c_ndd g) (c_D g) ->
  np_vmul (np_get (repeat 0 (c_D g)) (W s) (nth i (d_cl d) 0%Z))
          (if (nth i (d_dd1 d) 0 =? -1)%Z then repeat 0 (c_D g) else np_get (repeat 0 (c_D g)) (V2 s) (nth i (d_dd1 d) 0%Z))
  = xrow_V2b g d s i.
Proof.
  intros HW H2. unfold xrow_V2b, znth, vmul, np_vmul.
  destruct (wrow_spec (W s) _ _ (nth i (d_cl d) 0%Z) HW) as [La Ea].
  destruct (getrow_spec (V2 s) _ _ (nth i (d_dd1 d) 0%Z) H2) as [Lb Eb]. cbv zeta in *.
  rewrite (zipw_rows Qcmult _ _ _ La Lb). apply tab_ext. intros k _. now rewrite Ea, Eb.
Qed.

Lemma xrow_V1_is_model g d s i : shape2 (W s) (c_ncl g) (c_D g) ->
  np_get (repeat 0 (c_D g)) (W s) (nth i (d_cl d) 0%Z) = xrow_V1 g d s i.
Proof.
  intros HW. unfold xrow_V1, znth.
  destruct (wrow_spec (W s) _ _ (nth i (d_cl d) 0%Z) HW) as [La Ea].
  rewrite (list_as_tab _ _ La). apply tab_ext. intros k _. apply Ea.
Qed.

(* `if len(idx) == 0: (r, o, X) = ([], [], empty) else: (r, o, X) = f(idx)` is f(idx) for slice-wise f *)
Lemma if_len_nil_gen {X T} (l : list X) (F : list X -> T) (e : T) : F [] = e ->
  (if (Z.of_nat (length l) =? 0)%Z then GRet e else GRet (F l)) = GRet (F l).
Proof. intros <-. destruct l; reflexivity. Qed.

(* During a V block the rows of V2 / V1 already redrawn may have ANY length (the theorems quantify over all drawn values),
   so a design row is related to the model's D-padded row entrywise, not by equality *)
Definition row_rel (D : nat) (a : list Qc) (r : Qc * list Qc) : Prop :=
  (length a <= D)%nat /\ forall k, vnth a k = vnth (snd r) k.

Lemma dot_le (a b : list Qc) D : (length a <= D)%nat -> qsum (zipw Qcmult a b) = vdot D a b.
Proof.
  revert b D. induction a as [|x a IH]; intros b D H; cbn [length] in H.
  - cbn [zipw qsum fold_right]. unfold vdot. rewrite sumn_zero' by (intros; rewrite vnth_nil; ring). reflexivity.
  - destruct D as [|D]; [lia|]. unfold vdot. rewrite sumn_shift. destruct b as [|y b]; cbn [zipw].
    + cbn [qsum fold_right]. rewrite sumn_zero' by (intros; rewrite vnth_nil; ring). unfold vnth; cbn [nth]. ring.
    + cbn [qsum fold_right]. fold (qsum (zipw Qcmult a b)). rewrite (IH b D) by lia. reflexivity.
Qed.

Lemma vnth_zipw_mul (a b : list Qc) k : vnth (zipw Qcmult a b) k = vnth a k * vnth b k.
Proof.
  unfold vnth. revert b k. induction a as [|x a IH]; intros b k.
  - cbn [zipw]. destruct k; cbn [nth]; ring.
  - destruct b as [|y b]; cbn [zipw].
    + destruct k; cbn [nth]; [ring|]. destruct k; cbn [nth]; ring.
    + destruct k; cbn [nth]; [reflexivity | apply IH].
Qed.

Lemma zipw_length_le {A B C} (f : A -> B -> C) a b : (length (zipw f a b) <= length a)%nat.
Proof. revert b. induction a as [|x a IH]; intros [|y b]; cbn [zipw length]; try lia. specialize (IH b). lia. Qed.

Lemma Forall2_map_same {X A B} (R : A -> B -> Prop) (f : X -> A) (h : X -> B) l :
  (forall x, R (f x) (h x)) -> Forall2 R (map f l) (map h l).
Proof. intros H. induction l as [|x l IH]; cbn [map]; constructor; [apply H | apply IH]. Qed.

Lemma col_rel D X rows j : Forall2 (row_rel D) X rows ->
  map (fun a => vnth a j) X = map (fun r => vnth (snd r) j) rows.
Proof. induction 1 as [|a r X' rows' [_ Hr] _ IH]; cbn [map]; [reflexivity|]. now rewrite Hr, IH. Qed.

Lemma matvec_rel D X rows v : Forall2 (row_rel D) X rows ->
  np_matvec X v = map (fun r => vdot D (snd r) v) rows.
Proof.
  unfold np_matvec. induction 1 as [|a r X' rows' [Hl Hr] _ IH]; cbn [map]; [reflexivity|]. rewrite IH. f_equal.
  rewrite (dot_le a v D Hl). unfold vdot. apply sumn_ext. intros k _. now rewrite Hr.
Qed.

Section RowsRel.
Variables (D : nat) (X : list (list Qc)) (rows : rowsT) (p : Qc).
Hypothesis HX : Forall2 (row_rel D) X rows.

Lemma transpose_rel : np_transpose D X = tab D (fun j => map (fun r => vnth (snd r) j) rows).
Proof. unfold np_transpose. apply tab_ext. intros j _. apply (col_rel D), HX. Qed.

Lemma xtr_rel : np_vmuls (np_matvec (np_transpose D X) (map fst rows)) p = xtr D p rows.
Proof.
  rewrite transpose_rel. unfold np_vmuls, np_matvec, xtr. rewrite !map_tab. apply tab_ext. intros j _.
  rewrite zipw_map. ring.
Qed.

Lemma gram_rel lam lam' : (forall j, (j < D)%nat -> vnth lam j = vnth lam' j) ->
  np_add_diag_at (DiagIndices (Z.of_nat D)) (np_mmuls (np_matmul D (np_transpose D X) X) p) lam = gramQ D p rows lam'.
Proof.
  intros Hlam. rewrite transpose_rel. unfold np_mmuls, np_matmul, np_vmuls, gramQ. rewrite !map_tab.
  rewrite (tab_ext _ _ (fun j => tab D (fun k => qsum (map (fun r => vnth (snd r) j * vnth (snd r) k) rows) * p))).
  2:{ intros j _. rewrite map_tab. apply tab_ext. intros k _. now rewrite (col_rel D X rows k HX), zipw_map. }
  fold (tab2 D D (fun j k => qsum (map (fun r => vnth (snd r) j * vnth (snd r) k) rows) * p)).
  unfold np_add_diag_at. rewrite (proj1 (tab2_shape D D _)). unfold tab2 at 2. apply tab_ext. intros j Hj.
  rewrite (proj2 (tab2_shape D D _) j Hj). apply tab_ext. intros k Hk.
  unfold rnth, tab2. rewrite rnth_tab by exact Hj. rewrite vnth_tab by exact Hk.
  replace (Z.of_nat j <? Z.of_nat D)%Z with true by lia. rewrite andb_true_r, (Hlam j Hj). ring.
Qed.
End RowsRel.

(* entries of the gathered rows, without any shape assumption *)
Lemma getrow_vnth M D i k :
  vnth (if (i =? -1)%Z then repeat 0 D else np_get (repeat 0 D) M i) k = vnth (get_r M i) k.
Proof.
  unfold get_r. destruct (i =? -1)%Z; [now rewrite vnth_repeat0, vnth_nil|].
  unfold np_get, py_r, rnth. set (q := pyidx (length M) i).
  destruct (Nat.lt_ge_cases q (length M)) as [Hq|Hq]; [now rewrite (nth_indep M (repeat 0 D) []) by lia|].
  rewrite !nth_overflow by lia. now rewrite vnth_repeat0, vnth_nil.
Qed.

Lemma rel_V2a g d s b i : shape2 (W s) (c_ncl g) (c_D g) ->
  row_rel (c_D g)
    (np_vmul (np_get (repeat 0 (c_D g)) (W s) (nth i (d_cl d) 0%Z))
             (if (nth i (d_dd2 d) 0 =? -1)%Z then repeat 0 (c_D g) else np_get (repeat 0 (c_D g)) (V2 s) (nth i (d_dd2 d) 0%Z)))
    (b, xrow_V2a g d s i).
Proof.
  intros HW. destruct (wrow_spec (W s) _ _ (nth i (d_cl d) 0%Z) HW) as [La Ea]. unfold np_vmul. split.
  - eapply Nat.le_trans; [apply zipw_length_le | rewrite La; apply Nat.le_refl].
  - intros k. cbn [snd]. unfold xrow_V2a, vmul, znth. rewrite vnth_zipw_mul, Ea, getrow_vnth.
    destruct (Nat.lt_ge_cases k (c_D g)) as [Hk|Hk]; [now rewrite vnth_tab|].
    unfold vnth at 1 3. rewrite (nth_overflow (tab _ _)) by (rewrite tab_length; lia).
    fold (vnth (py_r (W s) (nth i (d_cl d) 0%Z)) k). rewrite <- Ea. unfold vnth at 1.
    rewrite (nth_overflow (np_get _ _ _)) by lia. ring.
Qed.

Lemma rel_V2b g d s b i : shape2 (W s) (c_ncl g) (c_D g) ->
  row_rel (c_D g)
    (np_vmul (np_get (repeat 0 (c_D g)) (W s) (nth i (d_cl d) 0%Z))
             (if (nth i (d_dd1 d) 0 =? -1)%Z then repeat 0 (c_D g) else np_get (repeat 0 (c_D g)) (V2 s) (nth i (d_dd1 d) 0%Z)))
    (b, xrow_V2b g d s i).
Proof.
  intros HW. destruct (wrow_spec (W s) _ _ (nth i (d_cl d) 0%Z) HW) as [La Ea]. unfold np_vmul. split.
  - eapply Nat.le_trans; [apply zipw_length_le | rewrite La; apply Nat.le_refl].
  - intros k. cbn [snd]. unfold xrow_V2b, vmul, znth. rewrite vnth_zipw_mul, Ea, getrow_vnth.
    destruct (Nat.lt_ge_cases k (c_D g)) as [Hk|Hk]; [now rewrite vnth_tab|].
    unfold vnth at 1 3. rewrite (nth_overflow (tab _ _)) by (rewrite tab_length; lia).
    fold (vnth (py_r (W s) (nth i (d_cl d) 0%Z)) k). rewrite <- Ea. unfold vnth at 1.
    rewrite (nth_overflow (np_get _ _ _)) by lia. ring.
Qed.

Lemma rel_V1 g d s b i : shape2 (W s) (c_ncl g) (c_D g) ->
  row_rel (c_D g) (np_get (repeat 0 (c_D g)) (W s) (nth i (d_cl d) 0%Z)) (b, xrow_V1 g d s i).
Proof.
  intros HW. rewrite (xrow_V1_is_model g d s i HW). split; [unfold xrow_V1; rewrite tab_length; lia | reflexivity].
Qed.

Lemma resid_rows g d s xr cur idx :
  np_vadd (np_vsub (map (fun i => nth i (d_y d) 0) idx) (map (fun i => nth i (Mu s) 0) idx))
          (map (fun r => vdot (c_D g) (snd r) cur) (mk_rows g d s xr cur idx))
  = map fst (mk_rows g d s xr cur idx).
Proof. unfold mk_rows, np_vadd, np_vsub. rewrite !map_map, !zipw_map. reflexivity. Qed.

Lemma lam_V2_rel g s m j : (j < c_D g)%nat ->
  vnth (np_vmul (np_get [] (phi2 s) (Z.of_nat m)) (eta2 s)) j = vnth (lam_V2 g s m) j.
Proof. intros Hj. unfold np_vmul, lam_V2. rewrite vnth_zipw_mul, np_get_nat, vnth_tab by exact Hj. reflexivity. Qed.

Theorem src_V2_step_is_model g d orc s :
  length (V2 s) = c_ndd g -> shape2 (W s) (c_ncl g) (c_D g) -> shape2 (phi2 s) (c_ndd g) (c_D g) -> length (eta2 s) = c_D g ->
  prog_eq (to_prog (src_V2_step g d s)) (step_prog g d orc BV2 s).
Proof.
  intros HV HW Hphi Heta. unfold src_V2_step. cbv zeta. cbn [step_prog]. rewrite zrange_of_nat.
  eapply prog_eq_trans; [apply to_prog_gbind|].
  eapply prog_eq_trans; [|apply bind_ret_r]. apply bind_cong; [|intros; apply prog_eq_refl].
  apply (fold_is_seq_blocks (fun s' => W s' = W s /\ phi2 s' = phi2 s /\ eta2 s' = eta2 s /\ length (V2 s') = c_ndd g)
           _ (fun m s' => block_V2 g d s' m)).
  - intros s' m Hin (EW & Ephi & Eeta & HV'). assert (Hm : (m < length (V2 s'))%nat) by (apply in_seq in Hin; lia).
    assert (Hm' : (m < c_ndd g)%nat) by lia.
    rewrite <- EW in HW. rewrite <- Ephi in Hphi. rewrite <- Eeta in Heta. clear Hin HV' EW Ephi Eeta HV s.
    cbv beta. unfold block_V2, block_V. cbv zeta. rewrite sum_of_nat_eqb0, <- app_length.
    generalize (positions (Z.of_nat m) (d_dd1 d)) as idx1. generalize (positions (Z.of_nat m) (d_dd2 d)) as idx2. intros idx2 idx1.
    destruct (idx1 ++ idx2) as [|i0 idx0] eqn:E; cbn [length fst snd].
    + unfold draw_normal_vec. cbn [gbind]. rewrite !map_map. unfold np_vmul. rewrite np_get_nat.
      fold (rnth (phi2 s') m). rewrite (zipw_rows Qcmult _ _ (c_D g) (proj2 Hphi m Hm') Heta), map_tab.
      unfold lam_V2. rewrite map_tab. constructor. intros v. rewrite np_store_nat. apply geq_refl.
    + rewrite <- E. clear E i0 idx0.
      rewrite ?src_get_is_model. cbn [gbind]. unfold np_take, np_gather. rewrite !map_map. unfold q0, qnum.
      rewrite ?zipw_map.
      repeat match goal with |- context [if (Z.of_nat (length ?l) =? 0)%Z then GRet ?e else GRet ?t] =>
        match eval pattern l in t with ?F _ =>
          replace (if (Z.of_nat (length l) =? 0)%Z then GRet e else GRet t) with (GRet t)
            by (symmetry; exact (if_len_nil_gen l F e eq_refl))
        end end.
      cbn [gbind]. cbv beta iota.
      rewrite (np_get_nat [] (V2 s') m). fold (rnth (V2 s') m). set (cur := rnth (V2 s') m).
      match goal with |- context [np_matvec (map ?f idx1) cur] => set (xa := f) end.
      match goal with |- context [np_matvec (map ?f idx2) cur] => set (xb := f) end.
      set (rows1 := mk_rows g d s' (xrow_V2a g d s') cur idx1).
      set (rows2 := mk_rows g d s' (xrow_V2b g d s') cur idx2).
      assert (HX1 : Forall2 (row_rel (c_D g)) (map xa idx1) rows1)
        by (apply Forall2_map_same; intros x; apply rel_V2a, HW).
      assert (HX2 : Forall2 (row_rel (c_D g)) (map xb idx2) rows2)
        by (apply Forall2_map_same; intros x; apply rel_V2b, HW).
      pose proof (Forall2_app HX1 HX2) as HX.
      rewrite (matvec_rel _ _ _ cur HX1), (matvec_rel _ _ _ cur HX2).
      unfold rows1 at 1, rows2 at 1. rewrite !resid_rows. fold rows1 rows2. rewrite <- !map_app.
      rewrite (xtr_rel _ _ _ (prec s') HX).
      rewrite (gram_rel _ _ _ (prec s') HX _ (lam_V2 g s' m)) by (intros; now apply lam_V2_rel).
      unfold draw_mvn. cbn [gbind]. constructor. intros [q|w|mm|]; try apply geq_refl.
      rewrite np_store_nat. cbn [V2 set_V2 Mu]. rewrite np_get_nat, nth_set_nth_same by exact Hm.
      rewrite (matvec_rel _ _ _ w HX). unfold np_vsub. rewrite zipw_map. apply geq_refl.
  - intros s' m v _ (EW & Ephi & Eeta & HV'). unfold block_V2, block_V. cbv zeta.
    destruct (_ ++ _); cbn [snd]; [|destruct v]; cbn [W V2 phi2 eta2 set_V2 set_Mu]; rewrite ?set_nth_length; auto.
  - auto.
Qed.

Lemma lam_V1_rel g s m j : (j < c_D g)%nat ->
  vnth (np_vmul (np_get [] (phi1 s) (Z.of_nat m)) (eta1 s)) j = vnth (lam_V1 g s m) j.
Proof. intros Hj. unfold np_vmul, lam_V1. rewrite vnth_zipw_mul, np_get_nat, vnth_tab by exact Hj. reflexivity. Qed.


Theorem src_V1_step_is_model g d orc s :
  length (V1 s) = c_ndd g -> shape2 (W s) (c_ncl g) (c_D g) -> shape2 (phi1 s) (c_ndd g) (c_D g) -> length (eta1 s) = c_D g ->
  prog_eq (to_prog (src_V1_step g d s)) (step_prog g d orc BV1 s).
Proof.
  intros HV HW Hphi Heta. unfold src_V1_step. cbv zeta. cbn [step_prog]. rewrite zrange_of_nat.
  eapply prog_eq_trans; [apply to_prog_gbind|].
  eapply prog_eq_trans; [|apply bind_ret_r]. apply bind_cong; [|intros; apply prog_eq_refl].
  apply (fold_is_seq_blocks (fun s' => W s' = W s /\ phi1 s' = phi1 s /\ eta1 s' = eta1 s /\ length (V1 s') = c_ndd g)
           _ (fun m s' => block_V1 g d s' m)).
  - intros s' m Hin (EW & Ephi & Eeta & HV'). assert (Hm : (m < length (V1 s'))%nat) by (apply in_seq in Hin; lia).
    assert (Hm' : (m < c_ndd g)%nat) by lia.
    rewrite <- EW in HW. rewrite <- Ephi in Hphi. rewrite <- Eeta in Heta. clear Hin HV' EW Ephi Eeta HV s.
    cbv beta. unfold block_V1, block_V. cbv zeta. rewrite sum_of_nat_eqb0, <- app_length.
    generalize (positions (Z.of_nat m) (d_dd1 d)) as idx1. generalize (positions (Z.of_nat m) (d_dd2 d)) as idx2. intros idx2 idx1.
    destruct (idx1 ++ idx2) as [|i0 idx0] eqn:E; cbn [length fst snd].
    + unfold draw_normal_vec. cbn [gbind]. rewrite !map_map. unfold np_vmul. rewrite np_get_nat.
      fold (rnth (phi1 s') m). rewrite (zipw_rows Qcmult _ _ (c_D g) (proj2 Hphi m Hm') Heta), map_tab.
      unfold lam_V1. rewrite map_tab. constructor. intros v. rewrite np_store_nat. apply geq_refl.
    + rewrite <- E. clear E i0 idx0.
      rewrite ?src_get_is_model. cbn [gbind]. unfold np_take, np_gather. rewrite !map_map. unfold q0, qnum.
      rewrite ?zipw_map.
      repeat match goal with |- context [if (Z.of_nat (length ?l) =? 0)%Z then GRet ?e else GRet ?t] =>
        match eval pattern l in t with ?F _ =>
          replace (if (Z.of_nat (length l) =? 0)%Z then GRet e else GRet t) with (GRet t)
            by (symmetry; exact (if_len_nil_gen l F e eq_refl))
        end end.
      cbn [gbind]. cbv beta iota.
      rewrite (np_get_nat [] (V1 s') m). fold (rnth (V1 s') m). set (cur := rnth (V1 s') m).
      match goal with |- context [np_matvec (map ?f idx1) cur] => set (xa := f) end.
      set (rows1 := mk_rows g d s' (xrow_V1 g d s') cur idx1).
      set (rows2 := mk_rows g d s' (xrow_V1 g d s') cur idx2).
      assert (HX1 : Forall2 (row_rel (c_D g)) (map xa idx1) rows1)
        by (apply Forall2_map_same; intros x; apply rel_V1, HW).
      assert (HX2 : Forall2 (row_rel (c_D g)) (map xa idx2) rows2)
        by (apply Forall2_map_same; intros x; apply rel_V1, HW).
      pose proof (Forall2_app HX1 HX2) as HX. rewrite <- map_app in HX.
      rewrite (matvec_rel _ _ _ cur HX1), (matvec_rel _ _ _ cur HX2).
      unfold rows1 at 1, rows2 at 1. rewrite !resid_rows. fold rows1 rows2. rewrite <- !map_app.
      rewrite (xtr_rel _ _ _ (prec s') HX).
      rewrite (gram_rel _ _ _ (prec s') HX _ (lam_V1 g s' m)) by (intros; now apply lam_V1_rel).
      unfold draw_mvn. cbn [gbind]. constructor. intros [q|w|mm|]; try apply geq_refl.
      rewrite np_store_nat. cbn [V1 set_V1 Mu]. rewrite np_get_nat, nth_set_nth_same by exact Hm.
      rewrite (matvec_rel _ _ _ w HX). unfold np_vsub. rewrite zipw_map. apply geq_refl.
  - intros s' m v _ (EW & Ephi & Eeta & HV'). unfold block_V1, block_V. cbv zeta.
    destruct (_ ++ _); cbn [snd]; [|destruct v]; cbn [W V1 phi1 eta1 set_V1 set_Mu]; rewrite ?set_nth_length; auto.
  - auto.
Qed.

(* ---------------------------------------------------------------- _reconstruct_Mu *)
Lemma zmap_as_tab {B} (f : Z -> B) (l : list Z) : map f l = tab (length l) (fun i => f (znth l i)).
Proof. apply (map_as_tab_gen 0%Z). Qed.

Lemma vadd_tab n a b : np_vadd (tab n a) (tab n b) = tab n (fun i => a i + b i).
Proof. apply zipw_tab. Qed.

Lemma mu_row_is_model g s c d1 d2 :
  shape2 (W s) (c_ncl g) (c_D g) -> shape2 (V2 s) (c_ndd g) (c_D g) -> shape2 (V1 s) (c_ndd g) (c_D g) ->
  let row M ix := if (ix =? -1)%Z then repeat 0 (c_D g) else np_get (repeat 0 (c_D g)) M ix in
  let num v ix := if (ix =? -1)%Z then 0 else np_get 0 v ix in
  alpha s + np_get 0 (W0 s) c + num (V0 s) d1 + num (V0 s) d2
  + qsum (np_vmul (np_get (repeat 0 (c_D g)) (W s) c) (np_vadd (row (V1 s) d1) (row (V1 s) d2)))
  + qsum (np_vmul (np_vmul (np_get (repeat 0 (c_D g)) (W s) c) (row (V2 s) d1)) (row (V2 s) d2))
  = mu_row (c_D g) s c d1 d2.
Proof.
  intros HW H2 H1. cbv zeta. unfold mu_row. cbv zeta.
  destruct (wrow_spec (W s) _ _ c HW) as [Lw Ew].
  destruct (getrow_spec (V2 s) _ _ d1 H2) as [La Ea]. destruct (getrow_spec (V2 s) _ _ d2 H2) as [Lb Eb].
  destruct (getrow_spec (V1 s) _ _ d1 H1) as [Lc Ec]. destruct (getrow_spec (V1 s) _ _ d2 H1) as [Ld Ed].
  cbv zeta in *. unfold np_vmul, np_vadd.
  rewrite (zipw_rows Qcplus _ _ _ Lc Ld), (zipw_rows Qcmult _ _ _ Lw La).
  rewrite (zipw_rows Qcmult _ _ (c_D g) Lw (tab_length _ _)), (zipw_rows Qcmult _ _ (c_D g) (tab_length _ _) Lb).
  change (qsum (tab ?n ?f)) with (sumn n f). unfold vdot, vadd.
  f_equal; [f_equal|].
  - apply sumn_ext. intros k Hk. rewrite !vnth_tab by exact Hk. now rewrite Ew, Ec, Ed.
  - apply sumn_ext. intros k Hk. rewrite !vnth_tab by exact Hk. now rewrite Ew, Ea, Eb.
Qed.

Theorem src_reconstruct_Mu_is_model g d clip s :
  length (d_cl d) = nobs d -> length (d_dd1 d) = nobs d -> length (d_dd2 d) = nobs d ->
  shape2 (W s) (c_ncl g) (c_D g) -> shape2 (V2 s) (c_ndd g) (c_D g) -> shape2 (V1 s) (c_ndd g) (c_D g) ->
  src_reconstruct_Mu g d clip s = GRet (reconstruct_Mu g d clip s).
Proof.
  intros Lc L1 L2 HW H2 H1. unfold src_reconstruct_Mu, reconstruct_Mu. rewrite src_n_obs_is_model. cbn [gbind].
  rewrite of_nat_eqb0. destruct (nobs d) as [|n'] eqn:En; [reflexivity|]. rewrite <- En in *. clear En n'.
  cbv zeta. rewrite !src_get_is_model. cbn [gbind]. unfold np_take, np_sadd, q0, qnum.
  rewrite !zmap_as_tab, Lc, L1, L2.
  repeat (first [rewrite zipw_tab | rewrite map_tab | rewrite vadd_tab]).
  cbn [Mu set_Mu].
  match goal with |- gbind (if clip then GRet (set_Mu _ (map ?c (tab ?n ?F))) else GRet (set_Mu _ (tab ?n ?F))) _ = _ =>
    assert (HF : tab n F = reconstruct g d s) end.
  { unfold reconstruct. apply tab_ext. intros i _. unfold mu_at.
    rewrite <- (mu_row_is_model g s _ _ _ HW H2 H1). cbv zeta. unfold np_vmul, np_vadd. ring. }
  rewrite HF. destruct clip; reflexivity.
Qed.

(* ---------------------------------------------------------------- _update, encode_obs: the index dicts the blocks read *)
Lemma positions_snoc k keys c :
  positions k (keys ++ [c]) = positions k keys ++ (if (c =? k)%Z then [length keys] else []).
Proof.
  unfold positions. rewrite app_length. cbn [length]. rewrite Nat.add_1_r, seq_S, filter_app. cbn [Nat.add filter].
  f_equal.
  - apply filter_ext_in. intros i Hi. apply in_seq in Hi. unfold znth. rewrite app_nth1 by lia. reflexivity.
  - unfold znth. rewrite app_nth2 by lia. rewrite Nat.sub_diag. cbn [nth]. reflexivity.
Qed.

Lemma dl_get_append dct k n k' :
  dl_get (dl_append dct k n) k' = dl_get dct k' ++ (if (k =? k')%Z then [n] else []).
Proof.
  induction dct as [|[k0 l] r IH]; cbn [dl_append dl_get].
  - destruct (k =? k')%Z; reflexivity.
  - destruct (Z.eqb_spec k0 k) as [->|Hne]; cbn [dl_get].
    + destruct (k =? k')%Z; [reflexivity | now rewrite app_nil_r].
    + destruct (Z.eqb_spec k0 k') as [->|Hne']; [|apply IH].
      destruct (Z.eqb_spec k k') as [->|_]; [congruence | now rewrite app_nil_r].
Qed.

(* _update keeps the representation: the new observation gets the next number, appended under its three keys *)
Theorem src_update_is_model o d y cl dd1 dd2 :
  obs_rep o d -> length (d_cl d) = nobs d -> length (d_dd1 d) = nobs d -> length (d_dd2 d) = nobs d ->
  exists o', src_update o y cl dd1 dd2 = Ok o' /\ obs_rep o' (data_snoc d y cl dd1 dd2).
Proof.
  intros (Ey & Ec & E1 & E2 & Hc & H1 & H2) Lc L1 L2. eexists. split; [reflexivity|].
  unfold obs_rep, data_snoc. cbn -[positions dl_get dl_append]. rewrite Ey, Ec, E1, E2. repeat split; intros k;
    rewrite dl_get_append, positions_snoc, ?Hc, ?H1, ?H2, ?Lc, ?L1, ?L2; reflexivity.
Qed.

Theorem obs_rep_empty : obs_rep obs_empty data_empty.
Proof. repeat split. Qed.

Theorem src_encode_obs_is_model o d : obs_rep o d -> src_encode_obs o = Ok (d_y d, d_cl d, d_dd1 d, d_dd2 d).
Proof. intros (Ey & Ec & E1 & E2 & _). unfold src_encode_obs. now rewrite Ey, Ec, E1, E2. Qed.
