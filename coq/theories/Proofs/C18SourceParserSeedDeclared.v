(* The option tables of evaluate_model.get_parser() and analyze_model_evaluation.get_parser(), read from /repo on every run:
   both DECLARE --seed (an int option with a non-negative default), like the four randomised commands.  Neither main() reads
   args.seed: evaluate_model is deterministic without it (Props/C18.v re-states its link: the argument record of the translated
   main has no seed component and its vocabulary no generator); analyze_model_evaluation is NOT (harness/c18.py, known finding
   analyze-model-evaluation-cli-ignores-seed). *)
From Coq Require Import ZArith List Bool.
From Batchie Require Import Lib.Sexp Lib.PyRt Model.Cli Proofs.C18Parser Generated.SrcParser_evaluate_model Generated.SrcParser_analyze_model_evaluation.
Import ListNotations.
Open Scope Z_scope.

Theorem parser_evaluate_model_seed : seed_declared src_parser_evaluate_model.
Proof. apply seed_declaredb_sound. vm_compute. reflexivity. Qed.

Theorem parser_analyze_model_evaluation_seed : seed_declared src_parser_analyze_model_evaluation.
Proof. apply seed_declaredb_sound. vm_compute. reflexivity. Qed.
