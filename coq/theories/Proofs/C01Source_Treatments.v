(* C01, one piece of Proofs/C01Source.v (which see): encode_treatment_arrays_to_0_indexed_ids *)
From Coq Require Import ZArith List Bool Lia ZifyBool Arith Sorted.
From Batchie Require Import Lib.Sexp Lib.PyRt Generated.Consts Generated.SrcArithC01 Model.Encode Model.Screen Generated.SrcEncode
  Generated.SrcScreenIds Proofs.PyRtLemmas Proofs.C01Sort Proofs.C01Encode Proofs.C03Screen
  Proofs.C01Source_Base.
Import ListNotations.
Open Scope Z_scope.

(* ---------- the control columns and the id assignment of encode_treatment_arrays_to_0_indexed_ids ---------- *)
Lemma control_column ctrl (su : list tkey) :
  series_or (series_le0 (kcol_dose (df_fresh su))) (series_eq_name (kcol_name (df_fresh su)) ctrl) = map (is_control ctrl) su.
Proof.
  unfold kcol_dose, kcol_name. rewrite <- !(map_map snd), df_fresh_lab, lab_rows.
  unfold series_or, series_le0, series_eq_name.
  induction su as [|k su IH]; cbn [map combine fst snd]; [reflexivity|]. now rewrite IH.
Qed.

Lemma add_control_column ctrl (su : list tkey) : forall s,
  df_add_col (lab s su) (map (is_control ctrl) su) = lab s (map (fun k => (k, is_control ctrl k)) su).
Proof.
  unfold df_add_col. induction su as [|k su IH]; intros s; [reflexivity|].
  cbn [map]. rewrite !lab_cons. cbn [combine map fst snd]. now rewrite IH.
Qed.

(* the frame after `df_unique["new_index"] = df_unique.index - df_unique.is_control.cumsum()`, row by row:
   (label, ((index column, ((name, dose), is_control)), label - inclusive running count of controls)) *)
Fixpoint id_rows (ctrl : name) (s cum : Z) (su : list tkey) : nframe :=
  match su with
  | [] => []
  | k :: r =>
      let c := is_control ctrl k in
      let cum' := if c then cum + 1 else cum in
      (s, ((s, (k, c)), s - cum')) :: id_rows ctrl (s + 1) cum' r
  end.

Lemma new_index_column ctrl (su : list tkey) : forall s cum,
  let d2 : iframe := lab s (lab s (map (fun k => (k, is_control ctrl k)) su)) in
  df_add_col d2 (series_sub (df_index d2) (cumsum_from cum (icol_is_control d2))) = id_rows ctrl s cum su.
Proof.
  cbv zeta. unfold df_add_col, series_sub, df_index, icol_is_control.
  induction su as [|k su IH]; intros s cum; [reflexivity|].
  cbn [map]. rewrite !lab_cons. cbn [map fst snd cumsum_from combine id_rows]. now rewrite IH.
Qed.

Lemma id_rows_index ctrl su : forall s cum, df_index (id_rows ctrl s cum su) = zseq s (length su).
Proof.
  unfold df_index. induction su as [|k su IH]; intros s cum; [reflexivity|].
  cbn [id_rows map fst length]. now rewrite IH, zseq_S.
Qed.

Lemma id_rows_is_control ctrl su : forall s cum, ncol_is_control (id_rows ctrl s cum su) = map (is_control ctrl) su.
Proof.
  unfold ncol_is_control. induction su as [|k su IH]; intros s cum; [reflexivity|].
  cbn [id_rows map fst snd]. now rewrite IH.
Qed.

(* the labels selected by a boolean column *)
Lemma series_select_In {A} (f : A -> bool) (l : list A) : forall s z,
  In z (series_select (map f l) (zseq s (length l))) <-> exists i a, nth_error l i = Some a /\ f a = true /\ z = s + Z.of_nat i.
Proof.
  unfold series_select. induction l as [|a l IH]; intros s z.
  - cbn. split; [tauto|]. intros (i & a & H & _). destruct i; discriminate.
  - cbn [length map]. rewrite zseq_S. cbn [combine filter fst].
    assert (Htl : In z (map snd (filter fst (combine (map f l) (zseq (s + 1) (length l))))) <->
                  exists i a', nth_error (a :: l) (S i) = Some a' /\ f a' = true /\ z = s + Z.of_nat (S i)).
    { rewrite IH. cbn [nth_error]. split; intros (i & a' & H1 & H2 & H3); exists i, a'; repeat split; try assumption; lia. }
    destruct (f a) eqn:E; cbn [map snd In]; rewrite Htl; split.
    + intros [<-|(i & a' & H)]; [exists 0%nat, a; cbn [nth_error]; repeat split; [exact E | lia] | exists (S i), a'; exact H].
    + intros ([|i] & a' & H1 & H2 & H3); [left; lia | right; exists i, a'; now repeat split].
    + intros (i & a' & H). exists (S i), a'. exact H.
    + intros ([|i] & a' & H1 & H2 & H3); [cbn [nth_error] in H1; congruence | exists i, a'; now repeat split].
Qed.

Lemma selected_labels {A} (f : A -> bool) (l : list A) s i a :
  nth_error l i = Some a -> existsb (Z.eqb (s + Z.of_nat i)) (series_select (map f l) (zseq s (length l))) = f a.
Proof.
  intros Hn. apply eq_true_iff_eq. rewrite existsb_exists. split.
  - intros (z & Hz & E). apply Z.eqb_eq in E. subst z. apply series_select_In in Hz as (j & b & H1 & H2 & H3).
    assert (j = i) by lia. subst j. congruence.
  - intros Hf. exists (s + Z.of_nat i). split; [|apply Z.eqb_refl]. apply series_select_In. now exists i, a.
Qed.

(* override of the selected labels, then `del index`, `del is_control` = the model's assignment *)
Lemma id_rows_final ctrl su : forall s cum sel,
  (forall i k, nth_error su i = Some k -> existsb (Z.eqb (s + Z.of_nat i)) sel = is_control ctrl k) ->
  map snd (df_del_is_control (df_del_index (df_loc_set (id_rows ctrl s cum su) sel CONTROL_SENTINEL_VALUE)))
  = assign_from ctrl s cum su.
Proof.
  unfold df_del_is_control, df_del_index, df_loc_set.
  induction su as [|k su IH]; intros s cum sel H; [reflexivity|].
  cbn [id_rows assign_from map fst snd].
  pose proof (H 0%nat k eq_refl) as H0. cbn [Z.of_nat] in H0. rewrite Z.add_0_r in H0. rewrite H0.
  rewrite IH.
  - destruct (is_control ctrl k); reflexivity.
  - intros i k' Hi. rewrite <- (H (S i) k' Hi). f_equal. f_equal. lia.
Qed.

(* the whole `else` branch: the frame df_unique ends as, from the frame df *)
Definition src_built_frame (ctrl : name) (df : kframe) : mframe :=
  let df_unique : kframe := df_reset_drop (df_sort_values tkey_cmp (df_drop_duplicates tkey_eqb df)) in
  let is_control := series_or (series_le0 (kcol_dose df_unique)) (series_eq_name (kcol_name df_unique) ctrl) in
  let df_unique : cframe := df_add_col df_unique is_control in
  let df_unique : iframe := df_reset_keep df_unique in
  let df_unique : nframe := df_add_col df_unique (series_sub (df_index df_unique) (series_cumsum (icol_is_control df_unique))) in
  let selection := series_select (ncol_is_control df_unique) (df_index df_unique) in
  let df_unique : nframe := df_loc_set df_unique selection CONTROL_SENTINEL_VALUE in
  df_del_is_control (df_del_index df_unique).

Lemma src_built_frame_rows ctrl (keys : list tkey) :
  map snd (src_built_frame ctrl (df_fresh keys)) = build_tmapping ctrl keys.
Proof.
  unfold src_built_frame, build_tmapping. cbv zeta.
  rewrite (dedup_sort_reset tkey_eqb tkey_cmp keys tkey_eqb_eq tkey_cmp_spec).
  set (su := sort_uniq tkey_cmp keys). rewrite control_column.
  rewrite (df_fresh_lab su), add_control_column. unfold df_reset_keep. rewrite df_fresh_lab.
  unfold series_cumsum. rewrite new_index_column.
  rewrite id_rows_index, id_rows_is_control. apply id_rows_final.
  intros i k Hi. apply (selected_labels (is_control ctrl) su 0 i k Hi).
Qed.

(* ---------- encode_treatment_arrays_to_0_indexed_ids ---------- *)
Lemma mframe_cols (m : tmapping) (d : mframe) : map snd d = m ->
  mcol_name d = map (fun e => fst (fst e)) m /\ mcol_dose d = map (fun e => snd (fst e)) m /\ mcol_new_index d = map snd m.
Proof. intros <-. unfold mcol_name, mcol_dose, mcol_new_index. rewrite !map_map. repeat split. Qed.

(* merge + the NaN check + the four returned arrays, for any frame df_unique whose rows are a key-unique mapping m *)
Lemma src_encode_treatments_tail (keys : list tkey) (m : tmapping) (d : mframe) : map snd d = m -> NoDup (map fst m) ->
  (if negb (all_true (series_notna (jcol_new_index (df_merge_left tkey_eqb (df_fresh keys) d)))) then Err 5
   else Ok (jcol_new_index (df_merge_left tkey_eqb (df_fresh keys) d), mcol_name d, mcol_dose d, mcol_new_index d))
  = match opt_map_all (tlookup m) keys with
    | Some ids => Ok (map Some ids, map (fun e => fst (fst e)) m, map (fun e => snd (fst e)) m, map snd m)
    | None => Err 5
    end.
Proof.
  intros Hd Hn. rewrite (merge_left_ids tkey_eqb tkey_eqb_eq m Hn _ d Hd), df_fresh_lab, lab_rows.
  rewrite (map_ext _ _ (lookup_first_tlookup m)).
  destruct (mframe_cols m d Hd) as (-> & -> & ->).
  pose proof (notna_opt_map_all (tlookup m) keys) as H.
  destruct (opt_map_all (tlookup m) keys) as [ids|]; [destruct H as [-> ->] | rewrite H]; reflexivity.
Qed.

Theorem src_encode_treatments_is_model : forall (names : list name) (doses : list Z) (ctrl : name) (existing : option tmap_py),
  match existing with Some t => NoDup (map fst (tmap_py_rows t)) | None => True end ->
  src_encode_treatment_arrays names doses ctrl existing
  = if negb (Nat.eqb (length names) (length doses)) then Err 15
    else if match existing with Some t => negb (tmap_py_aligned t) | None => false end then Err 15
    else dor r <- encode_treatments (combine names doses) ctrl (option_map tmap_py_rows existing);
         Ok (map Some (fst r), map (fun e => fst (fst e)) (snd r), map (fun e => snd (fst e)) (snd r), map snd (snd r)).
Proof.
  intros names doses ctrl existing Hex. unfold src_encode_treatment_arrays, df_of_cols2.
  destruct (Nat.eqb (length names) (length doses)); cbn [negb res_bind]; [|reflexivity].
  set (keys := combine names doses). unfold encode_treatments.
  destruct existing as [[[a b] [isint c]]|]; cbn [is_some unwrap res_bind option_map fst snd].
  - unfold mframe_of_cols, df_of_cols3, tmap_py_aligned. cbn [fst snd].
    destruct (Nat.eqb (length a) (length b) && Nat.eqb (length b) (length c)); cbn [negb res_bind]; [|reflexivity].
    unfold tmap_py_rows in *. cbn [fst snd] in *. set (m := combine (combine a b) c) in *. cbv zeta.
    etransitivity; [apply (src_encode_treatments_tail keys m (df_fresh m)); [now rewrite df_fresh_lab, lab_rows | exact Hex]|].
    destruct (opt_map_all (tlookup m) keys); reflexivity.
  - cbv zeta. change (df_del_is_control _) with (src_built_frame ctrl (df_fresh keys)).
    etransitivity; [apply (src_encode_treatments_tail keys (build_tmapping ctrl keys)); [apply src_built_frame_rows | apply built_keys_NoDup]|].
    destruct (opt_map_all (tlookup (build_tmapping ctrl keys)) keys); reflexivity.
Qed.

(* the round-1 reading of the control comparison (Generated/SrcArithC01.v) is the operator the translation applies
   to the dose column: the constant is redundant now, and consistent *)
Theorem src_dose_is_control_consistent : forall doses : list Z, series_le0 doses = map src_dose_is_control doses.
Proof. reflexivity. Qed.
