(* C12: the plate counters of extract_screen_metadata across a reveal; constructor rules; set_observed. *)
From Coq Require Import ZArith List Bool Lia Arith.
From Batchie Require Import Lib.Sexp Generated.Consts Model.Encode Model.Screen Model.Reveal Model.Holdout
  Proofs.C03Base Proofs.C03Screen Proofs.C12Reveal.
Import ListNotations.
Open Scope Z_scope.

(* ---------- counters ---------- *)
Lemma plate_observed_reveal_list ids pid (l : list (row * Z)) :
  forallb (fun rp => negb (snd rp =? pid) || r_mask (fst rp))
          (map (fun rp => (reveal_row ids rp, snd rp)) l)
  = forallb (fun rp => negb (snd rp =? pid) || r_mask (fst rp)) l || mem_Z pid ids.
Proof.
  induction l as [|[r p] l IH]; cbn [map forallb fst snd].
  - reflexivity.
  - rewrite IH. unfold reveal_row. cbn [fst snd]. rewrite with_mask_mask.
    destruct (p =? pid) eqn:E; cbn [negb orb andb].
    + apply Z.eqb_eq in E. subst p.
      destruct (r_mask r), (mem_Z pid ids), (forallb (fun rp => negb (snd rp =? pid) || r_mask (fst rp)) l); reflexivity.
    + reflexivity.
Qed.

Lemma plate_observed_reveal v s ids s' pid :
  plates_encoded s -> reveal_plates v s ids = Ok s' ->
  plate_observed s' pid = plate_observed s pid || mem_Z pid ids.
Proof.
  intros Hs H. destruct (reveal_exact v s ids s' Hs H) as (Hrows & _ & Hp & _).
  unfold plate_observed. rewrite Hrows, Hp, combine_map_self. apply plate_observed_reveal_list.
Qed.

Theorem unobserved_drop v s ids s' :
  plates_encoded s -> reveal_plates v s ids = Ok s' ->
  n_unobserved_plates s = (n_unobserved_plates s' + length (newly_revealed s ids))%nat /\
  n_plates s' = n_plates s /\ unique_plate_ids s' = unique_plate_ids s.
Proof.
  intros Hs H. destruct (reveal_exact v s ids s' Hs H) as (_ & _ & Hp & _).
  assert (HU : unique_plate_ids s' = unique_plate_ids s) by (unfold unique_plate_ids; now rewrite Hp).
  unfold n_unobserved_plates, newly_revealed, n_plates. rewrite HU. repeat split.
  rewrite (filter_split_length (fun pid => negb (plate_observed s pid)) (fun pid => mem_Z pid ids)).
  f_equal. f_equal. apply filter_ext_in'. intros pid _.
  rewrite (plate_observed_reveal v s ids s' pid Hs H). now rewrite negb_orb.
Qed.

Theorem observed_plus_unobserved s : (n_observed_plates s + n_unobserved_plates s = n_plates s)%nat.
Proof.
  unfold n_observed_plates, n_unobserved_plates, n_plates. induction (unique_plate_ids s) as [|a l IH]; cbn [filter length]; [reflexivity|].
  destruct (plate_observed s a); cbn [negb length]; lia.
Qed.

(* ---------- constructor rules ---------- *)
Lemma mk_screen_err2 rows a c tm sm og mg :
  mk_screen rows a c tm sm og mg = Err 2 -> arity_ok a rows = true /\ plate_uniform (norm_rows og mg rows) = false.
Proof.
  rewrite mk_screen_unfold.
  destruct (arity_ok a rows); cbn [negb]; [|discriminate].
  destruct (negb og && mg); [discriminate|]. cbv zeta.
  destruct (plate_uniform (norm_rows og mg rows)); cbn [negb]; [|auto].
  destruct (tmap_bad tm); [discriminate|]. destruct (smap_bad sm); [discriminate|].
  unfold encode_treatments. destruct (opt_map_all _ _); cbn [res_bind]; [|discriminate].
  unfold encode_names at 1. destruct (opt_map_all _ _); cbn [res_bind]; [|discriminate].
  unfold encode_names. destruct (opt_map_all _ _); cbn [res_bind]; discriminate.
Qed.

Theorem ctor_rejects_mixed rows a c tm sm r1 r2 :
  arity_ok a rows = true -> In r1 rows -> In r2 rows -> r_plate r1 = r_plate r2 -> r_mask r1 <> r_mask r2 ->
  mk_screen rows a c tm sm true true = Err 2.
Proof.
  intros Ha H1 H2 Hp Hm. rewrite mk_screen_unfold, Ha. cbn [negb andb]. cbv zeta. rewrite norm_rows_tt.
  destruct (plate_uniform rows) eqn:E; cbn [negb]; [|reflexivity].
  exfalso. apply Hm. exact (proj1 (plate_uniform_spec rows) E r1 r2 H1 H2 Hp).
Qed.

Theorem ctor_err2_only_if_mixed rows a c tm sm og mg :
  mk_screen rows a c tm sm og mg = Err 2 ->
  og = true /\ mg = true /\
  exists r1 r2, In r1 rows /\ In r2 rows /\ r_plate r1 = r_plate r2 /\ r_mask r1 <> r_mask r2.
Proof.
  intros H. apply mk_screen_err2 in H. destruct H as [_ H]. apply plate_uniform_false in H.
  destruct H as (r1 & r2 & H1 & H2 & Hp & Hm).
  destruct og, mg; unfold norm_rows in H1, H2.
  - repeat split; auto. now exists r1, r2.
  - exfalso. apply in_map_iff in H1. apply in_map_iff in H2. destruct H1 as (x1 & <- & _). destruct H2 as (x2 & <- & _). now apply Hm.
  - exfalso. apply in_map_iff in H1. apply in_map_iff in H2. destruct H1 as (x1 & <- & _). destruct H2 as (x2 & <- & _). now apply Hm.
  - exfalso. apply in_map_iff in H1. apply in_map_iff in H2. destruct H1 as (x1 & <- & _). destruct H2 as (x2 & <- & _). now apply Hm.
Qed.

Theorem ctor_obs_without_mask rows a c tm sm s :
  mk_screen rows a c tm sm true false = Ok s ->
  s_rows s = map (with_mask true) rows /\
  (forall r, In r (s_rows s) -> r_mask r = true) /\ map r_obs (s_rows s) = map r_obs rows.
Proof.
  intros H. apply mk_screen_inv in H. destruct H as [tflat B]. pose proof (b_rows _ _ _ _ _ _ _ _ _ B) as Hr.
  unfold norm_rows in Hr. change (s_rows s = map (with_mask true) rows) in Hr. rewrite Hr. repeat split.
  - intros r Hin. apply in_map_iff in Hin. now destruct Hin as (x & <- & _).
  - now rewrite map_map.
Qed.

Theorem ctor_no_obs rows a c tm sm mg s :
  mk_screen rows a c tm sm false mg = Ok s ->
  mg = false /\ (forall r, In r (s_rows s) -> r_mask r = false /\ r_obs r = 0) /\
  map (fun r => (r_sample r, r_plate r, r_treats r)) (s_rows s) = map (fun r => (r_sample r, r_plate r, r_treats r)) rows.
Proof.
  intros H. apply mk_screen_inv in H. destruct H as [tflat B]. pose proof (b_rows _ _ _ _ _ _ _ _ _ B) as Hr.
  pose proof (b_flags _ _ _ _ _ _ _ _ _ B) as Hf. cbn [negb andb] in Hf.
  unfold norm_rows in Hr. rewrite Hr. repeat split; auto.
  - apply in_map_iff in H. now destruct H as (x & <- & _).
  - apply in_map_iff in H. now destruct H as (x & <- & _).
  - now rewrite map_map.
Qed.

Theorem ctor_mask_without_obs rows a c tm sm :
  arity_ok a rows = true -> mk_screen rows a c tm sm false true = Err 7.
Proof. intros Ha. rewrite mk_screen_unfold, Ha. reflexivity. Qed.

(* ---------- set_observed ---------- *)
(* how many selected positions precede position i *)
Definition rank (sel : list bool) (i : nat) : nat := count_true (firstn i sel).

Lemma assign_spec sel : forall vals rows i,
  length sel = length rows -> length vals = count_true sel ->
  nth_error (assign sel vals rows) i =
  match nth_error sel i with
  | Some true => option_map (with_obs (nth (rank sel i) vals 0)) (nth_error rows i)
  | _ => nth_error rows i
  end.
Proof.
  induction sel as [|b sel IH]; intros vals rows i Hl Hv.
  - destruct rows; [|discriminate]. cbn [assign]. now destruct i.
  - destruct rows as [|r rows]; [discriminate|]. cbn [length] in Hl.
    destruct b; cbn [assign].
    + unfold count_true in Hv. cbn [filter length] in Hv. destruct vals as [|x vals]; [discriminate|].
      destruct i as [|i]; cbn [nth_error].
      * reflexivity.
      * rewrite IH by (cbn [length] in Hv; unfold count_true; lia).
        unfold rank, count_true. cbn [firstn filter length nth]. reflexivity.
    + unfold count_true in Hv. cbn [filter] in Hv.
      destruct i as [|i]; cbn [nth_error]; [reflexivity|].
      rewrite IH by (unfold count_true; lia). unfold rank, count_true. cbn [firstn filter]. reflexivity.
Qed.

Lemma assign_length sel : forall vals rows, length (assign sel vals rows) = length rows.
Proof.
  induction sel as [|b sel IH]; intros vals rows; [now destruct rows|].
  destruct rows as [|r rows]; [reflexivity|]. cbn [assign].
  destruct b; [destruct vals|]; cbn [length]; now rewrite IH.
Qed.

Theorem set_observed_exact s sel vals s' :
  set_observed s sel vals = Ok s' ->
  length sel = length (s_rows s) /\
  (exists vs, (vs = vals \/ exists x, vals = [x] /\ vs = repeat x (count_true sel)) /\
              length vs = count_true sel /\
              forall i, nth_error (s_rows s') i =
                        match nth_error sel i with
                        | Some true => option_map (with_obs (nth (rank sel i) vs 0)) (nth_error (s_rows s) i)
                        | _ => nth_error (s_rows s) i
                        end) /\
  s_arity s' = s_arity s /\ s_ctrl s' = s_ctrl s /\ s_tmap s' = s_tmap s /\ s_smap s' = s_smap s /\ s_pmap s' = s_pmap s /\
  s_tids s' = s_tids s /\ s_sids s' = s_sids s /\ s_pids s' = s_pids s.
Proof.
  unfold set_observed. destruct (Nat.eqb (length sel) (length (s_rows s))) eqn:El; cbn [negb]; [|discriminate].
  apply Nat.eqb_eq in El.
  destruct (Nat.eqb (length vals) (count_true sel)) eqn:Ev.
  - apply Nat.eqb_eq in Ev. intros H; inversion H; subst s'; clear H.
    cbn [s_rows s_arity s_ctrl s_tmap s_smap s_pmap s_tids s_sids s_pids].
    split; [exact El|]. split; [|repeat split].
    exists vals. split; [now left|]. split; [exact Ev|]. intros i. now apply assign_spec.
  - destruct vals as [|x [|y vals]]; try discriminate.
    intros H; inversion H; subst s'; clear H.
    cbn [s_rows s_arity s_ctrl s_tmap s_smap s_pmap s_tids s_sids s_pids].
    split; [exact El|]. split; [|repeat split].
    exists (repeat x (count_true sel)). split; [right; now exists x|]. split; [apply repeat_length|].
    intros i. apply assign_spec; [exact El|apply repeat_length].
Qed.

Theorem set_observed_refuses s sel vals :
  (length sel <> length (s_rows s) -> set_observed s sel vals = Err 10) /\
  (length sel = length (s_rows s) -> length vals <> count_true sel -> length vals <> 1%nat -> set_observed s sel vals = Err 11).
Proof.
  unfold set_observed. split.
  - intros H. apply Nat.eqb_neq in H. now rewrite H.
  - intros H1 H2 H3. apply Nat.eqb_eq in H1. rewrite H1. cbn [negb]. apply Nat.eqb_neq in H2. rewrite H2.
    destruct vals as [|x [|y vals]]; try reflexivity. now cbn [length] in H3.
Qed.

(* ---------- what the counters count ---------- *)
Fixpoint ssorted (l : list Z) : Prop :=
  match l with
  | [] => True
  | x :: r => Forall (Z.lt x) r /\ ssorted r
  end.

Lemma insert_uniq_sorted k l :
  ssorted l ->
  ssorted (insert_uniq Z.compare k l) /\
  (forall y, Forall (Z.lt y) l -> y < k -> Forall (Z.lt y) (insert_uniq Z.compare k l)).
Proof.
  induction l as [|x r IH]; intros Hs; cbn [insert_uniq].
  - split; [cbn [ssorted]; auto|]. intros y _ Hy. constructor; [exact Hy|constructor].
  - destruct Hs as [Hx Hr]. destruct (IH Hr) as [IH1 IH2].
    destruct (k ?= x) eqn:E.
    + split; [split; assumption|]. intros y Hy _. exact Hy.
    + rewrite Z.compare_lt_iff in E. split.
      * cbn [ssorted]. split; [|split; assumption].
        constructor; [exact E|]. eapply Forall_impl; [|exact Hx]. intros a Ha. lia.
      * intros y Hy Hyk. constructor; [exact Hyk|exact Hy].
    + rewrite Z.compare_gt_iff in E. split.
      * cbn [ssorted]. split; [|exact IH1]. apply IH2; [exact Hx|exact E].
      * intros y Hy Hyk. inversion Hy as [|? ? Hyx Hyr]; subst. constructor; [exact Hyx|]. now apply IH2.
Qed.

Lemma sort_uniq_sorted l : ssorted (sort_uniq Z.compare l).
Proof.
  unfold sort_uniq. induction l as [|a l IH]; cbn [fold_right]; [exact I|]. now apply insert_uniq_sorted.
Qed.

Lemma ssorted_NoDup l : ssorted l -> NoDup l.
Proof.
  induction l as [|x r IH]; intros Hs; [constructor|]. destruct Hs as [Hx Hr]. constructor; [|now apply IH].
  intros Hin. rewrite Forall_forall in Hx. specialize (Hx x Hin). lia.
Qed.

Theorem unique_plate_ids_spec s :
  NoDup (unique_plate_ids s) /\ forall pid, In pid (unique_plate_ids s) <-> In pid (s_pids s).
Proof.
  split; [apply ssorted_NoDup, sort_uniq_sorted|].
  intros pid. apply In_sort_uniq. intros a b. apply Z.compare_eq.
Qed.

Theorem newly_revealed_spec s ids :
  NoDup (newly_revealed s ids) /\
  forall pid, In pid (newly_revealed s ids) <-> (In pid (s_pids s) /\ In pid ids /\ plate_observed s pid = false).
Proof.
  unfold newly_revealed. split.
  - apply NoDup_filter. apply unique_plate_ids_spec.
  - intros pid. rewrite filter_In, (proj2 (unique_plate_ids_spec s) pid), andb_true_iff, negb_true_iff.
    unfold mem_Z. rewrite existsb_exists. split.
    + intros (H1 & H2 & x & Hx & He). apply Z.eqb_eq in He. subst x. auto.
    + intros (H1 & H2 & H3). repeat split; auto. exists pid. split; [exact H2|apply Z.eqb_refl].
Qed.

Theorem plate_observed_spec s pid :
  plate_observed s pid = true <->
  (forall r, In (r, pid) (combine (s_rows s) (s_pids s)) -> r_mask r = true).
Proof.
  unfold plate_observed. rewrite forallb_forall. split.
  - intros H r Hin. specialize (H (r, pid) Hin). cbn [fst snd] in H. rewrite Z.eqb_refl in H. exact H.
  - intros H [r p] Hin. cbn [fst snd]. destruct (p =? pid) eqn:E; [|reflexivity].
    apply Z.eqb_eq in E. subst p. cbn [negb orb]. now apply H.
Qed.
