(* The reporting site of property C20: cli/analyze_model_evaluation.main.  The hand-written model CliAnalyze.cli_analyze
   equals the translation of the WHOLE function of /repo, regenerated on every run (Generated/SrcCliAnalyze.v,
   configuration CLI_ANALYZE of harness/src_functions.py), for every record of library functions and all parsed
   arguments; consequences: what a successful run reports, and that the three reported numbers are the definitions. *)
From Coq Require Import ZArith List Bool QArith Qcanon.
From Batchie Require Import Lib.Sexp Lib.Num Lib.PyRt Model.Cli Model.CliAnalyze Model.Metrics Generated.SrcCliAnalyze Proofs.PyRtLemmas
  Proofs.C20Spec Proofs.C20Metrics Generated.SrcMetrics Proofs.C20SourceMetrics.
From Batchie Require Export Proofs.C20SourceCli_AnalyzeMain.
Import ListNotations.
Open Scope Z_scope.

(* the link itself is a file of its own (failure isolation: C18 re-uses it without the metric translations):
   src_cli_analyze_is_model : src_cli_analyze Scr Th Ev Co F L a = cli_analyze L a *)

(* a run whose loads succeed reports exactly this, in this order: the similarity matrix is computed on the loaded --screen
   and the concatenation of ALL --thetas files in argument order; every plot of the evaluation and the summary come from
   the loaded --model-evaluation; which metric goes under which key *)
Theorem src_cli_analyze_reports :
  forall (Scr Th Ev Co F : Type) (L : an_lib Scr Th Ev Co F) (a : an_args) hs th scr e c,
  res_map_all (an_load_thetas L) (an_thetas a) = Ok hs ->
  an_concat_thetas L hs = Ok th ->
  an_load_screen L (an_screen a) = Ok scr ->
  an_load_eval L (an_model_evaluation a) = Ok e ->
  an_correlation_matrix L scr th = Ok c ->
  src_cli_analyze Scr Th Ev Co F L a
  = Ok [AnMkdir (an_output_dir a);
        AnHeat c (an_output_dir a, N_heat);
        AnScatter e (an_output_dir a, N_scatter) (Some (an_seed a));
        AnScatterSample e (an_output_dir a, N_scatter_sample) (Some (an_seed a));
        AnViolin e (an_output_dir a, N_violin) None;
        AnViolin e (an_output_dir a, N_violin99) (Some 99);
        AnSummary (mk_an_summary (an_mse L e) (an_mse_variance L e) (an_inter_chain L e)) (an_output_dir a, N_summary)].
Proof.
  intros Scr Th Ev Co F L a hs th scr e c H1 H2 H3 H4 H5.
  rewrite src_cli_analyze_is_model. unfold cli_analyze, cli_analyze_gen.
  rewrite H1. cbn [res_bind]. rewrite H2. cbn [res_bind]. rewrite H3. cbn [res_bind]. rewrite H4. cbn [res_bind].
  rewrite H5. cbn [res_bind]. reflexivity.
Qed.

(* whatever summary a run reports is the summary of the loaded evaluation *)
Lemma reported_summary_of :
  forall (Scr Th Ev Co F : Type) (L : an_lib Scr Th Ev Co F) (a : an_args) e s,
  an_load_eval L (an_model_evaluation a) = Ok e ->
  reported_summary (src_cli_analyze Scr Th Ev Co F L a) = Some s ->
  s = mk_an_summary (an_mse L e) (an_mse_variance L e) (an_inter_chain L e).
Proof.
  intros Scr Th Ev Co F L a e s He. rewrite src_cli_analyze_is_model. unfold cli_analyze, cli_analyze_gen.
  destruct (res_map_all (an_load_thetas L) (an_thetas a)) as [hs|t]; cbn [res_bind reported_summary]; [|discriminate].
  destruct (an_concat_thetas L hs) as [th|t]; cbn [res_bind reported_summary]; [|discriminate].
  destruct (an_load_screen L (an_screen a)) as [scr|t]; cbn [res_bind reported_summary]; [|discriminate].
  rewrite He. cbn [res_bind].
  destruct (an_correlation_matrix L scr th) as [c|t]; cbn [res_bind reported_summary]; [|discriminate].
  cbn [flat_map app]. intros H. injection H as <-. reflexivity.
Qed.

(* the reported numbers are the definitions: the library's metric methods being the TRANSLATED ModelEvaluation.mse /
   mse_variance / inter_chain_mse_variance (Generated/SrcMetrics.v) at the loaded evaluation, which is one the (translated)
   constructor built *)
Theorem reported_summary_is_definition :
  forall (Scr Th Co : Type) (L : an_lib Scr Th evaluation Co (result Qc)) (a : an_args) m P o ch nm e s,
  an_load_eval L (an_model_evaluation a) = Ok e ->
  mk_eval m P o ch nm = Ok e ->
  an_mse L e = src_ev_mse e -> an_mse_variance L e = src_ev_mse_variance e ->
  an_inter_chain L e = src_ev_inter_chain_mse_variance m e ->
  reported_summary (src_cli_analyze Scr Th evaluation Co (result Qc) L a) = Some s ->
  let nan := Nat.eqb (length P) 0 || Nat.eqb m 0 in
  sum_mse s = (if nan then Err E_NAN else Ok (mse_def P o (length P) m))
  /\ sum_mse_variance s = (if nan then Err E_NAN else Ok (mse_variance_def P o (length P) m))
  /\ sum_inter_chain s = (if nan then Err E_NAN else Ok (inter_chain_def P o ch (length P) m)).
Proof.
  intros Scr Th Co L a m P o ch nm e s He Hm H1 H2 H3 Hs nan.
  rewrite (reported_summary_of _ _ _ _ _ L a e s He Hs). cbn [sum_mse sum_mse_variance sum_inter_chain].
  rewrite H1, H2, H3.
  rewrite (src_ev_mse_is_model m P o ch nm e Hm), (src_ev_mse_variance_is_model m P o ch nm e Hm),
    (src_ev_inter_chain_is_model m P o ch nm e Hm).
  rewrite (mse_eq m P o ch nm e Hm), (mse_variance_eq m P o ch nm e Hm), (inter_chain_eq m P o ch nm e Hm).
  repeat split; reflexivity.
Qed.
