(* C18: the hand-written programs of Model/RandProg.v equal the translations of the corresponding functions of
   /repo, regenerated on every run (Generated/SrcRand.v, by harness/py2gal.py with the C18_* configurations of
   harness/src_functions.py, whose monad is RandProg's resumption type), for all inputs.

   Equality of programs is [prog_eq_on okA] (Model/RandProg.v): the same requests in the same order and the same
   outputs, for every answer the predicate [okA] admits - [any_answer] (all answers) for the random scorer and the
   DBAL sub-sampling, the numpy contract [valid_answer] for the two hold-out splits (an index outside the screen
   would make `selection_vector[indices] = True` raise; rng.choice returns elements of its pool).  It is sound
   for replay ([run]) and for execution against any generator ([exec]) - first part of this file. *)
From Coq Require Import ZArith List Bool Lia ZifyBool.
From Batchie Require Import Lib.Sexp Lib.PyRt Proofs.PyRtLemmas Model.RandProg Generated.SrcRand Proofs.C18RandProg.
Import ListNotations.
Open Scope Z_scope.

(* ---------------------------------------------------------------- program equality: laws and soundness *)
Section ProgEq.
  Context {Req Ans : Type} (okA : Req -> Ans -> bool).

  Lemma peq_refl : forall Out (p : prog Req Ans Out), prog_eq_on okA p p.
  Proof. intros Out p. induction p as [o | r k IH]; constructor. intros a _. apply IH. Qed.

  Lemma peq_sym : forall Out (p q : prog Req Ans Out), prog_eq_on okA p q -> prog_eq_on okA q p.
  Proof. intros Out p q H. induction H as [o | r k k' _ IH]; constructor. exact IH. Qed.

  Lemma peq_trans : forall Out (p q s : prog Req Ans Out),
    prog_eq_on okA p q -> prog_eq_on okA q s -> prog_eq_on okA p s.
  Proof.
    intros Out p q s H. revert s. induction H as [o | r k k' _ IH]; intros s Hs.
    - exact Hs.
    - inversion Hs as [| r0 k0 k'' Hk]; subst. constructor. intros a Ha. apply IH; [exact Ha | apply Hk; exact Ha].
  Qed.

  Lemma peq_bind : forall A B (p p' : prog Req Ans A) (f f' : A -> prog Req Ans B),
    prog_eq_on okA p p' -> (forall a, prog_eq_on okA (f a) (f' a)) -> prog_eq_on okA (bind p f) (bind p' f').
  Proof.
    intros A B p p' f f' H Hf. induction H as [o | r k k' _ IH]; cbn [bind]; [apply Hf | constructor; exact IH].
  Qed.

  Lemma peq_bind_assoc : forall A B C (p : prog Req Ans A) (f : A -> prog Req Ans B) (g : B -> prog Req Ans C),
    prog_eq_on okA (bind (bind p f) g) (bind p (fun x => bind (f x) g)).
  Proof.
    intros A B C p f g. induction p as [o | r k IH]; cbn [bind]; [apply peq_refl | constructor; intros a _; apply IH].
  Qed.

  Lemma peq_bind_ret : forall A (p : prog Req Ans A), prog_eq_on okA (bind p (fun x => Ret x)) p.
  Proof. intros A p. induction p as [o | r k IH]; cbn [bind]; constructor. intros a _. apply IH. Qed.

  (* a weaker contract admits more answers: equality for it is the stronger statement *)
  Lemma peq_weaken : forall (ok2 : Req -> Ans -> bool) Out (p q : prog Req Ans Out),
    (forall r a, ok2 r a = true -> okA r a = true) -> prog_eq_on okA p q -> prog_eq_on ok2 p q.
  Proof. intros ok2 Out p q Hw H. induction H as [o | r k k' _ IH]; constructor. intros a Ha. apply IH, Hw, Ha. Qed.

  (* soundness for execution against a generator whose answers satisfy the contract *)
  Lemma peq_exec : forall Out S (gen : S -> Req -> Ans * S) (p q : prog Req Ans Out),
    (forall s r, okA r (fst (gen s r)) = true) -> prog_eq_on okA p q -> forall s, exec gen p s = exec gen q s.
  Proof.
    intros Out S gen p q Hg H. induction H as [o | r k k' _ IH]; intros s; [reflexivity|].
    cbn [exec]. rewrite (IH (fst (gen s r)) (Hg s r) (snd (gen s r))). reflexivity.
  Qed.

  (* soundness for replay: a successful replay whose consumed answers satisfy the contract *)
  Lemma peq_run : forall Out (p q : prog Req Ans Out), prog_eq_on okA p q ->
    forall answers o rs, run p answers = Ok (o, rs) -> all_ok okA rs answers = true -> run q answers = Ok (o, rs).
  Proof.
    intros Out p q H. induction H as [o0 | r k k' _ IH]; intros answers o rs Hr Hok; [exact Hr|].
    cbn [run] in *. destruct answers as [| a rest]; [discriminate|].
    destruct (run (k a) rest) as [[o1 rs1] | t] eqn:E; [| discriminate].
    inversion Hr; subst o rs. cbn [all_ok] in Hok. apply andb_true_iff in Hok as [Ha Hrest].
    rewrite (IH a Ha rest o1 rs1 E Hrest). reflexivity.
  Qed.
End ProgEq.

(* with no condition on the answers the two programs replay alike on EVERY answer list, failures included *)
Lemma peq_run_any : forall Req Ans Out (p q : prog Req Ans Out), prog_eq_on any_answer p q ->
  forall answers, run p answers = run q answers.
Proof.
  intros Req Ans Out p q H. induction H as [o | r k k' _ IH]; intros answers; [reflexivity|].
  cbn [run]. destruct answers as [| a rest]; [reflexivity|]. rewrite (IH a eq_refl rest). reflexivity.
Qed.

Lemma all_ok_valid : forall rs al, answers_ok rs al = true -> all_ok valid_answer rs al = true.
Proof.
  induction rs as [| r rs IH]; intros al H; [reflexivity|]. destruct al as [| a al]; cbn [answers_ok all_ok] in *; [discriminate|].
  apply andb_true_iff in H as [Ha Hr]. rewrite Ha, (IH al Hr). reflexivity.
Qed.

(* ---------------------------------------------------------------- scoring/rand.py: RandomScorer.score *)
(* the comprehension's loop, for an arbitrary body equal to the canonical one; [d] = the dict built so far *)
Lemma scorer_loop (f : list (Z * Z) -> Z -> rprog (list (Z * Z))) :
  (forall d k, f d k = Draw RRandom (fun a => Ret (Ok (dict_set d k (hd 0 a))))) ->
  forall plates d, NoDup (map fst d ++ plates) ->
    prog_eq_on any_answer (rp_fold f plates d)
                          (bind (for_each random_scorer_body plates) (fun out => Ret (Ok (d ++ out)))).
Proof.
  intros Hf. induction plates as [| k r IH]; intros d Hnd.
  - cbn. rewrite app_nil_r. apply peq_refl.
  - cbn [rp_fold for_each]. rewrite Hf. unfold random_scorer_body at 1. cbn [rp_bind bind].
    constructor. intros a _. cbn [bind].
    eapply peq_trans; [| apply peq_sym, peq_bind_assoc]. cbn [bind].
    rewrite dict_set_fresh by (apply NoDup_remove_2 in Hnd; intros X; apply Hnd, in_or_app; now left).
    eapply peq_trans.
    + apply IH. rewrite map_app. cbn [map fst]. rewrite <- app_assoc. exact Hnd.
    + apply peq_bind; [apply peq_refl|]. intros out. rewrite <- app_assoc. apply peq_refl.
Qed.

(* the keys of a dict are pairwise distinct: [NoDup plates] holds of every reachable input *)
Theorem src_random_scorer_is_model : forall plates, NoDup plates ->
  prog_eq_on any_answer (src_random_scorer_score plates) (lift_ok (random_scorer_prog plates)).
Proof.
  intros plates Hnd. unfold src_random_scorer_score, lift_ok, random_scorer_prog.
  eapply peq_trans; [apply (peq_bind any_answer _ _ _ (bind (for_each random_scorer_body plates) (fun out => Ret (Ok ([] ++ out))))) |].
  - apply scorer_loop; [intros d k; reflexivity | exact Hnd].
  - intros r. apply peq_refl.
  - eapply peq_trans; [apply peq_bind_assoc|]. cbn [bind app]. apply peq_refl.
Qed.

(* ---------------------------------------------------------------- scoring/gaussian_dbal.py: the triple sub-sampling *)
(* here the two programs are the same term up to computation *)
Theorem src_dbal_subsample_is_model : forall n_thetas max_combos,
  src_dbal_subsample n_thetas max_combos = dbal_subsample_prog n_thetas max_combos.
Proof.
  intros n m. unfold src_dbal_subsample, dbal_subsample_prog. destruct (binom3 n =? 0); reflexivity.
Qed.

(* ---------------------------------------------------------------- selection vectors *)
Lemma memZ_In : forall x l, memZ x l = true <-> In x l.
Proof.
  intros x l. unfold memZ. rewrite existsb_exists. split.
  - intros (y & Hy & E). apply Z.eqb_eq in E. now subst.
  - intros H. exists x. split; [exact H | apply Z.eqb_refl].
Qed.

Lemma memZ_app : forall x a b, memZ x (a ++ b) = memZ x a || memZ x b.
Proof. intros. unfold memZ. apply existsb_app. Qed.

Lemma in_zrange : forall n i, In i (zrange n) <-> 0 <= i < n.
Proof.
  intros n i. unfold zrange. rewrite in_map_iff. split.
  - intros (j & <- & Hj). apply in_seq in Hj. lia.
  - intros H. exists (Z.to_nat i). split; [lia | apply in_seq; lia].
Qed.

Lemma zrange_length : forall n, length (zrange n) = Z.to_nat n.
Proof. intros. unfold zrange. now rewrite map_length, seq_length. Qed.

Lemma zlen_mask_of : forall size l, zlen (mask_of size l) = Z.of_nat (Z.to_nat size).
Proof. intros. unfold zlen, mask_of. now rewrite map_length, zrange_length. Qed.

Lemma zrange_to_nat : forall n, zrange (Z.of_nat (Z.to_nat n)) = zrange n.
Proof. intros. unfold zrange. now rewrite Nat2Z.id. Qed.

Lemma mask_zeros_is_mask_of : forall size, mask_zeros size = mask_of size [].
Proof.
  intros. unfold mask_zeros, mask_of. rewrite <- zrange_length.
  induction (zrange size) as [| x l IH]; cbn [length repeat map]; [reflexivity | now rewrite IH].
Qed.

Lemma map_combine_map {A B C : Type} (g : A -> B) (h : A * B -> C) :
  forall l, map h (combine l (map g l)) = map (fun x => h (x, g x)) l.
Proof. induction l as [| x l IH]; cbn [map combine]; [reflexivity | now rewrite IH]. Qed.

(* numpy's index-array store on a vector that is [mask_of size acc], for indices inside the screen *)
Lemma mask_set_true_valid : forall size acc idx, (forall i, In i idx -> 0 <= i < size) ->
  mask_set_true (mask_of size acc) idx = Ok (mask_of size (acc ++ idx)).
Proof.
  intros size acc idx Hin. unfold mask_set_true. rewrite zlen_mask_of.
  assert (Hn : forall i, In i idx -> 0 <= i < Z.of_nat (Z.to_nat size)) by (intros i Hi; apply Hin in Hi; lia).
  replace (forallb _ idx) with true.
  2:{ symmetry. apply forallb_forall. intros i Hi. apply Hn in Hi. lia. }
  replace (map (wrap_index (Z.of_nat (Z.to_nat size))) idx) with idx.
  2:{ rewrite <- (map_id idx) at 1. apply map_ext_in. intros i Hi. apply Hn in Hi. unfold wrap_index.
      destruct (i <? 0) eqn:E; [lia | reflexivity]. }
  rewrite zrange_to_nat. unfold mask_of at 1. rewrite map_combine_map. cbn [fst snd].
  unfold mask_of. f_equal. apply map_ext. intros i. now rewrite memZ_app.
Qed.

Lemma memZ_filter : forall (p : Z -> bool) i l, memZ i (filter p l) = memZ i l && p i.
Proof.
  intros p i l. unfold memZ. induction l as [| x l IH]; cbn [filter existsb]; [reflexivity|].
  destruct (p x) eqn:Ep; cbn [existsb]; rewrite IH.
  - destruct (Z.eqb_spec i x) as [-> |]; cbn [orb]; [rewrite Ep; now rewrite andb_true_r | reflexivity].
  - destruct (Z.eqb_spec i x) as [-> |]; cbn [orb]; [rewrite Ep; now rewrite andb_false_r | reflexivity].
Qed.

(* the representation map forgets nothing: the vector of the held rows is the vector of the chosen rows *)
Lemma mask_of_held : forall size l, mask_of size (held_of size l) = mask_of size l.
Proof.
  intros size l. unfold mask_of, held_of. apply map_ext_in. intros i Hi.
  rewrite memZ_filter. apply memZ_In in Hi. rewrite Hi. reflexivity.
Qed.

Lemma valid_choice_in_pool : forall pool k rep a, valid_answer (RChoice pool k rep) a = true ->
  forall i, In i a -> In i pool.
Proof.
  intros pool k rep a H i Hi. cbn [valid_answer] in H.
  apply andb_true_iff in H as [H _]. apply andb_true_iff in H as [_ H].
  rewrite forallb_forall in H. apply memZ_In, H, Hi.
Qed.

(* the two Screen(...) constructions after the draws *)
Lemma holdout_tail {Scr : Type} (mk_keep mk_hold : Scr -> list bool -> result Scr) (screen : Scr) (sel : list bool) :
  (dop k <- rp_lift (mk_keep screen sel); dop h <- rp_lift (mk_hold screen sel); rp_ret (k, h))
  = Ret (holdout_finish mk_keep mk_hold screen sel).
Proof.
  unfold holdout_finish, rp_lift, rp_ret. cbn [rp_bind bind].
  destruct (mk_keep screen sel) as [k | t]; cbn [res_bind]; [| reflexivity].
  cbn [rp_bind bind]. destruct (mk_hold screen sel) as [h | t]; reflexivity.
Qed.

(* ---------------------------------------------------------------- retrospective.py: create_random_holdout *)
Theorem src_random_holdout_is_model :
  forall (Scr : Type) (scr_size : Scr -> Z) (mk_keep mk_hold : Scr -> list bool -> result Scr) num den screen,
  prog_eq_on valid_answer
    (src_random_holdout Scr scr_size mk_keep mk_hold num den screen)
    (if (num <? 0) || (den <? num) then Ret (Err 5)
     else bind (random_holdout_prog (scr_size screen) num den)
               (fun held => Ret (holdout_finish mk_keep mk_hold screen (mask_of (scr_size screen) held)))).
Proof.
  intros Scr scr_size mk_keep mk_hold num den screen. unfold src_random_holdout, random_holdout_prog.
  destruct ((num <? 0) || (den <? num)); [apply peq_refl|].
  unfold rp_choice, rp_draw. cbn [rp_bind bind]. constructor. intros a Ha.
  rewrite mask_zeros_is_mask_of, mask_set_true_valid.
  2:{ intros i Hi. apply in_zrange. exact (valid_choice_in_pool _ _ _ _ Ha i Hi). }
  unfold rp_lift at 1. cbn [bind app]. fold (rp_lift (mk_keep screen (mask_of (scr_size screen) a))).
  change (prog_eq_on valid_answer
            (dop k <- rp_lift (mk_keep screen (mask_of (scr_size screen) a));
             dop h <- rp_lift (mk_hold screen (mask_of (scr_size screen) a)); rp_ret (k, h))
            (Ret (holdout_finish mk_keep mk_hold screen (mask_of (scr_size screen) (held_of (scr_size screen) a))))).
  rewrite holdout_tail, mask_of_held. apply peq_refl.
Qed.

(* ---------------------------------------------------------------- retrospective.py: create_plate_balanced_holdout_set_among_masked_plates *)
(* the loop over the plates, for an arbitrary body equal to the canonical one and arbitrary continuations that agree
   on the selection vector of the rows chosen so far ([acc]) and by the rest of the loop *)
Lemma balanced_loop {B : Type} (size num den : Z) (f : list bool -> plate_t -> rprog (list bool)) :
  (forall sel pl, f sel pl =
     if snd pl then Ret (Ok sel)
     else Draw (balanced_holdout_req num den pl)
               (fun a => match mask_set_true sel a with Ok s => Ret (Ok s) | Err t => Ret (Err t) end)) ->
  forall plates acc (Ksrc : list bool -> rprog B) (K : list (list Z) -> prog req ans (result B)),
    (forall pl i, In pl plates -> In i (fst pl) -> 0 <= i < size) ->
    (forall chosen, prog_eq_on valid_answer (Ksrc (mask_of size (acc ++ concat chosen))) (K chosen)) ->
    prog_eq_on valid_answer (rp_bind (rp_fold f plates (mask_of size acc)) Ksrc)
                            (bind (for_each (balanced_holdout_body num den) plates) K).
Proof.
  intros Hf. induction plates as [| pl rest IH]; intros acc Ksrc K Hin HK.
  - cbn. specialize (HK []). cbn [concat] in HK. rewrite app_nil_r in HK. exact HK.
  - cbn [rp_fold for_each]. rewrite Hf. unfold balanced_holdout_body at 1.
    assert (Hrest : forall pl0 i, In pl0 rest -> In i (fst pl0) -> 0 <= i < size)
      by (intros pl0 i Hp; apply Hin; now right).
    destruct (snd pl) eqn:Eo.
    + cbn [rp_bind bind].
      eapply peq_trans; [| apply peq_sym, peq_bind_assoc]. cbn [bind].
      apply (IH acc Ksrc (fun bs => K ([] :: bs)) Hrest). intros chosen. exact (HK ([] :: chosen)).
    + cbn [rp_bind bind]. constructor. intros a Ha.
      rewrite mask_set_true_valid.
      2:{ intros i Hi. apply (Hin pl i); [now left|]. exact (valid_choice_in_pool _ _ _ _ Ha i Hi). }
      cbn [bind].
      eapply peq_trans; [| apply peq_sym, peq_bind_assoc]. cbn [bind].
      apply (IH (acc ++ a) Ksrc (fun bs => K (a :: bs)) Hrest). intros chosen.
      specialize (HK (a :: chosen)). cbn [concat] in HK. rewrite app_assoc in HK. exact HK.
Qed.

(* hypotheses = facts about every reachable screen: every row lies on exactly one plate, so the plates' index
   lists have [screen.size] entries in all (H1) and every entry is a row number (H2) *)
Theorem src_balanced_holdout_is_model :
  forall (Scr : Type) (scr_size : Scr -> Z) (scr_plates : Scr -> list plate_t)
         (mk_keep mk_hold : Scr -> list bool -> result Scr) num den screen,
  scr_size screen = zlen (concat (map fst (scr_plates screen))) ->
  (forall pl i, In pl (scr_plates screen) -> In i (fst pl) -> 0 <= i < scr_size screen) ->
  prog_eq_on valid_answer
    (src_balanced_holdout_prog Scr scr_size scr_plates mk_keep mk_hold num den screen)
    (if (num <? 0) || (den <? num) then Ret (Err 5)
     else bind (balanced_holdout_prog (scr_plates screen) num den)
               (fun held => Ret (holdout_finish mk_keep mk_hold screen (mask_of (scr_size screen) held)))).
Proof.
  intros Scr scr_size scr_plates mk_keep mk_hold num den screen H1 H2.
  unfold src_balanced_holdout_prog, balanced_holdout_prog.
  destruct ((num <? 0) || (den <? num)); [apply peq_refl|].
  eapply peq_trans; [| apply peq_sym, peq_bind_assoc]. cbn [bind].
  rewrite mask_zeros_is_mask_of.
  apply (balanced_loop (scr_size screen) num den).
  - intros sel pl. reflexivity.
  - exact H2.
  - intros chosen. cbn [app]. rewrite holdout_tail, <- H1, mask_of_held. apply peq_refl.
Qed.

(* ---------------------------------------------------------------- the trace theorems, transferred to the source *)
Theorem src_random_scorer_trace : forall plates answers, NoDup plates ->
  (length plates <= length answers)%nat ->
  run (src_random_scorer_score plates) answers
  = Ok (Ok (map (fun xa => (fst xa, hd 0 (snd xa))) (combine plates answers)), map (fun _ => RRandom) plates).
Proof.
  intros plates answers Hnd Hl.
  rewrite (peq_run_any _ _ _ _ _ (src_random_scorer_is_model plates Hnd)). unfold lift_ok.
  rewrite run_bind_ret, (random_scorer_trace plates answers Hl). reflexivity.
Qed.

Theorem src_balanced_holdout_trace :
  forall (Scr : Type) (scr_size : Scr -> Z) (scr_plates : Scr -> list plate_t)
         (mk_keep mk_hold : Scr -> list bool -> result Scr) num den screen answers out reqs,
  scr_size screen = zlen (concat (map fst (scr_plates screen))) ->
  (forall pl i, In pl (scr_plates screen) -> In i (fst pl) -> 0 <= i < scr_size screen) ->
  (num <? 0) || (den <? num) = false ->
  run (src_balanced_holdout_prog Scr scr_size scr_plates mk_keep mk_hold num den screen) answers = Ok (out, reqs) ->
  all_ok valid_answer reqs answers = true ->
  reqs = map (balanced_holdout_req num den) (filter (fun pl => negb (snd pl)) (scr_plates screen)).
Proof.
  intros Scr scr_size scr_plates mk_keep mk_hold num den screen answers out reqs H1 H2 Hfr Hrun Hok.
  pose proof (src_balanced_holdout_is_model Scr scr_size scr_plates mk_keep mk_hold num den screen H1 H2) as Heq.
  rewrite Hfr in Heq.
  pose proof (peq_run valid_answer _ _ _ Heq answers out reqs Hrun Hok) as Hm.
  rewrite run_bind_ret in Hm.
  destruct (run (balanced_holdout_prog (scr_plates screen) num den) answers) as [[x rs] | t] eqn:E; [| discriminate].
  inversion Hm; subst. exact (balanced_holdout_trace _ _ _ _ _ _ E).
Qed.

(* ---------------------------------------------------------------- retrospective.py: FixedSizeSmoother / OptimalSizeSmoother._smooth_plates *)
(* a loop whose body neither raises nor draws is a fold_left *)
Lemma rp_fold_pure {S A : Type} (f : S -> A -> rprog S) (g : S -> A -> S) :
  (forall s a, f s a = rp_ret (g s a)) -> forall l s, rp_fold f l s = rp_ret (fold_left g l s).
Proof.
  intros H l. induction l as [| a l IH]; intros s; cbn [rp_fold fold_left]; [reflexivity|].
  rewrite H. cbn [rp_ret rp_bind bind]. apply IH.
Qed.

(* the loop over the plates, for an arbitrary body equal to the canonical one; [acc] = the vectors kept so far *)
Lemma size_loop {B : Type} (size t : Z) (f : list (list bool) -> list bool -> rprog (list (list bool))) :
  (forall res v, f res v =
     if count_true v <? t then Ret (Ok res)
     else if count_true v =? t then Ret (Ok (res ++ [v]))
     else Draw (size_smoother_req size t v) (fun a => Ret (Ok (res ++ [mask_of size a])))) ->
  forall plates acc (Ksrc : list (list bool) -> rprog B) (K : list (list (list bool)) -> prog req ans (result B)),
    (forall kept, prog_eq_on any_answer (Ksrc (acc ++ concat kept)) (K kept)) ->
    prog_eq_on any_answer (rp_bind (rp_fold f plates acc) Ksrc) (bind (for_each (size_smoother_body size t) plates) K).
Proof.
  intros Hf. induction plates as [| v rest IH]; intros acc Ksrc K HK.
  - cbn. specialize (HK []). cbn [concat] in HK. rewrite app_nil_r in HK. exact HK.
  - cbn [rp_fold for_each]. rewrite Hf. unfold size_smoother_body at 1.
    destruct (count_true v <? t).
    + cbn [rp_bind bind]. eapply peq_trans; [| apply peq_sym, peq_bind_assoc]. cbn [bind].
      apply (IH acc Ksrc (fun bs => K ([] :: bs))). intros kept. exact (HK ([] :: kept)).
    + destruct (count_true v =? t).
      * cbn [rp_bind bind]. eapply peq_trans; [| apply peq_sym, peq_bind_assoc]. cbn [bind].
        apply (IH (acc ++ [v]) Ksrc (fun bs => K ([v] :: bs))). intros kept.
        specialize (HK ([v] :: kept)). cbn [concat] in HK. rewrite app_assoc in HK. exact HK.
      * unfold size_smoother_req. cbn [rp_bind bind]. constructor. intros a _. cbn [bind].
        eapply peq_trans; [| apply peq_sym, peq_bind_assoc]. cbn [bind].
        apply (IH (acc ++ [mask_of size a]) Ksrc (fun bs => K ([mask_of size a] :: bs))). intros kept.
        specialize (HK ([mask_of size a] :: kept)). cbn [concat] in HK. rewrite app_assoc in HK. exact HK.
Qed.

(* both smoothers: the plate loop followed by anything that equals "OR the kept vectors, build the sub-screen" *)
Lemma size_smooth_link {Scr : Type} (size t : Z) (plates : list (list bool)) (mk : list bool -> result Scr)
      (f : list (list bool) -> list bool -> rprog (list (list bool))) (Ksrc : list (list bool) -> rprog Scr) :
  (forall res v, f res v =
     if count_true v <? t then Ret (Ok res)
     else if count_true v =? t then Ret (Ok (res ++ [v]))
     else Draw (size_smoother_req size t v) (fun a => Ret (Ok (res ++ [mask_of size a])))) ->
  (forall results, Ksrc results = Ret (mk (fold_left bor_mask results (mask_zeros size)))) ->
  prog_eq_on any_answer (rp_bind (rp_fold f plates []) Ksrc)
                        (bind (size_smoother_prog plates size t) (fun v => Ret (mk v))).
Proof.
  intros Hf HK. unfold size_smoother_prog.
  eapply peq_trans; [| apply peq_sym, peq_bind_assoc]. cbn [bind].
  apply (size_loop size t f Hf). intros kept. cbn [app]. rewrite HK. apply peq_refl.
Qed.

Lemma size_tail {Scr : Type} (mk : list bool -> result Scr) (f2 : list bool -> list bool -> rprog (list bool)) init results :
  (forall s v, f2 s v = rp_ret (bor_mask s v)) ->
  (dop fin <- rp_fold f2 results init; dop r <- rp_lift (mk fin); rp_ret r) = Ret (mk (fold_left bor_mask results init)).
Proof.
  intros H2. rewrite (rp_fold_pure f2 bor_mask H2). unfold rp_ret, rp_lift. cbn [rp_bind bind].
  destruct (mk (fold_left bor_mask results init)); reflexivity.
Qed.

Theorem src_fixed_size_is_model :
  forall (Scr : Type) (scr_size : Scr -> Z) (scr_plates : Scr -> list (list bool)) (mk_subset : Scr -> list bool -> result Scr)
         plate_size screen,
  prog_eq_on any_answer
    (src_fixed_size_smooth Scr scr_size scr_plates mk_subset plate_size screen)
    (bind (size_smoother_prog (scr_plates screen) (scr_size screen) plate_size) (fun v => Ret (mk_subset screen v))).
Proof.
  intros Scr scr_size scr_plates mk_subset t screen. unfold src_fixed_size_smooth.
  apply (size_smooth_link (scr_size screen) t (scr_plates screen) (mk_subset screen)).
  - intros res v. cbv zeta.
    destruct (count_true v <? t) eqn:E1; [reflexivity|]. destruct (count_true v =? t) eqn:E2; [reflexivity|].
    destruct (count_true v >? t) eqn:E3; [reflexivity | lia].
  - intros results. cbv zeta. apply size_tail. intros s v. reflexivity.
Qed.

Theorem src_optimal_size_is_model :
  forall (Scr : Type) (scr_size : Scr -> Z) (scr_plates : Scr -> list (list bool)) (mk_subset : Scr -> list bool -> result Scr)
         (opt_size : list Z -> result Z) screen,
  prog_eq_on any_answer
    (src_optimal_size_smooth Scr scr_size scr_plates mk_subset opt_size screen)
    (match opt_size (map count_true (scr_plates screen)) with
     | Err e => Ret (Err e)
     | Ok t => bind (size_smoother_prog (scr_plates screen) (scr_size screen) t) (fun v => Ret (mk_subset screen v))
     end).
Proof.
  intros Scr scr_size scr_plates mk_subset opt_size screen. unfold src_optimal_size_smooth.
  destruct (opt_size (map count_true (scr_plates screen))) as [t | e]; unfold rp_lift at 1; cbn [rp_bind bind]; [| apply peq_refl].
  apply (size_smooth_link (scr_size screen) t (scr_plates screen) (mk_subset screen)).
  - intros res v. cbv zeta.
    destruct (count_true v <? t) eqn:E1; [reflexivity|]. destruct (count_true v =? t) eqn:E2; [reflexivity|].
    destruct (count_true v >? t) eqn:E3; [reflexivity | lia].
  - intros results. cbv zeta. apply size_tail. intros s v. reflexivity.
Qed.

(* the request trace of the translated FixedSizeSmoother: one choice per plate larger than the size, in plate order *)
Lemma size_loop_trace : forall size t plates answers outs reqs,
  run (for_each (size_smoother_body size t) plates) answers = Ok (outs, reqs) ->
  reqs = map (size_smoother_req size t) (filter (fun v => t <? count_true v) plates).
Proof.
  intros size t plates. induction plates as [| v rest IH]; intros answers outs reqs H.
  - cbn in H. inversion H. reflexivity.
  - cbn [for_each] in H. unfold size_smoother_body at 1 in H. cbn [filter].
    destruct (count_true v <? t) eqn:E1.
    + replace (t <? count_true v) with false by lia.
      cbn [bind] in H. rewrite run_bind_ret in H.
      destruct (run (for_each (size_smoother_body size t) rest) answers) as [[x rs] | e] eqn:E; [| discriminate].
      inversion H; subst. exact (IH answers x reqs E).
    + destruct (count_true v =? t) eqn:E2.
      * replace (t <? count_true v) with false by lia.
        cbn [bind] in H. rewrite run_bind_ret in H.
        destruct (run (for_each (size_smoother_body size t) rest) answers) as [[x rs] | e] eqn:E; [| discriminate].
        inversion H; subst. exact (IH answers x reqs E).
      * replace (t <? count_true v) with true by lia.
        cbn [bind run] in H. destruct answers as [| a arest]; [discriminate|].
        rewrite run_bind_ret in H.
        destruct (run (for_each (size_smoother_body size t) rest) arest) as [[x rs] | e] eqn:E; [| discriminate].
        inversion H; subst. cbn [map]. f_equal. exact (IH arest x rs E).
Qed.

Theorem src_fixed_size_trace :
  forall (Scr : Type) (scr_size : Scr -> Z) (scr_plates : Scr -> list (list bool)) (mk_subset : Scr -> list bool -> result Scr)
         plate_size screen answers out reqs,
  run (src_fixed_size_smooth Scr scr_size scr_plates mk_subset plate_size screen) answers = Ok (out, reqs) ->
  reqs = map (size_smoother_req (scr_size screen) plate_size) (filter (fun v => plate_size <? count_true v) (scr_plates screen)).
Proof.
  intros Scr scr_size scr_plates mk_subset t screen answers out reqs Hrun.
  rewrite (peq_run_any _ _ _ _ _ (src_fixed_size_is_model Scr scr_size scr_plates mk_subset t screen)) in Hrun.
  rewrite run_bind_ret in Hrun. unfold size_smoother_prog in Hrun. rewrite run_bind_ret in Hrun.
  destruct (run (for_each (size_smoother_body (scr_size screen) t) (scr_plates screen)) answers) as [[x rs] | e] eqn:E; [| discriminate].
  inversion Hrun; subst. exact (size_loop_trace _ _ _ _ _ _ E).
Qed.

(* ---------------------------------------------------------------- retrospective.py: PlatePermutationPlateGenerator._generate_plates *)
Theorem src_plate_permutation_is_model :
  forall (Scr : Type) (scr_size : Scr -> Z) (scr_plate_names : Scr -> list Z) (mk_subset : Scr -> list bool -> result Scr)
         (mk_renamed : Scr -> list Z -> result Scr) (mk_combine : Scr -> Scr -> result Scr) force screen,
  prog_eq_on any_answer
    (src_plate_permutation Scr scr_size scr_plate_names mk_subset mk_renamed mk_combine force screen)
    (match pp_split mk_subset screen (pp_selection force (scr_plate_names screen) (scr_size screen)) with
     | Err e => Ret (Err e)
     | Ok (tp, np) => bind (plate_permutation_prog (scr_plate_names tp))
                           (fun new_names => Ret (pp_finish mk_renamed mk_combine tp np new_names))
     end).
Proof.
  intros Scr scr_size scr_plate_names mk_subset mk_renamed mk_combine force screen.
  unfold src_plate_permutation, pp_split.
  set (sv := pp_selection force (scr_plate_names screen) (scr_size screen)).
  assert (Hsv : (if opt_list_truthy force
                 then dop u <- rp_unwrap force;
                      rp_ret (map (fun n => negb (memZ n u)) (scr_plate_names screen))
                 else rp_ret (mask_ones (scr_size screen))) = rp_ret sv).
  { subst sv. unfold pp_selection. destruct force as [[| x l] |]; reflexivity. }
  cbv zeta. rewrite Hsv. unfold rp_ret at 1. cbn [rp_bind bind].
  unfold rp_lift, rp_permutation, rp_draw, plate_permutation_prog, pp_finish.
  destruct (existsb negb sv).
  - destruct (mk_subset screen sv) as [tp | e]; cbn [rp_bind bind res_bind]; [| apply peq_refl].
    destruct (mk_subset screen (map negb sv)) as [np | e]; cbn [rp_bind bind res_bind rp_ret]; [| apply peq_refl].
    constructor. intros a _. cbn [bind].
    destruct (mk_renamed tp a) as [p | e]; cbn [rp_bind bind res_bind is_some rp_unwrap rp_ret]; [| apply peq_refl].
    destruct (mk_combine p np); apply peq_refl.
  - destruct (mk_subset screen sv) as [tp | e]; cbn [rp_bind bind res_bind rp_ret]; [| apply peq_refl].
    constructor. intros a _. cbn [bind].
    destruct (mk_renamed tp a) as [p | e]; cbn [rp_bind bind res_bind is_some rp_ret]; apply peq_refl.
Qed.

(* ---------------------------------------------------------------- retrospective.py: SampleSegregatingPermutationPlateGenerator._generate_plates *)
Lemma rp_bind_cong {A B : Type} (p p' : rprog A) (f f' : A -> rprog B) :
  prog_eq_on any_answer p p' -> (forall a, prog_eq_on any_answer (f a) (f' a)) ->
  prog_eq_on any_answer (rp_bind p f) (rp_bind p' f').
Proof.
  intros Hp Hf. unfold rp_bind. apply peq_bind; [exact Hp|]. intros [a | e]; [apply Hf | apply peq_refl].
Qed.

Lemma rp_fold_cong {S A : Type} (f g : S -> A -> rprog S) :
  (forall s a, prog_eq_on any_answer (f s a) (g s a)) ->
  forall l s, prog_eq_on any_answer (rp_fold f l s) (rp_fold g l s).
Proof.
  intros H l. induction l as [| a l IH]; intros s; cbn [rp_fold]; [apply peq_refl|].
  apply rp_bind_cong; [apply H | exact IH].
Qed.

Lemma fold_append_all {A : Type} : forall (ps : list A) acc, fold_left (fun r p => r ++ [p]) ps acc = acc ++ ps.
Proof.
  induction ps as [| p ps IH]; intros acc; cbn [fold_left]; [now rewrite app_nil_r|].
  rewrite IH, <- app_assoc. reflexivity.
Qed.

(* the canonical body of the loop over the samples *)
Definition seg_body (mx : Z) (rows : Z -> list Z) (acc : list (list Z)) (i : Z) : rprog (list (list Z)) :=
  if zlen (rows i) >? mx then
    match ceil_div_float (zlen (rows i)) mx with
    | Err e => Ret (Err e)
    | Ok n => Draw (RPermutation (rows i))
                   (fun a => match array_split_z a n with Err e => Ret (Err e) | Ok ps => Ret (Ok (acc ++ ps)) end)
    end
  else Ret (Ok (acc ++ [rows i])).

Lemma seg_loop (mx : Z) (rows : Z -> list Z) : forall ids acc,
  prog_eq_on any_answer (rp_fold (seg_body mx rows) ids acc)
    (bind (sample_seg_plates mx (map rows ids))
          (fun r => Ret (match r with Ok ps => Ok (acc ++ ps) | Err e => Err e end))).
Proof.
  induction ids as [| i rest IH]; intros acc.
  - cbn. rewrite app_nil_r. apply peq_refl.
  - cbn [rp_fold map sample_seg_plates]. unfold seg_body at 1, sample_seg_body.
    destruct (zlen (rows i) >? mx).
    + destruct (ceil_div_float (zlen (rows i)) mx) as [n | e]; cbn [rp_bind bind]; [| apply peq_refl].
      constructor. intros a _. cbn [bind].
      destruct (array_split_z a n) as [ps | e]; cbn [bind]; [| apply peq_refl].
      eapply peq_trans; [apply IH|]. eapply peq_trans; [| apply peq_sym, peq_bind_assoc].
      apply peq_bind; [apply peq_refl|]. intros [qs | e]; cbn [bind]; [rewrite app_assoc|]; apply peq_refl.
    + cbn [rp_bind bind].
      eapply peq_trans; [apply IH|]. eapply peq_trans; [| apply peq_sym, peq_bind_assoc].
      apply peq_bind; [apply peq_refl|]. intros [qs | e]; cbn [bind app]; [rewrite <- app_assoc|]; apply peq_refl.
Qed.

Lemma enumerate_z_zz {A : Type} (l : list A) : enumerate_z l = enumerate_zz l.
Proof. unfold enumerate_z, enumerate_zz, zrange, zlen. now rewrite Nat2Z.id. Qed.

(* the labelling loop, for an arbitrary body equal to the canonical one *)
Lemma label_loop (f : list Z -> Z * list Z -> rprog (list Z)) :
  (forall l k idx, f l (k, idx) = Ret (label_set l idx k)) ->
  forall kps labels, rp_fold f kps labels = Ret (label_all labels kps).
Proof.
  intros Hf. induction kps as [| [k idx] kps IH]; intros labels; cbn [rp_fold label_all]; [reflexivity|].
  rewrite Hf. destruct (label_set labels idx k) as [l | e]; cbn [rp_bind bind res_bind]; [apply IH | reflexivity].
Qed.

Theorem src_sample_segregating_is_model :
  forall (Scr : Type) (scr_size : Scr -> Z) (scr_sample_ids : Scr -> list Z) (scr_sample_rows : Scr -> Z -> list Z)
         (mk_labelled : Scr -> list Z -> result Scr) max_plate_size screen,
  prog_eq_on any_answer
    (src_sample_segregating Scr scr_size scr_sample_ids scr_sample_rows mk_labelled max_plate_size screen)
    (bind (sample_seg_prog (map (scr_sample_rows screen) (scr_sample_ids screen)) (scr_size screen) max_plate_size)
          (fun r => Ret (match r with Ok labels => mk_labelled screen labels | Err e => Err e end))).
Proof.
  intros Scr scr_size scr_sample_ids scr_sample_rows mk_labelled mx screen.
  unfold src_sample_segregating, sample_seg_prog. cbv zeta.
  eapply peq_trans.
  { apply rp_bind_cong; [| intros plates; apply peq_refl].
    apply (rp_fold_cong _ (seg_body mx (scr_sample_rows screen))). intros acc i. unfold seg_body.
    destruct (zlen (scr_sample_rows screen i) >? mx).
    - unfold rp_lift at 1. destruct (ceil_div_float (zlen (scr_sample_rows screen i)) mx) as [n | e]; cbn [rp_bind bind]; [| apply peq_refl].
      unfold rp_permutation, rp_draw. cbn [bind]. constructor. intros a _. cbn [bind]. unfold rp_lift at 1.
      destruct (array_split_z a n) as [ps | e]; cbn [rp_bind bind]; [| apply peq_refl].
      rewrite (rp_fold_pure _ (fun r p => r ++ [p])) by (intros s p; reflexivity).
      rewrite fold_append_all. cbn [rp_ret rp_bind bind]. apply peq_refl.
    - cbn [rp_ret rp_bind bind]. apply peq_refl. }
  unfold rp_bind at 1.
  eapply peq_trans; [apply peq_bind; [apply seg_loop | intros r; apply peq_refl]|].
  eapply peq_trans; [apply peq_bind_assoc|]. eapply peq_trans; [| apply peq_sym, peq_bind_assoc].
  apply peq_bind; [apply peq_refl|]. intros [ps | e]; cbn [bind app]; [| apply peq_refl].
  rewrite (label_loop (fun (labels : list Z) '(k, idx) => dop l <- rp_lift (label_set labels idx k); rp_ret l)).
  2:{ intros l k idx. unfold rp_lift. cbn [rp_bind bind]. destruct (label_set l idx k); reflexivity. }
  rewrite enumerate_z_zz. unfold rp_lift. cbn [rp_bind bind].
  destruct (label_all (labels_blank (scr_size screen)) (enumerate_zz ps)) as [labels | e]; cbn [bind]; [| apply peq_refl].
  destruct (mk_labelled screen labels); apply peq_refl.
Qed.
