(* C13: the unobserved part of what generate_plates / smooth_plates return is what the inner
   generator / smoother returned on the unobserved part of the input. *)
From Coq Require Import ZArith List Bool Arith Lia Permutation.
From Batchie Require Import Lib.Sexp Model.Encode Model.Screen Model.Retro Model.Pairwise
  Proofs.C11Lib Proofs.C11Gen Proofs.C11Smooth.
Import ListNotations.
Open Scope nat_scope.

Lemma unobserved_app_observed : forall nu rows, unmasked nu -> unobserved (nu ++ observed rows) = nu.
Proof.
  intros nu rows Hu. unfold unobserved. rewrite filter_app.
  replace (filter (fun r => negb (r_mask r)) (observed rows)) with (@nil row).
  - rewrite app_nil_r. destruct (unobserved_unmasked nu Hu) as [H _]. exact H.
  - symmetry. unfold observed. rewrite filter_filter'. induction rows as [|r rows IH]; cbn [filter]; [reflexivity|].
    destruct (r_mask r); cbn [andb negb]; exact IH.
Qed.

Lemma smooth_wrap_unobs : forall sm rows ds out ds',
  smooth_plates sm rows ds = Ok (out, ds') ->
  (unobserved rows = [] /\ unobserved out = []) \/
  smooth_inner sm (unobserved rows) ds = Ok (unobserved out, ds').
Proof.
  intros sm rows ds out ds' H. apply wrap_ok in H as [(E & -> & _)|(_ & nu & Hf & ->)].
  - left. auto.
  - right. rewrite unobserved_app_observed; [exact Hf|].
    eapply unmasked_of_submulti_strip; [eapply smooth_inner_sub; [|exact Hf]|]; apply unmasked_unobserved.
Qed.

Lemma generate_wrap_unobs : forall g rows ds out ds',
  generate_plates g rows ds = Ok (out, ds') ->
  (unobserved rows = [] /\ unobserved out = []) \/
  generate_inner g (unobserved rows) ds = Ok (unobserved out, ds').
Proof.
  intros g rows ds out ds' H. apply wrap_ok in H as [(E & -> & _)|(_ & nu & Hf & ->)].
  - left. auto.
  - right. rewrite unobserved_app_observed; [exact Hf|].
    eapply unmasked_of_perm_strip; [eapply generate_inner_conserves; [|exact Hf]|]; apply unmasked_unobserved.
Qed.
