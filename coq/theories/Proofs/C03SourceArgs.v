(* The argument-handling glue of prepare_retrospective_simulation: the statements of get_args() after parser.parse_args()
   (three class-valued options, each cast with the annotations of ITS OWN class), and main() as a whole command.  The
   hand-written models Cli.pr_get_args / cli_prepare_cmd equal the translations of the functions of /repo, regenerated on
   every run (Generated/SrcCliArgs.v, configurations ARGS_GET_ARGS_PR / ARGS_CMD_PR of harness/src_functions.py), for every
   introspection record, every record of string primitives, all constructors and library records, and all raw namespaces. *)
From Coq Require Import ZArith List Bool Lia.
From Batchie Require Import Lib.Sexp Lib.PyRt Model.Cli Generated.SrcCli Generated.SrcCliArgs Proofs.PyRtLemmas
  Proofs.C03SourceCli Proofs.C18SourceArgs_Cast Proofs.C18SourceIntrospect.
Import ListNotations.
Open Scope Z_scope.

Ltac pr_simpl :=
  cbv beta iota delta [pr_plain pr_pg pr_ig pr_ps pr_set_pg pr_set_ig pr_set_ps po_param po_cls po_params po_set_cls po_set_params
                       pr_plate_generator pr_initial_plate_generator pr_plate_smoother fst snd];
  cbn [is_some is_none unwrap res_bind opt_list_truthy negb cast_params].

(* one step: case analysis on the computation the translated side evaluates next (the class lookup, the annotations, the
   cast); the model evaluates the same computations in the same order *)
Ltac head_of e := lazymatch e with res_bind ?e' _ => head_of e' | _ => constr:(e) end.
Ltac pr_step :=
  pr_simpl; rewrite ?src_cast_dict_is_model;
  match goal with |- res_bind ?e _ = _ => let h := head_of e in destruct h; pr_simpl; try reflexivity end.

Theorem src_pr_get_args_is_model : forall (Cls F O : Type) (I : introspect Cls) (P : pyprims F O) (raw : pr_ns Cls F O),
  src_pr_get_args Cls F O I P raw = pr_get_args I P raw.
Proof.
  intros. unfold src_pr_get_args, pr_get_args, pr_resolve_opt, resolve, s_batchie. cbv zeta.
  destruct raw as [plain [pg_param pg_cls pg_params] [ig_param ig_cls ig_params] [ps_param ps_cls ps_params]].
  destruct plain as [data tro teo ig_name pg_name ps_name hf seed].
  destruct pg_name as [pg_name|], ig_name as [ig_name|], ps_name as [ps_name|];
    destruct pg_param as [[|x1 l1]|], ig_param as [[|x2 l2]|], ps_param as [[|x3 l3]|];
    pr_simpl; rewrite ?src_cast_dict_is_model; repeat pr_step; reflexivity.
Qed.

Theorem src_cli_prepare_cmd_is_model :
  forall (Cls F O : Type) (I : introspect Cls) (P : pyprims F O) (Scr Pl Ig Pg Ps : Type)
         (construct_ig : Cls -> list (str * pval F O) -> result Ig) (construct_pg : Cls -> list (str * pval F O) -> result Pg)
         (construct_ps : Cls -> list (str * pval F O) -> result Ps) (L : pr_lib Scr Pl Ig Pg Ps) (mix : Z -> Z)
         (raw : pr_ns Cls F O),
  src_cli_prepare_cmd Cls F O I P Scr Pl Ig Pg Ps construct_ig construct_pg construct_ps L mix raw
  = cli_prepare_cmd I P construct_ig construct_pg construct_ps L mix raw.
Proof.
  intros. unfold src_cli_prepare_cmd, cli_prepare_cmd. cbv zeta.
  rewrite src_pr_get_args_is_model.
  destruct (pr_get_args I P raw) as [a|e]; cbn [res_bind]; [|reflexivity].
  rewrite <- C03SourceCli.src_cli_prepare_is_model.
  unfold SrcCli.src_cli_prepare. cbv zeta.
  cbn [pr_with_mk pr_load_screen pr_filter pr_mk_initial pr_initial pr_mask pr_mk_generator pr_generate pr_plates pr_is_observed
       pr_plate_id pr_plate_size pr_choice pr_reveal pr_mk_smoother pr_smooth pr_n_plates pr_size pr_holdout].
  reflexivity.
Qed.

Theorem src_cli_prepare_cmd_world :
  forall (Mod Obj F O : Type) (W : pyworld Mod Obj) (P : pyprims F O) (Scr Pl Ig Pg Ps : Type)
         (construct_ig : Obj -> list (str * pval F O) -> result Ig) (construct_pg : Obj -> list (str * pval F O) -> result Pg)
         (construct_ps : Obj -> list (str * pval F O) -> result Ps) (L : pr_lib Scr Pl Ig Pg Ps) (mix : Z -> Z)
         (raw : pr_ns Obj F O),
  src_cli_prepare_cmd Obj F O (introspect_src W) P Scr Pl Ig Pg Ps construct_ig construct_pg construct_ps L mix raw
  = cli_prepare_cmd (introspect_of W) P construct_ig construct_pg construct_ps L mix raw.
Proof.
  intros. rewrite src_cli_prepare_cmd_is_model.
  unfold cli_prepare_cmd, pr_get_args, pr_resolve_opt.
  destruct (pr_plate_generator (pr_plain raw)), (pr_initial_plate_generator (pr_plain raw)), (pr_plate_smoother (pr_plain raw));
    now rewrite ?resolve_src.
Qed.

(* the translated get_args() leaves every plain argument as parse_args produced it: in particular --holdout-fraction reaches
   the hold-out split unchanged (it is not rescaled, clipped or re-read as a percentage) *)
Theorem src_pr_get_args_plain : forall (Cls F O : Type) (I : introspect Cls) (P : pyprims F O) (raw a : pr_ns Cls F O),
  src_pr_get_args Cls F O I P raw = Ok a -> pr_plain a = pr_plain raw.
Proof.
  intros Cls F O I P raw a. rewrite src_pr_get_args_is_model. unfold pr_get_args.
  destruct (pr_resolve_opt I P BPlateGenerator _ _); cbn [res_bind]; [|discriminate].
  destruct (pr_resolve_opt I P BInitialPlateGenerator _ _); cbn [res_bind]; [|discriminate].
  destruct (pr_resolve_opt I P BPlateSmoother _ _); cbn [res_bind]; [|discriminate].
  intros H. injection H as <-. reflexivity.
Qed.

Theorem src_pr_get_args_holdout : forall (Cls F O : Type) (I : introspect Cls) (P : pyprims F O) (raw a : pr_ns Cls F O),
  src_pr_get_args Cls F O I P raw = Ok a ->
  pr_holdout_fraction (pr_plain a) = pr_holdout_fraction (pr_plain raw).
Proof. intros Cls F O I P raw a H. now rewrite (src_pr_get_args_plain Cls F O I P raw a H). Qed.
