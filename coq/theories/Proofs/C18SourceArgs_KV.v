(* One piece of Proofs/C18SourceArgs.v (which see): KVAppendAction.__call__ *)
From Coq Require Import ZArith List Bool Lia.
From Batchie Require Import Lib.Sexp Lib.PyRt Model.Cli Generated.SrcCli Generated.SrcCliArgs Proofs.PyRtLemmas.
Import ListNotations.
Open Scope Z_scope.

Theorem src_kv_append_is_model : forall (dest : option (list (str * str))) (values : list str),
  src_kv_append dest values = kv_append dest values.
Proof.
  intros dest values. unfold src_kv_append, kv_append.
  destruct values as [|w [|w2 r]].
  - reflexivity.
  - cbn [length Z.of_nat Z.eqb Pos.of_succ_nat Pos.eqb]. change (list_get [w] 0) with (Ok w). cbn [res_bind].
    change ([61] : str) with s_eq.
    destruct (str_split w s_eq 2) as [parts|t]; cbn [res_bind res_catch_tags].
    + destruct parts as [|k [|v [|x parts]]]; reflexivity.
    + destruct (zmem t [23; 24]); reflexivity.
  - replace (Z.of_nat (length (w :: w2 :: r)) =? 1) with false; [reflexivity|].
    symmetry. apply Z.eqb_neq. cbn [length]. lia.
Qed.
