(* Decision procedures for the table properties of Model/Cli.v (declares, dests_derived, dests_distinct, seed_declared,
   coordinates_int, params_kv) and their soundness: a property of a CONCRETE option table - the one read from the source on
   this run, Generated/SrcParser_<command>.v - is proved by evaluating the checker (Proofs/C18SourceParser_<command>.v).
   Nothing here mentions a generated file. *)
From Coq Require Import ZArith List Bool Lia.
From Batchie Require Import Lib.Sexp Lib.PyRt Model.Cli Proofs.C18Args.
Import ListNotations.
Open Scope Z_scope.

(* ---------- equality tests ---------- *)
Lemma nskind_eqb_eq (a b : nskind) : nskind_eqb a b = true -> a = b.
Proof.
  revert b. induction a as [| | | |x IH|]; intros [| | | |y|] H; cbn [nskind_eqb] in H; try discriminate; try reflexivity.
  now rewrite (IH y H).
Qed.

Definition opt_kind_is (o : argopt) (k : nskind) : bool :=
  match opt_kind o with Some k' => nskind_eqb k' k | None => false end.
Lemma opt_kind_is_sound (o : argopt) (k : nskind) : opt_kind_is o k = true -> opt_kind o = Some k.
Proof.
  unfold opt_kind_is. destruct (opt_kind o) as [k'|]; [|discriminate]. intros H. now rewrite (nskind_eqb_eq _ _ H).
Qed.

Fixpoint str_list_eqb (a b : list str) : bool :=
  match a, b with
  | [], [] => true
  | x :: a', y :: b' => str_eqb x y && str_list_eqb a' b'
  | _, _ => false
  end.

Fixpoint str_nodupb (l : list str) : bool :=
  match l with
  | [] => true
  | x :: r => negb (existsb (str_eqb x) r) && str_nodupb r
  end.
Lemma str_nodupb_sound (l : list str) : str_nodupb l = true -> NoDup l.
Proof.
  induction l as [|x r IH]; intros H; [constructor|].
  cbn [str_nodupb] in H. apply andb_true_iff in H. destruct H as [H1 H2].
  constructor; [|exact (IH H2)].
  intros Hin. apply negb_true_iff in H1.
  assert (E : existsb (str_eqb x) r = true).
  { apply existsb_exists. exists x. split; [exact Hin|apply str_eqb_refl]. }
  rewrite E in H1. discriminate.
Qed.

Lemma str_mem_sound (x : str) (l : list str) : existsb (str_eqb x) l = true -> In x l.
Proof.
  intros H. apply existsb_exists in H. destruct H as [y [Hy E]]. apply str_eqb_eq in E. now subst.
Qed.
Lemma str_mem_complete (x : str) (l : list str) : In x l -> existsb (str_eqb x) l = true.
Proof. intros H. apply existsb_exists. exists x. split; [exact H|apply str_eqb_refl]. Qed.

(* ---------- declares ---------- *)
Definition declaresb (tbl : list argopt) (f : nsfield) : bool :=
  match opts_with_dest tbl (f_name f) with
  | [o] => opt_kind_is o (f_kind f) && Bool.eqb (opt_may_be_none o) (f_optional f)
  | _ => false
  end.
Lemma declaresb_sound (tbl : list argopt) (f : nsfield) : declaresb tbl f = true -> declares tbl f.
Proof.
  unfold declaresb, declares. destruct (opts_with_dest tbl (f_name f)) as [|o [|o' r]]; try discriminate.
  intros H. apply andb_true_iff in H. destruct H as [H1 H2].
  exists o. split; [reflexivity|]. split; [now apply opt_kind_is_sound|now apply Bool.eqb_prop].
Qed.
Lemma declares_all (tbl : list argopt) (fs : list nsfield) :
  forallb (declaresb tbl) fs = true -> forall f, In f fs -> declares tbl f.
Proof. intros H f Hf. apply declaresb_sound. rewrite forallb_forall in H. now apply H. Qed.

(* ---------- dests_derived ---------- *)
Lemma dests_derived_sound (tbl : list argopt) :
  forallb (fun o => str_eqb (o_dest o) (opt_dest o)) tbl = true -> dests_derived tbl.
Proof. intros H o Ho. rewrite forallb_forall in H. now apply str_eqb_eq, H. Qed.

(* ---------- dests_distinct ---------- *)
Lemma dests_distinct_sound (tbl : list argopt) :
  str_nodupb (map o_dest tbl) && str_nodupb (concat (map o_flags tbl)) = true -> dests_distinct tbl.
Proof. intros H. apply andb_true_iff in H. destruct H as [H1 H2]. split; now apply str_nodupb_sound. Qed.

(* ---------- seed_declared ---------- *)
Definition seed_declaredb (tbl : list argopt) : bool :=
  match opts_with_dest tbl s_seed with
  | [o] => existsb (str_eqb s_seed_flag) (o_flags o) && opt_kind_is o KInt
           && match opt_default o with LInt z => 0 <=? z | _ => false end
  | _ => false
  end.
Lemma seed_declaredb_sound (tbl : list argopt) : seed_declaredb tbl = true -> seed_declared tbl.
Proof.
  unfold seed_declaredb, seed_declared. destruct (opts_with_dest tbl s_seed) as [|o [|o' r]]; try discriminate.
  intros H. apply andb_true_iff in H. destruct H as [H H3]. apply andb_true_iff in H. destruct H as [H1 H2].
  destruct (opt_default o) as [| | z | | |] eqn:D; try discriminate.
  exists o, z. split; [reflexivity|]. split; [now apply str_mem_sound|]. split; [now apply opt_kind_is_sound|].
  split; [exact D|lia].
Qed.

(* what it is for: the generator construction of the wrappers (Cli.prng_of_seed = the linked get_prng_from_seed_argument)
   succeeds on the default seed *)
Lemma seed_declared_default_draws (tbl : list argopt) :
  seed_declared tbl -> forall mix : Z -> Z, exists o z, opts_with_dest tbl s_seed = [o] /\ opt_default o = LInt z
                                                      /\ prng_of_seed mix z = Ok (Gen (mix z)).
Proof.
  intros [o [z [H1 [_ [_ [H4 H5]]]]]] mix. exists o, z. split; [exact H1|]. split; [exact H4|].
  unfold prng_of_seed, seedseq_word. destruct (z <? 0) eqn:E; [lia|reflexivity].
Qed.

(* ---------- coordinates_int ---------- *)
Definition coordinate_okb (fd : str * str) (o : argopt) : bool :=
  negb (existsb (str_eqb (fst fd)) (o_flags o))
  || (str_eqb (o_dest o) (snd fd) && opt_kind_is o KInt && negb (opt_may_be_none o)).
Definition coordinates_intb (tbl : list argopt) : bool :=
  forallb (fun fd => forallb (coordinate_okb fd) tbl) coordinate_flags.
Lemma coordinates_intb_sound (tbl : list argopt) : coordinates_intb tbl = true -> coordinates_int tbl.
Proof.
  unfold coordinates_intb, coordinates_int. intros H fd o Hfd Ho Hfl.
  rewrite forallb_forall in H. specialize (H fd Hfd). rewrite forallb_forall in H. specialize (H o Ho).
  unfold coordinate_okb in H. rewrite (str_mem_complete _ _ Hfl) in H. cbn [negb orb] in H.
  apply andb_true_iff in H. destruct H as [H H3]. apply andb_true_iff in H. destruct H as [H1 H2].
  split; [now apply str_eqb_eq|]. split; [now apply opt_kind_is_sound|now apply negb_true_iff].
Qed.

(* ---------- params_kv ---------- *)
Definition param_okb (o : argopt) : bool :=
  negb (is_param_option o)
  || (match o_action o with ActKVAppend => true | _ => false end
      && match o_nargs o with Some (NInt 1) => true | _ => false end
      && opt_kind_is o KKV && opt_may_be_none o).
Lemma params_kvb_sound (tbl : list argopt) : forallb param_okb tbl = true -> params_kv tbl.
Proof.
  unfold params_kv. intros H o Ho Hp. rewrite forallb_forall in H. specialize (H o Ho).
  unfold param_okb in H. rewrite Hp in H. cbn [negb orb] in H.
  apply andb_true_iff in H. destruct H as [H H4]. apply andb_true_iff in H. destruct H as [H H3].
  apply andb_true_iff in H. destruct H as [H1 H2].
  split; [destruct (o_action o); try discriminate; reflexivity|].
  split; [destruct (o_nargs o) as [[n| | |]|]; try discriminate; destruct n as [|[p|p|]|]; try discriminate; reflexivity|].
  split; [now apply opt_kind_is_sound|exact H4].
Qed.

(* ---------- fraction_declared ---------- *)
Definition fraction_declaredb (tbl : list argopt) : bool :=
  match opts_with_dest tbl s_holdout_fraction with
  | [o] => opt_kind_is o KFloat && negb (opt_may_be_none o)
           && match opt_default o with LFloat n d => (0 <=? n) && (n <=? Zpos d) | _ => false end
  | _ => false
  end.
Lemma fraction_declaredb_sound (tbl : list argopt) : fraction_declaredb tbl = true -> fraction_declared tbl.
Proof.
  unfold fraction_declaredb, fraction_declared. destruct (opts_with_dest tbl s_holdout_fraction) as [|o [|o' r]]; try discriminate.
  intros H. apply andb_true_iff in H. destruct H as [H H3]. apply andb_true_iff in H. destruct H as [H1 H2].
  destruct (opt_default o) as [| | | n d | |] eqn:D; try discriminate.
  apply andb_true_iff in H3. destruct H3 as [H3 H4].
  exists o, n, d. split; [reflexivity|]. split; [now apply opt_kind_is_sound|]. split; [now apply negb_true_iff|].
  split; [exact D|lia].
Qed.
