(* C07 proofs, part 1: the index chunks partition the lower triangle. *)
From Coq Require Import ZArith List Lia Arith Permutation.
From Batchie Require Import Lib.ListX Model.Chunks.
Import ListNotations.

Lemma lower_tri_S n : lower_tri (S n) = lower_tri n ++ map (fun j => (n, j)) (seq 0 n).
Proof.
  unfold lower_tri. rewrite seq_S, flat_map_app. cbn [flat_map Nat.add]. now rewrite app_nil_r.
Qed.

Lemma lower_tri_In n i j : In (i, j) (lower_tri n) <-> (j < i < n)%nat.
Proof.
  unfold lower_tri. rewrite in_flat_map. split.
  - intros (x & Hx & Hin). apply in_seq in Hx. apply in_map_iff in Hin as (y & Heq & Hy).
    apply in_seq in Hy. inversion Heq; subst. lia.
  - intros H. exists i. split; [apply in_seq; lia|]. apply in_map_iff. exists j.
    split; [reflexivity|apply in_seq; lia].
Qed.

Lemma NoDup_app_intro {A} (l1 l2 : list A) :
  NoDup l1 -> NoDup l2 -> (forall x, In x l1 -> In x l2 -> False) -> NoDup (l1 ++ l2).
Proof.
  induction l1 as [|a l1 IH]; cbn [app]; intros H1 H2 Hd; [exact H2|].
  inversion H1 as [|? ? Hn Hnd]; subst. constructor.
  - intros Hin. apply in_app_or in Hin as [Hin|Hin]; [now apply Hn|].
    apply (Hd a); [now left|exact Hin].
  - apply IH; auto. intros x Hx1 Hx2. apply (Hd x); [now right|exact Hx2].
Qed.

Lemma lower_tri_NoDup n : NoDup (lower_tri n).
Proof.
  induction n as [|n IH]; [constructor|].
  rewrite lower_tri_S. apply NoDup_app_intro; [exact IH| |].
  - apply FinFun.Injective_map_NoDup; [|apply seq_NoDup].
    intros x y Heq. now inversion Heq.
  - intros [i j] H1 H2. apply lower_tri_In in H1.
    apply in_map_iff in H2 as (y & Heq & _). inversion Heq; subst. lia.
Qed.

Lemma lower_tri_length n : Z.of_nat (length (lower_tri n)) = n_lower (Z.of_nat n).
Proof.
  unfold n_lower. induction n as [|n IH]; [reflexivity|].
  rewrite lower_tri_S, app_length, map_length, seq_length, Nat2Z.inj_add, IH, Nat2Z.inj_succ.
  replace (Z.succ (Z.of_nat n) * (Z.succ (Z.of_nat n) - 1))%Z
    with (Z.of_nat n * (Z.of_nat n - 1) + Z.of_nat n * 2)%Z by ring.
  now rewrite Z.div_add by lia.
Qed.

Open Scope Z_scope.

(* closed form of the cut points *)
Definition cut (N c k : Z) : Z := k * (N / c) + Z.min k (N mod c).

Lemma chunk_bounds_cut N k c : chunk_bounds N k c = (cut N c k, cut N c (k + 1)).
Proof.
  unfold chunk_bounds, cut. destruct (k <? N mod c) eqn:E; f_equal; lia.
Qed.

Section Cuts.
Variables N c : Z.
Hypothesis HN : 0 <= N.
Hypothesis Hc : 0 < c.

Lemma cut_0 : cut N c 0 = 0.
Proof. unfold cut. pose proof (Z.mod_pos_bound N c Hc). lia. Qed.

Lemma cut_c : cut N c c = N.
Proof.
  unfold cut. pose proof (Z.mod_pos_bound N c Hc). pose proof (Z.div_mod N c ltac:(lia)). lia.
Qed.

Lemma cut_step k : 0 <= k ->
  cut N c (k + 1) - cut N c k = N / c + (if k <? N mod c then 1 else 0).
Proof. intros Hk. unfold cut. destruct (k <? N mod c) eqn:E; lia. Qed.

Lemma div_nonneg : 0 <= N / c.
Proof. apply Z.div_pos; lia. Qed.

Lemma cut_mono k : 0 <= k -> cut N c k <= cut N c (k + 1).
Proof.
  intros Hk. pose proof (cut_step k Hk). pose proof div_nonneg.
  destruct (k <? N mod c); lia.
Qed.

Lemma cut_nonneg k : 0 <= k -> 0 <= cut N c k.
Proof.
  intros Hk. unfold cut. pose proof div_nonneg. pose proof (Z.mod_pos_bound N c Hc).
  assert (0 <= k * (N / c)) by (apply Z.mul_nonneg_nonneg; lia). lia.
Qed.

Lemma cut_le_N k : 0 <= k <= c -> cut N c k <= N.
Proof.
  intros Hk. rewrite <- cut_c at 2. unfold cut. pose proof div_nonneg.
  pose proof (Z.mod_pos_bound N c Hc).
  assert (k * (N / c) <= c * (N / c)) by (apply Z.mul_le_mono_nonneg_r; lia). lia.
Qed.
End Cuts.

Definition natcut (N c : Z) (k : nat) : nat := Z.to_nat (cut N c (Z.of_nat k)).

Lemma chunk_as_slice n (k : nat) (c : Z) :
  0 < c ->
  chunk n (Z.of_nat k) c =
  let N := n_lower (Z.of_nat n) in
  firstn (natcut N c (S k) - natcut N c k) (skipn (natcut N c k) (lower_tri n)).
Proof.
  intros Hc. unfold chunk. rewrite chunk_bounds_cut. cbv zeta. unfold slice, natcut.
  assert (HN : 0 <= n_lower (Z.of_nat n)) by (rewrite <- lower_tri_length; lia).
  pose proof (cut_nonneg _ _ HN Hc (Z.of_nat k) ltac:(lia)).
  rewrite Nat2Z.inj_succ, <- Z.add_1_r. f_equal.
  rewrite Z2Nat.inj_sub by assumption. reflexivity.
Qed.

Theorem chunks_concat n c : (0 < c)%nat -> concat (all_chunks n c) = lower_tri n.
Proof.
  intros Hc. unfold all_chunks.
  assert (Hc' : 0 < Z.of_nat c) by lia.
  assert (HN : 0 <= n_lower (Z.of_nat n)) by (rewrite <- lower_tri_length; lia).
  erewrite map_ext by (intros k; apply chunk_as_slice; exact Hc').
  cbv zeta.
  rewrite (concat_slices (lower_tri n) (natcut (n_lower (Z.of_nat n)) (Z.of_nat c))).
  - cbn [Nat.add]. unfold natcut at 1 2 3.
    rewrite cut_c by assumption. cbn [Z.of_nat]. rewrite cut_0 by assumption.
    cbn [Z.to_nat skipn]. rewrite Nat.sub_0_r, <- lower_tri_length, Nat2Z.id.
    apply firstn_all.
  - intros k. unfold natcut. apply Z2Nat.inj_le.
    + apply cut_nonneg; lia.
    + apply cut_nonneg; lia.
    + rewrite Nat2Z.inj_succ, <- Z.add_1_r. apply cut_mono; lia.
Qed.

Theorem chunk_length n (k : nat) (c : nat) :
  (k < c)%nat ->
  let N := n_lower (Z.of_nat n) in
  Z.of_nat (length (chunk n (Z.of_nat k) (Z.of_nat c)))
  = N / Z.of_nat c + (if Z.of_nat k <? N mod Z.of_nat c then 1 else 0).
Proof.
  intros Hk N.
  assert (Hc' : 0 < Z.of_nat c) by lia.
  assert (HN : 0 <= N) by (unfold N; rewrite <- lower_tri_length; lia).
  rewrite chunk_as_slice by exact Hc'. cbv zeta. fold N.
  rewrite firstn_length, skipn_length.
  assert (Hlen : Z.of_nat (length (lower_tri n)) = N) by apply lower_tri_length.
  unfold natcut.
  pose proof (cut_nonneg N _ HN Hc' (Z.of_nat k) ltac:(lia)) as H0.
  pose proof (cut_le_N N _ HN Hc' (Z.of_nat (S k)) ltac:(lia)) as H1.
  pose proof (cut_step N (Z.of_nat c) (Z.of_nat k) ltac:(lia)) as H2.
  pose proof (cut_mono N _ HN Hc' (Z.of_nat k) ltac:(lia)) as H3.
  rewrite Nat2Z.inj_succ, <- Z.add_1_r in *.
  rewrite <- H2. lia.
Qed.

Theorem chunks_cover_once n c :
  (0 < c)%nat ->
  NoDup (concat (all_chunks n c)) /\
  forall i j, In (i, j) (concat (all_chunks n c)) <-> (j < i < n)%nat.
Proof.
  intros Hc. rewrite chunks_concat by exact Hc. split; [apply lower_tri_NoDup|].
  intros i j; apply lower_tri_In.
Qed.

Lemma nth_map_seq {A} (f : nat -> A) (d : A) c k :
  (k < c)%nat -> nth k (map f (seq 0 c)) d = f k.
Proof.
  intros Hk. rewrite nth_indep with (d' := f 0%nat) by (now rewrite map_length, seq_length).
  now rewrite map_nth, seq_nth by exact Hk.
Qed.

Theorem chunks_disjoint n c (k1 k2 : nat) p :
  (k1 < c)%nat -> (k2 < c)%nat -> k1 <> k2 ->
  In p (chunk n (Z.of_nat k1) (Z.of_nat c)) -> In p (chunk n (Z.of_nat k2) (Z.of_nat c)) -> False.
Proof.
  intros H1 H2 Hne Hp1 Hp2.
  assert (Hc : (0 < c)%nat) by lia.
  pose proof (lower_tri_NoDup n) as Hnd. rewrite <- (chunks_concat n c Hc) in Hnd.
  apply (NoDup_concat_disjoint (all_chunks n c) k1 k2 p Hnd Hne); unfold all_chunks.
  - now rewrite nth_map_seq by exact H1.
  - now rewrite nth_map_seq by exact H2.
Qed.

Theorem chunk_sizes_differ_by_at_most_one n c (k1 k2 : nat) :
  (k1 < c)%nat -> (k2 < c)%nat ->
  Z.abs (Z.of_nat (length (chunk n (Z.of_nat k1) (Z.of_nat c)))
         - Z.of_nat (length (chunk n (Z.of_nat k2) (Z.of_nat c)))) <= 1.
Proof.
  intros H1 H2. rewrite !chunk_length by assumption. cbv zeta.
  destruct (Z.of_nat k1 <? _); destruct (Z.of_nat k2 <? _); lia.
Qed.
