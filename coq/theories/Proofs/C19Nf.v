(* C19 / C16 — the nextflow side as read from /repo/nextflow (Generated/SrcNfOutputs.v, harness/nf_reader.py) against the
   model's file kinds (Model/NfFiles.v), the globs of the translated helpers, and select_next_plate's option table. *)
From Coq Require Import ZArith List String Ascii Bool.
From Batchie Require Import Model.Orchestrate Model.NfFiles Generated.SrcNfOutputs Model.Cli Generated.SrcParser_select_next_plate.
Import ListNotations.
Open Scope string_scope.

(* every kind of file the model speaks of is published by the process the model attributes it to, under a pattern that matches
   the name the module's script block writes, and that written name is matched by the pattern the script globs for *)
Definition kind_published (k : kind) : bool :=
  existsb (fun t => match t with (proc, pat, written) =>
             String.eqb proc (kind_process k) && glob_match pat written && glob_match (kind_pattern k) written end) nf_outputs.

Theorem nf_publishes_every_kind : forall k, kind_published k = true.
Proof. intros k; destruct k; vm_compute; reflexivity. Qed.

Lemma kind_published_spec k : kind_published k = true ->
  exists pat written, In (kind_process k, pat, written) nf_outputs /\
                      glob_match pat written = true /\ glob_match (kind_pattern k) written = true.
Proof.
  unfold kind_published. intros H. apply existsb_exists in H as ([[proc pat] written] & Hin & H).
  apply andb_true_iff in H as [H H3]. apply andb_true_iff in H as [H1 H2].
  apply String.eqb_eq in H1. subst proc. exists pat, written. auto.
Qed.

Theorem nf_outputs_are_what_the_script_globs : forall k,
  exists pat written, In (kind_process k, pat, written) nf_outputs /\
                      glob_match pat written = true /\ glob_match (kind_pattern k) written = true.
Proof. intros k. apply kind_published_spec, nf_publishes_every_kind. Qed.

(* nothing ELSE the modules publish is mistaken for a file of another kind: a written name is matched by the glob of one kind only *)
Theorem nf_written_names_unambiguous : forall proc pat written k1 k2,
  In (proc, pat, written) nf_outputs ->
  glob_match (kind_pattern k1) written = true -> glob_match (kind_pattern k2) written = true -> k1 = k2.
Proof.
  intros proc pat written k1 k2 Hin.
  repeat (destruct Hin as [Hin|Hin]; [injection Hin as <- <- <-; destruct k1, k2; vm_compute; intros; congruence|]).
  destruct Hin.
Qed.

(* the globs of the translated helpers ARE the model's patterns: each glob primitive of the C19 helper configurations asks for
   kind_pattern of the kind its template names, at that kind's directory depth; and every kind is globbed for *)
Theorem script_globs_are_kind_patterns : forall pat code lv,
  In (pat, code, lv) script_globs ->
  exists k, kind_of_code code = Some k /\ pat = kind_pattern k /\ lv = kind_levels k.
Proof.
  intros pat code lv Hin.
  repeat (destruct Hin as [Hin|Hin]; [injection Hin as <- <- <-; eexists; repeat split; reflexivity|]).
  destruct Hin.
Qed.

Theorem script_globs_cover_every_kind : forall k, exists code, kind_of_code code = Some k /\
  In (kind_pattern k, code, kind_levels k) script_globs.
Proof.
  intros k; destruct k;
    [exists 0%Z|exists 1%Z|exists 2%Z|exists 3%Z|exists 4%Z|exists 5%Z|exists 6%Z]; (split; [reflexivity|]); vm_compute; tauto.
Qed.

(* where the files land: every configuration that sets publishDir sets it to the --outdir the script passes, and every module
   writes below ${meta.id} - one directory level, the '*' of the script's globs *)
Theorem nf_publish_dir_is_outdir :
  nf_publish_dirs <> [] /\ Forall (fun c => snd c = publish_setting) nf_publish_dirs /\ nf_prefix = publish_prefix.
Proof. split; [discriminate|]. split; [repeat constructor|reflexivity]. Qed.

(* the excludes chain (C16: "the batch so far" reaches the policy): the workflow splits params.excludes on the separator the
   script joins with; `excludes` is the element of the sub-workflow's input tuple that the sub-workflow picks, at the position of
   SELECT_NEXT_PLATE's `excludes` input; the module passes the ids, separated by blanks, after a flag that select_next_plate's
   parser declares as an option taking one or more ints *)
Definition nth_str (n : nat) (l : list string) : string := nth n l "".
Fixpoint index_of (z : Z) (l : list Z) (i : nat) : option nat :=
  match l with [] => None | x :: r => if Z.eqb x z then Some i else index_of z r (S i) end.

Definition flag_option (flag : list Z) (t : list argopt) : option argopt :=
  find (fun o => existsb (fun f => Orchestrate.zlist_eqb f flag) (o_flags o)) t.

Theorem nf_excludes_chain :
  nf_excludes_tokenize = excludes_sep /\
  (exists pos, index_of nf_excludes_index nf_select_picks 0 = Some pos /\ nth_str pos nf_select_inputs = "excludes") /\
  nf_excludes_join = " " /\
  match flag_option (str_of_string nf_excludes_flag) src_parser_select_next_plate with
  | Some o => o_type o = Some TInt /\ o_nargs o = Some NPlus /\ o_action o = ActStore /\
              opt_dest o = str_of_string "batch_plate_id"
  | None => False
  end.
Proof.
  split; [reflexivity|]. split; [exists 2%nat; split; reflexivity|]. split; [reflexivity|].
  vm_compute. repeat split; reflexivity.
Qed.
