(* C20: the hand-written models of Model/Synergy.v equal the translations of
     batchie.data.create_single_treatment_effect_map / create_single_treatment_effect_array
     batchie.synergy.calculate_synergy
   regenerated from /repo on every run (Generated/SrcSynergy.v, by harness/py2gal.py with the configurations C20_* of
   harness/src_functions.py), for ALL inputs, with no side condition: the raising numpy primitives of the configuration
   (boolean mask of another length, `&` of other lengths, mean of nothing, last column of no columns) are shown never to
   raise where the model does not. *)
From Coq Require Import ZArith List Bool Lia Arith QArith Qcanon Sorted.
From Batchie Require Import Lib.Sexp Lib.Num Lib.PyRt Generated.Consts Model.Metrics Model.Synergy Generated.SrcSynergy
  Proofs.PyRtLemmas Proofs.C20Spec Proofs.C20Base Proofs.C20Synergy.
Import ListNotations.
Open Scope Z_scope.

(* ---------- small facts ---------- *)
Lemma c20_bind_ok_r {A} (x : result A) : (dor r <- x; Ok r) = x.
Proof. destruct x; reflexivity. Qed.

Lemma of_nat_ltb2 a : (Z.of_nat a <? 2) = Nat.ltb a 2.
Proof. destruct (Nat.ltb_spec a 2); [apply Z.ltb_lt | apply Z.ltb_ge]; lia. Qed.

Lemma of_nat_eqb_nat a b : (Z.of_nat a =? Z.of_nat b) = Nat.eqb a b.
Proof. destruct (Nat.eqb_spec a b) as [->|H]; [apply Z.eqb_refl | apply Z.eqb_neq; lia]. Qed.

Lemma combine_map_map {A B A' B'} (f : A -> A') (g : B -> B') a b :
  combine (map f a) (map g b) = map (fun p => (f (fst p), g (snd p))) (combine a b).
Proof. revert b; induction a as [|x a IH]; intros [|y b]; cbn [map combine fst snd]; try reflexivity. now rewrite IH. Qed.

Lemma select_mask_length {A} mask (l : list A) : length mask = length l -> length (select mask l) = length (filter (fun b => b) mask).
Proof. apply select_length. Qed.

(* ---------- the single-treatment mask ---------- *)
(* np.sum(treatment_ids == CONTROL_SENTINEL_VALUE, axis=1) == treatment_ids.shape[1] - 1, with the sentinel READ from common.py *)
Lemma src_mask_is_model arity tids : (1 <= arity)%nat ->
  np_eq1 (np_sum_rows (np_eq2 tids CONTROL_SENTINEL_VALUE)) (Z.of_nat arity - 1) = single_mask arity tids.
Proof.
  intros H. unfold np_eq1 at 1, np_sum_rows, np_eq2, single_mask. rewrite !map_map. apply map_ext. intros row.
  unfold np_eq1. rewrite filter_map_length. unfold n_control.
  change (fun x : Z => x =? CONTROL_SENTINEL_VALUE) with is_control.
  replace (Z.of_nat arity - 1) with (Z.of_nat (arity - 1)) by lia. apply of_nat_eqb_nat.
Qed.

Lemma single_mask_length arity tids : length (single_mask arity tids) = length tids.
Proof. unfold single_mask. apply map_length. Qed.

(* ---------- np.sort(a, axis=1)[:, -1] is the row maximum ---------- *)
Lemma fold_max_zins : forall r x a, fold_left Z.max (zins x r) a = fold_left Z.max r (Z.max a x).
Proof.
  induction r as [|z r IH]; intros x a; cbn [zins fold_left]; [reflexivity|].
  destruct (x <=? z); cbn [fold_left]; [reflexivity|]. rewrite IH. f_equal. lia.
Qed.

Lemma fold_max_zsort : forall l a, fold_left Z.max (zsort l) a = fold_left Z.max l a.
Proof.
  induction l as [|y l IH]; intros a; [reflexivity|]. cbn [zsort fold_right fold_left]. fold (zsort l).
  now rewrite fold_max_zins, IH.
Qed.

Lemma row_max_fold l : row_max l = match l with [] => CONTROL | x :: _ => fold_left Z.max l x end.
Proof. destruct l as [|x l]; [reflexivity|]. cbn [row_max fold_left]. now rewrite Z.max_id. Qed.

Lemma zins_sorted x l : StronglySorted Z.le l -> StronglySorted Z.le (zins x l).
Proof.
  induction 1 as [|y r Hr IH Hy]; cbn [zins]; [repeat constructor|].
  destruct (Z.leb_spec x y) as [L|L].
  - constructor; [now constructor|]. constructor; [exact L|]. eapply Forall_impl; [|exact Hy]. cbn. intros; lia.
  - constructor; [exact IH|]. clear IH Hr. induction r as [|z r IHr]; cbn [zins]; [constructor; [lia|constructor]|].
    inversion Hy as [|? ? Hz Hy']; subst. destruct (x <=? z); constructor; try lia; try (constructor; assumption); auto.
Qed.

Lemma zsort_sorted l : StronglySorted Z.le (zsort l).
Proof. induction l as [|x l IH]; [constructor|]. cbn [zsort fold_right]. now apply zins_sorted. Qed.

Lemma last_sorted_max : forall r y d, StronglySorted Z.le (y :: r) -> last (y :: r) d = fold_left Z.max r y.
Proof.
  induction r as [|z r IH]; intros y d H; [reflexivity|].
  change (last (y :: z :: r) d) with (last (z :: r) d).
  inversion H as [|? ? Hs Hy]; subst. rewrite IH by exact Hs. cbn [fold_left].
  inversion Hy; subst. f_equal. lia.
Qed.

Lemma zsort_nil_iff l : zsort l = [] -> l = [].
Proof.
  destruct l as [|x l]; [reflexivity|]. cbn [zsort fold_right]. destruct (fold_right zins [] l) as [|y r]; cbn [zins]; [discriminate|].
  destruct (x <=? y); discriminate.
Qed.

Lemma last_zsort_row_max l : last (zsort l) CONTROL = row_max l.
Proof.
  destruct (zsort l) as [|y r] eqn:E.
  - apply zsort_nil_iff in E. now subst.
  - rewrite last_sorted_max by (rewrite <- E; apply zsort_sorted).
    destruct l as [|x l]; [discriminate|].
    (* both sides are the maximum of the same multiset *)
    assert (F : forall a, fold_left Z.max (y :: r) a = fold_left Z.max (x :: l) a) by (intros a; rewrite <- E; apply fold_max_zsort).
    cbn [row_max]. pose proof (F x) as Fx. pose proof (F y) as Fy. cbn [fold_left] in Fx, Fy.
    rewrite Z.max_id in Fy. rewrite Z.max_id in Fx. rewrite fold_max_assoc in Fx, Fy. lia.
Qed.

Lemma src_last_col_is_row_max rows : map (fun r => last r CONTROL) (np_sort_rows rows) = map row_max rows.
Proof. unfold np_sort_rows. rewrite map_map. apply map_ext. intros r. apply last_zsort_row_max. Qed.

(* ---------- pair-keyed dicts ---------- *)
Lemma pdict_get_is_lookup (m : effect_map_t) s t : pdict_get m s t = map_lookup m s t.
Proof.
  unfold map_lookup. induction m as [|[[a b] v] m IH]; [reflexivity|]. cbn [pdict_get find fst snd].
  destruct ((a =? s) && (b =? t)); [reflexivity | exact IH].
Qed.

Lemma pdict_set_fresh {V} (d : list ((Z * Z) * V)) a b v : pdict_get d a b = None -> pdict_set d a b v = d ++ [((a, b), v)].
Proof.
  induction d as [|[[a' b'] v'] d IH]; intros H; [reflexivity|]. cbn [pdict_get pdict_set app] in *.
  destruct ((a' =? a) && (b' =? b)); [discriminate|]. now rewrite IH.
Qed.

Lemma pdict_get_app {V} (d e : list ((Z * Z) * V)) a b :
  pdict_get (d ++ e) a b = match pdict_get d a b with Some v => Some v | None => pdict_get e a b end.
Proof.
  induction d as [|[[a' b'] v'] d IH]; [reflexivity|]. cbn [pdict_get app].
  destruct ((a' =? a) && (b' =? b)); [reflexivity | exact IH].
Qed.

(* ---------- the two loops of create_single_treatment_effect_map ---------- *)
Section Loops.
Variable ent : Z -> Z -> effect_map_t.
Hypothesis ent_shape : forall s t, ent s t = [] \/ exists v, ent s t = [((s, t), v)].

Lemma ent_other s t s' t' : (s, t) <> (s', t') -> pdict_get (ent s t) s' t' = None.
Proof.
  intros N. destruct (ent_shape s t) as [->|[v ->]]; [reflexivity|]. cbn [pdict_get].
  destruct (Z.eqb_spec s s') as [->|]; [|reflexivity]. destruct (Z.eqb_spec t t') as [->|]; [now elim N | reflexivity].
Qed.

Lemma ents_other s T s' t' : s <> s' -> pdict_get (flat_map (ent s) T) s' t' = None.
Proof.
  intros N. induction T as [|t T IH]; [reflexivity|]. cbn [flat_map]. rewrite pdict_get_app, ent_other, IH; [reflexivity|].
  intros E. apply N. congruence.
Qed.

Lemma inner_loop s (f : effect_map_t -> Z -> result effect_map_t) :
  (forall d t, pdict_get d s t = None -> f d t = Ok (d ++ ent s t)) ->
  forall T d, NoDup T -> (forall t, In t T -> pdict_get d s t = None) -> res_fold f T d = Ok (d ++ flat_map (ent s) T).
Proof.
  intros Hf T. induction T as [|t T IH]; intros d ND Hd; cbn [res_fold flat_map]; [now rewrite app_nil_r|].
  rewrite Hf by (apply Hd; now left). cbn [res_bind]. inversion ND as [|? ? Hn ND']; subst.
  rewrite IH; [now rewrite app_assoc | exact ND' |].
  intros t' Ht'. rewrite pdict_get_app, (Hd t') by now right. apply ent_other. intros E. apply Hn. congruence.
Qed.

Lemma outer_loop T (g : effect_map_t -> Z -> result effect_map_t) :
  (forall d s, (forall t, pdict_get d s t = None) -> g d s = Ok (d ++ flat_map (ent s) T)) ->
  forall S d, NoDup S -> (forall s t, In s S -> pdict_get d s t = None) ->
  res_fold g S d = Ok (d ++ flat_map (fun s => flat_map (ent s) T) S).
Proof.
  intros Hg S. induction S as [|s S IH]; intros d ND Hd; cbn [res_fold flat_map]; [now rewrite app_nil_r|].
  rewrite Hg by (intros t; apply Hd; now left). cbn [res_bind]. inversion ND as [|? ? Hn ND']; subst.
  rewrite IH; [now rewrite app_assoc | exact ND' |].
  intros s' t' Hs'. rewrite pdict_get_app, (Hd s' t') by now right. apply ents_other. intros ->. now apply Hn.
Qed.
End Loops.

(* the entry of (sample s, treatment t) as the model computes it *)
Definition model_entry (s_obs : list Qc) (s_trt s_sid : list Z) (s t : Z) : effect_map_t :=
  if is_control t then [((s, t), 1%Qc)]
  else
    let m := map (fun ts : Z * Z => (fst ts =? t) && (snd ts =? s)) (combine s_trt s_sid) in
    if existsb (fun b => b) m then [((s, t), qmean (select m s_obs))] else [].

Lemma model_entry_shape s_obs s_trt s_sid s t :
  model_entry s_obs s_trt s_sid s t = [] \/ exists v, model_entry s_obs s_trt s_sid s t = [((s, t), v)].
Proof.
  unfold model_entry. destruct (is_control t); [right; eauto|]. cbv zeta.
  destruct (existsb _ _); [right; eauto | now left].
Qed.

Theorem src_effect_map_is_model : forall (arity : nat) (sids : list Z) (tids : list (list Z)) (obs : list Qc),
  src_create_single_treatment_effect_map arity sids tids obs = effect_map arity sids tids obs.
Proof.
  intros arity sids tids obs. unfold src_create_single_treatment_effect_map, effect_map.
  rewrite of_nat_ltb2. destruct (Nat.ltb_spec arity 2) as [|A2]; [reflexivity|].
  rewrite src_mask_is_model by lia. unfold np_select at 1. rewrite single_mask_length.
  rewrite (Nat.eqb_sym (length tids) (length obs)).
  destruct (Nat.eqb_spec (length obs) (length tids)) as [Lo|]; cbn [negb orb res_bind]; [|reflexivity].
  unfold np_select at 1. rewrite single_mask_length, Nat.eqb_refl. cbn [res_bind].
  unfold np_last_col. destruct (Nat.eqb_spec arity 0) as [|_]; [lia|]. cbn [res_bind].
  unfold np_select at 1. rewrite single_mask_length. rewrite (Nat.eqb_sym (length tids) (length sids)).
  destruct (Nat.eqb_spec (length sids) (length tids)) as [Ls|]; cbn [negb res_bind]; [|reflexivity].
  rewrite src_last_col_is_row_max.
  set (mask := single_mask arity tids).
  set (s_obs := select mask obs). set (s_trt := map row_max (select mask tids)). set (s_sid := select mask sids).
  assert (Lt : length s_trt = length s_obs).
  { unfold s_trt, s_obs. rewrite map_length, !select_length; try reflexivity; unfold mask; rewrite single_mask_length; congruence. }
  assert (Lsd : length s_sid = length s_obs).
  { unfold s_sid, s_obs. rewrite !select_length; try reflexivity; unfold mask; rewrite single_mask_length; congruence. }
  rewrite c20_bind_ok_r.
  rewrite (outer_loop (model_entry s_obs s_trt s_sid) (model_entry_shape s_obs s_trt s_sid) (sorted_unique (concat tids))).
  - reflexivity.
  - intros d s Hd. rewrite c20_bind_ok_r. apply (inner_loop _ (model_entry_shape s_obs s_trt s_sid)).
    + intros d' t Hfresh. unfold model_entry. change (t =? CONTROL_SENTINEL_VALUE) with (is_control t).
      destruct (is_control t).
      * unfold q_one. now rewrite pdict_set_fresh.
      * unfold np_and, np_eq1. rewrite !map_length, Lt, Lsd, Nat.eqb_refl. cbn [res_bind].
        rewrite combine_map_map, map_map. cbn [fst snd]. unfold np_any.
        set (m := map (fun x : Z * Z => (fst x =? t) && (snd x =? s)) (combine s_trt s_sid)).
        assert (Lm : length m = length s_obs).
        { unfold m. rewrite map_length, combine_length, Lt, Lsd. apply Nat.min_id. }
        cbv zeta. fold m. destruct (existsb (fun b => b) m) eqn:Ex; cbn [negb].
        -- unfold np_select. rewrite Lm, Nat.eqb_refl. cbn [res_bind].
           rewrite (existsb_select m s_obs Lm) in Ex. unfold np_mean.
           destruct (select m s_obs) as [|x sel] eqn:Es; [discriminate|]. cbn [res_bind].
           now rewrite pdict_set_fresh.
        -- now rewrite app_nil_r.
    + apply ssorted_NoDup, sorted_unique_sorted.
    + intros t _. apply Hd.
  - apply ssorted_NoDup, sorted_unique_sorted.
  - reflexivity.
Qed.

(* ---------- calculate_synergy ---------- *)
(* `for idx, x in enumerate(l)` whose body does not read idx *)
Lemma res_fold_enumerate {S A} (F : S -> Z * A -> result S) (f : S -> A -> result S) :
  (forall s i x, F s (i, x) = f s x) -> forall l s, res_fold F (enumerate_z l) s = res_fold f l s.
Proof.
  intros H l. unfold enumerate_z. generalize 0%nat. induction l as [|a l IH]; intros k s; [reflexivity|].
  cbn [length seq map combine res_fold]. rewrite H. destruct (f s a); cbn [res_bind]; [apply IH | reflexivity].
Qed.

Lemma select_ne_control row : select (np_ne1 row CONTROL_SENTINEL_VALUE) row = filter (fun t => negb (is_control t)) row.
Proof.
  unfold np_ne1. induction row as [|x row IH]; [reflexivity|]. cbn [map filter]. rewrite select_cons, IH. reflexivity.
Qed.

Lemma somes_cons {A} (o : option A) l : somes (o :: l) = match o with Some a => a :: somes l | None => somes l end.
Proof. destruct o; reflexivity. Qed.

Lemma somes_length_le {A} (l : list (option A)) : (length (somes l) <= length l)%nat.
Proof. induction l as [|[a|] l IH]; [apply Nat.le_refl | |]; rewrite somes_cons; cbn [length]; lia. Qed.

Lemma somes_length_all {A} (l : list (option A)) :
  Nat.eqb (length l) (length (somes l)) = forallb Synergy.is_some l.
Proof.
  induction l as [|[a|] l IH]; [reflexivity| |]; rewrite somes_cons; cbn [length forallb Synergy.is_some andb].
  - exact IH.
  - apply Nat.eqb_neq. pose proof (somes_length_le l). lia.
Qed.

(* the inner loop: the single effects found so far; strict mode raises at the first treatment without one *)
Lemma effects_loop (m : effect_map_t) (s : Z) (strict : bool) (g : list Qc -> Z -> result (list Qc)) :
  (forall acc t, g acc t = if negb (pdict_mem m s t) then (if strict then Err 1 else Ok acc)
                           else dor r <- pdict_read 5 m s t; Ok (acc ++ [r])) ->
  forall ids acc, res_fold g ids acc
    = if strict && negb (forallb Synergy.is_some (map (map_lookup m s) ids)) then Err 1
      else Ok (acc ++ somes (map (map_lookup m s) ids)).
Proof.
  intros Hg ids. induction ids as [|t ids IH]; intros acc; cbn [res_fold map forallb somes flat_map].
  - rewrite andb_false_r. now rewrite app_nil_r.
  - rewrite Hg. unfold pdict_mem, pdict_read. rewrite pdict_get_is_lookup.
    destruct (map_lookup m s t) as [v|]; cbn [negb Synergy.is_some andb res_bind].
    + rewrite IH. fold (somes (map (map_lookup m s) ids)). destruct (strict && _); [reflexivity|]. now rewrite <- app_assoc.
    + destruct strict; cbn [andb negb]; [reflexivity|]. cbn [res_bind]. rewrite IH. reflexivity.
Qed.

Definition syn_state : Type := (list Qc * list (list Z) * list Z)%type.

(* one row of the outer loop, as the model's synergy_loop treats it *)
Definition syn_step (strict : bool) (m : effect_map_t) (st : syn_state) (r : Z * list Z * Qc) : result syn_state :=
  let '(syn, ts, ss) := st in
  let '(s, row, o) := r in
  let ids := filter (fun t => negb (is_control t)) row in
  let effs := map (map_lookup m s) ids in
  if forallb Synergy.is_some effs then Ok (syn ++ [(qprod (somes effs) - o)%Qc], ts ++ [ids], ss ++ [s])
  else if strict then Err E_VALUE else Ok st.

Lemma syn_loop strict m (f : syn_state -> Z * list Z * Qc -> result syn_state) :
  (forall st r, f st r = syn_step strict m st r) ->
  forall rows st, res_fold f rows st
    = dor out <- synergy_loop strict m rows;
      Ok (fst (fst st) ++ map snd out, snd (fst st) ++ map (fun r => snd (fst r)) out, snd st ++ map (fun r => fst (fst r)) out).
Proof.
  intros Hf rows. induction rows as [|[[s row] o] rows IH]; intros [[syn ts] ss]; cbn [res_fold synergy_loop res_bind fst snd map].
  - now rewrite !app_nil_r.
  - rewrite Hf. unfold syn_step. cbv zeta.
    destruct (forallb Synergy.is_some _); cbn [res_bind].
    + rewrite IH. destruct (synergy_loop strict m rows) as [out|e]; cbn [res_bind map fst snd]; [|reflexivity].
      now rewrite <- !app_assoc.
    + destruct strict; cbn [res_bind]; [reflexivity|]. apply IH.
Qed.

Theorem src_calculate_synergy_is_model : forall (arity : nat) (sids : list Z) (tids : list (list Z)) (obs : list Qc) (strict : bool),
  src_calculate_synergy arity sids tids obs strict = calculate_synergy strict arity sids tids obs.
Proof.
  intros arity sids tids obs strict. unfold src_calculate_synergy, calculate_synergy.
  rewrite of_nat_ltb2. destruct (Nat.ltb_spec arity 2) as [|A2]; [reflexivity|].
  rewrite !of_nat_eqb_nat.
  destruct (Nat.eqb_spec (length sids) (length tids)) as [Lt|]; cbn [negb]; [|reflexivity].
  destruct (Nat.eqb_spec (length sids) (length obs)) as [Lo|]; cbn [negb]; [|reflexivity].
  rewrite src_effect_map_is_model. destruct (effect_map arity sids tids obs) as [m|e]; cbn [res_bind]; [|reflexivity].
  rewrite src_mask_is_model by lia. unfold np_not.
  set (multi := map negb (single_mask arity tids)).
  assert (Lm : length multi = length tids) by (unfold multi; now rewrite map_length, single_mask_length).
  unfold np_select at 1 2 3. rewrite Lm, <- Lt, Nat.eqb_refl. rewrite Lo, Nat.eqb_refl. cbn [res_bind].
  rewrite (res_fold_enumerate _ (syn_step strict m)).
  - rewrite (syn_loop strict m (syn_step strict m)) by reflexivity. unfold zip3.
    destruct (synergy_loop strict m _) as [out|e]; cbn [res_bind fst snd app]; [|reflexivity].
    unfold np_array_rows. destruct (all_same_length _); reflexivity.
  - intros [[syn ts] ss] i [[s row] o]. unfold syn_step. cbv zeta.
    unfold np_select. unfold np_ne1 at 1. rewrite map_length, Nat.eqb_refl. cbn [res_bind]. rewrite select_ne_control.
    set (ids := filter (fun t => negb (is_control t)) row).
    rewrite (effects_loop m s strict) by reflexivity. cbn [app].
    destruct (forallb Synergy.is_some (map (map_lookup m s) ids)) eqn:All.
    + rewrite andb_false_r. cbn [res_bind]. rewrite of_nat_eqb_nat.
      rewrite <- (map_length (map_lookup m s) ids) at 1. rewrite somes_length_all, All. reflexivity.
    + destruct strict; cbn [andb negb res_bind]; [reflexivity|]. rewrite of_nat_eqb_nat.
      rewrite <- (map_length (map_lookup m s) ids) at 1. rewrite somes_length_all, All. reflexivity.
Qed.

(* ---------- create_single_treatment_effect_array ---------- *)
Lemma list_set_at {A} tag (pre : list A) x suf v :
  list_set tag (pre ++ x :: suf) (Z.of_nat (length pre)) v = Ok (pre ++ v :: suf).
Proof.
  unfold list_set. cbv zeta. rewrite app_length. cbn [length].
  destruct (Z.ltb_spec (Z.of_nat (length pre)) 0) as [|_]; [lia|].
  destruct (Z.leb_spec 0 (Z.of_nat (length pre))) as [_|]; [|lia].
  destruct (Z.ltb_spec (Z.of_nat (length pre)) (Z.of_nat (length pre + S (length suf)))) as [_|]; [|lia].
  cbn [andb]. rewrite Nat2Z.id. f_equal.
  rewrite firstn_app, firstn_all, Nat.sub_diag, firstn_O, app_nil_r. f_equal. f_equal.
  rewrite skipn_app, skipn_all2 by lia. replace (S (length pre) - length pre)%nat with 1%nat by lia. reflexivity.
Qed.

Lemma list_set2_at {A} tag (Mtop : list (list A)) pre x suf Mbot v :
  list_set2 tag (Mtop ++ (pre ++ x :: suf) :: Mbot) (Z.of_nat (length Mtop)) (Z.of_nat (length pre)) v
  = Ok (Mtop ++ (pre ++ v :: suf) :: Mbot).
Proof.
  unfold list_set2. cbv zeta. rewrite app_length. cbn [length].
  destruct (Z.ltb_spec (Z.of_nat (length Mtop)) 0) as [|_]; [lia|].
  destruct (Z.leb_spec 0 (Z.of_nat (length Mtop))) as [_|]; [|lia].
  destruct (Z.ltb_spec (Z.of_nat (length Mtop)) (Z.of_nat (length Mtop + S (length Mbot)))) as [_|]; [|lia].
  cbn [andb]. rewrite Nat2Z.id, app_nth2, Nat.sub_diag by lia. cbn [nth].
  rewrite list_set_at. cbn [res_bind]. apply list_set_at.
Qed.

Section ArrayLoops.
Variable tag : Z.
Variable look : Z -> Z -> result Qc.

(* the inner loop writes row [length Mtop] entry by entry *)
Lemma array_inner_loop s (F : list (list Qc) -> Z * Z -> result (list (list Qc))) Mtop Mbot :
  (forall M j t, F M (j, t) = dor r <- look s t; list_set2 tag M (Z.of_nat (length Mtop)) j r) ->
  forall ts pre suf, length suf = length ts ->
  res_fold F (combine (map Z.of_nat (seq (length pre) (length ts))) ts) (Mtop ++ (pre ++ suf) :: Mbot)
  = dor vs <- res_map_all (look s) ts; Ok (Mtop ++ (pre ++ vs) :: Mbot).
Proof.
  intros HF ts. induction ts as [|t ts IH]; intros pre suf L.
  - destruct suf; [|discriminate]. reflexivity.
  - destruct suf as [|x suf]; [discriminate|]. cbn [length seq map combine res_fold res_map_all].
    rewrite HF. destruct (look s t) as [v|e]; cbn [res_bind]; [|reflexivity].
    rewrite list_set2_at. cbn [res_bind].
    replace (pre ++ v :: suf) with ((pre ++ [v]) ++ suf) by (now rewrite <- app_assoc).
    replace (S (length pre)) with (length (pre ++ [v])) by (rewrite app_length; cbn [length]; lia).
    rewrite IH by (cbn [length] in L; lia).
    destruct (res_map_all (look s) ts) as [vs|e]; cbn [res_bind]; [|reflexivity]. now rewrite <- app_assoc.
Qed.

Definition ones_of (rows : list (Z * list Z)) : list (list Qc) := map (fun st => map (fun _ => q_one) (snd st)) rows.

(* the outer loop fills the rows from the top *)
Lemma array_outer_loop (G : list (list Qc) -> Z * (Z * list Z) -> result (list (list Qc))) :
  (forall M i s ts, exists F, (forall M' j t, F M' (j, t) = dor r <- look s t; list_set2 tag M' i j r)
                              /\ G M (i, (s, ts)) = res_fold F (enumerate_z ts) M) ->
  forall rows Mtop,
  res_fold G (combine (map Z.of_nat (seq (length Mtop) (length rows))) rows) (Mtop ++ ones_of rows)
  = dor vss <- res_map_all (fun st => res_map_all (look (fst st)) (snd st)) rows; Ok (Mtop ++ vss).
Proof.
  intros HG rows. induction rows as [|[s ts] rows IH]; intros Mtop.
  - reflexivity.
  - cbn [length seq map combine res_fold res_map_all ones_of fst snd]. fold (ones_of rows).
    destruct (HG (Mtop ++ map (fun _ => q_one) ts :: ones_of rows) (Z.of_nat (length Mtop)) s ts) as (F & HF & ->).
    unfold enumerate_z.
    pose proof (array_inner_loop s F Mtop (ones_of rows) HF ts [] (map (fun _ => q_one) ts) (map_length _ _)) as E.
    cbn [length app] in E. rewrite E. clear E.
    destruct (res_map_all (look s) ts) as [vs|e]; cbn [res_bind app]; [|reflexivity].
    replace (Mtop ++ vs :: ones_of rows) with ((Mtop ++ [vs]) ++ ones_of rows) by (now rewrite <- app_assoc).
    replace (S (length Mtop)) with (length (Mtop ++ [vs])) by (rewrite app_length; cbn [length]; lia).
    rewrite IH. destruct (res_map_all _ rows) as [vss|e]; cbn [res_bind]; [|reflexivity]. now rewrite <- app_assoc.
Qed.
End ArrayLoops.

Lemma effect_map_ok_lengths arity sids tids obs m :
  effect_map arity sids tids obs = Ok m -> length sids = length tids.
Proof.
  unfold effect_map. destruct (Nat.ltb arity 2); [discriminate|].
  destruct (Nat.eqb_spec (length obs) (length tids)); cbn [negb orb]; [|discriminate].
  destruct (Nat.eqb_spec (length sids) (length tids)); cbn [negb]; [auto | discriminate].
Qed.

Lemma map_snd_combine {A B} (a : list A) (b : list B) : length a = length b -> map snd (combine a b) = b.
Proof. revert b; induction a as [|x a IH]; intros [|y b] H; try discriminate; [reflexivity|]. cbn [combine map snd]. f_equal. apply IH. now injection H. Qed.

Theorem src_effect_array_is_model : forall (arity : nat) (sids : list Z) (tids : list (list Z)) (obs : list Qc),
  src_create_single_treatment_effect_array arity sids tids obs = effect_array arity sids tids obs.
Proof.
  intros arity sids tids obs. unfold src_create_single_treatment_effect_array, effect_array.
  rewrite src_effect_map_is_model. destruct (effect_map arity sids tids obs) as [m|e] eqn:Em; cbn [res_bind]; [|reflexivity].
  apply effect_map_ok_lengths in Em. rewrite c20_bind_ok_r.
  set (look := fun s t : Z => pdict_read 5 m s t).
  assert (Eones : np_ones_like tids = [] ++ ones_of (combine sids tids)).
  { unfold np_ones_like, ones_of. cbn [app]. rewrite <- (map_snd_combine sids tids Em) at 1. now rewrite map_map. }
  rewrite Eones. unfold enumerate_z.
  match goal with |- context [res_fold ?G _ _] =>
    pose proof (fun H => array_outer_loop 4 look G H (combine sids tids) []) as E end.
  cbn [length] in E. rewrite E; clear E.
  - cbn [app]. rewrite c20_bind_ok_r. apply res_map_all_ext_in. intros [s ts] _. cbn [fst snd].
    apply res_map_all_ext_in. intros t _. unfold look, pdict_read. rewrite pdict_get_is_lookup. reflexivity.
  - intros M i s ts. eexists. split; [|rewrite c20_bind_ok_r; reflexivity].
    intros M' j t. cbn beta iota. unfold look. destruct (pdict_read 5 m s t); cbn [res_bind]; [apply c20_bind_ok_r | reflexivity].
Qed.

(* ---------- the property theorems as theorems about the translated source ---------- *)
Theorem src_synergy_is_definition : forall arity sids tids obs,
  (2 <= arity)%nat -> length sids = length tids -> length obs = length tids ->
  Forall (fun r => length r = arity) tids -> Forall (Forall valid_id) tids ->
  forall strict, src_calculate_synergy arity sids tids obs strict = synergy_def sids tids obs strict.
Proof.
  intros arity sids tids obs A Ls Lo R V strict. rewrite src_calculate_synergy_is_model. now apply synergy_eq.
Qed.

Theorem src_effect_array_is_definition : forall arity sids tids obs,
  (2 <= arity)%nat -> length sids = length tids -> length obs = length tids ->
  Forall (fun r => length r = arity) tids -> Forall (Forall valid_id) tids ->
  src_create_single_treatment_effect_array arity sids tids obs = effect_array_def sids tids obs.
Proof.
  intros arity sids tids obs A Ls Lo R V. rewrite src_effect_array_is_model. now apply effect_array_eq.
Qed.
