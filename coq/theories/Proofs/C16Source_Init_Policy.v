(* C16: KPerSamplePlatePolicy.__init__ (Generated/SrcInits.v) stores its argument: the attribute the translated methods of the class read
   (`self.<attr>` = the model parameter of their links) is the value the object was constructed with - k *)
From Coq Require Import ZArith List Bool.
From Batchie Require Import Lib.Sexp Lib.PyRt Model.Encode Generated.SrcInits.
Import ListNotations.
Open Scope Z_scope.

Theorem src_k_per_sample_init_stores : forall k : Z, src_k_per_sample_init k = Ok k.
Proof. reflexivity. Qed.
