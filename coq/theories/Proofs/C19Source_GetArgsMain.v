(* C19: the translated get_args composed with the translated main().  C19_MAIN takes `args, remaining_args = get_args()` as the
   primitive "the parsed arguments (argv, extra)" and its linking theorems carry the hypothesis a_mode argv = modename_of md.
   Here that hypothesis is discharged: whatever the command line, when the TRANSLATED get_args returns, the record main() reads
   off the namespace (margs_of_ns) has a mode main() dispatches on, so main() IS the model's invocation in that mode with that
   batch size; its `else: raise ValueError("Unknown mode")` cannot be reached from the command line. *)
From Coq Require Import ZArith List Bool Lia.
From Batchie Require Import Lib.Sexp Lib.PyRt Model.Orchestrate Generated.SrcOrchArgs Generated.SrcOrchestrate Generated.SrcOrchMain
  Proofs.C19Source_GetArgs Proofs.C19SourceMain.
Import ListNotations.
Open Scope Z_scope.

Theorem src_get_args_then_main : forall cmdline ns remaining,
  src_get_args cmdline = SOk (ns, remaining) ->
  exists (md : mode) (argv : margs),
    margs_of_ns ns = Some argv /\ a_mode argv = modename_of md
    /\ (~ In L_batch_size cmdline -> a_batch_size argv = 1)
    /\ forall n fuel extra f sched calls0, (length sched < fuel)%nat ->
         src_main n fuel argv extra (mkw f sched calls0)
         = mres_of_ires calls0 (invocation md true (a_batch_size argv) n f sched).
Proof.
  intros cmdline ns remaining H.
  destruct (src_get_args_gives_main_args _ _ _ H) as (md & b & scr & out & Hm & _ & _ & _ & Hb).
  exists md, (mka (modename_of md) b). repeat split; [exact Hm | exact Hb |].
  intros n fuel extra f sched calls0 Hf.
  apply src_main_is_invocation_window; [reflexivity | exact Hf].
Qed.

(* the ValueError branch of main() is dead code for every namespace get_args can return *)
Theorem src_get_args_mode_known : forall cmdline ns remaining argv z,
  src_get_args cmdline = SOk (ns, remaining) -> margs_of_ns ns = Some argv -> a_mode argv <> NOther z.
Proof.
  intros cmdline ns remaining argv z H Ha.
  destruct (src_get_args_gives_main_args _ _ _ H) as (md & b & scr & out & Hm & _).
  rewrite Hm in Ha. injection Ha as <-. destruct md; discriminate.
Qed.
