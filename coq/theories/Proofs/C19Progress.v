(* C19 — progress of the retrospective mode after a crash ("rerunning it ... continues the simulation").
   From ANY reachable tree with c completed steps, calls that are not interrupted complete one further step each, except that
   the first one may be spent on naming the incomplete directory (which the operator removes); after n - c + 1 such calls the
   run is the never-interrupted one. *)
From Coq Require Import ZArith List Bool Lia Arith.
From Batchie Require Import Model.Orchestrate Proofs.C19Base Proofs.C19Canon Proofs.C19Step Proofs.C19Main.
Import ListNotations.
Open Scope Z_scope.

Section Progress.
Variables (bs n : nat) (fixed : bool).
Hypothesis Hbs : (1 <= bs)%nat.
Hypothesis Hn : (1 <= n)%nat.
Hypothesis Hfix : fixed = true \/ bs = 1%nat.

Local Notation canon := (canon Retro bs n).
Local Notation B := (Z.of_nat bs).

Definition good (e : entry) : Prop := entry_ok e = true /\ full_entry e.

Lemma full_step c x e :
  okx c x -> (forall d, x <> XIncomplete d) -> (c < n)%nat -> good e ->
  fst (attempt Retro fixed B n (canon c x) e) = canon (S c) XNone.
Proof.
  intros Hx Hx' Hc [He Hf].
  exact (attempt_full Retro bs n Hbs Hn fixed c x e Hx Hfix Hx' Hc (fun _ => Hc) He Hf).
Qed.

Lemma named_step c d e :
  okx c (XIncomplete d) -> (c <= n)%nat ->
  attempt Retro fixed B n (canon c (XIncomplete d)) e = (canon c XEmptyIter, GNamed 1 (step_of bs c)).
Proof.
  intros Hx Hc. unfold attempt.
  rewrite (plan_canon Retro bs n Hbs Hn fixed c (XIncomplete d) Hx Hfix (fun _ => Hc)).
  rewrite (rmtree_canon_inc Retro bs n Hbs Hn). reflexivity.
Qed.

Lemma done_step c x e :
  okx c x -> (forall d, x <> XIncomplete d) -> (n <= c)%nat -> (c <= n)%nat ->
  attempt Retro fixed B n (canon c x) e = (canon c x, GDone).
Proof.
  intros Hx Hx' Hc Hc'. unfold attempt.
  rewrite (plan_canon Retro bs n Hbs Hn fixed c x Hx Hfix (fun _ => Hc')).
  apply Nat.leb_le in Hc. rewrite Hc.
  destruct x; try reflexivity. exfalso. eapply Hx'. reflexivity.
Qed.

(* from a tree without an incomplete directory: one step per call until all n are complete *)
Lemma run_good : forall es c x,
  Forall good es -> okx c x -> (forall d, x <> XIncomplete d) -> (c <= n)%nat ->
  exists x', fst (script_run Retro fixed B n (canon c x) es) = canon (Nat.min n (c + length es)) x'
             /\ okx (Nat.min n (c + length es)) x' /\ (forall d, x' <> XIncomplete d).
Proof.
  induction es as [|e r IH]; intros c x Hes Hx Hx' Hc.
  - exists x. cbn [script_run fst length]. rewrite Nat.add_0_r, Nat.min_r by lia. auto.
  - inversion Hes as [|? ? He Hr]; subst. cbn [script_run length].
    destruct (Nat.eq_dec c n) as [->|Hne].
    + rewrite (done_step n x e Hx Hx') by lia.
      destruct (IH n x Hr Hx Hx' (le_n _)) as (x' & E & Hok & Hni).
      destruct (script_run Retro fixed B n (canon n x) r) as [f2 gs]. cbn [fst] in *.
      exists x'. rewrite Nat.min_l in * by lia. auto.
    + assert (Hlt : (c < n)%nat) by lia.
      pose proof (full_step c x e Hx Hx' Hlt He) as Ha.
      destruct (attempt Retro fixed B n (canon c x) e) as [f1 g]. cbn [fst] in Ha. subst f1.
      destruct (IH (S c) XNone Hr I ltac:(intros d; discriminate) ltac:(lia)) as (x' & E & Hok & Hni).
      destruct (script_run Retro fixed B n (canon (S c) XNone) r) as [f2 gs]. cbn [fst] in *.
      exists x'. replace (c + S (length r))%nat with (S c + length r)%nat by lia. auto.
Qed.

Lemma run_good_any : forall es c x,
  Forall good es -> okx c x -> (c <= n)%nat ->
  exists c' x', fst (script_run Retro fixed B n (canon c x) es) = canon c' x' /\ okx c' x' /\ (c' <= n)%nat
                /\ (Nat.min n (c + length es - 1) <= c')%nat.
Proof.
  intros es c x Hes Hx Hc.
  destruct x as [| |d].
  - destruct (run_good es c XNone Hes Hx ltac:(intros d; discriminate) Hc) as (x' & E & Hok & _).
    exists (Nat.min n (c + length es)), x'. repeat split; auto; lia.
  - destruct (run_good es c XEmptyIter Hes Hx ltac:(intros d; discriminate) Hc) as (x' & E & Hok & _).
    exists (Nat.min n (c + length es)), x'. repeat split; auto; lia.
  - destruct es as [|e r].
    + exists c, (XIncomplete d). cbn [script_run fst length]. repeat split; auto. lia.
    + inversion Hes as [|? ? He Hr]; subst. cbn [script_run length].
      rewrite (named_step c d e Hx Hc).
      destruct (run_good r c XEmptyIter Hr I ltac:(intros d'; discriminate) Hc) as (x' & E & Hok & _).
      destruct (script_run Retro fixed B n (canon c XEmptyIter) r) as [f2 gs]. cbn [fst] in *.
      exists (Nat.min n (c + length r)), x'. repeat split; auto; lia.
Qed.

Theorem retro_progress sched0 es :
  sched_ok sched0 -> Forall good es ->
  let f := fst (script_run Retro fixed B n [] sched0) in
  let f' := fst (script_run Retro fixed B n f es) in
  completed f' = ideal Retro bs n (length (completed f')) /\
  (Nat.min n (length (completed f) + length es - 1) <= length (completed f') <= n)%nat.
Proof.
  intros Hs Hes. cbn zeta.
  destruct (invariant Retro bs n fixed Hbs Hn Hfix sched0 Hs) as (c & x & E & Hx & Hcn). rewrite E.
  specialize (Hcn eq_refl).
  destruct (run_good_any es c x Hes Hx Hcn) as (c' & x' & E' & Hx' & Hc' & Hge). rewrite E'.
  rewrite !(completed_canon Retro bs n Hbs Hn) by assumption.
  rewrite !(ideal_length Retro bs n). auto.
Qed.

(* n - c + 1 uninterrupted calls finish the simulation *)
Theorem retro_rerun_finishes sched0 es :
  sched_ok sched0 -> Forall good es ->
  let f := fst (script_run Retro fixed B n [] sched0) in
  (n + 1 <= length (completed f) + length es)%nat ->
  completed (fst (script_run Retro fixed B n f es)) = crash_free Retro bs n.
Proof.
  intros Hs Hes. cbn zeta. intros Hlen.
  destruct (retro_progress sched0 es Hs Hes) as [E [Hlo Hhi]]. cbn zeta in *.
  rewrite E. unfold crash_free. f_equal. lia.
Qed.

End Progress.
