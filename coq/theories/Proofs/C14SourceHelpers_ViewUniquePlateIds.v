(* C14, one piece of Proofs/C14SourceHelpers.v (which see): ScreenBase.unique_plate_ids on a ScreenSubset / Plate object *)
From Coq Require Import ZArith List Bool Arith Lia ZifyBool.
From Batchie Require Import Lib.Sexp Lib.PyRt Generated.Consts Model.Encode Model.Screen Model.Views
  Generated.SrcEncode Generated.SrcViews Generated.SrcPlates
  Proofs.PyRtLemmas Proofs.C01Sort Proofs.C14Defs Proofs.C14Lists Proofs.C14Unique.
Import ListNotations.
Open Scope Z_scope.

Theorem src_view_unique_plate_ids_is_model : forall v : view, src_view_unique_plate_ids v = Ok (view_unique_pids v).
Proof. reflexivity. Qed.
