(* C20: the model's ev_save / ev_load (Model/Metrics.v) equal the translations of
     batchie.models.main.ModelEvaluation.save_h5 / load_h5
   and of the helpers batchie.data.encode_string_array / decode_string_array they call (and of the property sample_names),
   regenerated from /repo on every run (Generated/SrcEvalIO.v, by harness/py2gal.py with the configurations C20_EVIO_* of
   harness/src_functions.py), for all inputs.
   The translated methods work on a RAW file [evraw] (datasets by name, last part of Model/Metrics.v): save_h5 denotes the
   raw file it has written, load_h5 reads a raw file.  The model works on the tuple [eval_file]; the representation map is
   [evraw_close] (every dataset of the tuple present under its name, with its kind; the 2-d predictions carry shape[1]).
     save:  what the translated save_h5 wrote, read back by name, is exactly the model's [ev_save e] with
            shape[1] = ncols                      (which datasets, under which names, from which properties of the object)
     load:  on every raw file that represents (ncols, f), the translated load_h5 is the model's [ev_load f] when the
            stored shape[1] is the number of stored chain ids (true of every file the translated save_h5 writes for a
            constructed evaluation), and the constructor's ValueError otherwise - no hypothesis
     load after save on the raw file itself returns the evaluation: C20_eval_save_load speaks about the translated source,
     including the evaluation without experiments (its (0, m) predictions, its sample names without elements). *)
From Coq Require Import ZArith List Bool Lia Arith QArith Qcanon.
From Coq Require String Ascii.
From Batchie Require Import Lib.Sexp Lib.Num Lib.PyRt Model.Metrics Generated.SrcMetrics Generated.SrcEvalIO
  Proofs.PyRtLemmas Proofs.C20Metrics Proofs.C20SourceMetrics.
Import ListNotations.
Open Scope Z_scope.

(* evaluation of the name lookups: all dataset names are literals *)
Ltac evraw_eval :=
  cbv [evraw_create evraw_empty evraw_find app res_bind evraw_read_f2 evraw_read_f1 evraw_read_i1 evraw_read_s1
       EK_predictions EK_observations EK_chain_ids EK_sample_names String.eqb Ascii.eqb Bool.eqb andb].

(* ---------- the string codec helpers ----------
   encode_string_array / decode_string_array as translated (the `arr.size == 0` guard, np.empty of the same shape,
   np.char.encode / decode which numpy answers with a float64 array when there is no element) are the identity on the
   strings of EVERY 1-d array, with or without elements.  (Without the guard the translation raises tag 33 on the sample
   names of an evaluation without experiments - the defect repaired in /repo 6d95451.) *)
Theorem src_ev_encode_string_array_is_identity : forall a : list pyname, src_ev_encode_string_array a = Ok a.
Proof. intros a. unfold src_ev_encode_string_array, ev_empty_like, ev_char_codec. destruct (ev_arr_empty a); reflexivity. Qed.
Theorem src_ev_decode_string_array_is_identity : forall a : list bstr, src_ev_decode_string_array a = Ok a.
Proof. intros a. unfold src_ev_decode_string_array, ev_empty_like, ev_char_codec. destruct (ev_arr_empty a); reflexivity. Qed.

(* ---------- ModelEvaluation.save_h5 ---------- *)
(* the raw file the translated save_h5 writes, dataset by dataset in creation order *)
Definition evraw_of_file (ncols : nat) (f : eval_file) : evraw :=
  let '(preds, obs, chains, names) := f in
  [ (EK_predictions, EV_F2 (ncols, preds)); (EK_observations, EV_F1 obs); (EK_chain_ids, EV_I1 chains);
    (EK_sample_names, EV_S1 names) ].

Lemma close_evraw_of_file ncols f : evraw_close (evraw_of_file ncols f) = Ok (ncols, f).
Proof. destruct f as [[[preds obs] chains] names]. unfold evraw_close, evraw_of_file. evraw_eval. reflexivity. Qed.

Theorem src_ev_save_h5_writes : forall (ncols : nat) (e : evaluation),
  src_ev_save_h5 ncols e = Ok (evraw_of_file ncols (ev_save e)).
Proof.
  intros ncols e. unfold src_ev_save_h5, src_ev_predictions, src_ev_observations, src_ev_chain_ids, src_ev_sample_names.
  cbn [res_bind]. rewrite src_ev_encode_string_array_is_identity. evraw_eval. reflexivity.
Qed.

(* independent of the order of the create_dataset calls: what has been written, read back by name, is the model's file *)
Theorem src_ev_save_h5_is_model : forall (ncols : nat) (e : evaluation),
  (dor w <- src_ev_save_h5 ncols e; evraw_close w) = Ok (ncols, ev_save e).
Proof. intros ncols e. rewrite src_ev_save_h5_writes. cbn [res_bind]. apply close_evraw_of_file. Qed.

(* ---------- ModelEvaluation.load_h5 ---------- *)
(* the constructor with a shape[1] that is not the number of chain ids refuses (every check raises ValueError) *)
Lemma mk_eval_wrong_ncols ncols P o ch nm : length ch <> ncols -> mk_eval ncols P o ch nm = Err E_VALUE.
Proof.
  intros H. unfold mk_eval.
  destruct (Nat.eqb (length P) (length o)); cbn [negb]; [|reflexivity].
  destruct (Nat.eqb (length nm) (length o)); cbn [negb]; [|reflexivity].
  destruct (forallb _ P); cbn [negb]; [|reflexivity].
  destruct (Nat.eqb_spec (length ch) ncols) as [E|_]; [contradiction | reflexivity].
Qed.

(* peel one read off the hypothesis [evraw_close w = Ok _] *)
Ltac close_step H x E :=
  match type of H with
  | (dor _ <- ?r; _) = Ok _ => destruct r as [x|] eqn:E; cbn [res_bind] in H; [|discriminate H]
  end.

Theorem src_ev_load_h5_is_model : forall (w : evraw) (ncols : nat) (f : eval_file),
  evraw_close w = Ok (ncols, f) ->
  src_ev_load_h5 w = if Nat.eqb (length (snd (fst f))) ncols then ev_load f else Err E_VALUE.
Proof.
  intros w ncols f H. unfold evraw_close in H.
  close_step H p Ep. close_step H o Eo. close_step H c Ec. close_step H s Es.
  injection H as <- <-.
  unfold src_ev_load_h5. cbv zeta. rewrite Ep, Eo, Ec, Es. cbn [res_bind].
  rewrite src_ev_decode_string_array_is_identity. cbn [res_bind].
  rewrite evm_bind_ok_r, src_ev_init_is_model. cbn [fst snd ev_load].
  destruct (Nat.eqb_spec (length c) (fst p)) as [E|N].
  - now rewrite E.
  - now apply mk_eval_wrong_ncols.
Qed.

Corollary src_ev_load_h5_of_file : forall (f : eval_file),
  src_ev_load_h5 (evraw_of_file (length (snd (fst f))) f) = ev_load f.
Proof.
  intros f. rewrite (src_ev_load_h5_is_model _ _ _ (close_evraw_of_file _ f)). now rewrite Nat.eqb_refl.
Qed.

(* ---------- the round trip through the two translated methods ---------- *)
(* for every evaluation the constructor builds (m = predictions.shape[1]): load_h5 after save_h5 is the model's
   ev_load (ev_save e) - and hence returns e (C20_eval_save_load about the translated source) *)
Theorem src_ev_save_load_is_model : forall m P o ch nm e,
  mk_eval m P o ch nm = Ok e ->
  (dor w <- src_ev_save_h5 m e; src_ev_load_h5 w) = ev_load (ev_save e).
Proof.
  intros m P o ch nm e Built. rewrite src_ev_save_h5_writes. cbn [res_bind].
  apply mk_eval_ok in Built as (-> & _ & _ & _ & Hch).
  rewrite <- Hch. apply (src_ev_load_h5_of_file (P, o, ch, nm)).
Qed.

Theorem src_ev_round_trip : forall m P o ch nm e,
  mk_eval m P o ch nm = Ok e ->
  (dor w <- src_ev_save_h5 m e; src_ev_load_h5 w) = Ok e.
Proof.
  intros m P o ch nm e Built. rewrite (src_ev_save_load_is_model _ _ _ _ _ _ Built). eapply eval_save_load; eassumption.
Qed.

(* a file whose stored shape[1] differs from the number of stored chain ids is refused, as the constructor does *)
Corollary src_ev_load_h5_shape_mismatch : forall (ncols : nat) (f : eval_file),
  length (snd (fst f)) <> ncols -> src_ev_load_h5 (evraw_of_file ncols f) = Err E_VALUE.
Proof.
  intros ncols f N. rewrite (src_ev_load_h5_is_model _ _ _ (close_evraw_of_file _ f)).
  destruct (Nat.eqb_spec (length (snd (fst f))) ncols); [contradiction | reflexivity].
Qed.
