(* C09: the hand-written prediction model of Model/Predict.v equals the translations of
     batchie.common.copy_array_with_control_treatments_set_to_zero
     batchie.models.sparse_combo.predict / predict_single_drug
     ScreenBase.size / treatment_arity
   regenerated from /repo on every run (Generated/SrcPredict.v, by harness/py2gal.py with the configurations C09_* of
   harness/src_functions.py), for all inputs.  The screens of the model stand for the ScreenBase objects [pydata_of]
   gives (sample_ids of shape (n,), treatment_ids of shape (n, arity)). *)
From Coq Require Import ZArith List QArith Qcanon Lia ZifyBool Arith Bool.
From Batchie Require Import Lib.Sexp Lib.PyRt Lib.Num Generated.Consts Model.Predict Generated.SrcPredict
  Proofs.PyRtLemmas Proofs.C09Lists Proofs.C09Predict.
Import ListNotations.
Open Scope Qc_scope.

(* ---------------------------------------------------------------- the numpy primitives on the model's terms *)

Lemma py_index_nth_error {A} (arr : list A) (d : A) i k :
  py_index (length arr) i = Some k -> nth_error arr k = Some (nth k arr d).
Proof. intros H. apply nth_error_nth'. eapply py_index_lt; eassumption. Qed.

(* fancy indexing: IndexError iff some index is invalid, else the model's gather (for any default) *)
Lemma np_take_spec {A} (d : A) arr ids :
  np_take arr ids = if forallb (py_valid (length arr)) ids then Ok (gather d arr ids) else Err ERR_INDEX.
Proof.
  unfold np_take, gather. induction ids as [|i ids IH]; [reflexivity|].
  cbn [res_map_all forallb map]. unfold py_valid at 1, py_get at 1.
  destruct (py_index (length arr) i) as [k|] eqn:Ei; [|reflexivity].
  rewrite (py_index_nth_error arr d i k Ei). cbn [res_bind andb]. rewrite IH.
  destruct (forallb _ ids); reflexivity.
Qed.

Lemma map2_map_l {A B C X} (f : A -> B -> C) (g : X -> A) l : forall r,
  map2 f (map g l) r = map2 (fun x b => f (g x) b) l r.
Proof.
  induction l as [|x l IH]; intros [|b r]; try reflexivity.
  cbn [map]. rewrite !map2_cons, IH. reflexivity.
Qed.

Lemma gather_length {A} (d : A) arr ids : length (gather d arr ids) = length ids.
Proof. unfold gather. apply map_length. Qed.

(* the constant re-read from common.py is the model's sentinel *)
Lemma control_sentinel : CONTROL_SENTINEL_VALUE = CONTROL.
Proof. reflexivity. Qed.

(* ---------------------------------------------------------------- copy_array_with_control_treatments_set_to_zero *)

Theorem src_copy_zero_is_model {A} (z : A -> A) (d : A) arr ids :
  src_copy_zero A z arr ids
  = if forallb (py_valid (length arr)) ids then Ok (zero_where z ids (gather d arr ids)) else Err ERR_INDEX.
Proof.
  unfold src_copy_zero. rewrite (np_take_spec d). destruct (forallb _ ids); [|reflexivity].
  cbn [res_bind]. unfold np_mask_zero, np_eq_scalar. rewrite map_length, gather_length, Nat.eqb_refl.
  cbn [res_bind]. rewrite map2_map_l, control_sentinel. reflexivity.
Qed.

Corollary src_copy_zero_rows (V : list (list Qc)) ids :
  src_copy_zero vec zrow V ids
  = if forallb (py_valid (@length (list Qc) V)) ids then Ok (gather_zero2 V ids) else Err ERR_INDEX.
Proof. apply (src_copy_zero_is_model zrow []). Qed.

Corollary src_copy_zero_numbers (V : list Qc) ids :
  src_copy_zero qnum zscal V ids
  = if forallb (py_valid (@length Qc V)) ids then Ok (gather_zero1 V ids) else Err ERR_INDEX.
Proof. apply (src_copy_zero_is_model zscal 0). Qed.

Lemma src_copy_zero_shapes (V2 : list (list Qc)) (V0 : list Qc) ids :
  src_copy_zero vec zrow V2 ids = (if forallb (py_valid (length V2)) ids then Ok (gather_zero2 V2 ids) else Err ERR_INDEX) /\
  src_copy_zero qnum zscal V0 ids = (if forallb (py_valid (length V0)) ids then Ok (gather_zero1 V0 ids) else Err ERR_INDEX).
Proof. split; [apply src_copy_zero_rows | apply src_copy_zero_numbers]. Qed.

(* ---------------------------------------------------------------- ScreenBase.size / treatment_arity *)

Theorem src_data_size_is_model scr : src_data_size (pydata_of scr) = Ok (Z.of_nat (scr_size scr)).
Proof.
  unfold src_data_size, im_shape0. destruct scr as [rows|rows|a n]; cbn [pydata_of pd_treatment_ids tids1 tids2 im_rows scr_size];
    now rewrite ?map_length, ?repeat_length.
Qed.

Definition scr_arity (s : screen) : nat := match s with Scr1 _ => 1 | Scr2 _ => 2 | ScrN a _ => a end.

Theorem src_data_arity_is_model scr : src_data_treatment_arity (pydata_of scr) = Ok (Z.of_nat (scr_arity scr)).
Proof. destruct scr; reflexivity. Qed.

Lemma src_size_arity_is_model scr :
  src_data_size (pydata_of scr) = Ok (Z.of_nat (scr_size scr)) /\
  src_data_treatment_arity (pydata_of scr) = Ok (Z.of_nat (scr_arity scr)).
Proof. split; [apply src_data_size_is_model | apply src_data_arity_is_model]. Qed.

(* ---------------------------------------------------------------- predict / predict_single_drug *)

Lemma forallb_map {A B} (p : B -> bool) (f : A -> B) l : forallb p (map f l) = forallb (fun x => p (f x)) l.
Proof. induction l as [|a l IH]; cbn [map forallb]; [reflexivity | now rewrite IH]. Qed.

Lemma forallb_andb {A} (p q : A -> bool) l : forallb (fun x => p x && q x) l = forallb p l && forallb q l.
Proof.
  induction l as [|a l IH]; cbn [forallb]; [reflexivity|]. rewrite IH.
  destruct (p a), (q a), (forallb p l), (forallb q l); reflexivity.
Qed.

Lemma forallb_ext' {A} (p q : A -> bool) l : (forall x, p x = q x) -> forallb p l = forallb q l.
Proof. intros H. induction l as [|a l IH]; cbn [forallb]; [reflexivity | now rewrite H, IH]. Qed.

Lemma np_col_tids2_0 rows : np_col (tids2 rows) 0 = Ok (col_t0 rows).
Proof. unfold np_col, tids2, col_t0. cbn [im_arity im_rows py_index Z.leb Z.ltb Z.compare Z.of_nat Pos.of_succ_nat Pos.succ Pos.compare Pos.compare_cont Z.to_nat]. now rewrite map_map. Qed.
Lemma np_col_tids2_1 rows : np_col (tids2 rows) 1 = Ok (col_t1 rows).
Proof. unfold np_col, tids2, col_t1. cbn [im_arity im_rows py_index Z.leb Z.ltb Z.compare Z.of_nat Pos.of_succ_nat Pos.succ Pos.compare Pos.compare_cont Z.to_nat Pos.to_nat Pos.iter_op Nat.add]. now rewrite map_map. Qed.
Lemma np_col_tids1_0 rows : np_col (tids1 rows) 0 = Ok (map snd rows).
Proof. unfold np_col, tids1. cbn [im_arity im_rows py_index Z.leb Z.ltb Z.compare Z.of_nat Pos.of_succ_nat Pos.succ Pos.compare Pos.compare_cont Z.to_nat]. now rewrite map_map. Qed.

(* validity of a whole screen, column by column, in the order the code gathers *)
Lemma sp_valid_rows2 t rows :
  forallb (sp_valid_row2 t) rows
  = forallb (py_valid (length (sW t))) (col_s rows)
    && forallb (py_valid (length (sV2 t))) (col_t0 rows) && forallb (py_valid (length (sV2 t))) (col_t1 rows)
    && forallb (py_valid (length (sV1 t))) (col_t0 rows) && forallb (py_valid (length (sV1 t))) (col_t1 rows)
    && forallb (py_valid (length (sW0 t))) (col_s rows)
    && forallb (py_valid (length (sV0 t))) (col_t0 rows) && forallb (py_valid (length (sV0 t))) (col_t1 rows).
Proof.
  unfold col_s, col_t0, col_t1. rewrite !forallb_map, <- !forallb_andb. apply forallb_ext'.
  intros [[s a] b]. unfold sp_valid_row2, sp_valid_s, sp_valid_t2. cbn [fst snd].
  repeat match goal with |- context [py_valid ?n ?i] => destruct (py_valid n i) end; reflexivity.
Qed.

Lemma sp_valid_rows1 t rows :
  forallb (sp_valid_row1 t) rows
  = forallb (py_valid (length (sW t))) (map fst rows) && forallb (py_valid (length (sV1 t))) (map snd rows)
    && forallb (py_valid (length (sW0 t))) (map fst rows) && forallb (py_valid (length (sV0 t))) (map snd rows).
Proof.
  rewrite !forallb_map, <- !forallb_andb. apply forallb_ext'.
  intros [s a]. unfold sp_valid_row1, sp_valid_s. cbn [fst snd].
  repeat match goal with |- context [py_valid ?n ?i] => destruct (py_valid n i) end; reflexivity.
Qed.

Lemma post_is_source orc (viab : bool) Mu :
  (if viab then Ok (vclip VIAB_LO VIAB_HI (vexpit orc Mu)) else Ok Mu) = (Ok (post orc viab Mu) : result (list Qc)).
Proof. destruct viab; [|reflexivity]. unfold post, vclip, vexpit. now rewrite map_map. Qed.

Ltac split_valid :=
  repeat match goal with
  | |- context [forallb (py_valid ?n) ?l] =>
      let b := fresh "b" in destruct (forallb (py_valid n) l); cbn [res_bind andb]; [|reflexivity]
  end.

Theorem src_predict_is_model orc t rows viab :
  src_predict orc t (pydata_of (Scr2 rows)) viab = sp_predict orc viab t (Scr2 rows).
Proof.
  unfold src_predict, sp_predict. cbn [pydata_of pd_sample_ids pd_treatment_ids].
  rewrite sp_valid_rows2, np_col_tids2_0, np_col_tids2_1. cbn [res_bind].
  rewrite !src_copy_zero_rows, !src_copy_zero_numbers, !(np_take_spec ([] : list Qc)), !(np_take_spec (0 : Qc)).
  split_valid. apply post_is_source.
Qed.

Theorem src_predict_single_drug_is_model orc t rows viab :
  src_predict_single_drug orc t (pydata_of (Scr1 rows)) viab = sp_predict orc viab t (Scr1 rows).
Proof.
  unfold src_predict_single_drug, sp_predict. cbn [pydata_of pd_sample_ids pd_treatment_ids].
  rewrite sp_valid_rows1, np_col_tids1_0. cbn [res_bind].
  rewrite !src_copy_zero_rows, !src_copy_zero_numbers, !(np_take_spec ([] : list Qc)), !(np_take_spec (0 : Qc)).
  split_valid. apply post_is_source.
Qed.

(* ---------------------------------------------------------------- the methods of SparseDrugComboMCMCSample *)

Lemma res_bind_ok_r {A} (x : result A) : (dor r <- x; Ok r) = x.
Proof. destruct x; reflexivity. Qed.

Lemma scr_okb_arity a n : scr_okb (ScrN a n) = true -> (Z.of_nat a =? 1)%Z = false /\ (Z.of_nat a =? 2)%Z = false.
Proof.
  unfold scr_okb. intros H. apply andb_prop in H. destruct H as [H1 H2].
  apply negb_true_iff in H1, H2. apply Nat.eqb_neq in H1, H2. split; apply Z.eqb_neq; lia.
Qed.

(* the arity dispatch both mean methods share, for either value of the viability flag *)
Lemma sp_dispatch_is_model orc t scr (viab : bool) : scr_okb scr = true ->
  (dor r1 <- src_data_treatment_arity (pydata_of scr);
   if (r1 =? 1)%Z then dor r2 <- src_predict_single_drug orc t (pydata_of scr) viab; Ok r2
   else dor r3 <- src_data_treatment_arity (pydata_of scr);
        if (r3 =? 2)%Z then dor r4 <- src_predict orc t (pydata_of scr) viab; Ok r4 else Err 2%Z)
  = sp_predict orc viab t scr.
Proof.
  intros Hok. rewrite src_data_arity_is_model. cbn [res_bind].
  destruct scr as [rows|rows|a n]; cbn [scr_arity].
  - change (Z.of_nat 1 =? 1)%Z with true. cbn iota. now rewrite res_bind_ok_r, src_predict_single_drug_is_model.
  - change (Z.of_nat 2 =? 1)%Z with false. change (Z.of_nat 2 =? 2)%Z with true. cbn iota.
    now rewrite res_bind_ok_r, src_predict_is_model.
  - destruct (scr_okb_arity a n Hok) as [H1 H2]. rewrite H1, H2. reflexivity.
Qed.

Theorem src_sp_predict_viability_is_model orc t scr : scr_okb scr = true ->
  src_sp_predict_viability orc t (pydata_of scr) = theta_predict orc KViab (TS t) scr.
Proof. apply sp_dispatch_is_model. Qed.

Theorem src_sp_predict_conditional_mean_is_model orc t scr : scr_okb scr = true ->
  src_sp_predict_conditional_mean orc t (pydata_of scr) = theta_predict orc KMean (TS t) scr.
Proof. apply sp_dispatch_is_model. Qed.

Theorem src_sp_predict_conditional_variance_is_model orc t scr :
  src_sp_predict_conditional_variance t (pydata_of scr) = theta_predict orc KVar (TS t) scr.
Proof.
  unfold src_sp_predict_conditional_variance, py_recip. cbn [theta_predict]. unfold variance. cbn [theta_prec].
  destruct (qeqb (sprec t) 0); [reflexivity|]. cbn [res_bind]. rewrite src_data_size_is_model. cbn [res_bind].
  unfold np_repeat. now rewrite Nat2Z.id.
Qed.
