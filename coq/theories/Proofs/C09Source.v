(* C09: the hand-written prediction model of Model/Predict.v equals the translations of
     batchie.common.copy_array_with_control_treatments_set_to_zero
     batchie.models.sparse_combo.predict / predict_single_drug
     ScreenBase.size / treatment_arity
   regenerated from /repo on every run (Generated/SrcPredict.v, by harness/py2gal.py with the configurations C09_* of
   harness/src_functions.py), for all inputs.  The screens of the model stand for the ScreenBase objects [pydata_of]
   gives (sample_ids of shape (n,), treatment_ids of shape (n, arity)). *)
From Coq Require Import ZArith List QArith Qcanon Lia ZifyBool Arith Bool.
From Batchie Require Import Lib.Sexp Lib.PyRt Lib.Num Generated.Consts Model.Predict Generated.SrcPredict
  Proofs.PyRtLemmas Proofs.C09Lists Proofs.C09Predict.
Import ListNotations.
Open Scope Qc_scope.

(* ---------------------------------------------------------------- the numpy primitives on the model's terms *)

Lemma py_index_nth_error {A} (arr : list A) (d : A) i k :
  py_index (length arr) i = Some k -> nth_error arr k = Some (nth k arr d).
Proof. intros H. apply nth_error_nth'. eapply py_index_lt; eassumption. Qed.

(* fancy indexing: IndexError iff some index is invalid, else the model's gather (for any default) *)
Lemma np_take_spec {A} (d : A) arr ids :
  np_take arr ids = if forallb (py_valid (length arr)) ids then Ok (gather d arr ids) else Err ERR_INDEX.
Proof.
  unfold np_take, gather. induction ids as [|i ids IH]; [reflexivity|].
  cbn [res_map_all forallb map]. unfold py_valid at 1, py_get at 1.
  destruct (py_index (length arr) i) as [k|] eqn:Ei; [|reflexivity].
  rewrite (py_index_nth_error arr d i k Ei). cbn [res_bind andb]. rewrite IH.
  destruct (forallb _ ids); reflexivity.
Qed.

Lemma map2_map_l {A B C X} (f : A -> B -> C) (g : X -> A) l : forall r,
  map2 f (map g l) r = map2 (fun x b => f (g x) b) l r.
Proof.
  induction l as [|x l IH]; intros [|b r]; try reflexivity.
  cbn [map]. rewrite !map2_cons, IH. reflexivity.
Qed.

Lemma gather_length {A} (d : A) arr ids : length (gather d arr ids) = length ids.
Proof. unfold gather. apply map_length. Qed.

(* the constant re-read from common.py is the model's sentinel *)
Lemma control_sentinel : CONTROL_SENTINEL_VALUE = CONTROL.
Proof. reflexivity. Qed.

(* ---------------------------------------------------------------- copy_array_with_control_treatments_set_to_zero *)

Theorem src_copy_zero_is_model {A} (z : A -> A) (d : A) arr ids :
  src_copy_zero A z arr ids
  = if forallb (py_valid (length arr)) ids then Ok (zero_where z ids (gather d arr ids)) else Err ERR_INDEX.
Proof.
  unfold src_copy_zero. rewrite (np_take_spec d). destruct (forallb _ ids); [|reflexivity].
  cbn [res_bind]. unfold np_mask_zero, np_eq_scalar. rewrite map_length, gather_length, Nat.eqb_refl.
  cbn [res_bind]. rewrite map2_map_l, control_sentinel. reflexivity.
Qed.

Corollary src_copy_zero_rows (V : list (list Qc)) ids :
  src_copy_zero vec zrow V ids
  = if forallb (py_valid (@length (list Qc) V)) ids then Ok (gather_zero2 V ids) else Err ERR_INDEX.
Proof. apply (src_copy_zero_is_model zrow []). Qed.

Corollary src_copy_zero_numbers (V : list Qc) ids :
  src_copy_zero qnum zscal V ids
  = if forallb (py_valid (@length Qc V)) ids then Ok (gather_zero1 V ids) else Err ERR_INDEX.
Proof. apply (src_copy_zero_is_model zscal 0). Qed.

Lemma src_copy_zero_shapes (V2 : list (list Qc)) (V0 : list Qc) ids :
  src_copy_zero vec zrow V2 ids = (if forallb (py_valid (length V2)) ids then Ok (gather_zero2 V2 ids) else Err ERR_INDEX) /\
  src_copy_zero qnum zscal V0 ids = (if forallb (py_valid (length V0)) ids then Ok (gather_zero1 V0 ids) else Err ERR_INDEX).
Proof. split; [apply src_copy_zero_rows | apply src_copy_zero_numbers]. Qed.

(* ---------------------------------------------------------------- ScreenBase.size / treatment_arity *)

Theorem src_data_size_is_model scr : src_data_size (pydata_of scr) = Ok (Z.of_nat (scr_size scr)).
Proof.
  unfold src_data_size, im_shape0. destruct scr as [rows|rows|a n]; cbn [pydata_of pd_treatment_ids tids1 tids2 im_rows scr_size];
    now rewrite ?map_length, ?repeat_length.
Qed.

Definition scr_arity (s : screen) : nat := match s with Scr1 _ => 1 | Scr2 _ => 2 | ScrN a _ => a end.

Theorem src_data_arity_is_model scr : src_data_treatment_arity (pydata_of scr) = Ok (Z.of_nat (scr_arity scr)).
Proof. destruct scr; reflexivity. Qed.

Lemma src_size_arity_is_model scr :
  src_data_size (pydata_of scr) = Ok (Z.of_nat (scr_size scr)) /\
  src_data_treatment_arity (pydata_of scr) = Ok (Z.of_nat (scr_arity scr)).
Proof. split; [apply src_data_size_is_model | apply src_data_arity_is_model]. Qed.

(* ---------------------------------------------------------------- predict / predict_single_drug *)

Lemma forallb_map {A B} (p : B -> bool) (f : A -> B) l : forallb p (map f l) = forallb (fun x => p (f x)) l.
Proof. induction l as [|a l IH]; cbn [map forallb]; [reflexivity | now rewrite IH]. Qed.

Lemma forallb_andb {A} (p q : A -> bool) l : forallb (fun x => p x && q x) l = forallb p l && forallb q l.
Proof.
  induction l as [|a l IH]; cbn [forallb]; [reflexivity|]. rewrite IH.
  destruct (p a), (q a), (forallb p l), (forallb q l); reflexivity.
Qed.

Lemma forallb_ext' {A} (p q : A -> bool) l : (forall x, p x = q x) -> forallb p l = forallb q l.
Proof. intros H. induction l as [|a l IH]; cbn [forallb]; [reflexivity | now rewrite H, IH]. Qed.

Lemma np_col_tids2_0 rows : np_col (tids2 rows) 0 = Ok (col_t0 rows).
Proof. unfold np_col, tids2, col_t0. cbn [im_arity im_rows py_index Z.leb Z.ltb Z.compare Z.of_nat Pos.of_succ_nat Pos.succ Pos.compare Pos.compare_cont Z.to_nat]. now rewrite map_map. Qed.
Lemma np_col_tids2_1 rows : np_col (tids2 rows) 1 = Ok (col_t1 rows).
Proof. unfold np_col, tids2, col_t1. cbn [im_arity im_rows py_index Z.leb Z.ltb Z.compare Z.of_nat Pos.of_succ_nat Pos.succ Pos.compare Pos.compare_cont Z.to_nat Pos.to_nat Pos.iter_op Nat.add]. now rewrite map_map. Qed.
Lemma np_col_tids1_0 rows : np_col (tids1 rows) 0 = Ok (map snd rows).
Proof. unfold np_col, tids1. cbn [im_arity im_rows py_index Z.leb Z.ltb Z.compare Z.of_nat Pos.of_succ_nat Pos.succ Pos.compare Pos.compare_cont Z.to_nat]. now rewrite map_map. Qed.

(* validity of a whole screen, column by column, in the order the code gathers *)
Lemma sp_valid_rows2 t rows :
  forallb (sp_valid_row2 t) rows
  = forallb (py_valid (length (sW t))) (col_s rows)
    && forallb (py_valid (length (sV2 t))) (col_t0 rows) && forallb (py_valid (length (sV2 t))) (col_t1 rows)
    && forallb (py_valid (length (sV1 t))) (col_t0 rows) && forallb (py_valid (length (sV1 t))) (col_t1 rows)
    && forallb (py_valid (length (sW0 t))) (col_s rows)
    && forallb (py_valid (length (sV0 t))) (col_t0 rows) && forallb (py_valid (length (sV0 t))) (col_t1 rows).
Proof.
  unfold col_s, col_t0, col_t1. rewrite !forallb_map, <- !forallb_andb. apply forallb_ext'.
  intros [[s a] b]. unfold sp_valid_row2, sp_valid_s, sp_valid_t2. cbn [fst snd].
  repeat match goal with |- context [py_valid ?n ?i] => destruct (py_valid n i) end; reflexivity.
Qed.

Lemma sp_valid_rows1 t rows :
  forallb (sp_valid_row1 t) rows
  = forallb (py_valid (length (sW t))) (map fst rows) && forallb (py_valid (length (sV1 t))) (map snd rows)
    && forallb (py_valid (length (sW0 t))) (map fst rows) && forallb (py_valid (length (sV0 t))) (map snd rows).
Proof.
  rewrite !forallb_map, <- !forallb_andb. apply forallb_ext'.
  intros [s a]. unfold sp_valid_row1, sp_valid_s. cbn [fst snd].
  repeat match goal with |- context [py_valid ?n ?i] => destruct (py_valid n i) end; reflexivity.
Qed.

Lemma post_is_source orc (viab : bool) Mu :
  (if viab then Ok (vclip VIAB_LO VIAB_HI (vexpit orc Mu)) else Ok Mu) = (Ok (post orc viab Mu) : result (list Qc)).
Proof. destruct viab; [|reflexivity]. unfold post, vclip, vexpit. now rewrite map_map. Qed.

Ltac split_valid :=
  repeat match goal with
  | |- context [forallb (py_valid ?n) ?l] =>
      let b := fresh "b" in destruct (forallb (py_valid n) l); cbn [res_bind andb]; [|reflexivity]
  end.

Theorem src_predict_is_model orc t rows viab :
  src_predict orc t (pydata_of (Scr2 rows)) viab = sp_predict orc viab t (Scr2 rows).
Proof.
  unfold src_predict, sp_predict. cbn [pydata_of pd_sample_ids pd_treatment_ids].
  rewrite sp_valid_rows2, np_col_tids2_0, np_col_tids2_1. cbn [res_bind].
  rewrite !src_copy_zero_rows, !src_copy_zero_numbers, !(np_take_spec ([] : list Qc)), !(np_take_spec (0 : Qc)).
  split_valid. apply post_is_source.
Qed.

Theorem src_predict_single_drug_is_model orc t rows viab :
  src_predict_single_drug orc t (pydata_of (Scr1 rows)) viab = sp_predict orc viab t (Scr1 rows).
Proof.
  unfold src_predict_single_drug, sp_predict. cbn [pydata_of pd_sample_ids pd_treatment_ids].
  rewrite sp_valid_rows1, np_col_tids1_0. cbn [res_bind].
  rewrite !src_copy_zero_rows, !src_copy_zero_numbers, !(np_take_spec ([] : list Qc)), !(np_take_spec (0 : Qc)).
  split_valid. apply post_is_source.
Qed.

(* ---------------------------------------------------------------- the methods of SparseDrugComboMCMCSample *)

Lemma res_bind_ok_r {A} (x : result A) : (dor r <- x; Ok r) = x.
Proof. destruct x; reflexivity. Qed.

Lemma scr_okb_arity a n : scr_okb (ScrN a n) = true -> (Z.of_nat a =? 1)%Z = false /\ (Z.of_nat a =? 2)%Z = false.
Proof.
  unfold scr_okb. intros H. apply andb_prop in H. destruct H as [H1 H2].
  apply negb_true_iff in H1, H2. apply Nat.eqb_neq in H1, H2. split; apply Z.eqb_neq; lia.
Qed.

(* the arity dispatch both mean methods share, for either value of the viability flag *)
Lemma sp_dispatch_is_model orc t scr (viab : bool) : scr_okb scr = true ->
  (dor r1 <- src_data_treatment_arity (pydata_of scr);
   if (r1 =? 1)%Z then dor r2 <- src_predict_single_drug orc t (pydata_of scr) viab; Ok r2
   else dor r3 <- src_data_treatment_arity (pydata_of scr);
        if (r3 =? 2)%Z then dor r4 <- src_predict orc t (pydata_of scr) viab; Ok r4 else Err 2%Z)
  = sp_predict orc viab t scr.
Proof.
  intros Hok. rewrite src_data_arity_is_model. cbn [res_bind].
  destruct scr as [rows|rows|a n]; cbn [scr_arity].
  - change (Z.of_nat 1 =? 1)%Z with true. cbn iota. now rewrite res_bind_ok_r, src_predict_single_drug_is_model.
  - change (Z.of_nat 2 =? 1)%Z with false. change (Z.of_nat 2 =? 2)%Z with true. cbn iota.
    now rewrite res_bind_ok_r, src_predict_is_model.
  - destruct (scr_okb_arity a n Hok) as [H1 H2]. rewrite H1, H2. reflexivity.
Qed.

Theorem src_sp_predict_viability_is_model orc t scr : scr_okb scr = true ->
  src_sp_predict_viability orc t (pydata_of scr) = theta_predict orc KViab (TS t) scr.
Proof. apply sp_dispatch_is_model. Qed.

Theorem src_sp_predict_conditional_mean_is_model orc t scr : scr_okb scr = true ->
  src_sp_predict_conditional_mean orc t (pydata_of scr) = theta_predict orc KMean (TS t) scr.
Proof. apply sp_dispatch_is_model. Qed.

Theorem src_sp_predict_conditional_variance_is_model orc t scr :
  src_sp_predict_conditional_variance t (pydata_of scr) = theta_predict orc KVar (TS t) scr.
Proof.
  unfold src_sp_predict_conditional_variance, py_recip. cbn [theta_predict]. unfold variance. cbn [theta_prec].
  destruct (qeqb (sprec t) 0); [reflexivity|]. cbn [res_bind]. rewrite src_data_size_is_model. cbn [res_bind].
  unfold np_repeat. now rewrite Nat2Z.id.
Qed.

(* ---------------------------------------------------------------- models/main.py: predict_*_all, predict_*_avg *)

Lemma zrange_of_nat n : zrange (Z.of_nat n) = map Z.of_nat (seq 0 n).
Proof. unfold zrange. now rewrite Nat2Z.id. Qed.

Lemma holder_get_nat h i : holder_get h (Z.of_nat i) = get_theta h i.
Proof.
  unfold holder_get, get_theta. rewrite Nat2Z.id.
  destruct (Z.of_nat i >? Z.of_nat (length (h_thetas h)) - 1)%Z eqn:E; cbn [orb].
  - assert (H : (length (h_thetas h) <= i)%nat) by lia. apply nth_error_None in H. now rewrite H.
  - replace (Z.of_nat i <? 0)%Z with false by lia. reflexivity.
Qed.

Lemma py_index_nat n i : (i < n)%nat -> py_index n (Z.of_nat i) = Some i.
Proof.
  intros H. unfold py_index. replace (0 <=? Z.of_nat i)%Z with true by lia.
  replace (Z.of_nat i <? Z.of_nat n)%Z with true by lia. now rewrite Nat2Z.id.
Qed.

Lemma res_bind_assoc {A B C} (x : result A) (f : A -> result B) (g : B -> result C) :
  (dor b <- (dor a <- x; f a); g b) = (dor a <- x; dor b <- f a; g b).
Proof. destruct x; reflexivity. Qed.

Lemma np_set_row_app (done : list (list Qc)) z rest v : length v = length z ->
  np_set_row (done ++ z :: rest) (Z.of_nat (length done)) v = Ok (done ++ v :: rest).
Proof.
  intros Hv. unfold np_set_row. rewrite py_index_nat by (rewrite app_length; cbn [length]; lia).
  rewrite app_nth2 by lia. rewrite Nat.sub_diag. cbn [nth]. rewrite Hv, Nat.eqb_refl.
  rewrite firstn_app, firstn_all, Nat.sub_diag. cbn [firstn]. rewrite app_nil_r.
  rewrite skipn_app, skipn_all2 by lia. replace (S (length done) - length done)%nat with 1%nat by lia. reflexivity.
Qed.

Lemma np_row_app (done : list (list Qc)) v rest : np_row (done ++ v :: rest) (Z.of_nat (length done)) = Ok v.
Proof.
  unfold np_row. rewrite py_index_nat by (rewrite app_length; cbn [length]; lia).
  rewrite app_nth2 by lia. now rewrite Nat.sub_diag.
Qed.

Section Main.
Variable orc : oracle.
Variable pm : kind -> theta -> pydata -> result vec.
Variable scr : screen.
Variable h : holder.
Variable k : kind.
(* the Theta method in use agrees with the model on this screen for the stored samples (the translated methods do:
   py_theta_predict below) *)
Hypothesis Hpm : forall t, In t (h_thetas h) -> pm k t (pydata_of scr) = theta_predict orc k t scr.

Let sz := scr_size scr.
Let f := predict_one orc k h scr.

Lemma f_length i v : f i = Ok v -> length v = sz.
Proof.
  unfold f, predict_one, res_bind. destruct (get_theta h i); [|discriminate]. apply theta_predict_length.
Qed.

(* holder_get, then the method: one sample's prediction as the model's predict_one *)
Lemma get_then_predict {B} i (g : vec -> result B) :
  (dor t <- holder_get h (Z.of_nat i); dor v <- pm k t (pydata_of scr); g v) = (dor v <- f i; g v).
Proof.
  rewrite holder_get_nat. unfold f, predict_one. rewrite res_bind_assoc.
  destruct (get_theta h i) as [t|] eqn:Et; cbn [res_bind]; [|reflexivity].
  rewrite Hpm; [reflexivity|]. unfold get_theta in Et.
  destruct (nth_error (h_thetas h) i) as [t'|] eqn:En; [|discriminate]. inversion Et; subst. eapply nth_error_In; eassumption.
Qed.

(* --- the row-store loop of predict_viability_all / predict_mean_all *)
Lemma set_rows_fold (body : mat -> Z -> result mat) :
  (forall res i, body res (Z.of_nat i)
                 = dor v <- f i; dor res' <- np_set_row res (Z.of_nat i) v; dor r <- np_row res' (Z.of_nat i);
                   if vec_has_nan r then Err 7%Z else Ok res') ->
  forall m done,
    res_fold body (map Z.of_nat (seq (length done) m)) (done ++ repeat (repeat 0 sz) m)
    = dor rs <- res_map_all f (seq (length done) m); Ok (done ++ rs).
Proof.
  intros Hbody. induction m as [|m IH]; intros done; cbn [seq map res_fold res_map_all repeat].
  - cbn [res_bind]. reflexivity.
  - rewrite Hbody. destruct (f (length done)) as [v|e] eqn:Ef; cbn [res_bind]; [|reflexivity].
    pose proof (f_length _ v Ef) as Hv.
    rewrite np_set_row_app by now rewrite repeat_length. cbn [res_bind].
    rewrite np_row_app. cbn [res_bind]. unfold vec_has_nan.
    replace (done ++ v :: repeat (repeat 0 sz) m) with ((done ++ [v]) ++ repeat (repeat 0 sz) m) by now rewrite <- app_assoc.
    replace (S (length done)) with (length (done ++ [v])) by (rewrite app_length; cbn [length]; lia).
    cbn [res_bind]. rewrite IH.
    destruct (res_map_all f (seq (length (done ++ [v])) m)); cbn [res_bind]; [now rewrite <- app_assoc | reflexivity].
Qed.

Definition all_rows_src : result mat :=
  dor r1 <- src_data_size (pydata_of scr);
  let result : mat := np_zeros2 (Z.of_nat (h_n h)) r1 in
  dor result <- res_fold (fun (result : mat) it =>
      dor r3 <- holder_get h it;
      dor r4 <- pm k r3 (pydata_of scr);
      dor result <- np_set_row result it r4;
      dor r5 <- np_row result it;
      if vec_has_nan r5 then Err 7%Z else Ok result) (zrange (Z.of_nat (h_n h))) result;
  Ok result.

Lemma all_rows_src_is_model : k <> KVar -> all_rows_src = predict_all orc k h scr.
Proof.
  intros Hk. unfold all_rows_src, predict_all. rewrite src_data_size_is_model. cbn [res_bind].
  unfold np_zeros2. rewrite !Nat2Z.id, zrange_of_nat. fold sz.
  rewrite (set_rows_fold _ (fun res i => get_then_predict i _) (h_n h) []). fold f. cbn [length app].
  rewrite res_bind_assoc. destruct (res_map_all f (seq 0 (h_n h))); cbn [res_bind app]; [|reflexivity].
  destruct k; try reflexivity. congruence.
Qed.

(* --- the append loop of predict_variance_all *)
Lemma append_fold (body : list vec -> Z -> result (list vec)) :
  (forall res i, body res (Z.of_nat i)
                 = dor v <- f i; dor r4 <- src_data_size (pydata_of scr);
                   if negb (vec_size v =? r4)%Z then Err 8%Z
                   else if vec_has_nan v then Err 7%Z else Ok (res ++ [v])) ->
  forall l done, res_fold body (map Z.of_nat l) done = dor rs <- res_map_all f l; Ok (done ++ rs).
Proof.
  intros Hbody. induction l as [|i l IH]; intros done; cbn [map res_fold res_map_all].
  - cbn [res_bind]. now rewrite app_nil_r.
  - rewrite Hbody. destruct (f i) as [v|e] eqn:Ef; cbn [res_bind]; [|reflexivity].
    rewrite src_data_size_is_model. cbn [res_bind]. unfold vec_size. rewrite (f_length i v Ef). fold sz.
    rewrite Z.eqb_refl. cbn [negb]. unfold vec_has_nan. cbn [res_bind]. rewrite IH.
    destruct (res_map_all f l); cbn [res_bind]; [now rewrite <- app_assoc | reflexivity].
Qed.

Definition variance_all_src : result mat :=
  dor results <- res_fold (fun (results : list vec) it =>
      dor r2 <- holder_get h it;
      dor r3 <- pm k r2 (pydata_of scr);
      dor r4 <- src_data_size (pydata_of scr);
      if negb (vec_size r3 =? r4)%Z then Err 8%Z
      else if vec_has_nan r3 then Err 7%Z else Ok (results ++ [r3])) (zrange (Z.of_nat (h_n h))) [];
  dor r5 <- np_stack results; Ok r5.

Lemma variance_all_src_is_model : k = KVar -> variance_all_src = predict_all orc k h scr.
Proof.
  intros Hk. unfold variance_all_src, predict_all. rewrite zrange_of_nat.
  rewrite (append_fold _ (fun res i => get_then_predict i _)). fold f. rewrite res_bind_assoc.
  destruct (res_map_all f (seq 0 (h_n h))) as [rows|e] eqn:E; cbn [res_bind app]; [|reflexivity].
  rewrite Hk. destruct (res_map_all_spec _ 0%nat [] _ _ E) as [Hlen _]. rewrite seq_length in Hlen.
  assert (Hall : Forall (fun v => length v = sz) rows).
  { eapply res_map_all_Forall; [exact E|]. intros i v _. apply f_length. }
  destruct rows as [|r rest]; cbn [length] in Hlen; rewrite <- Hlen; [reflexivity|].
  unfold np_stack. apply Forall_cons_iff in Hall as [Hr Hrest].
  replace (forallb (fun x => Nat.eqb (length x) (length r)) rest) with true; [reflexivity|].
  symmetry. apply forallb_forall. intros x Hx. rewrite Forall_forall in Hrest. rewrite (Hrest x Hx), Hr. apply Nat.eqb_refl.
Qed.

(* --- the accumulation loop of predict_mean_avg / predict_viability_avg *)
Lemma avg_fold (body : vec -> Z -> result vec) :
  (forall acc i, body acc (Z.of_nat i) = dor v <- f i; if vec_has_nan v then Err 7%Z else Ok (vadd acc v)) ->
  forall l acc, res_fold body (map Z.of_nat l) acc = avg_loop f l acc.
Proof.
  intros Hbody. induction l as [|i l IH]; intros acc; cbn [map res_fold avg_loop]; [reflexivity|].
  rewrite Hbody. destruct (f i) as [v|e]; cbn [res_bind]; [|reflexivity]. unfold vec_has_nan. apply IH.
Qed.

Definition avg_src : result vec :=
  dor r1 <- src_data_size (pydata_of scr);
  let result : vec := np_zeros1 r1 in
  dor result <- res_fold (fun (result : vec) it =>
      dor r3 <- holder_get h it;
      dor r4 <- pm k r3 (pydata_of scr);
      if vec_has_nan r4 then Err 7%Z else Ok (vadd result r4)) (zrange (Z.of_nat (h_n h))) result;
  dor r5 <- np_div_int result (Z.of_nat (h_n h)); Ok r5.

Lemma avg_src_is_model : avg_src = predict_avg orc k h scr.
Proof.
  unfold avg_src, predict_avg. rewrite src_data_size_is_model. cbn [res_bind].
  unfold np_zeros1. rewrite Nat2Z.id, zrange_of_nat. fold sz.
  rewrite (avg_fold _ (fun acc i => get_then_predict i _)). fold f.
  destruct (h_n h) as [|n] eqn:En.
  - cbn [seq avg_loop res_bind]. unfold np_div_int. cbn [Z.of_nat Z.eqb]. destruct sz; reflexivity.
  - destruct (avg_loop f (seq 0 (S n)) (repeat 0 sz)) as [acc|e]; cbn [res_bind]; [|reflexivity].
    unfold np_div_int. replace (Z.of_nat (S n) =? 0)%Z with false by lia. reflexivity.
Qed.

End Main.

(* the functions of models/main.py, for ANY implementation pm of the three Theta methods that agrees with the model on the
   stored samples *)
Theorem src_predict_viability_all_is_model orc pm scr h :
  (forall t, In t (h_thetas h) -> pm KViab t (pydata_of scr) = theta_predict orc KViab t scr) ->
  src_predict_viability_all pm (pydata_of scr) h = predict_all orc KViab h scr.
Proof. intros H. rewrite <- (all_rows_src_is_model orc pm scr h KViab H) by discriminate. reflexivity. Qed.

Theorem src_predict_mean_all_is_model orc pm scr h :
  (forall t, In t (h_thetas h) -> pm KMean t (pydata_of scr) = theta_predict orc KMean t scr) ->
  src_predict_mean_all pm (pydata_of scr) h = predict_all orc KMean h scr.
Proof. intros H. rewrite <- (all_rows_src_is_model orc pm scr h KMean H) by discriminate. reflexivity. Qed.

Theorem src_predict_variance_all_is_model orc pm scr h :
  (forall t, In t (h_thetas h) -> pm KVar t (pydata_of scr) = theta_predict orc KVar t scr) ->
  src_predict_variance_all pm (pydata_of scr) h = predict_all orc KVar h scr.
Proof. intros H. rewrite <- (variance_all_src_is_model orc pm scr h KVar H eq_refl). reflexivity. Qed.

Theorem src_predict_mean_avg_is_model orc pm scr h :
  (forall t, In t (h_thetas h) -> pm KMean t (pydata_of scr) = theta_predict orc KMean t scr) ->
  src_predict_mean_avg pm (pydata_of scr) h = predict_avg orc KMean h scr.
Proof. intros H. rewrite <- (avg_src_is_model orc pm scr h KMean H). reflexivity. Qed.

Theorem src_predict_viability_avg_is_model orc pm scr h :
  (forall t, In t (h_thetas h) -> pm KViab t (pydata_of scr) = theta_predict orc KViab t scr) ->
  src_predict_viability_avg pm (pydata_of scr) h = predict_avg orc KViab h scr.
Proof. intros H. rewrite <- (avg_src_is_model orc pm scr h KViab H). reflexivity. Qed.

(* ---------------------------------------------------------------- the methods of SparseDrugComboInteractionMCMCSample *)

Lemma in_valid_rows2 t rows :
  forallb (in_valid_row2 t) rows
  = forallb (py_valid (length (iW t))) (col_s rows)
    && forallb (py_valid (length (iV2 t))) (col_t0 rows) && forallb (py_valid (length (iV2 t))) (col_t1 rows).
Proof.
  unfold col_s, col_t0, col_t1. rewrite !forallb_map, <- !forallb_andb. apply forallb_ext'.
  intros [[s a] b]. reflexivity.
Qed.

Lemma zip3_cols rows : zip3 (col_s rows) (col_t0 rows) (col_t1 rows) = rows.
Proof.
  unfold col_s, col_t0, col_t1. induction rows as [|[[s a] b] rows IH]; cbn [map zip3 fst snd]; [reflexivity | now rewrite IH].
Qed.

Lemma in_mean_src_is_model t rows :
  (dor r2 <- np_take (iW t) (col_s rows);
   dor r4 <- src_copy_zero vec zrow (iV2 t) (col_t0 rows);
   dor r6 <- src_copy_zero vec zrow (iV2 t) (col_t1 rows);
   Ok (sum_last (mmul (mmul r2 r4) r6)))
  = if negb (forallb (in_valid_row2 t) rows) then Err ERR_INDEX else Ok (in_mean2 t rows).
Proof.
  rewrite in_valid_rows2, !src_copy_zero_rows, !(np_take_spec ([] : list Qc)).
  repeat match goal with
  | |- context [forallb (py_valid ?n) ?l] => destruct (forallb (py_valid n) l); cbn [res_bind andb negb]; [|reflexivity]
  end. reflexivity.
Qed.

Theorem src_in_predict_conditional_mean_is_model orc t scr : scr_okb scr = true ->
  src_in_predict_conditional_mean t (pydata_of scr) = theta_predict orc KMean (TI t) scr.
Proof.
  intros Hok. unfold src_in_predict_conditional_mean. rewrite src_data_arity_is_model. cbn [res_bind theta_predict].
  destruct scr as [rows|rows|a n]; cbn [scr_arity in_predict].
  - reflexivity.
  - change (negb (Z.of_nat 2 =? 2)%Z) with false. cbn iota. cbn [pydata_of pd_sample_ids pd_treatment_ids].
    rewrite np_col_tids2_0, np_col_tids2_1. cbn [res_bind]. apply in_mean_src_is_model.
  - destruct (scr_okb_arity a n Hok) as [_ H2]. now rewrite H2.
Qed.

Definition single_of (L : list (Z * Z * Qc)) (r : Z * Z * Z) : Qc :=
  let '(s, a, b) := r in lookup0 L s a * lookup0 L s b.

Lemma lookups_spec t rows :
  res_map_all (fun '(c, d1, d2) =>
      dor r1 <- lookup_key (ilookup t) c d1; dor r2 <- lookup_key (ilookup t) c d2; Ok (qmul r1 r2)) rows
  = if forallb (in_haskey_row2 t) rows then Ok (map (single_of (ilookup t)) rows) else Err ERR_KEY.
Proof.
  induction rows as [|[[s a] b] rows IH]; cbn [res_map_all forallb map]; [reflexivity|].
  rewrite IH.
  change (in_haskey_row2 t (s, a, b))
    with (match lookup (ilookup t) s a, lookup (ilookup t) s b with Some _, Some _ => true | _, _ => false end).
  change (single_of (ilookup t) (s, a, b)) with (lookup0 (ilookup t) s a * lookup0 (ilookup t) s b).
  unfold lookup_key, lookup0.
  destruct (lookup (ilookup t) s a); [|reflexivity]. cbn [res_bind].
  destruct (lookup (ilookup t) s b); [|reflexivity]. cbn [res_bind andb].
  destruct (forallb (in_haskey_row2 t) rows); reflexivity.
Qed.

Lemma map_map2 {A B C D} (g : C -> D) (f : A -> B -> C) a b : map g (map2 f a b) = map2 (fun x y => g (f x y)) a b.
Proof. unfold map2. rewrite map_map. reflexivity. Qed.

Lemma map2_map_r {A B C Y} (f : A -> B -> C) (g : Y -> B) a : forall l,
  map2 f a (map g l) = map2 (fun x y => f x (g y)) a l.
Proof.
  induction a as [|x a IH]; intros [|y l]; try reflexivity.
  cbn [map]. rewrite !map2_cons, IH. reflexivity.
Qed.

Lemma in_viab_src_is_model orc t rows :
  vclip VIAB_LO VIAB_HI (vexp orc (vadd (in_mean2 t rows) (vlog orc (vclip VIAB_LO VIAB_HI (map (single_of (ilookup t)) rows)))))
  = in_viab2 orc t rows.
Proof.
  unfold in_viab2, vclip, vexp, vlog, vadd. rewrite !map_map, !map_map2, map2_map_r, map2_map_r.
  unfold map2. apply map_ext. intros [i [[s a] b]]. reflexivity.
Qed.

Theorem src_in_predict_viability_is_model orc t scr : scr_okb scr = true ->
  src_in_predict_viability orc t (pydata_of scr) = theta_predict orc KViab (TI t) scr.
Proof.
  intros Hok. unfold src_in_predict_viability.
  rewrite (src_in_predict_conditional_mean_is_model orc t scr Hok), src_data_arity_is_model. cbn [res_bind theta_predict].
  destruct scr as [rows|rows|a n]; cbn [scr_arity in_predict].
  - reflexivity.
  - change (negb (Z.of_nat 2 =? 2)%Z) with false. cbn iota. cbn [pydata_of pd_sample_ids pd_treatment_ids].
    destruct (negb (forallb (in_valid_row2 t) rows)); cbn [res_bind]; [reflexivity|].
    rewrite np_col_tids2_0, np_col_tids2_1. cbn [res_bind]. rewrite zip3_cols, lookups_spec.
    destruct (forallb (in_haskey_row2 t) rows); cbn [res_bind]; [|reflexivity].
    now rewrite in_viab_src_is_model.
  - destruct (scr_okb_arity a n Hok) as [_ H2]. now rewrite H2.
Qed.

Theorem src_in_predict_conditional_variance_is_model orc t scr :
  src_in_predict_conditional_variance t (pydata_of scr) = theta_predict orc KVar (TI t) scr.
Proof.
  unfold src_in_predict_conditional_variance, py_recip. cbn [theta_predict]. unfold variance. cbn [theta_prec].
  destruct (qeqb (iprec t) 0); [reflexivity|]. cbn [res_bind]. rewrite src_data_size_is_model. cbn [res_bind].
  unfold np_repeat. now rewrite Nat2Z.id.
Qed.

(* ---------------------------------------------------------------- the Theta interface as the translated methods implement it *)

Definition py_theta_predict (orc : oracle) (k : kind) (t : theta) (d : pydata) : result vec :=
  match t, k with
  | TS p, KViab => src_sp_predict_viability orc p d
  | TS p, KMean => src_sp_predict_conditional_mean orc p d
  | TS p, KVar => src_sp_predict_conditional_variance p d
  | TI p, KViab => src_in_predict_viability orc p d
  | TI p, KMean => src_in_predict_conditional_mean p d
  | TI p, KVar => src_in_predict_conditional_variance p d
  end.

Theorem py_theta_predict_is_model orc k t scr : scr_okb scr = true ->
  py_theta_predict orc k t (pydata_of scr) = theta_predict orc k t scr.
Proof.
  intros Hok. destruct t as [p|p], k; cbn [py_theta_predict].
  - now apply src_sp_predict_conditional_mean_is_model.
  - now apply src_sp_predict_viability_is_model.
  - apply src_sp_predict_conditional_variance_is_model.
  - now apply src_in_predict_conditional_mean_is_model.
  - now apply src_in_predict_viability_is_model.
  - apply src_in_predict_conditional_variance_is_model.
Qed.

(* models/main.py over the translated methods *)
Theorem src_main_is_model orc scr h : scr_okb scr = true ->
  src_predict_viability_all (py_theta_predict orc) (pydata_of scr) h = predict_all orc KViab h scr /\
  src_predict_mean_all (py_theta_predict orc) (pydata_of scr) h = predict_all orc KMean h scr /\
  src_predict_variance_all (py_theta_predict orc) (pydata_of scr) h = predict_all orc KVar h scr /\
  src_predict_mean_avg (py_theta_predict orc) (pydata_of scr) h = predict_avg orc KMean h scr /\
  src_predict_viability_avg (py_theta_predict orc) (pydata_of scr) h = predict_avg orc KViab h scr.
Proof.
  intros Hok. repeat split.
  - apply src_predict_viability_all_is_model. intros t _. now apply py_theta_predict_is_model.
  - apply src_predict_mean_all_is_model. intros t _. now apply py_theta_predict_is_model.
  - apply src_predict_variance_all_is_model. intros t _. now apply py_theta_predict_is_model.
  - apply src_predict_mean_avg_is_model. intros t _. now apply py_theta_predict_is_model.
  - apply src_predict_viability_avg_is_model. intros t _. now apply py_theta_predict_is_model.
Qed.
