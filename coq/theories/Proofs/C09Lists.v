(* C09 proofs, part 1: list / index / rational helper lemmas used by the prediction proofs. *)
From Coq Require Import ZArith List QArith Qcanon Lia ZifyBool Arith Bool.
From Batchie Require Import Lib.Sexp Lib.Num Lib.NumP Model.Predict.
Import ListNotations.
Open Scope Qc_scope.

(* ---------------------------------------------------------------- map2 *)

Lemma map2_cons {A B C} (f : A -> B -> C) a x b y : map2 f (a :: x) (b :: y) = f a b :: map2 f x y.
Proof. reflexivity. Qed.
Lemma map2_nil_l {A B C} (f : A -> B -> C) y : map2 f [] y = [].
Proof. reflexivity. Qed.
Lemma map2_nil_r {A B C} (f : A -> B -> C) x : map2 f x [] = [].
Proof. destruct x; reflexivity. Qed.

Lemma map2_map {A B C X} (f : A -> B -> C) (g : X -> A) (h : X -> B) l :
  map2 f (map g l) (map h l) = map (fun x => f (g x) (h x)) l.
Proof.
  induction l as [|x l IH]; [reflexivity|].
  cbn [map]. rewrite map2_cons, IH. reflexivity.
Qed.

Lemma map2_length {A B C} (f : A -> B -> C) x y : length (map2 f x y) = Nat.min (length x) (length y).
Proof. unfold map2. now rewrite map_length, combine_length. Qed.

Lemma map2_nth {A B C} (f : A -> B -> C) da db dc x : forall y j,
  (j < length x)%nat -> (j < length y)%nat -> nth j (map2 f x y) dc = f (nth j x da) (nth j y db).
Proof.
  induction x as [|a x IH]; intros [|b y] j Hx Hy; cbn [length] in *; try lia.
  rewrite map2_cons. destruct j as [|j]; [reflexivity|]. cbn [nth]. apply IH; lia.
Qed.

Lemma vadd_cons a x b y : vadd (a :: x) (b :: y) = (a + b) :: vadd x y.
Proof. reflexivity. Qed.
Lemma vmul_cons a x b y : vmul (a :: x) (b :: y) = (a * b) :: vmul x y.
Proof. reflexivity. Qed.
Lemma qsum_cons a l : qsum (a :: l) = a + qsum l.
Proof. reflexivity. Qed.

Lemma vadd_comm x : forall y, vadd x y = vadd y x.
Proof.
  induction x as [|a x IH]; intros [|b y]; try reflexivity.
  rewrite !vadd_cons, IH. f_equal. ring.
Qed.

Lemma vmul_nil_r x : vmul x [] = [].
Proof. apply map2_nil_r. Qed.
Lemma vmul_nil_l y : vmul [] y = [].
Proof. reflexivity. Qed.

Lemma vmul3_swap w : forall x y, vmul (vmul w x) y = vmul (vmul w y) x.
Proof.
  induction w as [|a w IH]; intros x y; [reflexivity|].
  destruct x as [|b x], y as [|c y]; try reflexivity.
  rewrite !vmul_cons, IH. f_equal. ring.
Qed.

Lemma zrow_length r : length (zrow r) = length r.
Proof. unfold zrow. apply map_length. Qed.

Lemma qsum_vmul_zrow l : forall z, qsum (vmul l (zrow z)) = 0.
Proof.
  induction l as [|a l IH]; intros [|b z]; try reflexivity.
  unfold zrow in *. cbn [map]. rewrite vmul_cons, qsum_cons, IH. ring.
Qed.

Lemma vadd_zrow_r x : forall y, (length x <= length y)%nat -> vadd x (zrow y) = x.
Proof.
  induction x as [|a x IH]; intros [|b y] H; cbn [length] in H; try reflexivity; try lia.
  unfold zrow in *. cbn [map]. rewrite vadd_cons, IH by lia. f_equal. ring.
Qed.

Lemma vadd_zrow_zrow y : vadd (zrow y) (zrow y) = zrow y.
Proof.
  induction y as [|b y IH]; [reflexivity|].
  unfold zrow in *. cbn [map]. rewrite vadd_cons, IH. f_equal; ring.
Qed.

(* ---------------------------------------------------------------- numpy indexing *)

Lemma py_index_lt n i k : py_index n i = Some k -> (k < n)%nat.
Proof.
  unfold py_index.
  destruct (0 <=? i)%Z eqn:E0.
  - destruct (i <? Z.of_nat n)%Z eqn:E1; [|discriminate]. intros H; inversion H; subst. lia.
  - destruct (- Z.of_nat n <=? i)%Z eqn:E1; [|discriminate]. intros H; inversion H; subst. lia.
Qed.

Lemma py_index_last n : py_index (S n) CONTROL = Some n.
Proof.
  unfold py_index, CONTROL.
  destruct (0 <=? -1)%Z eqn:E0; [lia|].
  destruct (- Z.of_nat (S n) <=? -1)%Z eqn:E1; [|lia]. f_equal. lia.
Qed.

Lemma py_get_in_or_default {A} (d : A) arr i : In (py_get d arr i) arr \/ py_get d arr i = d.
Proof.
  unfold py_get. destruct (py_index (length arr) i) as [k|] eqn:E; [|now right].
  left. apply nth_In. eapply py_index_lt; eassumption.
Qed.

Lemma rectb_In D M r : rectb D M = true -> In r M -> length r = D.
Proof.
  unfold rectb. rewrite forallb_forall. intros H Hin. apply H in Hin. now apply Nat.eqb_eq in Hin.
Qed.

(* every gathered row is no longer than the row the control sentinel gathers *)
Lemma py_get_len_le_last D M a :
  rectb D M = true -> (length (py_get [] M a) <= length (py_get [] M CONTROL))%nat.
Proof.
  intros HR. destruct (py_get_in_or_default [] M a) as [Hin|Hd].
  - assert (Hlast : In (py_get [] M CONTROL) M).
    { destruct M as [|r M]; [destruct Hin|].
      unfold py_get. cbn [length]. rewrite py_index_last. apply nth_In. cbn [length]. lia. }
    rewrite (rectb_In _ _ _ HR Hin), (rectb_In _ _ _ HR Hlast). lia.
  - rewrite Hd. cbn [length]. lia.
Qed.

(* ---------------------------------------------------------------- selections *)

Lemma select_map {A B} (f : A -> B) mask : forall l, select mask (map f l) = map f (select mask l).
Proof.
  induction mask as [|m mask IH]; intros [|x l]; try reflexivity.
  cbn [map select]. destruct m; cbn [map]; now rewrite IH.
Qed.

Lemma select_In {A} mask : forall (l : list A) x, In x (select mask l) -> In x l.
Proof.
  induction mask as [|m mask IH]; intros [|y l] x H; cbn [select] in H; try destruct H.
  destruct m.
  - destruct H as [->|H]; [now left|right; now apply IH].
  - right; now apply IH.
Qed.

Lemma forallb_select {A} (p : A -> bool) mask l : forallb p l = true -> forallb p (select mask l) = true.
Proof.
  rewrite !forallb_forall. intros H x Hx. apply H. eapply select_In; eassumption.
Qed.

Lemma select_length {A} mask : forall (l : list A),
  length (select mask l) = length (select mask (repeat tt (length l))).
Proof.
  induction mask as [|m mask IH]; intros [|x l]; try reflexivity.
  cbn [length repeat select]. destruct m; cbn [length]; now rewrite IH.
Qed.

Lemma select_repeat {A} (x : A) mask : forall n,
  select mask (repeat x n) = repeat x (length (select mask (repeat tt n))).
Proof.
  induction mask as [|m mask IH]; intros [|n]; try reflexivity.
  cbn [repeat select]. destruct m; cbn [length repeat]; now rewrite IH.
Qed.

Lemma take_idx_map {A B} (f : A -> B) d idx l : take_idx (f d) idx (map f l) = map f (take_idx d idx l).
Proof.
  unfold take_idx. rewrite map_map. apply map_ext. intros i. apply map_nth.
Qed.

Lemma forallb_take {A} (p : A -> bool) d idx l :
  Forall (fun i => (i < length l)%nat) idx -> forallb p l = true -> forallb p (take_idx d idx l) = true.
Proof.
  rewrite !forallb_forall. intros Hi H x Hx. unfold take_idx in Hx.
  apply in_map_iff in Hx as (i & <- & Hin). apply H. apply nth_In.
  rewrite Forall_forall in Hi. now apply Hi.
Qed.

Lemma nth_repeat_in {A} (x d : A) n : forall i, (i < n)%nat -> nth i (repeat x n) d = x.
Proof.
  induction n as [|n IH]; intros [|i] Hi; cbn [repeat nth]; try lia; [reflexivity|apply IH; lia].
Qed.

Lemma take_idx_repeat {A} (x d : A) idx n :
  Forall (fun i => (i < n)%nat) idx -> take_idx d idx (repeat x n) = repeat x (length idx).
Proof.
  induction 1 as [|i idx Hi _ IH]; [reflexivity|].
  cbn [length repeat]. unfold take_idx in *. cbn [map]. rewrite IH. f_equal.
  now apply nth_repeat_in.
Qed.

Lemma take_idx_indep {A} (d d' : A) idx l :
  Forall (fun i => (i < length l)%nat) idx -> take_idx d idx l = take_idx d' idx l.
Proof.
  intros H. unfold take_idx. apply map_ext_in. intros i Hi. apply nth_indep.
  rewrite Forall_forall in H. now apply H.
Qed.

(* ---------------------------------------------------------------- result lists *)

Lemma res_map_all_spec {A B} (f : A -> result B) (da : A) (db : B) l : forall rs,
  res_map_all f l = Ok rs ->
  length rs = length l /\ forall i, (i < length l)%nat -> f (nth i l da) = Ok (nth i rs db).
Proof.
  induction l as [|a l IH]; intros rs H; cbn [res_map_all] in H.
  - inversion H; subst. split; [reflexivity|]. intros i Hi; cbn [length] in Hi; lia.
  - unfold res_bind in H. destruct (f a) as [b|] eqn:Ea; [|discriminate].
    destruct (res_map_all f l) as [bs|] eqn:El; [|discriminate].
    inversion H; subst. destruct (IH bs eq_refl) as [Hlen Hnth]. split; [cbn [length]; now rewrite Hlen|].
    intros [|i] Hi; cbn [length] in Hi; cbn [nth]; [assumption|apply Hnth; lia].
Qed.

Lemma res_map_all_Forall {A B} (f : A -> result B) (P : B -> Prop) l : forall rs,
  res_map_all f l = Ok rs -> (forall a b, In a l -> f a = Ok b -> P b) -> Forall P rs.
Proof.
  induction l as [|a l IH]; intros rs H HP; cbn [res_map_all] in H.
  - inversion H; constructor.
  - unfold res_bind in H. destruct (f a) as [b|] eqn:Ea; [|discriminate].
    destruct (res_map_all f l) as [bs|] eqn:El; [|discriminate].
    inversion H; subst. constructor.
    + eapply HP; [now left|eassumption].
    + apply IH; [reflexivity|]. intros a' b' Hin. apply HP. now right.
Qed.

(* ---------------------------------------------------------------- rationals *)

Lemma viab_lo_le_hi : VIAB_LO <= VIAB_HI.
Proof. unfold Qcle. vm_compute. discriminate. Qed.

Lemma clip_viab_range x : VIAB_LO <= clip_viab x /\ clip_viab x <= VIAB_HI.
Proof.
  unfold clip_viab, qclip, qltb.
  destruct (Qclt_le_dec x VIAB_LO) as [H1|H1].
  - split; [apply Qcle_refl|apply viab_lo_le_hi].
  - destruct (Qclt_le_dec VIAB_HI x) as [H2|H2].
    + split; [apply viab_lo_le_hi|apply Qcle_refl].
    + split; assumption.
Qed.

Lemma clip_viab_id x : VIAB_LO <= x -> x <= VIAB_HI -> clip_viab x = x.
Proof.
  intros H1 H2. unfold clip_viab, qclip, qltb.
  destruct (Qclt_le_dec x VIAB_LO) as [H|H]; [exfalso; eapply Qclt_not_le; eassumption|].
  destruct (Qclt_le_dec VIAB_HI x) as [H'|H']; [exfalso; eapply Qclt_not_le; eassumption|reflexivity].
Qed.

Lemma clip_viab_idem x : clip_viab (clip_viab x) = clip_viab x.
Proof. apply clip_viab_id; apply clip_viab_range. Qed.

Lemma clip_viab_pos x : 0 < clip_viab x.
Proof.
  apply Qclt_le_trans with VIAB_LO; [|apply clip_viab_range].
  unfold Qclt. vm_compute. reflexivity.
Qed.

Lemma Qc_inv_pos p : 0 < p -> 0 < 1 / p.
Proof.
  unfold Qclt, Qcdiv, Qcmult, Qcinv; cbn [this Q2Qc]. rewrite !Qred_correct. intros H.
  rewrite Qmult_1_l. now apply Qinv_lt_0_compat.
Qed.
