(* C13: FixedSize / OptimalSize smoothing leave only plates of one common size (under numpy's
   choice contract). *)
From Coq Require Import ZArith List Bool Arith Lia Permutation.
From Batchie Require Import Lib.Sexp Model.Encode Model.Screen Model.Retro
  Proofs.C11Lib Proofs.C11Gen Proofs.C11Smooth Proofs.C11Select Proofs.C11Holdout Proofs.C13Optimal.
Import ListNotations.
Open Scope nat_scope.

Definition psize (p : name) (rows : list row) : Z := Z.of_nat (plate_count p rows).
(* plates larger than the target, in plate order: one rng.choice each *)
Definition big_plates (t : Z) (rows : list row) : list name :=
  filter (fun p => (t <? psize p rows)%Z) (plate_names_of rows).
(* numpy: rng.choice(plate_indices, t, replace=False) answers t distinct indices of the plate *)
Definition size_contract (t : Z) (rows : list row) (ds : list draw) : Prop :=
  Forall2 (fun q d => exists idx, d = DInts idx /\ NoDup idx /\ incl idx (idx_where (in_plate q) rows)
                                  /\ Z.of_nat (length idx) = t)
          (big_plates t rows) (firstn (length (big_plates t rows)) ds).

Lemma psize_vcount : forall p rows, Z.of_nat (vcount (plate_vec p rows)) = psize p rows.
Proof. intros. unfold psize, plate_count, plate_vec. now rewrite vcount_map. Qed.

Lemma size_results_spec : forall t rows plates ds K0 vs ds',
  size_results t (length rows) rows plates ds = Ok (vs, ds') ->
  exists assoc bigs : list (name * list nat),
    fold_left vor vs (vof_idx (length rows) K0) = vof_idx (length rows) (K0 ++ concat (map snd assoc)) /\
    map fst assoc = filter (fun p => (t <=? psize p rows)%Z) plates /\
    map fst bigs = filter (fun p => (t <? psize p rows)%Z) plates /\
    ds = map (fun qd => DInts (snd qd)) bigs ++ ds' /\
    forall q d, In (q, d) assoc ->
      (psize q rows = t /\ d = idx_where (in_plate q) rows) \/ ((t < psize q rows)%Z /\ In (q, d) bigs).
Proof.
  intros t rows plates. induction plates as [|p plates IH]; intros ds K0 vs ds' H; cbn [size_results] in H.
  - inversion H; subst. exists [], []. cbn. rewrite app_nil_r. repeat split; auto. intros q d [].
  - rewrite psize_vcount in H. cbn [filter].
    destruct (psize p rows <? t)%Z eqn:E1.
    + apply Z.ltb_lt in E1.
      replace (t <=? psize p rows)%Z with false by (symmetry; apply Z.leb_gt; lia).
      replace (t <? psize p rows)%Z with false by (symmetry; apply Z.ltb_ge; lia).
      now apply IH.
    + apply Z.ltb_ge in E1. destruct (psize p rows =? t)%Z eqn:E2.
      * apply Z.eqb_eq in E2.
        replace (t <=? psize p rows)%Z with true by (symmetry; apply Z.leb_le; lia).
        replace (t <? psize p rows)%Z with false by (symmetry; apply Z.ltb_ge; lia).
        destruct (size_results _ _ _ plates ds) as [[vs1 ds1]|e] eqn:Er; cbn [res_bind] in H; [|discriminate].
        inversion H; subst vs ds1. cbn [fold_left]. rewrite plate_vec_vof, vor_vof_idx.
        apply (IH ds (K0 ++ idx_where (in_plate p) rows)) in Er as (assoc & bigs & Hs & Hf & Hb & Hd & Hq).
        exists ((p, idx_where (in_plate p) rows) :: assoc), bigs. cbn [map fst snd concat].
        rewrite <- app_assoc in Hs. repeat split; auto.
        -- now rewrite Hf.
        -- intros q d [E|Hin]; [inversion E; subst; left; auto|now apply Hq].
      * apply Z.eqb_neq in E2.
        replace (t <=? psize p rows)%Z with true by (symmetry; apply Z.leb_le; lia).
        replace (t <? psize p rows)%Z with true by (symmetry; apply Z.ltb_lt; lia).
        destruct (t <? 0)%Z; [discriminate|].
        destruct (take_ints ds) as [[idx ds1]|e] eqn:Et; cbn [res_bind] in H; [|discriminate].
        apply take_ints_ok in Et. subst ds.
        destruct (size_results _ _ _ plates ds1) as [[vs1 ds2]|e] eqn:Er; cbn [res_bind] in H; [|discriminate].
        inversion H; subst vs ds2. cbn [fold_left]. rewrite vor_vof_idx.
        apply (IH ds1 (K0 ++ idx)) in Er as (assoc & bigs & Hs & Hf & Hb & Hd & Hq).
        exists ((p, idx) :: assoc), ((p, idx) :: bigs). cbn [map fst snd concat app].
        rewrite <- app_assoc in Hs. repeat split; auto.
        -- now rewrite Hf.
        -- now rewrite Hb.
        -- now rewrite Hd.
        -- intros q d [E|Hin].
           ++ inversion E; subst. right. split; [lia|now left].
           ++ destruct (Hq _ _ Hin) as [Hl|[Hl Hr]]; [now left|right; split; [exact Hl|now right]].
Qed.

Theorem size_smooth_counts : forall t rows ds out ds',
  size_smooth t rows ds = Ok (out, ds') -> size_contract t rows ds ->
  forall p, In p (plate_names_of rows) ->
    Z.of_nat (plate_count p out) = if (t <=? psize p rows)%Z then t else 0%Z.
Proof.
  intros t rows ds out ds' H HC p Hp. unfold size_smooth in H.
  destruct (size_results _ _ _ _ _) as [[vs ds1]|e] eqn:Er; cbn [res_bind] in H; [|discriminate].
  inversion H; subst out ds1. clear H. rewrite repeat_false_vof_idx.
  apply (size_results_spec t rows _ ds []) in Er as (assoc & bigs & Hs & Hf & Hb & Hd & Hq).
  rewrite Hs. cbn [app]. change (plate_count p (vselect ?v rows)) with (plate_count p (vselect v rows)).
  assert (Hbig : forall q d, In (q, d) bigs ->
            NoDup d /\ incl d (idx_where (in_plate q) rows) /\ Z.of_nat (length d) = t).
  { unfold size_contract, big_plates in HC. rewrite <- Hb, map_length in HC.
    rewrite Hd, firstn_app, map_length, Nat.sub_diag, firstn_O, app_nil_r in HC.
    rewrite firstn_all2 in HC by (rewrite map_length; lia).
    intros q d Hin. destruct (Forall2_map_assoc _ _ _ HC q d Hin) as (idx & E & Hnd & Hincl & Hl).
    cbn in E. inversion E; subst. auto. }
  assert (Hok : plate_assoc_ok rows assoc).
  { split.
    - rewrite Hf. apply NoDup_filter, NoDup_sort_uniq.
    - intros q d Hin. destruct (Hq _ _ Hin) as [[_ ->]|[_ Hin']].
      + split; [apply NoDup_idx_where|apply incl_refl].
      + destruct (Hbig _ _ Hin') as (H1 & H2 & _). auto. }
  change (plate_count p (vselect (vof_idx (length rows) (concat (map snd assoc))) rows))
    with (sel_count (concat (map snd assoc)) (in_plate p) rows).
  destruct (t <=? psize p rows)%Z eqn:E.
  - assert (Hin : In p (map fst assoc)) by (rewrite Hf; apply filter_In; auto).
    apply in_map_iff in Hin as ([q d] & Eq & Hin). cbn in Eq. subst q.
    rewrite (proj1 (sel_count_assoc rows assoc p Hok) d Hin).
    destruct (Hq _ _ Hin) as [[Hsz ->]|[_ Hin']].
    + rewrite idx_where_length. exact Hsz.
    + now destruct (Hbig _ _ Hin') as (_ & _ & Hl).
  - rewrite (proj2 (sel_count_assoc rows assoc p Hok)); [reflexivity|].
    rewrite Hf. intros Hin. apply filter_In in Hin as [_ Hin]. congruence.
Qed.

Lemma In_vselect {A} : forall (v : bvec) (l : list A) x, In x (vselect v l) -> In x l.
Proof. intros v l x H. eapply submulti_In; [apply vselect_submulti|exact H]. Qed.

Lemma plate_count_pos : forall p rows, In p (plate_names_of rows) -> 0 < plate_count p rows.
Proof.
  intros p rows H. apply In_plate_names_of in H as (r & Hr & Hp). unfold plate_count.
  assert (Hin : In r (filter (in_plate p) rows)) by (apply filter_In; split; [exact Hr|now apply in_plate_true]).
  destruct (filter (in_plate p) rows); [contradiction|cbn; lia].
Qed.

(* every plate left has exactly t experiments *)
Theorem fixed_size_common : forall t rows ds out ds',
  size_smooth t rows ds = Ok (out, ds') -> size_contract t rows ds ->
  forall p, In p (plate_names_of out) -> Z.of_nat (plate_count p out) = t.
Proof.
  intros t rows ds out ds' H HC p Hp.
  assert (Hp' : In p (plate_names_of rows)).
  { destruct (size_smooth_selects _ _ _ _ _ H) as [v ->].
    apply In_plate_names_of in Hp as (r & Hr & Hpl). apply In_plate_names_of. exists r. split; [|exact Hpl].
    eapply In_vselect; eassumption. }
  pose proof (size_smooth_counts _ _ _ _ _ H HC p Hp') as Hc.
  pose proof (plate_count_pos p out Hp) as Hpos.
  destruct (t <=? psize p rows)%Z; [exact Hc|lia].
Qed.

Theorem optimal_size_common : forall rows ds out ds',
  optimal_smooth rows ds = Ok (out, ds') ->
  size_contract (Z.of_nat (optimal_size (plate_sizes rows))) rows ds ->
  (forall p, In p (plate_names_of out) -> plate_count p out = optimal_size (plate_sizes rows)) /\
  (forall p, In p (plate_names_of rows) ->
     plate_count p out = if optimal_size (plate_sizes rows) <=? plate_count p rows
                         then optimal_size (plate_sizes rows) else 0).
Proof.
  intros rows ds out ds' H HC. unfold optimal_smooth in H. destruct (is_nil rows); [discriminate|]. split.
  - intros p Hp. pose proof (fixed_size_common _ _ _ _ _ H HC p Hp). lia.
  - intros p Hp. pose proof (size_smooth_counts _ _ _ _ _ H HC p Hp) as Hc. unfold psize in Hc.
    destruct (optimal_size (plate_sizes rows) <=? plate_count p rows) eqn:E.
    + apply Nat.leb_le in E.
      replace (Z.of_nat (optimal_size (plate_sizes rows)) <=? Z.of_nat (plate_count p rows))%Z with true in Hc
        by (symmetry; apply Z.leb_le; lia). lia.
    + apply Nat.leb_gt in E.
      replace (Z.of_nat (optimal_size (plate_sizes rows)) <=? Z.of_nat (plate_count p rows))%Z with false in Hc
        by (symmetry; apply Z.leb_gt; lia). lia.
Qed.

Lemma plate_sizes_counts : forall rows, plate_sizes rows = map (fun p => plate_count p rows) (plate_names_of rows).
Proof.
  intros rows. unfold plate_sizes. apply map_ext. intros p. unfold plate_vec, plate_count. apply vcount_map.
Qed.
