(* C14, one piece of Proofs/C14SourceHelpers.v (which see): Screen.combine *)
From Coq Require Import ZArith List Bool Arith Lia ZifyBool.
From Batchie Require Import Lib.Sexp Lib.PyRt Generated.Consts Model.Encode Model.Screen Model.Views
  Generated.SrcEncode Generated.SrcViews Generated.SrcPlates
  Proofs.PyRtLemmas Proofs.C01Sort Proofs.C14Defs Proofs.C14Lists Proofs.C14Unique
  Proofs.C14Source_Base Proofs.C14SourceHelpers_Base.
Import ListNotations.
Open Scope Z_scope.

Theorem src_screen_combine_is_model : forall a b : pyscreen, src_screen_combine a b = screen_combine (snd a) (snd b).
Proof.
  intros [ta a] [tb b]. unfold src_screen_combine, screen_combine. cbn [snd negb].
  destruct (negb (name_eqb (s_ctrl b) (s_ctrl a))); [reflexivity|].
  unfold concat2, screen_treatment_names, screen_treatment_doses. cbn [fst snd].
  destruct (Nat.eqb (s_arity a) (s_arity b)); cbn [negb res_bind]; [|reflexivity].
  rewrite res_bind_ok. unfold screen_of_arrays, screen_mask. cbn [fst snd]. now rewrite rows_of_arrays_app.
Qed.
