(* C14, one piece of Proofs/C14Source.v (conventions and objects: see there): ScreenSubset.single_treatment_effects *)
From Coq Require Import ZArith List Bool Arith Lia ZifyBool.
From Batchie Require Import Lib.Sexp Lib.PyRt Model.Encode Model.Screen Model.Views Generated.SrcViews
  Proofs.PyRtLemmas Proofs.C14Lists.
Import ListNotations.
Open Scope Z_scope.

(* single_treatment_effects: None when the parent's property is None, else its selected rows *)
Theorem src_view_single_effects_is_model : forall (E : Type) (v : view) (parent_value : option (list E)),
  src_view_single_treatment_effects E v parent_value = Ok (view_single_effects v parent_value).
Proof. intros E v [l|]; reflexivity. Qed.
