(* C04: the shared Screen constructor does not let masked values into the ids. *)
From Coq Require Import ZArith List Bool QArith Qcanon Lia.
From Batchie Require Import Lib.Sexp Model.Encode Model.Screen Model.Train Model.TrainScreen.
Import ListNotations.
Open Scope Z_scope.

Lemma agree_samples (rows1 rows2 : list row) :
  Forall2 name_row_agree rows1 rows2 -> map r_sample rows1 = map r_sample rows2.
Proof. induction 1 as [|a b l1 l2 (Hs & _) _ IH]; [reflexivity|]. cbn [map]. now rewrite Hs, IH. Qed.
Lemma agree_plates (rows1 rows2 : list row) :
  Forall2 name_row_agree rows1 rows2 -> map r_plate rows1 = map r_plate rows2.
Proof. induction 1 as [|a b l1 l2 (_ & Hp & _) _ IH]; [reflexivity|]. cbn [map]. now rewrite Hp, IH. Qed.
Lemma agree_treats (rows1 rows2 : list row) :
  Forall2 name_row_agree rows1 rows2 -> map r_treats rows1 = map r_treats rows2.
Proof. induction 1 as [|a b l1 l2 (_ & _ & Ht & _) _ IH]; [reflexivity|]. cbn [map]. now rewrite Ht, IH. Qed.
Lemma agree_length (rows1 rows2 : list row) :
  Forall2 name_row_agree rows1 rows2 -> length rows1 = length rows2.
Proof. induction 1 as [|a b l1 l2 _ _ IH]; [reflexivity|]. cbn [length]. now rewrite IH. Qed.

Lemma agree_ragged (rows1 rows2 : list row) (arity : nat) :
  Forall2 name_row_agree rows1 rows2 ->
  forallb (fun r => Nat.eqb (length (r_treats r)) arity) rows1
  = forallb (fun r => Nat.eqb (length (r_treats r)) arity) rows2.
Proof.
  induction 1 as [|a b l1 l2 (_ & _ & Ht & _) _ IH]; [reflexivity|]. cbn [forallb]. now rewrite Ht, IH.
Qed.

Lemma agree_first_mask (rows1 rows2 : list row) (p : name) :
  Forall2 name_row_agree rows1 rows2 -> first_mask p rows1 = first_mask p rows2.
Proof.
  induction 1 as [|a b l1 l2 (_ & Hp & _ & Hm & _) _ IH]; [reflexivity|].
  cbn [first_mask]. now rewrite Hp, Hm, IH.
Qed.

Lemma agree_forallb_mask (full1 full2 rows1 rows2 : list row) :
  (forall p, first_mask p full1 = first_mask p full2) ->
  Forall2 name_row_agree rows1 rows2 ->
  forallb (fun r => match first_mask (r_plate r) full1 with
                    | Some b => Bool.eqb b (r_mask r)
                    | None => false
                    end) rows1
  = forallb (fun r => match first_mask (r_plate r) full2 with
                      | Some b => Bool.eqb b (r_mask r)
                      | None => false
                      end) rows2.
Proof.
  intros Hfm. induction 1 as [|a b l1 l2 (_ & Hp & _ & Hm & _) _ IH]; [reflexivity|].
  cbn [forallb]. now rewrite Hp, Hm, Hfm, IH.
Qed.

Lemma agree_plate_uniform (rows1 rows2 : list row) :
  Forall2 name_row_agree rows1 rows2 -> plate_uniform rows1 = plate_uniform rows2.
Proof.
  intros Hag. unfold plate_uniform. apply agree_forallb_mask; [|exact Hag].
  intros p. now apply agree_first_mask.
Qed.

Lemma zip_rows_agree (rows1 rows2 : list row) :
  Forall2 name_row_agree rows1 rows2 ->
  forall T S P, same_except_masked (zip_rows rows1 T S P) (zip_rows rows2 T S P).
Proof.
  induction 1 as [|a b l1 l2 (_ & _ & _ & Hm & Ho) _ IH]; intros T S P.
  - constructor.
  - cbn [zip_rows]. destruct T as [|t T]; [constructor|]. destruct S as [|s S]; [constructor|].
    destruct P as [|p P]; [constructor|].
    constructor; [|apply IH].
    unfold row_agree; cbn. repeat split; try assumption.
    intros Ha. now rewrite (Ho Ha).
Qed.

(* acceptance, ids and mappings of the constructed screen do not depend on masked values *)
Lemma mk_screen_masked_blind (rows1 rows2 : list row) arity ctrl tm sm :
  Forall2 name_row_agree rows1 rows2 ->
  match mk_screen rows1 arity ctrl tm sm true true, mk_screen rows2 arity ctrl tm sm true true with
  | Ok s1, Ok s2 =>
      s_tids s1 = s_tids s2 /\ s_sids s1 = s_sids s2 /\ s_pids s1 = s_pids s2 /\
      s_tmap s1 = s_tmap s2 /\ s_smap s1 = s_smap s2 /\ s_pmap s1 = s_pmap s2 /\
      s_rows s1 = rows1 /\ s_rows s2 = rows2
  | Err t1, Err t2 => t1 = t2
  | _, _ => False
  end.
Proof.
  intros Hag. unfold mk_screen. cbn [negb andb].
  rewrite (agree_ragged _ _ arity Hag).
  destruct (negb (forallb _ rows2)); [reflexivity|].
  rewrite (agree_plate_uniform _ _ Hag).
  destruct (negb (plate_uniform rows2)); [reflexivity|].
  destruct (match tm with Some (m, isint) => negb (zero_indexed isint (map snd m)) | None => false end); [reflexivity|].
  destruct (match sm with Some (m, isint) => negb (zero_indexed isint (map snd m)) | None => false end); [reflexivity|].
  rewrite (agree_treats _ _ Hag), (agree_samples _ _ Hag), (agree_plates _ _ Hag), (agree_length _ _ Hag).
  destruct (encode_treatments _ ctrl (option_map fst tm)) as [[tflat tmm]|t]; cbn [res_bind]; [|reflexivity].
  destruct (encode_names (map r_sample rows2) (option_map fst sm) 6) as [[sids smm]|t]; cbn [res_bind]; [|reflexivity].
  destruct (encode_names (map r_plate rows2) None 6) as [[pids pmm]|t]; cbn [res_bind]; [|reflexivity].
  cbn. repeat split; reflexivity.
Qed.

Lemma screen_bridge (rows1 rows2 : list row) arity ctrl tm sm :
  Forall2 name_row_agree rows1 rows2 ->
  (forall s1, mk_screen rows1 arity ctrl tm sm true true = Ok s1 ->
     exists s2, mk_screen rows2 arity ctrl tm sm true true = Ok s2 /\
                same_except_masked (trows_of_screen s1) (trows_of_screen s2)) /\
  (forall t, mk_screen rows1 arity ctrl tm sm true true = Err t ->
     mk_screen rows2 arity ctrl tm sm true true = Err t).
Proof.
  intros Hag. pose proof (mk_screen_masked_blind rows1 rows2 arity ctrl tm sm Hag) as H.
  split.
  - intros s1 E1. rewrite E1 in H.
    destruct (mk_screen rows2 arity ctrl tm sm true true) as [s2|t2]; [|destruct H].
    exists s2. split; [reflexivity|].
    destruct H as (Ht & Hs & Hp & _ & _ & _ & Hr1 & Hr2).
    unfold trows_of_screen. rewrite Ht, Hs, Hp, Hr1, Hr2. now apply zip_rows_agree.
  - intros t E1. rewrite E1 in H.
    destruct (mk_screen rows2 arity ctrl tm sm true true) as [s2|t2]; [destruct H|]. now subst.
Qed.

(* end to end over the shared Screen model: name-level rows -> constructor -> training data *)
From Batchie Require Import Lib.Num Proofs.C04Train.

Lemma screen_noninterference (orc : oracle) (r32 : Qc -> oval) (fm gneg gnan : bool)
      (rows1 rows2 : list row) arity ctrl tm sm s1 :
  Forall2 name_row_agree rows1 rows2 ->
  mk_screen rows1 arity ctrl tm sm true true = Ok s1 ->
  exists s2, mk_screen rows2 arity ctrl tm sm true true = Ok s2 /\
    train_sdc orc r32 (trows_of_screen s1) = train_sdc orc r32 (trows_of_screen s2) /\
    train_int orc r32 fm gneg gnan arity (trows_of_screen s1)
      = train_int orc r32 fm gneg gnan arity (trows_of_screen s2) /\
    downstream_input (trows_of_screen s1) = downstream_input (trows_of_screen s2).
Proof.
  intros Hag E1. destruct (screen_bridge rows1 rows2 arity ctrl tm sm Hag) as [Hok _].
  destruct (Hok s1 E1) as (s2 & E2 & Hsame). exists s2. split; [exact E2|].
  split; [now apply train_sdc_noninterference|].
  split; [now apply train_int_noninterference | now apply downstream_frame].
Qed.
