(* C13: SampleSegregatingPermutationPlateGenerator.__init__ (Generated/SrcInits.v) stores its argument: the attribute the translated methods of the class read
   (`self.<attr>` = the model parameter of their links) is the value the object was constructed with - max_plate_size *)
From Coq Require Import ZArith List Bool.
From Batchie Require Import Lib.Sexp Lib.PyRt Model.Encode Generated.SrcInits.
Import ListNotations.
Open Scope Z_scope.

Theorem src_sample_seg_init_stores : forall max_plate_size : Z, src_sample_seg_init max_plate_size = Ok max_plate_size.
Proof. reflexivity. Qed.
