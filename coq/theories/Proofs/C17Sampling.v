(* C17 proofs: the schedule emitted by Model/Sampling.v. *)
From Coq Require Import ZArith List Bool Lia.
From Batchie Require Import Lib.Sexp Model.Sampling.
Import ListNotations.
Open Scope Z_scope.

Definition prefix (p : list event) (r : result (list event * Z)) : result (list event * Z) :=
  match r with Ok x => Ok (p ++ fst x, snd x) | Err e => Err e end.

Lemma prefix_nil r : prefix [] r = r.
Proof. destruct r as [[tr l]|e]; reflexivity. Qed.

Lemma prefix_prefix p q r : prefix p (prefix q r) = prefix (p ++ q) r.
Proof. destruct r as [[tr l]|e]; cbn [prefix fst snd]; [now rewrite app_assoc|reflexivity]. Qed.

(* d iterations that stay strictly inside a thinning period: only steps *)
Lemma thin_loop_steps t N : 0 < t -> forall d todo i len,
  0 <= i -> i mod t + Z.of_nat d < t ->
  thin_loop t N (d + todo) i len = prefix (repeat Step d) (thin_loop t N todo (i + Z.of_nat d) len).
Proof.
  intros Ht d; induction d as [|d IH]; intros todo i len Hi Hd.
  - cbn [Nat.add repeat]. rewrite prefix_nil. now replace (i + Z.of_nat 0) with i by lia.
  - cbn [Nat.add thin_loop].
    pose proof (Z.mod_pos_bound i t Ht) as Hbd.
    assert (Hm : (i + 1) mod t = i mod t + 1).
    { rewrite Z.add_mod by lia. rewrite (Z.mod_small 1 t) by lia. apply Z.mod_small. lia. }
    destruct ((i + 1) mod t =? 0) eqn:E; [lia|].
    rewrite IH by lia.
    replace (i + 1 + Z.of_nat d) with (i + Z.of_nat (S d)) by lia.
    destruct (thin_loop t N todo (i + Z.of_nat (S d)) len) as [[tr l]|e]; reflexivity.
Qed.

Definition block (t : Z) : list event := repeat Step (Z.to_nat t) ++ [Record].

(* one full thinning period starting on a period boundary *)
Lemma thin_loop_block t N : 0 < t -> forall todo i len,
  0 <= i -> i mod t = 0 -> len < N ->
  thin_loop t N (Z.to_nat t + todo) i len = prefix (block t) (thin_loop t N todo (i + t) (len + 1)).
Proof.
  intros Ht todo i len Hi Hm Hlen.
  replace (Z.to_nat t + todo)%nat with (Z.to_nat (t - 1) + S todo)%nat by lia.
  rewrite thin_loop_steps by lia.
  cbn [thin_loop].
  replace (i + Z.of_nat (Z.to_nat (t - 1)) + 1) with (i + t) by lia.
  assert (E : (i + t) mod t =? 0 = true).
  { apply Z.eqb_eq. rewrite Z.add_mod by lia. rewrite Hm, Z_mod_same_full. reflexivity. }
  rewrite E. destruct (N <=? len) eqn:E2; [lia|].
  unfold block.
  destruct (thin_loop t N todo (i + t) (len + 1)) as [[tr l]|e]; cbn [res_bind prefix fst snd]; [|reflexivity].
  replace (Z.to_nat t) with (S (Z.to_nat (t - 1))) by lia.
  f_equal. f_equal. cbn [repeat]. rewrite repeat_cons, <- !app_assoc. reflexivity.
Qed.

Lemma thin_loop_all t N : 0 < t -> forall (m : nat) i len,
  0 <= i -> i mod t = 0 -> len + Z.of_nat m <= N ->
  thin_loop t N (m * Z.to_nat t) i len = Ok (concat (repeat (block t) m), len + Z.of_nat m).
Proof.
  intros Ht m; induction m as [|m IH]; intros i len Hi Hm Hlen.
  - cbn [Nat.mul thin_loop repeat concat]. f_equal. f_equal. lia.
  - cbn [Nat.mul]. rewrite thin_loop_block by lia.
    rewrite IH; [| lia | rewrite Z.add_mod by lia; rewrite Hm, Z_mod_same_full; reflexivity | lia].
    cbn [prefix fst snd repeat concat]. f_equal. f_equal. lia.
Qed.

Definition schedule (b t n : Z) : list event :=
  repeat Step (Z.to_nat b) ++ concat (repeat (block t) (Z.to_nat n)).

Lemma rng_key_in_range seed nc ci : 0 <= seed -> 0 <= ci < nc -> rng_key seed nc ci = Ok (seed, [ci]).
Proof.
  intros Hs Hc. unfold rng_key.
  destruct (seed <? 0) eqn:E1; [lia|]. destruct (nc <? 0) eqn:E2; [lia|].
  destruct ((0 <=? ci) && (ci <? nc)) eqn:E3; [reflexivity|].
  apply andb_false_iff in E3 as [E3|E3]; lia.
Qed.

Lemma sample_mcmc_trace seed nc ci b t n :
  0 <= seed -> 0 <= ci < nc -> 0 <= b -> 1 <= t -> 0 <= n ->
  sample_mcmc seed nc ci b t n 0 = Ok (Reset :: SetRng seed [ci] :: schedule b t n, n).
Proof.
  intros Hs Hc Hb Ht Hn. unfold sample_mcmc. rewrite rng_key_in_range by assumption.
  cbn [res_bind fst snd].
  replace (Z.to_nat (n * t)) with (Z.to_nat n * Z.to_nat t)%nat by (rewrite Z2Nat.inj_mul; lia).
  rewrite thin_loop_all by (try lia; reflexivity).
  cbn [res_bind fst snd]. unfold schedule, burnin. f_equal. f_equal. lia.
Qed.

(* observations on the closed form *)
Lemma filter_step_repeat d : filter is_step (repeat Step d) = repeat Step d.
Proof. induction d as [|d IH]; cbn [repeat filter is_step]; [reflexivity|now rewrite IH]. Qed.
Lemma filter_record_repeat d : filter is_record (repeat Step d) = [].
Proof. induction d as [|d IH]; cbn [repeat filter is_record]; [reflexivity|exact IH]. Qed.

Lemma n_steps_app a b : n_steps (a ++ b) = n_steps a + n_steps b.
Proof. unfold n_steps. rewrite filter_app, app_length. lia. Qed.
Lemma n_records_app a b : n_records (a ++ b) = n_records a + n_records b.
Proof. unfold n_records. rewrite filter_app, app_length. lia. Qed.

Lemma n_steps_repeat d : n_steps (repeat Step d) = Z.of_nat d.
Proof. unfold n_steps. now rewrite filter_step_repeat, repeat_length. Qed.
Lemma n_records_repeat d : n_records (repeat Step d) = 0.
Proof. unfold n_records. now rewrite filter_record_repeat. Qed.

Lemma n_steps_block t : 0 <= t -> n_steps (block t) = t.
Proof. intros Ht. unfold block. rewrite n_steps_app, n_steps_repeat. cbn. lia. Qed.
Lemma n_records_block t : n_records (block t) = 1.
Proof. unfold block. rewrite n_records_app, n_records_repeat. reflexivity. Qed.

Lemma n_steps_blocks t m : 0 <= t -> n_steps (concat (repeat (block t) m)) = Z.of_nat m * t.
Proof.
  intros Ht. induction m as [|m IH]; cbn [repeat concat]; [reflexivity|].
  rewrite n_steps_app, IH, n_steps_block by assumption. lia.
Qed.
Lemma n_records_blocks t m : n_records (concat (repeat (block t) m)) = Z.of_nat m.
Proof.
  induction m as [|m IH]; cbn [repeat concat]; [reflexivity|].
  rewrite n_records_app, IH, n_records_block. lia.
Qed.

Lemma n_steps_schedule b t n : 0 <= b -> 0 <= t -> 0 <= n -> n_steps (schedule b t n) = b + n * t.
Proof.
  intros Hb Ht Hn. unfold schedule. rewrite n_steps_app, n_steps_repeat, n_steps_blocks by assumption. lia.
Qed.
Lemma n_records_schedule b t n : 0 <= n -> n_records (schedule b t n) = n.
Proof.
  intros Hn. unfold schedule. rewrite n_records_app, n_records_repeat, n_records_blocks. lia.
Qed.

Lemma marks_steps d : forall c tr, record_marks c (repeat Step d ++ tr) = record_marks (c + Z.of_nat d) tr.
Proof.
  induction d as [|d IH]; intros c tr; cbn [repeat app record_marks].
  - f_equal. lia.
  - rewrite IH. f_equal. lia.
Qed.

(* the marks b+t, b+2t, ..., b+n*t *)
Definition expected_marks (b t : Z) (n : nat) : list Z :=
  map (fun i => b + (Z.of_nat i + 1) * t) (seq 0 n).

Lemma marks_blocks t : 0 <= t -> forall m c,
  record_marks c (concat (repeat (block t) m)) = map (fun i => c + (Z.of_nat i + 1) * t) (seq 0 m).
Proof.
  intros Ht m; induction m as [|m IH]; intros c; cbn [repeat concat seq map]; [reflexivity|].
  unfold block at 1. rewrite <- app_assoc, marks_steps. cbn [app record_marks].
  rewrite IH. f_equal; [lia|].
  rewrite <- seq_shift, map_map. apply map_ext. intros i. lia.
Qed.

Lemma marks_schedule b t n : 0 <= b -> 0 <= t -> 0 <= n ->
  record_marks 0 (schedule b t n) = expected_marks b t (Z.to_nat n).
Proof.
  intros Hb Ht Hn. unfold schedule. rewrite marks_steps, marks_blocks by assumption.
  unfold expected_marks. apply map_ext. intros i. lia.
Qed.

(* ---- statements used by Props/C17.v ---- *)
Lemma c17_trace seed nc ci b t n :
  0 <= seed -> 0 <= ci < nc -> 0 <= b -> 1 <= t -> 0 <= n ->
  sample (0) seed (Some nc) (Some ci) (Some b) (Some t) n 0 0%nat
  = Ok (Reset :: SetRng seed [ci] ::
        repeat Step (Z.to_nat b) ++ concat (repeat (repeat Step (Z.to_nat t) ++ [Record]) (Z.to_nat n)), n).
Proof. intros. unfold sample. cbn [Z.eqb]. now apply sample_mcmc_trace. Qed.

Lemma c17_step_count seed nc ci b t n tr len :
  0 <= seed -> 0 <= ci < nc -> 0 <= b -> 1 <= t -> 0 <= n ->
  sample_mcmc seed nc ci b t n 0 = Ok (tr, len) -> n_steps tr = b + n * t.
Proof.
  intros Hs Hc Hb Ht Hn H. rewrite sample_mcmc_trace in H by assumption. injection H as <- <-.
  change (n_steps (Reset :: SetRng seed [ci] :: schedule b t n)) with (n_steps (schedule b t n)).
  apply n_steps_schedule; lia.
Qed.

Lemma c17_record_marks seed nc ci b t n tr len :
  0 <= seed -> 0 <= ci < nc -> 0 <= b -> 1 <= t -> 0 <= n ->
  sample_mcmc seed nc ci b t n 0 = Ok (tr, len) ->
  record_marks 0 tr = map (fun i => b + (Z.of_nat i + 1) * t) (seq 0 (Z.to_nat n)).
Proof.
  intros Hs Hc Hb Ht Hn H. rewrite sample_mcmc_trace in H by assumption. injection H as <- <-.
  cbn [record_marks]. apply marks_schedule; lia.
Qed.

Lemma c17_complete seed nc ci b t n :
  0 <= seed -> 0 <= ci < nc -> 0 <= b -> 1 <= t -> 0 <= n ->
  exists tr len, sample_mcmc seed nc ci b t n 0 = Ok (tr, len) /\
                 n_records tr = n /\ len = n /\ is_complete n len = true.
Proof.
  intros Hs Hc Hb Ht Hn. eexists _, _. split; [now apply sample_mcmc_trace|].
  split; [|split; [reflexivity|apply Z.eqb_refl]].
  change (n_records (Reset :: SetRng seed [ci] :: schedule b t n)) with (n_records (schedule b t n)).
  now apply n_records_schedule.
Qed.

(* the SetRng event of any successful MCMC run carries rng_key seed nc ci, whatever b, t, n, len0 are *)
Lemma c17_key_in_trace seed nc ci b t n len0 tr len :
  sample_mcmc seed nc ci b t n len0 = Ok (tr, len) ->
  exists k rest, rng_key seed nc ci = Ok k /\ tr = Reset :: SetRng (fst k) (snd k) :: rest /\
                 forall e, In e rest -> e = Step \/ e = Record.
Proof.
  unfold sample_mcmc. destruct (rng_key seed nc ci) as [k|e]; cbn [res_bind]; [|discriminate].
  destruct (thin_loop t n (Z.to_nat (n * t)) 0 len0) as [[tr' l']|e] eqn:E; cbn [res_bind fst snd]; [|discriminate].
  intros H. injection H as <- <-. exists k, (burnin b ++ tr'). split; [reflexivity|]. split; [reflexivity|].
  intros e He. apply in_app_or in He as [He|He].
  - left. unfold burnin in He. now apply repeat_spec in He.
  - clear -E He. revert E He. generalize (Z.to_nat (n * t)) as todo, 0 as i. intros todo; revert tr' l' len0.
    induction todo as [|todo IH]; intros tr' l' len0 i E He; cbn [thin_loop] in E.
    + injection E as <- <-. destruct He.
    + destruct ((i + 1) mod t =? 0).
      * destruct (n <=? len0); [discriminate|].
        destruct (thin_loop t n todo (i + 1) (len0 + 1)) as [[tr2 l2]|e2] eqn:E2; cbn [res_bind fst snd] in E; [|discriminate].
        injection E as <- <-. destruct He as [<-|[<-|He]]; [now left|now right|]. eapply IH; eassumption.
      * destruct (thin_loop t n todo (i + 1) len0) as [[tr2 l2]|e2] eqn:E2; cbn [res_bind fst snd] in E; [|discriminate].
        injection E as <- <-. destruct He as [<-|He]; [now left|]. eapply IH; eassumption.
Qed.

Lemma c17_key_fun seed nc ci : 0 <= seed -> 0 <= ci < nc -> rng_key seed nc ci = Ok (seed, [ci]).
Proof. exact (rng_key_in_range seed nc ci). Qed.

Lemma c17_key_injective seed1 nc1 ci1 seed2 nc2 ci2 k :
  0 <= ci1 < nc1 -> 0 <= ci2 < nc2 ->
  rng_key seed1 nc1 ci1 = Ok k -> rng_key seed2 nc2 ci2 = Ok k -> seed1 = seed2 /\ ci1 = ci2.
Proof.
  intros H1 H2. unfold rng_key.
  destruct (seed1 <? 0); [discriminate|]. destruct (seed2 <? 0); [discriminate|].
  destruct (nc1 <? 0) eqn:E1; [lia|]. destruct (nc2 <? 0) eqn:E2; [lia|].
  destruct ((0 <=? ci1) && (ci1 <? nc1)) eqn:E3; [|apply andb_false_iff in E3 as [E3|E3]; lia].
  destruct ((0 <=? ci2) && (ci2 <? nc2)) eqn:E4; [|apply andb_false_iff in E4 as [E4|E4]; lia].
  intros A B. rewrite <- B in A. injection A as -> ->. now split.
Qed.

Lemma c17_streams_distinct seed nc ci1 ci2 :
  0 <= seed -> 0 <= ci1 < nc -> 0 <= ci2 < nc -> ci1 <> ci2 -> rng_key seed nc ci1 <> rng_key seed nc ci2.
Proof.
  intros Hs H1 H2 Hne. rewrite !rng_key_in_range by assumption. intros E. injection E as E. contradiction.
Qed.

Lemma add_all_ok N : forall (m : nat) len, len + Z.of_nat m <= N ->
  add_all N m len = Ok (repeat Record m, len + Z.of_nat m).
Proof.
  induction m as [|m IH]; intros len H; cbn [add_all repeat].
  - f_equal. f_equal. lia.
  - destruct (N <=? len) eqn:E; [lia|]. rewrite IH by lia. cbn [res_bind fst snd]. f_equal. f_equal. lia.
Qed.

Lemma c17_vi_once seed nc ci b t n :
  0 <= seed -> 0 <= ci < nc -> 0 <= n ->
  sample 1 seed (Some nc) (Some ci) b t n 0 (Z.to_nat n)
  = Ok (Reset :: SetRng seed [ci] :: SampleVI n :: repeat Record (Z.to_nat n), n) /\ is_complete n n = true.
Proof.
  intros Hs Hc Hn. split; [|apply Z.eqb_refl]. unfold sample. cbn [Z.eqb]. unfold sample_vi.
  rewrite rng_key_in_range by assumption. cbn [res_bind fst snd].
  rewrite add_all_ok by lia. cbn [res_bind fst snd]. rewrite Z.add_0_l, Z2Nat.id by lia. reflexivity.
Qed.

(* VI models: n_chains and chain_index are needed now (the generator is derived from them) *)
Lemma c17_vi_none_refused seed nc ci b t n len0 ret :
  nc = None \/ ci = None -> sample 1 seed nc ci b t n len0 ret = Err 5.
Proof.
  intros H. unfold sample. cbn [Z.eqb].
  destruct nc, ci; try reflexivity. destruct H as [H|H]; discriminate.
Qed.

Lemma c17_negative_index_aliases seed nc : 0 <= seed -> 1 <= nc -> rng_key seed nc (-1) = rng_key seed nc (nc - 1).
Proof.
  intros Hs Hn. rewrite (rng_key_in_range seed nc (nc - 1)) by lia. unfold rng_key.
  destruct (seed <? 0) eqn:E1; [lia|]. destruct (nc <? 0) eqn:E2; [lia|].
  cbn [Z.leb Z.compare andb]. destruct ((- nc <=? -1) && (-1 <? 0)) eqn:E3.
  - reflexivity.
  - apply andb_false_iff in E3 as [E3|E3]; lia.
Qed.

Lemma c17_not_a_model_refused kind seed nc ci b t n len0 ret :
  kind <> 0 -> kind <> 1 -> sample kind seed nc ci b t n len0 ret = Err 6.
Proof.
  intros H0 H1. unfold sample. destruct (kind =? 0) eqn:E0; [lia|]. destruct (kind =? 1) eqn:E1; [lia|reflexivity].
Qed.

Lemma c17_none_refused seed nc ci b t n len0 ret :
  nc = None \/ ci = None \/ b = None \/ t = None -> sample 0 seed nc ci b t n len0 ret = Err 5.
Proof.
  intros H. unfold sample. cbn [Z.eqb].
  destruct nc, ci, b, t; try reflexivity. destruct H as [H|[H|[H|H]]]; discriminate.
Qed.
