(* C01, one piece of Proofs/C01Source.v (which see): the id-encoding statements of Screen.__init__ *)
From Coq Require Import ZArith List Bool Lia ZifyBool Arith Sorted.
From Batchie Require Import Lib.Sexp Lib.PyRt Generated.Consts Generated.SrcArithC01 Model.Encode Model.Screen Generated.SrcEncode
  Generated.SrcScreenIds Proofs.PyRtLemmas Proofs.C01Sort Proofs.C01Encode Proofs.C03Screen
  Proofs.C01Source_Base Proofs.C01Source_ValidIds Proofs.C01Source_Treatments Proofs.C01Source_Encode1d.
Import ListNotations.
Open Scope Z_scope.

(* ---------- Screen.__init__: the statements that encode names and doses to ids ---------- *)
Theorem src_init_control_name_is_param : forall c : name, src_init_control_name c = Ok c.
Proof. reflexivity. Qed.

Lemma res_fold_append_in {A B} (f : list B -> A -> result (list B)) (g : A -> B) l :
  (forall acc x, In x l -> f acc x = Ok (acc ++ [g x])) -> forall acc, res_fold f l acc = Ok (acc ++ map g l).
Proof.
  induction l as [|a l IH]; intros H acc; cbn [res_fold map]; [now rewrite app_nil_r|].
  rewrite H by now left. cbn [res_bind]. rewrite IH by (intros; apply H; now right). now rewrite <- app_assoc.
Qed.

Lemma arr2_col_in {A} (d : A) a rows i : (i < a)%nat -> arr2_col d (a, rows) (Z.of_nat i) = Ok (column d i rows).
Proof.
  intros H. unfold arr2_col. cbn [fst snd].
  replace (Z.of_nat i <? 0) with false by lia.
  replace ((0 <=? Z.of_nat i) && (Z.of_nat i <? Z.of_nat a)) with true by lia. now rewrite Nat2Z.id.
Qed.

Lemma column_map {A B} (f : A -> B) d i rows : column (f d) i (map (map f) rows) = map f (column d i rows).
Proof. unfold column. rewrite !map_map. apply map_ext. intros r. apply map_nth. Qed.

Lemma flatten_cols_map {A B} (f : A -> B) d a rows :
  flatten_cols (f d) a (map (map f) rows) = map f (flatten_cols d a rows).
Proof.
  unfold flatten_cols. rewrite concat_map, map_map. f_equal. apply map_ext. intros i. apply column_map.
Qed.

Lemma combine_fst_snd {A B} (l : list (A * B)) : combine (map fst l) (map snd l) = l.
Proof. induction l as [|[a b] l IH]; cbn [map combine fst snd]; [reflexivity | now rewrite IH]. Qed.

Lemma np_concat_cons {A} (x : list A) l : np_concat (x :: l) = Ok (concat (x :: l)).
Proof. reflexivity. Qed.

(* the loop over range(treatment_arity) and the two np.concatenate calls: the column-major flattening of both arrays *)
Lemma src_flatten {A} (d : A) (a : nat) (rows : list (list A)) (proj : list name * list Z -> list A)
      (combos : list (list name * list Z)) (cols : nat -> list name * list Z) :
  (0 < a)%nat -> combos = map cols (seq 0 a) -> (forall i, proj (cols i) = column d i rows) ->
  np_concat (map proj combos) = Ok (flatten_cols d a rows).
Proof.
  intros Ha -> Hp. unfold flatten_cols. rewrite map_map. rewrite (map_ext _ _ Hp).
  destruct a as [|a]; [lia|]. reflexivity.
Qed.

(* np.vstack(np.split(flat, arity)).T = the model's unflatten_cols *)
Lemma nth_firstn_lt {A} (d : A) : forall n j l, (j < n)%nat -> nth j (firstn n l) d = nth j l d.
Proof. induction n as [|n IH]; intros j l H; [lia|]. destruct l as [|x l]; [now destruct j|]. destruct j; [reflexivity|]. cbn [firstn nth]. apply IH. lia. Qed.

Lemma nth_skipn_add {A} (d : A) : forall k j l, nth j (skipn k l) d = nth (k + j) l d.
Proof. induction k as [|k IH]; intros j l; [reflexivity|]. destruct l as [|x l]; [now destruct j|]. cbn [skipn Nat.add nth]. apply IH. Qed.

Lemma np_split_chunks {A} (l : list A) a n : (0 < a)%nat -> length l = (a * n)%nat ->
  np_split l (Z.of_nat a) = Ok (map (fun i => firstn n (skipn (i * n) l)) (seq 0 a)).
Proof.
  intros Ha Hl. unfold np_split. replace (Z.of_nat a <=? 0) with false by lia.
  rewrite Hl, Nat2Z.inj_mul, Z.mul_comm, Z_mod_mult. cbn [Z.eqb negb].
  rewrite Z.div_mul by lia. now rewrite !Nat2Z.id.
Qed.

Lemma np_vstack_uniform {A} (l : list (list A)) n : l <> [] -> (forall x, In x l -> length x = n) -> np_vstack l = Ok (n, l).
Proof.
  intros Hne H. destruct l as [|r rest]; [contradiction|]. unfold np_vstack.
  rewrite (H r) by now left.
  replace (forallb (fun x => Nat.eqb (length x) n) rest) with true; [reflexivity|].
  symmetry. apply forallb_forall. intros x Hx. apply Nat.eqb_eq. apply H. now right.
Qed.

Lemma src_unflatten (tflat : list Z) a n : (0 < a)%nat -> length tflat = (a * n)%nat ->
  (dor r1 <- np_split (map Some tflat) (Z.of_nat a); dor r2 <- np_vstack r1; Ok (arr2_T None r2))
  = Ok (a, map (map Some) (unflatten_cols a n tflat)).
Proof.
  intros Ha Hl. rewrite (np_split_chunks _ a n Ha) by now rewrite map_length. cbn [res_bind].
  set (l := map Some tflat).
  rewrite (np_vstack_uniform _ n).
  - cbn [res_bind]. unfold arr2_T. cbn [fst snd]. rewrite map_length, seq_length. f_equal. f_equal.
    unfold unflatten_cols. rewrite map_map. apply map_ext_in. intros j Hj. apply in_seq in Hj.
    unfold column. rewrite !map_map. apply map_ext_in. intros i Hi. apply in_seq in Hi.
    rewrite nth_firstn_lt by lia. rewrite nth_skipn_add. unfold l.
    rewrite (nth_indep _ None (Some 0)) by (rewrite map_length; nia). apply map_nth.
  - destruct a; [lia | discriminate].
  - intros x Hx. apply in_map_iff in Hx as (i & <- & Hi). apply in_seq in Hi.
    rewrite firstn_length, skipn_length. unfold l. rewrite map_length. nia.
Qed.

Lemma tmap_py_rows_of m b : tmap_py_rows (tmap_py_of m b) = m.
Proof.
  unfold tmap_py_rows, tmap_py_of. cbn [fst snd].
  induction m as [|[[n d] i] m IH]; cbn [map combine fst snd]; [reflexivity | now rewrite IH].
Qed.

Lemma tmap_py_aligned_of m b : tmap_py_aligned (tmap_py_of m b) = true.
Proof. unfold tmap_py_aligned, tmap_py_of. cbn [fst snd]. rewrite !map_length, !Nat.eqb_refl. reflexivity. Qed.

Lemma smap_py_rows_of m b : smap_py_rows (smap_py_of m b) = m.
Proof. unfold smap_py_rows, smap_py_of. cbn [fst snd]. apply combine_fst_snd. Qed.

Lemma smap_py_aligned_of m b : smap_py_aligned (smap_py_of m b) = true.
Proof. unfold smap_py_aligned, smap_py_of. cbn [fst snd]. now rewrite !map_length, Nat.eqb_refl. Qed.

(* the validation of a supplied mapping's id array *)
Lemma src_check_tmap (tm : option (tmapping * bool)) :
  (if is_some (tmap_arg_py tm) then
     dor u <- unwrap (tmap_arg_py tm); dor r <- src_numpy_array_is_0_indexed_integers (snd u);
     if negb r then Err 3 else Ok tt
   else Ok tt) = if tmap_bad tm then Err 3 else Ok tt.
Proof.
  destruct tm as [[m b]|]; cbn [tmap_arg_py option_map is_some unwrap res_bind tmap_bad fst snd]; [|reflexivity].
  unfold tmap_py_of. cbn [snd]. rewrite src_valid_ids_is_model. reflexivity.
Qed.

Lemma src_check_smap (sm : option (nmapping * bool)) :
  (if is_some (smap_arg_py sm) then
     dor u <- unwrap (smap_arg_py sm); dor r <- src_numpy_array_is_0_indexed_integers (snd u);
     if negb r then Err 4 else Ok tt
   else Ok tt) = if smap_bad sm then Err 4 else Ok tt.
Proof.
  destruct sm as [[m b]|]; cbn [smap_arg_py option_map is_some unwrap res_bind smap_bad fst snd]; [|reflexivity].
  unfold smap_py_of. cbn [snd]. rewrite src_valid_ids_is_model. reflexivity.
Qed.

Lemma opt_map_all_length {A B} (f : A -> option B) l : forall r, opt_map_all f l = Some r -> length r = length l.
Proof.
  induction l as [|a l IH]; intros r E; cbn [opt_map_all] in E; [now inversion E|].
  destruct (f a); cbn [opt_bind] in E; [|discriminate].
  destruct (opt_map_all f l) as [y|]; cbn [opt_bind] in E; [|discriminate]. inversion E. cbn [length]. now rewrite (IH y).
Qed.

Lemma encode_treatments_length keys c ex ids m : encode_treatments keys c ex = Ok (ids, m) -> length ids = length keys.
Proof.
  unfold encode_treatments. cbv zeta. set (mm := match ex with Some m0 => m0 | None => build_tmapping c keys end).
  destruct (opt_map_all (tlookup mm) keys) as [x|] eqn:E; [|discriminate]. intros H. inversion H. subst.
  now apply opt_map_all_length in E.
Qed.

(* the statement run on the arrays of a constructor call whose observations and mask are given: after the constructor
   model's arity and per-plate checks, it IS the id part of the model, read back by [stored_ids] *)
Theorem src_init_ids_is_model : forall rows a c tm sm,
  (0 < a)%nat ->
  match tm with Some (m, _) => NoDup (map fst m) | None => True end ->
  match sm with Some (m, _) => NoDup (map fst m) | None => True end ->
  (dor s <- mk_screen rows a c tm sm true true; Ok (stored_ids s))
  = if negb (arity_ok a rows) then Err 1
    else if negb (plate_uniform rows) then Err 2
    else src_init_ids (names_arr a rows) (doses_arr a rows) (map r_sample rows) (map r_plate rows)
                      (tmap_arg_py tm) (smap_arg_py sm) c.
Proof.
  intros rows a c tm sm Ha Htm Hsm. rewrite mk_screen_unfold.
  destruct (arity_ok a rows); cbn [negb andb res_bind]; [|reflexivity].
  cbv zeta. change (norm_rows true true rows) with rows.
  destruct (plate_uniform rows); cbn [negb res_bind]; [|reflexivity].
  unfold src_init_ids, names_arr, doses_arr, arr2_shape1. cbn [fst snd]. rewrite zrange_of_nat.
  set (T := map r_treats rows).
  set (N := map (fun r => map fst (r_treats r)) rows). set (D := map (fun r => map snd (r_treats r)) rows).
  assert (HN : N = map (map fst) T) by (unfold N, T; now rewrite map_map).
  assert (HD : D = map (map snd) T) by (unfold D, T; now rewrite map_map).
  (* the loop *)
  rewrite (res_fold_append_in _ (fun x => (column [] (Z.to_nat x) N, column 0 (Z.to_nat x) D))).
  2:{ intros acc x Hx. apply in_map_iff in Hx as (i & <- & Hi). apply in_seq in Hi.
      rewrite !arr2_col_in by lia. cbn [res_bind]. now rewrite Nat2Z.id. }
  cbn [res_bind app].
  assert (Hc : map (fun x => (column [] (Z.to_nat x) N, column 0 (Z.to_nat x) D)) (map Z.of_nat (seq 0 a))
               = map (fun i => (column [] i N, column 0 i D)) (seq 0 a))
    by (rewrite map_map; apply map_ext; intros i; now rewrite Nat2Z.id).
  rewrite Hc. clear Hc.
  set (e4 := @np_concat name _).
  assert (E4 : e4 = Ok (flatten_cols [] a N))
    by (apply (@src_flatten name [] a N (fun x => fst x) _ (fun i => (column [] i N, column 0 i D)) Ha eq_refl); reflexivity).
  rewrite E4. clear e4 E4. cbn [res_bind].
  set (e5 := @np_concat Z _).
  assert (E5 : e5 = Ok (flatten_cols 0 a D))
    by (apply (@src_flatten Z 0 a D (fun x => snd x) _ (fun i => (column [] i N, column 0 i D)) Ha eq_refl); reflexivity).
  rewrite E5. clear e5 E5. cbn [res_bind].
  replace (flatten_cols [] a N) with (map fst (the_tkeys a rows))
    by (unfold the_tkeys; fold T; rewrite HN; symmetry; exact (flatten_cols_map fst ([], 0) a T)).
  replace (flatten_cols 0 a D) with (map snd (the_tkeys a rows))
    by (unfold the_tkeys; fold T; rewrite HD; symmetry; exact (flatten_cols_map snd ([], 0) a T)).
  (* the two validations *)
  rewrite src_check_tmap. destruct (tmap_bad tm) eqn:Etm; cbn [res_bind]; [reflexivity|].
  rewrite src_check_smap. destruct (smap_bad sm) eqn:Esm; cbn [res_bind]; [reflexivity|].
  (* the treatment encoder *)
  rewrite src_encode_treatments_is_model.
  2:{ destruct tm as [[m b]|]; cbn [tmap_arg_py option_map fst snd]; [now rewrite tmap_py_rows_of | exact I]. }
  rewrite !map_length, Nat.eqb_refl. cbn [negb].
  replace (match tmap_arg_py tm with Some t => negb (tmap_py_aligned t) | None => false end) with false
    by (destruct tm as [[m b]|]; cbn [tmap_arg_py option_map fst snd]; [now rewrite tmap_py_aligned_of | reflexivity]).
  rewrite combine_fst_snd.
  replace (option_map tmap_py_rows (tmap_arg_py tm)) with (option_map fst tm)
    by (destruct tm as [[m b]|]; cbn [tmap_arg_py option_map fst snd]; [now rewrite tmap_py_rows_of | reflexivity]).
  set (et := encode_treatments (the_tkeys a rows) c (option_map fst tm)). change (encode_treatments _ _ _) with et.
  pose proof (eq_refl : encode_treatments (the_tkeys a rows) c (option_map fst tm) = et) as Et. clearbody et.
  destruct et as [[tflat tmp]|t]; cbn [res_bind fst snd]; [|reflexivity].
  (* split / vstack / T *)
  pose proof (src_unflatten tflat a (length rows) Ha) as Hu.
  rewrite (encode_treatments_length _ _ _ _ _ Et) in Hu. unfold the_tkeys in Hu. rewrite flatten_cols_length, map_length in Hu.
  specialize (Hu eq_refl).
  destruct (np_split (map Some tflat) (Z.of_nat a)) as [r1|]; cbn [res_bind] in Hu |- *; [|discriminate].
  destruct (np_vstack r1) as [r2|]; cbn [res_bind] in Hu |- *; [|discriminate].
  assert (Hu' : arr2_T None r2 = (a, map (map Some) (unflatten_cols a (length rows) tflat))) by congruence.
  rewrite Hu'. clear Hu Hu'.
  (* samples and plates *)
  rewrite src_encode_1d_is_model.
  2:{ destruct sm as [[m b]|]; cbn [smap_arg_py option_map fst snd]; [now rewrite smap_py_rows_of | exact I]. }
  replace (match smap_arg_py sm with Some t => negb (smap_py_aligned t) | None => false end) with false
    by (destruct sm as [[m b]|]; cbn [smap_arg_py option_map fst snd]; [now rewrite smap_py_aligned_of | reflexivity]).
  replace (option_map smap_py_rows (smap_arg_py sm)) with (option_map fst sm)
    by (destruct sm as [[m b]|]; cbn [smap_arg_py option_map fst snd]; [now rewrite smap_py_rows_of | reflexivity]).
  set (es := encode_names (map r_sample rows) (option_map fst sm) 6). change (encode_names _ (option_map _ sm) _) with es.
  clearbody es. destruct es as [[sids smp]|t]; cbn [res_bind fst snd]; [|reflexivity].
  rewrite (src_encode_1d_is_model _ None I). cbn [option_map].
  destruct (encode_names (map r_plate rows) None 6) as [[pids pmp]|t] eqn:Ep; cbn [res_bind fst snd]; reflexivity.
Qed.
