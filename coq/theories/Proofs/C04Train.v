(* C04 proofs about Model/Train.v. *)
From Coq Require Import ZArith List Bool QArith Qcanon Lia.
From Batchie Require Import Lib.Sexp Lib.Num Generated.Consts Model.Encode Model.Train.
Import ListNotations.
Open Scope Z_scope.

(* ------------------------------------------------------------------ generic list facts *)
Lemma filter_filter {A} (f g : A -> bool) (l : list A) :
  filter f (filter g l) = filter (fun x => g x && f x) l.
Proof.
  induction l as [|a l IH]; [reflexivity|].
  cbn [filter]. destruct (g a) eqn:Hg; cbn [filter andb].
  - destruct (f a); now rewrite IH.
  - exact IH.
Qed.

Lemma filter_idem {A} (f : A -> bool) (l : list A) : filter f (filter f l) = filter f l.
Proof.
  rewrite filter_filter. apply filter_ext. intros a. now destruct (f a).
Qed.

Lemma forallb_filter_self {A} (f : A -> bool) (l : list A) : forallb f (filter f l) = true.
Proof.
  apply forallb_forall. intros x Hx. now apply filter_In in Hx.
Qed.

Lemma existsb_false_filter_nil {A} (f : A -> bool) (l : list A) :
  existsb f l = false -> filter f l = [].
Proof.
  induction l as [|a l IH]; [reflexivity|].
  cbn [existsb filter]. intros H. apply orb_false_iff in H as [Ha Hl]. rewrite Ha. now apply IH.
Qed.

Lemma existsb_true_of_In {A} (f : A -> bool) (l : list A) x : In x l -> f x = true -> existsb f l = true.
Proof. intros Hin Hf. apply existsb_exists. now exists x. Qed.

Lemma forallb_false_of_In {A} (f : A -> bool) (l : list A) x : In x l -> f x = false -> forallb f l = false.
Proof.
  intros Hin Hf. destruct (forallb f l) eqn:E; [|reflexivity].
  rewrite forallb_forall in E. rewrite (E x Hin) in Hf. discriminate.
Qed.

Lemma res_map_all_ok {A B} (f : A -> result B) (g : A -> B) (l : list A) (out : list B) :
  (forall a b, f a = Ok b -> b = g a) ->
  res_map_all f l = Ok out -> out = map g l.
Proof.
  intros Hfg. revert out. induction l as [|a l IH]; intros out H; cbn [res_map_all] in H.
  - now inversion H.
  - destruct (f a) as [b|t] eqn:Ea; cbn [res_bind] in H; [|discriminate].
    destruct (res_map_all f l) as [bs|t] eqn:El; cbn [res_bind] in H; [|discriminate].
    inversion H; subst out. cbn [map]. f_equal; [now apply Hfg | now apply IH].
Qed.

Lemma res_map_all_total {A B} (f : A -> result B) (l : list A) :
  (forall a, In a l -> exists b, f a = Ok b) -> exists out, res_map_all f l = Ok out.
Proof.
  induction l as [|a l IH]; intros H; cbn [res_map_all].
  - now exists [].
  - destruct (H a (or_introl eq_refl)) as [b Hb]. rewrite Hb. cbn [res_bind].
    destruct IH as [bs Hbs]; [intros x Hx; apply H; now right|].
    rewrite Hbs. cbn [res_bind]. now eexists.
Qed.

(* ------------------------------------------------------------------ the relation *)
Lemma row_agree_observed_eq (a b : trow) : row_agree a b -> t_mask a = true -> a = b.
Proof.
  intros (Hs & Hp & Ht & Hm & Ho) Ha. specialize (Ho Ha).
  destruct a, b; cbn in *. now subst.
Qed.

Lemma same_except_masked_filter (s1 s2 : list trow) :
  same_except_masked s1 s2 -> filter t_mask s1 = filter t_mask s2.
Proof.
  induction 1 as [|a b l1 l2 Hab _ IH]; [reflexivity|].
  cbn [filter]. destruct (t_mask a) eqn:Ha.
  - rewrite <- (row_agree_observed_eq a b Hab Ha), Ha. now f_equal.
  - destruct Hab as (_ & _ & _ & Hm & _). rewrite <- Hm, Ha. exact IH.
Qed.

Lemma same_except_masked_existsb (s1 s2 : list trow) :
  same_except_masked s1 s2 -> existsb t_mask s1 = existsb t_mask s2.
Proof.
  induction 1 as [|a b l1 l2 Hab _ IH]; [reflexivity|].
  cbn [existsb]. destruct Hab as (_ & _ & _ & Hm & _). now rewrite Hm, IH.
Qed.

Lemma train_input_noninterference (s1 s2 : list trow) :
  same_except_masked s1 s2 -> train_input s1 = train_input s2.
Proof.
  intros H. unfold train_input.
  now rewrite (same_except_masked_existsb _ _ H), (same_except_masked_filter _ _ H).
Qed.

Lemma same_except_masked_refl (s : list trow) : same_except_masked s s.
Proof. induction s; constructor; [repeat split|assumption]. Qed.

(* ------------------------------------------------------------------ downstream frame *)
Lemma downstream_row_agree (a b : trow) : row_agree a b <-> downstream_row a = downstream_row b.
Proof.
  unfold row_agree, downstream_row. destruct a as [sa pa ta oa ma], b as [sb pb tb ob mb]; cbn.
  split.
  - intros (Hs & Hp & Ht & Hm & Ho). subst sb pb tb mb.
    destruct ma; [now rewrite Ho|reflexivity].
  - intros H. injection H as Hs Hp Ht Hm Ho. subst sb pb tb mb.
    repeat split. intros Ha. subst ma. now inversion Ho.
Qed.

Lemma downstream_frame_iff (s1 s2 : list trow) :
  same_except_masked s1 s2 <-> downstream_input s1 = downstream_input s2.
Proof.
  unfold downstream_input, same_except_masked. split.
  - induction 1 as [|a b l1 l2 Hab _ IH]; [reflexivity|].
    cbn [map]. f_equal; [exact (proj1 (downstream_row_agree a b) Hab) | exact IH].
  - revert s2. induction s1 as [|a l1 IH]; intros [|b l2] H; cbn [map] in H; try discriminate.
    + constructor.
    + assert (Hab : downstream_row a = downstream_row b)
        by exact (f_equal (fun l => hd (downstream_row a) l) H).
      assert (Hl : map downstream_row l1 = map downstream_row l2) by exact (f_equal (@tl _) H).
      constructor; [exact (proj2 (downstream_row_agree a b) Hab) | exact (IH l2 Hl)].
Qed.

Lemma downstream_frame (s1 s2 : list trow) :
  same_except_masked s1 s2 -> downstream_input s1 = downstream_input s2.
Proof. apply downstream_frame_iff. Qed.

Lemma downstream_frame_functions (A : Type) (f : list drow -> A) (s1 s2 : list trow) :
  same_except_masked s1 s2 -> f (downstream_input s1) = f (downstream_input s2).
Proof. intros H. now rewrite (downstream_frame _ _ H). Qed.

Lemma train_input_factors (s : list trow) : train_input s = view_train_input (downstream_input s).
Proof.
  unfold train_input, view_train_input, downstream_input.
  assert (He : existsb d_mask (map downstream_row s) = existsb t_mask s).
  { induction s as [|a l IH]; [reflexivity|]. cbn [map existsb]. now rewrite IH. }
  rewrite He. destruct (existsb t_mask s); [|reflexivity]. f_equal.
  clear He. induction s as [|a l IH]; [reflexivity|].
  cbn [map flat_map filter]. rewrite <- IH.
  unfold downstream_row at 1 2. cbn [d_mask d_obs d_sample d_plate d_treats].
  destruct (t_mask a) eqn:Ha; [|reflexivity].
  cbn [app]. f_equal. destruct a; cbn in *. now subst.
Qed.

(* ------------------------------------------------------------------ add_observations guard *)
Lemma add_observations_refuses_masked (S : Type) (inner : list trow -> result S) (rows : list trow) r :
  In r rows -> t_mask r = false -> add_observations inner rows = Err 1.
Proof.
  intros Hin Hm. unfold add_observations. now rewrite (forallb_false_of_In _ _ _ Hin Hm).
Qed.

Lemma add_observations_observed (S : Type) (inner : list trow -> result S) (rows : list trow) :
  add_observations inner (filter t_mask rows) = inner (filter t_mask rows).
Proof. unfold add_observations. now rewrite forallb_filter_self. Qed.

Lemma add_observations_err_or_inner (S : Type) (inner : list trow -> result S) (rows : list trow) :
  add_observations inner rows = Err 1 \/ add_observations inner rows = inner rows.
Proof. unfold add_observations. destruct (forallb t_mask rows); auto. Qed.

(* ------------------------------------------------------------------ SparseDrugCombo *)
Section WithOracles.
Variable orc : oracle.
Variable r32 : Qc -> oval.

Definition sdc_doc_trip (r : trow) : trip :=
  {| tr_y := sdc_transform orc r32 (t_obs r); tr_cl := t_sample r;
     tr_d1 := nth 0 (t_treats r) 0; tr_d2 := nth 1 (t_treats r) 0 |}.

Lemma sdc_trip_doc (r : trow) (t : trip) : sdc_trip orc r32 r = Ok t -> t = sdc_doc_trip r.
Proof.
  unfold sdc_trip, sdc_doc_trip. destruct (t_treats r) as [|d1 [|d2 rest]]; cbn; try discriminate.
  intros H. now inversion H.
Qed.

Lemma sdc_trip_total (r : trow) : (2 <= length (t_treats r))%nat -> exists t, sdc_trip orc r32 r = Ok t.
Proof.
  unfold sdc_trip. destruct (t_treats r) as [|d1 [|d2 rest]]; cbn; try lia. intros _. now eexists.
Qed.

Lemma train_sdc_noninterference (s1 s2 : list trow) :
  same_except_masked s1 s2 -> train_sdc orc r32 s1 = train_sdc orc r32 s2.
Proof. intros H. unfold train_sdc. now rewrite (train_input_noninterference _ _ H). Qed.

Lemma sdc_inner_ok (st : list trip) (rows : list trow) (out : list trip) :
  sdc_inner orc r32 st rows = Ok out -> out = st ++ map sdc_doc_trip (filter t_mask rows).
Proof.
  unfold sdc_inner.
  destruct (negb (forallb (fun r => o_nonneg (t_obs r)) rows)); [discriminate|].
  destruct (existsb (fun r => o_isnan (sdc_transform orc r32 (t_obs r))) rows); [discriminate|].
  destruct (res_map_all (sdc_trip orc r32) (filter t_mask rows)) as [new|t] eqn:E; cbn [res_bind]; [|discriminate].
  intros H. inversion H. f_equal.
  exact (res_map_all_ok _ _ _ _ sdc_trip_doc E).
Qed.

Lemma train_sdc_exactly_once (rows : list trow) (tr : list trip) :
  train_sdc orc r32 rows = Ok tr -> tr = map sdc_doc_trip (filter t_mask rows).
Proof.
  unfold train_sdc, train_input. destruct (existsb t_mask rows) eqn:E.
  - unfold sdc_add. rewrite add_observations_observed. intros H.
    apply sdc_inner_ok in H. now rewrite filter_idem in H.
  - intros H. inversion H. now rewrite existsb_false_filter_nil.
Qed.

Lemma train_sdc_accepts_valid (rows : list trow) :
  (forall r, In r rows -> t_mask r = true ->
     o_nonneg (t_obs r) = true /\ o_isnan (sdc_transform orc r32 (t_obs r)) = false /\
     (2 <= length (t_treats r))%nat) ->
  exists tr, train_sdc orc r32 rows = Ok tr.
Proof.
  intros H. unfold train_sdc, train_input. destruct (existsb t_mask rows); [|now eexists].
  unfold sdc_add. rewrite add_observations_observed. unfold sdc_inner.
  assert (H1 : forallb (fun r => o_nonneg (t_obs r)) (filter t_mask rows) = true).
  { apply forallb_forall. intros r Hr. apply filter_In in Hr as [Hin Hm]. now apply H. }
  rewrite H1. cbn [negb].
  assert (H2 : existsb (fun r => o_isnan (sdc_transform orc r32 (t_obs r))) (filter t_mask rows) = false).
  { destruct (existsb _ _) eqn:E; [|reflexivity].
    apply existsb_exists in E as (r & Hr & Hn). apply filter_In in Hr as [Hin Hm].
    destruct (H r Hin Hm) as (_ & Hnn & _). rewrite Hnn in Hn. discriminate. }
  rewrite H2. rewrite filter_idem.
  destruct (res_map_all_total (sdc_trip orc r32) (filter t_mask rows)) as [new Hnew].
  { intros r Hr. apply filter_In in Hr as [Hin Hm]. apply sdc_trip_total. now apply H. }
  rewrite Hnew. cbn [res_bind]. now eexists.
Qed.

(* refusal *)
Definition bad_obs (v : oval) : Prop := o_negative v = true \/ v = ONaN.

Lemma bad_obs_not_nonneg (v : oval) : bad_obs v -> o_nonneg v = false.
Proof.
  intros [H | H].
  - destruct v as [q| |neg]; cbn in *; try discriminate.
    + unfold qltb in H. unfold qleb. destruct (Qclt_le_dec q 0) as [Hlt|Hle]; [|discriminate].
      destruct (Qclt_le_dec q 0) as [_|Hle]; [reflexivity|].
      exfalso. exact (Qclt_not_le _ _ Hlt Hle).
    + now rewrite H.
  - now subst v.
Qed.

Lemma sdc_inner_refuses (st : list trip) (rows : list trow) r :
  In r rows -> bad_obs (t_obs r) -> sdc_inner orc r32 st rows = Err 2.
Proof.
  intros Hin Hbad. unfold sdc_inner.
  rewrite (forallb_false_of_In (fun r => o_nonneg (t_obs r)) rows r Hin (bad_obs_not_nonneg _ Hbad)).
  reflexivity.
Qed.

Lemma sdc_add_refuses (st : list trip) (rows : list trow) r :
  In r rows -> bad_obs (t_obs r) -> exists t, sdc_add orc r32 st rows = Err t.
Proof.
  intros Hin Hbad. unfold sdc_add.
  destruct (add_observations_err_or_inner _ (sdc_inner orc r32 st) rows) as [E|E]; rewrite E.
  - now eexists.
  - rewrite (sdc_inner_refuses st rows r Hin Hbad). now eexists.
Qed.

Lemma train_sdc_refuses (rows : list trow) r :
  In r rows -> t_mask r = true -> bad_obs (t_obs r) -> exists t, train_sdc orc r32 rows = Err t.
Proof.
  intros Hin Hm Hbad. unfold train_sdc, train_input.
  rewrite (existsb_true_of_In t_mask rows r Hin Hm).
  apply sdc_add_refuses with (r := r); [|exact Hbad]. apply filter_In. now split.
Qed.

(* the documented transform *)
Lemma clip_lo_pos : (0 < clip_lo)%Qc. Proof. now vm_compute. Qed.
Lemma clip_lo_le_hi : (clip_lo <= clip_hi)%Qc. Proof. now vm_compute. Qed.
Lemma clip_hi_lt_1 : (clip_hi < 1)%Qc. Proof. now vm_compute. Qed.

Lemma qclip_bounds (lo hi x : Qc) : (lo <= hi)%Qc -> (lo <= qclip lo hi x)%Qc /\ (qclip lo hi x <= hi)%Qc.
Proof.
  intros Hlh. unfold qclip, qltb.
  destruct (Qclt_le_dec x lo) as [H1|H1].
  - split; [apply Qcle_refl | exact Hlh].
  - destruct (Qclt_le_dec hi x) as [H2|H2].
    + split; [exact Hlh | apply Qcle_refl].
    + split; assumption.
Qed.

Lemma ologit_interior (p : Qc) : (0 < p)%Qc -> (p < 1)%Qc -> ologit orc (OFin p) = OFin (orc ORC_LOGIT p).
Proof.
  intros H0 H1. unfold ologit, qltb, qeqb.
  destruct (Qclt_le_dec p 0) as [H|H]; [exfalso; exact (Qclt_not_le _ _ H (Qclt_le_weak _ _ H0))|].
  destruct (Qc_eq_dec p 0) as [E|E]; [subst p; exfalso; exact (Qclt_not_eq _ _ H0 eq_refl)|].
  destruct (Qclt_le_dec 1 p) as [H2|H2]; [exfalso; exact (Qclt_not_le _ _ H2 (Qclt_le_weak _ _ H1))|].
  destruct (Qc_eq_dec p 1) as [E1|E1]; [subst p; exfalso; exact (Qclt_not_eq _ _ H1 eq_refl)|].
  reflexivity.
Qed.

Lemma sdc_transform_documented (v : oval) :
  (forall q, cast32 r32 v = OFin q ->
     sdc_transform orc r32 v = OFin (orc ORC_LOGIT (qclip clip_lo clip_hi q))) /\
  (cast32 r32 v = OInf false -> sdc_transform orc r32 v = OFin (orc ORC_LOGIT clip_hi)) /\
  (cast32 r32 v = OInf true -> sdc_transform orc r32 v = OFin (orc ORC_LOGIT clip_lo)) /\
  (cast32 r32 v = ONaN -> sdc_transform orc r32 v = ONaN).
Proof.
  unfold sdc_transform. repeat split.
  - intros q Hq. rewrite Hq. cbn [oclip].
    destruct (qclip_bounds clip_lo clip_hi q clip_lo_le_hi) as [Hl Hh].
    apply ologit_interior.
    + exact (Qclt_le_trans _ _ _ clip_lo_pos Hl).
    + exact (Qcle_lt_trans _ _ _ Hh clip_hi_lt_1).
  - intros H. rewrite H. cbn [oclip]. apply ologit_interior.
    + exact (Qclt_le_trans _ _ _ clip_lo_pos clip_lo_le_hi).
    + exact clip_hi_lt_1.
  - intros H. rewrite H. cbn [oclip]. apply ologit_interior.
    + exact clip_lo_pos.
    + exact (Qcle_lt_trans _ _ _ clip_lo_le_hi clip_hi_lt_1).
  - intros H. now rewrite H.
Qed.

(* ------------------------------------------------------------------ SparseDrugComboInteraction *)
Section Flags.
Variables fm gneg gnan : bool.

Lemma train_int_noninterference (arity : nat) (s1 s2 : list trow) :
  same_except_masked s1 s2 ->
  train_int orc r32 fm gneg gnan arity s1 = train_int orc r32 fm gneg gnan arity s2.
Proof. intros H. unfold train_int. now rewrite (train_input_noninterference _ _ H). Qed.

Lemma int_inner_ok (st st' : istate) (arity : nat) (rows : list trow) :
  int_inner orc r32 fm gneg gnan st arity rows = Ok st' ->
  arity = 2%nat /\
  i_lookup st' = lk_update (i_lookup st) (single_effect_map arity rows) /\
  i_train st' = i_train st ++ map (int_trip orc r32) (filter (fun r => combo_sel fm arity r && t_mask r) rows).
Proof.
  unfold int_inner.
  destruct (Nat.eqb arity 2) eqn:Ea; cbn [negb]; [|discriminate].
  destruct (gneg && negb (forallb (fun r => o_nonneg (t_obs r)) rows)); [discriminate|].
  destruct (gnan && existsb _ _); [discriminate|].
  intros H. inversion H. cbn [i_lookup i_train]. rewrite filter_filter.
  apply Nat.eqb_eq in Ea. now repeat split.
Qed.

Lemma train_int_ok (arity : nat) (rows : list trow) (st : istate) :
  train_int orc r32 fm gneg gnan arity rows = Ok st ->
  i_lookup st = lk_update [] (single_effect_map arity (filter t_mask rows)) \/ (existsb t_mask rows = false /\ i_lookup st = []).
Proof.
  unfold train_int, train_input. destruct (existsb t_mask rows) eqn:E.
  - unfold int_add. rewrite add_observations_observed. intros H.
    apply int_inner_ok in H as (_ & Hl & _). now left.
  - intros H. inversion H. now right.
Qed.

Lemma train_int_training_rows (arity : nat) (rows : list trow) (st : istate) :
  train_int orc r32 fm gneg gnan arity rows = Ok st ->
  i_train st = map (int_trip orc r32) (filter (fun r => t_mask r && combo_sel fm arity r) rows).
Proof.
  unfold train_int, train_input. destruct (existsb t_mask rows) eqn:E.
  - unfold int_add. rewrite add_observations_observed. intros H.
    apply int_inner_ok in H as (_ & _ & Ht). cbn [i_train istate0 app] in Ht. rewrite Ht.
    rewrite filter_filter. f_equal. apply filter_ext. intros r.
    destruct (t_mask r), (combo_sel fm arity r); reflexivity.
  - intros H. inversion H. cbn [i_train].
    assert (Hnil : filter (fun r => t_mask r && combo_sel fm arity r) rows = []).
    { apply existsb_false_filter_nil.
      destruct (existsb (fun r => t_mask r && combo_sel fm arity r) rows) eqn:E2; [|reflexivity].
      apply existsb_exists in E2 as (r & Hin & Hr). apply andb_true_iff in Hr as [Hm _].
      rewrite (existsb_true_of_In t_mask rows r Hin Hm) in E. discriminate. }
    now rewrite Hnil.
Qed.

Lemma int_inner_refuses (st : istate) (arity : nat) (rows : list trow) r :
  gneg = true -> In r rows -> bad_obs (t_obs r) ->
  exists t, int_inner orc r32 fm gneg gnan st arity rows = Err t.
Proof.
  intros Hg Hin Hbad. unfold int_inner. subst gneg.
  destruct (negb (Nat.eqb arity 2)); [now eexists|].
  rewrite (forallb_false_of_In (fun r => o_nonneg (t_obs r)) rows r Hin (bad_obs_not_nonneg _ Hbad)).
  cbn [negb andb]. now eexists.
Qed.

Lemma int_add_refuses (st : istate) (arity : nat) (rows : list trow) r :
  gneg = true -> In r rows -> bad_obs (t_obs r) ->
  exists t, int_add orc r32 fm gneg gnan st arity rows = Err t.
Proof.
  intros Hg Hin Hbad. unfold int_add.
  destruct (add_observations_err_or_inner _ (int_inner orc r32 fm gneg gnan st arity) rows) as [E|E]; rewrite E.
  - now eexists.
  - now apply int_inner_refuses with (r := r).
Qed.

Lemma train_int_refuses (arity : nat) (rows : list trow) r :
  gneg = true -> In r rows -> t_mask r = true -> bad_obs (t_obs r) ->
  exists t, train_int orc r32 fm gneg gnan arity rows = Err t.
Proof.
  intros Hg Hin Hm Hbad. unfold train_int, train_input.
  rewrite (existsb_true_of_In t_mask rows r Hin Hm).
  apply int_add_refuses with (r := r); [exact Hg | | exact Hbad]. apply filter_In. now split.
Qed.
End Flags.

(* with the repaired mask the selected rows are the rows without a control id *)
Definition no_control (r : trow) : bool := Nat.eqb (count_ctrl (t_treats r)) 0.

Lemma train_int_exactly_once (gneg gnan : bool) (arity : nat) (rows : list trow) (st : istate) :
  train_int orc r32 true gneg gnan arity rows = Ok st ->
  i_train st = map (int_trip orc r32) (filter (fun r => t_mask r && no_control r) rows).
Proof. intros H. now rewrite (train_int_training_rows true gneg gnan arity rows st H). Qed.

End WithOracles.

(* ------------------------------------------------------------------ the single-effect map *)
Lemma single_effect_map_value (arity : nat) (rows : list trow) (s t : Z) (v : oval) :
  In ((s, t), v) (single_effect_map arity rows) ->
  (t = CONTROL_SENTINEL_VALUE /\ v = OFin 1%Qc) \/
  (t <> CONTROL_SENTINEL_VALUE /\
   filter (fun r => is_single arity r && single_matches s t r) rows <> [] /\
   v = omean (map t_obs (filter (fun r => is_single arity r && single_matches s t r) rows))).
Proof.
  unfold single_effect_map. intros H.
  apply in_flat_map in H as (s' & _ & H).
  apply in_flat_map in H as (t' & _ & H).
  destruct (t' =? CONTROL_SENTINEL_VALUE) eqn:Et.
  - destruct H as [H|[]]. inversion H; subst. left. split; [now apply Z.eqb_eq|reflexivity].
  - rewrite filter_filter in H.
    destruct (filter (fun x => is_single arity x && single_matches s' t' x) rows) as [|m0 ms] eqn:Ef; [destruct H|].
    destruct H as [H|[]]. inversion H; subst. right. rewrite Ef.
    split; [now apply Z.eqb_neq|]. split; [discriminate|reflexivity].
Qed.

(* ------------------------------------------------------------------ statements as used in Props/C04.v *)
Lemma sdc_exactly_once_full (orc : oracle) (r32 : Qc -> oval) (rows : list trow) :
  (forall tr, train_sdc orc r32 rows = Ok tr -> tr = map (sdc_doc_trip orc r32) (filter t_mask rows)) /\
  ((forall r, In r rows -> t_mask r = true ->
      o_nonneg (t_obs r) = true /\ o_isnan (sdc_transform orc r32 (t_obs r)) = false /\
      (2 <= length (t_treats r))%nat) ->
   exists tr, train_sdc orc r32 rows = Ok tr).
Proof. split; [exact (train_sdc_exactly_once orc r32 rows) | exact (train_sdc_accepts_valid orc r32 rows)]. Qed.

Lemma single_effect_documented_full (orc : oracle) (r32 : Qc -> oval) (fm gneg gnan : bool) (arity : nat)
      (rows : list trow) (st : istate) :
  train_int orc r32 fm gneg gnan arity rows = Ok st ->
  (i_lookup st = lk_update [] (single_effect_map arity (filter t_mask rows))
   \/ (existsb t_mask rows = false /\ i_lookup st = [])) /\
  forall obs s t v, In ((s, t), v) (single_effect_map arity obs) ->
    (t = CONTROL_SENTINEL_VALUE /\ v = OFin 1%Qc) \/
    (t <> CONTROL_SENTINEL_VALUE /\
     filter (fun r => is_single arity r && single_matches s t r) obs <> [] /\
     v = omean (map t_obs (filter (fun r => is_single arity r && single_matches s t r) obs))).
Proof.
  intros H. split.
  - exact (train_int_ok orc r32 fm gneg gnan arity rows st H).
  - intros obs. exact (single_effect_map_value arity obs).
Qed.

Lemma refuses_negative_nan_sdc_full (orc : oracle) (r32 : Qc -> oval) (rows : list trow) r :
  In r rows -> (o_negative (t_obs r) = true \/ t_obs r = ONaN) ->
  (forall st, exists t, sdc_add orc r32 st rows = Err t) /\
  (t_mask r = true -> exists t, train_sdc orc r32 rows = Err t).
Proof.
  intros Hin Hbad. split.
  - intros st. exact (sdc_add_refuses orc r32 st rows r Hin Hbad).
  - intros Hm. exact (train_sdc_refuses orc r32 rows r Hin Hm Hbad).
Qed.

Lemma refuses_negative_nan_int_full (orc : oracle) (r32 : Qc -> oval) (fm gnan : bool) (arity : nat)
      (rows : list trow) r :
  In r rows -> (o_negative (t_obs r) = true \/ t_obs r = ONaN) ->
  (forall st, exists t, int_add orc r32 fm true gnan st arity rows = Err t) /\
  (t_mask r = true -> exists t, train_int orc r32 fm true gnan arity rows = Err t).
Proof.
  intros Hin Hbad. split.
  - intros st. exact (int_add_refuses orc r32 fm true gnan st arity rows r eq_refl Hin Hbad).
  - intros Hm. exact (train_int_refuses orc r32 fm true gnan arity rows r eq_refl Hin Hm Hbad).
Qed.

Lemma downstream_frame_full (s1 s2 : list trow) :
  (same_except_masked s1 s2 <-> downstream_input s1 = downstream_input s2) /\
  (same_except_masked s1 s2 ->
     forall (A : Type) (f : list drow -> A), f (downstream_input s1) = f (downstream_input s2)) /\
  train_input s1 = view_train_input (downstream_input s1).
Proof.
  split; [exact (downstream_frame_iff s1 s2)|]. split.
  - intros H A f. exact (downstream_frame_functions A f s1 s2 H).
  - exact (train_input_factors s1).
Qed.
