(* C18 — the interaction model is explicit: outputs and request traces are functions of the
   program and the answers it consumes; generator-driven execution is replay; a program that
   draws only through its own generator frames out the global generator state. *)
From Coq Require Import ZArith List Bool Lia.
From Batchie Require Import Lib.Sexp Model.RandProg.
Import ListNotations.
Open Scope Z_scope.

Section Generic.
  Context {Req Ans : Type}.

  (* ---------------------------------------------------------------- replay *)

  Lemma run_length : forall Out (p : prog Req Ans Out) a o rs,
    run p a = Ok (o, rs) -> (length rs <= length a)%nat.
  Proof.
    intros Out p. induction p as [o0 | r k IH]; intros a o rs H.
    - cbn in H. inversion H. cbn. lia.
    - cbn in H. destruct a as [| x rest]; [discriminate |].
      destruct (run (k x) rest) as [[o1 rs1] | t] eqn:E; [| discriminate].
      inversion H; subst. cbn. apply IH in E. lia.
  Qed.

  (* the answers beyond the consumed prefix are irrelevant; so is everything else *)
  Lemma run_prefix : forall Out (p : prog Req Ans Out) a o rs,
    run p a = Ok (o, rs) ->
    forall a', firstn (length rs) a' = firstn (length rs) a -> run p a' = Ok (o, rs).
  Proof.
    intros Out p. induction p as [o0 | r k IH]; intros a o rs H a' Hpre.
    - cbn in *. exact H.
    - cbn in H. destruct a as [| x rest]; [discriminate |].
      destruct (run (k x) rest) as [[o1 rs1] | t] eqn:E; [| discriminate].
      inversion H; subst o rs. cbn [length firstn] in Hpre.
      destruct a' as [| x' rest']; [discriminate |].
      inversion Hpre as [[Hx Hrest]]. subst x'.
      cbn. rewrite (IH x rest o1 rs1 E rest' Hrest). reflexivity.
  Qed.

  Lemma run_app : forall Out (p : prog Req Ans Out) a o rs extra,
    run p a = Ok (o, rs) -> run p (firstn (length rs) a ++ extra) = Ok (o, rs).
  Proof.
    intros Out p a o rs extra H. apply (run_prefix _ p a o rs H).
    pose proof (run_length _ p a o rs H) as Hl.
    rewrite firstn_app, firstn_firstn, Nat.min_id.
    rewrite firstn_length, Nat.min_l by exact Hl.
    rewrite Nat.sub_diag. cbn. apply app_nil_r.
  Qed.

  (* ---------------------------------------------------------------- execution = replay *)

  Lemma exec_is_replay : forall Out S (gen : S -> Req -> Ans * S) (p : prog Req Ans Out) s,
    run p (o_answers (exec gen p s)) = Ok (o_out (exec gen p s), o_reqs (exec gen p s))
    /\ length (o_answers (exec gen p s)) = length (o_reqs (exec gen p s)).
  Proof.
    intros Out S gen p. induction p as [o0 | r k IH]; intros s.
    - cbn. split; reflexivity.
    - cbn. destruct (IH (fst (gen s r)) (snd (gen s r))) as [H1 H2].
      rewrite H1. split; [reflexivity | now rewrite H2].
  Qed.

  Lemma answers_determine_run :
    forall Out S1 S2 (g1 : S1 -> Req -> Ans * S1) (g2 : S2 -> Req -> Ans * S2)
           (p : prog Req Ans Out) s1 s2,
    o_answers (exec g1 p s1) = o_answers (exec g2 p s2) ->
    o_out (exec g1 p s1) = o_out (exec g2 p s2) /\ o_reqs (exec g1 p s1) = o_reqs (exec g2 p s2).
  Proof.
    intros Out S1 S2 g1 g2 p s1 s2 H.
    destruct (exec_is_replay Out S1 g1 p s1) as [H1 _].
    destruct (exec_is_replay Out S2 g2 p s2) as [H2 _].
    rewrite H in H1. rewrite H1 in H2. inversion H2. split; reflexivity.
  Qed.

  Lemma replay_deterministic :
    forall Out S (g1 g2 : S -> Req -> Ans * S) (p : prog Req Ans Out) s1 s2,
    (forall s r, g1 s r = g2 s r) -> s1 = s2 -> exec g1 p s1 = exec g2 p s2.
  Proof.
    intros Out S g1 g2 p. induction p as [o0 | r k IH]; intros s1 s2 Hg Hs; subst s2.
    - reflexivity.
    - cbn. rewrite Hg. rewrite (IH (fst (g2 s1 r)) (snd (g2 s1 r)) (snd (g2 s1 r)) Hg eq_refl).
      reflexivity.
  Qed.

  (* ---------------------------------------------------------------- frame *)

  Lemma frame :
    forall Out S G (gen : S -> Req -> Ans * S) (wstep : S * G -> Req -> Ans * (S * G))
           (p : prog Req Ans Out),
    (forall s g r, wstep (s, g) r = (fst (gen s r), (snd (gen s r), g))) ->
    forall s g,
      o_out (exec wstep p (s, g)) = o_out (exec gen p s)
      /\ o_reqs (exec wstep p (s, g)) = o_reqs (exec gen p s)
      /\ o_answers (exec wstep p (s, g)) = o_answers (exec gen p s)
      /\ o_final (exec wstep p (s, g)) = (o_final (exec gen p s), g).
  Proof.
    intros Out S G gen wstep p Hown. induction p as [o0 | r k IH]; intros s g.
    - cbn. repeat split; reflexivity.
    - cbn. rewrite Hown. cbn [fst snd].
      destruct (IH (fst (gen s r)) (snd (gen s r)) g) as (H1 & H2 & H3 & H4).
      rewrite H1, H2, H3, H4. repeat split; reflexivity.
  Qed.

  Lemma own_only_is_own : forall S G (gen : S -> Req -> Ans * S) (s : S) (g : G) r,
    own_only gen (s, g) r = (fst (gen s r), (snd (gen s r), g)).
  Proof. reflexivity. Qed.

  Lemma two_runs_interleaved :
    forall Out S G (gen : S -> Req -> Ans * S) (wstep : S * G -> Req -> Ans * (S * G))
           (p : prog Req Ans Out) (perturb : G -> G),
    (forall s g r, wstep (s, g) r = (fst (gen s r), (snd (gen s r), g))) ->
    forall s g,
      let run1 := exec wstep p (s, g) in
      let run2 := exec wstep p (s, perturb (snd (o_final run1))) in
      o_out run1 = o_out run2 /\ o_reqs run1 = o_reqs run2 /\ o_answers run1 = o_answers run2
      /\ fst (o_final run1) = fst (o_final run2)
      /\ snd (o_final run1) = g /\ snd (o_final run2) = perturb g.
  Proof.
    intros Out S G gen wstep p perturb Hown s g run1 run2. subst run1 run2.
    destruct (frame Out S G gen wstep p Hown s g) as (A1 & A2 & A3 & A4).
    rewrite A4. cbn [snd fst].
    destruct (frame Out S G gen wstep p Hown s (perturb g)) as (B1 & B2 & B3 & B4).
    rewrite A1, A2, A3, B1, B2, B3, B4. cbn [fst snd]. repeat split; reflexivity.
  Qed.

  (* ---------------------------------------------------------------- sequencing *)

  Lemma run_bind : forall A B (p : prog Req Ans A) (f : A -> prog Req Ans B) a x r1,
    run p a = Ok (x, r1) ->
    run (bind p f) a =
      match run (f x) (skipn (length r1) a) with
      | Ok (y, r2) => Ok (y, r1 ++ r2)
      | Err t => Err t
      end.
  Proof.
    intros A B p f. induction p as [o0 | r k IH]; intros a x r1 H.
    - cbn in H. inversion H; subst. cbn.
      destruct (run (f x) a) as [[y r2] | t]; reflexivity.
    - cbn in H. destruct a as [| x0 rest]; [discriminate |].
      destruct (run (k x0) rest) as [[o1 rs1] | t] eqn:E; [| discriminate].
      inversion H; subst x r1. cbn. rewrite (IH x0 rest o1 rs1 E).
      destruct (run (f o1) (skipn (length rs1) rest)) as [[y r2] | t]; reflexivity.
  Qed.

  Lemma run_bind_err : forall A B (p : prog Req Ans A) (f : A -> prog Req Ans B) a t,
    run p a = Err t -> run (bind p f) a = Err t.
  Proof.
    intros A B p f. induction p as [o0 | r k IH]; intros a t H.
    - cbn in H. discriminate.
    - cbn in H. cbn. destruct a as [| x0 rest]; [inversion H; reflexivity |].
      destruct (run (k x0) rest) as [[o1 rs1] | t1] eqn:E; [discriminate |].
      inversion H; subst. rewrite (IH x0 rest t E). reflexivity.
  Qed.

  Lemma run_bind_ret : forall A B (p : prog Req Ans A) (g : A -> B) a,
    run (bind p (fun x => Ret (g x))) a =
      match run p a with Ok (x, rs) => Ok (g x, rs) | Err t => Err t end.
  Proof.
    intros A B p g a. destruct (run p a) as [[x rs] | t] eqn:E.
    - rewrite (run_bind _ _ p _ a x rs E). cbn. now rewrite app_nil_r.
    - apply run_bind_err. exact E.
  Qed.

  Lemma bind_sequential : forall A B (p : prog Req Ans A) (f : A -> prog Req Ans B) a1 a2 x r1 y r2,
    run p a1 = Ok (x, r1) -> length a1 = length r1 -> run (f x) a2 = Ok (y, r2) ->
    run (bind p f) (a1 ++ a2) = Ok (y, r1 ++ r2).
  Proof.
    intros A B p f a1 a2 x r1 y r2 H1 Hl H2.
    assert (Hp : run p (a1 ++ a2) = Ok (x, r1)).
    { apply (run_prefix _ p a1 x r1 H1). rewrite <- Hl.
      rewrite firstn_app, Nat.sub_diag, firstn_all. cbn. now rewrite app_nil_r. }
    rewrite (run_bind _ _ p f (a1 ++ a2) x r1 Hp).
    rewrite <- Hl, skipn_app, skipn_all, Nat.sub_diag. cbn. rewrite H2. reflexivity.
  Qed.

  (* a loop with one draw per item *)
  Lemma for_each_trace : forall A B (rq : A -> Req) (post : A -> Ans -> B) l answers,
    (length l <= length answers)%nat ->
    run (for_each (fun x => Draw (rq x) (fun a => Ret (post x a))) l) answers
    = Ok (map (fun xa => post (fst xa) (snd xa)) (combine l answers), map rq l).
  Proof.
    intros A B rq post l. induction l as [| x r IH]; intros answers Hl.
    - reflexivity.
    - destruct answers as [| a rest]; [cbn in Hl; lia |].
      cbn [for_each bind run]. rewrite run_bind_ret. rewrite IH by (cbn in Hl; lia).
      reflexivity.
  Qed.

  Lemma for_each_short : forall A B (rq : A -> Req) (post : A -> Ans -> B) l answers,
    (length answers < length l)%nat ->
    run (for_each (fun x => Draw (rq x) (fun a => Ret (post x a))) l) answers = Err 1.
  Proof.
    intros A B rq post l. induction l as [| x r IH]; intros answers Hl.
    - cbn in Hl. lia.
    - destruct answers as [| a rest]; [reflexivity |].
      cbn [for_each bind run]. rewrite run_bind_ret. rewrite IH by (cbn in Hl; lia).
      reflexivity.
  Qed.
End Generic.

(* ---------------------------------------------------------------- the mirrored operations *)

Lemma random_scorer_trace : forall plates answers,
  (length plates <= length answers)%nat ->
  run (random_scorer_prog plates) answers
  = Ok (map (fun xa => (fst xa, hd 0 (snd xa))) (combine plates answers),
        map (fun _ => RRandom) plates).
Proof.
  intros plates answers H. unfold random_scorer_prog, random_scorer_body.
  exact (for_each_trace Z (Z * Z) (fun _ => RRandom) (fun pid a => (pid, hd 0 a)) plates answers H).
Qed.

Lemma balanced_loop_trace : forall num den plates answers outs reqs,
  run (for_each (balanced_holdout_body num den) plates) answers = Ok (outs, reqs) ->
  reqs = map (balanced_holdout_req num den) (filter (fun pl => negb (snd pl)) plates).
Proof.
  intros num den plates. induction plates as [| pl rest IH]; intros answers outs reqs H.
  - cbn in H. inversion H. reflexivity.
  - cbn [for_each] in H. unfold balanced_holdout_body at 1 in H.
    cbn [filter]. destruct (snd pl) eqn:Eo; cbn [negb].
    + cbn [bind] in H. rewrite run_bind_ret in H.
      destruct (run (for_each (balanced_holdout_body num den) rest) answers) as [[x rs] | t] eqn:E;
        [| discriminate].
      inversion H; subst. exact (IH answers x reqs E).
    + cbn [bind run] in H. destruct answers as [| a arest]; [discriminate |].
      rewrite run_bind_ret in H.
      destruct (run (for_each (balanced_holdout_body num den) rest) arest) as [[x rs] | t] eqn:E;
        [| discriminate].
      inversion H; subst. cbn [map]. f_equal. exact (IH arest x rs E).
Qed.

Lemma balanced_holdout_trace : forall plates num den answers out reqs,
  run (balanced_holdout_prog plates num den) answers = Ok (out, reqs) ->
  reqs = map (balanced_holdout_req num den) (filter (fun pl => negb (snd pl)) plates).
Proof.
  intros plates num den answers out reqs H. unfold balanced_holdout_prog in H.
  rewrite run_bind_ret in H.
  destruct (run (for_each (balanced_holdout_body num den) plates) answers) as [[x rs] | t] eqn:E;
    [| discriminate].
  inversion H; subst. exact (balanced_loop_trace num den plates answers x reqs E).
Qed.

(* what the legacy Gibbs sampler does: the draw is served from the GLOBAL component *)
Definition leaky_prog : prog req ans Z := Draw RRandom (fun a => Ret (hd 0 a)).
Definition counter_gen (g : Z) (_ : req) : ans * Z := ([g], g + 1).

Lemma global_draws_refuted :
  exists (p : prog req ans Z) (ggen : Z -> req -> ans * Z) (s g1 g2 : Z),
    o_out (exec (from_global ggen) p (s, g1)) <> o_out (exec (from_global ggen) p (s, g2))
    /\ snd (o_final (exec (from_global ggen) p (s, g1))) <> g1.
Proof.
  exists leaky_prog, counter_gen, 0, 5, 6. vm_compute. split; discriminate.
Qed.
